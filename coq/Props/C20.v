(** C20 - Date and time filters agree with the Gregorian calendar and invert each other. (first stage)
    Model: Std/Time.v (mirrors jaq-std/src/time.rs for integer epochs in UTC; jiff's civil arithmetic by the
    era-based day-count algorithms). *)
From Coq Require Import ZArith Bool List.
From JaqV Require Import Std.Time Proofs.TimeLaws Proofs.TimeRoundtrip.
Local Open Scope Z_scope.

(** every day number, over all of Z, maps to a calendar date and back *)
Theorem civil_days_bijection : forall z, let '(y, m, d) := civil_from_days z in days_from_civil y m d = z.
Proof. exact days_civil_roundtrip. Qed.
Print Assumptions civil_days_bijection.

Theorem civil_date_well_formed : forall z, let '(y, m, d) := civil_from_days z in 1 <= m <= 12 /\ 1 <= d <= 31.
Proof. exact civil_in_range. Qed.
Print Assumptions civil_date_well_formed.

(** agreement with an independently written calendar (leap rule, month lengths, day count by years) on every valid date of
    a full 400-year era, and the 400-year periodicity that carries it to all other years *)
Theorem gmtime_is_gregorian_era : forallb date_check (zrange_z 0 400) = true.
Proof. exact dates_all. Qed.
Print Assumptions gmtime_is_gregorian_era.

Theorem calendar_period : forall y m d, days_from_civil (y + 400) m d = days_from_civil y m d + 146097.
Proof. exact days_from_civil_period. Qed.
Print Assumptions calendar_period.

(** never wrapped or clamped: an epoch whose microsecond count leaves i64 or jiff's range is rejected *)
Theorem out_of_range_rejected : forall t, (t * 1000000 < ts_min_us \/ ts_max_us < t * 1000000) ->
  gmtime_int t = TRange \/ gmtime_int t = TConvert.
Proof.
  intros t H. unfold gmtime_int, epoch_us.
  destruct ((t * 1000000 <? i64_min) || (i64_max <? t * 1000000)); [right; reflexivity|].
  destruct (Z.ltb_spec (t * 1000000) ts_min_us) as [A|A]; [left; reflexivity|].
  destruct (Z.ltb_spec ts_max_us (t * 1000000)) as [B|B]; [left; reflexivity|].
  exfalso. generalize dependent (t * 1000000). intros u [H|H] A B.
  - apply (Z.lt_irrefl u). eapply Z.lt_le_trans; eassumption.
  - apply (Z.lt_irrefl u). eapply Z.le_lt_trans; eassumption.
Qed.
Print Assumptions out_of_range_rejected.

(** the date of every day number is a valid date of the calendar (leap years included) *)
Theorem civil_date_valid : forall z, let '(y, m, d) := civil_from_days z in valid_date y m d = true.
Proof. exact TimeRoundtrip.civil_valid. Qed.
Print Assumptions civil_date_valid.

(** gmtime | mktime is the identity on every whole number of seconds that gmtime accepts *)
Theorem mktime_of_gmtime : forall t y m0 d h mi s rest,
  gmtime_int t = TOk (y :: m0 :: d :: h :: mi :: s :: rest) -> mktime_int y m0 d h mi s = TOk t.
Proof. exact TimeRoundtrip.mktime_of_gmtime. Qed.
Print Assumptions mktime_of_gmtime.

Example gmtime_example : gmtime_int 951782400 = TOk (2000 :: 1 :: 29 :: 0 :: 0 :: 0 :: 2 :: 59 :: nil).
Proof. reflexivity. Qed.
