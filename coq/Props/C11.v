(** C11 - Stream combinators and generators satisfy their defining equations.
    Model: Core/Natives.v (mirrors the native limit/skip/first/last of jaq-core/src/funs.rs). *)
From Coq Require Import ZArith Bool List.
From JaqV Require Import Base.Bytes Base.Stream Val.Num Val.Val Core.Syntax Core.Natives Core.Run Proofs.StreamLaws Proofs.FoldLaws Proofs.LastLaws.
From JaqV Require Proofs.CompileCorrect.
Local Open Scope Z_scope.

(** limit(n; f) followed by skip(n; f) reproduces f: for every machine-integer count and every stream,
    including streams that end in an error, a break or never end within the fuel *)
Theorem limit_skip_append : forall A (s : str A) k, in_isize k = true ->
  sapp (limit (vint k) (fun _ => s)) (fun _ => skip (vint k) s) = s.
Proof. exact @limit_skip. Qed.
Print Assumptions limit_skip_append.

Theorem limit_nonpositive_is_empty : forall A (s : unit -> str A) k, k <= 0 -> limit (vint k) s = SNil.
Proof. exact @limit_nonpos. Qed.
Print Assumptions limit_nonpositive_is_empty.

Theorem skip_nonpositive_is_identity : forall A (s : str A) k, k <= 0 -> skip (vint k) s = s.
Proof. exact @skip_nonpos. Qed.
Print Assumptions skip_nonpositive_is_identity.

Theorem first_def : forall A (s : str A), first_s s = limit (vint 1) (fun _ => s).
Proof. exact @first_is_limit_1. Qed.
Print Assumptions first_def.

(** the first error ends the stream and is reported once: nothing can follow an exception *)
Theorem first_error_ends_once : forall A B e (r : unit -> str A) (f : A -> str B),
  sapp (SExn e) r = SExn e /\ sbind (SExn e) f = SExn e.
Proof. intros. split; reflexivity. Qed.
Print Assumptions first_error_ends_once.

Example limit_skip_example :
  collect (sapp (limit (vint 2) (fun _ => of_list (1 :: 2 :: 3 :: nil))) (fun _ => skip (vint 2) (of_list (1 :: 2 :: 3 :: nil))))
  = (1 :: 2 :: 3 :: nil, FEnd).
Proof. reflexivity. Qed.

(** ** reduce and foreach are their nested-pipe expansions *)
(** for every output of init, the interpreter folds over the outputs of the generator; [fold_go step emit fin] is the manual's
    expansion:  on y, k (the generator's first output and the rest)   step y acc | (emit y ., <the rest on .>)
    and [fin acc] at the end - for every number of outputs of the update and of the projection, and the error of the
    generator ends the fold. *)
Theorem fold_expansion : forall d nr defs fuel xs init upd ft c v,
  run d nr defs (S (S fuel)) (KFold xs PatVar init upd ft) c v
  = sbind (run d nr defs (S fuel) init c v)
      (CompileCorrect.fold_go (fun y acc => run d nr defs (S fuel) upd (cons_var y c) acc)
         (emit_of d nr defs (S fuel) ft c) (fin_of ft) (run d nr defs fuel xs c v)).
Proof. exact FoldLaws.fold_expansion. Qed.
Print Assumptions fold_expansion.

Theorem fold_unrolls : forall step emit fin,
  (forall acc, CompileCorrect.fold_go step emit fin SNil acc = fin acc)
  /\ (forall y k acc, CompileCorrect.fold_go step emit fin (SCons y k) acc
                      = sbind (step y acc) (fun z => sapp (emit y z) (fun _ => CompileCorrect.fold_go step emit fin (k tt) z)))
  /\ (forall e acc, CompileCorrect.fold_go step emit fin (SExn e) acc = SExn e).
Proof. exact FoldLaws.fold_go_unroll. Qed.
Print Assumptions fold_unrolls.

(** reduce over a generator with the outputs ys:  init | (y1 as $x | upd) | (y2 as $x | upd) | ... *)
Theorem reduce_is_nested_pipes : forall d nr defs fuel xs init upd c v ys, run d nr defs fuel xs c v = of_list ys ->
  run d nr defs (S (S fuel)) (KFold xs PatVar init upd Reduce) c v
  = sbind (run d nr defs (S fuel) init c v) (reduce_pipes (fun y acc => run d nr defs (S fuel) upd (cons_var y c) acc) ys).
Proof. exact FoldLaws.reduce_is_nested_pipes. Qed.
Print Assumptions reduce_is_nested_pipes.

(** ** range/3 on machine integers with a positive step: exactly the arithmetic progression below the bound *)
Theorem range_is_the_progression : forall n a b c fuel, 0 < c ->
  (forall i, (i < n)%nat -> a + Z.of_nat i * c < b) -> b <= a + Z.of_nat n * c ->
  (forall i, (i <= n)%nat -> in_isize (a + Z.of_nat i * c) = true) -> (n < fuel)%nat ->
  range fuel (vint a) (vint b) (vint c) = of_list (map (fun i => vint (a + Z.of_nat i * c)) (seq 0 n)).
Proof. exact FoldLaws.range_up. Qed.
Print Assumptions range_is_the_progression.

(** `last(f)`: decided by how the stream ends - the last output of a stream that ends normally, nothing for an empty one,
    and the first error, break or halt inside the stream ends it (what came before is not delivered): exactly
    `[f] | if length == 0 then empty else .[-1] end` *)
Theorem last_is_the_last_of_the_collected_stream : forall A (s : str A),
  last_s s = collect_then s (fun ys => match rev ys with y :: _ => sone y | nil => SNil end).
Proof. exact @LastLaws.last_is_collect_then_last. Qed.
Print Assumptions last_is_the_last_of_the_collected_stream.

Theorem last_stops_at_the_first_error : forall A (ys : list A) e (rest : unit -> str A),
  last_s (sapp (of_list ys) (fun _ => sapp (SExn e) rest)) = SExn e.
Proof. exact @LastLaws.last_stops_at_the_first_error. Qed.
Print Assumptions last_stops_at_the_first_error.

(** `nth(n; f)` = `first(skip(n; f))` (its definition in defs.jq): the n-th output counted from 0, nothing when the stream has
    no more than n outputs, the first output for n <= 0 *)
Theorem nth_is_first_of_skip : forall A (ys : list A) k, in_isize k = true ->
  first_s (skip (vint k) (of_list ys))
  = if k <=? 0 then first_s (of_list ys)
    else match nth_error ys (Z.to_nat k) with Some y => sone y | None => SNil end.
Proof. exact @LastLaws.nth_def. Qed.
Print Assumptions nth_is_first_of_skip.

(** `isempty(g)` = `first((g | false), true)` (its definition in defs.jq): true for a stream without outputs, false as soon as
    there is a first output whatever follows it, and the stream's own failure when it fails before its first output *)
Theorem isempty_looks_at_the_first_output_only : forall A (s : str A),
  LastLaws.isempty_s s = match s with
                         | SNil => sone (Bool true)
                         | SCons _ _ => sone (Bool false)
                         | SExn e => SExn e
                         | SBot => SBot
                         | SUnk => SUnk
                         end.
Proof. exact @LastLaws.isempty_spec. Qed.
Print Assumptions isempty_looks_at_the_first_output_only.

(** `all(g; cond)` = `isempty(g | cond and empty)` and `any(g; cond)` = `isempty(g | cond or empty) | not` (defs.jq), on the
    stream of the truth values of cond: the conjunction / disjunction of all of them, decided at the first deciding value -
    what follows it (an error, a halt, no end) is not looked at *)
Theorem all_is_the_conjunction : forall bs, LastLaws.all_s (of_list bs) = sone (Bool (forallb (fun b => b) bs)).
Proof. exact LastLaws.all_of_list. Qed.
Print Assumptions all_is_the_conjunction.

Theorem any_is_the_disjunction : forall bs, LastLaws.any_s (of_list bs) = sone (Bool (existsb (fun b => b) bs)).
Proof. exact LastLaws.any_of_list. Qed.
Print Assumptions any_is_the_disjunction.

Theorem all_stops_at_the_first_false : forall n (rest : unit -> str bool),
  LastLaws.all_s (sapp (of_list (repeat true n ++ (false :: nil))) rest) = sone (Bool false).
Proof. exact LastLaws.all_stops_at_the_first_false. Qed.
Print Assumptions all_stops_at_the_first_false.

Theorem any_stops_at_the_first_true : forall n (rest : unit -> str bool),
  LastLaws.any_s (sapp (of_list (repeat false n ++ (true :: nil))) rest) = sone (Bool true).
Proof. exact LastLaws.any_stops_at_the_first_true. Qed.
Print Assumptions any_stops_at_the_first_true.
