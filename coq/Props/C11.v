(** C11 - Stream combinators and generators satisfy their defining equations. (first stage)
    Model: Core/Natives.v (mirrors the native limit/skip/first/last of jaq-core/src/funs.rs). *)
From Coq Require Import ZArith Bool List.
From JaqV Require Import Base.Stream Val.Num Val.Val Core.Natives Proofs.StreamLaws.
Local Open Scope Z_scope.

(** limit(n; f) followed by skip(n; f) reproduces f: for every machine-integer count and every stream,
    including streams that end in an error, a break or never end within the fuel *)
Theorem limit_skip_append : forall A (s : str A) k, in_isize k = true ->
  sapp (limit (vint k) (fun _ => s)) (fun _ => skip (vint k) s) = s.
Proof. exact @limit_skip. Qed.
Print Assumptions limit_skip_append.

Theorem limit_nonpositive_is_empty : forall A (s : unit -> str A) k, k <= 0 -> limit (vint k) s = SNil.
Proof. exact @limit_nonpos. Qed.
Print Assumptions limit_nonpositive_is_empty.

Theorem skip_nonpositive_is_identity : forall A (s : str A) k, k <= 0 -> skip (vint k) s = s.
Proof. exact @skip_nonpos. Qed.
Print Assumptions skip_nonpositive_is_identity.

Theorem first_def : forall A (s : str A), first_s s = limit (vint 1) (fun _ => s).
Proof. exact @first_is_limit_1. Qed.
Print Assumptions first_def.

(** the first error ends the stream and is reported once: nothing can follow an exception *)
Theorem first_error_ends_once : forall A B e (r : unit -> str A) (f : A -> str B),
  sapp (SExn e) r = SExn e /\ sbind (SExn e) f = SExn e.
Proof. intros. split; reflexivity. Qed.
Print Assumptions first_error_ends_once.

Example limit_skip_example :
  collect (sapp (limit (vint 2) (fun _ => of_list (1 :: 2 :: 3 :: nil))) (fun _ => skip (vint 2) (of_list (1 :: 2 :: 3 :: nil))))
  = (1 :: 2 :: 3 :: nil, FEnd).
Proof. reflexivity. Qed.
