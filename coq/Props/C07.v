(** C07 - Print-then-parse is the identity on values; JSON texts mean what RFC 8259 says.
    Model: Json/Write.v (mirrors jaq-json/src/write.rs), Json/Read.v (mirrors jaq-json/src/read.rs over a
    reference model of the hifijson lexer). *)
From Coq Require Import List ZArith.
From Coq Require Import Init.Byte.
From JaqV Require Import Base.Bytes Val.Num Json.Write Json.Read Proofs.JsonString Proofs.DigitLaws Proofs.JsonInt Proofs.JsonValue.
From JaqV Require Import Val.Val.
Import ListNotations.

(** text strings: for every byte string (control characters, quotes, backslashes, DEL, invalid UTF-8), what the
    writer prints after the opening quote is read back as exactly the same bytes, whatever follows *)
Theorem string_roundtrip : forall s rest,
  match write_utf8 s ++ rest with
  | q :: body => parse_string (S (length body)) false body [] = POk s rest
  | [] => False
  end.
Proof. exact text_roundtrip. Qed.
Print Assumptions string_roundtrip.

(** every byte of a text string is undone by the reader in one step, for all 256 bytes *)
Theorem byte_escape_roundtrip_text : forall c n rest acc,
  parse_string (S n) false ((if is_special c then write_byte true c else [c]) ++ rest) acc = parse_string n false rest (c :: acc).
Proof. exact text_step. Qed.
Print Assumptions byte_escape_roundtrip_text.

(** byte strings ( b"..." ): all 256 bytes, then whole strings *)
Theorem byte_escape_roundtrip_bytes : forall c n rest acc,
  parse_string (S n) true (write_byte false c ++ rest) acc = parse_string n true rest (c :: acc).
Proof. exact bytes_step. Qed.
Print Assumptions byte_escape_roundtrip_bytes.

Theorem bytestring_roundtrip : forall s n rest, (length s <= n)%nat ->
  parse_string (S n) true (flat_map (write_byte false) s ++ zb 34%Z :: rest) [] = POk s rest.
Proof. intros. apply (bytes_roundtrip_go s n rest []). assumption. Qed.
Print Assumptions bytestring_roundtrip.

(** integers of any size: the digits that [Display] writes are read back as the same integer ... *)
Theorem integer_literal_roundtrip : forall z, parse_int_dec (Z_to_dec z) = Some z.
Proof. exact DigitLaws.parse_int_dec_print. Qed.
Print Assumptions integer_literal_roundtrip.

(** ... through the JSON number lexer, for machine and big integers as the writer prints them *)
Theorem json_integer_roundtrip : forall z, parse_num (show_num (int_or_big z)) = POk (int_or_big z) [].
Proof. exact JsonInt.json_integer_roundtrip. Qed.
Print Assumptions json_integer_roundtrip.

(** ** whole values *)
(** [rt v]: v is built from null, booleans, integers of any size (in the representation arithmetic gives them), text strings and
    byte strings of any bytes, arrays, and objects - with any such values as keys - as the parser builds them: inserting the
    entries one after the other appends each ([wf_obj]; every object with pairwise different keys is one, [distinct_keys_are_maps]).
    The compact text the writer produces for such a value is read back as exactly that value. *)
Theorem value_roundtrip : forall v, rt v -> parse_single (to_json v) = POk v [].
Proof. exact JsonValue.json_value_roundtrip. Qed.
Print Assumptions value_roundtrip.

(** ... also inside a longer text, in front of nothing or of `,` `]` `}` `:` *)
Theorem value_roundtrip_in_context : forall v rest, rt v -> stops rest ->
  parse (S (length (to_json v))) (to_json v ++ rest) = POk v rest.
Proof. exact JsonValue.json_value_roundtrip_rest. Qed.
Print Assumptions value_roundtrip_in_context.

Theorem integer_roundtrip_in_context : forall z rest, stops rest -> parse_num (Z_to_dec z ++ rest) = POk (int_or_big z) rest.
Proof. exact JsonValue.parse_num_print_rest. Qed.
Print Assumptions integer_roundtrip_in_context.

Theorem distinct_keys_are_maps : forall o,
  (forall pre k v post, o = pre ++ (k, v) :: post -> forall kv, In kv pre -> val_eqb k (fst kv) = false) -> wf_obj o.
Proof. intros o H. apply (JsonValue.wf_distinct o []). exact H. Qed.
Print Assumptions distinct_keys_are_maps.
