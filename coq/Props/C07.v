(** C07 - Print-then-parse is the identity on values; JSON texts mean what RFC 8259 says. (first stage)
    Model: Json/Write.v (mirrors jaq-json/src/write.rs), Json/Read.v (mirrors jaq-json/src/read.rs over a
    reference model of the hifijson lexer). *)
From Coq Require Import List ZArith.
From Coq Require Import Init.Byte.
From JaqV Require Import Base.Bytes Val.Num Json.Write Json.Read Proofs.JsonString Proofs.DigitLaws Proofs.JsonInt.
Import ListNotations.

(** text strings: for every byte string (control characters, quotes, backslashes, DEL, invalid UTF-8), what the
    writer prints after the opening quote is read back as exactly the same bytes, whatever follows *)
Theorem string_roundtrip : forall s rest,
  match write_utf8 s ++ rest with
  | q :: body => parse_string (S (length body)) false body [] = POk s rest
  | [] => False
  end.
Proof. exact text_roundtrip. Qed.
Print Assumptions string_roundtrip.

(** every byte of a text string is undone by the reader in one step, for all 256 bytes *)
Theorem byte_escape_roundtrip_text : forall c n rest acc,
  parse_string (S n) false ((if is_special c then write_byte true c else [c]) ++ rest) acc = parse_string n false rest (c :: acc).
Proof. exact text_step. Qed.
Print Assumptions byte_escape_roundtrip_text.

(** byte strings ( b"..." ): all 256 bytes, then whole strings *)
Theorem byte_escape_roundtrip_bytes : forall c n rest acc,
  parse_string (S n) true (write_byte false c ++ rest) acc = parse_string n true rest (c :: acc).
Proof. exact bytes_step. Qed.
Print Assumptions byte_escape_roundtrip_bytes.

Theorem bytestring_roundtrip : forall s n rest, (length s <= n)%nat ->
  parse_string (S n) true (flat_map (write_byte false) s ++ zb 34%Z :: rest) [] = POk s rest.
Proof. intros. apply (bytes_roundtrip_go s n rest []). assumption. Qed.
Print Assumptions bytestring_roundtrip.

(** integers of any size: the digits that [Display] writes are read back as the same integer ... *)
Theorem integer_literal_roundtrip : forall z, parse_int_dec (Z_to_dec z) = Some z.
Proof. exact DigitLaws.parse_int_dec_print. Qed.
Print Assumptions integer_literal_roundtrip.

(** ... through the JSON number lexer, for machine and big integers as the writer prints them *)
Theorem json_integer_roundtrip : forall z, parse_num (show_num (int_or_big z)) = POk (int_or_big z) [].
Proof. exact JsonInt.json_integer_roundtrip. Qed.
Print Assumptions json_integer_roundtrip.
