(** C14 - Every supported data format round-trips values on its documented domain.
    Models: Fmts/Yaml.v (the YAML writer of jaq-fmts/src/write/yaml.rs with [must_quote] and block/flow styles, and the
    reader's resolution of untagged plain scalars of jaq-fmts/src/read/yaml.rs), Fmts/Tabular.v (CSV/TSV writer and the
    reader's state machine), Fmts/Cbor.v (writer and reader of jaq-fmts/src/{write,read}/cbor.rs with the header layer of
    ciborium-ll).  The YAML scanner, TOML and XML tokenizers are third-party: those formats are decided by round trips on the
    implementation and independent readers (checks/c14.py), not by these theorems. *)
From Coq Require Import List ZArith Bool.
From Coq Require Import Init.Byte.
From JaqV Require Import Base.Bytes Base.F64 Val.Num Val.Val Json.Write Json.Read Fmts.Yaml Fmts.Tabular Proofs.YamlLaws Proofs.TabularLaws Fmts.Cbor Proofs.CborFloat Proofs.CborLaws.
Import ListNotations.
Local Open Scope Z_scope.

(** YAML: a string that is written without quotes is read back as that very string - whatever it looks like *)
Theorem yaml_plain_is_string : forall s, must_quote s = false -> resolve s = TStr s.
Proof. exact YamlLaws.plain_is_string. Qed.
Print Assumptions yaml_plain_is_string.

(** ... it is one plain scalar for the scanner (grammar of plain scalars, no document marker, no blank at an end) *)
Theorem yaml_plain_is_document : forall s, must_quote s = false -> plain_document s = true.
Proof. exact YamlLaws.plain_is_document. Qed.
Print Assumptions yaml_plain_is_document.

(** ... and inside collections it cannot be taken for structure: no line break, no flow indicator, no blank at an end, no
    key separator, no comment *)
Theorem yaml_plain_no_structure : forall s, must_quote s = false ->
  Forall (fun c => b_char c = false /\ c_flow_indicator c = false) s
  /\ match s with c :: _ => s_white c = false | [] => False end
  /\ trailing_space s = false.
Proof. exact YamlLaws.plain_no_structure. Qed.
Print Assumptions yaml_plain_no_structure.

Theorem yaml_plain_no_key_separator : forall s pre post, must_quote s = false -> s = pre ++ colon :: post ->
  opt_is ns_plain_safe (hd_error post) = true.
Proof. exact YamlLaws.plain_no_key_separator. Qed.
Print Assumptions yaml_plain_no_key_separator.

Theorem yaml_plain_no_comment : forall s pre post, must_quote s = false -> s = pre ++ hash :: post ->
  exists c pre', pre = c :: pre' /\ ns_char (last pre' c) = true.
Proof. exact YamlLaws.plain_no_comment. Qed.
Print Assumptions yaml_plain_no_comment.

(** null, booleans and the special floats are written as what is read back as them *)
Theorem yaml_scalars_resolve :
  resolve (to_yaml Null) = Null /\ resolve (to_yaml (Bool true)) = Bool true /\ resolve (to_yaml (Bool false)) = Bool false
  /\ resolve (to_yaml (Num (Flt pos_inf))) = Num (Flt pos_inf) /\ resolve (to_yaml (Num (Flt neg_inf))) = Num (Flt neg_inf)
  /\ resolve (to_yaml (Num (Flt nan_bits))) = Num (Flt nan_bits).
Proof. exact YamlLaws.scalars_resolve. Qed.
Print Assumptions yaml_scalars_resolve.

(** CSV: every document of rows of scalars (any byte strings; numbers whose text parses back to them) is read back as
    written; [[]] is not a row ([row_ok]) *)
Theorem csv_roundtrip : forall rows texts,
  Forall row_ok rows -> Forall2 (fun vs t => write_csv (Arr vs) = Some t) rows texts ->
  read_csv (flat_map (fun t => t ++ [lf]) texts) = map Arr rows.
Proof. exact TabularLaws.csv_roundtrip. Qed.
Print Assumptions csv_roundtrip.

(** one row as the filters write it (no final line feed): [[null]] is the excepted row *)
Theorem csv_row_roundtrip : forall vs t,
  row_ok vs -> vs <> [Null] -> write_csv (Arr vs) = Some t -> read_csv t = [Arr vs].
Proof. exact TabularLaws.csv_row_roundtrip. Qed.
Print Assumptions csv_row_roundtrip.

(** TSV: every field comes back byte for byte, for all byte strings; it is a string again on the documented domain *)
Theorem tsv_roundtrip_bytes : forall rows, Forall (fun r => r <> []) rows ->
  read_tsv (flat_map (fun r => join_fields tab (map tsv_str r) ++ [lf]) rows) = map (fun r => Arr (map tsv_field_val r)) rows.
Proof. exact TabularLaws.tsv_roundtrip_bytes. Qed.
Print Assumptions tsv_roundtrip_bytes.

Theorem tsv_roundtrip : forall rows texts,
  Forall (fun r => r <> [] /\ Forall tsv_dom r) rows ->
  Forall2 (fun r t => write_tsv (Arr (map TStr r)) = Some t) rows texts ->
  read_tsv (flat_map (fun t => t ++ [lf]) texts) = map (fun r => Arr (map TStr r)) rows.
Proof. exact TabularLaws.tsv_roundtrip. Qed.
Print Assumptions tsv_roundtrip.

(** a written TSV field has no raw separator, line break or NUL: well-formed for any reader of the format *)
Theorem tsv_field_wellformed : forall s c, In c (tsv_str s) -> bz c <> 9 /\ bz c <> 10 /\ bz c <> 13 /\ bz c <> 0.
Proof. exact TabularLaws.tsv_str_no_sep. Qed.
Print Assumptions tsv_field_wellformed.

(** YAML: integers of any size are written in decimal and read back as the same integer (the most negative machine
    integer as the equal big integer) *)
Theorem yaml_integer_roundtrip : forall z,
  resolve (to_yaml (Num (int_or_big z))) = Num (if (0 <=? z)%Z then int_or_big z else Num.neg (int_or_big (- z))).
Proof. exact YamlLaws.yaml_integer_roundtrip. Qed.
Print Assumptions yaml_integer_roundtrip.

(** CBOR: reading what the writer wrote yields the value, whatever follows it in the input - for every value built from
    null, booleans, machine integers, big integers of any size, floats (every binary64 pattern, in the shortest width that
    holds it), byte strings, valid UTF-8 text strings, arrays and objects with any such values as keys ([cb]; sizes below
    2^64 as every length in a 64-bit process is); invalid UTF-8 (a documented exception) stays with the correspondence *)
Theorem cbor_value_roundtrip : forall v rest, CborLaws.cb v -> parse_one (encode v ++ rest) = DOk v rest.
Proof. exact CborLaws.cbor_roundtrip. Qed.
Print Assumptions cbor_value_roundtrip.

(** ... and a sequence of written values is read back as that sequence, ended by the end of the input *)
Theorem cbor_sequence_roundtrip : forall vs, Forall CborLaws.cb vs -> decode_many (flat_map encode vs) = (vs, MEnd).
Proof. exact CborLaws.cbor_many_roundtrip. Qed.
Print Assumptions cbor_sequence_roundtrip.

(** the headers: every argument below 2^64 is written in the shortest width and read back with its major type *)
Theorem cbor_header_roundtrip : forall major arg rest, 0 <= major < 8 -> 0 <= arg < 18446744073709551616 ->
  exists w, title (head major arg ++ rest) = DOk (major, Some arg, w) rest.
Proof. exact CborLaws.title_head. Qed.
Print Assumptions cbor_header_roundtrip.

(** big integers: the shortest big-endian magnitude is read back as the number *)
Theorem cbor_magnitude_roundtrip : forall z, 0 <= z -> be_val (to_bytes_be z) = z.
Proof. exact CborLaws.to_bytes_be_val. Qed.
Print Assumptions cbor_magnitude_roundtrip.

(** floats: the shortest of binary16 / binary32 that holds a number exactly is read back as the same binary64 pattern *)
Theorem cbor_short_floats_are_exact : forall b h, 0 <= b < two64 ->
  (short_float 15 10 b = Some h -> 0 <= h < 65536 /\ long_float 15 10 h = Some b) /\
  (short_float 127 23 b = Some h -> 0 <= h < 4294967296 /\ long_float 127 23 h = Some b).
Proof. exact CborFloat.short_floats_exact. Qed.
Print Assumptions cbor_short_floats_are_exact.

(** decimal literals: read back as the float they denote (the spelling is the documented exception) *)
Theorem cbor_decimal_literal : forall s rest, 0 <= dec_to_f64 s < two64 ->
  parse_one (encode (Num (Dec s)) ++ rest) = DOk (Num (Flt (dec_to_f64 s))) rest.
Proof. exact CborLaws.cbor_decimal. Qed.
Print Assumptions cbor_decimal_literal.

(** an array that another encoder wrote with indefinite length (0x9f, the items, the break byte) is read as the same array *)
Theorem cbor_indefinite_array : forall a rest, Forall CborLaws.cb a ->
  parse_one (zb 159 :: flat_map encode a ++ zb 255 :: rest) = DOk (Arr a) rest.
Proof. exact CborLaws.indefinite_array. Qed.
Print Assumptions cbor_indefinite_array.
