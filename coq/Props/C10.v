(** C10 - Indexing, slicing and element updates follow one position model per container.
    Model: Val/Index.v (abs_index, skip_take, skip_take_chars, index_opt, vrange) and the update primitives map_index / map_range
    of Core/Run.v (jaq-json/src/lib.rs).  Proved: the position arithmetic (negative positions, clipping, open bounds), and for
    arrays, byte strings, text strings and objects that an update applies its filter to exactly what the read at the same
    position yields, writes the result to exactly that position (replace, remove, splice, append) and keeps every other
    element and the order of keys; outside or on null it refuses, or skips under `?`. *)
From Coq Require Import ZArith Bool List Lia.
From JaqV Require Import Base.Bytes Base.Stream Val.Num Val.Val Val.Err Val.Index Core.Run Proofs.SafeLaws Proofs.UpdateLaws.
Import ListNotations.
Local Open Scope Z_scope.

(** the position model: absolute position of a possibly negative position in a sequence of length [len] *)
Definition pos_of (p : pos_usize) : Z := let '(nonneg, m) := p in if nonneg then m else - m.

(** [abs_index] selects exactly the positions inside, counting negatives from the end *)
Theorem abs_index_spec : forall p len i, 0 <= len -> 0 <= snd p ->
  (fst p = false -> 0 < snd p) ->
  abs_index p len = Some i <->
  (0 <= i < len /\ i = (if 0 <=? pos_of p then pos_of p else len + pos_of p)).
Proof.
  intros [nonneg m] len i Hlen Hm Hneg. cbn [fst snd] in *. unfold abs_index, wrap, pos_of.
  destruct nonneg.
  - destruct (Z.ltb_spec m len) as [L|L]; destruct (Z.leb_spec 0 m) as [M|M]; try lia.
    + split; [intros E; injection E as <-; lia | intros [E1 E2]; f_equal; lia].
    + split; [discriminate | lia].
  - specialize (Hneg eq_refl).
    destruct (Z.leb_spec m len) as [L|L].
    + destruct (Z.ltb_spec (len - m) len) as [K|K]; destruct (Z.leb_spec 0 (- m)) as [M|M]; try lia.
      split; [intros E; injection E as <-; lia | intros [E1 E2]; f_equal; lia].
    + destruct (Z.leb_spec 0 (- m)) as [M|M]; try lia.
      split; [discriminate | lia].
Qed.
Print Assumptions abs_index_spec.

(** slice bounds are clipped into [0, len] and the taken length is never negative *)
Theorem skip_take_clipped : forall r len, 0 <= len ->
  (forall p, fst r = Some p -> 0 <= snd p) -> (forall p, snd r = Some p -> 0 <= snd p) ->
  let '(s, t) := skip_take r len in 0 <= s <= len /\ 0 <= t /\ s + t <= len.
Proof.
  intros [a b] len Hlen Ha Hb. unfold skip_take, abs_bound. cbn [fst snd] in *.
  assert (forall o : option pos_usize, (forall p, o = Some p -> 0 <= snd p) -> forall d, 0 <= d <= len ->
            0 <= match o with None => d | Some p => Z.min (match wrap p len with Some x => x | None => 0 end) len end <= len) as Hb0.
  { intros [[nn m]|] Hp d Hd; [|lia]. specialize (Hp _ eq_refl). cbn in Hp. unfold wrap.
    destruct nn; [lia|]. destruct (Z.leb_spec m len); lia. }
  pose proof (Hb0 a Ha 0 ltac:(lia)) as H1. pose proof (Hb0 b Hb len ltac:(lia)) as H2.
  lia.
Qed.
Print Assumptions skip_take_clipped.

(** open bounds ([null]) mean the whole sequence *)
Theorem open_slice_is_identity : forall A (l : list A),
  let '(s, t) := skip_take (None, None) (Z.of_nat (length l)) in slice l s t = l.
Proof.
  intros A l. unfold skip_take, abs_bound, slice. cbn [fst snd].
  rewrite Z.sub_0_r, Z.max_r by lia. rewrite Nat2Z.id. cbn [Z.to_nat skipn]. apply firstn_all.
Qed.
Print Assumptions open_slice_is_identity.

(** ** updates *)
(** `.[i] |= f` inside an array: f runs on the element `.[i]` reads; its first output replaces exactly that element, no output
    removes exactly it *)
Theorem array_update_inside : forall a i p k opt f,
  val_as_pos_usize i = Ok p -> abs_index p (Z.of_nat (length a)) = Some k ->
  exists x, nth_error a (Z.to_nat k) = Some x
    /\ index_opt (Arr a) i = Ok (Some x)
    /\ map_index (Arr a) i opt f
       = match first (f x) with
         | FSome y => sone (Arr (replace_at (Z.to_nat k) y a))
         | FNone => sone (Arr (remove_at (Z.to_nat k) a))
         | FFail t => fin_str t
         end.
Proof. exact UpdateLaws.arr_index_inside. Qed.
Print Assumptions array_update_inside.

(** replacing and removing one position leave all others as they were *)
Theorem replace_remove_frame : forall A k (y : A) l,
  length (replace_at k y l) = length l
  /\ ((k < length l)%nat -> nth_error (replace_at k y l) k = Some y)
  /\ (forall j, j <> k -> nth_error (replace_at k y l) j = nth_error l j)
  /\ ((k < length l)%nat -> S (length (remove_at k l)) = length l)
  /\ (forall j, (j < k)%nat -> nth_error (remove_at k l) j = nth_error l j)
  /\ (forall j, (k <= j)%nat -> nth_error (remove_at k l) j = nth_error l (S j)).
Proof.
  intros A k y l. repeat split.
  - apply UpdateLaws.replace_at_length.
  - apply UpdateLaws.replace_at_same.
  - intros j Hj. apply UpdateLaws.replace_at_other. exact Hj.
  - apply UpdateLaws.remove_at_length.
  - intros j Hj. apply UpdateLaws.remove_at_before. exact Hj.
  - intros j Hj. apply UpdateLaws.remove_at_after. exact Hj.
Qed.
Print Assumptions replace_remove_frame.

(** outside an array: reading yields null, the update is refused, or skipped under `?` *)
Theorem array_update_outside : forall a i p f,
  val_as_pos_usize i = Ok p -> abs_index p (Z.of_nat (length a)) = None ->
  vindex (Arr a) i = Ok Null
  /\ map_index (Arr a) i false f = serr (EOob i)
  /\ map_index (Arr a) i true f = sone (Arr a).
Proof. exact UpdateLaws.arr_index_outside. Qed.
Print Assumptions array_update_outside.

(** `.[i:j] |= f` on arrays: the window that is read is the window that is replaced; what lies before and after it stays *)
Theorem array_slice_update : forall a r ri opt f s t,
  range_int r = Ok ri -> skip_take ri (Z.of_nat (length a)) = (s, t) ->
  vrange (Arr a) r = Ok (Arr (slice a s t))
  /\ map_range (Arr a) r opt f
     = match first (f (Arr (slice a s t))) with
       | FSome (Arr y) => sone (Arr (splice a s t y))
       | FSome y => serr (ETyp y TArr)
       | FNone => sone (Arr (splice a s t []))
       | FFail u => fin_str u
       end
  /\ (0 <= s /\ 0 <= t /\ s + t <= Z.of_nat (length a))
  /\ forall y, firstn (Z.to_nat s) (splice a s t y) = firstn (Z.to_nat s) a
               /\ skipn (Z.to_nat s + length y) (splice a s t y) = skipn (Z.to_nat (s + t)) a
               /\ slice (splice a s t y) s (Z.of_nat (length y)) = y
               /\ splice a s t (slice a s t) = a.
Proof. exact UpdateLaws.arr_slice_update. Qed.
Print Assumptions array_slice_update.

(** text strings: positions are characters, the window lies on character boundaries, the update replaces exactly its bytes *)
Theorem text_slice_update : forall b r ri opt f s t,
  range_int r = Ok ri -> skip_take_chars ri b = (s, t) ->
  vrange (TStr b) r = Ok (TStr (slice b s t))
  /\ map_range (TStr b) r opt f
     = match first (f (TStr (slice b s t))) with
       | FSome (TStr y) => sone (TStr (splice b s t y))
       | FSome y => serr (ETyp y TStrT)
       | FNone => sone (TStr (splice b s t []))
       | FFail u => fin_str u
       end
  /\ boundary b s /\ (t = 0 \/ boundary b (s + t))
  /\ (0 < t -> forall y, firstn (Z.to_nat s) (splice b s t y) = firstn (Z.to_nat s) b
               /\ skipn (Z.to_nat s + length y) (splice b s t y) = skipn (Z.to_nat (s + t)) b
               /\ slice (splice b s t y) s (Z.of_nat (length y)) = y).
Proof. exact UpdateLaws.text_slice_update. Qed.
Print Assumptions text_slice_update.

(** byte strings: positions are bytes *)
Theorem bytes_slice_update : forall b r ri opt f s t,
  range_int r = Ok ri -> skip_take ri (Z.of_nat (length b)) = (s, t) ->
  vrange (BStr b) r = Ok (BStr (slice b s t))
  /\ map_range (BStr b) r opt f
     = match first (f (BStr (slice b s t))) with
       | FSome (BStr y) => sone (BStr (splice b s t y))
       | FSome y => serr (ETyp y TStrT)
       | FNone => sone (BStr (splice b s t []))
       | FFail u => fin_str u
       end
  /\ forall y, firstn (Z.to_nat s) (splice b s t y) = firstn (Z.to_nat s) b
               /\ skipn (Z.to_nat s + length y) (splice b s t y) = skipn (Z.to_nat (s + t)) b
               /\ slice (splice b s t y) s (Z.of_nat (length y)) = y.
Proof. exact UpdateLaws.bytes_slice_update. Qed.
Print Assumptions bytes_slice_update.

(** objects, any value as key: reading probes the entry the update finds ... *)
Theorem object_read_position : forall o k, (length o <> 1)%nat ->
  index_opt (Obj o) k = Ok (match find_index o k 0 with Some i => option_map snd (nth_error o i) | None => None end).
Proof. exact UpdateLaws.obj_read. Qed.
Print Assumptions object_read_position.

(** ... a present key keeps its place, the keys keep their order, other entries are untouched ... *)
Theorem object_update_present : forall o k i opt f,
  find_index o k 0 = Some i ->
  exists k' x, nth_error o i = Some (k', x)
    /\ map_index (Obj o) k opt f
       = match first (f x) with
         | FSome y => sone (Obj (replace_at i (k', y) o))
         | FNone => sone (Obj (swap_remove_at i o))
         | FFail t => fin_str t
         end
    /\ forall y, map fst (replace_at i (k', y) o) = map fst o
                 /\ nth_error (replace_at i (k', y) o) i = Some (k', y)
                 /\ forall j, j <> i -> nth_error (replace_at i (k', y) o) j = nth_error o j.
Proof. exact UpdateLaws.obj_update_present. Qed.
Print Assumptions object_update_present.

(** ... an absent key is appended with the first output of the filter on null *)
Theorem object_update_absent : forall o k opt f,
  find_index o k 0 = None ->
  map_index (Obj o) k opt f
  = match first (f Null) with
    | FSome y => sone (Obj (o ++ [(k, y)]))
    | FNone => sone (Obj o)
    | FFail t => fin_str t
    end.
Proof. exact UpdateLaws.obj_update_absent. Qed.
Print Assumptions object_update_absent.

(** null is no container for updates *)
Theorem update_refuses_null : forall i f,
  map_index Null i false f = serr (ETyp Null TIter) /\ map_index Null i true f = sone Null
  /\ forall r, map_range Null r false f = serr (ETyp Null TArr) /\ map_range Null r true f = sone Null.
Proof. exact UpdateLaws.update_refuses_null. Qed.
Print Assumptions update_refuses_null.
