(** C10 - Indexing, slicing and element updates follow one position model per container. (first stage) *)
From Coq Require Import ZArith Bool List Lia.
From JaqV Require Import Val.Index.
Import ListNotations.
Local Open Scope Z_scope.

(** the position model: absolute position of a possibly negative position in a sequence of length [len] *)
Definition pos_of (p : pos_usize) : Z := let '(nonneg, m) := p in if nonneg then m else - m.

(** [abs_index] selects exactly the positions inside, counting negatives from the end *)
Theorem abs_index_spec : forall p len i, 0 <= len -> 0 <= snd p ->
  (fst p = false -> 0 < snd p) ->
  abs_index p len = Some i <->
  (0 <= i < len /\ i = (if 0 <=? pos_of p then pos_of p else len + pos_of p)).
Proof.
  intros [nonneg m] len i Hlen Hm Hneg. cbn [fst snd] in *. unfold abs_index, wrap, pos_of.
  destruct nonneg.
  - destruct (Z.ltb_spec m len) as [L|L]; destruct (Z.leb_spec 0 m) as [M|M]; try lia.
    + split; [intros E; injection E as <-; lia | intros [E1 E2]; f_equal; lia].
    + split; [discriminate | lia].
  - specialize (Hneg eq_refl).
    destruct (Z.leb_spec m len) as [L|L].
    + destruct (Z.ltb_spec (len - m) len) as [K|K]; destruct (Z.leb_spec 0 (- m)) as [M|M]; try lia.
      split; [intros E; injection E as <-; lia | intros [E1 E2]; f_equal; lia].
    + destruct (Z.leb_spec 0 (- m)) as [M|M]; try lia.
      split; [discriminate | lia].
Qed.
Print Assumptions abs_index_spec.

(** slice bounds are clipped into [0, len] and the taken length is never negative *)
Theorem skip_take_clipped : forall r len, 0 <= len ->
  (forall p, fst r = Some p -> 0 <= snd p) -> (forall p, snd r = Some p -> 0 <= snd p) ->
  let '(s, t) := skip_take r len in 0 <= s <= len /\ 0 <= t /\ s + t <= len.
Proof.
  intros [a b] len Hlen Ha Hb. unfold skip_take, abs_bound. cbn [fst snd] in *.
  assert (forall o : option pos_usize, (forall p, o = Some p -> 0 <= snd p) -> forall d, 0 <= d <= len ->
            0 <= match o with None => d | Some p => Z.min (match wrap p len with Some x => x | None => 0 end) len end <= len) as Hb0.
  { intros [[nn m]|] Hp d Hd; [|lia]. specialize (Hp _ eq_refl). cbn in Hp. unfold wrap.
    destruct nn; [lia|]. destruct (Z.leb_spec m len); lia. }
  pose proof (Hb0 a Ha 0 ltac:(lia)) as H1. pose proof (Hb0 b Hb len ltac:(lia)) as H2.
  lia.
Qed.
Print Assumptions skip_take_clipped.

(** open bounds ([null]) mean the whole sequence *)
Theorem open_slice_is_identity : forall A (l : list A),
  let '(s, t) := skip_take (None, None) (Z.of_nat (length l)) in slice l s t = l.
Proof.
  intros A l. unfold skip_take, abs_bound, slice. cbn [fst snd].
  rewrite Z.sub_0_r, Z.max_r by lia. rewrite Nat2Z.id. cbn [Z.to_nat skipn]. apply firstn_all.
Qed.
Print Assumptions open_slice_is_identity.
