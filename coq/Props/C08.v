(** C08 - Comparison is one consistent total order; equal values are interchangeable keys.
    Property theorems only; proofs in Proofs/F64Order.v, Proofs/NumExact.v, Proofs/ValOrder.v. *)
From Coq Require Import ZArith Bool List Sorting.Sorted.
From JaqV Require Import Base.F64 Val.Num Val.Val Proofs.F64Order Proofs.NumExact Proofs.HashLaws Proofs.ValOrder Proofs.BsearchLaws Std.Natives.
Local Open Scope Z_scope.

(** floats free of NaN: [float_cmp] is a total preorder with both zeros identified *)
Theorem float_order_reflexive : forall b, nonan b -> float_cmp b b = Eq.
Proof. exact float_cmp_refl. Qed.
Print Assumptions float_order_reflexive.

Theorem float_order_antisymmetric : forall l r, nonan l -> nonan r -> float_cmp r l = CompOpp (float_cmp l r).
Proof. exact float_cmp_antisym. Qed.
Print Assumptions float_order_antisymmetric.

Theorem float_order_transitive : forall a b c o, nonan a -> nonan b -> nonan c ->
  float_cmp a b = o -> float_cmp b c = o -> float_cmp a c = o.
Proof. exact float_cmp_trans. Qed.
Print Assumptions float_order_transitive.

Theorem float_order_transitive_le : forall a b c, nonan a -> nonan b -> nonan c ->
  float_cmp a b <> Gt -> float_cmp b c <> Gt -> float_cmp a c <> Gt.
Proof. exact float_cmp_trans_le. Qed.
Print Assumptions float_order_transitive_le.

(** exactly one of <, ==, > *)
Theorem float_trichotomy : forall l r, nonan l -> nonan r ->
  (float_cmp l r = Lt /\ float_eq l r = false /\ float_cmp r l = Gt) \/
  (float_cmp l r = Eq /\ float_eq l r = true /\ float_cmp r l = Eq) \/
  (float_cmp l r = Gt /\ float_eq l r = false /\ float_cmp r l = Lt).
Proof. exact F64Order.float_trichotomy. Qed.
Print Assumptions float_trichotomy.

(** integers of any size and representation: the order and equality of the mathematical integers *)
Theorem int_order_exact : forall x y a b, int_val x = Some a -> int_val y = Some b ->
  num_cmp x y = Z.compare a b /\ num_eqb x y = (a =? b).
Proof. intros. split; [apply num_cmp_ints | apply num_eqb_ints]; assumption. Qed.
Print Assumptions int_order_exact.

(** equal numbers are interchangeable as keys: whatever the representations (machine integer, big integer, float,
    decimal literal), numbers that are [==] feed the hasher the same writes.  [image_ok]: the float image is a 64-bit
    pattern, finite for machine integers - facts about SpecFloat's rounding, assumed explicitly and checked on examples *)
Theorem equal_numbers_hash_equally : forall x y, HashLaws.image_ok x -> HashLaws.image_ok y ->
  num_eqb x y = true -> hash_num x = hash_num y.
Proof. exact HashLaws.hash_coherent. Qed.
Print Assumptions equal_numbers_hash_equally.

Example zeros_equal : float_cmp pos_zero neg_zero = Eq /\ float_eq pos_zero neg_zero = true /\ nonan neg_zero.
Proof. repeat split. Qed.

(** ** the order of nested values *)
(** [tpo c P]: on the class P the three-way comparison c is reflexive, antisymmetric (c b a is the opposite of c a b) and
    transitive (a <= b <= d gives a <= d) - a total preorder, with exactly one of <, ==, > for any pair.
    [vok N v]: every number inside v - at any depth, in arrays, as object keys and values - belongs to the class N.
    Whenever the order of numbers is a total preorder on N, the order of values is one on all such values: arrays compare
    lexicographically, objects by their sorted keys and then by their values in that order. *)
Theorem value_order_lifts : forall N, tpo num_cmp N -> tpo val_cmp (vok N).
Proof. exact ValOrder.val_cmp_tpo. Qed.
Print Assumptions value_order_lifts.

Theorem value_trichotomy : forall N, tpo num_cmp N -> forall a b, vok N a -> vok N b ->
  (val_cmp a b = Lt /\ val_cmp b a = Gt) \/ (val_cmp a b = Eq /\ val_cmp b a = Eq) \/ (val_cmp a b = Gt /\ val_cmp b a = Lt).
Proof. exact ValOrder.val_trichotomy. Qed.
Print Assumptions value_trichotomy.

(** values whose numbers are integers of any size (machine or big) *)
Theorem value_order_integers : tpo val_cmp (vok all_int).
Proof. exact ValOrder.val_order_integers. Qed.
Print Assumptions value_order_integers.

(** values whose numbers are floats free of NaN *)
Theorem value_order_floats : tpo val_cmp (vok all_float).
Proof. exact ValOrder.val_order_floats. Qed.
Print Assumptions value_order_floats.

(** values that mix integers up to 4096 in magnitude (either representation) with NaN-free floats: the conversion of these
    integers is exact and strictly monotone (checked for each of them in the kernel) *)
Theorem value_order_mixed_small : tpo val_cmp (vok small_or_float).
Proof. exact ValOrder.val_order_mixed. Qed.
Print Assumptions value_order_mixed_small.

(** the fuel of the comparison beyond the nesting depth does not matter *)
Theorem comparison_fuel_irrelevant : forall n x y, (depth x < n)%nat -> (depth y < n)%nat -> val_cmp x y = cmp_f n x y.
Proof. exact ValOrder.val_cmp_fuel. Qed.
Print Assumptions comparison_fuel_irrelevant.

(** `bsearch($x)` (Std/Natives.v [bsearch]: the binary search of the standard library that jaq calls) on an array sorted by the
    order of values, for every class of values on which that order is a total preorder (the instances above): a non-negative
    result is the position of an element equal to $x, there is one whenever $x occurs, and a negative result -1 - r names the
    insertion point - everything before it is smaller, everything from it on greater *)
Theorem bsearch_on_sorted_arrays : forall P, tpo val_cmp P -> forall a x, Forall P a -> P x ->
  StronglySorted (fun u v => val_cmp u v <> Gt) a -> a <> nil ->
  (forall z, 0 <= z -> bsearch a x = z -> val_cmp (nth (Z.to_nat z) a Null) x = Eq /\ (Z.to_nat z < length a)%nat)
  /\ (forall i, (i < length a)%nat -> val_cmp (nth i a Null) x = Eq -> 0 <= bsearch a x)
  /\ (forall r, bsearch a x = -1 - Z.of_nat r ->
        (r <= length a)%nat /\ (forall i, (i < r)%nat -> val_cmp (nth i a Null) x = Lt)
        /\ (forall i, (r <= i < length a)%nat -> val_cmp (nth i a Null) x = Gt)).
Proof. exact BsearchLaws.bsearch_sorted. Qed.
Print Assumptions bsearch_on_sorted_arrays.
