(** C08 - Comparison is one consistent total order; equal values are interchangeable keys.
    Property theorems only; proofs in Proofs/F64Order.v, Proofs/NumExact.v. *)
From Coq Require Import ZArith Bool.
From JaqV Require Import Base.F64 Val.Num Proofs.F64Order Proofs.NumExact Proofs.HashLaws.
Local Open Scope Z_scope.

(** floats free of NaN: [float_cmp] is a total preorder with both zeros identified *)
Theorem float_order_reflexive : forall b, nonan b -> float_cmp b b = Eq.
Proof. exact float_cmp_refl. Qed.
Print Assumptions float_order_reflexive.

Theorem float_order_antisymmetric : forall l r, nonan l -> nonan r -> float_cmp r l = CompOpp (float_cmp l r).
Proof. exact float_cmp_antisym. Qed.
Print Assumptions float_order_antisymmetric.

Theorem float_order_transitive : forall a b c o, nonan a -> nonan b -> nonan c ->
  float_cmp a b = o -> float_cmp b c = o -> float_cmp a c = o.
Proof. exact float_cmp_trans. Qed.
Print Assumptions float_order_transitive.

Theorem float_order_transitive_le : forall a b c, nonan a -> nonan b -> nonan c ->
  float_cmp a b <> Gt -> float_cmp b c <> Gt -> float_cmp a c <> Gt.
Proof. exact float_cmp_trans_le. Qed.
Print Assumptions float_order_transitive_le.

(** exactly one of <, ==, > *)
Theorem float_trichotomy : forall l r, nonan l -> nonan r ->
  (float_cmp l r = Lt /\ float_eq l r = false /\ float_cmp r l = Gt) \/
  (float_cmp l r = Eq /\ float_eq l r = true /\ float_cmp r l = Eq) \/
  (float_cmp l r = Gt /\ float_eq l r = false /\ float_cmp r l = Lt).
Proof. exact F64Order.float_trichotomy. Qed.
Print Assumptions float_trichotomy.

(** integers of any size and representation: the order and equality of the mathematical integers *)
Theorem int_order_exact : forall x y a b, int_val x = Some a -> int_val y = Some b ->
  num_cmp x y = Z.compare a b /\ num_eqb x y = (a =? b).
Proof. intros. split; [apply num_cmp_ints | apply num_eqb_ints]; assumption. Qed.
Print Assumptions int_order_exact.

(** equal numbers are interchangeable as keys: whatever the representations (machine integer, big integer, float,
    decimal literal), numbers that are [==] feed the hasher the same writes.  [image_ok]: the float image is a 64-bit
    pattern, finite for machine integers - facts about SpecFloat's rounding, assumed explicitly and checked on examples *)
Theorem equal_numbers_hash_equally : forall x y, HashLaws.image_ok x -> HashLaws.image_ok y ->
  num_eqb x y = true -> hash_num x = hash_num y.
Proof. exact HashLaws.hash_coherent. Qed.
Print Assumptions equal_numbers_hash_equally.

Example zeros_equal : float_cmp pos_zero neg_zero = Eq /\ float_eq pos_zero neg_zero = true /\ nonan neg_zero.
Proof. repeat split. Qed.
