(** C08 - Comparison is one consistent total order; equal values are interchangeable keys.
    Property theorems only; proofs in Proofs/F64Order.v, Proofs/NumExact.v. *)
From Coq Require Import ZArith Bool.
From JaqV Require Import Base.F64 Val.Num Proofs.F64Order Proofs.NumExact.
Local Open Scope Z_scope.

(** floats free of NaN: [float_cmp] is a total preorder with both zeros identified *)
Theorem float_order_reflexive : forall b, nonan b -> float_cmp b b = Eq.
Proof. exact float_cmp_refl. Qed.
Print Assumptions float_order_reflexive.

Theorem float_order_antisymmetric : forall l r, nonan l -> nonan r -> float_cmp r l = CompOpp (float_cmp l r).
Proof. exact float_cmp_antisym. Qed.
Print Assumptions float_order_antisymmetric.

Theorem float_order_transitive : forall a b c o, nonan a -> nonan b -> nonan c ->
  float_cmp a b = o -> float_cmp b c = o -> float_cmp a c = o.
Proof. exact float_cmp_trans. Qed.
Print Assumptions float_order_transitive.

Theorem float_order_transitive_le : forall a b c, nonan a -> nonan b -> nonan c ->
  float_cmp a b <> Gt -> float_cmp b c <> Gt -> float_cmp a c <> Gt.
Proof. exact float_cmp_trans_le. Qed.
Print Assumptions float_order_transitive_le.

(** exactly one of <, ==, > *)
Theorem float_trichotomy : forall l r, nonan l -> nonan r ->
  (float_cmp l r = Lt /\ float_eq l r = false /\ float_cmp r l = Gt) \/
  (float_cmp l r = Eq /\ float_eq l r = true /\ float_cmp r l = Eq) \/
  (float_cmp l r = Gt /\ float_eq l r = false /\ float_cmp r l = Lt).
Proof. exact F64Order.float_trichotomy. Qed.
Print Assumptions float_trichotomy.

(** integers of any size and representation: the order and equality of the mathematical integers *)
Theorem int_order_exact : forall x y a b, int_val x = Some a -> int_val y = Some b ->
  num_cmp x y = Z.compare a b /\ num_eqb x y = (a =? b).
Proof. intros. split; [apply num_cmp_ints | apply num_eqb_ints]; assumption. Qed.
Print Assumptions int_order_exact.

Example zeros_equal : float_cmp pos_zero neg_zero = Eq /\ float_eq pos_zero neg_zero = true /\ nonan neg_zero.
Proof. repeat split. Qed.
