(** C06 - Filters and data cannot make jaq touch files, network or other processes.
    A Gallina model has no system calls; what it carries: (1) the loader model (Cli/Modules.v, mirror of Loader::load in
    jaq-core/src/load/mod.rs): the files that are read are determined by the import/include directives alone - every
    loaded file is the prelude or is named by a chain of directives starting in the main program, and none is read twice;
    (2) the documented exception --in-place (Cli/InPlace.v) changes nothing but the named file and its temporary file;
    (3) the modelled filters (Core/Run.v, Std/Natives.v, Fmts/Natives.v) are Gallina functions of input, arguments and
    variables - there is no world they could touch.  That the Rust natives and decoders do nothing else is observed at the
    system-call boundary (checks/c06.py), not proved. *)
From Coq Require Import List Arith.
From JaqV Require Import Base.Bytes Cli.Modules Cli.InPlace Proofs.ModuleLaws Proofs.InPlaceLaws.
Import ListNotations.

Theorem loaded_files_are_named : forall fs main_deps mods, load fs main_deps = inl mods ->
  forall m, In m mods -> m = prelude_file \/ reach fs main_deps m.
Proof. exact ModuleLaws.loaded_files_are_named. Qed.
Print Assumptions loaded_files_are_named.

Theorem loaded_once : forall fs main_deps mods, load fs main_deps = inl mods -> NoDup mods.
Proof. exact ModuleLaws.load_once. Qed.
Print Assumptions loaded_once.

Theorem in_place_touches_only_the_named_file : forall (j : job) (d : dir) q, q <> j_path j -> q <> j_tmp j ->
  lookup (run_ops d (ops_of j)) q = lookup d q.
Proof. exact InPlaceLaws.in_place_frame. Qed.
Print Assumptions in_place_touches_only_the_named_file.
