(** C16 - A program split into modules computes what its inlined form computes. (loader part)
    Model: Cli/Modules.v (mirrors Loader::load / Loader::find of jaq-core/src/load/mod.rs over an abstract file system). *)
From Coq Require Import List Arith.
From JaqV Require Import Cli.Modules Proofs.ModuleLaws Proofs.ModuleOrder.
Import ListNotations.

(** a module reached by several routes (diamonds, repeated directives) is loaded once *)
Theorem load_once : forall fs main_deps mods, load fs main_deps = inl mods -> NoDup mods.
Proof. exact ModuleLaws.load_once. Qed.
Print Assumptions load_once.

(** a successful load leaves the stack of files being loaded as it was *)
Theorem open_stack_restored : forall fuel fs st f id st', find fuel fs st f = inl (id, st') -> l_open st' = l_open st.
Proof. exact find_open. Qed.
Print Assumptions open_stack_restored.

(** circular imports are reported as errors: a file that imports itself is never loaded, whatever the fuel *)
Theorem cycle_reported : forall fs f ds fuel, deps_of fs f = Some ds -> In f ds -> f <> prelude_file ->
  match find (S fuel) fs {| l_mods := [prelude_file]; l_open := [] |} f with
  | inl _ => False
  | inr _ => True
  end.
Proof. exact self_import_is_circular. Qed.
Print Assumptions cycle_reported.

(** a module is loaded (and so its definitions are compiled) only after every file it includes or imports *)
Theorem deps_loaded_first : forall fs main_deps mods, load fs main_deps = inl mods ->
  forall j m, nth_error mods j = Some m -> m <> prelude_file ->
  forall ds d, deps_of fs m = Some ds -> In d ds -> exists i, i < j /\ nth_error mods i = Some d.
Proof. exact ModuleOrder.deps_loaded_first. Qed.
Print Assumptions deps_loaded_first.

(** every file that a chain of directives reaches from the main program is loaded *)
Theorem reachable_loaded : forall fs main_deps mods, load fs main_deps = inl mods ->
  (forall ds, deps_of fs prelude_file = Some ds -> ds = []) ->
  forall m, reach fs main_deps m -> In m mods.
Proof. exact ModuleOrder.reachable_loaded. Qed.
Print Assumptions reachable_loaded.

(** circular imports of any length are reported as errors: a reached file that names itself through a chain of
    directives makes the load fail *)
Theorem cyclic_fails : forall fs main_deps f,
  (forall ds, deps_of fs prelude_file = Some ds -> ds = []) ->
  reach fs main_deps f -> chain fs f f -> forall mods, load fs main_deps <> inl mods.
Proof. exact ModuleOrder.cyclic_fails. Qed.
Print Assumptions cyclic_fails.

(** ... instead of looping: the fuel of the model is never what stops the loader *)
Theorem load_fuel_suffices : forall fs main_deps, load fs main_deps <> inr Fuel.
Proof. exact ModuleOrder.load_fuel_suffices. Qed.
Print Assumptions load_fuel_suffices.

(** every acyclic set of modules whose files exist loads *)
Theorem acyclic_loads : forall fs main_deps (rank : file -> nat),
  (forall f ds d, deps_of fs f = Some ds -> In d ds -> rank d < rank f) ->
  (forall f, reach fs main_deps f -> deps_of fs f <> None) ->
  exists mods, load fs main_deps = inl mods.
Proof. exact ModuleOrder.acyclic_loads. Qed.
Print Assumptions acyclic_loads.

Example diamond : load [(1, [2; 3]); (2, [4]); (3, [4]); (4, [])] [1] = inl [0; 4; 2; 3; 1].
Proof. reflexivity. Qed.
Example cycle : load [(1, [2]); (2, [3]); (3, [1])] [1] = inr (Circular 1).
Proof. reflexivity. Qed.
