(** C16 - A program split into modules computes what its inlined form computes. (loader part)
    Model: Cli/Modules.v (mirrors Loader::load / Loader::find of jaq-core/src/load/mod.rs over an abstract file system). *)
From Coq Require Import List Arith.
From JaqV Require Import Cli.Modules Proofs.ModuleLaws.
Import ListNotations.

(** a module reached by several routes (diamonds, repeated directives) is loaded once *)
Theorem load_once : forall fs main_deps mods, load fs main_deps = inl mods -> NoDup mods.
Proof. exact ModuleLaws.load_once. Qed.
Print Assumptions load_once.

(** a successful load leaves the stack of files being loaded as it was *)
Theorem open_stack_restored : forall fuel fs st f id st', find fuel fs st f = inl (id, st') -> l_open st' = l_open st.
Proof. exact find_open. Qed.
Print Assumptions open_stack_restored.

(** circular imports are reported as errors: a file that imports itself is never loaded, whatever the fuel *)
Theorem cycle_reported : forall fs f ds fuel, deps_of fs f = Some ds -> In f ds -> f <> prelude_file ->
  match find (S fuel) fs {| l_mods := [prelude_file]; l_open := [] |} f with
  | inl _ => False
  | inr _ => True
  end.
Proof. exact self_import_is_circular. Qed.
Print Assumptions cycle_reported.

Example diamond : load [(1, [2; 3]); (2, [4]); (3, [4]); (4, [])] [1] = inl [0; 4; 2; 3; 1].
Proof. reflexivity. Qed.
Example cycle : load [(1, [2]); (2, [3]); (3, [1])] [1] = inr (Circular 1).
Proof. reflexivity. Qed.
