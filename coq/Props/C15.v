(** C15 - Parsing depends only on tokens and the documented grammar, precedence and sugar. (operator layer)
    Model: Parse/PrecClimb.v (mirrors prec_climb.rs, the precedence/associativity of BinaryOp and Term::climb). *)
From Coq Require Import List Bool Arith.
From JaqV Require Import Val.Err Parse.PrecClimb Proofs.PrecLaws Base.Bytes Parse.Lex Proofs.LexLaws.
Import ListNotations.

(** for every chain of operands and operators, of any length, the tree reads back in order as exactly that chain:
    nothing is dropped, duplicated or reordered by precedence climbing *)
Theorem climb_roundtrip_sequence : forall x rest,
  exists rest', flat (climb_plain x rest) ++ flat_chain rest' = flat x ++ flat_chain rest.
Proof. exact climb_preserves_sequence. Qed.
Print Assumptions climb_roundtrip_sequence.

(** precedence levels and associativities are exactly those tabulated in the manual *)
Theorem prec_table : forallb (fun o => (prec o =? doc_level o) && Bool.eqb (right_assoc o) (doc_right o)) all_ops = true.
Proof. exact PrecLaws.prec_table. Qed.
Print Assumptions prec_table.

(** every ordered pair of the 25 operators groups as the table implies (bindings extend to the right) *)
Theorem pairs_as_tabulated :
  forallb (fun o1 => forallb (fun o2 => expr_eqb (parse_chain (Atom 0) [(o1, Atom 1); (o2, Atom 2)]) (expected2 o1 o2)) all_ops) all_ops = true.
Proof. exact all_pairs_group_as_tabulated. Qed.
Print Assumptions pairs_as_tabulated.

(** every ordered triple (15625 of them) groups as inserting the table's parentheses implies *)
Theorem triples_as_tabulated :
  forallb (fun o1 => forallb (fun o2 => forallb (fun o3 =>
    expr_eqb (parse_chain (Atom 0) [(o1, Atom 1); (o2, Atom 2); (o3, Atom 3)]) (reference3 o1 o2 o3)) all_ops) all_ops) all_ops = true.
Proof. exact all_triples_group_as_tabulated. Qed.
Print Assumptions triples_as_tabulated.

(** the lexer (Parse/Lex.v mirrors jaq-core/src/load/lex.rs): white space and comments in front of a token change neither
    the token, nor what follows it, nor the verdict - for every input *)
Theorem token_skips_trivia : forall t s fuel, LexLaws.trivia t -> LexLaws.token_start s -> token fuel (t ++ s) = token fuel s.
Proof. exact LexLaws.token_skips_trivia. Qed.
Print Assumptions token_skips_trivia.

Theorem tokens_skip_trivia : forall t s fuel, LexLaws.trivia t -> LexLaws.token_start s ->
  let '(ts, r, ok) := tokens (S fuel) (t ++ s) in
  let '(ts', r', ok') := tokens (S fuel) s in
  ts = ts' /\ ok = ok' /\ (r = r' \/ (r = t ++ s /\ r' = s)).
Proof. exact LexLaws.tokens_skip_trivia. Qed.
Print Assumptions tokens_skip_trivia.
