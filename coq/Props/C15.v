(** C15 - Parsing depends only on tokens and the documented grammar, precedence and sugar. (operator layer)
    Model: Parse/PrecClimb.v (mirrors prec_climb.rs, the precedence/associativity of BinaryOp and Term::climb). *)
From Coq Require Import List Bool Arith.
From JaqV Require Import Val.Err Parse.PrecClimb Proofs.PrecLaws Proofs.PrecGeneral Base.Bytes Parse.Lex Proofs.LexLaws.
Import ListNotations.

(** for every chain of operands and operators, of any length, the tree reads back in order as exactly that chain:
    nothing is dropped, duplicated or reordered by precedence climbing *)
Theorem climb_roundtrip_sequence : forall x rest,
  exists rest', flat (climb_plain x rest) ++ flat_chain rest' = flat x ++ flat_chain rest.
Proof. exact climb_preserves_sequence. Qed.
Print Assumptions climb_roundtrip_sequence.

(** for chains of any length the whole chain is consumed and every node of the tree respects the table: the operator
    at the root of a left operand binds tighter than its parent (or equally, on a left-associative level), the one at the
    root of a right operand binds tighter (or equally, on a right-associative level); the leaves are the operands.
    With the sequence theorem above this fixes the tree: it is the one that the table's parentheses describe. *)
Theorem climb_respects_table : forall x rest,
  let P e := e = x \/ In e (map snd rest) in
  climb1 (S (2 * length rest)) x rest 0 = (climb_plain x rest, []) /\ okt P (climb_plain x rest).
Proof. exact PrecGeneral.climb_respects_table. Qed.
Print Assumptions climb_respects_table.

(** two trees over atoms that respect the table and read as the same operand/operator sequence are the same tree ... *)
Theorem table_tree_unique : forall t1 t2, okt atom t1 -> okt atom t2 -> seq t1 = seq t2 -> t1 = t2.
Proof. exact PrecGeneral.table_tree_unique. Qed.
Print Assumptions table_tree_unique.

(** ... so every fully parenthesised reading of a chain (of any length) that respects the table is the tree the parser
    builds: inserting the parentheses that the table implies, or removing them, never changes the program *)
Theorem climb_is_the_table_tree : forall x rest t, atom x -> Forall (fun ot => atom (snd ot)) rest ->
  okt atom t -> seq t = seq x ++ chain_seq rest -> climb_plain x rest = t.
Proof. exact PrecGeneral.climb_is_the_table_tree. Qed.
Print Assumptions climb_is_the_table_tree.

(** associativity is a property of the precedence level *)
Theorem assoc_by_level : forall a b, prec a = prec b -> right_assoc a = right_assoc b.
Proof. exact PrecGeneral.assoc_by_level. Qed.
Print Assumptions assoc_by_level.

(** precedence levels and associativities are exactly those tabulated in the manual *)
Theorem prec_table : forallb (fun o => (prec o =? doc_level o) && Bool.eqb (right_assoc o) (doc_right o)) all_ops = true.
Proof. exact PrecLaws.prec_table. Qed.
Print Assumptions prec_table.

(** every ordered pair of the 25 operators groups as the table implies (bindings extend to the right) *)
Theorem pairs_as_tabulated :
  forallb (fun o1 => forallb (fun o2 => expr_eqb (parse_chain (Atom 0) [(o1, Atom 1); (o2, Atom 2)]) (expected2 o1 o2)) all_ops) all_ops = true.
Proof. exact all_pairs_group_as_tabulated. Qed.
Print Assumptions pairs_as_tabulated.

(** every ordered triple (15625 of them) groups as inserting the table's parentheses implies *)
Theorem triples_as_tabulated :
  forallb (fun o1 => forallb (fun o2 => forallb (fun o3 =>
    expr_eqb (parse_chain (Atom 0) [(o1, Atom 1); (o2, Atom 2); (o3, Atom 3)]) (reference3 o1 o2 o3)) all_ops) all_ops) all_ops = true.
Proof. exact all_triples_group_as_tabulated. Qed.
Print Assumptions triples_as_tabulated.

(** the lexer (Parse/Lex.v mirrors jaq-core/src/load/lex.rs): white space and comments in front of a token change neither
    the token, nor what follows it, nor the verdict - for every input *)
Theorem token_skips_trivia : forall t s fuel, LexLaws.trivia t -> LexLaws.token_start s -> token fuel (t ++ s) = token fuel s.
Proof. exact LexLaws.token_skips_trivia. Qed.
Print Assumptions token_skips_trivia.

Theorem tokens_skip_trivia : forall t s fuel, LexLaws.trivia t -> LexLaws.token_start s ->
  let '(ts, r, ok) := tokens (S fuel) (t ++ s) in
  let '(ts', r', ok') := tokens (S fuel) s in
  ts = ts' /\ ok = ok' /\ (r = r' \/ (r = t ++ s /\ r' = s)).
Proof. exact LexLaws.tokens_skip_trivia. Qed.
Print Assumptions tokens_skip_trivia.
