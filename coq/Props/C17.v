(** C17 - The command line prints each output once, in order, and reports the true outcome. (partial)
    Model: Cli/Main.v (main loop, input reading for json/raw/raw0, rendering, exit status), on top of the
    interpreter, the JSON writer and reader.  Not in the model: terminal detection, colours, files, input/inputs. *)
From Coq Require Import ZArith Bool List.
From JaqV Require Import Base.Bytes Base.Stream Val.Val Core.Compile Core.Eval Cli.Main Proofs.CliLaws.
Import ListNotations.

(** every output is written completely and in order, after everything written before it *)
Theorem outputs_in_order : forall o items, no_raw0 o -> forall acc last,
  emit o items acc last = (acc ++ concat (map (render_or_empty o) items), last_of items last, true).
Proof. exact emit_spec. Qed.
Print Assumptions outputs_in_order.

(** what has been written before an error (or before the next input) stays written *)
Theorem outputs_before_error : forall fuel o p g inputs out last,
  exists more, fst (main_loop fuel o p g inputs out last) = out ++ more.
Proof. exact main_loop_extends. Qed.
Print Assumptions outputs_before_error.

(** output options (-c, -S, --tab, --indent, -r, -j) change only the rendering, never the outcome *)
Theorem option_frame : forall fuel o1 o2 p g inputs, no_raw0 o1 -> no_raw0 o2 -> forall out1 out2 last,
  snd (main_loop fuel o1 p g inputs out1 last) = snd (main_loop fuel o2 p g inputs out2 last).
Proof. exact outcome_frame. Qed.
Print Assumptions option_frame.

Theorem exit_status_table : forall o,
  (forall last, o_exit_status o = false -> exit_code o (Finished last) = 0%Z) /\
  (o_exit_status o = true -> exit_code o (Finished None) = 4%Z /\ exit_code o (Finished (Some false)) = 1%Z /\ exit_code o (Finished (Some true)) = 0%Z) /\
  exit_code o RunError = 5%Z /\ (forall l, exit_code o (InputError l) = 5%Z) /\
  (forall c, (0 <= c < 256)%Z -> exit_code o (Halted c) = c) /\ exit_code o WriteError = 2%Z.
Proof. exact exit_code_table. Qed.
Print Assumptions exit_status_table.

(** option parsing (Cli/Args.v mirrors Cli::parse): -j joins outputs and selects raw output only when no output
    format was chosen before it; later format options override earlier ones *)
From JaqV Require Import Cli.Args.
From Coq Require Import Strings.String Strings.Ascii.

Theorem join_keeps_earlier_format : forall c f, c_to c = Some f ->
  option_map c_to (short c "j"%char) = Some (Some f) /\ option_map c_join (short c "j"%char) = Some true.
Proof. intros c f H. cbn. rewrite H. split; reflexivity. Qed.
Print Assumptions join_keeps_earlier_format.

Theorem join_defaults_to_raw : forall c, c_to c = None -> option_map c_to (short c "j"%char) = Some (Some FRaw).
Proof. intros c H. cbn. rewrite H. reflexivity. Qed.
Print Assumptions join_defaults_to_raw.

Example args_example :
  match parse_cli ["--raw-output0"; "-cj"; "."; "f1"; "--args"; "a"]%string with
  | inl c => (c_to c, c_join c, c_compact c, c_filter c, c_files c, c_args c) = (Some FRaw0, true, true, Some "."%string, ["f1"%string], ["a"%string])
  | inr _ => False
  end.
Proof. reflexivity. Qed.
