(** C01 - Compiled filters compute exactly the jq semantics the manual defines.  (first stage) *)
From Coq Require Import List FunctionalExtensionality.
From JaqV Require Import Base.Stream.
Import ListNotations.

(** streams with a terminator form a monad with append: the laws the interpreter's combination order rests on *)
Theorem sapp_assoc : forall A (s : str A) r t,
  sapp (sapp s r) t = sapp s (fun _ => sapp (r tt) t).
Proof.
  intros A s r t. induction s as [|x k IH|e| |]; cbn; try reflexivity.
  f_equal. apply functional_extensionality. intros []. apply IH.
Qed.
Print Assumptions sapp_assoc.
