(** C01 - Compiled filters compute exactly the jq semantics the manual defines.
    Model: Core/Compile.v + Core/Run.v (the compiler and the interpreter of jaq-core as a forest of definitions and three
    fuel-structural evaluators), tied to the implementation by table and stream correspondence (checks/c01.py).
    Proved here: the interpreter's clauses are the manual's stream equations (`,` appends, `|` binds, `try` replaces the
    first error, `//`, `if`, `label`), and the algebra of these streams - the laws the manual states for filters - for
    every stream however it ends.  Compiler correctness ([compile_correct]) is proved for the binding core: variables, `as $x |` (nested, shadowing), `|`, `,`,
    `//`, arithmetic, comparison, `and`/`or`, negation, `if`, `try`, array construction, paths, `reduce`/`foreach`, `label`/`break` - the compiled term with variables as
    positions computes exactly the named semantics.  [compile_defs] extends this to definitions without parameters - recursive, nested, capturing
    the variables and labels in scope - against the table of definitions the compiler fills; [compile_params] adds variable parameters
    (`def f($a; $b): ...`, arguments evaluated in order and bound on top of the definition's environment), [compile_closures] filter
    parameters (`def f(g): ...`: the argument is a closure over the caller's environment, run where `g` is called).  Nested destructuring patterns, formats, updates and
    native filters rest on the correspondence of tables and outputs. *)
From Coq Require Import List FunctionalExtensionality.
From JaqV Require Import Base.Bytes Base.Stream Val.Val Val.Err Core.Syntax Core.Compile Core.Natives Core.Run Proofs.StreamLaws Proofs.MonadLaws
  Proofs.CompileCorrect.
From JaqV Require Proofs.CompileDefs Proofs.CompileParams Proofs.CompileClosures.
Import ListNotations.

(** ** the interpreter's clauses *)
Theorem comma_appends : forall d nr defs n l r c v,
  run d nr defs (S n) (KComma l r) c v = sapp (run d nr defs n l c v) (fun _ => run d nr defs n r c v).
Proof. reflexivity. Qed.
Print Assumptions comma_appends.

Theorem pipe_binds : forall d nr defs n l r c v,
  run d nr defs (S n) (KPipe l None r) c v = sbind (run d nr defs n l c v) (fun y => run d nr defs n r c y).
Proof. reflexivity. Qed.
Print Assumptions pipe_binds.

Theorem bind_extends_the_context : forall d nr defs n l r c v,
  run d nr defs (S n) (KPipe l (Some PatVar) r) c v = sbind (run d nr defs n l c v) (fun y => run d nr defs n r (cons_var y c) v).
Proof. reflexivity. Qed.
Print Assumptions bind_extends_the_context.

Theorem if_selects_per_output : forall d nr defs n i t e c v,
  run d nr defs (S n) (KIte i t e) c v = sbind (run d nr defs n i c v) (fun x => run d nr defs n (if as_bool x then t else e) c v).
Proof. reflexivity. Qed.
Print Assumptions if_selects_per_output.

Theorem alternative_takes_truthy_outputs_or_the_right : forall d nr defs n l r c v,
  run d nr defs (S n) (KAlt l r) c v
  = match sfilter as_bool (run d nr defs n l c v) with SNil => run d nr defs n r c v | s => s end.
Proof. reflexivity. Qed.
Print Assumptions alternative_takes_truthy_outputs_or_the_right.

Theorem label_catches_its_break : forall d nr defs n f c v,
  run d nr defs (S n) (KLabel f) c v = slabel (labels (cons_label c)) (run d nr defs n f (cons_label c) v).
Proof. reflexivity. Qed.
Print Assumptions label_catches_its_break.

Theorem array_collects_or_fails : forall d nr defs n f c v,
  run d nr defs (S n) (KArr f) c v = collect_then (run d nr defs n f c v) (fun l => sone (Arr l)).
Proof. reflexivity. Qed.
Print Assumptions array_collects_or_fails.

(** ** the algebra of the streams *)
Theorem sapp_assoc : forall A (s : str A) r t,
  sapp (sapp s r) t = sapp s (fun _ => sapp (r tt) t).
Proof. exact @MonadLaws.sapp_assoc'. Qed.
Print Assumptions sapp_assoc.

(** `. | f` = `f`;  `f | .` = `f`;  `(f | g) | h` = `f | (g | h)` *)
Theorem identity_left : forall A B (x : A) (f : A -> str B), sbind (sone x) f = f x.
Proof. exact @MonadLaws.sbind_sone_l. Qed.
Print Assumptions identity_left.
Theorem identity_right : forall A (s : str A), sbind s sone = s.
Proof. exact @MonadLaws.sbind_sone_r. Qed.
Print Assumptions identity_right.
Theorem pipe_associative : forall A B C (s : str A) (f : A -> str B) (g : B -> str C),
  sbind (sbind s f) g = sbind s (fun x => sbind (f x) g).
Proof. exact @MonadLaws.sbind_assoc. Qed.
Print Assumptions pipe_associative.

(** `(f, g) | h` = `(f | h), (g | h)`;  `f, empty` = `f` *)
Theorem pipe_distributes_over_comma : forall A B (s : str A) r (f : A -> str B),
  sbind (sapp s r) f = sapp (sbind s f) (fun _ => sbind (r tt) f).
Proof. exact @MonadLaws.sbind_sapp. Qed.
Print Assumptions pipe_distributes_over_comma.
Theorem empty_is_unit_of_comma : forall A (s : str A), sapp s (fun _ => SNil) = s.
Proof. exact @MonadLaws.sapp_nil_r. Qed.
Print Assumptions empty_is_unit_of_comma.

(** `try`: the outputs before the first error stay, the handler runs on it, nothing after it is run *)
Theorem try_replaces_the_first_error : forall A (xs : list A) e r (h : err -> str A),
  stry (sapp (of_list xs) (fun _ => sapp (serr e) r)) h = sapp (of_list xs) (fun _ => h e).
Proof. exact @MonadLaws.stry_prefix. Qed.
Print Assumptions try_replaces_the_first_error.

(** ** compiler correctness for the binding core *)
(** [frag b n t]: t is built from `.`, numbers, variables in scope [b], `as $x |`, `|`, `,`, `//`, arithmetic, comparison,
    and/or, negation, if, try, array construction, paths (.a, .[i], .[], slices, ?), reduce, foreach, label and break (nesting at most n); [sem] is its semantics with variables by name.
    Compiling never fails on such a term, leaves the compiler state untouched, and the compiled term run in any context that
    holds the values of the variables at the positions the compiler assigned computes exactly [sem] - for every fuel,
    input and stream of outputs. *)
Theorem compile_correct : forall g d nr defs b n t, frag b n t -> forall m e s tr, (n <= m)%nat -> scoped b e ->
  exists k trr, c_term g m e s t tr = ((k, trr), s)
                /\ forall fuel c rho v, agrees e c rho -> run d nr defs fuel k c v = sem d fuel t rho (labels c) v.
Proof. exact CompileCorrect.compile_correct. Qed.
Print Assumptions compile_correct.

Theorem compile_correct_closed : forall g d nr defs n t, frag [] n t ->
  exists k trr, c_term g n empty_env empty_cst t [] = ((k, trr), empty_cst)
                /\ forall fuel v, run d nr defs fuel k {| vars := []; labels := 0 |} v = sem d fuel t [] 0 v.
Proof. exact CompileCorrect.compile_correct_closed. Qed.
Print Assumptions compile_correct_closed.

(** ** compiler correctness with definitions *)
(** [CompileDefs.frag b fs n t]: as above, plus `def f: body; t` (recursive, nested, shadowing) and calls `f` of the definitions in
    scope [fs].  [CompileDefs.sem] keeps closures (body, environment at the definition, older definitions).  Compiling never
    fails, only extends the table of definitions, and - against any table that contains what was allocated - the compiled term
    run in a context that agrees with the named environment, with the older definitions related to their table entries
    ([funs_rel]), computes exactly the named semantics: call by table index, dropping the variables bound since the
    definition, is call by name with the captured environment. *)
Theorem compile_defs : forall g d nr b fs n t, CompileDefs.frag b fs n t ->
  forall m e s tr, (n <= m)%nat -> CompileDefs.scoped b e -> CompileDefs.fscoped fs e ->
  exists k trr s', c_term g m e s t tr = ((k, trr), s') /\ CompileDefs.extends s s'
    /\ forall defs, CompileDefs.covers s s' defs -> forall fuel c rho phi v,
          CompileDefs.agrees e c rho -> CompileDefs.funs_rel d nr defs fuel (e_funs e) rho phi ->
          run d nr defs fuel k c v = CompileDefs.sem d fuel t rho phi (labels c) v.
Proof. exact CompileDefs.compile_defs. Qed.
Print Assumptions compile_defs.

(** a whole program compiled from scratch and run against the table the compiler produced *)
Theorem compile_defs_closed : forall g d nr n t, CompileDefs.frag [] [] n t ->
  exists k trr s', c_term g n empty_env empty_cst t [] = ((k, trr), s') /\ c_errs s' = 0%nat
    /\ forall fuel v, run d nr (c_defs s') fuel k {| vars := []; labels := 0 |} v = CompileDefs.sem d fuel t [] [] 0 v.
Proof. exact CompileDefs.compile_defs_closed. Qed.
Print Assumptions compile_defs_closed.

(** ** compiler correctness with definitions that take variable parameters *)
(** [CompileParams.frag]: as above, plus `def f($a; $b; ...): body; t` and calls `f(s; t; ...)`.  The named semantics evaluates
    the arguments in order (all combinations, first argument outermost) and runs the body in the environment of the
    definition extended by the parameters; the compiled call evaluates them onto the context left after dropping the
    bindings made since the definition.  Statement as [compile_defs]. *)
Theorem compile_params : forall g d nr b fs n t, CompileParams.frag b fs n t ->
  forall m e s tr, (n <= m)%nat -> CompileParams.scoped b e -> CompileParams.fscoped fs e ->
  exists k trr s', c_term g m e s t tr = ((k, trr), s') /\ CompileParams.extends s s'
    /\ forall defs, CompileParams.covers s s' defs -> forall fuel c rho phi v,
          CompileParams.agrees e c rho -> CompileParams.funs_rel d nr defs fuel (e_funs e) rho phi ->
          run d nr defs fuel k c v = CompileParams.sem d fuel t rho phi (labels c) v.
Proof. exact CompileParams.compile_params. Qed.
Print Assumptions compile_params.

Theorem compile_params_closed : forall g d nr n t, CompileParams.frag [] [] n t ->
  exists k trr s', c_term g n empty_env empty_cst t [] = ((k, trr), s') /\ c_errs s' = 0%nat
    /\ forall fuel v, run d nr (c_defs s') fuel k {| vars := []; labels := 0 |} v = CompileParams.sem d fuel t [] [] 0 v.
Proof. exact CompileParams.compile_params_closed. Qed.
Print Assumptions compile_params_closed.

(** ** compiler correctness with filter parameters: closures *)
(** [CompileClosures.frag]: as above, plus `def f(g; $a; ...): body` with filter parameters and calls `g` of them, object
    construction (`{k: v}`, `{$x}`, `{k}`, any number of entries and outputs), strings with interpolation, `..`, `if` without
    `else`, and destructuring with one level of variables (`. as [$a, $b] | ...`, `. as {k: $a} | ...`: keys evaluated on the
    matched value in the environment of the binding, all combinations).  In the named
    semantics a filter argument is not evaluated at the call: the parameter is bound to the closure (argument term with the
    environment and definitions of the caller) and a call of the parameter runs it on the current input.  The compiled code
    binds the compiled argument with the caller's context and reaches it by position.  [agrees defs fuel]: the context holds,
    position by position, values and labels equal to the named ones and closures that compute the same streams for every
    smaller fuel ([brel]); [funs_ok]: every name the compiler resolves denotes the corresponding definition or parameter of
    the named semantics.  For every fuel, context, input: the compiled term computes the named semantics. *)
Theorem compile_closures : forall g d nr b fs n t, CompileClosures.frag b fs n t ->
  forall m e s tr, (n <= m)%nat -> CompileClosures.scoped b e -> CompileClosures.fscoped fs e ->
  exists k trr s', c_term g m e s t tr = ((k, trr), s') /\ CompileClosures.extends s s'
    /\ forall defs, CompileClosures.covers s s' defs -> forall fuel c rho phi v,
          CompileClosures.agrees d nr defs fuel e c rho -> CompileClosures.funs_ok d nr defs fuel (e_funs e) rho phi ->
          run d nr defs fuel k c v = CompileClosures.sem d fuel t rho phi (labels c) v.
Proof. exact CompileClosures.compile_closures. Qed.
Print Assumptions compile_closures.

Theorem compile_closures_closed : forall g d nr n t, CompileClosures.frag [] [] n t ->
  exists k trr s', c_term g n empty_env empty_cst t [] = ((k, trr), s') /\ c_errs s' = 0%nat
    /\ forall fuel v, run d nr (c_defs s') fuel k {| vars := []; labels := 0 |} v = CompileClosures.sem d fuel t [] [] 0 v.
Proof. exact CompileClosures.compile_closures_closed. Qed.
Print Assumptions compile_closures_closed.
