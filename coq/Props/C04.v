(** C04 - Tail-recursive definitions run in constant stack and constant memory.
    Model: Core/Compile.v, the mirror of jaq-core/src/compile.rs with its analysis of tail calls ([tr], the definitions
    that may be tail-called from the current position, and the call types Inline / Throw / CatchOne / CatchAll).
    The theorems say where the compiler lets tail calls through.  That the interpreter then runs a thrown call in
    constant stack and heap is measured on the implementation (checks/c04.py), not proved. *)
From Coq Require Import List ZArith Bool.
From JaqV Require Import Base.Bytes Val.Err Core.Syntax Core.Compile Proofs.TailLaws.
Import ListNotations.

(** a call of an enclosing definition under any stack of tail contexts - right of `|`, of `as p |`, either side of `,`,
    right of `//`, then/else branch, projection of `foreach` - is compiled to a thrown tail call and reported to the caller *)
Theorem tail_call_is_thrown : forall g c n e s f fe kinds id tr,
  (cdepth c < n)%nat ->
  find_fun f 0 (e_funs e) = Some fe -> f_kind fe = FParent kinds id -> mem id tr = true ->
  let '((t, tr_), _) := c_term g n e s (plug c (PCall f [])) tr in
  has_throw id t = true /\ mem id tr_ = true.
Proof. intros g c. exact (TailLaws.tail_call_is_thrown g c). Qed.
Print Assumptions tail_call_is_thrown.

(** outside a tail position the same call catches the thrown calls of its callee instead of being thrown *)
Theorem non_tail_call_is_caught : forall g e s f fe kinds id n,
  find_fun f 0 (e_funs e) = Some fe -> f_kind fe = FParent kinds id ->
  fst (c_term g (S n) e s (PCall f []) []) = (KCallDef id (binds kinds []) (total e - f_vars fe) CatchAll, []).
Proof. exact TailLaws.non_tail_call_is_caught. Qed.
Print Assumptions non_tail_call_is_caught.

(** the constructs whose outputs are not the outputs of a subterm drop the tail-callable set: array construction,
    negation, label, try, reduce, arithmetic, comparison, update, paths, strings, objects *)
Theorem no_tail_position_in : forall g n e s tr,
  (forall t, c_term g (S n) e s (PArr t) tr = c_term g (S n) e s (PArr t) [])
  /\ (forall t, c_term g (S n) e s (PNeg t) tr = c_term g (S n) e s (PNeg t) [])
  /\ (forall x t, c_term g (S n) e s (PLabel x t) tr = c_term g (S n) e s (PLabel x t) [])
  /\ (forall t c, c_term g (S n) e s (PTryCatch t c) tr = c_term g (S n) e s (PTryCatch t c) [])
  /\ (forall xs p args, c_term g (S n) e s (PFold name_reduce xs p args) tr = c_term g (S n) e s (PFold name_reduce xs p args) [])
  /\ (forall l o r, c_term g (S n) e s (PBinOp l (BMath o) r) tr = c_term g (S n) e s (PBinOp l (BMath o) r) [])
  /\ (forall l o r, c_term g (S n) e s (PBinOp l (BCmp o) r) tr = c_term g (S n) e s (PBinOp l (BCmp o) r) [])
  /\ (forall l r, c_term g (S n) e s (PBinOp l BUpdate r) tr = c_term g (S n) e s (PBinOp l BUpdate r) [])
  /\ (forall t p, c_term g (S n) e s (PPath t p) tr = c_term g (S n) e s (PPath t p) [])
  /\ (forall f ps, c_term g (S n) e s (PStr f ps) tr = c_term g (S n) e s (PStr f ps) [])
  /\ (forall kvs, c_term g (S n) e s (PObj kvs) tr = c_term g (S n) e s (PObj kvs) []).
Proof.
  intros g n e s tr. repeat split.
Qed.
Print Assumptions no_tail_position_in.
