(** C03 - Streams are produced on demand; consumers of a prefix never run the rest.
    Model: Base/Stream.v (lazy streams whose tails are thunks; the remainder of a stream may be an error, a halt, a break,
    out-of-fuel divergence [SBot] or more items), Core/Natives.v ([first], [limit]), Core/Run.v (the interpreter).
    [pre k s] are the first [k] items of [s] obtained without looking at anything after them.  The consumption of the
    shared input stream is observed on the implementation (checks/c03.py), not modelled. *)
From Coq Require Import List ZArith Bool.
From JaqV Require Import Base.Stream Val.Num Val.Val Val.Err Val.Arith Core.Syntax Core.Natives Core.Run Proofs.StreamLaws Proofs.LazyLaws Proofs.FoldLazy Core.Compile.
Import ListNotations.
Local Open Scope Z_scope.

(** whatever follows the items a prefix consumer needs - [r1] or [r2], anything - its result is the same:
    the first k items themselves, [first], [limit(n; _)], and the consumer that stops iterating after k outputs *)
Theorem prefix_consumers_ignore_rest : forall A (xs : list A) (r1 r2 : unit -> str A),
  let s1 := sapp (of_list xs) r1 in
  let s2 := sapp (of_list xs) r2 in
  (forall k, (k <= length xs)%nat -> pre k s1 = pre k s2)
  /\ (xs <> [] -> first_s s1 = first_s s2)
  /\ (forall n, (n <= length xs)%nat -> in_isize (Z.of_nat n) = true ->
        limit (vint (Z.of_nat n)) (fun _ => s1) = limit (vint (Z.of_nat n)) (fun _ => s2))
  /\ (forall k, (k <= length xs)%nat -> fst (take k s1) = fst (take k s2)).
Proof. exact @LazyLaws.prefix_consumers_ignore_rest. Qed.
Print Assumptions prefix_consumers_ignore_rest.

(** [limit(n; s)] is exactly the first n outputs, then the end *)
Theorem limit_is_prefix : forall A n (s : str A) l, pre n s = Some l -> in_isize (Z.of_nat n) = true ->
  limit (vint (Z.of_nat n)) (fun _ => s) = of_list l.
Proof. exact @LazyLaws.limit_pre. Qed.
Print Assumptions limit_is_prefix.

Theorem first_is_head : forall A (s : str A) x, pre 1 s = Some [x] -> first_s s = sone x.
Proof. exact @LazyLaws.first_pre. Qed.
Print Assumptions first_is_head.

(** [label $x | (xs..., break $x, rest)] *)
Theorem label_break_ignores_rest : forall A lb (xs : list A) r,
  slabel lb (sapp (of_list xs) (fun _ => sapp (SExn (XBreak lb)) r)) = of_list xs.
Proof. exact @LazyLaws.label_break. Qed.
Print Assumptions label_break_ignores_rest.

(** the combinators of the interpreter hand prefixes through: [s | f] needs only the items of [s] that produce the prefix *)
Theorem pipe_prefix : forall A B (f : A -> str B) xs k l r,
  pre k (sbind (of_list xs) f) = Some l -> pre k (sbind (sapp (of_list xs) r) f) = Some l.
Proof. exact @LazyLaws.pre_sbind. Qed.
Print Assumptions pipe_prefix.

(** the interpreter, construct by construct *)
Theorem comma_lazy : forall d nr defs n l r c v k xs,
  pre k (run d nr defs n l c v) = Some xs -> pre k (run d nr defs (S n) (KComma l r) c v) = Some xs.
Proof. exact LazyLaws.run_comma_lazy. Qed.
Print Assumptions comma_lazy.

Theorem pipe_lazy : forall d nr defs n l r c v ys rest k xs,
  run d nr defs n l c v = sapp (of_list ys) rest ->
  pre k (sbind (of_list ys) (fun y => run d nr defs n r c y)) = Some xs ->
  pre k (run d nr defs (S n) (KPipe l None r) c v) = Some xs.
Proof. exact LazyLaws.run_pipe_lazy. Qed.
Print Assumptions pipe_lazy.

Theorem try_lazy : forall d nr defs n f h c v k xs,
  pre k (run d nr defs n f c v) = Some xs -> pre k (run d nr defs (S n) (KTryCatch f h) c v) = Some xs.
Proof. exact LazyLaws.run_try_lazy. Qed.
Print Assumptions try_lazy.

Theorem label_lazy : forall d nr defs n f c v k xs,
  pre k (run d nr defs n f (cons_label c) v) = Some xs -> pre k (run d nr defs (S n) (KLabel f) c v) = Some xs.
Proof. exact LazyLaws.run_label_lazy. Qed.
Print Assumptions label_lazy.

Theorem alt_lazy : forall d nr defs n l r c v x t,
  run d nr defs n l c v = SCons x t -> as_bool x = true -> first_s (run d nr defs (S n) (KAlt l r) c v) = sone x.
Proof. exact LazyLaws.run_alt_lazy. Qed.
Print Assumptions alt_lazy.

(** reduce and foreach ask their source for the next item only after the update has yielded a state for the current one
    (Proofs/FoldLazy.v): when the update on an item yields nothing, or fails, breaks or halts, the fold ends there whatever
    the rest [k] of the source would do (read inputs, fail, never end); foreach delivers its output for the current item
    before the source is asked again *)
Theorem fold_ignores_the_rest_after_an_empty_update : forall d nr defs fuel xs init upd ft c v i y (k : unit -> str val),
  run d nr defs (S fuel) init c v = sone i -> run d nr defs fuel xs c v = SCons y k ->
  run d nr defs (S fuel) upd (cons_var y c) i = SNil ->
  run d nr defs (S (S fuel)) (KFold xs PatVar init upd ft) c v = SNil.
Proof. exact FoldLazy.fold_ignores_rest_after_empty. Qed.
Print Assumptions fold_ignores_the_rest_after_an_empty_update.

Theorem fold_ignores_the_rest_after_an_exception : forall d nr defs fuel xs init upd ft c v i y (k : unit -> str val) e,
  run d nr defs (S fuel) init c v = sone i -> run d nr defs fuel xs c v = SCons y k ->
  run d nr defs (S fuel) upd (cons_var y c) i = SExn e ->
  run d nr defs (S (S fuel)) (KFold xs PatVar init upd ft) c v = SExn e.
Proof. exact FoldLazy.fold_ignores_rest_after_exception. Qed.
Print Assumptions fold_ignores_the_rest_after_an_exception.

Theorem foreach_delivers_before_the_source_is_asked_again : forall d nr defs fuel xs init upd c v i y (k : unit -> str val) z t,
  run d nr defs (S fuel) init c v = sone i -> run d nr defs fuel xs c v = SCons y k ->
  run d nr defs (S fuel) upd (cons_var y c) i = SCons z t ->
  exists tl, run d nr defs (S (S fuel)) (KFold xs PatVar init upd (Foreach None)) c v = SCons z tl.
Proof. exact FoldLazy.foreach_first_output. Qed.
Print Assumptions foreach_delivers_before_the_source_is_asked_again.
