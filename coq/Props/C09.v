(** C09 - Integer arithmetic is exact at any size; operators follow the manual's rules.
    Property theorems only; proofs are in Proofs/NumExact.v.  Model: Val/Num.v (mirrors
    jaq-json/src/num.rs), tied to the code by the correspondence check of `jv check C09`. *)
From Coq Require Import ZArith Bool List.
From JaqV Require Import Base.F64 Base.Bytes Val.Num Val.Val Val.Err Val.Arith Proofs.NumExact Proofs.StringLaws Proofs.ArithLaws.
Import ListNotations.
Local Open Scope Z_scope.

Theorem add_exact : forall x y a b, int_val x = Some a -> int_val y = Some b -> int_val (add x y) = Some (a + b).
Proof. exact NumExact.add_exact. Qed.
Print Assumptions add_exact.

Theorem sub_exact : forall x y a b, int_val x = Some a -> int_val y = Some b -> int_val (sub x y) = Some (a - b).
Proof. exact NumExact.sub_exact. Qed.
Print Assumptions sub_exact.

Theorem mul_exact : forall x y a b, int_val x = Some a -> int_val y = Some b -> int_val (mul x y) = Some (a * b).
Proof. exact NumExact.mul_exact. Qed.
Print Assumptions mul_exact.

Theorem neg_exact : forall x a, int_val x = Some a -> int_val (neg x) = Some (- a).
Proof. exact NumExact.neg_exact. Qed.
Print Assumptions neg_exact.

Theorem rem_exact : forall x y a b, int_val x = Some a -> int_val y = Some b -> int_val (rem x y) = Some (Z.rem a b).
Proof. exact NumExact.rem_exact. Qed.
Print Assumptions rem_exact.

(** an operation yields an integer exactly when both operands are integers and the operator is + - * % *)
Theorem int_iff : forall x y,
  is_int (add x y) = (is_int x && is_int y) /\ is_int (sub x y) = (is_int x && is_int y) /\
  is_int (mul x y) = (is_int x && is_int y) /\ is_int (rem x y) = (is_int x && is_int y) /\
  is_int (div x y) = false.
Proof.
  intros x y. repeat split;
  [apply add_int_iff | apply sub_int_iff | apply mul_int_iff | apply rem_int_iff].
Qed.
Print Assumptions int_iff.

(** otherwise the IEEE-754 double result of the converted operands (SpecFloat's operations) *)
Theorem float_otherwise : forall x y, (is_int x && is_int y) = false ->
  add x y = Flt (fadd (to_f64 x) (to_f64 y)) /\ sub x y = Flt (fsub (to_f64 x) (to_f64 y)) /\
  mul x y = Flt (fmul (to_f64 x) (to_f64 y)) /\ rem x y = Flt (frem (to_f64 x) (to_f64 y)).
Proof.
  intros x y H. repeat split; [apply add_float | apply sub_float | apply mul_float | apply rem_float]; exact H.
Qed.
Print Assumptions float_otherwise.

Theorem div_always_float : forall x y, div x y = Flt (fdiv (to_f64 x) (to_f64 y)).
Proof. exact NumExact.div_float. Qed.
Print Assumptions div_always_float.

(** integer consumers behave identically for equal integers however stored *)
Theorem repr_independent_index : forall x y a, int_val x = Some a -> int_val y = Some a ->
  num_is_wf x = true -> num_is_wf y = true -> as_pos_usize x = as_pos_usize y /\ as_isize x = as_isize y.
Proof. intros. split; [eapply as_pos_usize_repr | eapply as_isize_repr]; eassumption. Qed.
Print Assumptions repr_independent_index.

Theorem repr_independent_cmp : forall x y a b, int_val x = Some a -> int_val y = Some b ->
  num_cmp x y = Z.compare a b /\ num_eqb x y = (a =? b).
Proof. intros. split; [apply num_cmp_ints | apply num_eqb_ints]; assumption. Qed.
Print Assumptions repr_independent_cmp.

(** non-vacuity: a machine integer and a big integer with the same value *)
Example repr_example : int_val (Int 3) = Some 3 /\ int_val (Big 3) = Some 3 /\ int_val (add (Int isize_max) (Int 1)) = Some two63.
Proof. repeat split. Qed.

(** ** the non-numeric cases (Val/Arith.v mirrors impl Add/Sub/Mul/Div/Rem for Val in jaq-json/src/lib.rs) *)

(** null is neutral for [+] *)
Theorem add_null_neutral : forall v, vadd Null v = Ok v /\ vadd v Null = Ok v.
Proof. exact ArithLaws.add_null_neutral. Qed.
Print Assumptions add_null_neutral.

(** strings and arrays concatenate *)
Theorem add_concatenates :
  (forall a b, vadd (TStr a) (TStr b) = Ok (TStr (a ++ b))) /\ (forall a b, vadd (BStr a) (BStr b) = Ok (BStr (a ++ b)))
  /\ (forall a b, vadd (Arr a) (Arr b) = Ok (Arr (a ++ b))).
Proof. exact ArithLaws.add_concatenates. Qed.
Print Assumptions add_concatenates.

(** array [-] removes all elements equal to some element of the right operand and keeps the others in order *)
Theorem array_minus : forall a b, exists c, vsub (Arr a) (Arr b) = Ok (Arr c)
  /\ c = filter (fun v => negb (existsb (equal v) b)) a
  /\ (forall v, In v c <-> In v a /\ forall w, In w b -> equal v w = false).
Proof. exact ArithLaws.array_minus. Qed.
Print Assumptions array_minus.

(** string [/] splits with [join] as its inverse *)
Theorem div_splits : forall s sep, exists ps, vdiv (TStr s) (TStr sep) = Ok (Arr (map TStr ps)) /\ intercalate sep ps = s.
Proof. exact ArithLaws.div_splits. Qed.
Print Assumptions div_splits.

(** everything else is an error: each operator succeeds exactly on the shapes the manual lists; [%] by the integer zero fails *)
Theorem operator_shapes : forall x y,
  (if add_shape x y then exists v, vadd x y = Ok v else vadd x y = Err (EMath x Add y))
  /\ (if sub_shape x y then exists v, vsub x y = Ok v else vsub x y = Err (EMath x Sub y))
  /\ (if mul_shape x y then vmul x y <> Some (Err (EMath x Mul y)) else vmul x y = Some (Err (EMath x Mul y)))
  /\ (if div_shape x y then exists v, vdiv x y = Ok v else vdiv x y = Err (EMath x Div y))
  /\ (match x, y with
      | Num a, Num b => if is_int a && is_int b && num_eqb b (Int 0) then vrem x y = Err (EMath x Rem y)
                        else vrem x y = Ok (Num (Num.rem a b))
      | _, _ => vrem x y = Err (EMath x Rem y)
      end).
Proof. exact ArithLaws.operator_shapes. Qed.
Print Assumptions operator_shapes.
