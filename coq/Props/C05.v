(** C05 - No filter text, argument value or input document can crash jaq.
    A Gallina model is total and cannot exhibit a panic; what it carries are the guards that stand between boundary values
    and a crash, as the implementation has them (the correspondence of the other properties ties the model's operations to
    the code; in a debug build an overflow, an index out of bounds or a slice off a boundary is a panic, i.e. a
    disagreement).  The search for a panic itself (checks/c05.py) is a test, not a theorem. *)
From Coq Require Import List ZArith Bool.
From Coq Require Import Init.Byte.
From JaqV Require Import Base.Bytes Base.F64 Val.Num Val.Val Val.Utf8 Val.Err Val.Index Proofs.SafeLaws.
Import ListNotations.
Local Open Scope Z_scope.

(** machine integers never overflow: every arithmetic result that is a machine integer lies in the range of [isize];
    out of it, the result is a big integer *)
Theorem arithmetic_stays_in_range : forall x y,
  int_ok (add x y) /\ int_ok (sub x y) /\ int_ok (mul x y) /\ int_ok (neg x)
  /\ (int_ok x -> int_ok y -> int_ok (rem x y))
  /\ (forall n, length_num x = Some n -> int_ok n).
Proof.
  intros x y. repeat split; [apply add_ok | apply sub_ok | apply mul_ok | apply neg_ok | apply rem_ok | apply length_num_ok].
Qed.
Print Assumptions arithmetic_stays_in_range.

(** an index that is accepted lies inside the sequence *)
Theorem index_inside : forall p len i, abs_index p len = Some i -> 0 <= len -> 0 <= snd p -> 0 <= i < len.
Proof. exact SafeLaws.abs_index_inside. Qed.
Print Assumptions index_inside.

(** the byte offset computed for a character position is the start of a character (or invalid sequence) or the end of
    the string, and lies inside the string: a string is never cut off a boundary *)
Theorem string_position_on_boundary : forall b p,
  boundary b (byte_index b p) /\ 0 <= byte_index b p <= Z.of_nat (length b).
Proof. exact SafeLaws.byte_index_boundary. Qed.
Print Assumptions string_position_on_boundary.

Theorem string_slice_inside : forall r b,
  let '(s, t) := skip_take_chars r b in 0 <= s /\ 0 <= t /\ s <= Z.of_nat (length b) /\ (t = 0 \/ s + t <= Z.of_nat (length b)).
Proof. exact SafeLaws.skip_take_chars_inside. Qed.
Print Assumptions string_slice_inside.

(** the chunks (characters and invalid sequences) partition every byte string: nothing is lost or read twice *)
Theorem chunks_partition : forall s, concat (map snd (chunks s)) = s.
Proof. exact SafeLaws.chunks_partition. Qed.
Print Assumptions chunks_partition.
