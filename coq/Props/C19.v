(** C19 - A compiled filter is immutable shared data: concurrent runs equal isolated runs.
    Model: threads as executions in progress over lazy streams (Base/Stream.v) that share only an immutable value - the
    compiled filter, i.e. the function that gives every thread the stream of its own input.  Whatever the scheduler does,
    every thread ends with what it yields alone.  That the Rust filter is such a value (no interior mutability behind its
    Send + Sync, no global state) is the static fact asserted at compile time by the harness, the source audit and the
    observation of concurrent runs (checks/c19.py), not a theorem. *)
From Coq Require Import List Arith.
From JaqV Require Import Base.Stream Val.Val Core.Syntax Core.Eval Proofs.ThreadLaws.
Import ListNotations.

Theorem schedule_independent : forall A (sched : list nat) (ts : list (thr A)),
  map (result A) (fold_left (step A) sched ts) = map (result A) ts.
Proof. exact ThreadLaws.schedule_independent. Qed.
Print Assumptions schedule_independent.

Theorem concurrent_is_isolated : forall A (f : nat -> str A) n sched,
  map (result A) (fold_left (step A) sched (start A f n)) = map (fun i => collect (f i)) (seq 0 n).
Proof. exact ThreadLaws.concurrent_is_isolated. Qed.
Print Assumptions concurrent_is_isolated.

(** instantiated with the interpreter: T threads run the same compiled program, each on its own input *)
Theorem concurrent_runs_of_a_program : forall fuel p globals (inputs : nat -> val) n sched,
  map (result val) (fold_left (step val) sched (start val (fun i => run_main fuel p globals (inputs i)) n))
  = map (fun i => collect (run_main fuel p globals (inputs i))) (seq 0 n).
Proof. intros. apply ThreadLaws.concurrent_is_isolated. Qed.
Print Assumptions concurrent_runs_of_a_program.
