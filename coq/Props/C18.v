(** C18 - --in-place replaces a file atomically and only after complete success. (partial)
    Model: Cli/InPlace.v - the operation sequence of the in-place block of jaq/src/main.rs on an abstract
    directory.  Tied to the binary by the syscall traces and the fault enumeration of `jv check C18`.
    Not in the model: crash consistency below the syscall layer (no fsync). *)
From Coq Require Import List ZArith.
From JaqV Require Import Base.Bytes Cli.InPlace Proofs.InPlaceLaws Proofs.InPlaceMany.
Import ListNotations.

(** at every crash point (= after every prefix of the operations of one file) the file holds its original bytes,
    or - only when the filter finished without error - exactly the complete output *)
Theorem atomic : forall (j : job) (d : dir) old k,
  j_tmp j <> j_path j -> data_at d (j_path j) = Some old ->
  let d' := run_ops d (firstn k (ops_of j)) in
  data_at d' (j_path j) = Some old \/ (j_ok j = true /\ data_at d' (j_path j) = Some (new_data j)).
Proof. exact atomic_one. Qed.
Print Assumptions atomic.

(** after a successful run: exactly the output, the old permission bits, no temporary file *)
Theorem success_content_and_mode : forall (j : job) (d : dir) f0,
  j_tmp j <> j_path j -> j_ok j = true -> lookup d (j_path j) = Some f0 -> j_mode j = f_mode f0 ->
  let d' := run_ops d (ops_of j) in
  lookup d' (j_path j) = Some {| f_data := new_data j; f_mode := f_mode f0 |} /\ lookup d' (j_tmp j) = None.
Proof. exact success_state. Qed.
Print Assumptions success_content_and_mode.

(** after a failure (filter error, parse error, write failure): file untouched, no temporary file *)
Theorem failure_leaves_file : forall (j : job) (d : dir),
  j_tmp j <> j_path j -> j_ok j = false ->
  let d' := run_ops d (ops_of j) in
  lookup d' (j_path j) = lookup d (j_path j) /\ lookup d' (j_tmp j) = None.
Proof. exact failure_state. Qed.
Print Assumptions failure_leaves_file.

(** several files (distinct, no temporary name among them): at every crash point of the whole run every file holds its
    original bytes or, only when its own run succeeded, exactly its complete output *)
Theorem atomic_many : forall (js : list job) (d : dir) k, wf js ->
  (forall j, In j js -> data_at d (j_path j) <> None) ->
  let d' := run_ops d (firstn k (all_ops js)) in
  forall j, In j js ->
    data_at d' (j_path j) = data_at d (j_path j) \/ (j_ok j = true /\ data_at d' (j_path j) = Some (new_data j)).
Proof. exact InPlaceMany.atomic_many. Qed.
Print Assumptions atomic_many.

(** files processed before a failing one keep their new contents, the failing one and the later ones their old *)
Theorem files_before_and_after_a_failure : forall (pre post : list job) (d : dir), wf (pre ++ post) ->
  (forall j, In j pre -> j_ok j = true) ->
  (match post with bad :: _ => j_ok bad = false | [] => True end) ->
  let d' := run_ops d (all_ops (pre ++ post)) in
  (forall j, In j pre -> data_at d' (j_path j) = Some (new_data j))
  /\ (forall j, In j post -> lookup d' (j_path j) = lookup d (j_path j)).
Proof. exact InPlaceMany.outcome_many. Qed.
Print Assumptions files_before_and_after_a_failure.

(** no temporary file is left behind on completion, however far the run got *)
Theorem no_temporary_file_left : forall (js : list job) (d : dir), wf js ->
  (forall j, In j js -> lookup d (j_tmp j) = None) ->
  forall j, In j js -> lookup (run_ops d (all_ops js)) (j_tmp j) = None.
Proof. exact InPlaceMany.every_tmp_removed. Qed.
Print Assumptions no_temporary_file_left.

Example atomic_example :
  let j := {| j_path := 1; j_tmp := 100; j_chunks := [[zb 50]; [zb 10]]; j_ok := true; j_mode := 420%Z |} in
  let d := [(1, {| f_data := [zb 49]; f_mode := 420%Z |})] in
  map (fun k => data_at (run_ops d (firstn k (ops_of j))) 1) [0; 1; 2; 3; 4; 5]
  = [Some [zb 49]; Some [zb 49]; Some [zb 49]; Some [zb 49]; Some [zb 50; zb 10]; Some [zb 50; zb 10]].
Proof. reflexivity. Qed.
