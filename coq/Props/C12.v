(** C12 - Collection built-ins obey the invariants and equations the manual states. (first stage)
    Model: Val/Val.v [sort_by] (stable insertion sort = the contract of Rust's stable sorts), Std/Natives.v. *)
From Coq Require Import List Sorting.Permutation.
From JaqV Require Import Val.Val.
Import ListNotations.

Lemma insert_by_perm {A} (c : A -> A -> comparison) a l : Permutation (a :: l) (insert_by c a l).
Proof.
  induction l as [|b r IH]; cbn; [apply Permutation_refl|].
  destruct (c a b); try apply Permutation_refl.
  eapply Permutation_trans; [apply perm_swap|]. apply perm_skip. exact IH.
Qed.

(** sorting returns a permutation of its input, whatever the comparison *)
Theorem sort_is_permutation : forall A (c : A -> A -> comparison) l, Permutation l (sort_by c l).
Proof.
  intros A c l. induction l as [|a l IH]; cbn; [constructor|].
  eapply Permutation_trans; [apply perm_skip; exact IH|]. apply insert_by_perm.
Qed.
Print Assumptions sort_is_permutation.

(** sorting keeps the number of elements *)
Theorem sort_length : forall A (c : A -> A -> comparison) l, length (sort_by c l) = length l.
Proof. intros. symmetry. apply Permutation_length. apply sort_is_permutation. Qed.
Print Assumptions sort_length.
