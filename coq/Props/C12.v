(** C12 - Collection built-ins obey the invariants and equations the manual states.
    Model: Val/Val.v [sort_by] (stable insertion sort = the contract of Rust's stable sorts), Std/Natives.v. *)
From Coq Require Import List ZArith Sorting.Permutation Sorting.Sorted.
From JaqV Require Import Base.Stream Val.Num Val.Val Std.Natives Proofs.SortLaws Proofs.ValOrder Proofs.GroupLaws Proofs.SearchLaws Proofs.SearchText Proofs.TrimLaws Proofs.SortIdem Proofs.UniqueLaws Val.Arith Val.Index Val.Err Base.Bytes.
Import ListNotations.

Lemma insert_by_perm {A} (c : A -> A -> comparison) a l : Permutation (a :: l) (insert_by c a l).
Proof.
  induction l as [|b r IH]; cbn; [apply Permutation_refl|].
  destruct (c a b); try apply Permutation_refl.
  eapply Permutation_trans; [apply perm_swap|]. apply perm_skip. exact IH.
Qed.

(** sorting returns a permutation of its input, whatever the comparison *)
Theorem sort_is_permutation : forall A (c : A -> A -> comparison) l, Permutation l (sort_by c l).
Proof.
  intros A c l. induction l as [|a l IH]; cbn; [constructor|].
  eapply Permutation_trans; [apply perm_skip; exact IH|]. apply insert_by_perm.
Qed.
Print Assumptions sort_is_permutation.

(** sorting keeps the number of elements *)
Theorem sort_length : forall A (c : A -> A -> comparison) l, length (sort_by c l) = length l.
Proof. intros. symmetry. apply Permutation_length. apply sort_is_permutation. Qed.
Print Assumptions sort_length.

(** for every comparison that is a total preorder the result is sorted ... *)
Theorem sort_sorted : forall A (c : A -> A -> comparison), SortLaws.total_preorder A c ->
  forall l, Sorted.StronglySorted (SortLaws.le A c) (sort_by c l).
Proof. exact SortLaws.sort_sorted. Qed.
Print Assumptions sort_sorted.

(** ... and stable: the elements of one equivalence class come out in the order they came in *)
Theorem sort_stable : forall A (c : A -> A -> comparison), SortLaws.total_preorder A c ->
  (forall a b, c a b = Eq -> forall z, c z a = c z b) -> (forall a b, c a b = Eq -> c b a = Eq) ->
  forall x l, filter (SortLaws.same A c x) (sort_by c l) = filter (SortLaws.same A c x) l.
Proof. exact SortLaws.sort_stable. Qed.
Print Assumptions sort_stable.

(** [sort] on an array of integers of any size is the numeric sort *)
Theorem sort_integer_array : forall l,
  sort_by val_cmp (map vint l) = map vint (sort_by Z.compare l)
  /\ Sorted.StronglySorted (fun a b => (a <= b)%Z) (sort_by Z.compare l).
Proof. exact SortLaws.sort_integer_array. Qed.
Print Assumptions sort_integer_array.

(** ** group_by, sort_by, min_by, max_by of the model (Std/Natives.v) *)
(** [keyed f xs = (kx, FEnd)]: the key filter produced its keys for every element (kx pairs each element with its keys, in
    order).  group_by returns the groups of the sorted keyed list: concatenated they are the sorted list - what sort_by returns -,
    and they are its maximal runs of equal keys ([maximal]: within a group every further element has the key of the first,
    the next group starts with a different key; no group is empty). *)
Theorem group_by_partitions_sorted_input : forall f xs kx, keyed f xs = (kx, FEnd) ->
  let sorted := sort_by (fun a b => keys_cmp (fst a) (fst b)) kx in
  exists groups, group_by_f f xs = sone (Arr (map (fun g => Arr (map snd g)) groups))
    /\ concat groups = sorted
    /\ (sorted <> [] -> maximal groups)
    /\ (sorted = [] -> groups = []).
Proof. exact GroupLaws.group_by_spec. Qed.
Print Assumptions group_by_partitions_sorted_input.

Theorem sort_by_sorts_the_keyed_list : forall f xs kx, keyed f xs = (kx, FEnd) -> (2 <= length xs)%nat ->
  sort_by_f f xs = sone (Arr (map snd (sort_by (fun a b => keys_cmp (fst a) (fst b)) kx))).
Proof. exact GroupLaws.sort_by_spec. Qed.
Print Assumptions sort_by_sorts_the_keyed_list.

Theorem keyed_pairs_the_elements : forall f xs kx, keyed f xs = (kx, FEnd) -> map snd kx = xs.
Proof. exact GroupLaws.keyed_elements. Qed.
Print Assumptions keyed_pairs_the_elements.

(** min_by / max_by return an element of the input whose keys are extremal in the order of keys, for every class of numbers
    on which the order of numbers is a total preorder (ValOrder); nothing on empty input (the definitions in defs.jq turn that
    into null) *)
Theorem extrema_are_extremal : forall N, tpo num_cmp N -> forall is_max f xs kx,
  keyed f xs = (kx, FEnd) -> Forall (keys_ok N) kx ->
  match kx with
  | [] => extremal_by is_max f xs = SNil
  | _ => exists kv, In kv kx /\ extremal_by is_max f xs = sone (snd kv) /\ Forall (le_dir is_max kv) kx
  end.
Proof. exact GroupLaws.extremal_by_spec. Qed.
Print Assumptions extrema_are_extremal.

(** ** `indices($x)` lists exactly the positions i with `.[i:][:$x|length] == $x` (Proofs/SearchLaws.v)
    For an array searched for a non-empty sub-array and a byte string searched for a non-empty byte string the result is the
    increasing list of exactly those positions k at which the window of the needle's length exists and equals the needle
    ([firstn n (skipn k x)] is what `.[k:][:n]` reads, C10); overlapping occurrences are all listed; an empty needle yields
    nothing; an array searched for a non-array lists the positions of the elements equal to it. *)
Theorem indices_lists_exactly_the_matching_windows : forall x y, y <> [] ->
  exists ps, indices (Arr x) (Arr y) = Ok (Arr (map vint ps)) /\ SearchLaws.lists_exactly Index.list_eqb_val x y ps.
Proof. exact SearchLaws.indices_arrays_spec. Qed.
Print Assumptions indices_lists_exactly_the_matching_windows.

Theorem indices_of_byte_strings : forall x y : Bytes.bytes, y <> [] ->
  exists ps, indices (BStr x) (BStr y) = Ok (Arr (map vint ps)) /\ SearchLaws.lists_exactly Bytes.bytes_eqb x y ps.
Proof. exact SearchLaws.indices_bytes_spec. Qed.
Print Assumptions indices_of_byte_strings.

Theorem indices_of_an_empty_needle : forall x b,
  indices (Arr x) (Arr []) = Ok (Arr []) /\ indices (BStr b) (BStr []) = Ok (Arr []) /\ indices (TStr b) (TStr []) = Ok (Arr []).
Proof. exact SearchLaws.indices_empty_needle. Qed.
Print Assumptions indices_of_an_empty_needle.

Theorem indices_of_an_element : forall a y, (forall l, y <> Arr l) ->
  indices (Arr a) y = Ok (Arr (map vint (map (fun k => Z.of_nat k)
     (filter (fun k => match nth_error a k with Some e => val_eqb e y | None => false end) (seq 0 (length a)))))).
Proof. exact SearchLaws.indices_element. Qed.
Print Assumptions indices_of_an_element.

(** `indices` on text strings counts characters (Proofs/SearchText.v): the k-th character position - k counts the entries of
    [char_starts], the byte offsets that `.[k:]` uses (C10, C13) - is listed exactly when the needle's bytes stand at that offset;
    increasing, each once, overlapping occurrences included, whatever bytes (invalid UTF-8 too) the strings hold *)
Theorem indices_of_text_count_characters : forall x y, y <> [] ->
  indices (TStr x) (TStr y)
  = Ok (Arr (map vint (map Z.of_nat (filter (fun k => SearchText.hit x y (nth k (char_starts x) 0%Z)) (seq 0 (length (char_starts x))))))).
Proof. exact SearchText.indices_text. Qed.
Print Assumptions indices_of_text_count_characters.

(** sorting a sorted array changes nothing: `sort | sort` = `sort` for every total preorder (Proofs/SortIdem.v) *)
Theorem sort_is_idempotent : forall A (c : A -> A -> comparison), SortLaws.total_preorder A c ->
  forall l, sort_by c (sort_by c l) = sort_by c l.
Proof. exact @SortIdem.sort_idempotent. Qed.
Print Assumptions sort_is_idempotent.

(** startswith / endswith test for a prefix / suffix, on every byte string (Proofs/TrimLaws.v; Std/Natives.v uses [is_prefix] and
    [is_suffix] for them) ... *)
Theorem startswith_is_prefix : forall p x : Bytes.bytes, is_prefix p x = true <-> exists t, x = p ++ t.
Proof. exact TrimLaws.is_prefix_spec. Qed.
Print Assumptions startswith_is_prefix.

Theorem endswith_is_suffix : forall p x : Bytes.bytes, is_suffix p x = true <-> exists t, x = t ++ p.
Proof. exact TrimLaws.is_suffix_spec. Qed.
Print Assumptions endswith_is_suffix.

(** ... and ltrimstr / rtrimstr remove exactly that prefix / suffix: what remains is the rest, and putting the prefix (suffix)
    back gives the string (`ltrimstr($p) | $p + .` = `.` whenever `startswith($p)`) *)
Theorem ltrimstr_removes_the_prefix : forall p x t : Bytes.bytes,
  (is_prefix p x = true -> p ++ skipn (length p) x = x) /\ skipn (length p) (p ++ t) = t.
Proof. intros p x t. split; [apply TrimLaws.ltrim_restores|apply TrimLaws.ltrim_is_the_rest]. Qed.
Print Assumptions ltrimstr_removes_the_prefix.

Theorem rtrimstr_removes_the_suffix : forall p x t : Bytes.bytes,
  (is_suffix p x = true -> firstn (length x - length p) x ++ p = x) /\ firstn (length (t ++ p) - length p) (t ++ p) = t.
Proof. intros p x t. split; [apply TrimLaws.rtrim_restores|apply TrimLaws.rtrim_is_the_rest]. Qed.
Print Assumptions rtrimstr_removes_the_suffix.

(** `unique_by(f)` = `[group_by(f)[] | .[0]]` (its definition in defs.jq) keeps the first of each run: the first elements of the
    groups are exactly the elements of the stably sorted keyed list at which a new key starts (Proofs/UniqueLaws.v) *)
Theorem unique_by_keeps_the_first_of_each_run : forall f xs kx, keyed f xs = (kx, FEnd) ->
  let sorted := sort_by (fun a b => keys_cmp (fst a) (fst b)) kx in
  exists groups, group_by_f f xs = sone (Arr (map (fun g => Arr (map snd g)) groups))
    /\ map snd (flat_map UniqueLaws.head_of groups) = map snd (UniqueLaws.firsts None sorted).
Proof. exact UniqueLaws.unique_by_keeps_the_first_of_each_run. Qed.
Print Assumptions unique_by_keeps_the_first_of_each_run.
