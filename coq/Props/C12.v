(** C12 - Collection built-ins obey the invariants and equations the manual states. (first stage)
    Model: Val/Val.v [sort_by] (stable insertion sort = the contract of Rust's stable sorts), Std/Natives.v. *)
From Coq Require Import List ZArith Sorting.Permutation Sorting.Sorted.
From JaqV Require Import Val.Num Val.Val Proofs.SortLaws.
Import ListNotations.

Lemma insert_by_perm {A} (c : A -> A -> comparison) a l : Permutation (a :: l) (insert_by c a l).
Proof.
  induction l as [|b r IH]; cbn; [apply Permutation_refl|].
  destruct (c a b); try apply Permutation_refl.
  eapply Permutation_trans; [apply perm_swap|]. apply perm_skip. exact IH.
Qed.

(** sorting returns a permutation of its input, whatever the comparison *)
Theorem sort_is_permutation : forall A (c : A -> A -> comparison) l, Permutation l (sort_by c l).
Proof.
  intros A c l. induction l as [|a l IH]; cbn; [constructor|].
  eapply Permutation_trans; [apply perm_skip; exact IH|]. apply insert_by_perm.
Qed.
Print Assumptions sort_is_permutation.

(** sorting keeps the number of elements *)
Theorem sort_length : forall A (c : A -> A -> comparison) l, length (sort_by c l) = length l.
Proof. intros. symmetry. apply Permutation_length. apply sort_is_permutation. Qed.
Print Assumptions sort_length.

(** for every comparison that is a total preorder the result is sorted ... *)
Theorem sort_sorted : forall A (c : A -> A -> comparison), SortLaws.total_preorder A c ->
  forall l, Sorted.StronglySorted (SortLaws.le A c) (sort_by c l).
Proof. exact SortLaws.sort_sorted. Qed.
Print Assumptions sort_sorted.

(** ... and stable: the elements of one equivalence class come out in the order they came in *)
Theorem sort_stable : forall A (c : A -> A -> comparison), SortLaws.total_preorder A c ->
  (forall a b, c a b = Eq -> forall z, c z a = c z b) -> (forall a b, c a b = Eq -> c b a = Eq) ->
  forall x l, filter (SortLaws.same A c x) (sort_by c l) = filter (SortLaws.same A c x) l.
Proof. exact SortLaws.sort_stable. Qed.
Print Assumptions sort_stable.

(** [sort] on an array of integers of any size is the numeric sort *)
Theorem sort_integer_array : forall l,
  sort_by val_cmp (map vint l) = map vint (sort_by Z.compare l)
  /\ Sorted.StronglySorted (fun a b => (a <= b)%Z) (sort_by Z.compare l).
Proof. exact SortLaws.sort_integer_array. Qed.
Print Assumptions sort_integer_array.
