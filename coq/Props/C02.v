(** C02 - path(f), getpath and updates agree on the positions a filter denotes.
    Model: Core/Run.v ([part_run]/[part_paths], [path_run]/[path_paths] mirror jaq-core/src/path.rs),
    Val/Index.v (mirrors the indexing primitives of jaq-json/src/lib.rs). *)
From Coq Require Import List ZArith.
From JaqV Require Import Base.Stream Val.Val Val.Err Val.Index Core.Syntax Core.Natives Core.Run Proofs.PathLaws Proofs.GetpathLaws Proofs.MonadLaws Proofs.UpdateRules Proofs.UpdateFolds Proofs.PathsProject.
Import ListNotations.

(** one path part: evaluating for paths yields, in order, exactly the values that evaluating for values yields,
    ended by the same terminator (also when the part fails) *)
Theorem part_paths_project : forall p v pa, smap fst (part_paths p (v, pa)) = part_run p v.
Proof. exact PathLaws.part_paths_project. Qed.
Print Assumptions part_paths_project.

(** a whole exploded path [.[i][j:k][]?...], with optional parts *)
Theorem paths_project : forall ps v pa, smap fst (path_paths ps (v, pa)) = path_run ps v.
Proof. exact PathLaws.path_paths_project. Qed.
Print Assumptions paths_project.

(** [.[]] enumerates with [key_values] the same values, in the same order, as [values] does *)
Theorem iteration_positions_agree : forall v,
  match vkey_values v, vvalues v with
  | Ok kvs, Ok vs => map snd kvs = vs
  | Err e1, Err e2 => e1 = e2
  | _, _ => False
  end.
Proof. exact key_values_values. Qed.
Print Assumptions iteration_positions_agree.

Example paths_example :
  collect (path_paths [(VRange None None, false); (VIndex (vint 0%Z), true)] (Arr [Arr [vint 7%Z]; vint 1%Z], []))
  = ([(vint 7%Z, [vint 0%Z; vint 0%Z])], FEnd).
Proof. reflexivity. Qed.

(** getpath (path p) = p.  [good]: objects can be addressed by their own keys (IndexMap's invariant: unique keys that are
    equal to themselves; a NaN key is the excluded case).  One component: every (value, path) pair addresses its value ... *)
Theorem component_addresses_its_value : forall p v pa, GetpathLaws.good v ->
  GetpathLaws.sforall (fun xp => GetpathLaws.addressed v pa xp /\ GetpathLaws.good (fst xp)) (part_paths p (v, pa)).
Proof. exact GetpathLaws.part_addressed. Qed.
Print Assumptions component_addresses_its_value.

(** ... and whole paths of any length, through iteration, indices, slices and optional parts: for every pair that
    [path_value(p)] yields, [getpath] of the input along the path is exactly the value *)
Theorem getpath_of_path : forall ps v, GetpathLaws.good v ->
  GetpathLaws.sforall (fun xp => GetpathLaws.getpath (rev (snd xp)) v = Ok (fst xp)) (path_paths ps (v, [])).
Proof. exact GetpathLaws.getpath_of_path. Qed.
Print Assumptions getpath_of_path.

(** every JSON-like value (scalars, arrays, objects with pairwise different text keys) is such a value: for them the law
    holds without any side condition *)
Theorem getpath_of_path_json : forall ps v, GetpathLaws.json_like v ->
  GetpathLaws.sforall (fun xp => GetpathLaws.getpath (rev (snd xp)) v = Ok (fst xp)) (path_paths ps (v, [])).
Proof. exact GetpathLaws.getpath_of_path_json. Qed.
Print Assumptions getpath_of_path_json.

Example good_values_exist :
  GetpathLaws.good (Arr [vint 1%Z; Obj [(vstr [97%Z], Arr [Null; vint 2%Z]); (vint 5%Z, Bool true)]; TStr []]).
Proof. exact GetpathLaws.good_ex. Qed.

(** ** the reduction rules of updates *)
(** the interpreter's update clauses are the manual's rules: *)
(** [. |= u] applies u *)
Theorem update_identity : forall d nr defs n c v f, update d nr defs (S n) KId c v f = f v.
Proof. reflexivity. Qed.
Print Assumptions update_identity.

(** [(f | g) |= u]  =  [f |= (g |= u)] *)
Theorem update_pipe : forall d nr defs n l r c v f,
  update d nr defs (S n) (KPipe l None r) c v f = update d nr defs n l c v (fun x => update d nr defs n r c x f).
Proof. reflexivity. Qed.
Print Assumptions update_pipe.

(** [(f, g) |= u]  =  [(f |= u) | (g |= u)] *)
Theorem update_comma : forall d nr defs n l r c v f,
  update d nr defs (S n) (KComma l r) c v f = sbind (update d nr defs n l c v f) (fun x => update d nr defs n r c x f).
Proof. reflexivity. Qed.
Print Assumptions update_comma.

(** [(f as $x | g) |= u]: binding by binding, each on the result of the one before *)
Theorem update_binding : forall d nr defs n l pat r c v f,
  update d nr defs (S n) (KPipe l (Some pat) r) c v f
  = sreduce (run_and_bind d nr defs n l c v pat) v (fun c' x => update d nr defs n r c' x f).
Proof. reflexivity. Qed.
Print Assumptions update_binding.

Theorem reduce_over_bindings : forall A (xs : list A) acc (g : A -> val -> str val),
  sreduce (of_list xs) acc g = fold_left (fun s x => sbind s (g x)) xs (sone acc).
Proof. exact UpdateRules.reduce_over_bindings. Qed.
Print Assumptions reduce_over_bindings.

(** [if c then f else g end |= u]: per output of the condition, on the result of the one before *)
Theorem update_conditional : forall d nr defs n i th el c v f,
  update d nr defs (S n) (KIte i th el) c v f
  = sreduce (run d nr defs n i c v) v (fun x a => update d nr defs n (if as_bool x then th else el) c a f).
Proof. reflexivity. Qed.
Print Assumptions update_conditional.

(** [(f // g) |= u]: f when f has a truthy output - the manual's [if first(f // false)] -, else g *)
Theorem update_alternative : forall d nr defs n l r c v f,
  update d nr defs (S n) (KAlt l r) c v f
  = match sfilter as_bool (run d nr defs n l c v) with
    | SNil => update d nr defs n r c v f
    | SBot => SBot
    | SUnk => SUnk
    | _ => update d nr defs n l c v f
    end.
Proof. reflexivity. Qed.
Print Assumptions update_alternative.

(** a path [t.p1.p2...]: every exploded path is applied, in sequence, below t *)
Theorem update_path : forall d nr defs n l path c v f,
  update d nr defs (S n) (KPath l path) c v f
  = update d nr defs n l c v (fun x =>
      collect_then (explode d nr defs n path c v) (fun pss =>
        fold_left (fun acc ps => sbind acc (fun a => path_update ps a f)) pss (sone x))).
Proof. reflexivity. Qed.
Print Assumptions update_path.

(** an exploded path is updated part by part: [.p.q |= u] = [.p |= (.q |= u)] *)
Theorem path_update_composes : forall p1 p2 v f, p1 <> [] -> p2 <> [] ->
  path_update (p1 ++ p2) v f = path_update p1 v (fun x => path_update p2 x f).
Proof. exact UpdateRules.path_update_composes. Qed.
Print Assumptions path_update_composes.

(** what constructs a value has no path: updating it fails rather than guesses *)
Theorem update_of_constructed_value_fails : forall d nr defs n c v f t,
  (exists x, t = KInt x) \/ (exists x, t = KNum x) \/ (exists x, t = KStr x) \/ (exists x, t = KArr x) \/ t = KObjEmpty
  \/ (exists k x, t = KObjSingle k x) \/ (exists x, t = KNeg x) \/ (exists l o r, t = KMath l o r) \/ (exists l o r, t = KCmp l o r)
  \/ (exists l r, t = KLogic l true r) \/ (exists l r, t = KLogic l false r) \/ t = KToString ->
  update d nr defs (S n) t c v f = serr (EPathExpr v).
Proof. exact UpdateRules.update_of_constructed_value_fails. Qed.
Print Assumptions update_of_constructed_value_fails.

(** ** path(f) lists, in order, the positions of exactly the values f outputs *)
(** [ok_term k]: k contains neither `//` (whose paths follow the manual's `if first(f // false)` rule and include falsy
    outputs) nor `try` (which can catch the refusal of a value-constructing subterm) where it is evaluated for paths, and binds
    with plain variables; every other construct is admitted: pipes, commas, conditionals, bindings, reduce/foreach, labels,
    path terms of any length, `..`, calls of definitions with variable and filter arguments (closures), first/last/limit/skip
    and every other native (which refuse).  [sproj s r]: the stream of (value, path) pairs s carries the values of r, item by
    item and with the same end - or stops with the path-expression error.  For every fuel, term, context and input: *)
Theorem paths_carry_the_outputs : forall d nr defs, Forall ok_term defs ->
  forall n k c x p, ok_term k -> ok_ctx c -> sproj (paths d nr defs n k c (x, p)) (run d nr defs n k c x).
Proof. exact PathsProject.paths_carry_the_outputs. Qed.
Print Assumptions paths_carry_the_outputs.

(** when the path evaluator does not refuse, the values at the paths are exactly the outputs *)
Theorem path_values_are_the_outputs : forall d nr defs, Forall ok_term defs ->
  forall n k c x p, ok_term k -> ok_ctx c -> accepted (paths d nr defs n k c (x, p)) ->
  smap fst (paths d nr defs n k c (x, p)) = run d nr defs n k c x.
Proof. exact PathsProject.paths_values_exact. Qed.
Print Assumptions path_values_are_the_outputs.

(** updates through definitions, filter arguments and folds (Proofs/UpdateFolds.v): *)
(** [f(args) |= u]: a definition is updated through its body, for every combination of its variable arguments in turn *)
Theorem update_through_a_definition : forall d nr defs n id args skip ct c v f body, nth_error defs id = Some body ->
  update d nr defs (S n) (KCallDef id args skip ct) c v f
  = sreduce (bind_vars d nr defs n args (skip_vars skip c) c v) v (fun c' x => update d nr defs n body c' x f).
Proof. exact UpdateFolds.update_call. Qed.
Print Assumptions update_through_a_definition.

(** [g |= u] for a filter argument g: the argument's term is updated in the context it was written in *)
Theorem update_through_a_filter_argument : forall d nr defs n i c v f g fvars, nth_bind c i = Some (BFun g fvars) ->
  update d nr defs (S n) (KVar i) c v f = update d nr defs n g (with_vars fvars c) v f.
Proof. exact UpdateFolds.update_filter_argument. Qed.
Print Assumptions update_through_a_filter_argument.

(** [reduce/foreach xs as $x (init; upd) |= u] = [init |= (fold of upd over the bindings of xs)] ... *)
Theorem update_through_a_fold : forall d nr defs n xs pat init upd ft c v f,
  update d nr defs (S n) (KFold xs pat init upd ft) c v f
  = update d nr defs n init c v (fun x => fold_update d nr defs n ft upd x (run_and_bind d nr defs n xs c v pat) f).
Proof. exact UpdateFolds.update_fold. Qed.
Print Assumptions update_through_a_fold.

(** ... where the fold hands the update inwards item by item: for reduce [upd[x1] |= (upd[x2] |= ... u)] - the update through
    the nested-pipe expansion [init | upd[x1] | ... | upd[xn]] -, for foreach [upd[x1] |= (u | (upd[x2] |= (u | ...)))] *)
Theorem fold_update_nests : forall d nr defs ft upd f cs n v,
  fold_update d nr defs n ft upd v (of_list cs) f = UpdateFolds.nested d nr defs n ft upd cs f v.
Proof. exact UpdateFolds.fold_update_is_nested. Qed.
Print Assumptions fold_update_nests.

Theorem reduce_update_of_two_items : forall d nr defs n upd f c1 c2 v,
  fold_update d nr defs (S (S (S n))) Reduce upd v (of_list [c1; c2]) f
  = update d nr defs (S (S n)) upd c1 v (fun x => update d nr defs (S n) upd c2 x f).
Proof. exact UpdateFolds.update_reduce_two. Qed.
Print Assumptions reduce_update_of_two_items.
