(** C02 - path(f), getpath and updates agree on the positions a filter denotes. (first stage)
    Model: Core/Run.v ([part_run]/[part_paths], [path_run]/[path_paths] mirror jaq-core/src/path.rs),
    Val/Index.v (mirrors the indexing primitives of jaq-json/src/lib.rs). *)
From Coq Require Import List ZArith.
From JaqV Require Import Base.Stream Val.Val Val.Err Val.Index Core.Natives Core.Run Proofs.PathLaws Proofs.GetpathLaws.
Import ListNotations.

(** one path part: evaluating for paths yields, in order, exactly the values that evaluating for values yields,
    ended by the same terminator (also when the part fails) *)
Theorem part_paths_project : forall p v pa, smap fst (part_paths p (v, pa)) = part_run p v.
Proof. exact PathLaws.part_paths_project. Qed.
Print Assumptions part_paths_project.

(** a whole exploded path [.[i][j:k][]?...], with optional parts *)
Theorem paths_project : forall ps v pa, smap fst (path_paths ps (v, pa)) = path_run ps v.
Proof. exact PathLaws.path_paths_project. Qed.
Print Assumptions paths_project.

(** [.[]] enumerates with [key_values] the same values, in the same order, as [values] does *)
Theorem iteration_positions_agree : forall v,
  match vkey_values v, vvalues v with
  | Ok kvs, Ok vs => map snd kvs = vs
  | Err e1, Err e2 => e1 = e2
  | _, _ => False
  end.
Proof. exact key_values_values. Qed.
Print Assumptions iteration_positions_agree.

Example paths_example :
  collect (path_paths [(VRange None None, false); (VIndex (vint 0%Z), true)] (Arr [Arr [vint 7%Z]; vint 1%Z], []))
  = ([(vint 7%Z, [vint 0%Z; vint 0%Z])], FEnd).
Proof. reflexivity. Qed.

(** getpath (path p) = p.  [good]: objects can be addressed by their own keys (IndexMap's invariant: unique keys that are
    equal to themselves; a NaN key is the excluded case).  One component: every (value, path) pair addresses its value ... *)
Theorem component_addresses_its_value : forall p v pa, GetpathLaws.good v ->
  GetpathLaws.sforall (fun xp => GetpathLaws.addressed v pa xp /\ GetpathLaws.good (fst xp)) (part_paths p (v, pa)).
Proof. exact GetpathLaws.part_addressed. Qed.
Print Assumptions component_addresses_its_value.

(** ... and whole paths of any length, through iteration, indices, slices and optional parts: for every pair that
    [path_value(p)] yields, [getpath] of the input along the path is exactly the value *)
Theorem getpath_of_path : forall ps v, GetpathLaws.good v ->
  GetpathLaws.sforall (fun xp => GetpathLaws.getpath (rev (snd xp)) v = Ok (fst xp)) (path_paths ps (v, [])).
Proof. exact GetpathLaws.getpath_of_path. Qed.
Print Assumptions getpath_of_path.

(** every JSON-like value (scalars, arrays, objects with pairwise different text keys) is such a value: for them the law
    holds without any side condition *)
Theorem getpath_of_path_json : forall ps v, GetpathLaws.json_like v ->
  GetpathLaws.sforall (fun xp => GetpathLaws.getpath (rev (snd xp)) v = Ok (fst xp)) (path_paths ps (v, [])).
Proof. exact GetpathLaws.getpath_of_path_json. Qed.
Print Assumptions getpath_of_path_json.

Example good_values_exist :
  GetpathLaws.good (Arr [vint 1%Z; Obj [(vstr [97%Z], Arr [Null; vint 2%Z]); (vint 5%Z, Bool true)]; TStr []]).
Proof. exact GetpathLaws.good_ex. Qed.
