(** C13 - String codecs invert exactly; positions count characters; escaping is safe. (codec part)
    Model: Std/Codec.v (mirrors the format filters of jaq-std/src/lib.rs; urlencoding, base64 and aho-corasick
    replacement by their contracts), with a POSIX single-quote lexer as the reference consumer of @sh. *)
From Coq Require Import List ZArith.
From Coq Require Import Init.Byte.
From JaqV Require Import Base.Bytes Std.Codec Proofs.CodecLaws Proofs.Base64Strict Val.Val Val.Utf8 Val.Err Val.Arith Std.Natives Proofs.StringLaws Fmts.Tabular Proofs.TabularLaws.
Import ListNotations.

(** @uri | @urid : every byte string (any bytes, also invalid UTF-8) is returned unchanged *)
Theorem uri_roundtrip : forall s, uri_decode (length (uri_encode s)) (uri_encode s) = s.
Proof. exact CodecLaws.uri_roundtrip. Qed.
Print Assumptions uri_roundtrip.

(** @html | @htmld *)
Theorem html_roundtrip : forall s, html_unescape (length (html_escape s)) (html_escape s) = s.
Proof. exact CodecLaws.html_roundtrip. Qed.
Print Assumptions html_roundtrip.

(** @base64 | @base64d, with strict (rejecting) decoding *)
Theorem base64_roundtrip : forall n s, (length s <= n)%nat -> b64_decode (S n) (b64_encode s) = Some s.
Proof. exact CodecLaws.base64_roundtrip. Qed.
Print Assumptions base64_roundtrip.

(** @sh is safe: a POSIX shell reading the quoted word recovers exactly the original bytes and nothing is left over *)
Theorem sh_safe : forall s, sh_word (4 * length s + 4) false (sh_quote s) [] = Some (s, []).
Proof. exact CodecLaws.sh_safe. Qed.
Print Assumptions sh_safe.

(** per byte, for all 256 bytes: decoding undoes encoding in one step whatever follows (also inside format strings) *)
Theorem uri_byte : forall c n rest, uri_decode (S n) (uri_enc1 c ++ rest) = c :: uri_decode n rest.
Proof. exact uri_step. Qed.
Print Assumptions uri_byte.

Theorem html_byte : forall c n rest, html_unescape (S n) (html_esc1 c ++ rest) = c :: html_unescape n rest.
Proof. exact html_step. Qed.
Print Assumptions html_byte.

(** @csv / @tsv (Fmts/Tabular.v mirrors write/tabular.rs and the reader's state machine): a row of scalars, whatever bytes its
    strings contain, is read back field by field; a written TSV field contains no raw separator, line break or NUL *)
Theorem csv_row_reads_back : forall vs t,
  TabularLaws.row_ok vs -> vs <> [Val.Null] -> Tabular.write_csv (Val.Arr vs) = Some t -> Tabular.read_csv t = [Val.Arr vs].
Proof. exact TabularLaws.csv_row_roundtrip. Qed.
Print Assumptions csv_row_reads_back.

Theorem tsv_field_is_clean : forall s c, In c (Tabular.tsv_str s) -> (bz c <> 9 /\ bz c <> 10 /\ bz c <> 13 /\ bz c <> 0)%Z.
Proof. exact TabularLaws.tsv_str_no_sep. Qed.
Print Assumptions tsv_field_is_clean.

(** explode | implode : every byte string - any Unicode, control characters, invalid UTF-8 - is returned unchanged
    (characters as their code points, the bytes of invalid sequences as negative numbers) *)
Theorem explode_implode : forall s, implode (explode s) = Some (Ok s).
Proof. exact StringLaws.explode_implode. Qed.
Print Assumptions explode_implode.

(** a decoded character is a Unicode scalar value whose encoding is exactly the bytes that were read *)
Theorem decode_encode_char : forall s c n, decode1 s = (Some c, n) -> is_scalar c = true /\ encode1 c = firstn n s /\ (1 <= n)%nat.
Proof. exact StringLaws.decode1_encode1. Qed.
Print Assumptions decode_encode_char.

(** split($x) | join($x) : the pieces, joined by the separator, are the string - for every string and separator
    (an empty separator splits into characters and invalid sequences) *)
Theorem split_join : forall s sep, intercalate sep (split s sep) = s.
Proof. exact StringLaws.split_join. Qed.
Print Assumptions split_join.

(** ascii_downcase / ascii_upcase never change a byte outside ASCII, and change nothing but letters of the other case *)
Theorem ascii_case_keeps_non_ascii : forall s, Forall (fun b => (128 <= bz b)%Z) s ->
  ascii_map lower s = s /\ ascii_map upper s = s.
Proof. exact StringLaws.ascii_case_keeps_non_ascii. Qed.
Print Assumptions ascii_case_keeps_non_ascii.

Theorem ascii_case_bytewise : forall s,
  length (ascii_map lower s) = length s /\ length (ascii_map upper s) = length s
  /\ Forall2 (fun a b => b = a \/ (65 <= bz a <= 90 /\ bz b = bz a + 32)%Z) s (ascii_map lower s)
  /\ Forall2 (fun a b => b = a \/ (97 <= bz a <= 122 /\ bz b = bz a - 32)%Z) s (ascii_map upper s).
Proof. exact StringLaws.ascii_case_bytewise. Qed.
Print Assumptions ascii_case_bytewise.

(** ... and the decoder rejects rather than truncates: whatever it accepts is exactly the encoding of what it returns
    (whole quadruples, canonical padding, no stray trailing bits), so no two texts decode to the same bytes *)
Theorem base64_decoder_accepts_only_encodings : forall fuel s r, b64_decode fuel s = Some r -> b64_encode r = s.
Proof. exact Base64Strict.base64_decode_is_strict. Qed.
Print Assumptions base64_decoder_accepts_only_encodings.

Theorem base64_decoder_is_injective : forall fuel fuel' s s' r,
  b64_decode fuel s = Some r -> b64_decode fuel' s' = Some r -> s = s'.
Proof. exact Base64Strict.base64_decode_injective. Qed.
Print Assumptions base64_decoder_is_injective.
