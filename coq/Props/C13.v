(** C13 - String codecs invert exactly; positions count characters; escaping is safe. (codec part)
    Model: Std/Codec.v (mirrors the format filters of jaq-std/src/lib.rs; urlencoding, base64 and aho-corasick
    replacement by their contracts), with a POSIX single-quote lexer as the reference consumer of @sh. *)
From Coq Require Import List ZArith.
From Coq Require Import Init.Byte.
From JaqV Require Import Base.Bytes Std.Codec Proofs.CodecLaws Val.Val Fmts.Tabular Proofs.TabularLaws.
Import ListNotations.

(** @uri | @urid : every byte string (any bytes, also invalid UTF-8) is returned unchanged *)
Theorem uri_roundtrip : forall s, uri_decode (length (uri_encode s)) (uri_encode s) = s.
Proof. exact CodecLaws.uri_roundtrip. Qed.
Print Assumptions uri_roundtrip.

(** @html | @htmld *)
Theorem html_roundtrip : forall s, html_unescape (length (html_escape s)) (html_escape s) = s.
Proof. exact CodecLaws.html_roundtrip. Qed.
Print Assumptions html_roundtrip.

(** @base64 | @base64d, with strict (rejecting) decoding *)
Theorem base64_roundtrip : forall n s, (length s <= n)%nat -> b64_decode (S n) (b64_encode s) = Some s.
Proof. exact CodecLaws.base64_roundtrip. Qed.
Print Assumptions base64_roundtrip.

(** @sh is safe: a POSIX shell reading the quoted word recovers exactly the original bytes and nothing is left over *)
Theorem sh_safe : forall s, sh_word (4 * length s + 4) false (sh_quote s) [] = Some (s, []).
Proof. exact CodecLaws.sh_safe. Qed.
Print Assumptions sh_safe.

(** per byte, for all 256 bytes: decoding undoes encoding in one step whatever follows (also inside format strings) *)
Theorem uri_byte : forall c n rest, uri_decode (S n) (uri_enc1 c ++ rest) = c :: uri_decode n rest.
Proof. exact uri_step. Qed.
Print Assumptions uri_byte.

Theorem html_byte : forall c n rest, html_unescape (S n) (html_esc1 c ++ rest) = c :: html_unescape n rest.
Proof. exact html_step. Qed.
Print Assumptions html_byte.

(** @csv / @tsv (Fmts/Tabular.v mirrors write/tabular.rs and the reader's state machine): a row of scalars, whatever bytes its
    strings contain, is read back field by field; a written TSV field contains no raw separator, line break or NUL *)
Theorem csv_row_reads_back : forall vs t,
  TabularLaws.row_ok vs -> vs <> [Val.Null] -> Tabular.write_csv (Val.Arr vs) = Some t -> Tabular.read_csv t = [Val.Arr vs].
Proof. exact TabularLaws.csv_row_roundtrip. Qed.
Print Assumptions csv_row_reads_back.

Theorem tsv_field_is_clean : forall s c, In c (Tabular.tsv_str s) -> (bz c <> 9 /\ bz c <> 10 /\ bz c <> 13 /\ bz c <> 0)%Z.
Proof. exact TabularLaws.tsv_str_no_sep. Qed.
Print Assumptions tsv_field_is_clean.
