(** String codecs: mirrors the format filters of jaq-std/src/lib.rs ([escape_html]/[unescape_html] by leftmost-first
    replacement, [encode_uri]/[decode_uri] as the urlencoding crate does, base64 STANDARD, [escape_sh]) and gives the
    reference consumers (a POSIX single-quote lexer). *)
From Coq Require Import ZArith Bool List Lia.
From Coq Require Import Init.Byte.
From JaqV Require Import Base.Bytes.
Import ListNotations.
Local Open Scope Z_scope.

Definition lit (l : list Z) : bytes := of_ascii l.

Fixpoint starts_with (p s : bytes) : bool :=
  match p, s with
  | [], _ => true
  | a :: p, b :: s => byte_eqb a b && starts_with p s
  | _ :: _, [] => false
  end.

(** ** percent-encoding *)
Definition unreserved (c : byte) : bool :=
  let z := bz c in
  ((48 <=? z) && (z <=? 57)) || ((65 <=? z) && (z <=? 90)) || ((97 <=? z) && (z <=? 122)) || (z =? 45) || (z =? 46) || (z =? 95) || (z =? 126).

Definition hex_upper (z : Z) : byte := if z <? 10 then zb (48 + z) else zb (55 + z).

Definition uri_enc1 (c : byte) : bytes :=
  if unreserved c then [c] else [zb 37; hex_upper (bz c / 16); hex_upper (bz c mod 16)].

Definition uri_encode (s : bytes) : bytes := flat_map uri_enc1 s.

Definition from_hex_digit (c : byte) : option Z :=
  let z := bz c in
  if (48 <=? z) && (z <=? 57) then Some (z - 48)
  else if (97 <=? z) && (z <=? 102) then Some (z - 87)
  else if (65 <=? z) && (z <=? 70) then Some (z - 55)
  else None.

(** [decode_binary]: malformed escapes are kept as they are; fuel = length *)
Fixpoint uri_decode (fuel : nat) (s : bytes) : bytes :=
  match fuel with
  | O => []
  | S fuel =>
      match s with
      | [] => []
      | c :: r =>
          if bz c =? 37 then
            match r with
            | a :: b :: r' =>
                match from_hex_digit a with
                | Some x => match from_hex_digit b with
                            | Some y => zb (x * 16 + y) :: uri_decode fuel r'
                            | None => c :: a :: uri_decode fuel (b :: r')
                            end
                | None => c :: uri_decode fuel r
                end
            | _ => c :: r
            end
          else c :: uri_decode fuel r
      end
  end.

(** ** HTML escaping *)
Definition html_esc1 (c : byte) : bytes :=
  let z := bz c in
  if z =? 60 then lit [38;108;116;59]            (* < -> &lt; *)
  else if z =? 62 then lit [38;103;116;59]       (* > -> &gt; *)
  else if z =? 38 then lit [38;97;109;112;59]    (* & -> &amp; *)
  else if z =? 39 then lit [38;97;112;111;115;59] (* apostrophe -> &apos; *)
  else if z =? 34 then lit [38;113;117;111;116;59] (* double quote -> &quot; *)
  else [c].

Definition html_escape (s : bytes) : bytes := flat_map html_esc1 s.

Definition entities : list (bytes * byte) :=
  [(lit [38;108;116;59], zb 60); (lit [38;103;116;59], zb 62); (lit [38;97;109;112;59], zb 38);
   (lit [38;97;112;111;115;59], zb 39); (lit [38;113;117;111;116;59], zb 34)].

Fixpoint match_entity (es : list (bytes * byte)) (s : bytes) : option (byte * bytes) :=
  match es with
  | [] => None
  | (p, c) :: r => if starts_with p s then Some (c, skipn (length p) s) else match_entity r s
  end.

(** leftmost-first, non-overlapping replacement of the five entities *)
Fixpoint html_unescape (fuel : nat) (s : bytes) : bytes :=
  match fuel with
  | O => []
  | S fuel =>
      match s with
      | [] => []
      | c :: r =>
          match match_entity entities s with
          | Some (ch, rest) => ch :: html_unescape fuel rest
          | None => c :: html_unescape fuel r
          end
      end
  end.

(** ** shell quoting: [escape_sh] replaces each single quote by quote-backslash-quote-quote; [@sh] wraps the result in single quotes *)
Definition sh_esc1 (c : byte) : bytes := if bz c =? 39 then lit [39; 92; 39; 39] else [c].
Definition sh_quote (s : bytes) : bytes := zb 39 :: flat_map sh_esc1 s ++ [zb 39].

(** a POSIX shell reading one word made of single-quoted parts and backslash-escaped characters:
    state = inside quotes?; returns the word and the rest *)
Fixpoint sh_word (fuel : nat) (inq : bool) (s : bytes) (acc : bytes) : option (bytes * bytes) :=
  match fuel with
  | O => None
  | S fuel =>
      match s with
      | [] => if inq then None else Some (rev acc, [])
      | c :: r =>
          if inq then
            (if bz c =? 39 then sh_word fuel false r acc else sh_word fuel true r (c :: acc))
          else if bz c =? 39 then sh_word fuel true r acc
          else if bz c =? 92 then
            match r with
            | d :: r' => sh_word fuel false r' (d :: acc)
            | [] => None
            end
          else if (bz c =? 32) || (bz c =? 9) || (bz c =? 10) then Some (rev acc, s)
          else sh_word fuel false r (c :: acc)
      end
  end.

(** ** base64 (STANDARD alphabet, padding) *)
Definition b64_char (z : Z) : byte :=
  if z <? 26 then zb (65 + z) else if z <? 52 then zb (71 + z) else if z <? 62 then zb (z - 4) else if z =? 62 then zb 43 else zb 47.

Definition b64_val (c : byte) : option Z :=
  let z := bz c in
  if (65 <=? z) && (z <=? 90) then Some (z - 65)
  else if (97 <=? z) && (z <=? 122) then Some (z - 71)
  else if (48 <=? z) && (z <=? 57) then Some (z + 4)
  else if z =? 43 then Some 62 else if z =? 47 then Some 63 else None.

Definition pad : byte := zb 61.

Fixpoint b64_encode (s : bytes) : bytes :=
  match s with
  | a :: b :: c :: r =>
      let n := bz a * 65536 + bz b * 256 + bz c in
      b64_char (n / 262144) :: b64_char ((n / 4096) mod 64) :: b64_char ((n / 64) mod 64) :: b64_char (n mod 64) :: b64_encode r
  | [a; b] =>
      let n := bz a * 65536 + bz b * 256 in
      [b64_char (n / 262144); b64_char ((n / 4096) mod 64); b64_char ((n / 64) mod 64); pad]
  | [a] =>
      let n := bz a * 65536 in
      [b64_char (n / 262144); b64_char ((n / 4096) mod 64); pad; pad]
  | [] => []
  end.

(** strict decoding: whole quadruples, canonical padding and trailing bits; [None] = rejected *)
Fixpoint b64_decode (fuel : nat) (s : bytes) : option bytes :=
  match fuel with
  | O => None
  | S fuel =>
      match s with
      | [] => Some []
      | [a; b; c; d] =>
          match b64_val a, b64_val b with
          | Some x, Some y =>
              if byte_eqb c pad && byte_eqb d pad then
                (if (y mod 16 =? 0) then Some [zb (x * 4 + y / 16)] else None)
              else match b64_val c with
                   | Some z =>
                       if byte_eqb d pad then
                         (if (z mod 4 =? 0) then Some [zb (x * 4 + y / 16); zb ((y mod 16) * 16 + z / 4)] else None)
                       else match b64_val d with
                            | Some w => Some [zb (x * 4 + y / 16); zb ((y mod 16) * 16 + z / 4); zb ((z mod 4) * 64 + w)]
                            | None => None
                            end
                   | None => None
                   end
          | _, _ => None
          end
      | a :: b :: c :: d :: r =>
          match b64_val a, b64_val b, b64_val c, b64_val d with
          | Some x, Some y, Some z, Some w =>
              match b64_decode fuel r with
              | Some t => Some (zb (x * 4 + y / 16) :: zb ((y mod 16) * 16 + z / 4) :: zb ((z mod 4) * 64 + w) :: t)
              | None => None
              end
          | _, _, _, _ => None
          end
      | _ => None
      end
  end.
