(** Date and time: mirrors jaq-std/src/time.rs ([epoch_to_timestamp], [datetime_to_array], [array_to_datetime],
    [gmtime], [mktime]) for UTC; the proleptic Gregorian calendar (jiff's civil date arithmetic, by contract)
    is given by the era-based day-count algorithms. *)
From Coq Require Import ZArith Bool List Lia.
From JaqV Require Import Base.F64 Base.Bytes Val.Num Val.Val Val.Err.
Import ListNotations.
Local Open Scope Z_scope.

(** ** days <-> civil date; an era is 400 years = 146097 days, starting on March 1st *)

(** day of the era [0, 146096] -> (year of era [0,399], month [1,12], day [1,31]) *)
Definition civil_of_doe (doe : Z) : Z * Z * Z :=
  let yoe := (doe - doe / 1460 + doe / 36524 - doe / 146096) / 365 in
  let doy := doe - (365 * yoe + yoe / 4 - yoe / 100) in
  let mp := (5 * doy + 2) / 153 in
  let d := doy - (153 * mp + 2) / 5 + 1 in
  let m := if mp <? 10 then mp + 3 else mp - 9 in
  (yoe, m, d).

Definition doe_of_civil (yoe m d : Z) : Z :=
  let doy := (153 * (if 2 <? m then m - 3 else m + 9) + 2) / 5 + d - 1 in
  yoe * 365 + yoe / 4 - yoe / 100 + doy.

Definition civil_from_days (z : Z) : Z * Z * Z :=
  let z := z + 719468 in
  let era := z / 146097 in
  let doe := z - era * 146097 in
  let '(yoe, m, d) := civil_of_doe doe in
  let y := yoe + era * 400 in
  (if m <=? 2 then y + 1 else y, m, d).

Definition days_from_civil (y m d : Z) : Z :=
  let y := if m <=? 2 then y - 1 else y in
  let era := y / 400 in
  let yoe := y - era * 400 in
  era * 146097 + doe_of_civil yoe m d - 719468.

(** ** an independent description of the calendar, for the specification *)
Definition is_leap (y : Z) : bool := ((y mod 4 =? 0) && negb (y mod 100 =? 0)) || (y mod 400 =? 0).

Definition days_in_month (y m : Z) : Z :=
  if m =? 2 then (if is_leap y then 29 else 28)
  else if (m =? 4) || (m =? 6) || (m =? 9) || (m =? 11) then 30 else 31.

Definition valid_date (y m d : Z) : bool := (1 <=? m) && (m <=? 12) && (1 <=? d) && (d <=? days_in_month y m).

(** days from 0001-01-01 to the first day of year [y] (proleptic) *)
Definition days_before_year (y : Z) : Z := let p := y - 1 in 365 * p + p / 4 - p / 100 + p / 400.

Fixpoint days_before_month (y : Z) (m : nat) : Z :=
  match m with
  | O => 0
  | S m' => days_before_month y m' + days_in_month y (Z.of_nat (S m'))
  end.

(** day number counted from 1970-01-01 by years, months and days *)
Definition day_number (y m d : Z) : Z :=
  days_before_year y + days_before_month y (Z.to_nat (m - 1)) + (d - 1) - 719162.

(** ** gmtime / mktime on integer epochs *)
Definition ts_min_us : Z := -377705023201000000.
Definition ts_max_us : Z := 253402207200000000.
Definition i64_min : Z := -9223372036854775808.
Definition i64_max : Z := 9223372036854775807.

Inductive tres (A : Type) := TOk (a : A) | TRange | TConvert.
Arguments TOk {A} a.
Arguments TRange {A}.
Arguments TConvert {A}.

(** [epoch_to_timestamp] for integer seconds: microseconds, checked *)
Definition epoch_us (t : Z) : tres Z :=
  let us := t * 1000000 in
  if (us <? i64_min) || (i64_max <? us) then TConvert
  else if (us <? ts_min_us) || (ts_max_us <? us) then TRange
  else TOk us.

(** broken-down UTC time of a whole number of seconds *)
Definition broken_down (t : Z) : list Z :=
  let days := t / 86400 in
  let secs := t mod 86400 in
  let '(y, m, d) := civil_from_days days in
  [y; m - 1; d; secs / 3600; (secs mod 3600) / 60; secs mod 60; (days + 4) mod 7; days - days_from_civil y 1 1].

Definition gmtime_int (t : Z) : tres (list Z) :=
  match epoch_us t with
  | TOk _ => TOk (broken_down t)
  | TRange => TRange
  | TConvert => TConvert
  end.

(** [array_to_datetime] + [to_zoned(UTC)] + [timestamp_to_epoch] for integer fields *)
Definition mktime_int (y m d h mi s : Z) : tres Z :=
  (* i16 year, i8 other fields; month + 1 checked *)
  if negb ((-32768 <=? y) && (y <=? 32767)) then TConvert
  else if negb ((-128 <=? m) && (m <=? 126) && (-128 <=? d) && (d <=? 127) && (-128 <=? h) && (h <=? 127) && (-128 <=? mi) && (mi <=? 127)) then TConvert
  else
    let s8 := Z.max (-128) (Z.min 127 s) in
    if negb ((-9999 <=? y) && (y <=? 9999) && valid_date y (m + 1) d && (0 <=? h) && (h <=? 23) && (0 <=? mi) && (mi <=? 59) && (0 <=? s8) && (s8 <=? 59))
    then TRange
    else
      let t := days_from_civil y (m + 1) d * 86400 + h * 3600 + mi * 60 + s8 in
      if (t * 1000000 <? ts_min_us) || (ts_max_us <? t * 1000000) then TRange else TOk t.
