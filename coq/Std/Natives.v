(** Native filters of jaq-json/src/funs.rs and jaq-std/src/lib.rs ([base_run]) on values and closures. *)
From Coq Require Import ZArith Bool List Lia.
From Coq Require Import Strings.String Strings.Byte Floats.SpecFloat.
From JaqV Require Import Base.F64 Base.Bytes Base.Stream Val.Num Val.Val Val.Utf8 Val.Err Val.Arith Val.Index
  Core.Natives Json.Write Json.Read Std.Time Std.Codec.
Import ListNotations.
Local Open Scope Z_scope.

Definition s2b (s : string) : bytes := list_byte_of_string s.
Definition name_is (name : bytes) (s : string) : bool := bytes_eqb name (s2b s).
Arguments name_is _ _%string.

(** ** rounding ([ValTx::round]) *)
Inductive rmode := RFloor | RRound | RCeil.

(** exact integer result of floor / round-half-away / ceil of a finite float *)
Definition round_Z (md : rmode) (b : Z) : option Z :=
  match to_sf b with
  | S754_zero _ => Some 0
  | S754_finite s m e =>
      if 0 <=? e then Some ((if s then -1 else 1) * Zpos m * 2 ^ e)
      else
        let d := 2 ^ (- e) in
        let q := Zpos m / d in
        let r := Zpos m mod d in
        let mag_floor := q in                         (* towards zero *)
        let mag_ceil := if r =? 0 then q else q + 1 in (* away from zero *)
        let mag_round := if 2 * r <? d then q else q + 1 in
        Some (match md, s with
              | RFloor, false => mag_floor
              | RFloor, true => - mag_ceil
              | RCeil, false => mag_ceil
              | RCeil, true => - mag_floor
              | RRound, false => mag_round
              | RRound, true => - mag_round
              end)
  | _ => None
  end.

Definition clamp_isize (z : Z) : Z := Z.max isize_min (Z.min isize_max z).

(** strict upper bound: 2^63 itself is not a machine integer *)
Definition vround (md : rmode) (v : val) : res val :=
  match v with
  | Num n =>
      if is_int n then Ok v
      else
        let f := to_f64 n in
        match round_Z md f with
        | Some z =>
            (* isize::MIN as f64 <= f && f <= isize::MAX as f64, the latter being 2^63 *)
            if (isize_min <=? z) && (z <=? two63) then Ok (vint (clamp_isize z))
            else Ok (Num (from_str (Z_to_dec z)))
        | None => Ok (Num (Flt f))
        end
  | _ => Err (ETyp v TNum)
  end.

(** ** [contains] *)
Fixpoint is_infix (p s : bytes) (fuel : nat) : bool :=
  match fuel with
  | O => false
  | S fuel => is_prefix p s || match s with [] => false | _ :: r => is_infix p r fuel end
  end.

Fixpoint contains_f (n : nat) (a b : val) : bool :=
  match n with
  | O => false
  | S n =>
      match a, b with
      | BStr l, BStr r | TStr l, TStr r => is_infix r l (S (List.length l))
      | Arr l, Arr r => forallb (fun y => existsb (fun x => contains_f n x y) l) r
      | Obj l, Obj r => forallb (fun kv => match get l (fst kv) with
                                           | Some x => contains_f n x (snd kv)
                                           | None => false
                                           end) r
      | _, _ => val_eqb a b
      end
  end.
Definition contains (a b : val) : bool := contains_f (S (Nat.max (depth a) (depth b))) a b.

(** ** [indices] *)
Fixpoint byte_windows (x y : bytes) (i : Z) (fuel : nat) : list Z :=
  match fuel with
  | O => []
  | S fuel =>
      if (List.length x <? List.length y)%nat then []
      else (if is_prefix y x then [i] else []) ++ match x with [] => [] | _ :: r => byte_windows r y (i + 1) fuel end
  end.

Definition str_indices (x y : bytes) : list Z :=
  (fix go (starts : list Z) (idx : Z) : list Z :=
     match starts with
     | [] => []
     | st :: r =>
         if st + Z.of_nat (List.length y) <=? Z.of_nat (List.length x) then
           (if bytes_eqb (slice x st (Z.of_nat (List.length y))) y then [idx] else []) ++ go r (idx + 1)
         else []
     end) (char_starts x) 0.

Definition indices (x y : val) : res val :=
  match x, y with
  | BStr _, BStr [] | TStr _, TStr [] => Ok (Arr [])
  | TStr a, TStr b => Ok (Arr (map vint (str_indices a b)))
  | BStr a, BStr b => Ok (Arr (map vint (byte_windows a b 0 (S (List.length a)))))
  | Arr _, Arr [] => Ok (Arr [])
  | Arr a, Arr b => Ok (Arr (map vint (window_indices a b 0 (S (List.length a)))))
  | Arr a, _ => Ok (Arr (map (fun p => vint (fst p)) (filter (fun p => val_eqb (snd p) y) (enumerate_from 0 a))))
  | _, _ => Err (EIndex x y)
  end.

(** ** sorting *)
Definition keys_cmp (a b : list val) : comparison := lex_cmp val_cmp a b.

(** all outputs of [f] on each element, first failure wins *)
Fixpoint keyed (f : val -> str val) (xs : list val) : list (list val * val) * fin :=
  match xs with
  | [] => ([], FEnd)
  | x :: r =>
      let '(ks, t) := collect (f x) in
      match t with
      | FEnd => let '(rest, t') := keyed f r in ((ks, x) :: rest, t')
      | _ => ([], t)
      end
  end.

(** [sort_by_cached_key] does not compute keys of slices shorter than two elements *)
Definition sort_by_f (f : val -> str val) (xs : list val) : str val :=
  if (List.length xs <? 2)%nat then sone (Arr xs) else
  let '(kx, t) := keyed f xs in
  match t with
  | FEnd => sone (Arr (map snd (sort_by (fun a b => keys_cmp (fst a) (fst b)) kx)))
  | _ => fin_str t
  end.

Fixpoint group_runs (cur_key : list val) (cur : list val) (l : list (list val * val)) : list val :=
  match l with
  | [] => [Arr (rev cur)]
  | (k, x) :: r =>
      if list_eqb_val cur_key k then group_runs cur_key (x :: cur) r
      else Arr (rev cur) :: group_runs k [x] r
  end.

Definition group_by_f (f : val -> str val) (xs : list val) : str val :=
  let '(kx, t) := keyed f xs in
  match t with
  | FEnd =>
      match sort_by (fun a b => keys_cmp (fst a) (fst b)) kx with
      | [] => sone (Arr [])
      | (k, x) :: r => sone (Arr (group_runs k [x] r))
      end
  | _ => fin_str t
  end.

(** [cmp_by] *)
Definition extremal_by (is_max : bool) (f : val -> str val) (xs : list val) : str val :=
  let '(kx, t) := keyed f xs in
  match t with
  | FEnd =>
      match kx with
      | [] => SNil
      | (k, x) :: r =>
          sone (snd (fold_left (fun best cand =>
                       let c := keys_cmp (fst cand) (fst best) in
                       let replace := if is_max then match c with Lt => false | _ => true end
                                      else match c with Lt => true | _ => false end in
                       if replace then cand else best) r (k, x)))
      end
  | _ => fin_str t
  end.

(** ** [bsearch]: [slice::binary_search_by] of the standard library (the branch-free variant: the number of rounds depends on
    the length only; of several equal elements it finds the one this loop arrives at) *)
Fixpoint bs_loop (fuel : nat) (a : list val) (x : val) (base size : nat) : nat :=
  match fuel with
  | O => base
  | S fuel =>
      if (size <=? 1)%nat then base
      else let half := (size / 2)%nat in
           let mid := (base + half)%nat in
           bs_loop fuel a x (match val_cmp (nth mid a Null) x with Gt => base | _ => mid end) (size - half)%nat
  end.

Definition bsearch (a : list val) (x : val) : Z :=
  match a with
  | [] => (-1)%Z
  | _ => let base := bs_loop (List.length a) a x 0%nat (List.length a) in
         match val_cmp (nth base a Null) x with
         | Eq => Z.of_nat base
         | Lt => (-1 - Z.of_nat (base + 1)%nat)%Z
         | Gt => (-1 - Z.of_nat base)%Z
         end
  end.

(** ** explode / implode *)
Definition explode (s : bytes) : list val :=
  flat_map (fun p => match fst p with
                     | Some c => [vint c]
                     | None => map (fun b => vint (- bz b)) (snd p)
                     end) (chunks s).

(** never [None]: [-i] is computed with [checked_neg] *)
Fixpoint implode (xs : list val) : option (res bytes) :=
  match xs with
  | [] => Some (Ok [])
  | x :: r =>
      match x with
      | Num n =>
          match as_isize n with
          | Some i =>
                let here :=
                  if (0 <=? - i) && (- i <=? 255) then Ok [zb (- i)]
                  else if is_scalar i then Ok (encode1 i)
                  else Err (EOther 2) in
                match here with
                | Ok bs => match implode r with
                           | Some (Ok rest) => Some (Ok (bs ++ rest))
                           | o => o
                           end
                | Err e => Some (Err e)
                end
          | None => Some (Err (ETyp x TInt))
          end
      | _ => Some (Err (ETyp x TInt))
      end
  end.

Definition ascii_map (f : Z -> Z) (s : bytes) : bytes := map (fun b => zb (f (bz b))) s.
Definition lower (z : Z) : Z := if (65 <=? z) && (z <=? 90) then z + 32 else z.
Definition upper (z : Z) : Z := if (97 <=? z) && (z <=? 122) then z - 32 else z.

Definition as_bytes (v : val) : res bytes :=
  match v with BStr b | TStr b => Ok b | _ => Err (ETyp v TStrT) end.
Definition as_utf8_bytes (v : val) : res bytes :=
  match v with TStr b => Ok b | _ => Err (ETyp v TStrT) end.
Definition sub_str (v : val) (b : bytes) : val :=
  match v with BStr _ => BStr b | _ => TStr b end.

Definition is_suffix (p s : bytes) : bool := is_prefix (rev p) (rev s).

Definition need_arr (v : val) : res (list val) :=
  match v with Arr a => Ok a | _ => Err (ETyp v TArr) end.

Definition in_i32 (z : Z) : bool := (-2147483648 <=? z) && (z <=? 2147483647).

(** dispatcher: [None] = native not modelled *)
Definition std_run (fuel : nat) (name : bytes) (args : list narg) (v : val) : option (str val) :=
  match args with
  | [] =>
      if name_is name "length" then Some (of_res_opt (vlength v))
      else if name_is name "tojson" then Some (sone (TStr (to_json v)))
      else if name_is name "fromjson" then
        Some (match v with
              | TStr s => let '(vs, e) := parse_many (S (List.length s)) s in
                          sapp (of_list vs) (fun _ => match e with None => SNil | Some _ => serr (EOther 4) end)
              | _ => serr (ETyp v TStrT)
              end)
      else if name_is name "floor" then Some (of_res (vround RFloor v))
      else if name_is name "round" then Some (of_res (vround RRound v))
      else if name_is name "ceil" then Some (of_res (vround RCeil v))
      else if name_is name "utf8bytelength" then Some (of_res (rmap (fun b => vint (Z.of_nat (List.length b))) (as_utf8_bytes v)))
      else if name_is name "explode" then Some (of_res (rmap (fun b => Arr (explode b)) (as_utf8_bytes v)))
      else if name_is name "implode" then
        Some (match need_arr v with
              | Ok a => match implode a with
                        | Some r => of_res (rmap TStr r)
                        | None => SUnk
                        end
              | Err e => serr e
              end)
      else if name_is name "gmtime" then
        Some (match v with
              | Num n => match as_isize n with
                         | Some t => match gmtime_int t with
                                     | TOk l => sone (Arr (map vint l))
                                     | _ => serr (EOther 5)
                                     end
                         | None => SUnk        (* fractional epochs: outside the model *)
                         end
              | _ => serr (ETyp v TNum)
              end)
      else if name_is name "mktime" then
        Some (match v with
              | Arr (Num y :: Num m :: Num d :: Num h :: Num mi :: Num s :: _) =>
                  match as_isize y, as_isize m, as_isize d, as_isize h, as_isize mi, as_isize s with
                  | Some y, Some m, Some d, Some h, Some mi, Some s =>
                      match mktime_int y m d h mi s with
                      | TOk t => sone (vint t)
                      | _ => serr (EOther 6)
                      end
                  | _, _, _, _, _, _ => SUnk
                  end
              | Arr _ => SUnk
              | _ => serr (ETyp v TArr)
              end)
      else if name_is name "escape_html" then Some (of_res (rmap (fun b => TStr (html_escape b)) (as_utf8_bytes v)))
      else if name_is name "unescape_html" then Some (of_res (rmap (fun b => TStr (html_unescape (List.length b) b)) (as_utf8_bytes v)))
      else if name_is name "encode_uri" then Some (of_res (rmap (fun b => TStr (uri_encode b)) (as_utf8_bytes v)))
      else if name_is name "decode_uri" then Some (of_res (rmap (fun b => TStr (uri_decode (List.length b) b)) (as_utf8_bytes v)))
      else if name_is name "encode_base64" then Some (of_res (rmap (fun b => TStr (b64_encode b)) (as_utf8_bytes v)))
      else if name_is name "decode_base64" then
        Some (match as_utf8_bytes v with
              | Ok b => match b64_decode (S (List.length b)) b with Some r => sone (TStr r) | None => serr (EOther 7) end
              | Err e => serr e
              end)
      else if name_is name "escape_sh" then Some (of_res (rmap (fun b => TStr (flat_map sh_esc1 b)) (as_utf8_bytes v)))
      else if name_is name "tobytes" then
        Some (let fix tb (n : nat) (v : val) : option bytes :=
                match n with
                | O => None
                | S n =>
                    match v with
                    | Num x => match as_isize x with
                               | Some i => if (0 <=? i) && (i <=? 255) then Some [zb i] else None
                               | None => None
                               end
                    | BStr b | TStr b => Some b
                    | Arr a => fold_left (fun acc x => match acc, tb n x with Some l, Some r => Some (l ++ r) | _, _ => None end) a (Some [])
                    | _ => None
                    end
                end in
              match tb (S (depth v)) v with Some b => sone (BStr b) | None => serr (EOther 8) end)
      else if name_is name "ascii_downcase" then Some (of_res (rmap (fun b => TStr (ascii_map lower b)) (as_utf8_bytes v)))
      else if name_is name "ascii_upcase" then Some (of_res (rmap (fun b => TStr (ascii_map upper b)) (as_utf8_bytes v)))
      else if name_is name "reverse" then Some (of_res (rmap (fun a => Arr (rev a)) (need_arr v)))
      else if name_is name "sort" then Some (of_res (rmap (fun a => Arr (sort_by val_cmp a)) (need_arr v)))
      else None
  | [NV a] =>
      if name_is name "has" then Some (of_res (rmap (fun o => Bool (match o with Some _ => true | None => false end)) (index_opt v a)))
      else if name_is name "contains" then Some (sone (Bool (contains v a)))
      else if name_is name "bsearch" then Some (of_res (rmap (fun l => vint (bsearch l a)) (need_arr v)))
      else if name_is name "indices" then Some (of_res (indices v a))
      else if name_is name "startswith" then
        Some (of_res (rbind (as_bytes v) (fun x => rbind (as_bytes a) (fun p => Ok (Bool (is_prefix p x))))))
      else if name_is name "endswith" then
        Some (of_res (rbind (as_bytes v) (fun x => rbind (as_bytes a) (fun p => Ok (Bool (is_suffix p x))))))
      else if name_is name "ltrimstr" then
        Some (of_res (rbind (as_bytes v) (fun x => rbind (as_bytes a) (fun p =>
                Ok (if is_prefix p x then sub_str v (skipn (List.length p) x) else v)))))
      else if name_is name "rtrimstr" then
        Some (of_res (rbind (as_bytes v) (fun x => rbind (as_bytes a) (fun p =>
                Ok (if is_suffix p x then sub_str v (firstn (List.length x - List.length p) x) else v)))))
      else if name_is name "halt" then
        Some (match a with
              | Num n => match as_isize n with
                         | Some i => if in_i32 i then SExn (XHalt i) else serr (EOther 3)
                         | None => serr (ETyp a TInt)
                         end
              | _ => serr (ETyp a TInt)
              end)
      else None
  | [NF f] =>
      if name_is name "sort_by" then Some (match need_arr v with Ok a => sort_by_f (cl_run f) a | Err e => serr e end)
      else if name_is name "group_by" then Some (match need_arr v with Ok a => group_by_f (cl_run f) a | Err e => serr e end)
      else if name_is name "min_by_or_empty" then Some (match need_arr v with Ok a => extremal_by false (cl_run f) a | Err e => serr e end)
      else if name_is name "max_by_or_empty" then Some (match need_arr v with Ok a => extremal_by true (cl_run f) a | Err e => serr e end)
      else None
  | _ => None
  end.
