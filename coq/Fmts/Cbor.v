(** CBOR: the writer of jaq-fmts/src/write/cbor.rs ([encode]) and the reader of jaq-fmts/src/read/cbor.rs ([parse],
    [decode_many]) on top of the header layer of ciborium-ll (hdr.rs: [Header] <-> [Title], shortest argument widths, floats
    in the shortest of binary16/32/64 that holds them exactly; dec.rs [pull_title]; enc.rs [push], definite lengths only).
    Indefinite-length strings (segments) and non-quiet NaNs of the short float formats are outside the model ([DUnk]). *)
From Coq Require Import ZArith Bool List Lia.
From Coq Require Import Init.Byte.
From JaqV Require Import Base.F64 Base.Bytes Val.Num Val.Val Val.Utf8 Val.Err.
Import ListNotations.
Local Open Scope Z_scope.

(** ** big-endian numbers *)
(** the [n] low bytes of [z], most significant first *)
Fixpoint be (n : nat) (z : Z) : bytes :=
  match n with
  | O => []
  | S n => zb ((z / 256 ^ Z.of_nat n) mod 256) :: be n z
  end.

Fixpoint be_val_acc (acc : Z) (s : bytes) : Z :=
  match s with
  | [] => acc
  | b :: r => be_val_acc (acc * 256 + bz b) r
  end.
Definition be_val (s : bytes) : Z := be_val_acc 0 s.

(** number of base-256 digits of a positive number *)
Definition byte_len (z : Z) : nat := Z.to_nat (Z.log2 z / 8 + 1).

(** [BigUint::to_bytes_be]: shortest form, one zero byte for zero *)
Definition to_bytes_be (z : Z) : bytes := if z <=? 0 then [zb 0] else be (byte_len z) z.

(** ** headers *)
(** [Title::from(Header)] then [Encoder::push]: major type and argument in the shortest width *)
Definition head (major arg : Z) : bytes :=
  if arg <=? 23 then [zb (major * 32 + arg)]
  else if arg <=? 255 then zb (major * 32 + 24) :: be 1 arg
  else if arg <=? 65535 then zb (major * 32 + 25) :: be 2 arg
  else if arg <=? 4294967295 then zb (major * 32 + 26) :: be 4 arg
  else zb (major * 32 + 27) :: be 8 arg.

(** ** floats: the shortest format that holds the number exactly *)
(** [fits bias mbits b]: the bit pattern of the number in the format with that exponent bias and that many explicit
    mantissa bits, when it is exactly representable there (what `f64::from(n) .to_bits() == n64.to_bits()` tests) *)
Definition short_float (bias mbits : Z) (b : Z) : option Z :=
  let s := if f_sign b then 1 else 0 in
  let e := f_exp b in
  let m := f_man b in
  let ebits_all := 2 * bias + 1 in                    (* all-ones exponent of the short format *)
  let top := s * 2 ^ (mbits + Z.log2 (ebits_all + 1)) in
  let drop := 52 - mbits in
  if e =? 2047 then
    if m =? 0 then Some (top + ebits_all * 2 ^ mbits)
    else if (m mod 2 ^ drop =? 0) && (m / 2 ^ 51 =? 1) then Some (top + ebits_all * 2 ^ mbits + m / 2 ^ drop)
    else None
  else if e =? 0 then (if m =? 0 then Some top else None)
  else
    let E := e - 1023 in
    if (1 - bias <=? E) && (E <=? bias) then
      if m mod 2 ^ drop =? 0 then Some (top + (E + bias) * 2 ^ mbits + m / 2 ^ drop) else None
    else if E <? 1 - bias then
      let sh := drop + (1 - bias) - E in
      if (two52 + m) mod 2 ^ sh =? 0 then Some (top + (two52 + m) / 2 ^ sh) else None
    else None.

Definition enc_float (b : Z) : bytes :=
  match short_float 15 10 b with
  | Some h => zb 249 :: be 2 h
  | None =>
      match short_float 127 23 b with
      | Some w => zb 250 :: be 4 w
      | None => zb 251 :: be 8 b
      end
  end.

(** short formats to binary64 ([f64::from]); [None]: a NaN whose quiet bit is not set (outside the model) *)
Definition long_float (bias mbits : Z) (h : Z) : option Z :=
  let ebits_all := 2 * bias + 1 in
  let s := h / 2 ^ (mbits + Z.log2 (ebits_all + 1)) in
  let e := (h / 2 ^ mbits) mod (ebits_all + 1) in
  let m := h mod 2 ^ mbits in
  let top := s * two63 in
  let drop := 52 - mbits in
  if e =? ebits_all then
    if m =? 0 then Some (top + 2047 * two52)
    else if m / 2 ^ (mbits - 1) =? 1 then Some (top + 2047 * two52 + m * 2 ^ drop) else None
  else if e =? 0 then
    if m =? 0 then Some top
    else let L := Z.log2 m in
         Some (top + (L + (1 - bias) - mbits + 1023) * two52 + (m - 2 ^ L) * 2 ^ (52 - L))
  else Some (top + (e - bias + 1023) * two52 + m * 2 ^ drop).

(** ** the writer *)
Definition enc_num (n : num) : bytes :=
  match n with
  | Int i => if 0 <=? i then head 0 i else head 1 (- (i + 1))
  | Big i => if 0 <=? i then head 6 2 ++ (let u := to_bytes_be i in head 2 (Z.of_nat (length u)) ++ u)
             else head 6 3 ++ (let u := to_bytes_be (- i - 1) in head 2 (Z.of_nat (length u)) ++ u)
  | Flt b => enc_float b
  | Dec s => enc_float (dec_to_f64 s)
  end.

Fixpoint encode_f (n : nat) (v : val) : bytes :=
  match n with
  | O => []
  | S n =>
      match v with
      | Null => [zb 246]
      | Bool false => [zb 244]
      | Bool true => [zb 245]
      | Num x => enc_num x
      | TStr s => let t := to_lossy s in head 3 (Z.of_nat (length t)) ++ t
      | BStr s => head 2 (Z.of_nat (length s)) ++ s
      | Arr a => head 4 (Z.of_nat (length a)) ++ flat_map (encode_f n) a
      | Obj o => head 5 (Z.of_nat (length o)) ++ flat_map (fun kv => encode_f n (fst kv) ++ encode_f n (snd kv)) o
      end
  end.
Definition encode (v : val) : bytes := encode_f (S (depth v)) v.

(** ** the reader *)
Inductive dres (A : Type) := DOk (a : A) (rest : bytes) | DErr | DUnk.
Arguments DOk {A}. Arguments DErr {A}. Arguments DUnk {A}.

Definition take (n : Z) (s : bytes) : option (bytes * bytes) :=
  if Z.of_nat (length s) <? n then None else Some (firstn (Z.to_nat n) s, skipn (Z.to_nat n) s).

(** [Decoder::pull_title]: major type, argument ([None] = "more"), width of the argument in bytes *)
Definition title (s : bytes) : dres (Z * option Z * nat) :=
  match s with
  | [] => DErr
  | b :: r =>
      let major := bz b / 32 in
      let minor := bz b mod 32 in
      if minor <? 24 then DOk (major, Some minor, 0%nat) r
      else if minor =? 31 then DOk (major, None, 0%nat) r
      else if 28 <=? minor then DErr
      else let w := (if minor =? 24 then 1%nat else if minor =? 25 then 2%nat else if minor =? 26 then 4%nat else 8%nat) in
           match take (Z.of_nat w) r with
           | Some (a, r') => DOk (major, Some (be_val a), w) r'
           | None => DErr
           end
  end.

(** [with_size] with a known size: exactly [n] items; [k] bounds the iterations (every item takes at least one byte) *)
Fixpoint items (p : bytes -> dres val) (k : nat) (n : Z) (s : bytes) (acc : list val) : dres (list val) :=
  match k with
  | O => DUnk
  | S k =>
      if n <=? 0 then DOk (rev acc) s
      else match p s with
           | DOk x r => items p k (n - 1) r (x :: acc)
           | DErr => DErr
           | DUnk => DUnk
           end
  end.

(** ... without: up to the break *)
Fixpoint items_break (p : bytes -> dres val) (k : nat) (s : bytes) (acc : list val) : dres (list val) :=
  match k with
  | O => DUnk
  | S k =>
      match s with
      | b :: r => if bz b =? 255 then DOk (rev acc) r
                  else match p s with
                       | DOk x r => items_break p k r (x :: acc)
                       | DErr => DErr
                       | DUnk => DUnk
                       end
      | [] => DErr
      end
  end.

Fixpoint pair_up (l : list val) : list (val * val) :=
  match l with
  | k :: v :: r => (k, v) :: pair_up r
  | _ => []
  end.

(** [Val::obj(o.into_iter().collect())] *)
Definition collect_obj (kvs : list (val * val)) : val := Obj (fold_left (fun o kv => insert o (fst kv) (snd kv)) kvs []).

(** [biguint]: the next item must be a byte string *)
Definition biguint (s : bytes) : dres Z :=
  match title s with
  | DOk (major, a, _) r =>
      if major =? 2 then
        match a with
        | Some n => match take n r with Some (b, r') => DOk (be_val b) r' | None => DErr end
        | None => DUnk
        end
      else DErr
  | DErr => DErr
  | DUnk => DUnk
  end.

Fixpoint parse (fuel : nat) (s : bytes) : dres val :=
  match fuel with
  | O => DUnk
  | S fuel =>
      match title s with
      | DOk (major, a, w) r =>
          if major =? 0 then match a with Some n => DOk (Num (from_integral n)) r | None => DErr end
          else if major =? 1 then match a with Some n => DOk (Num (from_integral (- 1 - n))) r | None => DErr end
          else if major =? 2 then
            match a with
            | Some n => match take n r with Some (b, r') => DOk (BStr b) r' | None => DErr end
            | None => DUnk
            end
          else if major =? 3 then
            match a with
            | Some n => match take n r with
                        | Some (b, r') => if valid_utf8 b then DOk (TStr b) r' else DErr
                        | None => DErr
                        end
            | None => DUnk
            end
          else if major =? 4 then
            match (match a with
                   | Some n => items (parse fuel) (S (length r)) n r []
                   | None => items_break (parse fuel) (S (length r)) r []
                   end) with
            | DOk l r' => DOk (Arr l) r'
            | DErr => DErr
            | DUnk => DUnk
            end
          else if major =? 5 then
            (* a break is looked for in front of keys only; in front of a value it is an error of [parse] *)
            match (match a with
                   | Some n => items (parse fuel) (S (length r)) (2 * n) r []
                   | None => items_break (fun s => match parse fuel s with
                                                   | DOk k r1 => match parse fuel r1 with
                                                                 | DOk v r2 => DOk (Arr [k; v]) r2
                                                                 | DErr => DErr
                                                                 | DUnk => DUnk
                                                                 end
                                                   | DErr => DErr
                                                   | DUnk => DUnk
                                                   end) (S (length r)) r []
                   end) with
            | DOk l r' =>
                DOk (collect_obj (match a with
                                  | Some _ => pair_up l
                                  | None => flat_map (fun kv => match kv with Arr [k; v] => [(k, v)] | _ => [] end) l
                                  end)) r'
            | DErr => DErr
            | DUnk => DUnk
            end
          else if major =? 6 then
            match a with
            | Some t =>
                if t =? 2 then match biguint r with DOk u r' => DOk (Num (Big u)) r' | DErr => DErr | DUnk => DUnk end
                else if t =? 3 then match biguint r with DOk u r' => DOk (Num (Big (- u - 1))) r' | DErr => DErr | DUnk => DUnk end
                else DErr
            | None => DErr
            end
          else
            match a with
            | None => DErr                                   (* break *)
            | Some x =>
                match w with
                | 0%nat | 1%nat =>
                    if x =? 20 then DOk (Bool false) r else if x =? 21 then DOk (Bool true) r
                    else if x =? 22 then DOk Null r else DErr
                | 2%nat => match long_float 15 10 x with Some f => DOk (Num (Flt f)) r | None => DUnk end
                | 4%nat => match long_float 127 23 x with Some f => DOk (Num (Flt f)) r | None => DUnk end
                | _ => DOk (Num (Flt x)) r
                end
            end
      | DErr => DErr
      | DUnk => DUnk
      end
  end.

Definition parse_one (s : bytes) : dres val := parse (S (length s)) s.

(** [decode_many]: values up to the end of the input; the first error ends the sequence *)
Inductive fin_many := MEnd | MErr | MUnk.
Fixpoint decode_many_f (k : nat) (s : bytes) : list val * fin_many :=
  match k with
  | O => ([], MUnk)
  | S k =>
      match s with
      | [] => ([], MEnd)
      | _ => match parse_one s with
             | DOk v r => let '(vs, f) := decode_many_f k r in (v :: vs, f)
             | DErr => ([], MErr)
             | DUnk => ([], MUnk)
             end
      end
  end.
Definition decode_many (s : bytes) : list val * fin_many := decode_many_f (S (length s)) s.
