(** The format filters of jaq-fmts/src/{read,write}/funs.rs that are modelled: CSV/TSV in full, [toyaml] in full,
    [fromyaml] on documents that consist of one plain scalar (the YAML scanner is third-party), [tocbor] in full, [fromcbor]
    except indefinite-length strings. *)
From Coq Require Import ZArith Bool List.
From Coq Require Import Strings.String.
From JaqV Require Import Base.Bytes Base.Stream Val.Num Val.Val Val.Err Core.Natives Std.Natives Fmts.Yaml Fmts.Tabular Fmts.Cbor.
Import ListNotations.
Local Open Scope Z_scope.

Definition ser (o : option bytes) : str val :=
  match o with Some t => sone (TStr t) | None => serr (EOther 20) end.

Definition is_ascii_bytes (s : bytes) : bool := forallb (fun c => bz c <? 128) s.

Definition fmts_run (name : bytes) (args : list narg) (v : val) : option (str val) :=
  match args with
  | [] =>
      if name_is name "tocsv" || name_is name "@csv" then Some (ser (write_csv v))
      else if name_is name "totsv" || name_is name "@tsv" then Some (ser (write_tsv v))
      else if name_is name "fromcsv" then
        Some (match as_bytes v with Ok s => of_list (read_csv s) | Err e => serr e end)
      else if name_is name "fromtsv" then
        Some (match as_bytes v with Ok s => of_list (read_tsv s) | Err e => serr e end)
      else if name_is name "toyaml" then Some (sone (TStr (to_yaml v)))
      else if name_is name "fromyaml" then
        Some (match as_utf8_bytes v with
              | Ok s => if plain_document s && is_ascii_bytes s then sone (resolve s) else SUnk
              | Err e => serr e
              end)
      else if name_is name "tocbor" then Some (sone (BStr (Cbor.encode v)))
      else if name_is name "fromcbor" then
        Some (match as_bytes v with
              | Ok s => let '(vs, f) := Cbor.decode_many s in
                        sapp (of_list vs) (fun _ => match f with MEnd => SNil | MErr => serr (EOther 21) | MUnk => SUnk end)
              | Err e => serr e
              end)
      else None
  | _ => None
  end.

(** all modelled natives *)
Definition all_run (fuel : nat) (name : bytes) (args : list narg) (v : val) : option (str val) :=
  match std_run fuel name args v with
  | Some r => Some r
  | None => fmts_run name args v
  end.
