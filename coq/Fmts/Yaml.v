(** YAML scalars and the YAML writer: mirrors jaq-fmts/src/write/yaml.rs ([ns_plain_one_line], [must_quote], [format_yaml!],
    [write_yaml!], [write]) and the resolution of untagged plain scalars of jaq-fmts/src/read/yaml.rs ([parse_plain_scalar],
    [parse_int], [parse_float], [normalise_float]) together with [Num::from_str_radix] of jaq-json/src/num.rs.
    The YAML scanner itself (saphyr) is third-party: it is modelled by contract only (a plain scalar that satisfies the
    grammar of plain scalars is handed to [resolve] as it is). *)
From Coq Require Import ZArith Bool List Lia.
From Coq Require Import Init.Byte.
From JaqV Require Import Base.Bytes Base.F64 Val.Num Val.Val Val.Arith Json.Write Std.Codec.
Import ListNotations.
Local Open Scope Z_scope.

Definition mem_z (z : Z) (l : list Z) : bool := existsb (Z.eqb z) l.
Definition in_lits (s : bytes) (ls : list bytes) : bool := existsb (bytes_eqb s) ls.

(** ** the grammar of plain scalars on one line *)
Definition c_indicator (c : byte) : bool :=
  mem_z (bz c) [45; 63; 58; 44; 91; 93; 123; 125; 35; 38; 42; 33; 124; 62; 39; 34; 37; 64; 96].
Definition b_char (c : byte) : bool := mem_z (bz c) [10; 13].
Definition is_ascii_control (c : byte) : bool := (bz c <? 32) || (bz c =? 127).
Definition c_printable (c : byte) : bool := Bool.eqb (is_ascii_control c) (mem_z (bz c) [9; 10; 13]).
Definition nb_char (c : byte) : bool := c_printable c && negb (b_char c).
Definition s_white (c : byte) : bool := mem_z (bz c) [32; 9].
Definition ns_char (c : byte) : bool := nb_char c && negb (s_white c).
Definition c_flow_indicator (c : byte) : bool := mem_z (bz c) [44; 91; 93; 123; 125].
Definition ns_plain_safe (c : byte) : bool := ns_char c && negb (c_flow_indicator c).
Definition opt_is (f : byte -> bool) (o : option byte) : bool := match o with Some c => f c | None => false end.
Definition ns_plain_first (c : byte) (next : option byte) : bool :=
  (ns_char c && negb (c_indicator c)) || (mem_z (bz c) [63; 58; 45] && opt_is ns_plain_safe next).
Definition ns_plain_char (prev c : byte) (next : option byte) : bool :=
  (ns_plain_safe c && negb (mem_z (bz c) [58; 35]))
  || (ns_char prev && (bz c =? 35))
  || ((bz c =? 58) && opt_is ns_plain_safe next).

Fixpoint plain_rest (prev : byte) (l : bytes) : bool :=
  match l with
  | [] => true
  | c :: r => (s_white c || ns_plain_char prev c (hd_error r)) && plain_rest c r
  end.

Definition ns_plain_one_line (s : bytes) : bool :=
  match s with
  | [] => false
  | c :: r => ns_plain_first c (hd_error r) && plain_rest c r
  end.

(** ** which strings the writer quotes *)
Definition kw_null := [lit [110;117;108;108]; lit [78;117;108;108]; lit [78;85;76;76]].
Definition kw_on := [lit [111;110]; lit [79;110]; lit [79;78]].
Definition kw_off := [lit [111;102;102]; lit [79;102;102]; lit [79;70;70]].
Definition kw_yes := [lit [121;101;115]; lit [89;101;115]; lit [89;69;83]].
Definition kw_no := [lit [110;111]; lit [78;111]; lit [78;79]].
Definition kw_true := [lit [116;114;117;101]; lit [84;114;117;101]; lit [84;82;85;69]].
Definition kw_false := [lit [102;97;108;115;101]; lit [70;97;108;115;101]; lit [70;65;76;83;69]].
Definition kw_inf := [lit [46;105;110;102]; lit [46;73;110;102]; lit [46;73;78;70]].
Definition kw_nan := [lit [46;110;97;110]; lit [46;78;97;78]; lit [46;78;65;78]].
Definition kws : list bytes := kw_null ++ kw_on ++ kw_off ++ kw_yes ++ kw_no ++ kw_true ++ kw_false ++ kw_inf ++ kw_nan.

Definition y_strip_sign (s : bytes) : bytes :=
  match s with
  | c :: r => if mem_z (bz c) [45; 43] then r else s
  | [] => s
  end.

Definition is_marker_rest (r : bytes) : bool :=
  match r with [] => true | c :: _ => s_white c end.

Definition is_doc_marker (s : bytes) : bool :=
  match s with
  | a :: b :: c :: r =>
      ((bz a =? 45) && (bz b =? 45) && (bz c =? 45) && is_marker_rest r)
      || ((bz a =? 46) && (bz b =? 46) && (bz c =? 46) && is_marker_rest r)
  | _ => false
  end.

Definition is_num_like (u : bytes) : bool :=
  match u with
  | c :: r => is_digit c || ((bz c =? 46) && opt_is is_digit (hd_error r))
  | [] => false
  end.

Definition trailing_space (s : bytes) : bool :=
  match rev s with c :: _ => s_white c | [] => false end.

Definition must_quote (s : bytes) : bool :=
  let u := y_strip_sign s in
  bytes_eqb s (lit [126]) || is_doc_marker s || is_num_like u || in_lits s kws || in_lits u kws
  || trailing_space s || negb (ns_plain_one_line s).

(** ** the writer *)
Definition is_nonempty_coll (v : val) : bool :=
  match v with Arr (_ :: _) | Obj (_ :: _) => true | _ => false end.

Definition sp (p : pp) : bytes := if pp_sep_space p then [chr 32] else [].

Fixpoint yaml_f (n : nat) (p : pp) (level : nat) (v : val) : bytes :=
  match n with
  | O => []
  | S n =>
      let unindented := {| pp_indent := None; pp_sort_keys := pp_sort_keys p; pp_sep_space := pp_sep_space p |} in
      let nested (ind : bytes) (x : val) (pre : bytes) (more : bool) : bytes :=
        repeat_bytes level ind ++ pre ++ (if is_nonempty_coll x then nl else sp p)
        ++ yaml_f n p (S level) x ++ (if more then nl else []) in
      let flow (v : val) : bytes :=
        match v with
        | Arr a => [chr 91] ++ (match a with
                                | [] => []
                                | _ => write_seq p level (map (yaml_f n p (S level)) a)
                                end) ++ [chr 93]
        | Obj o =>
            let o := if pp_sort_keys p then sort_by (fun a b => val_cmp (fst a) (fst b)) o else o in
            [chr 123] ++ (match o with
                          | [] => []
                          | _ => write_seq p level
                                   (map (fun kv => yaml_f n p (S level) (fst kv) ++ [chr 58] ++ sp p
                                                   ++ yaml_f n p (S level) (snd kv)) o)
                          end) ++ [chr 125]
        | _ => write_f 1 true p level v
        end in
      match v with
      | TStr b => if must_quote b then write_utf8 b else b
      | BStr b => lit [33;33;98;105;110;97;114;121;32] ++ b64_encode b
      | Arr (x :: r) =>
          match pp_indent p with
          | Some ind =>
              (fix go (x : val) (r : list val) : bytes :=
                 match r with
                 | [] => nested ind x [chr 45] false
                 | y :: r' => nested ind x [chr 45] true ++ go y r'
                 end) x r
          | None => flow v
          end
      | Obj (kv :: r) =>
          match pp_indent p with
          | Some ind =>
              (fix go (kv : val * val) (r : list (val * val)) : bytes :=
                 let pre := yaml_f n unindented level (fst kv) ++ [chr 58] in
                 match r with
                 | [] => nested ind (snd kv) pre false
                 | kv' :: r' => nested ind (snd kv) pre true ++ go kv' r'
                 end) kv r
          | None => flow v
          end
      | Num (Flt b) =>
          if b =? pos_inf then lit [46;105;110;102]
          else if b =? neg_inf then lit [45;46;105;110;102]
          else if is_nan b then lit [46;110;97;110]
          else flow v
      | _ => flow v
      end
  end.

Definition all_spaces (i : bytes) : bool :=
  match i with [] => false | _ => forallb (fun c => bz c =? 32) i end.

(** [yaml::write]: block style only with an indentation made of spaces *)
Definition yaml_write (p : pp) (level : nat) (v : val) : bytes :=
  let p' := match pp_indent p with
            | Some i => if all_spaces i then p
                        else {| pp_indent := None; pp_sort_keys := pp_sort_keys p; pp_sep_space := pp_sep_space p |}
            | None => p
            end in
  yaml_f (S (depth v)) p' level v.

Definition pp_yaml : pp := {| pp_indent := None; pp_sort_keys := false; pp_sep_space := true |}.
(** the [toyaml] filter *)
Definition to_yaml (v : val) : bytes := yaml_write pp_yaml 0 v.

(** ** the reader's resolution of untagged plain scalars *)
Definition digit_of (radix : Z) (c : byte) : option Z :=
  let z := bz c in
  let d := if (48 <=? z) && (z <=? 57) then Some (z - 48)
           else if (97 <=? z) && (z <=? 122) then Some (z - 87)
           else if (65 <=? z) && (z <=? 90) then Some (z - 55)
           else None in
  match d with Some d => if d <? radix then Some d else None | None => None end.

Fixpoint radix_val (radix acc : Z) (s : bytes) : option Z :=
  match s with
  | [] => Some acc
  | c :: r => match digit_of radix c with Some d => radix_val radix (acc * radix + d) r | None => None end
  end.

(** [Num::from_str_radix]: an optional sign, then at least one digit *)
Definition from_str_radix (s : bytes) (radix : Z) : option num :=
  let '(neg, ds) := match s with
                    | c :: r => if bz c =? 45 then (true, r) else if bz c =? 43 then (false, r) else (false, s)
                    | [] => (false, s)
                    end in
  match ds with
  | [] => None
  | _ => match radix_val radix 0 ds with
         | Some z => Some (int_or_big (if neg then - z else z))
         | None => None
         end
  end.

Definition parse_sign (s : bytes) : option byte * bytes :=
  match s with
  | c :: r => if mem_z (bz c) [43; 45] then (Some c, r) else (None, s)
  | [] => (None, s)
  end.

Definition parse_radix (s : bytes) : option (Z * bytes) :=
  match s with
  | c :: r =>
      if bz c =? 48 then
        match r with
        | d :: r' => if bz d =? 120 then Some (16, r') else if bz d =? 98 then Some (2, r')
                     else if bz d =? 111 then Some (8, r') else None
        | [] => Some (2, s)
        end
      else if (49 <=? bz c) && (bz c <=? 57) then Some (10, s)
      else None
  | [] => None
  end.

Definition is_minus (o : option byte) : bool := match o with Some c => bz c =? 45 | None => false end.

Definition parse_int (s : bytes) : option val :=
  let '(sg, s) := parse_sign s in
  match parse_radix s with
  | Some (radix, s) =>
      match from_str_radix s radix with
      | Some n => Some (Num (if is_minus sg then Num.neg n else n))
      | None => None
      end
  | None => None
  end.

Fixpoint y_span_digits (s : bytes) : bytes * bytes :=
  match s with
  | c :: r => if is_digit c then let '(a, b) := y_span_digits r in (c :: a, b) else ([], s)
  | [] => ([], [])
  end.

Definition normalise_float (sg : option byte) (s : bytes) : option bytes :=
  let sign := if is_minus sg then [chr 45] else [] in
  let '(i, s) := y_span_digits s in
  if negb (negb (opt_is (fun c => bz c =? 48) (hd_error i)) || bytes_eqb i [chr 48]) then None else
  let '(dot, f, s) := match s with
                      | c :: r => if bz c =? 46 then let '(f, s') := y_span_digits r in ([chr 46], f, s') else ([], [], s)
                      | [] => ([], [], s)
                      end in
  match i, f with
  | [], [] => None
  | _, _ =>
      let '(ex, esign, e, s) :=
        match s with
        | c :: r => if mem_z (bz c) [101; 69] then
                      let '(es, r') := parse_sign r in
                      let '(e, s') := y_span_digits r' in
                      ([chr 101], (if is_minus es then [chr 45] else []), e, s')
                    else ([], [], [], s)
        | [] => ([], [], [], s)
        end in
      match ex, e with
      | _ :: _, [] => None
      | _, _ =>
          match s with
          | _ :: _ => None
          | [] =>
              let i := match i with [] => [chr 48] | _ => i end in
              let f := match f, dot with [], _ :: _ => [chr 48] | _, _ => f end in
              Some (sign ++ i ++ dot ++ f ++ ex ++ esign ++ e)
          end
      end
  end.

Definition parse_float (s : bytes) : option val :=
  let '(sg, rest) := parse_sign s in
  if in_lits rest kw_inf then Some (Num (Flt (if is_minus sg then neg_inf else pos_inf)))
  else match normalise_float sg rest with Some t => Some (Num (Dec t)) | None => None end.

(** [parse_plain_scalar] without a tag *)
Definition resolve (s : bytes) : val :=
  if in_lits s kw_null || bytes_eqb s (lit [126]) then Null
  else if in_lits s kw_true then Bool true
  else if in_lits s kw_false then Bool false
  else if in_lits s kw_nan then Num (Flt nan_bits)
  else match parse_int s with
       | Some v => v
       | None => match parse_float s with Some v => v | None => TStr s end
       end.

(** what the scanner accepts as one plain scalar spanning a whole document (contract of the third-party scanner):
    the grammar of plain scalars, no document marker, no blank at either end *)
Definition plain_document (s : bytes) : bool :=
  ns_plain_one_line s && negb (is_doc_marker s) && negb (trailing_space s).
