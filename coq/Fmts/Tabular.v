(** CSV and TSV: mirrors jaq-fmts/src/write/tabular.rs ([Row::try_from], [write_csv], [write_tsv]) and the reader's
    state machine of jaq-fmts/src/read/tabular.rs ([field], [csv_field], [tsv_field], [row], [read_csv], [read_tsv]).
    The reader's one byte of push-back ([Field::next]) is the head of the remaining input here. *)
From Coq Require Import ZArith Bool List Lia.
From Coq Require Import Init.Byte.
From JaqV Require Import Base.Bytes Base.F64 Val.Num Val.Val Val.Err Json.Write Json.Read.
Import ListNotations.
Local Open Scope Z_scope.

Definition comma : byte := zb 44.
Definition tab : byte := zb 9.
Definition dquote : byte := zb 34.
Definition bslash : byte := zb 92.
Definition lf : byte := zb 10.
Definition cr : byte := zb 13.

(** ** writer *)
Definition csv_str (b : bytes) : bytes :=
  [dquote] ++ flat_map (fun c => if bz c =? 34 then [dquote; dquote] else [c]) b ++ [dquote].

Definition tsv_esc1 (c : byte) : bytes :=
  let z := bz c in
  if z =? 10 then [bslash; zb 110]
  else if z =? 13 then [bslash; zb 114]
  else if z =? 9 then [bslash; zb 116]
  else if z =? 92 then [bslash; bslash]
  else if z =? 0 then [bslash; zb 48]
  else [c].
Definition tsv_str (b : bytes) : bytes := flat_map tsv_esc1 b.

(** [write_field!]: [None] = not a table field *)
Definition field_text (fs : bytes -> bytes) (v : val) : option bytes :=
  match v with
  | Null => Some []
  | TStr s => Some (fs s)
  | Bool _ | Num _ => Some (display v)
  | _ => None
  end.

Fixpoint join_fields (delim : byte) (l : list bytes) : bytes :=
  match l with
  | [] => []
  | [x] => x
  | x :: r => x ++ [delim] ++ join_fields delim r
  end.

Fixpoint all_some {A} (l : list (option A)) : option (list A) :=
  match l with
  | [] => Some []
  | Some x :: r => match all_some r with Some r' => Some (x :: r') | None => None end
  | None :: _ => None
  end.

(** [None] = the value is not a row *)
Definition write_row (delim : byte) (fs : bytes -> bytes) (v : val) : option bytes :=
  match v with
  | Arr a => match all_some (map (field_text fs) a) with
             | Some ts => Some (join_fields delim ts)
             | None => None
             end
  | _ => None
  end.
Definition write_csv := write_row comma csv_str.
Definition write_tsv := write_row tab tsv_str.

(** ** reader *)
Definition parse_single_num (s : bytes) : option num :=
  if bytes_eqb s l_infinity then Some (Flt pos_inf)
  else if bytes_eqb s l_nan then Some (Flt nan_bits)
  else match parse_num s with
       | POk n [] => Some n
       | _ => None
       end.

(** [impl From<Field> for Val] *)
Definition val_of_field (bs : bytes) (quote : bool) : val :=
  if quote then TStr bs
  else match bs with
       | [] => Null
       | _ => if bytes_eqb bs l_true then Bool true
              else if bytes_eqb bs l_false then Bool false
              else match parse_single_num bs with Some n => Num n | None => TStr bs end
       end.

(** one pass over the input; [acc] = reversed bytes of the current field, [q] = its quote flag, [fields] = reversed
    fields of the current row, [rows] = reversed rows; [inq] = inside a quoted CSV section *)
Definition fin_field (acc : bytes) (q : bool) : val := val_of_field (rev acc) q.
Definition fin_row (fields : list val) : val := Arr (rev fields).

Fixpoint csv_go (inq : bool) (acc : bytes) (q : bool) (fields rows : list val) (l : bytes) : list val :=
  match l with
  | [] =>
      (* end of input: no row if nothing was read since the last line break *)
      match fields, acc, q with
      | [], [], false => rev rows
      | _, _, _ => rev (fin_row (fin_field acc q :: fields) :: rows)
      end
  | c :: r =>
      if inq then
        if bz c =? 34 then
          match r with
          | c2 :: r2 => if bz c2 =? 34 then csv_go true (dquote :: acc) q fields rows r2
                        else csv_go false acc q fields rows r
          | [] => csv_go false acc q fields rows r
          end
        else csv_go true (c :: acc) q fields rows r
      else if bz c =? 44 then csv_go false [] false (fin_field acc q :: fields) rows r
      else if bz c =? 10 then csv_go false [] false [] (fin_row (fin_field acc q :: fields) :: rows) r
      else if bz c =? 13 then
        match r with
        | c2 :: r2 => if bz c2 =? 10 then csv_go false [] false [] (fin_row (fin_field acc q :: fields) :: rows) r2
                      else csv_go false (cr :: acc) q fields rows r
        | [] => csv_go false (cr :: acc) q fields rows r
        end
      else if bz c =? 34 then csv_go true acc true fields rows r
      else csv_go false (c :: acc) q fields rows r
  end.

Definition read_csv (s : bytes) : list val := csv_go false [] false [] [] s.

Definition tsv_unesc (c : byte) : option byte :=
  let z := bz c in
  if z =? 110 then Some lf else if z =? 116 then Some tab else if z =? 114 then Some cr
  else if z =? 48 then Some (zb 0) else if z =? 92 then Some bslash else None.

Fixpoint tsv_go (acc : bytes) (q : bool) (fields rows : list val) (l : bytes) : list val :=
  match l with
  | [] =>
      match fields, acc, q with
      | [], [], false => rev rows
      | _, _, _ => rev (fin_row (fin_field acc q :: fields) :: rows)
      end
  | c :: r =>
      if bz c =? 9 then tsv_go [] false (fin_field acc q :: fields) rows r
      else if bz c =? 10 then tsv_go [] false [] (fin_row (fin_field acc q :: fields) :: rows) r
      else if bz c =? 13 then
        match r with
        | c2 :: r2 => if bz c2 =? 10 then tsv_go [] false [] (fin_row (fin_field acc q :: fields) :: rows) r2
                      else tsv_go (cr :: acc) q fields rows r
        | [] => tsv_go (cr :: acc) q fields rows r
        end
      else if bz c =? 92 then
        match r with
        | c2 :: r2 => match tsv_unesc c2 with
                      | Some d => tsv_go (d :: acc) true fields rows r2
                      | None => tsv_go (bslash :: acc) true fields rows r
                      end
        | [] => tsv_go acc true fields rows r
        end
      else tsv_go (c :: acc) q fields rows r
  end.

Definition read_tsv (s : bytes) : list val := tsv_go [] false [] [] s.
