(** Indexing, slicing, iteration and the element-update primitives of [impl ValT for Val]
    (jaq-json/src/lib.rs): [index], [range], [values], [key_values], [map_values], [map_index], [map_range]. *)
From Coq Require Import ZArith Bool List Lia.
From Coq Require Import Init.Byte.
From JaqV Require Import Base.F64 Base.Bytes Val.Num Val.Val Val.Utf8 Val.Err.
Import ListNotations.
Local Open Scope Z_scope.

(** [PosUsize]: (non-negative?, magnitude) *)
Definition pos_usize := (bool * Z)%type.

(** [PosUsize::wrap]: absolute position, [None] when a negative position reaches before the start *)
Definition wrap (p : pos_usize) (len : Z) : option Z :=
  let '(pos, m) := p in
  if pos then Some m else if m <=? len then Some (len - m) else None.

(** [abs_bound] *)
Definition abs_bound (i : option pos_usize) (len default : Z) : Z :=
  match i with
  | None => default
  | Some p => Z.min (match wrap p len with Some x => x | None => 0 end) len
  end.

(** [abs_index] *)
Definition abs_index (p : pos_usize) (len : Z) : option Z :=
  match wrap p len with
  | Some i => if i <? len then Some i else None
  | None => None
  end.

(** [skip_take] *)
Definition skip_take (r : option pos_usize * option pos_usize) (len : Z) : Z * Z :=
  let from := abs_bound (fst r) len 0 in
  let upto := abs_bound (snd r) len len in
  (from, Z.max 0 (upto - from)).

(** [skip_take_chars]: byte offsets of character positions *)
Definition char_starts (b : bytes) : list Z :=
  (fix go (cs : list (option Z * bytes)) (off : Z) : list Z :=
     match cs with
     | [] => []
     | (_, ch) :: r => off :: go r (off + Z.of_nat (length ch))
     end) (chunks b) 0.

Definition nth_or {A} (l : list A) (n : Z) (d : A) : A :=
  if n <? 0 then d else nth (Z.to_nat n) l d.

Definition byte_index (b : bytes) (p : pos_usize) : Z :=
  let starts := char_starts b in
  let len := Z.of_nat (length b) in
  let '(pos, c) := p in
  if pos then nth_or starts c len
  else (* chars.nth_back(c - 1); c = 0 cannot occur with pos = false except for -0 which is pos *)
    let n := Z.of_nat (length starts) in
    if (1 <=? c) && (c <=? n) then nth_or starts (n - c) 0 else 0.

Definition skip_take_chars (r : option pos_usize * option pos_usize) (b : bytes) : Z * Z :=
  let from_byte := match fst r with None => 0 | Some p => byte_index b p end in
  let upto_byte := match snd r with None => Z.of_nat (length b) | Some p => byte_index b p end in
  (from_byte, Z.max 0 (upto_byte - from_byte)).

Definition slice {A} (l : list A) (skip take : Z) : list A :=
  firstn (Z.to_nat take) (skipn (Z.to_nat skip) l).

(** [Val::as_pos_usize] *)
Definition val_as_pos_usize (v : val) : res pos_usize :=
  match v with
  | Num n => match as_pos_usize n with Some p => Ok p | None => Err (ETyp v TInt) end
  | _ => Err (ETyp v TInt)
  end.

(** [Val::range_int]: [null] bounds are open *)
Definition range_bound (i : option val) : res (option pos_usize) :=
  match i with
  | None | Some Null => Ok None
  | Some v => rmap Some (val_as_pos_usize v)
  end.

Definition range_int (r : option val * option val) : res (option pos_usize * option pos_usize) :=
  rbind (range_bound (fst r)) (fun a => rbind (range_bound (snd r)) (fun b => Ok (a, b))).

(** [ValT::range] *)
Definition vrange (v : val) (r : option val * option val) : res val :=
  match v with
  | BStr b => rmap (fun ri => let '(s, t) := skip_take ri (Z.of_nat (length b)) in BStr (slice b s t)) (range_int r)
  | TStr b => rmap (fun ri => let '(s, t) := skip_take_chars ri b in TStr (slice b s t)) (range_int r)
  | Arr a => rmap (fun ri => let '(s, t) := skip_take ri (Z.of_nat (length a)) in Arr (slice a s t)) (range_int r)
  | _ => Err (ETyp v TRange)
  end.

Definition key_start : val := TStr (of_ascii [115; 116; 97; 114; 116]).
Definition key_end : val := TStr (of_ascii [101; 110; 100]).

Definition is_seq (v : val) : bool :=
  match v with BStr _ | TStr _ | Arr _ => true | _ => false end.

(** windows of [x] equal (by [==]) to [y]: positions *)
Fixpoint list_eqb_val (a b : list val) : bool :=
  match a, b with
  | [], [] => true
  | x :: a, y :: b => val_eqb x y && list_eqb_val a b
  | _, _ => false
  end.

Fixpoint window_indices (x y : list val) (i : Z) (fuel : nat) : list Z :=
  match fuel with
  | O => []
  | S fuel =>
      if (length x <? length y)%nat then []
      else (if list_eqb_val (firstn (length y) x) y then [i] else [])
           ++ match x with [] => [] | _ :: r => window_indices r y (i + 1) fuel end
  end.

(** [Val::index_opt] *)
Definition index_opt (v : val) (i : val) : res (option val) :=
  match v, i with
  | Null, _ => Ok None
  | BStr a, Num ((Int _ | Big _) as n) =>
      Ok (match as_pos_usize n with
          | Some p => match abs_index p (Z.of_nat (length a)) with
                      | Some k => option_map (fun b => vusize (bz b)) (nth_error a (Z.to_nat k))
                      | None => None
                      end
          | None => None
          end)
  | Arr a, Num ((Int _ | Big _) as n) =>
      Ok (match as_pos_usize n with
          | Some p => match abs_index p (Z.of_nat (length a)) with
                      | Some k => nth_error a (Z.to_nat k)
                      | None => None
                      end
          | None => None
          end)
  | Arr x, Arr y =>
      match y with
      | [] => Ok (Some (Arr []))
      | _ => Ok (Some (Arr (map vusize (window_indices x y 0 (S (length x))))))
      end
  | Obj o, _ => Ok (get o i)
  | (BStr _ | TStr _ | Arr _), Obj o => rmap Some (vrange v (get o key_start, get o key_end))
  | _, _ => Err (EIndex v i)
  end.

(** [ValT::index] *)
Definition vindex (v i : val) : res val :=
  rmap (fun o => match o with Some x => x | None => Null end) (index_opt v i).

(** [ValT::values], [ValT::key_values] *)
Definition vvalues (v : val) : res (list val) :=
  match v with
  | Arr a => Ok a
  | Obj o => Ok (map snd o)
  | _ => Err (ETyp v TIter)
  end.

Fixpoint enumerate_from {A} (i : Z) (l : list A) : list (Z * A) :=
  match l with [] => [] | x :: r => (i, x) :: enumerate_from (i + 1) r end.

Definition vkey_values (v : val) : res (list (val * val)) :=
  match v with
  | Arr a => Ok (map (fun p => (vint (fst p), snd p)) (enumerate_from 0 a))
  | Obj o => Ok o
  | _ => Err (ETyp v TIter)
  end.

(** [Val::from(Range)]: the path component of a slice *)
Definition range_val (from upto : option val) : val :=
  from_map ((match from with Some x => [(key_start, x)] | None => [] end)
            ++ (match upto with Some x => [(key_end, x)] | None => [] end)).

(** [bytes_splice] / [Vec::splice] *)
Definition splice {A} (l : list A) (skip take : Z) (repl : list A) : list A :=
  firstn (Z.to_nat skip) l ++ repl ++ skipn (Z.to_nat (skip + take)) l.

(** [Val::length] of jaq-json/src/funs.rs; [None] = panic *)
Definition vlength (v : val) : option (res val) :=
  match v with
  | Null => Some (Ok (vusize 0))
  | Num n => option_map (fun x => Ok (Num x)) (length_num n)
  | TStr s => Some (Ok (vusize (Z.of_nat (length (chunks (to_lossy s))))))
  | BStr b => Some (Ok (vusize (Z.of_nat (length b))))
  | Arr a => Some (Ok (vusize (Z.of_nat (length a))))
  | Obj o => Some (Ok (vusize (Z.of_nat (length o))))
  | Bool _ => Some (Err (EOther 1))
  end.
