(** Values: mirrors jaq-json/src/lib.rs ([Val], [impl Ord / PartialEq / Hash for Val], [Map]). *)
From Coq Require Import ZArith Bool List Lia.
From Coq Require Import Init.Byte.
From JaqV Require Import Base.F64 Base.Bytes Val.Num.
Import ListNotations.
Local Open Scope Z_scope.

Inductive val :=
| Null
| Bool (b : bool)
| Num (n : num)
| BStr (b : bytes)
| TStr (b : bytes)                 (* may hold invalid UTF-8 *)
| Arr (a : list val)
| Obj (o : list (val * val)).      (* IndexMap: insertion order *)

Definition obj := list (val * val).

Fixpoint depth (v : val) : nat :=
  match v with
  | Arr a => S (fold_right (fun x m => Nat.max (depth x) m) O a)
  | Obj o => S (fold_right (fun kv m => match kv with (k, x) => Nat.max (Nat.max (depth k) (depth x)) m end) O o)
  | _ => O
  end.

Definition rank (v : val) : Z :=
  match v with
  | Null => 0 | Bool _ => 1 | Num _ => 2 | BStr _ | TStr _ => 3 | Arr _ => 4 | Obj _ => 5
  end.

Definition bool_cmp (a b : bool) : comparison :=
  match a, b with
  | false, true => Lt | true, false => Gt | _, _ => Eq
  end.

Fixpoint lex_cmp {A} (c : A -> A -> comparison) (x y : list A) : comparison :=
  match x, y with
  | [], [] => Eq
  | [], _ :: _ => Lt
  | _ :: _, [] => Gt
  | a :: x, b :: y => match c a b with Eq => lex_cmp c x y | r => r end
  end.

(** stable insertion sort: the model of Rust's stable [sort_by] / [sort_by_key] *)
Fixpoint insert_by {A} (c : A -> A -> comparison) (a : A) (l : list A) : list A :=
  match l with
  | [] => [a]
  | b :: r => match c a b with Gt => b :: insert_by c a r | _ => a :: l end
  end.

Definition sort_by {A} (c : A -> A -> comparison) (l : list A) : list A :=
  fold_right (insert_by c) [] l.

(** [impl Ord for Val]; fuel = nesting depth *)
Fixpoint cmp_f (n : nat) (x y : val) : comparison :=
  match n with
  | O => Eq
  | S n =>
      match x, y with
      | Null, Null => Eq
      | Bool a, Bool b => bool_cmp a b
      | Num a, Num b => num_cmp a b
      | (BStr a | TStr a), (BStr b | TStr b) => bytes_cmp a b
      | Arr a, Arr b => lex_cmp (cmp_f n) a b
      | Obj a, Obj b =>
          match a, b with
          | [], [] => Eq
          | [], _ => Lt
          | _, [] => Gt
          | _, _ =>
              let l := sort_by (fun p q => cmp_f n (fst p) (fst q)) a in
              let r := sort_by (fun p q => cmp_f n (fst p) (fst q)) b in
              match lex_cmp (cmp_f n) (map fst l) (map fst r) with
              | Eq => lex_cmp (cmp_f n) (map snd l) (map snd r)
              | c => c
              end
          end
      | _, _ => Z.compare (rank x) (rank y)
      end
  end.

Definition val_cmp (x y : val) : comparison :=
  cmp_f (S (Nat.max (depth x) (depth y))) x y.

Definition val_ltb x y := match val_cmp x y with Lt => true | _ => false end.
Definition val_leb x y := match val_cmp x y with Gt => false | _ => true end.

(** [impl Hash for Val]: the sequence of writes *)
Fixpoint hash_f (n : nat) (v : val) : list hw :=
  match n with
  | O => []
  | S n =>
      match v with
      | Num x => hash_num x
      | Null => [W8 2]
      | Bool b => [W8 (if b then 3 else 4)]
      | BStr b | TStr b => [W8 5; WBytes b]
      | Arr a => W8 6 :: WLen (Z.of_nat (length a)) :: flat_map (hash_f n) a
      | Obj o =>
          let kvs := sort_by (fun p q => val_cmp (fst p) (fst q)) o in
          W8 7 :: flat_map (fun kv => hash_f n (fst kv) ++ hash_f n (snd kv)) kvs
      end
  end.

Definition hash_writes (v : val) : list hw := hash_f (S (depth v)) v.

Definition hw_eqb (a b : hw) : bool :=
  match a, b with
  | W8 x, W8 y | WF x, WF y | WBig x, WBig y | WLen x, WLen y => x =? y
  | WBytes x, WBytes y => bytes_eqb x y
  | _, _ => false
  end.

Fixpoint hws_eqb (a b : list hw) : bool :=
  match a, b with
  | [], [] => true
  | x :: a, y :: b => hw_eqb x y && hws_eqb a b
  | _, _ => false
  end.

(** ** IndexMap interface and [impl PartialEq for Val] *)
Section MAP.
  Variable eqv : val -> val -> bool.

  (** hash-table probe: first stored key with equal hash and [==] *)
  Fixpoint find_hashed (o : obj) (k : val) : option val :=
    match o with
    | [] => None
    | (k', x) :: r =>
        if hws_eqb (hash_writes k) (hash_writes k') && eqv k k' then Some x else find_hashed r k
    end.

  (** [IndexMap::get]: single-entry maps compare without hashing *)
  Definition get_with (o : obj) (k : val) : option val :=
    match o with
    | [] => None
    | [(k', x)] => if eqv k k' then Some x else None
    | _ => find_hashed o k
    end.

  Fixpoint list_eq_with (a b : list val) : bool :=
    match a, b with
    | [], [] => true
    | x :: a, y :: b => eqv x y && list_eq_with a b
    | _, _ => false
    end.
End MAP.

Fixpoint eq_f (n : nat) (x y : val) : bool :=
  match n with
  | O => false
  | S n =>
      match x, y with
      | Null, Null => true
      | Bool a, Bool b => Bool.eqb a b
      | Num a, Num b => num_eqb a b
      | (BStr a | TStr a), (BStr b | TStr b) => bytes_eqb a b
      | Arr a, Arr b => list_eq_with (eq_f n) a b
      | Obj a, Obj b =>
          (Nat.eqb (length a) (length b)) &&
          forallb (fun kv => match get_with (eq_f n) b (fst kv) with
                             | Some x => eq_f n (snd kv) x
                             | None => false
                             end) a
      | _, _ => false
      end
  end.

Definition val_eqb (x y : val) : bool := eq_f (S (Nat.max (depth x) (depth y))) x y.

Definition get (o : obj) (k : val) : option val := get_with val_eqb o k.

(** [IndexMap::insert]: an existing ([==], same hash) key keeps its position and its key *)
Fixpoint insert (o : obj) (k x : val) : obj :=
  match o with
  | [] => [(k, x)]
  | (k', x') :: r =>
      if hws_eqb (hash_writes k) (hash_writes k') && val_eqb k k' then (k', x) :: r
      else (k', x') :: insert r k x
  end.

Definition extend (l r : obj) : obj := fold_left (fun o kv => insert o (fst kv) (snd kv)) r l.

Definition from_map (kvs : list (val * val)) : val := Obj (extend [] kvs).

(** [swap_remove]: the last entry moves into the hole *)
Fixpoint remove_at {A} (i : nat) (l : list A) : list A :=
  match i, l with
  | _, [] => []
  | O, _ :: r => r
  | S i, a :: r => a :: remove_at i r
  end.

Fixpoint replace_at {A} (i : nat) (a : A) (l : list A) : list A :=
  match i, l with
  | _, [] => []
  | O, _ :: r => a :: r
  | S i, b :: r => b :: replace_at i a r
  end.

Definition swap_remove_at {A} (i : nat) (l : list A) : list A :=
  match rev l with
  | [] => []
  | last :: _ =>
      if Nat.eqb (S i) (length l) then removelast l
      else replace_at i last (removelast l)
  end.

Fixpoint find_index (o : obj) (k : val) (i : nat) : option nat :=
  match o with
  | [] => None
  | (k', _) :: r =>
      if hws_eqb (hash_writes k) (hash_writes k') && val_eqb k k' then Some i else find_index r k (S i)
  end.

Definition as_bool (v : val) : bool :=
  match v with Null | Bool false => false | _ => true end.

Definition vint (z : Z) : val := Num (Int z).
Definition vusize (z : Z) : val := Num (from_integral z).
Definition vstr (s : list Z) : val := TStr (of_ascii s).

(** well-formedness: machine integers in range, floats are 64-bit patterns *)
Fixpoint wf (v : val) : bool :=
  match v with
  | Num n => num_is_wf n
  | Arr a => forallb wf a
  | Obj o => forallb (fun kv => match kv with (k, x) => wf k && wf x end) o
  | _ => true
  end.
