(** UTF-8 decoding as bstr does it ("substitution of maximal subparts"), and encoding. *)
From Coq Require Import ZArith Bool List Lia.
From Coq Require Import Init.Byte.
From JaqV Require Import Base.Bytes.
Import ListNotations.
Local Open Scope Z_scope.

Definition in_rng (lo hi : Z) (b : byte) : bool := (lo <=? bz b) && (bz b <=? hi).
Definition is_cont (b : byte) : bool := in_rng 128 191 b.
Definition cbits (b : byte) : Z := bz b - 128.

(** decode one character: [(Some cp, n)] or [(None, n)] for an invalid sequence of [n] bytes; [n >= 1] *)
Definition decode1 (s : bytes) : option Z * nat :=
  match s with
  | [] => (None, O)
  | b0 :: r =>
      let z0 := bz b0 in
      if z0 <? 128 then (Some z0, 1%nat)
      else if in_rng 194 223 b0 then
        match r with
        | b1 :: _ => if is_cont b1 then (Some ((z0 - 192) * 64 + cbits b1), 2%nat) else (None, 1%nat)
        | [] => (None, 1%nat)
        end
      else if in_rng 224 239 b0 then
        let lo := if z0 =? 224 then 160 else 128 in
        let hi := if z0 =? 237 then 159 else 191 in
        match r with
        | b1 :: r1 =>
            if in_rng lo hi b1 then
              match r1 with
              | b2 :: _ => if is_cont b2 then (Some ((z0 - 224) * 4096 + cbits b1 * 64 + cbits b2), 3%nat)
                           else (None, 2%nat)
              | [] => (None, 2%nat)
              end
            else (None, 1%nat)
        | [] => (None, 1%nat)
        end
      else if in_rng 240 244 b0 then
        let lo := if z0 =? 240 then 144 else 128 in
        let hi := if z0 =? 244 then 143 else 191 in
        match r with
        | b1 :: r1 =>
            if in_rng lo hi b1 then
              match r1 with
              | b2 :: r2 =>
                  if is_cont b2 then
                    match r2 with
                    | b3 :: _ => if is_cont b3 then
                                   (Some ((z0 - 240) * 262144 + cbits b1 * 4096 + cbits b2 * 64 + cbits b3), 4%nat)
                                 else (None, 3%nat)
                    | [] => (None, 3%nat)
                    end
                  else (None, 2%nat)
              | [] => (None, 2%nat)
              end
            else (None, 1%nat)
        | [] => (None, 1%nat)
        end
      else (None, 1%nat)
  end.

(** [char_indices]: the chunks (as byte lists) with their decoded character; fuel = length *)
Fixpoint chunks_f (fuel : nat) (s : bytes) : list (option Z * bytes) :=
  match fuel with
  | O => []
  | S fuel =>
      match s with
      | [] => []
      | _ => let '(c, n) := decode1 s in
             let n := Nat.max n 1 in
             (c, firstn n s) :: chunks_f fuel (skipn n s)
      end
  end.

Definition chunks (s : bytes) : list (option Z * bytes) := chunks_f (length s) s.

Definition char_count (s : bytes) : Z := Z.of_nat (length (chunks s)).

(** encode a Unicode scalar value *)
Definition encode1 (c : Z) : bytes :=
  if c <? 128 then [zb c]
  else if c <? 2048 then [zb (192 + c / 64); zb (128 + c mod 64)]
  else if c <? 65536 then [zb (224 + c / 4096); zb (128 + (c / 64) mod 64); zb (128 + c mod 64)]
  else [zb (240 + c / 262144); zb (128 + (c / 4096) mod 64); zb (128 + (c / 64) mod 64); zb (128 + c mod 64)].

Definition is_scalar (c : Z) : bool :=
  ((0 <=? c) && (c <? 55296)) || ((57344 <=? c) && (c <? 1114112)).

Definition valid_utf8 (s : bytes) : bool :=
  forallb (fun p => match fst p with Some _ => true | None => false end) (chunks s).

Definition replacement : bytes := [zb 239; zb 191; zb 189].

(** lossy text: invalid sequences become U+FFFD *)
Definition to_lossy (s : bytes) : bytes :=
  flat_map (fun p => match fst p with Some _ => snd p | None => replacement end) (chunks s).
