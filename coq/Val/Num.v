(** Numbers: mirrors jaq-json/src/num.rs. *)
From Coq Require Import ZArith Bool List Lia.
From Coq Require Import Init.Byte.
From JaqV Require Import Base.F64 Base.Bytes.
Import ListNotations.
Local Open Scope Z_scope.

Inductive num :=
| Int (i : Z)        (* isize; invariant: in_isize i *)
| Big (z : Z)        (* num_bigint::BigInt, not normalised: [Big 3] is reachable *)
| Flt (b : Z)        (* f64 as its bit pattern *)
| Dec (s : bytes).   (* decimal literal, text kept *)

Definition isize_min : Z := - two63.
Definition isize_max : Z := two63 - 1.
Definition usize_max : Z := two64 - 1.
Definition in_isize (z : Z) : bool := (isize_min <=? z) && (z <=? isize_max).

(** [int_or_big(x.checked_op(y), ..)]: machine integer when it fits, else the exact big integer *)
Definition int_or_big (z : Z) : num := if in_isize z then Int z else Big z.

(** [Num::from_integral] *)
Definition from_integral (z : Z) : num := int_or_big z.

(** ** decimal text -> float ([str::parse::<f64>], NaN on failure) *)

Fixpoint span_digits (s : bytes) : bytes * bytes :=
  match s with
  | d :: r => if is_digit d then let '(a, b) := span_digits r in (d :: a, b) else ([], s)
  | [] => ([], [])
  end.

Definition strip_sign (s : bytes) : bool * bytes :=
  match s with
  | c :: r => if bz c =? 45 then (true, r) else if bz c =? 43 then (false, r) else (false, s)
  | [] => (false, [])
  end.

Definition parse_dec (s : bytes) : option (bool * Z * Z) :=
  let '(neg, s) := strip_sign s in
  let '(ip, s) := span_digits s in
  let '(fp, s) := match s with
                  | c :: r => if bz c =? 46 then span_digits r else ([], s)
                  | [] => ([], [])
                  end in
  match ip ++ fp with
  | [] => None
  | ds =>
      let m := digits_val ds in
      let fl := Z.of_nat (length fp) in
      match s with
      | [] => Some (neg, m, - fl)
      | c :: r =>
          if (bz c =? 101) || (bz c =? 69) then
            let '(eneg, r) := strip_sign r in
            let '(ed, rest) := span_digits r in
            match ed, rest with
            | _ :: _, [] =>
                let e := digits_val ed in
                Some (neg, m, (if eneg then - e else e) - fl)
            | _, _ => None
            end
          else None
      end
  end.

Definition dec_to_f64 (s : bytes) : Z :=
  match parse_dec s with
  | Some (neg, m, e10) => of_dec neg m e10 (Z.of_nat (length (nat_digits m)))
  | None => nan_bits
  end.

(** [Num::as_f64] (also: the conversion every mixed operation applies) *)
Definition to_f64 (n : num) : Z :=
  match n with
  | Int i => of_Z i
  | Big z => of_Z z
  | Flt b => b
  | Dec s => dec_to_f64 s
  end.

Definition is_int (n : num) : bool :=
  match n with Int _ | Big _ => true | _ => false end.

(** exact integer value of an integer number *)
Definition int_val (n : num) : option Z :=
  match n with Int i => Some i | Big z => Some z | _ => None end.

(** [Num::as_isize] *)
Definition as_isize (n : num) : option Z :=
  match n with
  | Int i => Some i
  | Big z => if in_isize z then Some z else None
  | _ => None
  end.

(** [Num::as_pos_usize]: sign (true = non-negative) and magnitude, saturated at [usize::MAX] *)
Definition as_pos_usize (n : num) : option (bool * Z) :=
  match n with
  | Int i => Some (0 <=? i, Z.abs i)
  | Big z => Some (0 <=? z, Z.min (Z.abs z) usize_max)
  | _ => None
  end.

(** ** parsing of integer literals: [Num::from_str_radix(s, 10)] and [Num::from_str] *)
Definition parse_int_dec (s : bytes) : option Z :=
  let '(neg, ds) := strip_sign s in
  match ds with
  | [] => None
  | _ => if all_digits ds then Some (if neg then - digits_val ds else digits_val ds) else None
  end.

Definition from_str (s : bytes) : num :=
  match parse_int_dec s with
  | Some z => int_or_big z
  | None => Dec s
  end.

(** ** arithmetic: impl Add/Sub/Mul/Div/Rem/Neg for Num *)

Definition add (x y : num) : num :=
  match x, y with
  | Int a, Int b => int_or_big (a + b)
  | Int a, Big b | Big b, Int a => Big (a + b)
  | Big a, Big b => Big (a + b)
  | _, _ => Flt (fadd (to_f64 x) (to_f64 y))
  end.

Definition sub (x y : num) : num :=
  match x, y with
  | Int a, Int b => int_or_big (a - b)
  | Int a, Big b => Big (a - b)
  | Big a, Int b => Big (a - b)
  | Big a, Big b => Big (a - b)
  | _, _ => Flt (fsub (to_f64 x) (to_f64 y))
  end.

Definition mul (x y : num) : num :=
  match x, y with
  | Int a, Int b => int_or_big (a * b)
  | Int a, Big b | Big b, Int a => Big (a * b)
  | Big a, Big b => Big (a * b)
  | _, _ => Flt (fmul (to_f64 x) (to_f64 y))
  end.

Definition div (x y : num) : num := Flt (fdiv (to_f64 x) (to_f64 y)).

(** [rem]: the caller ([Val::rem]) excludes an integer zero divisor when both are integers *)
Definition rem (x y : num) : num :=
  match x, y with
  | Int a, Int b => Int (Z.rem a b)
  | Big a, Big b | Int a, Big b | Big a, Int b => Big (Z.rem a b)
  | _, _ => Flt (frem (to_f64 x) (to_f64 y))
  end.

Definition neg (x : num) : num :=
  match x with
  | Int a => int_or_big (- a)
  | Big a => Big (- a)
  | Flt b => Flt (fneg b)
  | Dec s => match s with
             | c :: r => if bz c =? 45 then Dec r else Dec (x2d :: s)
             | [] => Dec [x2d]
             end
  end.

(** [Num::length] (absolute value); never [None]: |isize::MIN| becomes a big integer *)
Definition length_num (x : num) : option num :=
  match x with
  | Int i => Some (int_or_big (Z.abs i))
  | Big z => Some (Big (Z.abs z))
  | Flt b => Some (Flt (fabs b))
  | Dec s => Some (Flt (fabs (dec_to_f64 s)))
  end.

(** ** equality, order *)

Definition num_eqb (x y : num) : bool :=
  match x, y with
  | Int a, Int b => a =? b
  | Big a, Big b => a =? b
  | Int a, Big b | Big b, Int a => a =? b
  | Int a, Flt f | Flt f, Int a => is_finite f && float_eq (of_Z a) f
  | Big a, Flt f | Flt f, Big a => is_finite f && float_eq (of_Z a) f
  | Flt a, Flt b => float_eq a b
  | Dec s, Dec t => float_eq (dec_to_f64 s) (dec_to_f64 t)
  | Dec s, Int a | Int a, Dec s => let f := dec_to_f64 s in is_finite f && float_eq (of_Z a) f
  | Dec s, Big a | Big a, Dec s => let f := dec_to_f64 s in is_finite f && float_eq (of_Z a) f
  | Dec s, Flt b => float_eq (dec_to_f64 s) b
  | Flt b, Dec s => float_eq b (dec_to_f64 s)
  end.

(** [big_float_cmp]: an integer too large for f64 still lies strictly inside (-inf, inf) *)
Definition big_float_cmp (a : Z) (f : Z) : comparison :=
  let l := of_Z a in
  if is_inf l && (l =? f) then (if l =? pos_inf then Lt else Gt) else float_cmp l f.

(** order with the integer/float cases of [impl Ord for Num]; [Dec] converts first *)
Definition num_cmp_nd (x y : num) : comparison :=
  match x, y with
  | Int a, Int b | Int a, Big b | Big a, Int b | Big a, Big b => Z.compare a b
  | Int a, Flt f => float_cmp (of_Z a) f
  | Big a, Flt f => big_float_cmp a f
  | Flt f, Int a => float_cmp f (of_Z a)
  | Flt f, Big a => CompOpp (big_float_cmp a f)
  | Flt a, Flt b => float_cmp a b
  | _, _ => Eq (* unreachable: no Dec *)
  end.

Definition undec (x : num) : num :=
  match x with Dec s => Flt (dec_to_f64 s) | _ => x end.

Definition num_cmp (x y : num) : comparison := num_cmp_nd (undec x) (undec y).

(** ** hashing: the sequence of writes [impl Hash for Num] feeds the hasher *)
Inductive hw :=
| W8 (n : Z)           (* write_u8 *)
| WF (bits : Z)        (* [u8; 8]::hash of f.to_ne_bytes() *)
| WBig (z : Z)         (* BigInt::hash *)
| WBytes (b : bytes)   (* Bytes::hash *)
| WLen (n : Z).        (* length prefix of Vec::hash *)

(** zero is hashed canonically: [0.0] and [-0.0] are [==] *)
Definition hash_float (f : Z) : list hw :=
  if is_finite f then [W8 0; WF (if is_zero f then pos_zero else f)] else [W8 0].

Definition hash_num (x : num) : list hw :=
  match x with
  | Int i => hash_float (of_Z i)
  | Flt f => hash_float f
  | Dec s => hash_float (dec_to_f64 s)
  | Big z => let f := of_Z z in
             if is_finite f then hash_float f else [W8 1; WBig z]
  end.

(** ** display: integers *)
Definition num_is_wf (x : num) : bool :=
  match x with
  | Int i => in_isize i
  | Flt b => valid_bits b
  | _ => true
  end.
