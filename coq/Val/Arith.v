(** impl Add/Sub/Mul/Div/Rem/Neg for Val (jaq-json/src/lib.rs). *)
From Coq Require Import ZArith Bool List Lia.
From Coq Require Import Init.Byte.
From JaqV Require Import Base.F64 Base.Bytes Val.Num Val.Val Val.Utf8 Val.Err.
Import ListNotations.
Local Open Scope Z_scope.

(** [obj_merge]; fuel = depth of the right operand *)
Fixpoint obj_merge_f (n : nat) (l r : obj) : obj :=
  match n with
  | O => l
  | S n =>
      fold_left (fun l kv =>
        let '(k, v) := kv in
        match find_index l k O with
        | Some i =>
            match nth_error l i, v with
            | Some (k', Obj l'), Obj r' => replace_at i (k', Obj (obj_merge_f n l' r')) l
            | Some (k', _), _ => replace_at i (k', v) l
            | None, _ => l
            end
        | None => l ++ [(k, v)]
        end) r l
  end.

Definition obj_merge (l r : obj) : obj := obj_merge_f (S (depth (Obj r))) l r.

Definition bigint_to_int_saturated (z : Z) : Z :=
  if in_isize z then z else if z <? 0 then isize_min else isize_max.

Fixpoint repeat_bytes (n : nat) (s : bytes) : bytes :=
  match n with O => [] | S n => s ++ repeat_bytes n s end.

(** bound on modelled string repetition; beyond it the model declines (allocation-sized results) *)
Definition repeat_limit : Z := 1048576.

Definition str_repeat (mk : bytes -> val) (s : bytes) (i : Z) : option val :=
  if 0 <? i then
    if i * Z.of_nat (length s) <=? repeat_limit then Some (mk (repeat_bytes (Z.to_nat i) s)) else None
  else Some Null.

(** does [p] occur as a prefix of [s]? *)
Fixpoint is_prefix (p s : bytes) : bool :=
  match p, s with
  | [], _ => true
  | a :: p, b :: s => byte_eqb a b && is_prefix p s
  | _ :: _, [] => false
  end.

(** [split_str]: non-overlapping occurrences from the left, empty pieces kept; [sep] non-empty *)
Fixpoint split_f (fuel : nat) (sep s cur : bytes) : list bytes :=
  match fuel with
  | O => [rev cur]
  | S fuel =>
      match s with
      | [] => [rev cur]
      | c :: r =>
          if is_prefix sep s then rev cur :: split_f fuel sep (skipn (length sep) s) []
          else split_f fuel sep r (c :: cur)
      end
  end.

(** [split] of lib.rs: nothing for an empty string, characters for an empty separator *)
Definition split (s sep : bytes) : list bytes :=
  match s, sep with
  | [], _ => []
  | _, [] => map snd (chunks s)
  | _, _ => split_f (S (length s)) sep s []
  end.

Definition vadd (x y : val) : res val :=
  match x, y with
  | Null, v | v, Null => Ok v
  | Num a, Num b => Ok (Num (Num.add a b))
  | BStr a, BStr b => Ok (BStr (a ++ b))
  | TStr a, TStr b => Ok (TStr (a ++ b))
  | Arr a, Arr b => Ok (Arr (a ++ b))
  | Obj a, Obj b => Ok (Obj (extend a b))
  | _, _ => Err (EMath x Add y)
  end.

Definition vsub (x y : val) : res val :=
  match x, y with
  | Num a, Num b => Ok (Num (Num.sub a b))
  | Arr a, Arr b =>
      Ok (Arr (filter (fun v => negb (existsb (fun w => match val_cmp v w with Eq => true | _ => false end) b)) a))
  | _, _ => Err (EMath x Sub y)
  end.

(** [None]: result too large for the model (see [repeat_limit]) *)
Definition vmul (x y : val) : option (res val) :=
  match x, y with
  | Num a, Num b => Some (Ok (Num (Num.mul a b)))
  | BStr s, Num (Big i) | Num (Big i), BStr s =>
      option_map Ok (str_repeat BStr s (bigint_to_int_saturated i))
  | TStr s, Num (Big i) | Num (Big i), TStr s =>
      option_map Ok (str_repeat TStr s (bigint_to_int_saturated i))
  | BStr s, Num (Int i) | Num (Int i), BStr s => option_map Ok (str_repeat BStr s i)
  | TStr s, Num (Int i) | Num (Int i), TStr s => option_map Ok (str_repeat TStr s i)
  | Obj a, Obj b => Some (Ok (Obj (obj_merge a b)))
  | _, _ => Some (Err (EMath x Mul y))
  end.

Definition vdiv (x y : val) : res val :=
  match x, y with
  | Num a, Num b => Ok (Num (Num.div a b))
  | TStr a, TStr b => Ok (Arr (map TStr (split a b)))
  | BStr a, BStr b => Ok (Arr (map BStr (split a b)))
  | _, _ => Err (EMath x Div y)
  end.

Definition vrem (x y : val) : res val :=
  match x, y with
  | Num a, Num b =>
      if is_int a && is_int b && num_eqb b (Int 0) then Err (EMath x Rem y)
      else Ok (Num (Num.rem a b))
  | _, _ => Err (EMath x Rem y)
  end.

Definition vneg (x : val) : res val :=
  match x with
  | Num a => Ok (Num (Num.neg a))
  | _ => Err (ETyp x TNum)
  end.

Definition math_run (op : mathop) (x y : val) : option (res val) :=
  match op with
  | Add => Some (vadd x y)
  | Sub => Some (vsub x y)
  | Mul => vmul x y
  | Div => Some (vdiv x y)
  | Rem => Some (vrem x y)
  end.

Definition cmp_run (op : cmpop) (x y : val) : bool :=
  match op with
  | Lt_ => val_ltb x y
  | Le_ => val_leb x y
  | Gt_ => match val_cmp x y with Gt => true | _ => false end
  | Ge_ => match val_cmp x y with Lt => false | _ => true end
  | Eq_ => val_eqb x y
  | Ne_ => negb (val_eqb x y)
  end.
