(** Run-time errors: mirrors the constructors of jaq_core::Error used by jaq-json / jaq-core. *)
From Coq Require Import ZArith List.
From JaqV Require Import Base.Bytes Val.Num Val.Val.

Inductive mathop := Add | Sub | Mul | Div | Rem.
Inductive cmpop := Lt_ | Le_ | Gt_ | Ge_ | Eq_ | Ne_.

Inductive typ := TInt | TNum | TStrT | TArr | TIter | TRange.

Inductive err :=
| EUser (v : val)                      (* Error::new(v), Error::str(..) *)
| ETyp (v : val) (t : typ)             (* "cannot use v as t" *)
| EMath (l : val) (op : mathop) (r : val)
| EIndex (l r : val)
| EPathExpr (v : val)
| EOob (i : val)                       (* "index i out of bounds" *)
| EOther (tag : Z).                    (* errors of natives, by site *)

Inductive res (A : Type) := Ok (a : A) | Err (e : err).
Arguments Ok {A} a.
Arguments Err {A} e.

Definition rbind {A B} (r : res A) (f : A -> res B) : res B :=
  match r with Ok a => f a | Err e => Err e end.
Definition rmap {A B} (f : A -> B) (r : res A) : res B :=
  match r with Ok a => Ok (f a) | Err e => Err e end.
