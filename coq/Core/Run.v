(** The interpreter: mirrors jaq-core/src/filter.rs ([Id::run], [Id::paths], [Id::update],
    [bind_vars], [bind_pat(s)], [run_and_bind], [fold_run], [fold_update], [recurse_run],
    [recurse_update]), path.rs ([Path::run/paths/update], [explode]) and the element-update
    primitives of [impl ValT for Val].  Tail-call optimisation is not represented (call types are
    ignored): it must be invisible, which the correspondence check and C04 look at. *)
From Coq Require Import ZArith Bool List Lia.
From JaqV Require Import Base.Bytes Base.Stream Val.Num Val.Val Val.Err Val.Arith Val.Index
  Core.Syntax Core.Natives.
Import ListNotations.

Inductive bind :=
| BVar (v : val)
| BLabel (l : nat)
| BFun (t : term) (vars : list bind).

Record ctx := { vars : list bind; labels : nat }.

Definition cons_var (x : val) (c : ctx) : ctx := {| vars := BVar x :: vars c; labels := labels c |}.
Definition cons_fun (t : term) (fc : ctx) (c : ctx) : ctx :=
  {| vars := BFun t (vars fc) :: vars c; labels := labels c |}.
Definition cons_label (c : ctx) : ctx :=
  {| vars := BLabel (S (labels c)) :: vars c; labels := S (labels c) |}.
Definition skip_vars (n : nat) (c : ctx) : ctx := {| vars := skipn n (vars c); labels := labels c |}.
Definition with_vars (vs : list bind) (c : ctx) : ctx := {| vars := vs; labels := labels c |}.

Definition opt_fail (opt : bool) (v : val) (e : err) : str val := if opt then sone v else serr e.

Fixpoint sfilter {A} (p : A -> bool) (s : str A) : str A :=
  match s with
  | SNil => SNil
  | SCons x k => if p x then SCons x (fun _ => sfilter p (k tt)) else sfilter p (k tt)
  | SExn e => SExn e
  | SBot => SBot
  | SUnk => SUnk
  end.

(** drop the error of a single path part ([?]) *)
Definition sopt {A} (opt : bool) (s : str A) : str A :=
  if opt then stry s (fun _ => SNil) else s.

(** ** [map_values], [map_index], [map_range] of impl ValT for Val *)

Definition map_values (v : val) (opt : bool) (f : val -> str val) : str val :=
  match v with
  | Arr a => collect_then (sbind (of_list a) f) (fun l => sone (Arr l))
  | Obj o =>
      (fix go (o : obj) (acc : obj) : str val :=
         match o with
         | [] => sone (Obj (rev acc))
         | (k, x) :: r =>
             match first (f x) with
             | FNone => go r acc
             | FSome y => go r ((k, y) :: acc)
             | FFail t => fin_str t
             end
         end) o []
  | _ => opt_fail opt v (ETyp v TIter)
  end.

Definition map_range (v : val) (r : option val * option val) (opt : bool) (f : val -> str val) : str val :=
  match v with
  | Arr a =>
      match range_int r with
      | Err e => opt_fail opt v e
      | Ok ri =>
          let '(s, t) := skip_take ri (Z.of_nat (length a)) in
          match first (f (Arr (slice a s t))) with
          | FSome (Arr y) => sone (Arr (splice a s t y))
          | FSome y => serr (ETyp y TArr)
          | FNone => sone (Arr (splice a s t []))
          | FFail t => fin_str t
          end
      end
  | BStr b =>
      match range_int r with
      | Err e => opt_fail opt v e
      | Ok ri =>
          let '(s, t) := skip_take ri (Z.of_nat (length b)) in
          match first (f (BStr (slice b s t))) with
          | FSome (BStr y) => sone (BStr (splice b s t y))
          | FSome y => serr (ETyp y TStrT)
          | FNone => sone (BStr (splice b s t []))
          | FFail t => fin_str t
          end
      end
  | TStr b =>
      match range_int r with
      | Err e => opt_fail opt v e
      | Ok ri =>
          let '(s, t) := skip_take_chars ri b in
          match first (f (TStr (slice b s t))) with
          | FSome (TStr y) => sone (TStr (splice b s t y))
          | FSome y => serr (ETyp y TStrT)
          | FNone => sone (TStr (splice b s t []))
          | FFail t => fin_str t
          end
      end
  | _ => opt_fail opt v (ETyp v TArr)
  end.

Definition map_index (v : val) (index : val) (opt : bool) (f : val -> str val) : str val :=
  match v, index with
  | (BStr _ | TStr _ | Arr _), Obj o => map_range v (get o key_start, get o key_end) opt f
  | Obj o, _ =>
      match find_index o index 0 with
      | Some i =>
          match nth_error o i with
          | Some (k, x) =>
              match first (f x) with
              | FSome y => sone (Obj (replace_at i (k, y) o))
              | FNone => sone (Obj (swap_remove_at i o))
              | FFail t => fin_str t
              end
          | None => SUnk
          end
      | None =>
          match first (f Null) with
          | FSome y => sone (Obj (o ++ [(index, y)]))
          | FNone => sone v
          | FFail t => fin_str t
          end
      end
  | Arr a, _ =>
      match val_as_pos_usize index with
      | Err e => opt_fail opt v e
      | Ok p =>
          match abs_index p (Z.of_nat (length a)) with
          | None => opt_fail opt v (EOob index)
          | Some i =>
              match nth_error a (Z.to_nat i) with
              | Some x =>
                  match first (f x) with
                  | FSome y => sone (Arr (replace_at (Z.to_nat i) y a))
                  | FNone => sone (Arr (remove_at (Z.to_nat i) a))
                  | FFail t => fin_str t
                  end
              | None => SUnk
              end
          end
      end
  | _, _ => opt_fail opt v (ETyp v TIter)
  end.

(** ** exploded paths ([Path<V>]) *)
Inductive vpart := VIndex (i : val) | VRange (from upto : option val).

Definition part_run (p : vpart) (v : val) : str val :=
  match p with
  | VIndex i => of_res (vindex v i)
  | VRange None None => match vvalues v with Ok l => of_list l | Err e => serr e end
  | VRange f u => of_res (vrange v (f, u))
  end.

Definition part_paths (p : vpart) (vp : val * vpath) : str (val * vpath) :=
  let '(v, pa) := vp in
  match p with
  | VIndex i => of_res (rmap (fun x => (x, i :: pa)) (vindex v i))
  | VRange None None =>
      match vkey_values v with
      | Ok l => of_list (map (fun kv => (snd kv, fst kv :: pa)) l)
      | Err e => serr e
      end
  | VRange f u => of_res (rmap (fun x => (x, range_val f u :: pa)) (vrange v (f, u)))
  end.

Definition part_update (p : vpart) (v : val) (opt : bool) (f : val -> str val) : str val :=
  match p with
  | VIndex i => map_index v i opt f
  | VRange None None => map_values v opt f
  | VRange fr u => map_range v (fr, u) opt f
  end.

Fixpoint path_run (ps : list (vpart * bool)) (v : val) : str val :=
  match ps with
  | [] => sone v
  | (p, opt) :: r => sbind (sopt opt (part_run p v)) (path_run r)
  end.

Fixpoint path_paths (ps : list (vpart * bool)) (vp : val * vpath) : str (val * vpath) :=
  match ps with
  | [] => sone vp
  | (p, opt) :: r => sbind (sopt opt (part_paths p vp)) (path_paths r)
  end.

(** [path::update]: nested; the innermost part applies [f] *)
Fixpoint path_update (ps : list (vpart * bool)) (v : val) (f : val -> str val) : str val :=
  match ps with
  | [] => sone v
  | [(p, opt)] => part_update p v opt f
  | (p, opt) :: r => part_update p v opt (fun x => path_update r x f)
  end.

(** [reduce] over a stream of contexts/values: used by updates *)
Fixpoint sreduce {A} (xs : str A) (acc : val) (f : A -> val -> str val) : str val :=
  match xs with
  | SNil => sone acc
  | SCons x k => sbind (f x acc) (fun y => sreduce (k tt) y f)
  | SExn e => SExn e
  | SBot => SBot
  | SUnk => SUnk
  end.

Section RUN.
  (** text of a value inside messages and [tostring] (the JSON writer) *)
  Variable show : val -> bytes.
  (** natives outside jaq-core: name, arguments, input *)
  Variable ext_run : nat -> bytes -> list narg -> val -> option (str val).
  (** definition table *)
  Variable defs : list term.

  Definition msg (parts : list bytes) : val := TStr (concat parts).
  Definition asc (l : list Z) : bytes := of_ascii l.

  Definition typ_name (t : typ) : bytes :=
    match t with
    | TInt => asc [105;110;116;101;103;101;114]
    | TNum => asc [110;117;109;98;101;114]
    | TStrT => asc [115;116;114;105;110;103]
    | TArr => asc [97;114;114;97;121]
    | TIter => asc [105;116;101;114;97;98;108;101;32;40;97;114;114;97;121;32;111;114;32;111;98;106;101;99;116;41]
    | TRange => asc [114;97;110;103;101;97;98;108;101;32;40;97;114;114;97;121;32;111;114;32;115;116;114;105;110;103;41]
    end%Z.

  Definition op_name (o : mathop) : bytes :=
    asc [match o with Add => 43 | Sub => 45 | Mul => 42 | Div => 47 | Rem => 37 end]%Z.

  (** [Error::into_val] *)
  Definition err_val (e : err) : val :=
    match e with
    | EUser v => v
    | ETyp v t => msg [asc [99;97;110;110;111;116;32;117;115;101;32]; show v; asc [32;97;115;32]; typ_name t]
    | EMath l o r => msg [asc [99;97;110;110;111;116;32;99;97;108;99;117;108;97;116;101;32]; show l; asc [32]; op_name o; asc [32]; show r]
    | EIndex l r => msg [asc [99;97;110;110;111;116;32;105;110;100;101;120;32]; show l; asc [32;119;105;116;104;32]; show r]
    | EPathExpr v => msg [asc [105;110;118;97;108;105;100;32;112;97;116;104;32;101;120;112;114;101;115;115;105;111;110;32;119;105;116;104;32;105;110;112;117;116;32]; show v]
    | EOob i => msg [asc [105;110;100;101;120;32]; show i; asc [32;111;117;116;32;111;102;32;98;111;117;110;100;115]]
    | EOther t => TStr (asc [255; 69; 82; 82])%Z     (* marker: message text outside the model *)
    end%Z.

  Definition into_string (v : val) : val :=
    match v with
    | BStr b | TStr b => TStr b
    | _ => TStr (show v)
    end.

  Definition native (fuel : nat) (name : bytes) (args : list narg) (v : val) : str val :=
    match core_run fuel name args v with
    | Some s => s
    | None => match ext_run fuel name args v with Some s => s | None => SUnk end
    end.

  Definition native_paths (name : bytes) (args : list narg) (vp : val * vpath) : str (val * vpath) :=
    match core_paths name args vp with
    | Some s => s
    | None => serr (EPathExpr (fst vp))
    end.

  (** [recurse_run] for `..`: errors of [values] are dropped ([flatten] over results) *)
  Fixpoint recurse_vals (n : nat) (v : val) : str val :=
    match n with
    | O => SBot
    | S n =>
        SCons v (fun _ => match vvalues v with
                          | Ok l => sbind (of_list l) (recurse_vals n)
                          | Err _ => SNil
                          end)
    end.

  Fixpoint recurse_paths (n : nat) (vp : val * vpath) : str (val * vpath) :=
    match n with
    | O => SBot
    | S n =>
        SCons vp (fun _ => match vkey_values (fst vp) with
                           | Ok l => sbind (of_list l) (fun kv => recurse_paths n (snd kv, fst kv :: snd vp))
                           | Err _ => SNil
                           end)
    end.

  (** [recurse_update]: leaves first *)
  Fixpoint recurse_update (n : nat) (v : val) (f : val -> str val) : str val :=
    match n with
    | O => SBot
    | S n => sbind (map_values v true (fun x => recurse_update n x f)) f
    end.

  Definition nth_bind (c : ctx) (i : nat) : option bind := nth_error (vars c) i.

  Fixpoint run (n : nat) (t : term) (c : ctx) (v : val) {struct n} : str val :=
    match n with
    | O => SBot
    | S n =>
        let cartesian := fun l r => sbind (run n l c v) (fun x => smap (fun y => (x, y)) (run n r c v)) in
        match t with
        | KId => sone v
        | KRecurse => recurse_vals n v
        | KToString => sone (into_string v)
        | KInt i => sone (vint i)
        | KNum s => sone (Num (from_str s))
        | KStr s => sone (TStr s)
        | KArr f => collect_then (run n f c v) (fun l => sone (Arr l))
        | KObjEmpty => sone (Obj [])
        | KObjSingle k x => smap (fun kv => from_map [kv]) (cartesian k x)
        | KTryCatch f h => stry (run n f c v) (fun e => run n h c (err_val e))
        | KNeg f => sbind (run n f c v) (fun x => of_res (vneg x))
        | KPipe l None r => sbind (run n l c v) (fun y => run n r c y)
        | KPipe l (Some pat) r =>
            sbind (run n l c v) (fun y =>
              match pat with
              | PatVar => run n r (cons_var y c) v
              | PatIdx pats => sbind (bind_pats n pats c c y) (fun c' => run n r c' v)
              end)
        | KComma l r => sapp (run n l c v) (fun _ => run n r c v)
        | KAlt l r =>
            match sfilter as_bool (run n l c v) with
            | SNil => run n r c v
            | s => s
            end
        | KIte i th el => sbind (run n i c v) (fun x => run n (if as_bool x then th else el) c v)
        | KPath f path =>
            sbind (run n f c v) (fun y => sbind (explode n path c v) (fun ps => path_run ps y))
        | KUpdate p f => update n p c v (fun x => run n f c x)
        | KUpdateMath p op f =>
            sbind (run n f c v) (fun y => update n p c v (fun x => of_res_opt (math_run op x y)))
        | KUpdateAlt p f =>
            sbind (run n f c v) (fun y => update n p c v (fun x => sone (if as_bool x then x else y)))
        | KAssign p f => sbind (run n f c v) (fun y => update n p c v (fun _ => sone y))
        | KLogic l stop r =>
            sbind (run n l c v) (fun x =>
              if Bool.eqb (as_bool x) stop then sone (Bool stop)
              else smap (fun y => Bool (as_bool y)) (run n r c v))
        | KMath l op r => sbind (cartesian l r) (fun xy => of_res_opt (math_run op (fst xy) (snd xy)))
        | KCmp l op r => smap (fun xy => Bool (cmp_run op (fst xy) (snd xy))) (cartesian l r)
        | KFold xs pat init upd ft =>
            let xs := run_and_bind n xs c v pat in
            sbind (run n init c v) (fun i =>
              (fix go (xs : str ctx) (acc : val) : str val :=
                 match xs with
                 | SNil => match ft with Reduce => sone acc | Foreach _ => SNil end
                 | SCons cx k =>
                     sbind (run n upd cx acc) (fun y =>
                       sapp (match ft with
                             | Reduce => SNil
                             | Foreach None => sone y
                             | Foreach (Some p) => run n p cx y
                             end) (fun _ => go (k tt) y))
                 | SExn e => SExn e
                 | SBot => SBot
                 | SUnk => SUnk
                 end) xs i)
        | KVar i =>
            match nth_bind c i with
            | Some (BVar x) => sone x
            | Some (BFun f fvars) => run n f (with_vars fvars c) v
            | Some (BLabel l) => SExn (XBreak l)
            | None => SUnk
            end
        | KCallDef d args skip _ =>
            match nth_error defs d with
            | Some body => sbind (bind_vars n args (skip_vars skip c) c v) (fun c' => run n body c' v)
            | None => SUnk
            end
        | KNative name args =>
            sbind (bind_nargs n args [] c v) (fun nargs => native n name (rev nargs) v)
        | KLabel f => let c' := cons_label c in slabel (labels c') (run n f c' v)
        end
    end

  (** [bind_vars]: variable arguments are evaluated on the caller's context and input, in order *)
  with bind_vars (n : nat) (args : list (bool * term)) (acc : ctx) (c : ctx) (v : val) {struct n} : str ctx :=
    match n with
    | O => SBot
    | S n =>
        match args with
        | [] => sone acc
        | (true, a) :: rest => sbind (run n a c v) (fun y => bind_vars n rest (cons_var y acc) c v)
        | (false, a) :: rest => bind_vars n rest (cons_fun a c acc) c v
        end
    end

  (** arguments of natives, as values and closures *)
  with bind_nargs (n : nat) (args : list (bool * term)) (acc : list narg) (c : ctx) (v : val) {struct n}
    : str (list narg) :=
    match n with
    | O => SBot
    | S n =>
        match args with
        | [] => sone acc
        | (true, a) :: rest => sbind (run n a c v) (fun y => bind_nargs n rest (NV y :: acc) c v)
        | (false, a) :: rest =>
            bind_nargs n rest (NF {| cl_run := fun x => run n a c x; cl_paths := fun xp => paths n a c xp |} :: acc) c v
        end
    end

  (** [bind_pat] / [bind_pats]: index filters run in the original context [c0] on the matched value *)
  with bind_pats (n : nat) (pats : list (term * pattern)) (acc : ctx) (c0 : ctx) (v : val) {struct n} : str ctx :=
    match n with
    | O => SBot
    | S n =>
        match pats with
        | [] => sone acc
        | (idx, pat) :: rest =>
            let one :=
              sbind (run n idx c0 v) (fun i =>
                sbind (of_res (vindex v i)) (fun x =>
                  match pat with
                  | PatVar => sone (cons_var x acc)
                  | PatIdx ps => bind_pats n ps acc c0 x
                  end)) in
            match rest with
            | [] => one
            | _ => sbind one (fun acc' => bind_pats n rest acc' c0 v)
            end
        end
    end

  with run_and_bind (n : nat) (xs : term) (c : ctx) (v : val) (pat : pattern) {struct n} : str ctx :=
    match n with
    | O => SBot
    | S n =>
        sbind (run n xs c v) (fun y =>
          match pat with
          | PatVar => sone (cons_var y c)
          | PatIdx ps => bind_pats n ps c c y
          end)
    end

  (** [Path::explode]: all combinations of index values, first part outermost *)
  with explode (n : nat) (path : list (part * bool)) (c : ctx) (v : val) {struct n} : str (list (vpart * bool)) :=
    match n with
    | O => SBot
    | S n =>
        match path with
        | [] => sone []
        | (p, opt) :: rest =>
            let ps :=
              match p with
              | Index i => smap VIndex (run n i c v)
              | Range None None => sone (VRange None None)
              | Range (Some f) None => smap (fun x => VRange (Some x) None) (run n f c v)
              | Range None (Some u) => smap (fun x => VRange None (Some x)) (run n u c v)
              | Range (Some f) (Some u) =>
                  sbind (run n f c v) (fun x => smap (fun y => VRange (Some x) (Some y)) (run n u c v))
              end in
            sbind ps (fun p' => smap (fun r => (p', opt) :: r) (explode n rest c v))
        end
    end

  with paths (n : nat) (t : term) (c : ctx) (vp : val * vpath) {struct n} : str (val * vpath) :=
    match n with
    | O => SBot
    | S n =>
        let v := fst vp in
        let err := serr (EPathExpr v) in
        match t with
        | KId => sone vp
        | KRecurse => recurse_paths n vp
        | KPipe l None r => sbind (paths n l c vp) (fun y => paths n r c y)
        | KPipe l (Some pat) r =>
            sbind (run n l c v) (fun y =>
              match pat with
              | PatVar => paths n r (cons_var y c) vp
              | PatIdx pats => sbind (bind_pats n pats c c y) (fun c' => paths n r c' vp)
              end)
        | KComma l r => sapp (paths n l c vp) (fun _ => paths n r c vp)
        | KAlt l r =>
            (* any(truthy or error) over the values of l *)
            match sfilter as_bool (run n l c v) with
            | SNil => paths n r c vp
            | SBot => SBot
            | SUnk => SUnk
            | _ => paths n l c vp
            end
        | KIte i th el => sbind (run n i c v) (fun x => paths n (if as_bool x then th else el) c vp)
        | KTryCatch f h =>
            stry (paths n f c vp) (fun e => sbind (run n h c (err_val e)) (fun x => serr (EPathExpr x)))
        | KPath f path =>
            sbind (paths n f c vp) (fun y => sbind (explode n path c v) (fun ps => path_paths ps y))
        | KVar i =>
            match nth_bind c i with
            | Some (BVar _) => err
            | Some (BFun f fvars) => paths n f (with_vars fvars c) vp
            | Some (BLabel l) => SExn (XBreak l)
            | None => SUnk
            end
        | KFold xs pat init upd ft =>
            let xs := run_and_bind n xs c v pat in
            sbind (paths n init c vp) (fun i =>
              (fix go (xs : str ctx) (acc : val * vpath) : str (val * vpath) :=
                 match xs with
                 | SNil => match ft with Reduce => sone acc | Foreach _ => SNil end
                 | SCons cx k =>
                     sbind (paths n upd cx acc) (fun y =>
                       sapp (match ft with
                             | Reduce => SNil
                             | Foreach None => sone y
                             | Foreach (Some p) => paths n p cx y
                             end) (fun _ => go (k tt) y))
                 | SExn e => SExn e
                 | SBot => SBot
                 | SUnk => SUnk
                 end) xs i)
        | KCallDef d args skip _ =>
            match nth_error defs d with
            | Some body => sbind (bind_vars n args (skip_vars skip c) c v) (fun c' => paths n body c' vp)
            | None => SUnk
            end
        | KLabel f => let c' := cons_label c in slabel (labels c') (paths n f c' vp)
        | KNative name args =>
            sbind (bind_nargs n args [] c v) (fun nargs => native_paths name (rev nargs) vp)
        | _ => err
        end
    end

  with update (n : nat) (t : term) (c : ctx) (v : val) (f : val -> str val) {struct n} : str val :=
    match n with
    | O => SBot
    | S n =>
        let err := serr (EPathExpr v) in
        match t with
        | KId => f v
        | KRecurse => recurse_update n v f
        | KPath l path =>
            update n l c v (fun x =>
              (* all exploded paths are applied in sequence to the same value *)
              collect_then (explode n path c v) (fun pss =>
                fold_left (fun acc ps => sbind acc (fun a => path_update ps a f)) pss (sone x)))
        | KPipe l None r => update n l c v (fun x => update n r c x f)
        | KPipe l (Some pat) r =>
            sreduce (run_and_bind n l c v pat) v (fun c' x => update n r c' x f)
        | KComma l r => sbind (update n l c v f) (fun x => update n r c x f)
        | KIte i th el =>
            sreduce (run n i c v) v (fun x a => update n (if as_bool x then th else el) c a f)
        | KAlt l r =>
            match sfilter as_bool (run n l c v) with
            | SNil => update n r c v f
            | SBot => SBot
            | SUnk => SUnk
            | _ => update n l c v f
            end
        | KFold xs pat init upd ft =>
            let xs := run_and_bind n xs c v pat in
            update n init c v (fun x => fold_update n ft upd x xs f)
        | KVar i =>
            match nth_bind c i with
            | Some (BVar _) => err
            | Some (BFun g fvars) => update n g (with_vars fvars c) v f
            | Some (BLabel l) => SExn (XBreak l)
            | None => SUnk
            end
        | KCallDef d args skip _ =>
            match nth_error defs d with
            | Some body => sreduce (bind_vars n args (skip_vars skip c) c v) v (fun c' x => update n body c' x f)
            | None => SUnk
            end
        | KNative name args =>
            sreduce (bind_nargs n args [] c v) v (fun _ x => serr (EPathExpr x))
        | _ => err
        end
    end

  (** [fold_update] *)
  with fold_update (n : nat) (ft : foldtype) (path : term) (v : val) (xs : str ctx) (f : val -> str val)
    {struct n} : str val :=
    match n with
    | O => SBot
    | S n =>
        match xs with
        | SNil => match ft with Reduce => f v | Foreach _ => sone v end
        | SExn e => SExn e
        | SBot => SBot
        | SUnk => SUnk
        | SCons cx k =>
            let rest := fun x => fold_update n ft path x (k tt) f in
            let u := match ft with
                     | Reduce => rest
                     | Foreach None => fun x => sbind (f x) rest
                     | Foreach (Some proj) => fun x => sbind (update n proj cx x f) rest
                     end in
            update n path cx v u
        end
    end.

End RUN.
