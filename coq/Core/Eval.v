(** Top level of the executable model: compile (prelude once, then a main program) and run. *)
From Coq Require Import ZArith Bool List.
From JaqV Require Import Base.Bytes Base.Stream Val.Num Val.Val Val.Err Core.Syntax Core.Compile Core.Natives
  Core.Run Json.Write Std.Natives Fmts.Natives.
Import ListNotations.

Definition cfuel : nat := 4000.

(** the compiled prelude: module entries and the state (definition table) after it *)
Definition compile_prelude (natives : list (bytes * list bool)) (globals : list bytes) (prelude : list pdef)
  : list modentry * cst :=
  let g0 := {| g_natives := natives; g_included := []; g_globals := globals |} in
  let '(e0, s) := c_module g0 cfuel empty_env empty_cst (empty_def :: prelude) in
  (mod_entries e0, s).

Definition compile_main (natives : list (bytes * list bool)) (globals : list bytes)
  (pre : list modentry * cst) (main : pterm) : program :=
  let g := {| g_natives := natives; g_included := [fst pre]; g_globals := globals |} in
  let '((t, _), s) := c_term g cfuel empty_env (snd pre) main [] in
  {| p_defs := c_defs s; p_main := t; p_errs := c_errs s |}.

Definition run_main (fuel : nat) (p : program) (globals : list val) (input : val) : str val :=
  run display all_run (p_defs p) fuel (p_main p) {| vars := rev (map BVar globals); labels := 0 |} input.

Definition run_take (fuel : nat) (limit : nat) (p : program) (globals : list val) (input : val)
  : list val * option fin :=
  take limit (run_main fuel p globals input).
