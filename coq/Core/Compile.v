(** The compiler: mirrors jaq-core/src/compile.rs ([Compiler::term], [iterm], [def], [call],
    [Locals], the tail-call analysis with [Tr] sets and [CallType]).  The output is a forest:
    one tree per definition body (table [c_defs]) plus the main tree. *)
From Coq Require Import ZArith Bool List Lia.
From JaqV Require Import Base.Bytes Val.Num Val.Err Core.Syntax.
Import ListNotations.

Inductive cbind := CVar (x : bytes) | CLabel (x : bytes) | CFun (x : bytes).

Inductive fkind :=
| FArg
| FParent (args : list bool) (id : nat)
| FSibling (args : list bool) (id : nat) (tr : list nat).

Record fentry := { f_name : bytes; f_arity : nat; f_kind : fkind; f_vars : nat }.

(** [Locals] *)
Record env := { e_vars : list cbind; e_funs : list fentry }.

(** a definition of a compiled module: name, argument kinds, id, Tr *)
Definition modentry := (bytes * list bool * nat * list nat)%type.

Record genv := {
  g_natives : list (bytes * list bool);      (* registry: name, argument kinds (true = variable) *)
  g_included : list (list modentry);         (* included modules, in inclusion order *)
  g_globals : list bytes                     (* global variables, with `$` *)
}.

Record cst := { c_defs : list term; c_errs : nat }.

Definition is_var_name (s : bytes) : bool :=
  match s with c :: _ => bz c =? 36 | [] => false end%Z.

Definition cbind_eqb (a b : cbind) : bool :=
  match a, b with
  | CVar x, CVar y | CLabel x, CLabel y | CFun x, CFun y => bytes_eqb x y
  | _, _ => false
  end.

Fixpoint index_of (b : cbind) (l : list cbind) (i : nat) : option nat :=
  match l with
  | [] => None
  | x :: r => if cbind_eqb b x then Some i else index_of b r (S i)
  end.

Definition total (e : env) : nat := length (e_vars e).

Definition push_var (b : cbind) (e : env) : env := {| e_vars := b :: e_vars e; e_funs := e_funs e |}.
Definition push_fun (f : fentry) (e : env) : env := {| e_vars := e_vars e; e_funs := f :: e_funs e |}.

Definition with_vars (xs : list bytes) (e : env) : env :=
  fold_left (fun e x => push_var (CVar x) e) xs e.

(** [Locals::push_arg] *)
Definition push_arg (name : bytes) (e : env) : env :=
  let e := push_var (CFun name) e in
  push_fun {| f_name := name; f_arity := 0; f_kind := FArg; f_vars := total e |} e.

(** [Locals::push_parent] *)
Definition push_parent (name : bytes) (args : list bytes) (id : nat) (e : env) : env :=
  let vars := total e in
  let e := fold_left (fun e a => if is_var_name a then push_var (CVar a) e else push_arg a e) args e in
  push_fun {| f_name := name; f_arity := length args; f_kind := FParent (map is_var_name args) id; f_vars := vars |} e.

(** [Locals::push_sibling] *)
Definition push_sibling (name : bytes) (args : list bool) (id : nat) (tr : list nat) (e : env) : env :=
  push_fun {| f_name := name; f_arity := length args; f_kind := FSibling args id tr; f_vars := total e |} e.

Fixpoint find_fun (name : bytes) (arity : nat) (l : list fentry) : option fentry :=
  match l with
  | [] => None
  | f :: r => if bytes_eqb name (f_name f) && Nat.eqb arity (f_arity f) then Some f else find_fun name arity r
  end.

Definition mem (x : nat) (l : list nat) : bool := existsb (Nat.eqb x) l.
Definition remove_id (x : nat) (l : list nat) : list nat := filter (fun y => negb (Nat.eqb x y)) l.
Definition subset (a b : list nat) : bool := forallb (fun x => mem x b) a.
Definition union (a b : list nat) : list nat := a ++ filter (fun x => negb (mem x a)) b.

Definition binds (kinds : list bool) (args : list term) : list (bool * term) := combine kinds args.

(** [Locals::call] *)
Definition local_call (e : env) (name : bytes) (args : list term) (tr : list nat) : option (term * list nat) :=
  match find_fun name (length args) (e_funs e) with
  | None => None
  | Some f =>
      Some match f_kind f with
      | FArg => (KVar (total e - f_vars f), [])
      | FSibling kinds id tr_ =>
          let rec := mem id tr_ in
          let tr_ := remove_id id tr_ in
          let '(typ, tr_) := if subset tr_ tr then (if rec then CatchOne else Inline, tr_) else (CatchAll, []) in
          (KCallDef id (binds kinds args) (total e - f_vars f) typ, tr_)
      | FParent kinds id =>
          let '(typ, tr_) := if mem id tr then (Throw, [id]) else (CatchAll, []) in
          (KCallDef id (binds kinds args) (total e - f_vars f) typ, tr_)
      end
  end.

Fixpoint find_mod (name : bytes) (arity : nat) (l : list modentry) : option modentry :=
  match l with
  | [] => None
  | ((n, kinds, id, tr) as m) :: r =>
      if bytes_eqb name n && Nat.eqb arity (length kinds) then Some m else find_mod name arity r
  end.

(** [call_mod_id]: the most recent matching definition of the module; all local variables are skipped *)
Definition call_mod_id (e : env) (defs : list modentry) (name : bytes) (args : list term) : option term :=
  match find_mod name (length args) (rev defs) with
  | Some (_, kinds, id, tr) =>
      Some (KCallDef id (binds kinds args) (total e) (if mem id tr then CatchOne else Inline))
  | None => None
  end.

Fixpoint first_some {A B} (f : A -> option B) (l : list A) : option B :=
  match l with
  | [] => None
  | x :: r => match f x with Some y => Some y | None => first_some f r end
  end.

Fixpoint find_native (name : bytes) (arity : nat) (l : list (bytes * list bool)) : option (list bool) :=
  match l with
  | [] => None
  | (n, kinds) :: r => if bytes_eqb name n && Nat.eqb arity (length kinds) then Some kinds else find_native name arity r
  end.

Definition fail (s : cst) : term * cst := (KId, {| c_defs := c_defs s; c_errs := S (c_errs s) |}).

(** [Compiler::call] *)
Definition call (g : genv) (e : env) (s : cst) (name : bytes) (args : list term) (tr : list nat)
  : (term * list nat) * cst :=
  match local_call e name args tr with
  | Some r => (r, s)
  | None =>
      match first_some (fun defs => call_mod_id e defs name args) (rev (g_included g)) with
      | Some t => ((t, []), s)
      | None =>
          match find_native name (length args) (g_natives g) with
          | Some kinds => ((KNative name (binds kinds args), []), s)
          | None => let '(t, s) := fail s in ((t, []), s)
          end
      end
  end.

Fixpoint index_of_bytes (x : bytes) (l : list bytes) (i : nat) : option nat :=
  match l with
  | [] => None
  | y :: r => if bytes_eqb x y then Some i else index_of_bytes x r (S i)
  end.

(** [Compiler::var]: locals, then global variables (most recent last) *)
Definition var (g : genv) (e : env) (s : cst) (x : bytes) : term * cst :=
  match index_of (CVar x) (e_vars e) 0 with
  | Some i => (KVar i, s)
  | None =>
      match index_of_bytes x (rev (g_globals g)) 0 with
      | Some i => (KVar (total e + i), s)
      | None => fail s
      end
  end.

Definition break_ (e : env) (s : cst) (x : bytes) : term * cst :=
  match index_of (CLabel x) (e_vars e) 0 with
  | Some i => (KVar i, s)
  | None => fail s
  end.

(** [sum_or]: right-nested sum *)
Fixpoint sum_or (default : term) (ts : list term) : term :=
  match ts with
  | [] => default
  | [t] => t
  | t :: r => KMath t Add (sum_or default r)
  end.

Fixpoint pat_vars_f (n : nat) (p : ppat) : list bytes :=
  match n with
  | O => []
  | S n =>
      match p with
      | PPVar x => [x]
      | PPArr ps => flat_map (pat_vars_f n) ps
      | PPObj kps => flat_map (fun kp => pat_vars_f n (snd kp)) kps
      end
  end.

Definition alloc_def (s : cst) : nat * cst :=
  (length (c_defs s), {| c_defs := c_defs s ++ [KId]; c_errs := c_errs s |}).

Fixpoint set_nth {A} (i : nat) (a : A) (l : list A) : list A :=
  match i, l with
  | _, [] => []
  | O, _ :: r => a :: r
  | S i, x :: r => x :: set_nth i a r
  end.

Definition set_def (id : nat) (t : term) (s : cst) : cst :=
  {| c_defs := set_nth id t (c_defs s); c_errs := c_errs s |}.

Definition empty_call : pterm := PCall (of_ascii [33; 101; 109; 112; 116; 121]%Z) [].  (* "!empty" *)

Definition name_reduce : bytes := of_ascii [114; 101; 100; 117; 99; 101]%Z.
Definition name_foreach : bytes := of_ascii [102; 111; 114; 101; 97; 99; 104]%Z.

Definition int_literal (s : bytes) : option Z :=
  match parse_int_dec s with
  | Some z => if in_isize z then Some z else None
  | None => None
  end.

Section COMPILE.
  Variable g : genv.

  (** fuel: size of the parse tree *)
  Fixpoint c_term (n : nat) (e : env) (s : cst) (t : pterm) (tr : list nat) {struct n}
    : (term * list nat) * cst :=
    match n with
    | O => let '(t, s) := fail s in ((t, []), s)
    | S n =>
        let iterm := fun e s t => let '((t, _), s) := c_term n e s t [] in (t, s) in
        let iterms := fix go (e : env) (s : cst) (ts : list pterm) : list term * cst :=
          match ts with
          | [] => ([], s)
          | t :: r => let '(t, s) := iterm e s t in let '(r, s) := go e s r in (t :: r, s)
          end in
        let nt := fun (r : term * cst) => let '(t, s) := r in ((t, @nil nat), s) in
        match t with
        | PId => ((KId, []), s)
        | PRecurse => ((KRecurse, []), s)
        | PArr t =>
            nt (let '(t, s) := iterm e s (match t with Some t => t | None => empty_call end) in (KArr t, s))
        | PNeg t => nt (let '(t, s) := iterm e s t in (KNeg t, s))
        | PLabel x t => nt (let '(t, s) := iterm (push_var (CLabel x) e) s t in (KLabel t, s))
        | PBreak x => nt (break_ e s x)
        | PIte its else_ =>
            let '(its, s) :=
              (fix go (s : cst) (its : list (pterm * pterm)) : list (term * (term * list nat)) * cst :=
                 match its with
                 | [] => ([], s)
                 | (i, t) :: r =>
                     let '(i, s) := iterm e s i in
                     let '(t, s) := c_term n e s t tr in
                     let '(r, s) := go s r in
                     ((i, t) :: r, s)
                 end) s its in
            let '(else_, s) := match else_ with
                               | None => ((KId, []), s)
                               | Some t => c_term n e s t tr
                               end in
            (fold_right (fun it acc => let '(i, (t, trt)) := it in let '(a, tra) := acc in
                                       (KIte i t a, union trt tra)) else_ its, s)
        | PVar x => nt (var g e s x)
        | PCall name args =>
            let '(args, s) := iterms e s args in
            call g e s name args tr
        | PDef defs t =>
            let '(e', s) :=
              (fix go (e : env) (s : cst) (defs : list pdef) : env * cst :=
                 match defs with
                 | [] => (e, s)
                 | d :: r => let '(e, s) := c_open_def n e s d tr in go e s r
                 end) e s defs in
            c_term n e' s t tr
        | PNum x =>
            ((match int_literal x with Some i => KInt i | None => KNum x end, []), s)
        | PTryCatch t c =>
            nt (let '(t, s) := iterm e s t in
                let '(c, s) := iterm e s (match c with Some c => c | None => empty_call end) in
                (KTryCatch t c, s))
        | PFold name xs pat args =>
            match args with
            | init :: update :: rest =>
                let vars := pat_vars_f n pat in
                let '(xs, s) := iterm e s xs in
                let '(pat, s) := c_pattern n e s pat in
                let '(init, s) := iterm e s init in
                let '(update, s) := iterm (with_vars vars e) s update in
                if bytes_eqb name name_reduce then
                  match rest with
                  | [] => ((KFold xs pat init update Reduce, []), s)
                  | _ => nt (fail s)
                  end
                else if bytes_eqb name name_foreach then
                  match rest with
                  | [] => ((KFold xs pat init update (Foreach None), []), s)
                  | [proj] =>
                      let '((proj, tr_), s) := c_term n (with_vars vars e) s proj tr in
                      ((KFold xs pat init update (Foreach (Some proj)), tr_), s)
                  | _ => nt (fail s)
                  end
                else nt (fail s)
            | _ => nt (fail s)
            end
        | PBinOp l op r =>
            match op with
            | BComma =>
                let '((l, trl), s) := c_term n e s l tr in
                let '((r, trr), s) := c_term n e s r tr in
                ((KComma l r, union trl trr), s)
            | BAlt =>
                let '(l, s) := iterm e s l in
                let '((r, tr_), s) := c_term n e s r tr in
                ((KAlt l r, tr_), s)
            | BPipe pat =>
                let '(l, s) := iterm e s l in
                let vars := match pat with Some p => pat_vars_f n p | None => [] end in
                let '((r, tr_), s) := c_term n (with_vars vars e) s r tr in
                let '(pat, s) := match pat with
                                 | Some p => let '(p, s) := c_pattern n e s p in (Some p, s)
                                 | None => (None, s)
                                 end in
                ((KPipe l pat r, tr_), s)
            | _ =>
                let '(l, s) := iterm e s l in
                let '(r, s) := iterm e s r in
                ((match op with
                  | BMath o => KMath l o r
                  | BAssign => KAssign l r
                  | BUpdate => KUpdate l r
                  | BUpdateMath o => KUpdateMath l o r
                  | BCmp o => KCmp l o r
                  | BOr => KLogic l true r
                  | BAnd => KLogic l false r
                  | _ => KUpdateAlt l r
                  end, []), s)
            end
        | PPath t path =>
            let '(t, s) := iterm e s t in
            let '(path, s) :=
              (fix go (s : cst) (ps : list (ppart * bool)) : list (part * bool) * cst :=
                 match ps with
                 | [] => ([], s)
                 | (p, o) :: r =>
                     let '(p, s) :=
                       match p with
                       | PIndex i => let '(i, s) := iterm e s i in (Index i, s)
                       | PRange f u =>
                           let '(f, s) := match f with Some f => let '(f, s) := iterm e s f in (Some f, s) | None => (None, s) end in
                           let '(u, s) := match u with Some u => let '(u, s) := iterm e s u in (Some u, s) | None => (None, s) end in
                           (Range f u, s)
                       end in
                     let '(r, s) := go s r in
                     ((p, o) :: r, s)
                 end) s path in
            ((KPath t path, []), s)
        | PStr fmt parts =>
            let '(fmt, s) := match fmt with
                             | Some f => iterm e s (PCall f [])
                             | None => (KToString, s)
                             end in
            let '(parts, s) :=
              (fix go (s : cst) (ps : list strpart) : list term * cst :=
                 match ps with
                 | [] => ([], s)
                 | SPStr x :: r => let '(r, s) := go s r in (KStr x :: r, s)
                 | SPTerm f :: r =>
                     let '(f, s) := iterm e s f in
                     let '(r, s) := go s r in
                     (KPipe f None fmt :: r, s)
                 end) s parts in
            ((sum_or (KStr []) parts, []), s)
        | PObj kvs =>
            let '(kvs, s) :=
              (fix go (s : cst) (kvs : list (pterm * option pterm)) : list term * cst :=
                 match kvs with
                 | [] => ([], s)
                 | (k, v) :: r =>
                     let '(kv, s) :=
                       match k, v with
                       | PVar x, None =>
                           let '(v, s) := iterm e s (PVar x) in
                           (KObjSingle (KStr (tl x)) v, s)
                       | k, None =>
                           let '(k, s) := iterm e s k in
                           (KObjSingle k (KPath KId [(Index k, false)]), s)
                       | k, Some v =>
                           let '(k, s) := iterm e s k in
                           let '(v, s) := iterm e s v in
                           (KObjSingle k v, s)
                       end in
                     let '(r, s) := go s r in
                     (kv :: r, s)
                 end) s kvs in
            ((sum_or KObjEmpty kvs, []), s)
        end
    end

  (** [Compiler::pattern] *)
  with c_pattern (n : nat) (e : env) (s : cst) (p : ppat) {struct n} : pattern * cst :=
    match n with
    | O => (PatVar, s)
    | S n =>
        match p with
        | PPVar _ => (PatVar, s)
        | PPArr ps =>
            let '(ps, s) :=
              (fix go (s : cst) (i : Z) (ps : list ppat) : list (term * pattern) * cst :=
                 match ps with
                 | [] => ([], s)
                 | p :: r =>
                     let '(p, s) := c_pattern n e s p in
                     let '(r, s) := go s (i + 1)%Z r in
                     ((KInt i, p) :: r, s)
                 end) s 0%Z ps in
            (PatIdx ps, s)
        | PPObj kps =>
            let '(kps, s) :=
              (fix go (s : cst) (kps : list (pterm * ppat)) : list (term * pattern) * cst :=
                 match kps with
                 | [] => ([], s)
                 | (k, p) :: r =>
                     let '((k, _), s) := c_term n e s k [] in
                     let '(p, s) := c_pattern n e s p in
                     let '(r, s) := go s r in
                     ((k, p) :: r, s)
                 end) s kps in
            (PatIdx kps, s)
        end
    end

  (** [open_def] = [def] + [push_sibling] *)
  with c_open_def (n : nat) (e : env) (s : cst) (d : pdef) (tr : list nat) {struct n} : env * cst :=
    match n with
    | O => (e, s)
    | S n =>
        let '(PDefn name args body) := d in
        let '(id, s) := alloc_def s in
        let e' := push_parent name args id e in
        let '((body, tr_), s) := c_term n e' s body (id :: tr) in
        let s := set_def id body s in
        (push_sibling name (map is_var_name args) id tr_ e, s)
    end.
End COMPILE.

Definition empty_env : env := {| e_vars := []; e_funs := [] |}.
Definition empty_cst : cst := {| c_defs := []; c_errs := 0 |}.

(** [Compiler::module]: the definitions of a module, all siblings in order *)
Fixpoint c_module (g : genv) (n : nat) (e : env) (s : cst) (defs : list pdef) : env * cst :=
  match defs with
  | [] => (e, s)
  | d :: r => let '(e, s) := c_open_def g n e s d [] in c_module g n e s r
  end.

Definition mod_entries (e : env) : list modentry :=
  rev (flat_map (fun f => match f_kind f with
                          | FSibling kinds id tr => [(f_name f, kinds, id, tr)]
                          | _ => []
                          end) (e_funs e)).

(** A compiled program: definition table, main term, number of compile errors. *)
Record program := { p_defs : list term; p_main : term; p_errs : nat }.

(** [Loader::new]: the prelude starts with `def !empty: {}[];` *)
Definition empty_def : pdef :=
  PDefn (of_ascii [33; 101; 109; 112; 116; 121]%Z) [] (PPath (PObj []) [(PRange None None, false)]).

(** compile a prelude (module 0, implicitly included) and a main term with global variables *)
Definition compile (fuel : nat) (natives : list (bytes * list bool)) (globals : list bytes)
  (prelude : list pdef) (main : pterm) : program :=
  let g0 := {| g_natives := natives; g_included := []; g_globals := globals |} in
  let '(e0, s) := c_module g0 fuel empty_env empty_cst (empty_def :: prelude) in
  let g := {| g_natives := natives; g_included := [mod_entries e0]; g_globals := globals |} in
  let '((t, _), s) := c_term g fuel empty_env s main [] in
  {| p_defs := c_defs s; p_main := t; p_errs := c_errs s |}.
