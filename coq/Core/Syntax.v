(** Parse trees: mirrors jaq_core::load::parse::Term one to one (the harness dumps jaq's own
    parse trees in this shape), and the compiled terms of jaq_core::compile::Term as a forest. *)
From Coq Require Import ZArith List.
From JaqV Require Import Base.Bytes Val.Err.
Import ListNotations.

Inductive pterm :=
| PId
| PRecurse
| PNum (s : bytes)
| PStr (fmt : option bytes) (parts : list strpart)
| PArr (t : option pterm)
| PObj (kvs : list (pterm * option pterm))
| PNeg (t : pterm)
| PBinOp (l : pterm) (op : binop) (r : pterm)
| PLabel (x : bytes) (t : pterm)
| PBreak (x : bytes)
| PFold (name : bytes) (xs : pterm) (pat : ppat) (args : list pterm)
| PTryCatch (t : pterm) (c : option pterm)
| PIte (its : list (pterm * pterm)) (e : option pterm)
| PDef (defs : list pdef) (t : pterm)
| PCall (name : bytes) (args : list pterm)
| PVar (x : bytes)
| PPath (t : pterm) (path : list (ppart * bool))      (* bool: optional (`?`) *)
with strpart :=
| SPStr (s : bytes)
| SPTerm (t : pterm)
with ppat :=
| PPVar (x : bytes)
| PPArr (ps : list ppat)
| PPObj (kps : list (pterm * ppat))
with binop :=
| BPipe (pat : option ppat)
| BComma | BAlt | BOr | BAnd
| BMath (op : mathop)
| BCmp (op : cmpop)
| BAssign | BUpdate
| BUpdateMath (op : mathop)
| BUpdateAlt
with ppart :=
| PIndex (i : pterm)
| PRange (from upto : option pterm)
with pdef :=
| PDefn (name : bytes) (args : list bytes) (body : pterm).

(** ** compiled terms (compile::Term), tree-shaped; definitions are referenced by index *)
Inductive calltype := Inline | Throw | CatchOne | CatchAll.

Inductive term :=
| KId
| KRecurse
| KToString
| KInt (i : Z)
| KNum (s : bytes)
| KStr (s : bytes)
| KArr (t : term)
| KObjEmpty
| KObjSingle (k v : term)
| KVar (i : nat)
| KCallDef (d : nat) (args : list (bool * term)) (skip : nat) (ct : calltype)   (* bool: variable argument *)
| KNative (name : bytes) (args : list (bool * term))
| KLabel (t : term)
| KNeg (t : term)
| KPipe (l : term) (pat : option pattern) (r : term)
| KComma (l r : term)
| KAssign (l r : term)
| KUpdate (l r : term)
| KUpdateMath (l : term) (op : mathop) (r : term)
| KUpdateAlt (l r : term)
| KLogic (l : term) (stop : bool) (r : term)
| KMath (l : term) (op : mathop) (r : term)
| KCmp (l : term) (op : cmpop) (r : term)
| KAlt (l r : term)
| KTryCatch (t c : term)
| KIte (i t e : term)
| KFold (xs : term) (pat : pattern) (init update : term) (fold : foldtype)
| KPath (t : term) (path : list (part * bool))
with pattern :=
| PatVar
| PatIdx (ps : list (term * pattern))
with foldtype :=
| Reduce
| Foreach (proj : option term)
with part :=
| Index (i : term)
| Range (from upto : option term).
