(** Native filters of jaq-core/src/funs.rs on closures: error_empty, path, path_value, range/3,
    keys_unsorted, key_values, first, last, limit, skip. *)
From Coq Require Import ZArith Bool List Lia.
From JaqV Require Import Base.Bytes Base.Stream Val.Num Val.Val Val.Err Val.Arith Val.Index.
Import ListNotations.

Definition vpath := list val.   (* most recent component first, as RcList *)

Record closure := {
  cl_run : val -> str val;
  cl_paths : val * vpath -> str (val * vpath)
}.

Inductive narg := NV (v : val) | NF (c : closure).

Definition of_res_opt {A} (r : option (res A)) : str A :=
  match r with Some r => of_res r | None => SUnk end.

(** [while_gtz!]-based [limit!]: no pull after the n-th item *)
Fixpoint limit_go {A} (n : val) (s : str A) : str A :=
  if negb (match val_cmp n (vint 0) with Gt => true | _ => false end) then SNil
  else match vsub n (vint 1) with
       | Err e => serr e
       | Ok n' =>
           match s with
           | SCons x k => SCons x (fun _ => limit_go n' (k tt))
           | SNil => SNil
           | SExn e => SExn e
           | SBot => SBot
           | SUnk => SUnk
           end
       end.

Definition limit {A} (n : val) (s : unit -> str A) : str A :=
  if val_leb n (vint 0) then SNil else limit_go n (s tt).

Fixpoint skip_go {A} (n : val) (s : str A) : str A :=
  if negb (match val_cmp n (vint 0) with Gt => true | _ => false end) then s
  else match vsub n (vint 1) with
       | Err e => serr e
       | Ok n' =>
           match s with
           | SCons _ k => skip_go n' (k tt)
           | SNil => SNil
           | SExn e => SExn e
           | SBot => SBot
           | SUnk => SUnk
           end
       end.

Definition skip {A} (n : val) (s : str A) : str A :=
  if val_leb n (vint 0) then s else skip_go n s.

Definition first_s {A} (s : str A) : str A :=
  match s with
  | SCons x _ => sone x
  | s => s
  end.

Fixpoint last_go {A} (cur : option A) (s : str A) : str A :=
  match s with
  | SNil => match cur with Some x => sone x | None => SNil end
  | SCons x k => last_go (Some x) (k tt)
  | SExn e => SExn e
  | SBot => SBot
  | SUnk => SUnk
  end.

Definition last_s {A} (s : str A) : str A := last_go None s.

(** native [range/3]; fuel bounds the number of outputs produced by the model *)
Fixpoint range_go (fuel : nat) (c : comparison) (x hi step : val) : str val :=
  match fuel with
  | O => SBot
  | S fuel =>
      let go := match c with
                | Gt => val_ltb x hi
                | Lt => val_ltb hi x
                | Eq => negb (val_eqb x hi)
                end in
      if go then
        SCons x (fun _ => match vadd x step with
                          | Ok x' => range_go fuel c x' hi step
                          | Err e => serr e
                          end)
      else SNil
  end.

Definition range (fuel : nat) (from hi step : val) : str val :=
  range_go fuel (val_cmp step (vint 0)) from hi step.

Definition path_val (p : vpath) : val := Arr (rev p).

Definition b (l : list Z) : bytes := of_ascii l.

Definition n_error_empty := b [101;114;114;111;114;95;101;109;112;116;121]%Z.
Definition n_path := b [112;97;116;104]%Z.
Definition n_path_value := b [112;97;116;104;95;118;97;108;117;101]%Z.
Definition n_range := b [114;97;110;103;101]%Z.
Definition n_keys_unsorted := b [107;101;121;115;95;117;110;115;111;114;116;101;100]%Z.
Definition n_key_values := b [107;101;121;95;118;97;108;117;101;115]%Z.
Definition n_first := b [102;105;114;115;116]%Z.
Definition n_last := b [108;97;115;116]%Z.
Definition n_limit := b [108;105;109;105;116]%Z.
Definition n_skip := b [115;107;105;112]%Z.

(** arguments arrive in declaration order *)
Definition core_run (fuel : nat) (name : bytes) (args : list narg) (v : val) : option (str val) :=
  if bytes_eqb name n_error_empty then
    match args with [] => Some (serr (EUser v)) | _ => None end
  else if bytes_eqb name n_path then
    match args with [NF f] => Some (smap (fun vp => path_val (snd vp)) (cl_paths f (v, []))) | _ => None end
  else if bytes_eqb name n_path_value then
    match args with
    | [NF f] => Some (smap (fun vp => Arr [path_val (snd vp); fst vp]) (cl_paths f (v, [])))
    | _ => None
    end
  else if bytes_eqb name n_range then
    match args with [NV from; NV hi; NV step] => Some (range fuel from hi step) | _ => None end
  else if bytes_eqb name n_keys_unsorted then
    match args with [] => Some (of_res (rmap (fun kvs => Arr (map fst kvs)) (vkey_values v))) | _ => None end
  else if bytes_eqb name n_key_values then
    match args with
    | [] => Some (of_res (rmap (fun kvs => Arr (map (fun kv => Arr [fst kv; snd kv]) kvs)) (vkey_values v)))
    | _ => None
    end
  else if bytes_eqb name n_first then
    match args with [NF f] => Some (first_s (cl_run f v)) | _ => None end
  else if bytes_eqb name n_last then
    match args with [NF f] => Some (last_s (cl_run f v)) | _ => None end
  else if bytes_eqb name n_limit then
    match args with [NV n; NF f] => Some (limit n (fun _ => cl_run f v)) | _ => None end
  else if bytes_eqb name n_skip then
    match args with [NV n; NF f] => Some (skip n (cl_run f v)) | _ => None end
  else None.

Definition core_paths (name : bytes) (args : list narg) (vp : val * vpath) : option (str (val * vpath)) :=
  if bytes_eqb name n_first then
    match args with [NF f] => Some (first_s (cl_paths f vp)) | _ => None end
  else if bytes_eqb name n_last then
    match args with [NF f] => Some (last_s (cl_paths f vp)) | _ => None end
  else if bytes_eqb name n_limit then
    match args with [NV n; NF f] => Some (limit n (fun _ => cl_paths f vp)) | _ => None end
  else if bytes_eqb name n_skip then
    match args with [NV n; NF f] => Some (skip n (cl_paths f vp)) | _ => None end
  else None.
