(** The values at the paths are the outputs: for every term of the path fragment, evaluating it for paths ([paths]) yields, in
    order, exactly the values that evaluating it for values ([run]) yields, each with its position - until the path
    evaluator refuses a value-constructing subterm with the path-expression error.  Excluded: `//` (whose paths follow the
    manual's `if first(f // false)` rule and include falsy outputs) and `try` (which can catch the refusal). *)
From Coq Require Import ZArith Bool List Lia FunctionalExtensionality.
From JaqV Require Import Base.Bytes Base.Stream Val.Num Val.Val Val.Err Val.Arith Val.Index Core.Syntax Core.Natives Core.Run
  Proofs.MonadLaws Proofs.PathLaws.
From JaqV Require Proofs.GetpathLaws.
Import ListNotations.

Definition patherr (e : exn) : Prop := exists v, e = XErr (EPathExpr v).

(** [sproj s r]: the stream of (value, path) pairs [s] carries the values of [r], item by item and with the same end - or it
    stops with the path-expression error *)
Inductive sproj : str (val * vpath) -> str val -> Prop :=
| sp_nil : sproj SNil SNil
| sp_cons x p k k' : sproj (k tt) (k' tt) -> sproj (SCons (x, p) k) (SCons x k')
| sp_exn e : sproj (SExn e) (SExn e)
| sp_bot : sproj SBot SBot
| sp_unk : sproj SUnk SUnk
| sp_refuse e r : patherr e -> sproj (SExn e) r.

Lemma sproj_refuse v r : sproj (serr (EPathExpr v)) r.
Proof. apply sp_refuse. exists v. reflexivity. Qed.

Lemma sproj_of_smap s : forall r, smap fst s = r -> sproj s r.
Proof.
  induction s as [|[x p] k IH|e| |]; intros r <-; cbn [smap]; try constructor. cbn [fst]. apply IH. reflexivity.
Qed.

Lemma sproj_sone x p : sproj (sone (x, p)) (sone x).
Proof. constructor. constructor. Qed.

Lemma sproj_sapp s r : sproj s r -> forall s' r', sproj (s' tt) (r' tt) -> sproj (sapp s s') (sapp r r').
Proof.
  induction 1 as [|x p k k' H IH|e| | |e r Hp]; intros s' r' H'; cbn [sapp]; try (constructor; fail); [exact H'|constructor; apply IH; exact H'|apply sp_refuse; exact Hp].
Qed.

Lemma sproj_sbind s r : sproj s r -> forall f g, (forall x p, sproj (f (x, p)) (g x)) -> sproj (sbind s f) (sbind r g).
Proof.
  induction 1 as [|x p k k' H IH|e| | |e r Hp]; intros f g Hfg; cbn [sbind]; try (constructor; fail).
  - apply sproj_sapp; [apply Hfg|apply IH; exact Hfg].
  - apply sp_refuse. exact Hp.
Qed.

(** the same stream of values on both sides, continued for paths and for values *)
Lemma sproj_sbind_same {A} (s : str A) f g : (forall x, sproj (f x) (g x)) -> sproj (sbind s f) (sbind s g).
Proof.
  intros H. induction s as [|x k IH|e| |]; cbn [sbind]; try constructor. apply sproj_sapp; [apply H|apply IH].
Qed.

Lemma sproj_slabel l s r : sproj s r -> sproj (slabel l s) (slabel l r).
Proof.
  induction 1 as [|x p k k' H IH|e| | |e r [v ->]]; cbn [slabel]; try (constructor; assumption).
  - destruct e as [e|l'|c]; try constructor. destruct (Nat.eqb l l'); constructor.
  - apply sproj_refuse.
Qed.

Lemma sproj_first s r : sproj s r -> sproj (first_s s) (first_s r).
Proof. destruct 1 as [|x p k k' H|e| | |e r Hp]; cbn [first_s]; try (constructor; fail); [apply sproj_sone|apply sp_refuse; exact Hp]. Qed.

Lemma sproj_last s r : sproj s r -> forall cs cr, match cs, cr with Some (x, _), Some y => x = y | None, None => True | _, _ => False end ->
  sproj (last_go cs s) (last_go cr r).
Proof.
  induction 1 as [|x p k k' H IH|e| | |e r Hp]; intros cs cr Hc; cbn [last_go]; try (constructor; fail).
  - destruct cs as [[x q]|], cr as [y|]; try contradiction; [subst; apply sproj_sone|constructor].
  - apply IH. reflexivity.
  - apply sp_refuse. exact Hp.
Qed.

Lemma sproj_limit_go s r : sproj s r -> forall n, sproj (limit_go n s) (limit_go n r).
Proof.
  induction 1 as [|x p k k' H IH|e| | |e r Hp]; intros n.
  - cbn [limit_go]. destruct (negb _); [constructor|]. destruct (vsub n (vint 1)); constructor.
  - cbn [limit_go]. destruct (negb _); [constructor|]. destruct (vsub n (vint 1)); [|constructor]. constructor. apply IH.
  - cbn [limit_go]. destruct (negb _); [constructor|]. destruct (vsub n (vint 1)); constructor.
  - cbn [limit_go]. destruct (negb _); [constructor|]. destruct (vsub n (vint 1)); constructor.
  - cbn [limit_go]. destruct (negb _); [constructor|]. destruct (vsub n (vint 1)); constructor.
  - destruct r; cbn [limit_go]; (destruct (negb _); [constructor|]); (destruct (vsub n (vint 1)); [|constructor]); apply sp_refuse; exact Hp.
Qed.

Lemma sproj_skip_go s r : sproj s r -> forall n, sproj (skip_go n s) (skip_go n r).
Proof.
  induction 1 as [|x p k k' H IH|e| | |e r Hp]; intros n.
  - cbn [skip_go]. destruct (negb _); [constructor|]. destruct (vsub n (vint 1)); constructor.
  - cbn [skip_go]. destruct (negb _); [constructor; exact H|]. destruct (vsub n (vint 1)); [|constructor]. apply IH.
  - cbn [skip_go]. destruct (negb _); [constructor|]. destruct (vsub n (vint 1)); constructor.
  - cbn [skip_go]. destruct (negb _); [constructor|]. destruct (vsub n (vint 1)); constructor.
  - cbn [skip_go]. destruct (negb _); [constructor|]. destruct (vsub n (vint 1)); constructor.
  - destruct r; cbn [skip_go]; (destruct (negb _); [apply sp_refuse; exact Hp|]); (destruct (vsub n (vint 1)); [|constructor]); apply sp_refuse; exact Hp.
Qed.

Lemma sproj_limit s r n : sproj (s tt) (r tt) -> sproj (limit n s) (limit n r).
Proof. intros H. unfold limit. destruct (val_leb n (vint 0)); [constructor|]. apply sproj_limit_go. exact H. Qed.
Lemma sproj_skip s r n : sproj s r -> sproj (skip n s) (skip n r).
Proof. intros H. unfold skip. destruct (val_leb n (vint 0)); [exact H|]. apply sproj_skip_go. exact H. Qed.

(** when the path evaluator does not refuse, the values are exactly the outputs *)
Fixpoint accepted {A} (s : str A) : Prop :=
  match s with
  | SCons _ k => accepted (k tt)
  | SExn e => ~ patherr e
  | _ => True
  end.
Lemma sproj_exact s r : sproj s r -> accepted s -> smap fst s = r.
Proof.
  induction 1 as [|x p k k' H IH|e| | |e r Hp]; cbn [accepted smap]; intros A; try reflexivity.
  - cbn [fst]. f_equal. apply functional_extensionality. intros []. apply IH. exact A.
  - contradiction.
Qed.

(** ** the path fragment *)
Fixpoint ok_term (k : term) : Prop :=
  match k with
  | KAlt _ _ | KTryCatch _ _ => False
  | KPipe l None r => ok_term l /\ ok_term r
  | KPipe _ (Some PatVar) r => ok_term r
  | KPipe _ (Some (PatIdx _)) _ => False
  | KComma l r => ok_term l /\ ok_term r
  | KIte _ th el => ok_term th /\ ok_term el
  | KPath f _ => ok_term f
  | KFold _ PatVar init upd ft => ok_term init /\ ok_term upd /\ match ft with Foreach (Some p) => ok_term p | _ => True end
  | KFold _ (PatIdx _) _ _ _ => False
  | KCallDef _ args _ _ | KNative _ args =>
      (fix go (l : list (bool * term)) : Prop := match l with [] => True | (_, a) :: r => ok_term a /\ go r end) args
  | KLabel f => ok_term f
  | _ => True
  end.

Definition ok_args (args : list (bool * term)) : Prop := Forall (fun ba => ok_term (snd ba)) args.
Lemma ok_args_go args :
  (fix go (l : list (bool * term)) : Prop := match l with [] => True | (_, a) :: r => ok_term a /\ go r end) args -> ok_args args.
Proof. induction args as [|[b a] r IH]; intros H; constructor; [exact (proj1 H)|apply IH; exact (proj2 H)]. Qed.

Fixpoint ok_bind (b : bind) : Prop :=
  match b with
  | BFun t vs => ok_term t /\ (fix go (l : list bind) : Prop := match l with [] => True | x :: r => ok_bind x /\ go r end) vs
  | _ => True
  end.
Definition ok_ctx (c : ctx) : Prop := Forall ok_bind (vars c).
Lemma ok_bind_fun t vs : ok_bind (BFun t vs) -> ok_term t /\ Forall ok_bind vs.
Proof. cbn [ok_bind]. intros [H1 H2]. split; [exact H1|]. induction vs as [|x r IH]; constructor; [exact (proj1 H2)|apply IH; exact (proj2 H2)]. Qed.
Lemma ok_bind_fun_intro t vs : ok_term t -> Forall ok_bind vs -> ok_bind (BFun t vs).
Proof. intros H1 H2. cbn [ok_bind]. split; [exact H1|]. induction H2 as [|x r Hx _ IH]; [exact I|split; assumption]. Qed.

Lemma recurse_project n : forall v p, sproj (recurse_paths n (v, p)) (recurse_vals n v).
Proof.
  induction n as [|n IH]; intros v p; [constructor|]. cbn [recurse_paths recurse_vals fst snd]. constructor.
  pose proof (key_values_values v) as H. destruct (vkey_values v) as [kvs|e1], (vvalues v) as [vs|e2]; try contradiction; [|constructor].
  subst vs. induction kvs as [|[k x] kvs IHk]; cbn [map of_list sbind]; [constructor|].
  apply sproj_sapp; [apply IH|exact IHk].
Qed.

Section PROJECT.
  Variable d : val -> bytes.
  Variable nr : nat -> bytes -> list narg -> val -> option (str val).
  Variable defs : list term.
  Hypothesis Hdefs : Forall ok_term defs.
  Notation run := (run d nr defs).
  Notation paths := (paths d nr defs).
  Notation bind_vars := (bind_vars d nr defs).
  Notation bind_nargs := (bind_nargs d nr defs).
  Notation explode := (explode d nr defs).
  Notation run_and_bind := (run_and_bind d nr defs).

  (** the loops of reduce/foreach, named *)
  Definition gop (n : nat) (upd : term) (ft : foldtype) :=
    fix go (xs : str ctx) (acc : val * vpath) : str (val * vpath) :=
      match xs with
      | SNil => match ft with Reduce => sone acc | Foreach _ => SNil end
      | SCons cx k =>
          sbind (paths n upd cx acc) (fun y =>
            sapp (match ft with
                  | Reduce => SNil
                  | Foreach None => sone y
                  | Foreach (Some p) => paths n p cx y
                  end) (fun _ => go (k tt) y))
      | SExn e => SExn e
      | SBot => SBot
      | SUnk => SUnk
      end.
  Definition gor (n : nat) (upd : term) (ft : foldtype) :=
    fix go (xs : str ctx) (acc : val) : str val :=
      match xs with
      | SNil => match ft with Reduce => sone acc | Foreach _ => SNil end
      | SCons cx k =>
          sbind (run n upd cx acc) (fun y =>
            sapp (match ft with
                  | Reduce => SNil
                  | Foreach None => sone y
                  | Foreach (Some p) => run n p cx y
                  end) (fun _ => go (k tt) y))
      | SExn e => SExn e
      | SBot => SBot
      | SUnk => SUnk
      end.

  (** the clauses of the two evaluators *)
  Lemma p_pipe n l r c vp : paths (S n) (KPipe l None r) c vp = sbind (paths n l c vp) (fun y => paths n r c y). Proof. reflexivity. Qed.
  Lemma r_pipe n l r c v : run (S n) (KPipe l None r) c v = sbind (run n l c v) (fun y => run n r c y). Proof. reflexivity. Qed.
  Lemma p_bind n l r c vp : paths (S n) (KPipe l (Some PatVar) r) c vp = sbind (run n l c (fst vp)) (fun y => paths n r (cons_var y c) vp). Proof. reflexivity. Qed.
  Lemma r_bind n l r c v : run (S n) (KPipe l (Some PatVar) r) c v = sbind (run n l c v) (fun y => run n r (cons_var y c) v). Proof. reflexivity. Qed.
  Lemma p_comma n l r c vp : paths (S n) (KComma l r) c vp = sapp (paths n l c vp) (fun _ => paths n r c vp). Proof. reflexivity. Qed.
  Lemma r_comma n l r c v : run (S n) (KComma l r) c v = sapp (run n l c v) (fun _ => run n r c v). Proof. reflexivity. Qed.
  Lemma p_ite n i th el c vp : paths (S n) (KIte i th el) c vp = sbind (run n i c (fst vp)) (fun x => paths n (if as_bool x then th else el) c vp). Proof. reflexivity. Qed.
  Lemma r_ite n i th el c v : run (S n) (KIte i th el) c v = sbind (run n i c v) (fun x => run n (if as_bool x then th else el) c v). Proof. reflexivity. Qed.
  Lemma p_path n f path c vp : paths (S n) (KPath f path) c vp = sbind (paths n f c vp) (fun y => sbind (explode n path c (fst vp)) (fun ps => path_paths ps y)). Proof. reflexivity. Qed.
  Lemma r_path n f path c v : run (S n) (KPath f path) c v = sbind (run n f c v) (fun y => sbind (explode n path c v) (fun ps => path_run ps y)). Proof. reflexivity. Qed.
  Lemma p_var n i c vp : paths (S n) (KVar i) c vp =
    match nth_bind c i with
    | Some (BVar _) => serr (EPathExpr (fst vp))
    | Some (BFun f fvars) => paths n f (with_vars fvars c) vp
    | Some (BLabel l) => SExn (XBreak l)
    | None => SUnk
    end. Proof. reflexivity. Qed.
  Lemma r_var n i c v : run (S n) (KVar i) c v =
    match nth_bind c i with
    | Some (BVar x) => sone x
    | Some (BFun f fvars) => run n f (with_vars fvars c) v
    | Some (BLabel l) => SExn (XBreak l)
    | None => SUnk
    end. Proof. reflexivity. Qed.
  Lemma p_fold n xs init upd ft c vp : paths (S n) (KFold xs PatVar init upd ft) c vp =
    sbind (paths n init c vp) (fun i => gop n upd ft (run_and_bind n xs c (fst vp) PatVar) i). Proof. reflexivity. Qed.
  Lemma r_fold n xs init upd ft c v : run (S n) (KFold xs PatVar init upd ft) c v =
    sbind (run n init c v) (fun i => gor n upd ft (run_and_bind n xs c v PatVar) i). Proof. reflexivity. Qed.
  Lemma p_call n id args skip ct c vp : paths (S n) (KCallDef id args skip ct) c vp =
    match nth_error defs id with
    | Some body => sbind (bind_vars n args (skip_vars skip c) c (fst vp)) (fun c' => paths n body c' vp)
    | None => SUnk
    end. Proof. reflexivity. Qed.
  Lemma r_call n id args skip ct c v : run (S n) (KCallDef id args skip ct) c v =
    match nth_error defs id with
    | Some body => sbind (bind_vars n args (skip_vars skip c) c v) (fun c' => run n body c' v)
    | None => SUnk
    end. Proof. reflexivity. Qed.
  Lemma p_native n name args c vp : paths (S n) (KNative name args) c vp =
    sbind (bind_nargs n args [] c (fst vp)) (fun nargs => native_paths name (rev nargs) vp). Proof. reflexivity. Qed.
  Lemma r_native n name args c v : run (S n) (KNative name args) c v =
    sbind (bind_nargs n args [] c v) (fun nargs => native nr n name (rev nargs) v). Proof. reflexivity. Qed.
  Lemma p_label n f c vp : paths (S n) (KLabel f) c vp = slabel (labels (cons_label c)) (paths n f (cons_label c) vp). Proof. reflexivity. Qed.
  Lemma r_label n f c v : run (S n) (KLabel f) c v = slabel (labels (cons_label c)) (run n f (cons_label c) v). Proof. reflexivity. Qed.
  Lemma rab_var n xs c v : run_and_bind (S n) xs c v PatVar = sbind (run n xs c v) (fun y => sone (cons_var y c)). Proof. reflexivity. Qed.
  Lemma bv_nil n acc c v : bind_vars (S n) [] acc c v = sone acc. Proof. reflexivity. Qed.
  Lemma bv_var n a rest acc c v : bind_vars (S n) ((true, a) :: rest) acc c v = sbind (run n a c v) (fun y => bind_vars n rest (cons_var y acc) c v). Proof. reflexivity. Qed.
  Lemma bv_fun n a rest acc c v : bind_vars (S n) ((false, a) :: rest) acc c v = bind_vars n rest (cons_fun a c acc) c v. Proof. reflexivity. Qed.
  Lemma bn_nil n acc c v : bind_nargs (S n) [] acc c v = sone acc. Proof. reflexivity. Qed.
  Lemma bn_var n a rest acc c v : bind_nargs (S n) ((true, a) :: rest) acc c v = sbind (run n a c v) (fun y => bind_nargs n rest (NV y :: acc) c v). Proof. reflexivity. Qed.
  Lemma bn_fun n a rest acc c v : bind_nargs (S n) ((false, a) :: rest) acc c v =
    bind_nargs n rest (NF {| cl_run := fun x => run n a c x; cl_paths := fun xp => paths n a c xp |} :: acc) c v. Proof. reflexivity. Qed.

  Notation sforall := GetpathLaws.sforall.

  Definition narg_ok (a : narg) : Prop :=
    match a with NV _ => True | NF cl => forall x p, sproj (cl_paths cl (x, p)) (cl_run cl x) end.

  (** the natives with a path mode - first, last, limit, skip over a filter argument - project; every other native refuses *)
  Lemma native_project n name args x p : Forall narg_ok args ->
    sproj (native_paths name args (x, p)) (native nr n name args x).
  Proof.
    intros Ha. unfold native_paths, core_paths.
    destruct (bytes_eqb_spec name n_first) as [->|N1].
    { destruct args as [|[v|cl] [|? ?]]; try apply sproj_refuse. inversion Ha as [|? ? H _]; subst.
      unfold native. change (core_run n n_first [NF cl] x) with (Some (first_s (cl_run cl x))). apply sproj_first. apply H. }
    destruct (bytes_eqb_spec name n_last) as [->|N2].
    { destruct args as [|[v|cl] [|? ?]]; try apply sproj_refuse. inversion Ha as [|? ? H _]; subst.
      unfold native. change (core_run n n_last [NF cl] x) with (Some (last_s (cl_run cl x))). unfold last_s. apply sproj_last; [apply H|exact I]. }
    destruct (bytes_eqb_spec name n_limit) as [->|N3].
    { destruct args as [|[k|cl] [|[v|cl'] [|? ?]]]; try apply sproj_refuse. inversion Ha as [|? ? _ Ha']; subst. inversion Ha' as [|? ? H _]; subst.
      unfold native. change (core_run n n_limit [NV k; NF cl'] x) with (Some (limit k (fun _ => cl_run cl' x))). apply sproj_limit. apply H. }
    destruct (bytes_eqb_spec name n_skip) as [->|N4].
    { destruct args as [|[k|cl] [|[v|cl'] [|? ?]]]; try apply sproj_refuse. inversion Ha as [|? ? _ Ha']; subst. inversion Ha' as [|? ? H _]; subst.
      unfold native. change (core_run n n_skip [NV k; NF cl'] x) with (Some (skip k (cl_run cl' x))). apply sproj_skip. apply H. }
    apply sproj_refuse.
  Qed.

  Lemma ok_cons_var y c : ok_ctx c -> ok_ctx (cons_var y c).
  Proof. intros H. constructor; [exact I|exact H]. Qed.
  Lemma ok_cons_label c : ok_ctx c -> ok_ctx (cons_label c).
  Proof. intros H. constructor; [exact I|exact H]. Qed.
  Lemma ok_cons_fun a c acc : ok_term a -> ok_ctx c -> ok_ctx acc -> ok_ctx (cons_fun a c acc).
  Proof. intros Ha Hc Hacc. constructor; [apply ok_bind_fun_intro; assumption|exact Hacc]. Qed.
  Lemma ok_skip k c : ok_ctx c -> ok_ctx (skip_vars k c).
  Proof.
    unfold ok_ctx, skip_vars. cbn [vars]. intros H. rewrite <- (firstn_skipn k (vars c)) in H. apply Forall_app in H. exact (proj2 H).
  Qed.

  Lemma sforall_true {A} (s : str A) : sforall (fun _ => True) s.
  Proof. induction s as [|x k IH|e| |]; cbn; auto. Qed.

  Section STEP.
    Variable n : nat.
    Hypothesis T : forall k c x p, ok_term k -> ok_ctx c -> sproj (paths n k c (x, p)) (run n k c x).

    Lemma go_project upd ft : ok_term upd -> match ft with Foreach (Some pr) => ok_term pr | _ => True end ->
      forall xs, sforall ok_ctx xs -> forall a p, sproj (gop n upd ft xs (a, p)) (gor n upd ft xs a).
    Proof.
      intros Hu Hp xs. induction xs as [|cx k IH|e| |]; intros Hx a p; cbn [gop gor]; try constructor.
      - destruct ft; [apply sproj_sone|constructor].
      - destruct Hx as [Hcx Hk]. apply sproj_sbind; [apply T; assumption|]. intros y q.
        apply sproj_sapp; [|apply IH; exact Hk]. destruct ft as [|[pr|]]; [constructor|apply T; assumption|apply sproj_sone].
    Qed.
  End STEP.

  Theorem project_all n :
    (forall k c x p, ok_term k -> ok_ctx c -> sproj (paths n k c (x, p)) (run n k c x))
    /\ (forall args acc c v, ok_args args -> ok_ctx acc -> ok_ctx c -> sforall ok_ctx (bind_vars n args acc c v))
    /\ (forall args acc c v, ok_args args -> ok_ctx c -> Forall narg_ok acc -> sforall (Forall narg_ok) (bind_nargs n args acc c v)).
  Proof.
    induction n as [|n (T & B & N)]; [repeat split; intros; cbn; auto; constructor|]. split; [|split].
    - intros k c x p Hk Hc. destruct k; try (exact (sproj_refuse _ _)); try contradiction.
      + (* . *) apply sproj_sone.
      + (* .. *) apply recurse_project.
      + (* variable or closure *) rewrite p_var, r_var. cbn [fst]. destruct (nth_bind c i) as [[y|l|f fvars]|] eqn:E.
        * apply sproj_refuse.
        * apply sp_exn.
        * unfold nth_bind in E. apply nth_error_In in E. unfold ok_ctx in Hc. rewrite Forall_forall in Hc. destruct (ok_bind_fun _ _ (Hc _ E)) as [Hf Hv].
          apply T; [exact Hf|exact Hv].
        * apply sp_unk.
      + (* call *) rewrite p_call, r_call. cbn [fst]. destruct (nth_error defs d0) as [body|] eqn:E; [|constructor].
        assert (Hb : ok_term body) by (rewrite Forall_forall in Hdefs; apply Hdefs; apply nth_error_In in E; exact E).
        cbn [ok_term] in Hk. apply ok_args_go in Hk.
        pose proof (B args (skip_vars skip c) c x Hk (ok_skip _ _ Hc) Hc) as HB.
        generalize dependent (bind_vars n args (skip_vars skip c) c x). intros s HB.
        induction s as [|c' k IH|e| |]; cbn [sbind]; try constructor. destruct HB as [H1 H2]. apply sproj_sapp; [apply T; assumption|apply IH; exact H2].
      + (* native *) rewrite p_native, r_native. cbn [fst]. cbn [ok_term] in Hk. apply ok_args_go in Hk.
        pose proof (N args [] c x Hk Hc (Forall_nil _)) as HN.
        generalize dependent (bind_nargs n args [] c x). intros s HN.
        induction s as [|na k IH|e| |]; cbn [sbind]; try constructor. destruct HN as [H1 H2].
        apply sproj_sapp; [apply native_project; apply Forall_rev; exact H1|apply IH; exact H2].
      + (* label *) rewrite p_label, r_label. apply sproj_slabel. apply T; [exact Hk|apply ok_cons_label; exact Hc].
      + (* pipe / binding *) destruct pat as [[|ps]|]; cbn [ok_term] in Hk; try contradiction.
        * rewrite p_bind, r_bind. cbn [fst]. apply sproj_sbind_same. intros y. apply T; [exact Hk|apply ok_cons_var; exact Hc].
        * destruct Hk as [H1 H2]. rewrite p_pipe, r_pipe. apply sproj_sbind; [apply T; assumption|]. intros y q. apply T; assumption.
      + (* comma *) destruct Hk as [H1 H2]. rewrite p_comma, r_comma. apply sproj_sapp; apply T; assumption.
      + (* if *) destruct Hk as [H1 H2]. rewrite p_ite, r_ite. cbn [fst]. apply sproj_sbind_same. intros y. apply T; [destruct (as_bool y); assumption|exact Hc].
      + (* reduce / foreach *) destruct pat as [|ps]; cbn [ok_term] in Hk; [|contradiction]. destruct Hk as (H1 & H2 & H3).
        rewrite p_fold, r_fold. cbn [fst]. apply sproj_sbind; [apply T; assumption|]. intros i q.
        apply go_project; [exact T|exact H2|exact H3|].
        destruct n as [|m]; [exact I|]. rewrite rab_var. eapply GetpathLaws.sforall_sbind; [apply sforall_true|]. intros y _. cbn. split; [apply ok_cons_var; exact Hc|exact I].
      + (* path *) cbn [ok_term] in Hk. rewrite p_path, r_path. cbn [fst]. apply sproj_sbind; [apply T; assumption|]. intros y q.
        apply sproj_sbind_same. intros ps. apply sproj_of_smap. apply path_paths_project.
    - (* the contexts of a call *)
      intros args acc c v Ha Hacc Hc. destruct args as [|[[|] a] rest].
      + rewrite bv_nil. cbn. auto.
      + inversion Ha as [|? ? _ Hr]; subst. rewrite bv_var. eapply GetpathLaws.sforall_sbind; [apply sforall_true|]. intros y _.
        apply B; [exact Hr|apply ok_cons_var; exact Hacc|exact Hc].
      + inversion Ha as [|? ? Hx Hr]; subst. rewrite bv_fun. apply B; [exact Hr|apply ok_cons_fun; assumption|exact Hc].
    - (* the arguments of a native *)
      intros args acc c v Ha Hc Hacc. destruct args as [|[[|] a] rest].
      + rewrite bn_nil. cbn. auto.
      + inversion Ha as [|? ? _ Hr]; subst. rewrite bn_var. eapply GetpathLaws.sforall_sbind; [apply sforall_true|]. intros y _.
        apply N; [exact Hr|exact Hc|constructor; [exact I|exact Hacc]].
      + inversion Ha as [|? ? Hx Hr]; subst. rewrite bn_fun. apply N; [exact Hr|exact Hc|].
        constructor; [|exact Hacc]. cbn [narg_ok cl_paths cl_run]. intros y q. apply T; assumption.
  Qed.

  (** path(f) lists, in order, the positions of exactly the values f outputs *)
  Theorem paths_carry_the_outputs n k c x p : ok_term k -> ok_ctx c -> sproj (paths n k c (x, p)) (run n k c x).
  Proof. apply (proj1 (project_all n)). Qed.

  Corollary paths_values_exact n k c x p : ok_term k -> ok_ctx c -> accepted (paths n k c (x, p)) ->
    smap fst (paths n k c (x, p)) = run n k c x.
  Proof. intros Hk Hc. apply sproj_exact. apply paths_carry_the_outputs; assumption. Qed.
End PROJECT.

(** the fragment contains the usual path expressions, e.g. the compiled form of  .[] | (if . then .a else .b end, first(.a, .b)) *)
Example ok_ex :
  let ka := KPath KId [(Index (KStr (of_ascii [97]%Z)), false)] in
  let kb := KPath KId [(Index (KStr (of_ascii [98]%Z)), true)] in
  ok_term (KPipe (KPath KId [(Range None None, false)]) None
             (KComma (KIte KId ka kb) (KNative n_first [(false, KComma ka kb)]))).
Proof. cbn. tauto. Qed.
