(** Precedence climbing: no operand or operator is lost or reordered; the grouping of every pair and triple of
    operators is the one the manual's table implies. *)
From Coq Require Import ZArith Bool List Lia Arith.
From JaqV Require Import Val.Err Parse.PrecClimb.
Import ListNotations.

Definition relabel (o : bop) (l : list (option bop * nat)) : list (option bop * nat) :=
  match l with (_, n) :: t => (Some o, n) :: t | [] => [] end.

Fixpoint flat_chain (c : chain) : list (option bop * nat) :=
  match c with
  | [] => []
  | (o, e) :: r => relabel o (flat e) ++ flat_chain r
  end.

Lemma flat_bin x o r : flat (Bin x o r) = flat x ++ relabel o (flat r).
Proof. reflexivity. Qed.

Lemma climb_flat_both fuel :
  (forall x rest mp, let '(x', rest') := climb1 fuel x rest mp in flat x' ++ flat_chain rest' = flat x ++ flat_chain rest) /\
  (forall o rhs rest, let '(r', rest') := inner fuel o rhs rest in
                      relabel o (flat r') ++ flat_chain rest' = relabel o (flat rhs) ++ flat_chain rest).
Proof.
  induction fuel as [|fuel [IH1 IH2]].
  - split; intros; cbn; reflexivity.
  - split.
    + intros x rest mp. cbn [climb1]. destruct rest as [|[o rhs] rest']; [reflexivity|].
      destruct (mp <=? prec o); [|reflexivity].
      specialize (IH2 o rhs rest'). destruct (inner fuel o rhs rest') as [rhs' rest''].
      specialize (IH1 (Bin x o rhs') rest'' mp). destruct (climb1 fuel (Bin x o rhs') rest'' mp) as [x' r'].
      rewrite IH1. rewrite flat_bin. rewrite <- app_assoc. rewrite IH2. reflexivity.
    + intros o rhs rest. cbn [inner]. destruct rest as [|[next e] rest']; [reflexivity|].
      destruct ((prec o <? prec next) || (right_assoc o && (prec next =? prec o))); [|reflexivity].
      pose proof (IH1 rhs ((next, e) :: rest') (prec next)) as H1.
      destruct (climb1 fuel rhs ((next, e) :: rest') (prec next)) as [rhs' rest''].
      pose proof (IH2 o rhs' rest'') as H2. destruct (inner fuel o rhs' rest'') as [r3 rest3].
      rewrite H2.
      (* relabel commutes with appending a non-empty tail *)
      assert (Hr : forall a b, a <> [] -> relabel o (a ++ b) = relabel o a ++ b).
      { intros a b Ha. destruct a as [|[? ?] a']; [contradiction | reflexivity]. }
      assert (Hne : forall e0, flat e0 <> []).
      { induction e0 as [n|l IHl o0 r IHr]; cbn; [discriminate|].
        destruct (flat l); [contradiction | discriminate]. }
      rewrite <- (Hr (flat rhs') (flat_chain rest'') (Hne rhs')). rewrite H1.
      rewrite (Hr (flat rhs) _ (Hne rhs)). reflexivity.
Qed.

(** the parsed tree reads back, in order, as exactly the operands and operators of the input (plain chains) *)
Theorem climb_preserves_sequence x rest :
  exists rest', flat (climb_plain x rest) ++ flat_chain rest' = flat x ++ flat_chain rest.
Proof.
  unfold climb_plain.
  pose proof (proj1 (climb_flat_both (S (2 * length rest))) x rest 0) as H.
  destruct (climb1 (S (2 * length rest)) x rest 0) as [x' rest']. exists rest'. exact H.
Qed.

(** ** the manual's table *)
Definition all_ops : list bop :=
  [OPipe; OComma; OAs 0; OAssign; OUpdate; OUpdMath Add; OUpdMath Sub; OUpdMath Mul; OUpdMath Div; OUpdMath Rem; OUpdAlt;
   OAlt; OOr; OAnd; OCmp Eq_; OCmp Ne_; OCmp Lt_; OCmp Le_; OCmp Gt_; OCmp Ge_; OMath Add; OMath Sub; OMath Mul; OMath Div; OMath Rem].

(** docs: `|` < `,` < `as $x |` < `=` `|=` `+=` ... `//=` < `//` < `or` < `and` < `==` `!=` < `<` `<=` `>` `>=` < `+` `-` < `*` `/` < `%` *)
Definition doc_table : list (list bop) :=
  [[OPipe]; [OComma]; [OAs 0]; [OAssign; OUpdate; OUpdMath Add; OUpdMath Sub; OUpdMath Mul; OUpdMath Div; OUpdMath Rem; OUpdAlt];
   [OAlt]; [OOr]; [OAnd]; [OCmp Eq_; OCmp Ne_]; [OCmp Lt_; OCmp Le_; OCmp Gt_; OCmp Ge_]; [OMath Add; OMath Sub]; [OMath Mul; OMath Div]; [OMath Rem]].

Definition bop_eqb (a b : bop) : bool :=
  match a, b with
  | OPipe, OPipe | OComma, OComma | OAssign, OAssign | OUpdate, OUpdate | OUpdAlt, OUpdAlt | OAlt, OAlt | OOr, OOr | OAnd, OAnd => true
  | OAs x, OAs y => Nat.eqb x y
  | OUpdMath x, OUpdMath y | OMath x, OMath y =>
      match x, y with Add, Add | Sub, Sub | Mul, Mul | Div, Div | Rem, Rem => true | _, _ => false end
  | OCmp x, OCmp y =>
      match x, y with Lt_, Lt_ | Le_, Le_ | Gt_, Gt_ | Ge_, Ge_ | Eq_, Eq_ | Ne_, Ne_ => true | _, _ => false end
  | _, _ => false
  end.

Fixpoint level_in (o : bop) (t : list (list bop)) (i : nat) : nat :=
  match t with
  | [] => i
  | g :: r => if existsb (bop_eqb o) g then i else level_in o r (S i)
  end.

Definition doc_level (o : bop) : nat := level_in o doc_table 0.
(** `|` and the assignments group to the right, bindings extend as far right as possible, all others to the left *)
Definition doc_right (o : bop) : bool := (doc_level o =? 0) || (doc_level o =? 2) || (doc_level o =? 3).

Theorem prec_table : forallb (fun o => (prec o =? doc_level o) && Bool.eqb (right_assoc o) (doc_right o)) all_ops = true.
Proof. vm_compute. reflexivity. Qed.

(** the grouping the table implies for `a o1 b o2 c` *)
Definition groups_right (o1 o2 : bop) : bool :=
  match o1 with
  | OAs _ => true
  | _ => (doc_level o1 <? doc_level o2) || ((doc_level o1 =? doc_level o2) && doc_right o1)
  end.

Definition expected2 (o1 o2 : bop) : expr :=
  if groups_right o1 o2 then Bin (Atom 0) o1 (Bin (Atom 1) o2 (Atom 2))
  else Bin (Bin (Atom 0) o1 (Atom 1)) o2 (Atom 2).

Fixpoint expr_eqb (a b : expr) : bool :=
  match a, b with
  | Atom x, Atom y => Nat.eqb x y
  | Bin l o r, Bin l' o' r' => expr_eqb l l' && bop_eqb o o' && expr_eqb r r'
  | _, _ => false
  end.

Theorem all_pairs_group_as_tabulated :
  forallb (fun o1 => forallb (fun o2 => expr_eqb (parse_chain (Atom 0) [(o1, Atom 1); (o2, Atom 2)]) (expected2 o1 o2)) all_ops) all_ops = true.
Proof. vm_compute. reflexivity. Qed.

(** triples: fully parenthesise by the table (reference: insert operators one by one by precedence; a binding on the
    right spine takes everything that follows), compare *)
Fixpoint spine_has_as (e : expr) : bool :=
  match e with
  | Bin _ (OAs _) _ => true
  | Bin _ _ r => spine_has_as r
  | Atom _ => false
  end.

Fixpoint insert_right (e : expr) (o : bop) (a : expr) : expr :=
  match e with
  | Bin l o0 r => if groups_right o0 o || spine_has_as r then Bin l o0 (insert_right r o a) else Bin e o a
  | Atom _ => Bin e o a
  end.

Definition reference3 (o1 o2 o3 : bop) : expr :=
  insert_right (insert_right (Bin (Atom 0) o1 (Atom 1)) o2 (Atom 2)) o3 (Atom 3).

Theorem all_triples_group_as_tabulated :
  forallb (fun o1 => forallb (fun o2 => forallb (fun o3 =>
    expr_eqb (parse_chain (Atom 0) [(o1, Atom 1); (o2, Atom 2); (o3, Atom 3)]) (reference3 o1 o2 o3)) all_ops) all_ops) all_ops = true.
Proof. vm_compute. reflexivity. Qed.
