(** Compiler correctness with definitions: as Proofs/CompileCorrect.v, extended by (possibly recursive, nested) definitions
    without parameters that capture the variables and labels in scope.  The named semantics keeps closures (body, the
    environment at the definition, the older definitions); the compiled code reaches a definition through the table of
    definitions and drops the bindings made since the definition ([skip]).  The theorem relates the two for every table
    that contains what the compiler allocated. *)
From Coq Require Import ZArith Bool List Lia FunctionalExtensionality Wf_nat.
From JaqV Require Import Base.Bytes Base.Stream Val.Num Val.Val Val.Err Val.Arith Core.Syntax Core.Compile Core.Natives Core.Run
  Proofs.TailLaws Proofs.MonadLaws.
From JaqV Require Proofs.CompileCorrect.
Import ListNotations.

Section CD.
  Variable g : genv.
  Variable d : val -> bytes.
  Variable nr : nat -> bytes -> list narg -> val -> option (str val).
  Notation run := (run d nr).
  Notation explode := (explode d nr).

  (** ** named semantics with closures *)
  Definition nenv := list (cbind * bind).
  Fixpoint lookup (rho : nenv) (x : cbind) : option bind :=
    match rho with [] => None | (y, a) :: r => if cbind_eqb x y then Some a else lookup r x end.

  Definition clo := (bytes * pterm * nenv)%type.
  Fixpoint find_def (f : bytes) (phi : list clo) : option (pterm * nenv * list clo) :=
    match phi with
    | [] => None
    | (f', body, rd) :: r => if bytes_eqb f f' then Some (body, rd, phi) else find_def f r
    end.

  (** the definitions in front of a term: `def f: b; def g: c; t` *)
  Fixpoint strip (t : pterm) : list (bytes * pterm) * pterm :=
    match t with
    | PDef [PDefn f [] body] t' => let '(ds, t0) := strip t' in ((f, body) :: ds, t0)
    | _ => ([], t)
    end.
  Definition push_defs (ds : list (bytes * pterm)) (rho : nenv) (phi : list clo) : list clo :=
    fold_left (fun ph fb => (fst fb, snd fb, rho) :: ph) ds phi.

  Notation fold_go := CompileCorrect.fold_go.

  Fixpoint sem (n : nat) (t : pterm) (rho : nenv) (phi0 : list clo) (lab : nat) (v : val) {struct n} : str val :=
    match n with
    | O => SBot
    | S n =>
        let '(ds, t0) := strip t in
        let phi := push_defs ds rho phi0 in
        let cart := fun l r => sbind (sem n l rho phi lab v) (fun x => smap (fun y => (x, y)) (sem n r rho phi lab v)) in
        match t0 with
        | PId => sone v
        | PNum x => sone (match int_literal x with Some i => vint i | None => Num (from_str x) end)
        | PVar x => match lookup rho (CVar x) with Some (BVar a) => sone a | _ => SUnk end
        | PBreak x => match lookup rho (CLabel x) with Some (BLabel l) => SExn (XBreak l) | _ => SUnk end
        | PLabel x t => slabel (S lab) (sem n t ((CLabel x, BLabel (S lab)) :: rho) phi (S lab) v)
        | PCall f [] =>
            match find_def f phi with
            | Some (body, rd, phis) => match n with O => SBot | S _ => sem n body rd phis lab v end
            | None => SUnk
            end
        | PNeg t => sbind (sem n t rho phi lab v) (fun x => of_res (vneg x))
        | PArr (Some t) => collect_then (sem n t rho phi lab v) (fun l => sone (Arr l))
        | PTryCatch t (Some c) => stry (sem n t rho phi lab v) (fun e => sem n c rho phi lab (err_val d e))
        | PIte [(i, th)] (Some el) => sbind (sem n i rho phi lab v) (fun x => sem n (if as_bool x then th else el) rho phi lab v)
        | PBinOp l op r =>
            match op with
            | BPipe None => sbind (sem n l rho phi lab v) (fun y => sem n r rho phi lab y)
            | BPipe (Some (PPVar x)) => sbind (sem n l rho phi lab v) (fun y => sem n r ((CVar x, BVar y) :: rho) phi lab v)
            | BComma => sapp (sem n l rho phi lab v) (fun _ => sem n r rho phi lab v)
            | BAlt => match sfilter as_bool (sem n l rho phi lab v) with SNil => sem n r rho phi lab v | s => s end
            | BMath o => sbind (cart l r) (fun xy => of_res_opt (math_run o (fst xy) (snd xy)))
            | BCmp o => smap (fun xy => Bool (cmp_run o (fst xy) (snd xy))) (cart l r)
            | BOr => sbind (sem n l rho phi lab v) (fun x => if Bool.eqb (as_bool x) true then sone (Bool true)
                                                         else smap (fun y => Bool (as_bool y)) (sem n r rho phi lab v))
            | BAnd => sbind (sem n l rho phi lab v) (fun x => if Bool.eqb (as_bool x) false then sone (Bool false)
                                                          else smap (fun y => Bool (as_bool y)) (sem n r rho phi lab v))
            | _ => SUnk
            end
        | PPath t path => sbind (sem n t rho phi lab v) (fun y => sbind (sexplode n path rho phi lab v) (fun ps => path_run ps y))
        | PFold name xs (PPVar x) (init :: upd :: rest) =>
            let xsv := match n with O => SBot | S n' => sem n' xs rho phi lab v end in
            let step := fun y acc => sem n upd ((CVar x, BVar y) :: rho) phi lab acc in
            if bytes_eqb name name_reduce then
              match rest with
              | [] => sbind (sem n init rho phi lab v) (fold_go step (fun _ _ => SNil) sone xsv)
              | _ => SUnk
              end
            else if bytes_eqb name name_foreach then
              match rest with
              | [] => sbind (sem n init rho phi lab v) (fold_go step (fun _ z => sone z) (fun _ => SNil) xsv)
              | [proj] => sbind (sem n init rho phi lab v) (fold_go step (fun y z => sem n proj ((CVar x, BVar y) :: rho) phi lab z) (fun _ => SNil) xsv)
              | _ => SUnk
              end
            else SUnk
        | _ => SUnk
        end
    end

  with sexplode (n : nat) (path : list (ppart * bool)) (rho : nenv) (phi : list clo) (lab : nat) (v : val) {struct n}
    : str (list (vpart * bool)) :=
    match n with
    | O => SBot
    | S n =>
        match path with
        | [] => sone []
        | (p, opt) :: rest =>
            let ps :=
              match p with
              | PIndex i => smap VIndex (sem n i rho phi lab v)
              | PRange None None => sone (VRange None None)
              | PRange (Some f) None => smap (fun x => VRange (Some x) None) (sem n f rho phi lab v)
              | PRange None (Some u) => smap (fun x => VRange None (Some x)) (sem n u rho phi lab v)
              | PRange (Some f) (Some u) =>
                  sbind (sem n f rho phi lab v) (fun x => smap (fun y => VRange (Some x) (Some y)) (sem n u rho phi lab v))
              end in
            sbind ps (fun p' => smap (fun r => (p', opt) :: r) (sexplode n rest rho phi lab v))
        end
    end.

  (** ** the fragment: variables and labels in scope [b], definitions in scope [fs], nesting at most [n] *)
  Inductive frag : list cbind -> list bytes -> nat -> pterm -> Prop :=
  | f_id b fs n : frag b fs (S n) PId
  | f_num b fs n x : frag b fs (S n) (PNum x)
  | f_var b fs n x : In (CVar x) b -> frag b fs (S n) (PVar x)
  | f_neg b fs n t : frag b fs n t -> frag b fs (S n) (PNeg t)
  | f_arr b fs n t : frag b fs n t -> frag b fs (S n) (PArr (Some t))
  | f_try b fs n t c : frag b fs n t -> frag b fs n c -> frag b fs (S n) (PTryCatch t (Some c))
  | f_ite b fs n i th el : frag b fs n i -> frag b fs n th -> frag b fs n el -> frag b fs (S n) (PIte [(i, th)] (Some el))
  | f_pipe b fs n l r : frag b fs n l -> frag b fs n r -> frag b fs (S n) (PBinOp l (BPipe None) r)
  | f_bind b fs n l x r : frag b fs n l -> frag (CVar x :: b) fs n r -> frag b fs (S (S n)) (PBinOp l (BPipe (Some (PPVar x))) r)
  | f_comma b fs n l r : frag b fs n l -> frag b fs n r -> frag b fs (S n) (PBinOp l BComma r)
  | f_alt b fs n l r : frag b fs n l -> frag b fs n r -> frag b fs (S n) (PBinOp l BAlt r)
  | f_math b fs n l o r : frag b fs n l -> frag b fs n r -> frag b fs (S n) (PBinOp l (BMath o) r)
  | f_cmp b fs n l o r : frag b fs n l -> frag b fs n r -> frag b fs (S n) (PBinOp l (BCmp o) r)
  | f_or b fs n l r : frag b fs n l -> frag b fs n r -> frag b fs (S n) (PBinOp l BOr r)
  | f_and b fs n l r : frag b fs n l -> frag b fs n r -> frag b fs (S n) (PBinOp l BAnd r)
  | f_path b fs n t ps : frag b fs n t -> frag_parts b fs n ps -> frag b fs (S n) (PPath t ps)
  | f_reduce b fs n xs x init upd : frag b fs n xs -> frag b fs (S n) init -> frag (CVar x :: b) fs (S n) upd ->
      frag b fs (S (S n)) (PFold name_reduce xs (PPVar x) [init; upd])
  | f_foreach b fs n xs x init upd : frag b fs n xs -> frag b fs (S n) init -> frag (CVar x :: b) fs (S n) upd ->
      frag b fs (S (S n)) (PFold name_foreach xs (PPVar x) [init; upd])
  | f_foreach3 b fs n xs x init upd proj : frag b fs n xs -> frag b fs (S n) init -> frag (CVar x :: b) fs (S n) upd ->
      frag (CVar x :: b) fs (S n) proj -> frag b fs (S (S n)) (PFold name_foreach xs (PPVar x) [init; upd; proj])
  | f_label b fs n x t : frag (CLabel x :: b) fs n t -> frag b fs (S n) (PLabel x t)
  | f_break b fs n x : In (CLabel x) b -> frag b fs (S n) (PBreak x)
  | f_call b fs n f : In f fs -> frag b fs (S n) (PCall f [])
  | f_def b fs n f body t : frag b (f :: fs) n body -> frag b (f :: fs) (S n) t -> frag b fs (S (S n)) (PDef [PDefn f [] body] t)
  with frag_parts : list cbind -> list bytes -> nat -> list (ppart * bool) -> Prop :=
  | fp_nil b fs n : frag_parts b fs n []
  | fp_index b fs n i o ps : frag b fs n i -> frag_parts b fs n ps -> frag_parts b fs n ((PIndex i, o) :: ps)
  | fp_all b fs n o ps : frag_parts b fs n ps -> frag_parts b fs n ((PRange None None, o) :: ps)
  | fp_from b fs n f o ps : frag b fs n f -> frag_parts b fs n ps -> frag_parts b fs n ((PRange (Some f) None, o) :: ps)
  | fp_upto b fs n u o ps : frag b fs n u -> frag_parts b fs n ps -> frag_parts b fs n ((PRange None (Some u), o) :: ps)
  | fp_both b fs n f u o ps : frag b fs n f -> frag b fs n u -> frag_parts b fs n ps -> frag_parts b fs n ((PRange (Some f) (Some u), o) :: ps).

  Scheme frag_ind2 := Minimality for frag Sort Prop
    with frag_parts_ind2 := Minimality for frag_parts Sort Prop.
  Combined Scheme frag_mutind from frag_ind2, frag_parts_ind2.

  (** ** compile-time environment, run-time context, named environment *)
  Definition scoped (b : list cbind) (e : env) : Prop := forall x, In x b -> index_of x (e_vars e) 0 <> None.
  Definition is_def_entry (fe : fentry) : Prop :=
    f_arity fe = 0 /\ exists kinds id, f_kind fe = FParent kinds id \/ exists tr, f_kind fe = FSibling kinds id tr.
  Definition fscoped (fs : list bytes) (e : env) : Prop :=
    forall f, In f fs -> exists fe, find_fun f 0 (e_funs e) = Some fe.
  Definition kind_ok (x : cbind) (a : bind) : Prop :=
    match x, a with CVar _, BVar _ | CLabel _, BLabel _ => True | _, _ => False end.
  (** the named environment lists the bindings in the order of the compile-time environment; the context holds their values
      at the same positions (and possibly older bindings behind them) *)
  Definition agrees (e : env) (c : ctx) (rho : nenv) : Prop :=
    map fst rho = e_vars e /\ (exists rest, vars c = map snd rho ++ rest) /\ Forall (fun p => kind_ok (fst p) (snd p)) rho.

  Lemma cbind_eqb_refl x : cbind_eqb x x = true.
  Proof. destruct x; cbn; destruct (bytes_eqb_spec x x); congruence. Qed.
  Lemma cbind_eqb_eq x y : cbind_eqb x y = true -> x = y.
  Proof. destruct x, y; cbn; try discriminate; intros H; destruct (bytes_eqb_spec x x0); congruence. Qed.

  Lemma index_of_shift b l : forall i k, index_of b l (S i) = Some (S k) <-> index_of b l i = Some k.
  Proof.
    induction l as [|a l IH]; intros i k; cbn [index_of]; [split; discriminate|].
    destruct (cbind_eqb b a); [split; intros H; injection H as <-; reflexivity|apply IH].
  Qed.
  Lemma index_of_ge b l : forall i k, index_of b l i = Some k -> (i <= k)%nat.
  Proof.
    induction l as [|a l IH]; intros i k; cbn [index_of]; [discriminate|].
    destruct (cbind_eqb b a); [intros H; injection H as <-; lia|intros H; apply IH in H; lia].
  Qed.

  Lemma lookup_index rho : forall x i, index_of x (map fst rho) 0 = Some i ->
    exists a, nth_error (map snd rho) i = Some a /\ lookup rho x = Some a /\ In (x, a) rho.
  Proof.
    induction rho as [|[y a] rho IH]; intros x i H; [discriminate|]. cbn [map fst index_of lookup] in *.
    destruct (cbind_eqb x y) eqn:E.
    - injection H as <-. exists a. apply cbind_eqb_eq in E. subst. repeat split; [left; reflexivity].
    - destruct i as [|i]; [apply index_of_ge in H; lia|]. apply (proj1 (index_of_shift x (map fst rho) 0 i)) in H.
      destruct (IH x i H) as (a' & Hn & Hl & Hin). exists a'. repeat split; [exact Hn|exact Hl|right; exact Hin].
  Qed.

  Lemma agrees_lookup e c rho x i : agrees e c rho -> index_of x (e_vars e) 0 = Some i ->
    exists a, nth_error (vars c) i = Some a /\ lookup rho x = Some a /\ kind_ok x a.
  Proof.
    intros (Hm & (rest & Hv) & Hk) H. rewrite <- Hm in H. destruct (lookup_index rho x i H) as (a & Hn & Hl & Hin).
    exists a. split; [|split; [exact Hl|]].
    - rewrite Hv. rewrite nth_error_app1; [exact Hn|]. apply nth_error_Some. congruence.
    - rewrite Forall_forall in Hk. apply (Hk (x, a) Hin).
  Qed.

  Lemma scoped_push b e x : scoped b e -> scoped (x :: b) (push_var x e).
  Proof.
    intros H y [<-|Hy]; unfold push_var; cbn [e_vars index_of].
    - rewrite cbind_eqb_refl. discriminate.
    - destruct (cbind_eqb y x); [discriminate|].
      specialize (H y Hy). destruct (index_of y (e_vars e) 0) as [k|] eqn:E; [|congruence].
      apply (proj2 (index_of_shift y (e_vars e) 0 k)) in E. rewrite E. discriminate.
  Qed.

  Lemma agrees_push_gen e (c c' : ctx) rho x a :
    vars c' = a :: vars c -> kind_ok x a -> agrees e c rho -> agrees (push_var x e) c' ((x, a) :: rho).
  Proof.
    intros Hv Hk (Hm & (rest & Hr) & Hf). split; [|split].
    - cbn [map fst push_var e_vars]. rewrite Hm. reflexivity.
    - exists rest. rewrite Hv, Hr. reflexivity.
    - constructor; assumption.
  Qed.
  Lemma agrees_push e c rho x a : agrees e c rho -> agrees (push_var (CVar x) e) (cons_var a c) ((CVar x, BVar a) :: rho).
  Proof. apply agrees_push_gen; [reflexivity|exact I]. Qed.
  Lemma agrees_push_label e c rho x :
    agrees e c rho -> agrees (push_var (CLabel x) e) (cons_label c) ((CLabel x, BLabel (S (labels c))) :: rho).
  Proof. apply agrees_push_gen; [reflexivity|exact I]. Qed.

  (** ** the table of definitions *)
  Definition extends (s s' : cst) : Prop :=
    c_errs s' = c_errs s /\ (length (c_defs s) <= length (c_defs s'))%nat
    /\ forall i, (i < length (c_defs s))%nat -> nth_error (c_defs s') i = nth_error (c_defs s) i.
  (** [defs] contains what was allocated between [s] and [s'] *)
  Definition covers (s s' : cst) (defs : list term) : Prop :=
    forall i, (length (c_defs s) <= i < length (c_defs s'))%nat -> nth_error defs i = nth_error (c_defs s') i.

  Lemma extends_refl s : extends s s.
  Proof. repeat split; auto. Qed.
  Lemma extends_trans s1 s2 s3 : extends s1 s2 -> extends s2 s3 -> extends s1 s3.
  Proof.
    intros (E1 & L1 & H1) (E2 & L2 & H2). repeat split; [congruence|lia|]. intros i Hi. rewrite H2 by lia. apply H1. exact Hi.
  Qed.
  Lemma covers_refl s defs : covers s s defs.
  Proof. intros i Hi. lia. Qed.
  Lemma covers_left s1 s2 s3 defs : extends s1 s2 -> extends s2 s3 -> covers s1 s3 defs -> covers s1 s2 defs.
  Proof.
    intros (_ & L1 & _) (_ & L2 & H2) H i Hi. rewrite H by lia. apply H2. lia.
  Qed.
  Lemma covers_right s1 s2 s3 defs : extends s1 s2 -> extends s2 s3 -> covers s1 s3 defs -> covers s2 s3 defs.
  Proof. intros (_ & L1 & _) (_ & L2 & _) H i Hi. apply H. lia. Qed.

  (** ** definitions in scope: compile-time entries against closures *)
  Definition entry_id (fe : fentry) : option nat :=
    match f_kind fe with FParent _ id | FSibling _ id _ => Some id | FArg => None end.

  (** [funs_rel defs fuel fes rho phi]: the entries [fes] are the closures [phi], in order; each closure's environment is
      what remains of [rho] after dropping the bindings made since its definition; its compiled body is in the table and
      computes the semantics of its body for every smaller fuel *)
  Inductive funs_rel (defs : list term) (fuel : nat) : list fentry -> nenv -> list clo -> Prop :=
  | fr_nil rho : funs_rel defs fuel [] rho []
  | fr_cons fe fes rho f body rd phi id k :
      f_name fe = f -> f_arity fe = 0 -> entry_id fe = Some id -> f_vars fe = length rd ->
      (exists pushed, rho = pushed ++ rd) ->
      nth_error defs id = Some k ->
      (forall fuel', (fuel' < fuel)%nat -> forall c v, (exists rest, vars c = map snd rd ++ rest) ->
         run defs fuel' k c v = sem fuel' body rd ((f, body, rd) :: phi) (labels c) v) ->
      funs_rel defs fuel fes rd phi ->
      funs_rel defs fuel (fe :: fes) rho ((f, body, rd) :: phi).

  Lemma funs_rel_suffix defs fuel fes rho rho' phi :
    funs_rel defs fuel fes rho phi -> (exists p, rho' = p ++ rho) -> funs_rel defs fuel fes rho' phi.
  Proof.
    intros H (p & ->). destruct H as [rho|fe fes rho f body rd phi id k H1 H2 H3 H4 (q & ->) H6 H7 H8]; [constructor|].
    econstructor; eauto. exists (p ++ q). rewrite app_assoc. reflexivity.
  Qed.

  Lemma funs_rel_fuel defs fuel fuel' fes : forall rho phi, (fuel' <= fuel)%nat ->
    funs_rel defs fuel fes rho phi -> funs_rel defs fuel' fes rho phi.
  Proof.
    induction fes as [|fe fes IH]; intros rho phi Hle H; inversion H; subst; [constructor|].
    econstructor; eauto. intros f'' Hf''. apply H8. lia.
  Qed.

  Lemma funs_rel_find defs fuel fes : forall rho phi f fe,
    funs_rel defs fuel fes rho phi -> find_fun f 0 fes = Some fe ->
    exists body rd phis id k pushed,
      find_def f phi = Some (body, rd, (f, body, rd) :: phis) /\ entry_id fe = Some id /\ f_vars fe = length rd
      /\ rho = pushed ++ rd /\ nth_error defs id = Some k
      /\ (forall fuel', (fuel' < fuel)%nat -> forall c v, (exists rest, vars c = map snd rd ++ rest) ->
            run defs fuel' k c v = sem fuel' body rd ((f, body, rd) :: phis) (labels c) v).
  Proof.
    induction fes as [|fe0 fes IH]; intros rho phi f fe H Hf; [discriminate|].
    inversion H as [|? ? ? f0 body rd phi0 id k N A I V (pushed & P) T C R]; subst. cbn [find_fun] in Hf. cbn [find_def].
    rewrite A in Hf. cbn [Nat.eqb] in Hf. rewrite andb_true_r in Hf.
    destruct (bytes_eqb_spec f (f_name fe0)) as [E|E].
    - injection Hf as <-. subst f. exists body, rd, phi0, id, k, pushed. repeat split; auto.
    - destruct (IH rd phi0 f fe R Hf) as (body' & rd' & phis & id' & k' & pushed' & F & I' & V' & P' & T' & C').
      exists body', rd', phis, id', k', (pushed ++ pushed'). rewrite F. repeat split; auto. rewrite P'. rewrite app_assoc. reflexivity.
  Qed.

  Notation c_parts := (CompileCorrect.c_parts g).

  Definition P_term (b : list cbind) (fs : list bytes) (n : nat) (t : pterm) : Prop :=
    forall m e s tr, (n <= m)%nat -> scoped b e -> fscoped fs e ->
    exists k trr s', c_term g m e s t tr = ((k, trr), s') /\ extends s s'
      /\ forall defs, covers s s' defs -> forall fuel c rho phi v, agrees e c rho -> funs_rel defs fuel (e_funs e) rho phi ->
          run defs fuel k c v = sem fuel t rho phi (labels c) v.
  Definition P_parts (b : list cbind) (fs : list bytes) (n : nat) (ps : list (ppart * bool)) : Prop :=
    forall m e s, (n <= m)%nat -> scoped b e -> fscoped fs e ->
    exists cps s', c_parts m e s ps = (cps, s') /\ extends s s'
      /\ forall defs, covers s s' defs -> forall fuel c rho phi v, agrees e c rho -> funs_rel defs fuel (e_funs e) rho phi ->
          explode defs fuel cps c v = sexplode fuel ps rho phi (labels c) v.

  Lemma funs_pred defs fuel fes rho phi : funs_rel defs (S fuel) fes rho phi -> funs_rel defs fuel fes rho phi.
  Proof. apply funs_rel_fuel. lia. Qed.

  Lemma funs_push defs fuel fes rho phi xa : funs_rel defs fuel fes rho phi -> funs_rel defs fuel fes (xa :: rho) phi.
  Proof. intros H. eapply funs_rel_suffix; [exact H|]. exists [xa]. reflexivity. Qed.

  Ltac start := intros m e s tr Hm Hsc Hfs; (destruct m as [|m]; [lia|]).
  Ltac sem0 := intros defs Hc fuel c rho phi v Hag Hfr; (destruct fuel as [|fuel]; [reflexivity|]);
               cbn [Run.run sem strip push_defs fold_left]; pose proof (funs_pred _ _ _ _ _ Hfr) as Hfr'.

  Ltac semx := intros defs Hc fuel c rho phi v Hag Hfr; (destruct fuel as [|fuel]; [reflexivity|]);
               rewrite ?CompileCorrect.explode_cons; cbn [sexplode]; pose proof (funs_pred _ _ _ _ _ Hfr) as Hfr'.

  Lemma sem_def n f body t rho phi lab v :
    sem n (PDef [PDefn f [] body] t) rho phi lab v = sem n t rho ((f, body, rho) :: phi) lab v.
  Proof. destruct n; [reflexivity|]. cbn [sem strip]. destruct (strip t) as [ds t0]. reflexivity. Qed.

  Lemma skipn_pushed (pushed rd : nenv) (rest : list bind) :
    skipn (length pushed) (map snd (pushed ++ rd) ++ rest) = map snd rd ++ rest.
  Proof.
    rewrite map_app, <- app_assoc. rewrite <- (map_length snd pushed). rewrite skipn_app, skipn_all, Nat.sub_diag. reflexivity.
  Qed.

  Lemma set_nth_length A i (a : A) l : length (set_nth i a l) = length l.
  Proof. revert i; induction l as [|x l IH]; intros [|i]; cbn; auto. Qed.
  Lemma set_nth_same A i (a : A) l : (i < length l)%nat -> nth_error (set_nth i a l) i = Some a.
  Proof. revert i; induction l as [|x l IH]; intros [|i] H; cbn in *; try lia; [reflexivity|apply IH; lia]. Qed.
  Lemma set_nth_other A i j (a : A) l : i <> j -> nth_error (set_nth i a l) j = nth_error l j.
  Proof. revert i j; induction l as [|x l IH]; intros [|i] [|j] H; cbn; try reflexivity; try congruence. apply IH. congruence. Qed.

  Lemma c_def1 m e s f body t tr :
    c_term g (S (S m)) e s (PDef [PDefn f [] body] t) tr
    = let id := length (c_defs s) in
      let '((kb, trb), s2) := c_term g m (push_parent f [] id e) {| c_defs := c_defs s ++ [KId]; c_errs := c_errs s |} body (id :: tr) in
      c_term g (S m) (push_sibling f [] id trb e) (set_def id kb s2) t tr.
  Proof.
    change (c_term g (S (S m)) e s (PDef [PDefn f [] body] t) tr) with
      (let '(e', s') := (let '(e0, s0) := c_open_def g (S m) e s (PDefn f [] body) tr in (e0, s0)) in c_term g (S m) e' s' t tr).
    change (c_open_def g (S m) e s (PDefn f [] body) tr) with
      (let '((b0, tr_), s0) := c_term g m (push_parent f [] (length (c_defs s)) e) {| c_defs := c_defs s ++ [KId]; c_errs := c_errs s |}
                                 body (length (c_defs s) :: tr) in
       (push_sibling f [] (length (c_defs s)) tr_ e, set_def (length (c_defs s)) b0 s0)).
    cbv zeta. destruct (c_term g m _ _ body _) as [[kb trb] s2]. reflexivity.
  Qed.

  Lemma compile_defs_mut :
    (forall b fs n t, frag b fs n t -> P_term b fs n t) /\ (forall b fs n ps, frag_parts b fs n ps -> P_parts b fs n ps).
  Proof.
    apply frag_mutind; unfold P_term, P_parts.
    - (* . *) intros b fs n. start. exists KId, [], s. split; [reflexivity|]. split; [apply extends_refl|]. sem0. reflexivity.
    - (* number *) intros b fs n x. start. eexists _, [], s. split; [reflexivity|]. split; [apply extends_refl|]. sem0.
      destruct (int_literal x); reflexivity.
    - (* variable *) intros b fs n x Hx. start. specialize (Hsc (CVar x) Hx).
      destruct (index_of (CVar x) (e_vars e) 0) as [i|] eqn:E; [|congruence].
      exists (KVar i), [], s. split; [cbn [c_term]; unfold var; rewrite E; reflexivity|]. split; [apply extends_refl|]. sem0.
      destruct (agrees_lookup e c rho (CVar x) i Hag E) as (a & Hn & Hl & Hk). unfold nth_bind. rewrite Hn, Hl.
      destruct a; try contradiction. reflexivity.
    - (* negation *) intros b fs n t Ht IHt. start. destruct (IHt m e s [] ltac:(lia) Hsc Hfs) as (k & trr & s1 & E1 & X1 & R1).
      exists (KNeg k), [], s1. split; [cbn [c_term]; rewrite E1; reflexivity|]. split; [exact X1|]. sem0.
      rewrite (R1 defs Hc fuel c rho phi v Hag Hfr'). reflexivity.
    - (* array *) intros b fs n t Ht IHt. start. destruct (IHt m e s [] ltac:(lia) Hsc Hfs) as (k & trr & s1 & E1 & X1 & R1).
      exists (KArr k), [], s1. split; [cbn [c_term]; rewrite E1; reflexivity|]. split; [exact X1|]. sem0.
      rewrite (R1 defs Hc fuel c rho phi v Hag Hfr'). reflexivity.
    - (* try *) intros b fs n t ct Hl IHl Hr IHr. start.
      destruct (IHl m e s [] ltac:(lia) Hsc Hfs) as (k1 & tr1 & s1 & E1 & X1 & R1).
      destruct (IHr m e s1 [] ltac:(lia) Hsc Hfs) as (k2 & tr2 & s2 & E2 & X2 & R2).
      exists (KTryCatch k1 k2), [], s2. split; [cbn [c_term]; rewrite E1, E2; reflexivity|]. split; [eapply extends_trans; eassumption|]. sem0.
      rewrite (R1 defs (covers_left _ _ _ _ X1 X2 Hc) fuel c rho phi v Hag Hfr').
      f_equal. apply functional_extensionality. intros er. apply (R2 defs (covers_right _ _ _ _ X1 X2 Hc) fuel c rho phi); assumption.
    - (* if *) intros b fs n i th el Hi IHi Hth IHth Hel IHel. start.
      destruct (IHi m e s [] ltac:(lia) Hsc Hfs) as (k1 & tr1 & s1 & E1 & X1 & R1).
      destruct (IHth m e s1 tr ltac:(lia) Hsc Hfs) as (k2 & tr2 & s2 & E2 & X2 & R2).
      destruct (IHel m e s2 tr ltac:(lia) Hsc Hfs) as (k3 & tr3 & s3 & E3 & X3 & R3).
      assert (X12 : extends s s2) by (eapply extends_trans; eassumption).
      exists (KIte k1 k2 k3), (union tr2 tr3), s3. split; [rewrite c_ite, E1, E2, E3; reflexivity|].
      split; [eapply extends_trans; eassumption|]. sem0.
      pose proof (covers_left _ _ _ _ X12 X3 Hc) as Hc12.
      rewrite (R1 defs (covers_left _ _ _ _ X1 X2 Hc12) fuel c rho phi v Hag Hfr'). f_equal.
      apply functional_extensionality. intros y. destruct (as_bool y).
      + apply (R2 defs (covers_right _ _ _ _ X1 X2 Hc12) fuel c rho phi); assumption.
      + apply (R3 defs (covers_right _ _ _ _ X12 X3 Hc) fuel c rho phi); assumption.
    - (* pipe *) intros b fs n l r Hl IHl Hr IHr. start.
      destruct (IHl m e s [] ltac:(lia) Hsc Hfs) as (k1 & tr1 & s1 & E1 & X1 & R1).
      destruct (IHr m e s1 tr ltac:(lia) Hsc Hfs) as (k2 & tr2 & s2 & E2 & X2 & R2).
      exists (KPipe k1 None k2), tr2, s2. split; [rewrite c_pipe, E1, E2; reflexivity|]. split; [eapply extends_trans; eassumption|]. sem0.
      rewrite (R1 defs (covers_left _ _ _ _ X1 X2 Hc) fuel c rho phi v Hag Hfr').
      f_equal. apply functional_extensionality. intros y. apply (R2 defs (covers_right _ _ _ _ X1 X2 Hc) fuel c rho phi); assumption.
    - (* binding *) intros b fs n l x r Hl IHl Hr IHr. start. destruct m as [|m]; [lia|].
      destruct (IHl (S m) e s [] ltac:(lia) Hsc Hfs) as (k1 & tr1 & s1 & E1 & X1 & R1).
      destruct (IHr (S m) (push_var (CVar x) e) s1 tr ltac:(lia) (scoped_push b e (CVar x) Hsc) Hfs) as (k2 & tr2 & s2 & E2 & X2 & R2).
      exists (KPipe k1 (Some PatVar) k2), tr2, s2. split.
      + rewrite c_bind, E1. cbn [pat_vars_f]. change (Compile.with_vars [x] e) with (push_var (CVar x) e). rewrite E2. reflexivity.
      + split; [eapply extends_trans; eassumption|]. sem0.
        rewrite (R1 defs (covers_left _ _ _ _ X1 X2 Hc) fuel c rho phi v Hag Hfr'). f_equal.
        apply functional_extensionality. intros y.
        exact (R2 defs (covers_right _ _ _ _ X1 X2 Hc) fuel (cons_var y c) ((CVar x, BVar y) :: rho) phi v
                  (agrees_push e c rho x y Hag) (funs_push _ _ _ _ _ _ Hfr')).
    - (* comma *) intros b fs n l r Hl IHl Hr IHr. start.
      destruct (IHl m e s tr ltac:(lia) Hsc Hfs) as (k1 & tr1 & s1 & E1 & X1 & R1).
      destruct (IHr m e s1 tr ltac:(lia) Hsc Hfs) as (k2 & tr2 & s2 & E2 & X2 & R2).
      exists (KComma k1 k2), (union tr1 tr2), s2. split; [rewrite c_comma, E1, E2; reflexivity|]. split; [eapply extends_trans; eassumption|]. sem0.
      rewrite (R1 defs (covers_left _ _ _ _ X1 X2 Hc) fuel c rho phi v Hag Hfr').
      f_equal. apply functional_extensionality. intros u. apply (R2 defs (covers_right _ _ _ _ X1 X2 Hc) fuel c rho phi); assumption.
    - (* alternative *) intros b fs n l r Hl IHl Hr IHr. start.
      destruct (IHl m e s [] ltac:(lia) Hsc Hfs) as (k1 & tr1 & s1 & E1 & X1 & R1).
      destruct (IHr m e s1 tr ltac:(lia) Hsc Hfs) as (k2 & tr2 & s2 & E2 & X2 & R2).
      exists (KAlt k1 k2), tr2, s2. split; [rewrite c_alt, E1, E2; reflexivity|]. split; [eapply extends_trans; eassumption|]. sem0.
      rewrite (R1 defs (covers_left _ _ _ _ X1 X2 Hc) fuel c rho phi v Hag Hfr').
      rewrite (R2 defs (covers_right _ _ _ _ X1 X2 Hc) fuel c rho phi v Hag Hfr'). reflexivity.
    - (* arithmetic *) intros b fs n l o r Hl IHl Hr IHr. start.
      destruct (IHl m e s [] ltac:(lia) Hsc Hfs) as (k1 & tr1 & s1 & E1 & X1 & R1).
      destruct (IHr m e s1 [] ltac:(lia) Hsc Hfs) as (k2 & tr2 & s2 & E2 & X2 & R2).
      exists (KMath k1 o k2), [], s2. split; [cbn [c_term]; rewrite E1, E2; reflexivity|]. split; [eapply extends_trans; eassumption|]. sem0.
      rewrite (R1 defs (covers_left _ _ _ _ X1 X2 Hc) fuel c rho phi v Hag Hfr').
      rewrite (R2 defs (covers_right _ _ _ _ X1 X2 Hc) fuel c rho phi v Hag Hfr'). reflexivity.
    - (* comparison *) intros b fs n l o r Hl IHl Hr IHr. start.
      destruct (IHl m e s [] ltac:(lia) Hsc Hfs) as (k1 & tr1 & s1 & E1 & X1 & R1).
      destruct (IHr m e s1 [] ltac:(lia) Hsc Hfs) as (k2 & tr2 & s2 & E2 & X2 & R2).
      exists (KCmp k1 o k2), [], s2. split; [cbn [c_term]; rewrite E1, E2; reflexivity|]. split; [eapply extends_trans; eassumption|]. sem0.
      rewrite (R1 defs (covers_left _ _ _ _ X1 X2 Hc) fuel c rho phi v Hag Hfr').
      rewrite (R2 defs (covers_right _ _ _ _ X1 X2 Hc) fuel c rho phi v Hag Hfr'). reflexivity.
    - (* or *) intros b fs n l r Hl IHl Hr IHr. start.
      destruct (IHl m e s [] ltac:(lia) Hsc Hfs) as (k1 & tr1 & s1 & E1 & X1 & R1).
      destruct (IHr m e s1 [] ltac:(lia) Hsc Hfs) as (k2 & tr2 & s2 & E2 & X2 & R2).
      exists (KLogic k1 true k2), [], s2. split; [cbn [c_term]; rewrite E1, E2; reflexivity|]. split; [eapply extends_trans; eassumption|]. sem0.
      rewrite (R1 defs (covers_left _ _ _ _ X1 X2 Hc) fuel c rho phi v Hag Hfr').
      rewrite (R2 defs (covers_right _ _ _ _ X1 X2 Hc) fuel c rho phi v Hag Hfr'). reflexivity.
    - (* and *) intros b fs n l r Hl IHl Hr IHr. start.
      destruct (IHl m e s [] ltac:(lia) Hsc Hfs) as (k1 & tr1 & s1 & E1 & X1 & R1).
      destruct (IHr m e s1 [] ltac:(lia) Hsc Hfs) as (k2 & tr2 & s2 & E2 & X2 & R2).
      exists (KLogic k1 false k2), [], s2. split; [cbn [c_term]; rewrite E1, E2; reflexivity|]. split; [eapply extends_trans; eassumption|]. sem0.
      rewrite (R1 defs (covers_left _ _ _ _ X1 X2 Hc) fuel c rho phi v Hag Hfr').
      rewrite (R2 defs (covers_right _ _ _ _ X1 X2 Hc) fuel c rho phi v Hag Hfr'). reflexivity.
    - (* path *) intros b fs n t ps Ht IHt Hps IHps. start.
      destruct (IHt m e s [] ltac:(lia) Hsc Hfs) as (k1 & tr1 & s1 & E1 & X1 & R1).
      destruct (IHps m e s1 ltac:(lia) Hsc Hfs) as (cps & s2 & E2 & X2 & R2).
      exists (KPath k1 cps), [], s2. split; [rewrite CompileCorrect.c_path, E1, E2; reflexivity|].
      split; [eapply extends_trans; eassumption|].
      intros defs Hc fuel c rho phi v Hag Hfr. destruct fuel as [|fuel]; [reflexivity|].
      rewrite CompileCorrect.run_path. cbn [sem strip push_defs fold_left]. pose proof (funs_pred _ _ _ _ _ Hfr) as Hfr'.
      rewrite (R1 defs (covers_left _ _ _ _ X1 X2 Hc) fuel c rho phi v Hag Hfr'). f_equal.
      apply functional_extensionality. intros y.
      rewrite (R2 defs (covers_right _ _ _ _ X1 X2 Hc) fuel c rho phi v Hag Hfr'). reflexivity.
    - (* reduce *) intros b fs n xs x init upd  Hxs IHxs Hi IHi Hu IHu . start. destruct m as [|m]; [lia|].
      destruct (IHxs (S m) e s [] ltac:(lia) Hsc Hfs) as (k1 & tr1 & s1 & E1 & X1 & R1).
      destruct (IHi (S m) e s1 [] ltac:(lia) Hsc Hfs) as (k2 & tr2 & s2 & E2 & X2 & R2).
      destruct (IHu (S m) (push_var (CVar x) e) s2 [] ltac:(lia) (scoped_push b e (CVar x) Hsc) Hfs) as (k3 & tr3 & s3 & E3 & X3 & R3).
      assert (X12 : extends s s2) by (eapply extends_trans; eassumption).
      assert (X13 : extends s s3) by (eapply extends_trans; eassumption).
      exists (KFold k1 PatVar k2 k3 Reduce), [], s3. split.
      + rewrite CompileCorrect.c_reduce, E1. cbn [c_pattern pat_vars_f]. rewrite E2. change (Compile.with_vars [x] e) with (push_var (CVar x) e). rewrite E3. reflexivity.
      + split; [exact X13|].
        intros defs Hc fuel c rho phi v Hag Hfr. destruct fuel as [|fuel]; [reflexivity|].
        rewrite CompileCorrect.run_fold, CompileCorrect.run_and_bind_var. cbn [sem strip push_defs fold_left].
        pose proof (funs_pred _ _ _ _ _ Hfr) as Hfr'.
        change (bytes_eqb name_reduce name_reduce) with true. cbn iota.
        pose proof (covers_left _ _ _ _ X12 X3 Hc) as Hc12. pose proof (covers_right _ _ _ _ X12 X3 Hc) as Hc3.
        pose proof (covers_left _ _ _ _ X1 X2 Hc12) as Hc1. pose proof (covers_right _ _ _ _ X1 X2 Hc12) as Hc2.
        rewrite (R2 defs Hc2 fuel c rho phi v Hag Hfr'). f_equal.
        apply functional_extensionality. intros i0. destruct fuel as [|f']; [reflexivity|].
        rewrite (R1 defs Hc1 f' c rho phi v Hag (funs_pred _ _ _ _ _ Hfr')).
        apply CompileCorrect.fold_ctx_vals; [intros y acc; exact (R3 defs Hc3 (S f') (cons_var y c) ((CVar x, BVar y) :: rho) phi acc (agrees_push e c rho x y Hag) (funs_push _ _ _ _ _ _ Hfr')) | reflexivity | reflexivity].
    - (* foreach *) intros b fs n xs x init upd  Hxs IHxs Hi IHi Hu IHu . start. destruct m as [|m]; [lia|].
      destruct (IHxs (S m) e s [] ltac:(lia) Hsc Hfs) as (k1 & tr1 & s1 & E1 & X1 & R1).
      destruct (IHi (S m) e s1 [] ltac:(lia) Hsc Hfs) as (k2 & tr2 & s2 & E2 & X2 & R2).
      destruct (IHu (S m) (push_var (CVar x) e) s2 [] ltac:(lia) (scoped_push b e (CVar x) Hsc) Hfs) as (k3 & tr3 & s3 & E3 & X3 & R3).
      assert (X12 : extends s s2) by (eapply extends_trans; eassumption).
      assert (X13 : extends s s3) by (eapply extends_trans; eassumption).
      exists (KFold k1 PatVar k2 k3 (Foreach None)), [], s3. split.
      + rewrite CompileCorrect.c_foreach2, E1. cbn [c_pattern pat_vars_f]. rewrite E2. change (Compile.with_vars [x] e) with (push_var (CVar x) e). rewrite E3. reflexivity.
      + split; [exact X13|].
        intros defs Hc fuel c rho phi v Hag Hfr. destruct fuel as [|fuel]; [reflexivity|].
        rewrite CompileCorrect.run_fold, CompileCorrect.run_and_bind_var. cbn [sem strip push_defs fold_left].
        pose proof (funs_pred _ _ _ _ _ Hfr) as Hfr'.
        change (bytes_eqb name_foreach name_reduce) with false. change (bytes_eqb name_foreach name_foreach) with true. cbn iota.
        pose proof (covers_left _ _ _ _ X12 X3 Hc) as Hc12. pose proof (covers_right _ _ _ _ X12 X3 Hc) as Hc3.
        pose proof (covers_left _ _ _ _ X1 X2 Hc12) as Hc1. pose proof (covers_right _ _ _ _ X1 X2 Hc12) as Hc2.
        rewrite (R2 defs Hc2 fuel c rho phi v Hag Hfr'). f_equal.
        apply functional_extensionality. intros i0. destruct fuel as [|f']; [reflexivity|].
        rewrite (R1 defs Hc1 f' c rho phi v Hag (funs_pred _ _ _ _ _ Hfr')).
        apply CompileCorrect.fold_ctx_vals; [intros y acc; exact (R3 defs Hc3 (S f') (cons_var y c) ((CVar x, BVar y) :: rho) phi acc (agrees_push e c rho x y Hag) (funs_push _ _ _ _ _ _ Hfr')) | reflexivity | reflexivity].
    - (* foreach with projection *) intros b fs n xs x init upd proj Hxs IHxs Hi IHi Hu IHu Hp IHp. start. destruct m as [|m]; [lia|].
      destruct (IHxs (S m) e s [] ltac:(lia) Hsc Hfs) as (k1 & tr1 & s1 & E1 & X1 & R1).
      destruct (IHi (S m) e s1 [] ltac:(lia) Hsc Hfs) as (k2 & tr2 & s2 & E2 & X2 & R2).
      destruct (IHu (S m) (push_var (CVar x) e) s2 [] ltac:(lia) (scoped_push b e (CVar x) Hsc) Hfs) as (k3 & tr3 & s3 & E3 & X3 & R3).
      destruct (IHp (S m) (push_var (CVar x) e) s3 tr ltac:(lia) (scoped_push b e (CVar x) Hsc) Hfs) as (k4 & tr4 & s4 & E4 & X4 & R4).
      assert (X12 : extends s s2) by (eapply extends_trans; eassumption).
      assert (X13 : extends s s3) by (eapply extends_trans; eassumption).
      exists (KFold k1 PatVar k2 k3 (Foreach (Some k4))), tr4, s4. split.
      + rewrite c_foreach, E1. cbn [c_pattern pat_vars_f]. rewrite E2. change (Compile.with_vars [x] e) with (push_var (CVar x) e). rewrite E3, E4. reflexivity.
      + split; [eapply extends_trans; eassumption|].
        intros defs Hc fuel c rho phi v Hag Hfr. destruct fuel as [|fuel]; [reflexivity|].
        rewrite CompileCorrect.run_fold, CompileCorrect.run_and_bind_var. cbn [sem strip push_defs fold_left].
        pose proof (funs_pred _ _ _ _ _ Hfr) as Hfr'.
        change (bytes_eqb name_foreach name_reduce) with false. change (bytes_eqb name_foreach name_foreach) with true. cbn iota.
        pose proof (covers_left _ _ _ _ X13 X4 Hc) as Hc13. pose proof (covers_right _ _ _ _ X13 X4 Hc) as Hc4.
        pose proof (covers_left _ _ _ _ X12 X3 Hc13) as Hc12. pose proof (covers_right _ _ _ _ X12 X3 Hc13) as Hc3.
        pose proof (covers_left _ _ _ _ X1 X2 Hc12) as Hc1. pose proof (covers_right _ _ _ _ X1 X2 Hc12) as Hc2.
        rewrite (R2 defs Hc2 fuel c rho phi v Hag Hfr'). f_equal.
        apply functional_extensionality. intros i0. destruct fuel as [|f']; [reflexivity|].
        rewrite (R1 defs Hc1 f' c rho phi v Hag (funs_pred _ _ _ _ _ Hfr')).
        apply CompileCorrect.fold_ctx_vals; [intros y acc; exact (R3 defs Hc3 (S f') (cons_var y c) ((CVar x, BVar y) :: rho) phi acc (agrees_push e c rho x y Hag) (funs_push _ _ _ _ _ _ Hfr')) | intros y z; exact (R4 defs Hc4 (S f') (cons_var y c) ((CVar x, BVar y) :: rho) phi z (agrees_push e c rho x y Hag) (funs_push _ _ _ _ _ _ Hfr')) | reflexivity].
    - (* label *) intros b fs n x t Ht IHt. start.
      destruct (IHt m (push_var (CLabel x) e) s [] ltac:(lia) (scoped_push b e (CLabel x) Hsc) Hfs) as (k & trr & s1 & E1 & X1 & R1).
      exists (KLabel k), [], s1. split; [cbn [c_term]; rewrite E1; reflexivity|]. split; [exact X1|]. sem0.
      rewrite (R1 defs Hc fuel (cons_label c) ((CLabel x, BLabel (S (labels c))) :: rho) phi v (agrees_push_label e c rho x Hag) (funs_push _ _ _ _ _ _ Hfr')).
      reflexivity.
    - (* break *) intros b fs n x Hx. start. specialize (Hsc (CLabel x) Hx).
      destruct (index_of (CLabel x) (e_vars e) 0) as [i|] eqn:E; [|congruence].
      exists (KVar i), [], s. split; [cbn [c_term]; unfold break_; rewrite E; reflexivity|]. split; [apply extends_refl|]. sem0.
      destruct (agrees_lookup e c rho (CLabel x) i Hag E) as (a & Hn & Hl & Hk). unfold nth_bind. rewrite Hn, Hl.
      destruct a; try contradiction. reflexivity.
    - (* call *) intros b fs n f Hf. start. destruct (Hfs f Hf) as (fe & Hfe).
      assert (LC : exists r, local_call e f [] tr = Some r
                   /\ forall id, entry_id fe = Some id -> exists typ, fst r = KCallDef id [] (total e - f_vars fe) typ).
      { unfold local_call. cbn [length]. rewrite Hfe. eexists. split; [reflexivity|]. intros id Hid. unfold entry_id in Hid.
        destruct (f_kind fe) as [|kinds id'|kinds id' trs]; [discriminate| |]; injection Hid as ->.
        - destruct (mem id tr); eexists; unfold binds; destruct kinds; reflexivity.
        - destruct (subset _ _); eexists; unfold binds; destruct kinds; reflexivity. }
      destruct LC as ([k0 tr0] & LC & LK). cbn [fst] in LK. exists k0, tr0, s. split.
      + cbn [c_term]. unfold call. rewrite LC. reflexivity.
      + split; [apply extends_refl|]. intros defs Hc fuel c rho phi v Hag Hfr. destruct fuel as [|fuel]; [reflexivity|].
        destruct (funs_rel_find defs (S fuel) _ rho phi f fe Hfr Hfe) as (body & rd & phis & id & kb & pushed & F & I & V & P & T & C).
        destruct (LK id I) as (typ & ->). cbn [Run.run sem strip push_defs fold_left]. rewrite T, F.
        destruct fuel as [|fuel]; [reflexivity|]. cbn [bind_vars]. rewrite sbind_sone_l.
        rewrite (C (S fuel) ltac:(lia)); [reflexivity|].
        destruct Hag as (Hmm & (rest & Hv) & _). exists rest. unfold skip_vars. cbn [vars].
        assert (total e - f_vars fe = length pushed)%nat as ->.
        { unfold total. rewrite <- Hmm, map_length, V, P, app_length. lia. }
        rewrite Hv, P. apply skipn_pushed.
    - (* def *) intros b fs n f body t Hb IHb Ht IHt. start. destruct m as [|m]; [lia|].
      set (id := length (c_defs s)).
      set (s1 := {| c_defs := c_defs s ++ [KId]; c_errs := c_errs s |}).
      set (e1 := push_parent f [] id e).
      assert (Hfs1 : forall fe0, f_name fe0 = f -> f_arity fe0 = 0%nat -> fscoped (f :: fs) (push_fun fe0 e)).
      { intros fe0 N A f' Hin. cbn [push_fun e_funs find_fun]. rewrite N, A. cbn [Nat.eqb]. rewrite andb_true_r.
        destruct (bytes_eqb_spec f' f) as [->|Hne]; [eexists; reflexivity|]. destruct Hin as [->|Hin]; [congruence|]. apply Hfs. exact Hin. }
      destruct (IHb m e1 s1 (id :: tr) ltac:(lia) Hsc (Hfs1 {| f_name := f; f_arity := 0; f_kind := FParent [] id; f_vars := total e |} eq_refl eq_refl)) as (kb & trb & s2 & E2 & X2 & R2).
      set (s3 := set_def id kb s2).
      set (e3 := push_sibling f [] id trb e).
      destruct (IHt (S m) e3 s3 tr ltac:(lia) Hsc (Hfs1 {| f_name := f; f_arity := 0; f_kind := FSibling [] id trb; f_vars := total e |} eq_refl eq_refl)) as (k & trr & s4 & E4 & X4 & R4).
      destruct X2 as (XE2 & XL2 & XN2). cbn [s1 c_defs c_errs] in XE2, XL2, XN2. rewrite app_length in XL2, XN2. cbn [length] in XL2, XN2.
      assert (X3 : extends s s3).
      { unfold s3, set_def. repeat split; cbn [c_defs c_errs]; [exact XE2|rewrite set_nth_length; lia|].
        intros i Hi. rewrite set_nth_other by (unfold id; lia). rewrite XN2 by lia. apply nth_error_app1. exact Hi. }
      assert (Hid3 : nth_error (c_defs s3) id = Some kb).
      { unfold s3, set_def. cbn [c_defs]. apply set_nth_same. unfold id. lia. }
      assert (L3 : length (c_defs s3) = length (c_defs s2)) by (unfold s3, set_def; cbn [c_defs]; apply set_nth_length).
      exists k, trr, s4. split.
      + rewrite c_def1. cbv zeta. fold id s1 e1. rewrite E2. exact E4.
      + split; [eapply extends_trans; eassumption|].
        intros defs Hc fuel c rho phi v Hag Hfr. rewrite sem_def.
        pose proof (covers_right _ _ _ _ X3 X4 Hc) as Hc34.
        destruct X4 as (XE4 & XL4 & XN4).
        assert (Hdid : nth_error defs id = Some kb).
        { rewrite Hc by (unfold id; lia). rewrite XN4 by (rewrite L3; unfold id; lia). exact Hid3. }
        assert (Hc12 : covers s1 s2 defs).
        { intros i Hi. cbn [s1 c_defs] in Hi. rewrite app_length in Hi. cbn [length] in Hi. rewrite Hc by lia. rewrite XN4 by lia.
          unfold s3, set_def. cbn [c_defs]. apply set_nth_other. unfold id. lia. }
        destruct Hag as (Hmm & Hctx & Hk).
        assert (CL : forall fuel', (fuel' <= fuel)%nat -> forall c' v', (exists rest, vars c' = map snd rho ++ rest) ->
                       run defs fuel' kb c' v' = sem fuel' body rho ((f, body, rho) :: phi) (labels c') v').
        { intros fuel'. induction fuel' as [fuel' IHf] using lt_wf_ind. intros Hle c' v' Hc'.
          apply (R2 defs Hc12 fuel' c' rho ((f, body, rho) :: phi) v'); [repeat split; assumption|].
          cbn [e1 push_parent fold_left push_fun e_funs].
          eapply fr_cons; try reflexivity.
          - cbn [f_vars]. unfold total. rewrite <- Hmm, map_length. reflexivity.
          - exists []. reflexivity.
          - exact Hdid.
          - intros f'' Hf'' c'' v'' Hc''. apply IHf; [exact Hf''|lia|exact Hc''].
          - apply (funs_rel_fuel defs fuel fuel'); [exact Hle|exact Hfr]. }
        apply (R4 defs Hc34 fuel c rho ((f, body, rho) :: phi) v); [repeat split; assumption|].
        cbn [e3 push_sibling push_fun e_funs].
        eapply fr_cons; try reflexivity.
        * cbn [f_vars]. unfold total. rewrite <- Hmm, map_length. reflexivity.
        * exists []. reflexivity.
        * exact Hdid.
        * intros f'' Hf'' c'' v'' Hc''. apply CL; [lia|exact Hc''].
        * exact Hfr.
    - (* no component *) intros b fs n m e s Hm Hsc Hfs. exists [], s. split; [reflexivity|]. split; [apply extends_refl|]. semx. reflexivity.
    - (* .[i] *) intros b fs n i o ps H1 IH1 Hps IHps m e s Hm Hsc Hfs.
      destruct (IH1 m e s [] Hm Hsc Hfs) as (k1 & tr1 & s1 & E1 & X1 & R1).
      destruct (IHps m e s1 Hm Hsc Hfs) as (cps & s2 & E2 & X2 & R2).
      exists ((Index k1, o) :: cps), s2. split; [cbn [CompileCorrect.c_parts]; rewrite E1, E2; reflexivity|].
      split; [eapply extends_trans; eassumption|]. semx.
      rewrite (R1 defs (covers_left _ _ _ _ X1 X2 Hc) fuel c rho phi v Hag Hfr'), (R2 defs (covers_right _ _ _ _ X1 X2 Hc) fuel c rho phi v Hag Hfr').
      reflexivity.
    - (* .[] *) intros b fs n o ps Hps IHps m e s Hm Hsc Hfs.
      destruct (IHps m e s Hm Hsc Hfs) as (cps & s2 & E2 & X2 & R2).
      exists ((Range None None, o) :: cps), s2. split; [cbn [CompileCorrect.c_parts]; rewrite E2; reflexivity|].
      split; [exact X2|]. semx. rewrite (R2 defs Hc fuel c rho phi v Hag Hfr'). reflexivity.
    - (* .[f:] *) intros b fs n f o ps H1 IH1 Hps IHps m e s Hm Hsc Hfs.
      destruct (IH1 m e s [] Hm Hsc Hfs) as (k1 & tr1 & s1 & E1 & X1 & R1).
      destruct (IHps m e s1 Hm Hsc Hfs) as (cps & s2 & E2 & X2 & R2).
      exists ((Range (Some k1) None, o) :: cps), s2. split; [cbn [CompileCorrect.c_parts]; rewrite E1, E2; reflexivity|].
      split; [eapply extends_trans; eassumption|]. semx.
      rewrite (R1 defs (covers_left _ _ _ _ X1 X2 Hc) fuel c rho phi v Hag Hfr'), (R2 defs (covers_right _ _ _ _ X1 X2 Hc) fuel c rho phi v Hag Hfr').
      reflexivity.
    - (* .[:u] *) intros b fs n u o ps H1 IH1 Hps IHps m e s Hm Hsc Hfs.
      destruct (IH1 m e s [] Hm Hsc Hfs) as (k1 & tr1 & s1 & E1 & X1 & R1).
      destruct (IHps m e s1 Hm Hsc Hfs) as (cps & s2 & E2 & X2 & R2).
      exists ((Range None (Some k1), o) :: cps), s2. split; [cbn [CompileCorrect.c_parts]; rewrite E1, E2; reflexivity|].
      split; [eapply extends_trans; eassumption|]. semx.
      rewrite (R1 defs (covers_left _ _ _ _ X1 X2 Hc) fuel c rho phi v Hag Hfr'), (R2 defs (covers_right _ _ _ _ X1 X2 Hc) fuel c rho phi v Hag Hfr').
      reflexivity.
    - (* .[f:u] *) intros b fs n f u o ps H1 IH1 H2 IH2 Hps IHps m e s Hm Hsc Hfs.
      destruct (IH1 m e s [] Hm Hsc Hfs) as (k1 & tr1 & s1 & E1 & X1 & R1).
      destruct (IH2 m e s1 [] Hm Hsc Hfs) as (k2 & tr2 & s2 & E2 & X2 & R2).
      destruct (IHps m e s2 Hm Hsc Hfs) as (cps & s3 & E3 & X3 & R3).
      assert (X12 : extends s s2) by (eapply extends_trans; eassumption).
      exists ((Range (Some k1) (Some k2), o) :: cps), s3. split; [cbn [CompileCorrect.c_parts]; rewrite E1, E2, E3; reflexivity|].
      split; [eapply extends_trans; eassumption|]. semx.
      pose proof (covers_left _ _ _ _ X12 X3 Hc) as Hc12.
      rewrite (R1 defs (covers_left _ _ _ _ X1 X2 Hc12) fuel c rho phi v Hag Hfr'), (R2 defs (covers_right _ _ _ _ X1 X2 Hc12) fuel c rho phi v Hag Hfr'),
        (R3 defs (covers_right _ _ _ _ X12 X3 Hc) fuel c rho phi v Hag Hfr').
      reflexivity.
  Qed.

  Theorem compile_defs b fs n t : frag b fs n t -> forall m e s tr, (n <= m)%nat -> scoped b e -> fscoped fs e ->
    exists k trr s', c_term g m e s t tr = ((k, trr), s') /\ extends s s'
      /\ forall defs, covers s s' defs -> forall fuel c rho phi v, agrees e c rho -> funs_rel defs fuel (e_funs e) rho phi ->
          run defs fuel k c v = sem fuel t rho phi (labels c) v.
  Proof. intros H. exact (proj1 compile_defs_mut b fs n t H). Qed.

  (** a whole program without free variables or definitions from outside, compiled from scratch: run against the table of
      definitions the compiler produced, the compiled term computes the named semantics *)
  Corollary compile_defs_closed n t : frag [] [] n t ->
    exists k trr s', c_term g n empty_env empty_cst t [] = ((k, trr), s') /\ c_errs s' = 0%nat
      /\ forall fuel v, run (c_defs s') fuel k {| vars := []; labels := 0 |} v = sem fuel t [] [] 0 v.
  Proof.
    intros H. destruct (compile_defs [] [] n t H n empty_env empty_cst [] (le_n _)) as (k & trr & s' & E & X & R).
    - intros x [].
    - intros f [].
    - exists k, trr, s'. split; [exact E|]. split; [exact (proj1 X)|]. intros fuel v.
      apply (R (c_defs s') ltac:(intros i Hi; reflexivity) fuel {| vars := []; labels := 0 |} [] [] v).
      + repeat split; [exists []; reflexivity|constructor].
      + constructor.
  Qed.
End CD.

(** the fragment is inhabited by programs with recursive and nested definitions that capture variables, e.g.
    1 as $x | def f: if . then (def g: $x; g) else ($x | f) end; f  - whose semantics on null is the single output 1 *)
Definition defs_ex : pterm :=
  let vx := of_ascii [36; 120]%Z in let f := of_ascii [102]%Z in let g := of_ascii [103]%Z in
  PBinOp (PNum (of_ascii [49]%Z)) (BPipe (Some (PPVar vx)))
    (PDef [PDefn f [] (PIte [(PId, PDef [PDefn g [] (PVar vx)] (PCall g []))] (Some (PBinOp (PVar vx) (BPipe None) (PCall f []))))]
       (PCall f [])).
Example frag_defs_ex : frag [] [] 12 defs_ex.
Proof.
  unfold defs_ex. cbv zeta. apply f_bind; [constructor|]. apply f_def.
  - apply f_ite; [constructor| |].
    + apply f_def; [apply f_var; left; reflexivity|apply f_call; left; reflexivity].
    + apply f_pipe; [apply f_var; left; reflexivity|apply f_call; left; reflexivity].
  - apply f_call. left. reflexivity.
Qed.
Example sem_defs_ex d : sem d 12 defs_ex [] [] 0 Null = sone (vint 1).
Proof. vm_compute. reflexivity. Qed.
