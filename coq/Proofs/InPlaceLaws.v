(** `--in-place` is atomic: at every prefix of the operation sequence the target holds its old bytes or
    the complete new output. *)
From Coq Require Import ZArith Bool List Lia Arith.
From JaqV Require Import Base.Bytes Cli.InPlace.
Import ListNotations.

Lemma lookup_remove d n m : lookup (remove d n) m = if Nat.eqb m n then None else lookup d m.
Proof.
  induction d as [|[k f] r IH]; cbn.
  - destruct (Nat.eqb m n); reflexivity.
  - destruct (Nat.eqb n k) eqn:E1.
    + apply Nat.eqb_eq in E1. subst k. rewrite IH. destruct (Nat.eqb m n) eqn:E2; reflexivity.
    + cbn. destruct (Nat.eqb m k) eqn:E2.
      * apply Nat.eqb_eq in E2. subst k. destruct (Nat.eqb m n) eqn:E3; [|reflexivity].
        apply Nat.eqb_eq in E3. subst. rewrite Nat.eqb_refl in E1. discriminate.
      * apply IH.
Qed.

Arguments set : simpl never.
Arguments remove : simpl never.

Lemma lookup_set d n f m : lookup (set d n f) m = if Nat.eqb m n then Some f else lookup d m.
Proof.
  unfold set. cbn [lookup]. destruct (Nat.eqb m n) eqn:E; [reflexivity|].
  rewrite lookup_remove, E. reflexivity.
Qed.

(** operations on the temporary file only *)
Definition on_tmp (t : name) (o : op) : Prop :=
  match o with
  | CreateTmp t' | Append t' _ | Unlink t' => t' = t
  | _ => False
  end.

Lemma step_on_tmp_keeps d t p o : t <> p -> on_tmp t o -> lookup (step d o) p = lookup d p.
Proof.
  intros Hne H. destruct o as [t'|t' b|t' q|q m|t']; cbn in H; try contradiction; subst t'; cbn [step].
  - rewrite lookup_set. destruct (Nat.eqb p t) eqn:E; [apply Nat.eqb_eq in E; congruence | reflexivity].
  - destruct (lookup d t); [|reflexivity]. rewrite lookup_set.
    destruct (Nat.eqb p t) eqn:E; [apply Nat.eqb_eq in E; congruence | reflexivity].
  - rewrite lookup_remove. destruct (Nat.eqb p t) eqn:E; [apply Nat.eqb_eq in E; congruence | reflexivity].
Qed.

Lemma run_on_tmp_keeps t p ops : t <> p -> Forall (on_tmp t) ops -> forall d, lookup (run_ops d ops) p = lookup d p.
Proof.
  intros Hne H. induction H as [|o r Ho Hr IH]; intros d; cbn; [reflexivity|].
  unfold run_ops in IH. rewrite IH. apply (step_on_tmp_keeps d t p o); assumption.
Qed.

(** after creation and all writes the temporary file holds the whole output *)
Lemma appends_data t cs : forall d f0, lookup d t = Some f0 ->
  option_map f_data (lookup (run_ops d (map (Append t) cs)) t) = Some (f_data f0 ++ concat cs).
Proof.
  induction cs as [|c r IH]; intros d f0 H; cbn.
  - rewrite H. cbn. rewrite app_nil_r. reflexivity.
  - rewrite H. unfold run_ops in IH.
    rewrite (IH _ {| f_data := f_data f0 ++ c; f_mode := f_mode f0 |}).
    + cbn. rewrite app_assoc. reflexivity.
    + rewrite lookup_set, Nat.eqb_refl. reflexivity.
Qed.

Lemma run_ops_app d a b : run_ops d (a ++ b) = run_ops (run_ops d a) b.
Proof. unfold run_ops. apply fold_left_app. Qed.

Lemma forall_firstn {A} (P : A -> Prop) l k : Forall P l -> Forall P (firstn k l).
Proof. intros H. revert k. induction H; intros [|k]; cbn; constructor; auto. Qed.

Definition new_data (j : job) : bytes := concat (j_chunks j).

(** one file: at every moment (= after every prefix of the operations, e.g. when the process is killed) the
    target holds its old bytes, or - only after a successful run - exactly the complete output *)
Theorem atomic_one (j : job) (d : dir) old k :
  j_tmp j <> j_path j -> data_at d (j_path j) = Some old ->
  let d' := run_ops d (firstn k (ops_of j)) in
  data_at d' (j_path j) = Some old \/ (j_ok j = true /\ data_at d' (j_path j) = Some (new_data j)).
Proof.
  intros Hne Hold. cbn zeta. unfold ops_of.
  set (t := j_tmp j) in *. set (p := j_path j) in *.
  set (pre := CreateTmp t :: map (Append t) (j_chunks j)).
  assert (Hpre : Forall (on_tmp t) pre).
  { constructor; [reflexivity|]. apply Forall_forall. intros o Ho. apply in_map_iff in Ho.
    destruct Ho as [b [<- _]]. reflexivity. }
  change (CreateTmp t :: map (Append t) (j_chunks j) ++ (if j_ok j then [Rename t p; Chmod p (j_mode j)] else [Unlink t]))
    with (pre ++ (if j_ok j then [Rename t p; Chmod p (j_mode j)] else [Unlink t])).
  rewrite firstn_app. rewrite run_ops_app.
  set (k2 := (k - length pre)%nat).
  (* state after the prefix of [pre] *)
  assert (Hkeep : lookup (run_ops d (firstn k pre)) p = lookup d p).
  { apply (run_on_tmp_keeps t p); [assumption | apply forall_firstn; assumption]. }
  destruct (le_lt_dec (length pre) k) as [Hge|Hlt].
  - (* all of [pre] was executed *)
    rewrite firstn_all2 by assumption. rewrite firstn_all2 in Hkeep by assumption.
    assert (Htmp : option_map f_data (lookup (run_ops d pre) t) = Some (new_data j)).
    { unfold pre. cbn [run_ops fold_left]. fold (run_ops (step d (CreateTmp t)) (map (Append t) (j_chunks j))).
      rewrite (appends_data t (j_chunks j) _ {| f_data := []; f_mode := 384%Z |}); [reflexivity|].
      cbn [step]. rewrite lookup_set, Nat.eqb_refl. reflexivity. }
    destruct (j_ok j) eqn:Eok.
    + destruct k2 as [|[|k3]]; cbn [firstn run_ops fold_left].
      * left. unfold data_at. rewrite Hkeep. exact Hold.
      * right. split; [reflexivity|]. unfold data_at. cbn [step].
        destruct (lookup (run_ops d pre) t) as [f|] eqn:Ef; [|discriminate].
        rewrite lookup_set, Nat.eqb_refl. cbn in Htmp. cbn. congruence.
      * right. split; [reflexivity|]. unfold data_at.
        rewrite firstn_nil. cbn [fold_left step].
        destruct (lookup (run_ops d pre) t) as [f|] eqn:Ef; [|discriminate].
        rewrite lookup_set, Nat.eqb_refl. rewrite lookup_set, Nat.eqb_refl. cbn in Htmp. cbn. congruence.
    + left. unfold data_at.
      destruct k2 as [|k3]; cbn [firstn run_ops fold_left].
      * rewrite Hkeep. exact Hold.
      * rewrite firstn_nil. cbn [fold_left step]. rewrite lookup_remove.
        destruct (Nat.eqb p t) eqn:E; [apply Nat.eqb_eq in E; congruence|].
        rewrite Hkeep. exact Hold.
  - (* killed before the end of the writes *)
    assert (k2 = 0)%nat as -> by (unfold k2; lia). cbn [firstn]. unfold run_ops at 1. cbn [fold_left].
    left. unfold data_at. rewrite Hkeep. exact Hold.
Qed.

(** after a complete successful run the target holds exactly the output and its old permission bits, and the
    temporary file is gone *)
Theorem success_state (j : job) (d : dir) fold_ :
  j_tmp j <> j_path j -> j_ok j = true -> lookup d (j_path j) = Some fold_ -> j_mode j = f_mode fold_ ->
  let d' := run_ops d (ops_of j) in
  lookup d' (j_path j) = Some {| f_data := new_data j; f_mode := f_mode fold_ |} /\ lookup d' (j_tmp j) = None.
Proof.
  intros Hne Hok Hp Hm. cbn zeta. unfold ops_of. rewrite Hok.
  set (t := j_tmp j) in *. set (p := j_path j) in *.
  change (CreateTmp t :: map (Append t) (j_chunks j) ++ [Rename t p; Chmod p (j_mode j)])
    with ((CreateTmp t :: map (Append t) (j_chunks j)) ++ [Rename t p; Chmod p (j_mode j)]).
  rewrite run_ops_app.
  set (d1 := run_ops d (CreateTmp t :: map (Append t) (j_chunks j))).
  assert (Htmp : option_map f_data (lookup d1 t) = Some (new_data j)).
  { unfold d1. cbn [run_ops fold_left]. fold (run_ops (step d (CreateTmp t)) (map (Append t) (j_chunks j))).
    rewrite (appends_data t (j_chunks j) _ {| f_data := []; f_mode := 384%Z |}); [reflexivity|].
    cbn [step]. rewrite lookup_set, Nat.eqb_refl. reflexivity. }
  unfold run_ops. cbn [fold_left step].
  destruct (lookup d1 t) as [f|] eqn:Ef; [|discriminate].
  rewrite lookup_set, Nat.eqb_refl. split.
  - rewrite lookup_set, Nat.eqb_refl. cbn in Htmp. injection Htmp as Hd. cbn. rewrite Hd, Hm. reflexivity.
  - rewrite lookup_set. destruct (Nat.eqb t p) eqn:E; [apply Nat.eqb_eq in E; congruence|].
    rewrite lookup_set, E. rewrite lookup_remove, Nat.eqb_refl. reflexivity.
Qed.

(** after a failed run nothing changed and no temporary file is left *)
Theorem failure_state (j : job) (d : dir) :
  j_tmp j <> j_path j -> j_ok j = false ->
  let d' := run_ops d (ops_of j) in
  lookup d' (j_path j) = lookup d (j_path j) /\ lookup d' (j_tmp j) = None.
Proof.
  intros Hne Hok. cbn zeta. unfold ops_of. rewrite Hok.
  set (t := j_tmp j) in *. set (p := j_path j) in *.
  change (CreateTmp t :: map (Append t) (j_chunks j) ++ [Unlink t])
    with ((CreateTmp t :: map (Append t) (j_chunks j)) ++ [Unlink t]).
  rewrite run_ops_app.
  assert (Hs : forall d0, run_ops d0 [Unlink t] = remove d0 t) by reflexivity. rewrite Hs. split.
  - rewrite lookup_remove. destruct (Nat.eqb p t) eqn:E; [apply Nat.eqb_eq in E; congruence|].
    apply (run_on_tmp_keeps t p); [assumption|].
    constructor; [reflexivity|]. apply Forall_forall. intros o Ho. apply in_map_iff in Ho.
    destruct Ho as [b [<- _]]. reflexivity.
  - rewrite lookup_remove, Nat.eqb_refl. reflexivity.
Qed.

(** ** the documented exception touches nothing but the named file and its temporary file *)
Definition op_names (o : op) : list name :=
  match o with
  | CreateTmp t | Append t _ | Unlink t => [t]
  | Rename t p => [t; p]
  | Chmod p _ => [p]
  end.

Lemma step_frame d o q : ~ In q (op_names o) -> lookup (step d o) q = lookup d q.
Proof.
  intros H. destruct o as [t|t b|t p|p m|t]; cbn [op_names In] in H; cbn [step].
  - rewrite lookup_set. destruct (Nat.eqb_spec q t); [subst; tauto|reflexivity].
  - destruct (lookup d t); [|reflexivity]. rewrite lookup_set. destruct (Nat.eqb_spec q t); [subst; tauto|reflexivity].
  - destruct (lookup d t); [|reflexivity]. rewrite lookup_set. destruct (Nat.eqb_spec q p); [subst; tauto|].
    rewrite lookup_remove. destruct (Nat.eqb_spec q t); [subst; tauto|reflexivity].
  - destruct (lookup d p); [|reflexivity]. rewrite lookup_set. destruct (Nat.eqb_spec q p); [subst; tauto|reflexivity].
  - rewrite lookup_remove. destruct (Nat.eqb_spec q t); [subst; tauto|reflexivity].
Qed.

Lemma run_ops_frame ops q : (forall o, In o ops -> ~ In q (op_names o)) -> forall d, lookup (run_ops d ops) q = lookup d q.
Proof.
  unfold run_ops. induction ops as [|o ops IH]; intros H d; [reflexivity|]. cbn [fold_left].
  rewrite IH by (intros o' Ho'; apply H; right; exact Ho'). apply step_frame. apply H. left. reflexivity.
Qed.

Theorem in_place_frame (j : job) (d : dir) q : q <> j_path j -> q <> j_tmp j ->
  lookup (run_ops d (ops_of j)) q = lookup d q.
Proof.
  intros Hp Ht. apply run_ops_frame. intros o Ho. unfold ops_of in Ho. cbn [In] in Ho.
  destruct Ho as [<-|Ho]; [cbn; intuition congruence|]. apply in_app_or in Ho as [Ho|Ho].
  - apply in_map_iff in Ho as (b & <- & _). cbn. intuition congruence.
  - destruct (j_ok j); cbn [In] in Ho; destruct Ho as [<-|Ho]; try (cbn; intuition congruence);
      destruct Ho as [<-|[]]; cbn; intuition congruence.
Qed.
