(** C03: reduce and foreach consume their source on demand.  A fold asks its source for the next item only after the update
    has yielded a state for the current one: when the update yields nothing, fails, breaks or halts, the rest of the source
    is never looked at - whatever it would do (read inputs, fail, never end) -, and foreach delivers the output for the
    current item before the source is asked again. *)
From Coq Require Import ZArith Bool List Lia FunctionalExtensionality.
From JaqV Require Import Base.Bytes Base.Stream Val.Num Val.Val Val.Err Core.Syntax Core.Compile Core.Natives Core.Run
  Proofs.FoldLaws.
From JaqV Require Proofs.CompileCorrect.
Import ListNotations.

Section FOLDLAZY.
  Variable d : val -> bytes.
  Variable nr : nat -> bytes -> list narg -> val -> option (str val).
  Variable defs : list term.
  Notation run := (run d nr defs).
  Notation fold_go := CompileCorrect.fold_go.

  (** the folding loop *)
  Lemma fold_stops_on_empty step emit fin y (k k' : unit -> str val) acc :
    step y acc = SNil -> fold_go step emit fin (SCons y k) acc = SNil /\ fold_go step emit fin (SCons y k') acc = SNil.
  Proof. intros H. cbn [CompileCorrect.fold_go]. rewrite H. split; reflexivity. Qed.

  Lemma fold_stops_on_exception step emit fin y (k : unit -> str val) acc e :
    step y acc = SExn e -> fold_go step emit fin (SCons y k) acc = SExn e.
  Proof. intros H. cbn [CompileCorrect.fold_go]. rewrite H. reflexivity. Qed.

  Lemma foreach_delivers_first step fin y (k : unit -> str val) acc z t :
    step y acc = SCons z t ->
    exists tl, fold_go step (fun _ z => sone z) fin (SCons y k) acc = SCons z tl.
  Proof. intros H. cbn [CompileCorrect.fold_go]. rewrite H. cbn [sbind sone sapp]. eexists. reflexivity. Qed.

  (** the interpreter: `reduce/foreach xs as $x (init; upd)` when the update on the first item of the source yields nothing
      (or an exception): the result does not depend on the rest [k] of the source *)
  Theorem fold_ignores_rest_after_empty fuel xs init upd ft c v i y (k : unit -> str val) :
    run (S fuel) init c v = sone i -> run fuel xs c v = SCons y k ->
    run (S fuel) upd (cons_var y c) i = SNil ->
    run (S (S fuel)) (KFold xs PatVar init upd ft) c v = SNil.
  Proof.
    intros Hi Hx Hu. rewrite (fold_expansion d nr defs), Hi, Hx. cbn [sbind sone sapp CompileCorrect.fold_go]. rewrite Hu. reflexivity.
  Qed.

  Theorem fold_ignores_rest_after_exception fuel xs init upd ft c v i y (k : unit -> str val) e :
    run (S fuel) init c v = sone i -> run fuel xs c v = SCons y k ->
    run (S fuel) upd (cons_var y c) i = SExn e ->
    run (S (S fuel)) (KFold xs PatVar init upd ft) c v = SExn e.
  Proof.
    intros Hi Hx Hu. rewrite (fold_expansion d nr defs), Hi, Hx. cbn [sbind sone sapp CompileCorrect.fold_go]. rewrite Hu. reflexivity.
  Qed.

  (** foreach without projection: the state for the first item is delivered whatever the rest of the source is *)
  Theorem foreach_first_output fuel xs init upd c v i y (k : unit -> str val) z t :
    run (S fuel) init c v = sone i -> run fuel xs c v = SCons y k ->
    run (S fuel) upd (cons_var y c) i = SCons z t ->
    exists tl, run (S (S fuel)) (KFold xs PatVar init upd (Foreach None)) c v = SCons z tl.
  Proof.
    intros Hi Hx Hu. rewrite (fold_expansion d nr defs), Hi, Hx. cbn [sbind sone sapp CompileCorrect.fold_go emit_of]. rewrite Hu.
    cbn [sbind sone sapp]. eexists. reflexivity.
  Qed.
End FOLDLAZY.
