(** Laws of the main loop of the command line (Cli/Main.v). *)
From Coq Require Import ZArith Bool List Lia.
From JaqV Require Import Base.Bytes Base.Stream Val.Val Val.Err Core.Syntax Core.Compile Core.Run Core.Eval Json.Write Cli.Main.
Import ListNotations.

Definition no_raw0 (o : opts) : Prop := o_to o <> OutRaw0.

Lemma render_some o v : no_raw0 o -> exists b, render o v = Some b.
Proof.
  intros H. unfold render. destruct (o_to o) eqn:E; [| |contradiction];
  destruct v; cbn; eauto.
Qed.

Definition render_or_empty (o : opts) (v : val) : bytes :=
  match render o v with Some b => b | None => [] end.

Definition last_of (items : list val) (last : option bool) : option bool :=
  match rev items with v :: _ => Some (as_bool v) | [] => last end.

(** every output is written completely, in order, after what was written before *)
Lemma emit_spec o items : no_raw0 o -> forall acc last,
  emit o items acc last = (acc ++ concat (map (render_or_empty o) items), last_of items last, true).
Proof.
  intros H. induction items as [|v r IH]; intros acc last.
  - cbn. rewrite app_nil_r. reflexivity.
  - cbn [emit]. destruct (render_some o v H) as [b Hb]. rewrite Hb. rewrite IH.
    cbn [map concat]. unfold render_or_empty at 2. rewrite Hb. rewrite <- app_assoc.
    f_equal. f_equal. unfold last_of. cbn [rev].
    destruct (rev r) as [|w ws] eqn:Er; cbn; reflexivity.
Qed.

(** what has been written is never taken back: the final stdout extends the earlier one *)
Lemma main_loop_extends fuel o p g inputs : forall out last,
  exists more, fst (main_loop fuel o p g inputs out last) = out ++ more.
Proof.
  induction inputs as [|x rest IH]; intros out last; cbn [main_loop].
  - exists []. cbn. rewrite app_nil_r. reflexivity.
  - destruct (collect (run_main fuel p g x)) as [items fin].
    assert (Hemit : exists more1, fst (fst (emit o items out last)) = out ++ more1).
    { clear. revert out last. induction items as [|v r IHi]; intros out last; cbn [emit].
      - exists []. cbn. rewrite app_nil_r. reflexivity.
      - destruct (render o v) as [b|].
        + destruct (IHi (out ++ b) (Some (as_bool v))) as [m Hm]. exists (b ++ m). rewrite Hm. rewrite app_assoc. reflexivity.
        + exists []. cbn. rewrite app_nil_r. reflexivity. }
    destruct (emit o items out last) as [[out' last'] ok]. cbn [fst] in Hemit. destruct Hemit as [m1 Hm1].
    destruct ok; cbn [negb].
    + destruct fin as [|e| |]; try (exists m1; cbn; exact Hm1).
      * destruct (IH out' last') as [m2 Hm2]. exists (m1 ++ m2). rewrite Hm2, Hm1. rewrite app_assoc. reflexivity.
      * destruct e; exists m1; cbn; exact Hm1.
    + exists m1. cbn. exact Hm1.
Qed.

(** output options change only the rendering: the outcome (and hence the exit status) is the same *)
Lemma outcome_frame fuel o1 o2 p g inputs : no_raw0 o1 -> no_raw0 o2 -> forall out1 out2 last,
  snd (main_loop fuel o1 p g inputs out1 last) = snd (main_loop fuel o2 p g inputs out2 last).
Proof.
  intros H1 H2. induction inputs as [|x rest IH]; intros out1 out2 last; cbn [main_loop].
  - reflexivity.
  - destruct (collect (run_main fuel p g x)) as [items fin].
    rewrite (emit_spec o1 items H1), (emit_spec o2 items H2). cbn [negb].
    destruct fin as [|e| |]; try reflexivity.
    + apply IH.
    + destruct e; reflexivity.
Qed.

(** the exit status table *)
Lemma exit_code_table o :
  (forall last, o_exit_status o = false -> exit_code o (Finished last) = 0%Z) /\
  (o_exit_status o = true -> exit_code o (Finished None) = 4%Z /\ exit_code o (Finished (Some false)) = 1%Z /\ exit_code o (Finished (Some true)) = 0%Z) /\
  exit_code o RunError = 5%Z /\ (forall l, exit_code o (InputError l) = 5%Z) /\
  (forall c, (0 <= c < 256)%Z -> exit_code o (Halted c) = c) /\ exit_code o WriteError = 2%Z.
Proof.
  repeat split; intros; cbn; try rewrite H; try reflexivity.
  apply Z.mod_small. assumption.
Qed.
