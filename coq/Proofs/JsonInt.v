(** JSON integers of any size survive print-then-parse: the number lexer (hifijson's state machine as modelled in
    Json/Read.v) accepts exactly the digits that [Display] wrote, and the literal is read as the same integer. *)
From Coq Require Import ZArith Bool List Lia.
From Coq Require Import Init.Byte.
From JaqV Require Import Base.Bytes Base.F64 Val.Num Val.Val Json.Write Json.Read Proofs.DigitLaws.
Import ListNotations.
Local Open Scope Z_scope.

Lemma is_digit_dig d : is_digit d = true -> is_dig (bz d) = true.
Proof. intros H. exact H. Qed.

(** once a digit has been read (no leading zero, no dot, no exponent), every further digit is accepted *)
Lemma lex_digits ds : forall st acc, all_digits ds = true ->
  is_dig (n_read st) = true -> n_zero st = false -> n_dot st = false -> n_exp st = false ->
  exists st', lex_num st ds acc = (rev acc ++ ds, st', []) /\ n_dot st' = false /\ n_exp st' = false.
Proof.
  induction ds as [|d ds IH]; intros st acc Hd Hr Hz Hdot Hexp.
  - exists st. cbn [lex_num]. rewrite app_nil_r. auto.
  - cbn [all_digits forallb] in Hd. apply andb_prop in Hd as [Hd1 Hd2]. cbn [lex_num].
    assert (E : num_part st (bz d) = Some {| n_read := bz d; n_zero := false; n_dot := false; n_exp := false |}).
    { unfold num_part. unfold is_dig in Hr. apply andb_prop in Hr as [R1 R2]. apply Z.leb_le in R1, R2.
      pose proof Hd1 as Hd1'. unfold is_digit in Hd1'. apply andb_prop in Hd1' as [D1 D2]. apply Z.leb_le in D1, D2.
      destruct (Z.eqb_spec (n_read st) 0); [lia|]. destruct (Z.eqb_spec (n_read st) 45); [lia|]. cbn [orb andb].
      change (is_dig (bz d)) with (is_digit d). rewrite Hd1, Hz, Hdot, Hexp. reflexivity. }
    rewrite E. destruct (IH {| n_read := bz d; n_zero := false; n_dot := false; n_exp := false |} (d :: acc) Hd2) as (st' & L & A & B);
      [exact Hd1|reflexivity|reflexivity|reflexivity|].
    exists st'. rewrite L. cbn [rev]. rewrite <- app_assoc. auto.
Qed.

(** the first digit, at the start or after the sign *)
Lemma first_digit st d : is_digit d = true -> n_zero st = false -> n_dot st = false -> n_exp st = false ->
  (n_read st = 101 \/ (n_read st = 45 /\ 49 <= bz d)) ->
  num_part st (bz d) = Some {| n_read := bz d; n_zero := false; n_dot := false; n_exp := false |}.
Proof.
  intros Hd Hz Hdot Hexp Hr. unfold num_part. pose proof Hd as Hd'. unfold is_digit in Hd'. apply andb_prop in Hd' as [D1 D2].
  apply Z.leb_le in D1, D2. change (is_dig (bz d)) with (is_digit d). rewrite Hd, Hz, Hdot, Hexp.
  destruct Hr as [R|[R Hge]]; rewrite R.
  - cbn. destruct (Z.eqb_spec (bz d) 45); [lia|]. reflexivity.
  - destruct (Z.eqb_spec (bz d) 48); [lia|]. cbn. destruct (Z.eqb_spec (bz d) 45); [lia|]. reflexivity.
Qed.

Lemma last_is_digit_app x d : is_digit d = true -> last_is_digit (x ++ [d]) = true.
Proof. intros H. unfold last_is_digit. rewrite rev_app_distr. cbn. exact H. Qed.

Lemma all_digits_last ds : ds <> [] -> all_digits ds = true -> forall pre, last_is_digit (pre ++ ds) = true.
Proof.
  intros Hne Hd pre. destruct (exists_last Hne) as (x & d & ->). rewrite all_digits_app in Hd. apply andb_prop in Hd as [_ H].
  cbn in H. rewrite andb_true_r in H. rewrite app_assoc. apply last_is_digit_app. exact H.
Qed.

Theorem parse_num_print z : parse_num (Z_to_dec z) = POk (int_or_big z) [].
Proof.
  pose proof (parse_int_dec_print z) as HP. unfold parse_num, Z_to_dec in *.
  destruct (Z.ltb_spec z 0) as [Hn|Hp].
  - destruct (nat_digits_spec (- z) ltac:(lia)) as (Hne & Hd & Hv & Hh). specialize (Hh ltac:(lia)).
    destruct (nat_digits (- z)) as [|d ds] eqn:E; [congruence|]. cbn [lex_num].
    change (num_part signed_digits (bz x2d)) with (Some {| n_read := 45; n_zero := false; n_dot := false; n_exp := false |}).
    cbn [lex_num]. cbn [all_digits forallb] in Hd. apply andb_prop in Hd as [Hd1 Hd2].
    rewrite (first_digit _ d Hd1); [|reflexivity|reflexivity|reflexivity|right; split; [reflexivity|lia]].
    destruct (lex_digits ds {| n_read := bz d; n_zero := false; n_dot := false; n_exp := false |} [d; x2d] Hd2) as (st' & L & A & B);
      [exact Hd1|reflexivity|reflexivity|reflexivity|].
    rewrite L. cbn [rev app]. cbn [strip_prefix l_infinity lit of_ascii map].
    assert (LD : last_is_digit (x2d :: d :: ds) = true).
    { apply (all_digits_last (d :: ds) ltac:(discriminate)) with (pre := [x2d]). cbn [all_digits forallb]. rewrite Hd1. exact Hd2. }
    destruct ds as [|d2 ds']; rewrite LD, A, B; cbn [negb andb]; rewrite HP; reflexivity.
  - destruct (nat_digits_spec z Hp) as (Hne & Hd & Hv & Hh).
    destruct (nat_digits z) as [|d ds] eqn:E; [congruence|]. cbn [lex_num].
    cbn [all_digits forallb] in Hd. apply andb_prop in Hd as [Hd1 Hd2].
    rewrite (first_digit _ d Hd1); [|reflexivity|reflexivity|reflexivity|left; reflexivity].
    destruct (lex_digits ds {| n_read := bz d; n_zero := false; n_dot := false; n_exp := false |} [d] Hd2) as (st' & L & A & B);
      [exact Hd1|reflexivity|reflexivity|reflexivity|].
    rewrite L. cbn [rev app]. cbn [strip_prefix l_infinity lit of_ascii map].
    assert (LD : last_is_digit (d :: ds) = true).
    { apply (all_digits_last (d :: ds) ltac:(discriminate)) with (pre := []). cbn [all_digits forallb]. rewrite Hd1. exact Hd2. }
    destruct ds as [|d2 ds']; rewrite LD, A, B; cbn [negb andb]; rewrite HP; reflexivity.
Qed.

(** as the writer prints them: machine integers and big integers *)
Theorem json_integer_roundtrip z : parse_num (show_num (int_or_big z)) = POk (int_or_big z) [].
Proof.
  assert (show_num (int_or_big z) = Z_to_dec z) as -> by (unfold int_or_big; destruct (in_isize z); reflexivity).
  apply parse_num_print.
Qed.
