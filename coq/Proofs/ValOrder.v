(** The order of values ([impl Ord for Val], Val/Val.v [cmp_f]) is a total preorder on nested values - arrays compared
    lexicographically, objects by their sorted keys and then the values in that order - whenever it is one on the numbers that
    occur: lifted from numbers to all values by induction over the nesting. *)
From Coq Require Import ZArith Bool List Lia.
From Coq Require Import Init.Byte.
From JaqV Require Import Base.Bytes Base.F64 Val.Num Val.Val Proofs.F64Order Proofs.NumExact.
Import ListNotations.

(** ** total preorders relative to a class *)
Section TP.
  Context {A : Type}.
  Variable c : A -> A -> comparison.
  Variable P : A -> Prop.

  Record tpo : Prop := {
    tp_refl : forall a, P a -> c a a = Eq;
    tp_anti : forall a b, P a -> P b -> c b a = CompOpp (c a b);
    tp_le : forall a b d, P a -> P b -> P d -> c a b <> Gt -> c b d <> Gt -> c a d <> Gt }.

  Hypothesis H : tpo.

  Lemma tp_eq_sym a b : P a -> P b -> c a b = Eq -> c b a = Eq.
  Proof. intros Pa Pb E. rewrite (tp_anti H a b Pa Pb), E. reflexivity. Qed.

  (** equivalent elements compare alike with everything *)
  Lemma tp_cong_l a b d : P a -> P b -> P d -> c a b = Eq -> c a d = c b d.
  Proof.
    intros Pa Pb Pd E. pose proof (tp_eq_sym a b Pa Pb E) as E'.
    destruct (c b d) eqn:Ebd.
    - assert (L1 : c a d <> Gt) by (apply (tp_le H a b d); congruence).
      assert (L2 : c d a <> Gt).
      { apply (tp_le H d b a); try assumption; [|congruence]. rewrite (tp_anti H b d Pb Pd), Ebd. discriminate. }
      rewrite (tp_anti H a d Pa Pd) in L2. destruct (c a d); try reflexivity; cbn in *; congruence.
    - assert (L1 : c a d <> Gt) by (apply (tp_le H a b d); congruence).
      destruct (c a d) eqn:Ead; try reflexivity; try congruence.
      exfalso. assert (L2 : c d b <> Gt).
      { apply (tp_le H d a b); try assumption; [|congruence]. rewrite (tp_anti H a d Pa Pd), Ead. discriminate. }
      rewrite (tp_anti H b d Pb Pd), Ebd in L2. cbn in L2. congruence.
    - destruct (c a d) eqn:Ead; try reflexivity; exfalso.
      + assert (L : c b d <> Gt) by (apply (tp_le H b a d); congruence). congruence.
      + assert (L : c b d <> Gt) by (apply (tp_le H b a d); congruence). congruence.
  Qed.

  Lemma tp_lt_le a b d : P a -> P b -> P d -> c a b = Lt -> c b d <> Gt -> c a d = Lt.
  Proof.
    intros Pa Pb Pd E L. assert (L1 : c a d <> Gt) by (apply (tp_le H a b d); congruence).
    destruct (c a d) eqn:Ead; try reflexivity; try congruence. exfalso.
    (* a ~ d, so d < b, i.e. b > d *)
    pose proof (tp_cong_l a d b Pa Pd Pb Ead) as Q. rewrite E in Q.
    rewrite (tp_anti H d b Pd Pb) in L. rewrite <- Q in L. cbn in L. congruence.
  Qed.

  (** ** lists, lexicographically *)
  Lemma lex_refl l : Forall P l -> lex_cmp c l l = Eq.
  Proof. induction 1 as [|a l Pa _ IH]; [reflexivity|]. cbn [lex_cmp]. rewrite (tp_refl H a Pa). exact IH. Qed.

  Lemma lex_anti x : forall y, Forall P x -> Forall P y -> lex_cmp c y x = CompOpp (lex_cmp c x y).
  Proof.
    induction x as [|a x IH]; intros [|b y] Hx Hy; try reflexivity. inversion Hx; inversion Hy; subst.
    cbn [lex_cmp]. rewrite (tp_anti H a b) by assumption. destruct (c a b); cbn [CompOpp]; try reflexivity. apply IH; auto.
  Qed.

  Lemma lex_le x : forall y z, Forall P x -> Forall P y -> Forall P z ->
    lex_cmp c x y <> Gt -> lex_cmp c y z <> Gt -> lex_cmp c x z <> Gt.
  Proof.
    induction x as [|a x IH]; intros [|b y] [|d z] Hx Hy Hz L1 L2; cbn [lex_cmp] in *; try congruence; try discriminate.
    inversion Hx; inversion Hy; inversion Hz; subst.
    destruct (c a b) eqn:Eab; [| |congruence].
    - rewrite (tp_cong_l a b d) by assumption. destruct (c b d) eqn:Ebd; [|discriminate|congruence]. apply (IH y z); assumption.
    - assert (c b d <> Gt) by (destruct (c b d); congruence).
      rewrite (tp_lt_le a b d) by assumption. discriminate.
  Qed.

End TP.

Theorem lex_tpo {A} (c : A -> A -> comparison) P : tpo c P -> tpo (lex_cmp c) (Forall P).
Proof.
  intros H. constructor.
  - apply (lex_refl c P H).
  - intros a b Ha Hb. apply (lex_anti c P H); assumption.
  - intros a b d Ha Hb Hd. apply (lex_le c P H); assumption.
Qed.

(** a total preorder pulled back along a function, and restricted to a smaller class *)
Lemma tpo_pullback {A B} (c : B -> B -> comparison) (Q : B -> Prop) (f : A -> B) (P : A -> Prop) :
  tpo c Q -> (forall a, P a -> Q (f a)) -> tpo (fun x y => c (f x) (f y)) P.
Proof.
  intros H HP. constructor.
  - intros a Pa. apply (tp_refl _ _ H). auto.
  - intros a b Pa Pb. apply (tp_anti _ _ H); auto.
  - intros a b d Pa Pb Pd. apply (tp_le _ _ H); auto.
Qed.

Lemma tpo_ext {A} (c c' : A -> A -> comparison) (P : A -> Prop) :
  tpo c P -> (forall a b, P a -> P b -> c' a b = c a b) -> tpo c' P.
Proof.
  intros H E. constructor.
  - intros a Pa. rewrite E by assumption. apply (tp_refl _ _ H). exact Pa.
  - intros a b Pa Pb. rewrite !E by assumption. apply (tp_anti _ _ H); assumption.
  - intros a b d Pa Pb Pd. rewrite !E by assumption. apply (tp_le _ _ H); assumption.
Qed.

(** ** the scalar orders *)
Lemma z_tpo : tpo Z.compare (fun _ => True).
Proof.
  constructor.
  - intros a _. apply Z.compare_refl.
  - intros a b _ _. apply Z.compare_antisym.
  - intros a b d _ _ _ H1 H2. rewrite Z.compare_gt_iff in *. lia.
Qed.

Lemma bytes_cmp_lex x : forall y, bytes_cmp x y = lex_cmp (fun a b => Z.compare (bz a) (bz b)) x y.
Proof. induction x as [|a x IH]; intros [|b y]; try reflexivity. cbn [bytes_cmp lex_cmp]. rewrite IH. reflexivity. Qed.

Lemma bytes_tpo : tpo bytes_cmp (fun _ => True).
Proof.
  eapply tpo_ext with (c := lex_cmp (fun a b => Z.compare (bz a) (bz b))).
  - pose proof (lex_tpo _ _ (tpo_pullback Z.compare (fun _ => True) bz (fun _ : byte => True) z_tpo (fun _ _ => I))) as L.
    constructor.
    + intros a _. apply (tp_refl _ _ L). apply Forall_forall. auto.
    + intros a b _ _. apply (tp_anti _ _ L); apply Forall_forall; auto.
    + intros a b d _ _ _. apply (tp_le _ _ L); apply Forall_forall; auto.
  - intros a b _ _. apply bytes_cmp_lex.
Qed.

Lemma bool_tpo : tpo bool_cmp (fun _ => True).
Proof. constructor; [intros []|intros [] []|intros [] [] []]; intros; cbn in *; congruence. Qed.

(** ** sorting keeps the elements *)
Lemma insert_by_in {A} (c : A -> A -> comparison) a l x : In x (insert_by c a l) -> x = a \/ In x l.
Proof.
  induction l as [|b r IH]; cbn [insert_by]; [intros [<-|[]]; auto|]. destruct (c a b).
  - intros [<-|H]; auto.
  - intros [<-|H]; auto.
  - intros [<-|H]; [right; left; reflexivity|]. destruct (IH H) as [->|H']; [auto|right; right; exact H'].
Qed.

Lemma sort_by_in {A} (c : A -> A -> comparison) l x : In x (sort_by c l) -> In x l.
Proof.
  revert x; induction l as [|a l IH]; intros x H; [exact H|]. cbn [sort_by fold_right] in H. fold (sort_by c l) in H.
  destruct (insert_by_in c a _ x H) as [->|H']; [left; reflexivity|right; apply IH; exact H'].
Qed.

Lemma sort_by_nonempty {A} (c : A -> A -> comparison) a l : exists h t, sort_by c (a :: l) = h :: t.
Proof.
  cbn [sort_by fold_right]. fold (sort_by c l). destruct (sort_by c l) as [|b r]; cbn [insert_by]; [eauto|]. destruct (c a b); eauto.
Qed.

Lemma insert_by_ext {A} (c c' : A -> A -> comparison) a l : (forall b, In b l -> c a b = c' a b) -> insert_by c a l = insert_by c' a l.
Proof.
  induction l as [|b r IH]; intros H; [reflexivity|]. cbn [insert_by]. rewrite <- (H b (or_introl eq_refl)).
  destruct (c a b); try reflexivity. f_equal. apply IH. intros x Hx. apply H. right. exact Hx.
Qed.

Lemma sort_by_ext {A} (c c' : A -> A -> comparison) l : (forall a b, In a l -> In b l -> c a b = c' a b) -> sort_by c l = sort_by c' l.
Proof.
  induction l as [|a l IH]; intros H; [reflexivity|]. cbn [sort_by fold_right]. fold (sort_by c l) (sort_by c' l).
  rewrite <- IH by (intros x y Hx Hy; apply H; right; assumption).
  apply insert_by_ext. intros b Hb. apply H; [left; reflexivity|right; apply (sort_by_in c l b Hb)].
Qed.

Lemma lex_ext {A} (c c' : A -> A -> comparison) x : forall y, (forall a b, In a x -> In b y -> c a b = c' a b) -> lex_cmp c x y = lex_cmp c' x y.
Proof.
  induction x as [|a x IH]; intros [|b y] H; try reflexivity. cbn [lex_cmp]. rewrite <- (H a b (or_introl eq_refl) (or_introl eq_refl)).
  destruct (c a b); try reflexivity. apply IH. intros p q Hp Hq. apply H; right; assumption.
Qed.

(** ** depths *)
Lemma depth_arr_in x a : In x a -> (depth x < depth (Arr a))%nat.
Proof.
  intros Hx. cbn [depth]. assert (depth x <= fold_right (fun x m => Nat.max (depth x) m) O a)%nat; [|lia].
  induction a as [|y a IH]; [destruct Hx|]. cbn. destruct Hx as [->|Hx]; [lia|specialize (IH Hx); lia].
Qed.

Lemma depth_obj_in kv o : In kv o -> (depth (fst kv) < depth (Obj o))%nat /\ (depth (snd kv) < depth (Obj o))%nat.
Proof.
  intros Hx. destruct kv as [k x]. cbn [depth fst snd].
  assert (Nat.max (depth k) (depth x) <= fold_right (fun kv m => match kv with (k, x) => Nat.max (Nat.max (depth k) (depth x)) m end) O o)%nat; [|lia].
  induction o as [|[k2 y] o IH]; [destruct Hx|]. cbn. destruct Hx as [E|Hx]; [injection E as -> ->; lia|specialize (IH Hx); lia].
Qed.

(** ** objects compare as the pair (sorted keys, values in that order) *)
Definition srt (n : nat) (o : obj) : obj := sort_by (fun p q => cmp_f n (fst p) (fst q)) o.
Definition okey (n : nat) (o : obj) : list (list val) := [map fst (srt n o); map snd (srt n o)].

Lemma obj_cmp_eq n a b : cmp_f (S n) (Obj a) (Obj b) = lex_cmp (lex_cmp (cmp_f n)) (okey n a) (okey n b).
Proof.
  cbn [cmp_f]. unfold okey. fold (srt n a) (srt n b). destruct a as [|p a], b as [|q b].
  - reflexivity.
  - destruct (sort_by_nonempty (fun p q => cmp_f n (fst p) (fst q)) q b) as (h & t & E). unfold srt. rewrite E. reflexivity.
  - destruct (sort_by_nonempty (fun p q => cmp_f n (fst p) (fst q)) p a) as (h & t & E). unfold srt. rewrite E. reflexivity.
  - cbn [lex_cmp]. destruct (lex_cmp (cmp_f n) (map fst (srt n (p :: a))) (map fst (srt n (q :: b)))); try reflexivity.
    destruct (lex_cmp (cmp_f n) (map snd (srt n (p :: a))) (map snd (srt n (q :: b)))); reflexivity.
Qed.

(** ** the lifting *)
Section LIFT.
  Variable N : num -> Prop.
  Hypothesis HN : tpo num_cmp N.

  Inductive vok : val -> Prop :=
  | ok_null : vok Null
  | ok_bool b : vok (Bool b)
  | ok_num x : N x -> vok (Num x)
  | ok_tstr s : vok (TStr s)
  | ok_bstr s : vok (BStr s)
  | ok_arr a : Forall vok a -> vok (Arr a)
  | ok_obj o : Forall (fun kv => vok (fst kv) /\ vok (snd kv)) o -> vok (Obj o).

  Definition cls (n : nat) (v : val) : Prop := vok v /\ (depth v < n)%nat.

  Lemma cls_arr n a : cls (S n) (Arr a) -> Forall (cls n) a.
  Proof.
    intros [Hv Hd]. inversion Hv as [| | | | |? Ha|]; subst. rewrite Forall_forall in *. intros x Hx. split; [apply Ha; exact Hx|].
    pose proof (depth_arr_in x a Hx). lia.
  Qed.

  Lemma cls_okey n o : cls (S n) (Obj o) -> Forall (Forall (cls n)) (okey n o).
  Proof.
    intros [Hv Hd]. inversion Hv as [| | | | | |? Ho]; subst. rewrite Forall_forall in Ho.
    assert (E : forall kv, In kv (srt n o) -> cls n (fst kv) /\ cls n (snd kv)).
    { intros kv Hkv. apply sort_by_in in Hkv. destruct (Ho kv Hkv) as [V1 V2]. destruct (depth_obj_in kv o Hkv) as [D1 D2].
      split; split; try assumption; lia. }
    unfold okey. repeat constructor; rewrite Forall_forall; intros x Hx; apply in_map_iff in Hx as (kv & <- & Hkv); apply (E kv Hkv).
  Qed.

  Lemma cmp_tpo n : tpo (cmp_f n) (cls n).
  Proof.
    induction n as [|n IH]; [constructor; intros; match goal with H : cls 0 _ |- _ => destruct H; lia end|].
    pose proof (lex_tpo _ _ IH) as LA. pose proof (lex_tpo _ _ LA) as LL.
    constructor.
    - (* reflexive *)
      intros a Ha. destruct a as [|b|x|s|s|l|o].
      + reflexivity.
      + cbn [cmp_f]. apply (tp_refl _ _ bool_tpo). exact I.
      + cbn [cmp_f]. destruct Ha as [Hv _]. inversion Hv; subst. apply (tp_refl _ _ HN). assumption.
      + cbn [cmp_f]. apply (tp_refl _ _ bytes_tpo). exact I.
      + cbn [cmp_f]. apply (tp_refl _ _ bytes_tpo). exact I.
      + cbn [cmp_f]. apply (tp_refl _ _ LA). apply cls_arr. exact Ha.
      + rewrite obj_cmp_eq. apply (tp_refl _ _ LL). apply cls_okey. exact Ha.
    - (* antisymmetric *)
      intros a b Ha Hb. destruct a as [|b1|x1|s1|s1|l1|o1], b as [|b2|x2|s2|s2|l2|o2]; try reflexivity.
      + cbn [cmp_f]. apply (tp_anti _ _ bool_tpo); exact I.
      + cbn [cmp_f]. destruct Ha as [Hv1 _], Hb as [Hv2 _]. inversion Hv1; inversion Hv2; subst. apply (tp_anti _ _ HN); assumption.
      + cbn [cmp_f]. apply (tp_anti _ _ bytes_tpo); exact I.
      + cbn [cmp_f]. apply (tp_anti _ _ bytes_tpo); exact I.
      + cbn [cmp_f]. apply (tp_anti _ _ bytes_tpo); exact I.
      + cbn [cmp_f]. apply (tp_anti _ _ bytes_tpo); exact I.
      + cbn [cmp_f]. apply (tp_anti _ _ LA); apply cls_arr; assumption.
      + rewrite !obj_cmp_eq. apply (tp_anti _ _ LL); apply cls_okey; assumption.
    - (* transitive *)
      intros a b d Ha Hb Hd L1 L2.
      destruct a as [|b1|x1|s1|s1|l1|o1], b as [|b2|x2|s2|s2|l2|o2], d as [|b3|x3|s3|s3|l3|o3];
        try (cbn in L1, L2 |- *; congruence).
      + cbn [cmp_f] in *. eapply (tp_le _ _ bool_tpo); eauto.
      + cbn [cmp_f] in *. destruct Ha as [Hv1 _], Hb as [Hv2 _], Hd as [Hv3 _]. inversion Hv1; inversion Hv2; inversion Hv3; subst.
        eapply (tp_le _ _ HN) with (b := x2); eauto.
      + cbn [cmp_f] in *. eapply (tp_le _ _ bytes_tpo) with (b := s2); eauto.
      + cbn [cmp_f] in *. eapply (tp_le _ _ bytes_tpo) with (b := s2); eauto.
      + cbn [cmp_f] in *. eapply (tp_le _ _ bytes_tpo) with (b := s2); eauto.
      + cbn [cmp_f] in *. eapply (tp_le _ _ bytes_tpo) with (b := s2); eauto.
      + cbn [cmp_f] in *. eapply (tp_le _ _ bytes_tpo) with (b := s2); eauto.
      + cbn [cmp_f] in *. eapply (tp_le _ _ bytes_tpo) with (b := s2); eauto.
      + cbn [cmp_f] in *. eapply (tp_le _ _ bytes_tpo) with (b := s2); eauto.
      + cbn [cmp_f] in *. eapply (tp_le _ _ bytes_tpo) with (b := s2); eauto.
      + cbn [cmp_f] in *. eapply (tp_le _ _ LA) with (b := l2); eauto using cls_arr.
      + rewrite !obj_cmp_eq in *. eapply (tp_le _ _ LL) with (b := okey n o2); eauto using cls_okey.
  Qed.
End LIFT.

(** ** the fuel beyond the nesting depth does not matter *)
Lemma cmp_fuel_step n : forall x y, (depth x < n)%nat -> (depth y < n)%nat -> cmp_f (S n) x y = cmp_f n x y.
Proof.
  induction n as [|n IH]; intros x y Hx Hy; [lia|].
  destruct x as [|b1|x1|s1|s1|l1|o1], y as [|b2|x2|s2|s2|l2|o2]; try reflexivity.
  - (* arrays *) change (lex_cmp (cmp_f (S n)) l1 l2 = lex_cmp (cmp_f n) l1 l2). apply lex_ext. intros a b Ha Hb.
    pose proof (depth_arr_in a l1 Ha). pose proof (depth_arr_in b l2 Hb). apply IH; lia.
  - (* objects *) rewrite !obj_cmp_eq. unfold okey, srt.
    assert (K : forall o, (depth (Obj o) < S n)%nat ->
              sort_by (fun p q => cmp_f (S n) (fst p) (fst q)) o = sort_by (fun p q => cmp_f n (fst p) (fst q)) o).
    { intros o Ho. apply sort_by_ext. intros p q Hp Hq. destruct (depth_obj_in p o Hp), (depth_obj_in q o Hq). apply IH; lia. }
    rewrite (K o1 Hx), (K o2 Hy).
    apply lex_ext. intros a b Ha Hb. apply lex_ext. intros u v Hu Hv. apply IH.
    + destruct Ha as [<-|[<-|[]]]; apply in_map_iff in Hu as (kv & <- & Hkv); apply sort_by_in in Hkv; destruct (depth_obj_in kv o1 Hkv); lia.
    + destruct Hb as [<-|[<-|[]]]; apply in_map_iff in Hv as (kv & <- & Hkv); apply sort_by_in in Hkv; destruct (depth_obj_in kv o2 Hkv); lia.
Qed.

Lemma cmp_fuel m : forall n x y, (n <= m)%nat -> (depth x < n)%nat -> (depth y < n)%nat -> cmp_f m x y = cmp_f n x y.
Proof.
  induction m as [|m IH]; intros n x y Hle Hx Hy; [lia|]. destruct (Nat.eq_dec n (S m)) as [->|Hne]; [reflexivity|].
  rewrite cmp_fuel_step by lia. apply IH; lia.
Qed.

Lemma val_cmp_fuel n x y : (depth x < n)%nat -> (depth y < n)%nat -> val_cmp x y = cmp_f n x y.
Proof. intros Hx Hy. unfold val_cmp. symmetry. apply cmp_fuel; lia. Qed.

(** ** the order of values *)
Theorem val_cmp_tpo N : tpo num_cmp N -> tpo val_cmp (vok N).
Proof.
  intros HN. constructor.
  - intros a Ha. rewrite (val_cmp_fuel (S (depth a))) by lia. apply (tp_refl _ _ (cmp_tpo N HN _)). split; [exact Ha|lia].
  - intros a b Ha Hb. set (n := S (Nat.max (depth a) (depth b))).
    rewrite (val_cmp_fuel n a b), (val_cmp_fuel n b a) by (unfold n; lia).
    apply (tp_anti _ _ (cmp_tpo N HN n)); (split; [assumption|unfold n; lia]).
  - intros a b d Ha Hb Hd. set (n := S (Nat.max (depth a) (Nat.max (depth b) (depth d)))).
    rewrite (val_cmp_fuel n a b), (val_cmp_fuel n b d), (val_cmp_fuel n a d) by (unfold n; lia).
    apply (tp_le _ _ (cmp_tpo N HN n)); (split; [assumption|unfold n; lia]).
Qed.

(** exactly one of <, ==, > in both directions *)
Corollary val_trichotomy N : tpo num_cmp N -> forall a b, vok N a -> vok N b ->
  (val_cmp a b = Lt /\ val_cmp b a = Gt) \/ (val_cmp a b = Eq /\ val_cmp b a = Eq) \/ (val_cmp a b = Gt /\ val_cmp b a = Lt).
Proof.
  intros HN a b Ha Hb. pose proof (tp_anti _ _ (val_cmp_tpo N HN) a b Ha Hb) as E. destruct (val_cmp a b); rewrite E; cbn; auto.
Qed.

(** ** the classes of numbers *)
(** integers of any size, in either representation *)
Definition all_int (x : num) : Prop := exists z, int_val x = Some z.

Lemma int_tpo : tpo num_cmp all_int.
Proof.
  constructor.
  - intros a (z & Hz). rewrite (num_cmp_ints a a z z Hz Hz). apply Z.compare_refl.
  - intros a b (z & Hz) (w & Hw). rewrite (num_cmp_ints b a w z Hw Hz), (num_cmp_ints a b z w Hz Hw). apply Z.compare_antisym.
  - intros a b d (z & Hz) (w & Hw) (u & Hu). rewrite (num_cmp_ints a b z w Hz Hw), (num_cmp_ints b d w u Hw Hu), (num_cmp_ints a d z u Hz Hu).
    rewrite !Z.compare_gt_iff. lia.
Qed.

(** floats free of NaN *)
Definition all_float (x : num) : Prop := exists b, x = Flt b /\ nonan b.

Lemma float_tpo : tpo num_cmp all_float.
Proof.
  constructor.
  - intros a (x & -> & Hx). apply float_cmp_refl. exact Hx.
  - intros a b (x & -> & Hx) (y & -> & Hy). apply float_cmp_antisym; assumption.
  - intros a b d (x & -> & Hx) (y & -> & Hy) (z & -> & Hz). apply float_cmp_trans_le; assumption.
Qed.

Theorem val_order_integers : tpo val_cmp (vok all_int).
Proof. apply val_cmp_tpo. exact int_tpo. Qed.
Theorem val_order_floats : tpo val_cmp (vok all_float).
Proof. apply val_cmp_tpo. exact float_tpo. Qed.

(** ** integers next to floats: small integers (|z| <= 4096) and NaN-free floats together *)
Local Open Scope Z_scope.
Definition small_bound : Z := 4096.
Definition gkey (a : Z) : Z := nkey (of_Z a).

Definition sweep_ok (a : Z) : bool :=
  let f := of_Z a in
  (nkey f <? gkey (a + 1)) && valid_bits f && negb (is_nan f) && negb (is_inf f).

Lemma sweep_all : forallb sweep_ok (map (fun i => Z.of_nat i - small_bound - 1) (seq 0 (2 * Z.to_nat small_bound + 3))) = true.
Proof. vm_compute. reflexivity. Qed.

Lemma sweep_at a : - small_bound - 1 <= a <= small_bound + 1 -> sweep_ok a = true.
Proof.
  intros H. pose proof sweep_all as S. rewrite forallb_forall in S. apply S. apply in_map_iff.
  exists (Z.to_nat (a + small_bound + 1)). split; [unfold small_bound in *; lia|]. apply in_seq. unfold small_bound in *. lia.
Qed.

Lemma gkey_mono a b : - small_bound <= a -> b <= small_bound -> a < b -> gkey a < gkey b.
Proof.
  intros Ha Hb Hab. remember (Z.to_nat (b - a - 1)) as k eqn:Hk. revert b Hb Hab Hk.
  induction k as [|k IH]; intros b Hb Hab Hk.
  - assert (b = a + 1) as -> by lia. pose proof (sweep_at a ltac:(unfold small_bound in *; lia)) as S. unfold sweep_ok in S.
    apply andb_prop in S as [S _]. apply andb_prop in S as [S _]. apply andb_prop in S as [S _]. apply Z.ltb_lt in S. exact S.
  - specialize (IH (b - 1) ltac:(lia) ltac:(lia) ltac:(lia)).
    pose proof (sweep_at (b - 1) ltac:(unfold small_bound in *; lia)) as S. unfold sweep_ok in S.
    apply andb_prop in S as [S _]. apply andb_prop in S as [S _]. apply andb_prop in S as [S _]. apply Z.ltb_lt in S.
    replace (b - 1 + 1) with b in S by lia. unfold gkey in *. cbv zeta in S. lia.
Qed.

Lemma of_Z_small a : - small_bound <= a <= small_bound -> nonan (of_Z a) /\ is_inf (of_Z a) = false.
Proof.
  intros H. pose proof (sweep_at a ltac:(unfold small_bound in *; lia)) as S. unfold sweep_ok in S.
  apply andb_prop in S as [S I]. apply andb_prop in S as [S Nn]. apply andb_prop in S as [_ V].
  split; [split; [exact V|]|]; [destruct (is_nan (of_Z a)); [discriminate|reflexivity]|destruct (is_inf (of_Z a)); [discriminate|reflexivity]].
Qed.

Definition small_or_float (x : num) : Prop :=
  (exists b, x = Flt b /\ nonan b) \/ (exists z, (x = Int z \/ x = Big z) /\ - small_bound <= z <= small_bound).

Definition mkey (x : num) : Z := match x with Flt f => nkey f | Int a | Big a => gkey a | Dec _ => 0 end.

Lemma mixed_key x y : small_or_float x -> small_or_float y -> num_cmp x y = Z.compare (mkey x) (mkey y).
Proof.
  assert (II : forall a b, - small_bound <= a <= small_bound -> - small_bound <= b <= small_bound -> Z.compare a b = Z.compare (gkey a) (gkey b)).
  { intros a b Ha Hb. destruct (Z.compare_spec a b) as [->|L|L]; symmetry.
    - apply Z.compare_refl.
    - apply Z.compare_lt_iff. apply gkey_mono; lia.
    - apply Z.compare_gt_iff. apply gkey_mono; lia. }
  intros [(f & -> & Hf)|(a & Ea & Ha)] [(g & -> & Hg)|(b & Eb & Hb)].
  - apply float_cmp_nkey; assumption.
  - destruct (of_Z_small b Hb) as [Nb Ib]. destruct Eb as [-> | ->]; unfold num_cmp; cbn [undec num_cmp_nd mkey].
    + apply float_cmp_nkey; assumption.
    + unfold big_float_cmp. rewrite Ib. cbn [andb]. rewrite (float_cmp_nkey _ _ Nb Hf). symmetry. apply Z.compare_antisym.
  - destruct (of_Z_small a Ha) as [Na Ia]. destruct Ea as [-> | ->]; unfold num_cmp; cbn [undec num_cmp_nd mkey].
    + apply float_cmp_nkey; assumption.
    + unfold big_float_cmp. rewrite Ia. cbn [andb]. apply float_cmp_nkey; assumption.
  - destruct Ea as [-> | ->], Eb as [-> | ->]; unfold num_cmp; cbn [undec num_cmp_nd mkey]; apply II; assumption.
Qed.

Lemma key_tpo {A} (c : A -> A -> comparison) (P : A -> Prop) (k : A -> Z) :
  (forall x y, P x -> P y -> c x y = Z.compare (k x) (k y)) -> tpo c P.
Proof.
  intros E. apply tpo_ext with (c := fun x y => Z.compare (k x) (k y)); [|exact E].
  apply (tpo_pullback Z.compare (fun _ => True) k P z_tpo). auto.
Qed.

Lemma mixed_tpo : tpo num_cmp small_or_float.
Proof. apply (key_tpo _ _ mkey). exact mixed_key. Qed.

(** integers up to 4096 in magnitude (either representation) and NaN-free floats in one value: one total preorder *)
Theorem val_order_mixed : tpo val_cmp (vok small_or_float).
Proof. apply val_cmp_tpo. exact mixed_tpo. Qed.

(** the classes are inhabited by nested values with objects; 1 and 1.0 inside containers compare equal *)
Example vok_ex :
  let v := Obj [(TStr (of_ascii [98]), Arr [Num (Int 1); Null]); (Num (Int 2), Obj [(Bool true, Num (Flt 4607182418800017408))])] in
  let w := Obj [(Num (Flt 4611686018427387904), Obj [(Bool true, Num (Int 1))]); (TStr (of_ascii [98]), Arr [Num (Flt 4607182418800017408); Null])] in
  vok small_or_float v /\ vok small_or_float w /\ val_cmp v w = Eq /\ val_cmp w v = Eq.
Proof.
  cbv zeta. assert (F1 : small_or_float (Flt 4607182418800017408)) by (left; eexists; split; [reflexivity|split; reflexivity]).
  assert (F2 : small_or_float (Flt 4611686018427387904)) by (left; eexists; split; [reflexivity|split; reflexivity]).
  assert (I1 : small_or_float (Int 1)) by (right; exists 1; split; [left; reflexivity|unfold small_bound; lia]).
  assert (I2 : small_or_float (Int 2)) by (right; exists 2; split; [left; reflexivity|unfold small_bound; lia]).
  split; [|split; [|split; vm_compute; reflexivity]]; repeat first [assumption | apply ok_num | constructor; cbn [fst snd]].
Qed.
