(** CSV and TSV: what [write_csv]/[write_tsv] write, [read_csv]/[read_tsv] read back — for every row and every byte string. *)
From Coq Require Import ZArith Bool List Lia.
From Coq Require Import Init.Byte.
From JaqV Require Import Base.Bytes Base.F64 Val.Num Val.Val Val.Err Json.Write Json.Read Fmts.Tabular.
Import ListNotations.
Local Open Scope Z_scope.

Lemma bz_dquote : bz dquote = 34. Proof. reflexivity. Qed.
Lemma bz_bslash : bz bslash = 92. Proof. reflexivity. Qed.

(** ** CSV *)
Definition csv_plain (c : byte) : bool := negb ((bz c =? 44) || (bz c =? 10) || (bz c =? 13) || (bz c =? 34)).
Definition csv_esc (s : bytes) : bytes := flat_map (fun c => if bz c =? 34 then [dquote; dquote] else [c]) s.

Lemma csv_go_plain t : forall acc q fields rows rest,
  forallb csv_plain t = true ->
  csv_go false acc q fields rows (t ++ rest) = csv_go false (rev t ++ acc) q fields rows rest.
Proof.
  induction t as [|c t IH]; intros acc q fields rows rest H; [reflexivity|].
  cbn [forallb] in H. apply andb_prop in H as [Hc Ht].
  unfold csv_plain in Hc. rewrite negb_true_iff, !orb_false_iff in Hc. destruct Hc as [[[H44 H10] H13] H34].
  cbn [app csv_go]. rewrite H44, H10, H13, H34. rewrite IH by exact Ht. cbn [rev]. rewrite <- app_assoc. reflexivity.
Qed.

Definition not_quote_next (rest : bytes) : Prop := match rest with [] => True | c :: _ => (bz c =? 34) = false end.

Lemma csv_go_quoted s : forall acc q fields rows rest,
  not_quote_next rest ->
  csv_go true acc q fields rows (csv_esc s ++ dquote :: rest) = csv_go false (rev s ++ acc) q fields rows rest.
Proof.
  induction s as [|c s IH]; intros acc q fields rows rest Hr.
  - cbn [csv_esc flat_map app csv_go rev]. rewrite bz_dquote. cbn [Z.eqb Pos.eqb].
    destruct rest as [|c2 r2]; [reflexivity|]. cbn in Hr. rewrite Hr. reflexivity.
  - unfold csv_esc. cbn [flat_map]. fold (csv_esc s). destruct (bz c =? 34) eqn:E.
    + assert (c = dquote) as -> by (apply bz_inj; rewrite bz_dquote; apply Z.eqb_eq; exact E).
      cbn [app csv_go]. rewrite bz_dquote. cbn [Z.eqb Pos.eqb]. rewrite IH by exact Hr.
      cbn [rev]. rewrite <- app_assoc. reflexivity.
    + cbn [app csv_go]. rewrite E. rewrite IH by exact Hr. cbn [rev]. rewrite <- app_assoc. reflexivity.
Qed.

(** a number survives when its text is plain and parses back to it (shown for concrete numbers below; the printing and
    parsing of numbers is the subject of C07) *)
Definition num_rt (n : num) : Prop :=
  let t := show_num n in
  t <> [] /\ forallb csv_plain t = true /\ bytes_eqb t l_true = false /\ bytes_eqb t l_false = false
  /\ parse_single_num t = Some n.

Definition csv_ok (v : val) : Prop :=
  match v with Null | Bool _ | TStr _ => True | Num n => num_rt n | _ => False end.

Definition term (rest : bytes) : Prop := match rest with [] => True | c :: _ => bz c = 44 \/ bz c = 10 end.

Lemma term_not_quote rest : term rest -> not_quote_next rest.
Proof. destruct rest as [|c r]; cbn; [trivial|]. intros [H|H]; rewrite H; reflexivity. Qed.

Lemma val_of_field_num t n :
  t <> [] -> bytes_eqb t l_true = false -> bytes_eqb t l_false = false -> parse_single_num t = Some n ->
  val_of_field t false = Num n.
Proof.
  intros Hne Ht Hf Hp. unfold val_of_field. destruct t as [|c t]; [congruence|]. rewrite Ht, Hf, Hp. reflexivity.
Qed.

Lemma csv_field v t :
  field_text csv_str v = Some t -> csv_ok v -> forall fields rows rest, term rest ->
  exists bs q, csv_go false [] false fields rows (t ++ rest) = csv_go false (rev bs) q fields rows rest
               /\ val_of_field bs q = v.
Proof.
  intros Ht Hok fields rows rest Hr. destruct v as [|b|n|s|s|a|o]; cbn in Hok; try contradiction.
  - (* null *) injection Ht as <-. exists [], false. split; reflexivity.
  - (* bool *) injection Ht as <-. destruct b.
    + exists l_true, false. split; [|reflexivity]. change (display (Bool true)) with l_true.
      rewrite csv_go_plain by reflexivity. rewrite app_nil_r. reflexivity.
    + exists l_false, false. split; [|reflexivity]. change (display (Bool false)) with l_false.
      rewrite csv_go_plain by reflexivity. rewrite app_nil_r. reflexivity.
  - (* number *) injection Ht as <-. change (display (Num n)) with (show_num n).
    destruct Hok as (Hne & Hpl & Htr & Hfa & Hp). exists (show_num n), false. split.
    + rewrite csv_go_plain by exact Hpl. rewrite app_nil_r. reflexivity.
    + apply val_of_field_num; assumption.
  - (* text string *) injection Ht as <-. exists s, true. split; [|reflexivity].
    unfold csv_str. fold (csv_esc s). cbn [app csv_go]. rewrite bz_dquote. cbn [Z.eqb Pos.eqb].
    rewrite <- app_assoc. cbn [app]. rewrite csv_go_quoted by (apply term_not_quote; exact Hr). rewrite app_nil_r. reflexivity.
Qed.

Lemma fin_field_rev bs q : fin_field (rev bs) q = val_of_field bs q.
Proof. unfold fin_field. rewrite rev_involutive. reflexivity. Qed.

Lemma join_cons d x y r : join_fields d (x :: y :: r) = x ++ d :: join_fields d (y :: r).
Proof. reflexivity. Qed.

(** one row, terminated by a line feed *)
Lemma csv_row vs : forall ts fields rows rest,
  vs <> [] -> all_some (map (field_text csv_str) vs) = Some ts -> Forall csv_ok vs ->
  csv_go false [] false fields rows (join_fields comma ts ++ lf :: rest)
  = csv_go false [] false [] (Arr (rev fields ++ vs) :: rows) rest.
Proof.
  induction vs as [|v vs IH]; intros ts fields rows rest Hne Hts Hok; [congruence|].
  cbn [map all_some] in Hts. destruct (field_text csv_str v) as [t|] eqn:Ht; [|discriminate].
  destruct (all_some (map (field_text csv_str) vs)) as [ts'|] eqn:Hts'; [|discriminate].
  injection Hts as <-. inversion Hok as [|? ? Hv Hvs]; subst.
  destruct vs as [|v2 vs].
  - (* last field *) cbn in Hts'. injection Hts' as <-. cbn [join_fields].
    destruct (csv_field v t Ht Hv fields rows (lf :: rest)) as (bs & q & Hgo & Hval); [right; reflexivity|].
    rewrite Hgo. cbn [csv_go]. change (bz lf =? 44) with false. change (bz lf =? 10) with true. cbn iota.
    rewrite fin_field_rev, Hval. unfold fin_row. cbn [rev]. reflexivity.
  - destruct ts' as [|t2 ts']; [cbn in Hts'; destruct (field_text csv_str v2); [destruct (all_some _)|]; discriminate|].
    rewrite join_cons. rewrite <- app_assoc. rewrite <- app_comm_cons.
    destruct (csv_field v t Ht Hv fields rows (comma :: join_fields comma (t2 :: ts') ++ lf :: rest)) as (bs & q & Hgo & Hval);
      [left; reflexivity|].
    rewrite Hgo. cbn [csv_go]. change (bz comma =? 44) with true. cbn iota.
    rewrite fin_field_rev, Hval. rewrite (IH (t2 :: ts') (v :: fields) rows rest); [|discriminate|reflexivity|exact Hvs].
    cbn [rev]. rewrite <- app_assoc. reflexivity.
Qed.

Definition row_ok (vs : list val) : Prop := vs <> [] /\ Forall csv_ok vs.

Lemma write_row_some d fs vs t :
  write_row d fs (Arr vs) = Some t -> exists ts, all_some (map (field_text fs) vs) = Some ts /\ t = join_fields d ts.
Proof.
  unfold write_row. destruct (all_some (map (field_text fs) vs)) as [ts|]; [|discriminate].
  intros H. injection H as <-. exists ts. split; reflexivity.
Qed.

Lemma csv_rows_acc rows texts : Forall row_ok rows -> Forall2 (fun vs t => write_csv (Arr vs) = Some t) rows texts ->
  forall racc, csv_go false [] false [] racc (flat_map (fun t => t ++ [lf]) texts) = rev racc ++ map Arr rows.
Proof.
  intros Hok H. induction H as [|vs t rows texts Hw H IH]; intros racc.
  - cbn. rewrite app_nil_r. reflexivity.
  - inversion Hok as [|? ? [Hne Hvs] Hoks]; subst. apply write_row_some in Hw as (ts & Hts & ->).
    cbn [flat_map]. rewrite <- !app_assoc. cbn [app].
    rewrite (csv_row vs ts [] racc _ Hne Hts Hvs). cbn [rev app]. rewrite (IH Hoks). cbn [rev map]. rewrite <- app_assoc. reflexivity.
Qed.

(** every document of line-feed-terminated rows *)
Theorem csv_roundtrip rows texts :
  Forall row_ok rows -> Forall2 (fun vs t => write_csv (Arr vs) = Some t) rows texts ->
  read_csv (flat_map (fun t => t ++ [lf]) texts) = map Arr rows.
Proof. intros Hok H. unfold read_csv. rewrite (csv_rows_acc rows texts Hok H []). reflexivity. Qed.

Lemma csv_eof fields acc q rows :
  (fields = [] -> acc = [] -> q = false -> False) ->
  csv_go false acc q fields rows [] = rev (fin_row (fin_field acc q :: fields) :: rows).
Proof.
  intros H. cbn [csv_go]. destruct fields; [|reflexivity]. destruct acc; [|reflexivity]. destruct q; [reflexivity|].
  exfalso. apply H; reflexivity.
Qed.

Lemma val_of_field_nil : val_of_field [] false = Null. Proof. reflexivity. Qed.

Lemma csv_row_eof vs : forall ts fields rows,
  vs <> [] -> (fields = [] -> vs <> [Null]) -> all_some (map (field_text csv_str) vs) = Some ts -> Forall csv_ok vs ->
  csv_go false [] false fields rows (join_fields comma ts) = rev (Arr (rev fields ++ vs) :: rows).
Proof.
  induction vs as [|v vs IH]; intros ts fields rows Hne Hnn Hts Hok; [congruence|].
  cbn [map all_some] in Hts. destruct (field_text csv_str v) as [t|] eqn:Ht; [|discriminate].
  destruct (all_some (map (field_text csv_str) vs)) as [ts'|] eqn:Hts'; [|discriminate].
  injection Hts as <-. inversion Hok as [|? ? Hv Hvs]; subst.
  destruct vs as [|v2 vs].
  - cbn in Hts'. injection Hts' as <-. cbn [join_fields].
    destruct (csv_field v t Ht Hv fields rows []) as (bs & q & Hgo & Hval); [exact I|].
    rewrite app_nil_r in Hgo. rewrite Hgo. rewrite csv_eof.
    + rewrite fin_field_rev, Hval. reflexivity.
    + intros Hf Ha Hq. apply (Hnn Hf). subst q. assert (bs = []) as -> by (rewrite <- (rev_involutive bs), Ha; reflexivity).
      rewrite val_of_field_nil in Hval. subst v. reflexivity.
  - destruct ts' as [|t2 ts']; [cbn in Hts'; destruct (field_text csv_str v2); [destruct (all_some _)|]; discriminate|].
    rewrite join_cons.
    destruct (csv_field v t Ht Hv fields rows (comma :: join_fields comma (t2 :: ts'))) as (bs & q & Hgo & Hval);
      [left; reflexivity|].
    rewrite Hgo. cbn [csv_go]. change (bz comma =? 44) with true. cbn iota.
    rewrite fin_field_rev, Hval. rewrite (IH (t2 :: ts') (v :: fields) rows); [|discriminate|discriminate|reflexivity|exact Hvs].
    cbn [rev]. rewrite <- app_assoc. reflexivity.
Qed.

(** one row without a final line feed, as the filters [tocsv] and [@csv] write it; [[null]] is written as the empty text *)
Theorem csv_row_roundtrip vs t :
  row_ok vs -> vs <> [Null] -> write_csv (Arr vs) = Some t -> read_csv t = [Arr vs].
Proof.
  intros [Hne Hok] Hnn Hw. apply write_row_some in Hw as (ts & Hts & ->).
  unfold read_csv. rewrite (csv_row_eof vs ts [] [] Hne (fun _ => Hnn) Hts Hok). reflexivity.
Qed.

(** ** TSV *)
Definition tsv_plain (c : byte) : bool :=
  negb ((bz c =? 9) || (bz c =? 10) || (bz c =? 13) || (bz c =? 92) || (bz c =? 0)).
Definition has_esc (s : bytes) : bool := existsb (fun c => negb (tsv_plain c)) s.

Lemma byte_of_bz c k : bz c = k -> c = zb k.
Proof. intros <-. symmetry. apply zb_bz. Qed.

Lemma tsv_go_str s : forall acc q fields rows rest,
  tsv_go acc q fields rows (tsv_str s ++ rest) = tsv_go (rev s ++ acc) (q || has_esc s) fields rows rest.
Proof.
  induction s as [|c s IH]; intros acc q fields rows rest.
  - cbn. rewrite orb_false_r. reflexivity.
  - unfold tsv_str. cbn [flat_map]. fold (tsv_str s). rewrite <- app_assoc.
    cbn [has_esc existsb]. fold (has_esc s). cbn [rev]. rewrite <- (app_assoc (rev s)). cbn [app].
    destruct (Z.eqb_spec (bz c) 10) as [E|N10]; [apply byte_of_bz in E; subst c; cbn; rewrite IH, orb_true_r; reflexivity|].
    destruct (Z.eqb_spec (bz c) 13) as [E|N13]; [apply byte_of_bz in E; subst c; cbn; rewrite IH, orb_true_r; reflexivity|].
    destruct (Z.eqb_spec (bz c) 9) as [E|N9]; [apply byte_of_bz in E; subst c; cbn; rewrite IH, orb_true_r; reflexivity|].
    destruct (Z.eqb_spec (bz c) 92) as [E|N92]; [apply byte_of_bz in E; subst c; cbn; rewrite IH, orb_true_r; reflexivity|].
    destruct (Z.eqb_spec (bz c) 0) as [E|N0]; [apply byte_of_bz in E; subst c; cbn; rewrite IH, orb_true_r; reflexivity|].
    apply Z.eqb_neq in N10, N13, N9, N92, N0.
    unfold tsv_esc1, tsv_plain. rewrite N10, N13, N9, N92, N0. cbn [app tsv_go orb negb]. rewrite N9, N10, N13, N92.
    rewrite IH. reflexivity.
Qed.

(** what comes back for a written string, whatever it is *)
Definition tsv_field_val (s : bytes) : val := val_of_field s (has_esc s).

Definition tsv_dom (s : bytes) : Prop :=
  s <> [] /\ bytes_eqb s l_true = false /\ bytes_eqb s l_false = false /\ parse_single_num s = None.

Lemma tsv_dom_val s : tsv_dom s -> tsv_field_val s = TStr s.
Proof.
  intros (Hne & Ht & Hf & Hp). unfold tsv_field_val, val_of_field. destruct (has_esc s); [reflexivity|].
  destruct s as [|c s]; [congruence|]. rewrite Ht, Hf, Hp. reflexivity.
Qed.

Lemma tsv_row r : forall fields rows rest, r <> [] ->
  tsv_go [] false fields rows (join_fields tab (map tsv_str r) ++ lf :: rest)
  = tsv_go [] false [] (Arr (rev fields ++ map tsv_field_val r) :: rows) rest.
Proof.
  induction r as [|s r IH]; intros fields rows rest Hne; [congruence|].
  destruct r as [|s2 r].
  - cbn [map join_fields]. rewrite tsv_go_str. cbn [tsv_go]. change (bz lf =? 9) with false. change (bz lf =? 10) with true.
    cbn iota. rewrite app_nil_r, fin_field_rev. cbn [orb]. unfold fin_row. cbn [rev]. reflexivity.
  - cbn [map]. rewrite join_cons. rewrite <- app_assoc. rewrite <- app_comm_cons. rewrite tsv_go_str.
    cbn [tsv_go]. change (bz tab =? 9) with true. cbn iota. rewrite app_nil_r, fin_field_rev. cbn [orb]. fold (tsv_field_val s).
    change (tsv_str s2 :: map tsv_str r) with (map tsv_str (s2 :: r)).
    rewrite (IH (tsv_field_val s :: fields) rows rest) by discriminate. cbn [rev map]. rewrite <- app_assoc. reflexivity.
Qed.

Lemma tsv_rows_acc rows : Forall (fun r => r <> []) rows -> forall racc,
  tsv_go [] false [] racc (flat_map (fun r => join_fields tab (map tsv_str r) ++ [lf]) rows)
  = rev racc ++ map (fun r => Arr (map tsv_field_val r)) rows.
Proof.
  induction rows as [|r rows IH]; intros Hok racc.
  - cbn. rewrite app_nil_r. reflexivity.
  - inversion Hok as [|? ? Hne Hoks]; subst. cbn [flat_map]. rewrite <- !app_assoc. cbn [app].
    rewrite (tsv_row r [] racc _ Hne). cbn [rev app]. rewrite (IH Hoks). cbn [rev map]. rewrite <- app_assoc. reflexivity.
Qed.

(** every document of rows of strings: each field comes back byte for byte, classified by [val_of_field] *)
Theorem tsv_roundtrip_bytes rows : Forall (fun r => r <> []) rows ->
  read_tsv (flat_map (fun r => join_fields tab (map tsv_str r) ++ [lf]) rows) = map (fun r => Arr (map tsv_field_val r)) rows.
Proof. intros H. unfold read_tsv. rewrite (tsv_rows_acc rows H []). reflexivity. Qed.

Lemma write_tsv_strs r : write_tsv (Arr (map TStr r)) = Some (join_fields tab (map tsv_str r)).
Proof.
  unfold write_tsv, write_row. rewrite map_map. cbn [field_text].
  assert (all_some (map (fun x => Some (tsv_str x)) r) = Some (map tsv_str r)) as ->; [|reflexivity].
  induction r as [|s r IH]; [reflexivity|]. cbn [map all_some]. rewrite IH. reflexivity.
Qed.

Lemma map_ext_Forall {A B} (f g : A -> B) l : Forall (fun x => f x = g x) l -> map f l = map g l.
Proof. induction 1 as [|x l H _ IH]; [reflexivity|]. cbn. rewrite H, IH. reflexivity. Qed.

(** on the documented domain (non-empty strings that do not spell a number or boolean) the rows come back as they were *)
Theorem tsv_roundtrip rows texts :
  Forall (fun r => r <> [] /\ Forall tsv_dom r) rows ->
  Forall2 (fun r t => write_tsv (Arr (map TStr r)) = Some t) rows texts ->
  read_tsv (flat_map (fun t => t ++ [lf]) texts) = map (fun r => Arr (map TStr r)) rows.
Proof.
  intros Hok H.
  assert (texts = map (fun r => join_fields tab (map tsv_str r)) rows) as ->.
  { induction H as [|r t rows texts Hw H IH]; [reflexivity|]. inversion Hok; subst.
    rewrite write_tsv_strs in Hw. injection Hw as <-. cbn [map]. rewrite IH by assumption. reflexivity. }
  rewrite flat_map_concat_map, map_map, <- flat_map_concat_map.
  rewrite tsv_roundtrip_bytes.
  - apply map_ext_Forall. eapply Forall_impl; [|exact Hok]. intros r [_ Hd]. cbn beta. f_equal.
    apply map_ext_Forall. eapply Forall_impl; [|exact Hd]. intros s Hs. apply tsv_dom_val. exact Hs.
  - eapply Forall_impl; [|exact Hok]. intros r [Hne _]. exact Hne.
Qed.

(** a written TSV field contains no raw separator or line break, so any reader splits the line at the same places *)
Lemma tsv_str_no_sep s c : In c (tsv_str s) -> bz c <> 9 /\ bz c <> 10 /\ bz c <> 13 /\ bz c <> 0.
Proof.
  unfold tsv_str. rewrite in_flat_map. intros (x & _ & Hc). unfold tsv_esc1 in Hc.
  destruct (Z.eqb_spec (bz x) 10); [cbn in Hc; destruct Hc as [<-|[<-|[]]]; cbn; lia|].
  destruct (Z.eqb_spec (bz x) 13); [cbn in Hc; destruct Hc as [<-|[<-|[]]]; cbn; lia|].
  destruct (Z.eqb_spec (bz x) 9); [cbn in Hc; destruct Hc as [<-|[<-|[]]]; cbn; lia|].
  destruct (Z.eqb_spec (bz x) 92); [cbn in Hc; destruct Hc as [<-|[<-|[]]]; cbn; lia|].
  destruct (Z.eqb_spec (bz x) 0); [cbn in Hc; destruct Hc as [<-|[<-|[]]]; cbn; lia|].
  cbn in Hc. destruct Hc as [<-|[]]. lia.
Qed.

(** the hypotheses are satisfiable: numbers, and a document with every kind of field *)
Example num_rt_int : num_rt (Int 5) /\ num_rt (Int (-12)) /\ num_rt (Big 123456789012345678901234567890).
Proof. unfold num_rt. vm_compute. repeat split; try reflexivity; discriminate. Qed.
(** a float is read back as the decimal literal that spells it: equal under [==], not the same representation *)
Example num_rt_dec : num_rt (Dec (lit [49; 46; 50; 48])) /\ parse_single_num (show_num (Flt 4609434218613702656)) = Some (Dec (lit [49; 46; 53])).
Proof. unfold num_rt. vm_compute. repeat split; try reflexivity; discriminate. Qed.
Example tsv_dom_ex : tsv_dom (lit [97; 98]) /\ tsv_dom (lit [49; 97]) /\ ~ tsv_dom (lit [49]).
Proof.
  unfold tsv_dom. split; [|split].
  - vm_compute. repeat split; try reflexivity; discriminate.
  - vm_compute. repeat split; try reflexivity; discriminate.
  - intros (_ & _ & _ & H). vm_compute in H. discriminate.
Qed.
Example csv_doc_ex :
  let r1 := [TStr (lit [97; 34; 44; 10]); Null; Bool true; Num (Int 5)] in
  let r2 := [Null] in
  exists t1 t2, write_csv (Arr r1) = Some t1 /\ write_csv (Arr r2) = Some t2
                /\ read_csv (t1 ++ [lf] ++ t2 ++ [lf]) = [Arr r1; Arr r2].
Proof. eexists. eexists. split; [reflexivity|]. split; [reflexivity|]. vm_compute. reflexivity. Qed.
