(** getpath (path p) = p: every pair (value, path) that the path evaluator yields addresses its value - indexing the
    input along the path gives exactly that value. *)
From Coq Require Import ZArith Bool List Lia FunctionalExtensionality.
From JaqV Require Import Base.Bytes Base.Stream Val.Num Val.Val Val.Err Val.Index Core.Natives Core.Run Proofs.StreamLaws.
Import ListNotations.
Local Open Scope Z_scope.

(** ** a property of every item of a stream *)
Fixpoint sforall {A} (P : A -> Prop) (s : str A) : Prop :=
  match s with SCons x k => P x /\ sforall P (k tt) | _ => True end.

Lemma sforall_sapp {A} (P : A -> Prop) s r : sforall P s -> (sforall P (r tt)) -> sforall P (sapp s r).
Proof. induction s as [|x k IH|e| |]; cbn; intros H1 H2; auto. destruct H1. split; auto. Qed.

Lemma sforall_sbind {A B} (P : A -> Prop) (Q : B -> Prop) s (f : A -> str B) :
  sforall P s -> (forall a, P a -> sforall Q (f a)) -> sforall Q (sbind s f).
Proof.
  induction s as [|x k IH|e| |]; cbn; intros H1 H2; auto. destruct H1 as [Hx Hk].
  apply sforall_sapp; [apply H2; exact Hx | apply IH; assumption].
Qed.

Lemma sforall_impl {A} (P Q : A -> Prop) s : (forall a, P a -> Q a) -> sforall P s -> sforall Q s.
Proof. intros H. induction s as [|x k IH|e| |]; cbn; auto. intros [Hx Hk]. split; auto. Qed.

Lemma sforall_of_list {A} (P : A -> Prop) l : Forall P l -> sforall P (of_list l).
Proof. induction 1; cbn; auto. Qed.

Lemma sforall_of_res {A} (P : A -> Prop) (r : res A) : (forall a, r = Ok a -> P a) -> sforall P (of_res r).
Proof. destruct r; cbn; auto. Qed.

Lemma sforall_sopt {A} (P : A -> Prop) opt s : sforall P s -> sforall P (sopt opt s).
Proof.
  unfold sopt. destruct opt; [|auto]. induction s as [|x k IH|e| |]; cbn; auto.
  - intros [Hx Hk]. split; auto.
  - destruct e; cbn; auto.
Qed.

(** ** values whose objects can be addressed by their own keys (IndexMap's invariant: keys are unique and equal to
    themselves - a NaN key is the excluded case) *)
Definition keys_ok (o : obj) : Prop := forall k x, In (k, x) o -> get o k = Some x.

Inductive good : val -> Prop :=
| g_null : good Null
| g_bool b : good (Bool b)
| g_num n : good (Num n)
| g_bstr b : good (BStr b)
| g_tstr b : good (TStr b)
| g_arr a : Forall good a -> good (Arr a)
| g_obj o : keys_ok o -> Forall (fun kv => good (snd kv)) o -> good (Obj o).

(** ** one path component *)
Definition addressed (v : val) (pa : vpath) (xp : val * vpath) : Prop :=
  match snd xp with k :: pa' => pa' = pa /\ vindex v k = Ok (fst xp) | [] => False end.

Lemma enum_nth {A} (l : list A) : forall i0 pre, Z.of_nat (length pre) = i0 ->
  Forall (fun p => nth_error (pre ++ l) (Z.to_nat (fst p)) = Some (snd p) /\ 0 <= fst p < Z.of_nat (length (pre ++ l)))
         (enumerate_from i0 l).
Proof.
  induction l as [|x l IH]; intros i0 pre Hp; cbn [enumerate_from]; [constructor|]. constructor.
  - cbn [fst snd]. subst i0. rewrite Nat2Z.id. split.
    + rewrite nth_error_app2 by lia. rewrite Nat.sub_diag. reflexivity.
    + rewrite app_length. cbn [length]. lia.
  - specialize (IH (i0 + 1) (pre ++ [x])). rewrite <- app_assoc in IH. cbn [app] in IH. apply IH.
    rewrite app_length. cbn [length]. lia.
Qed.

Lemma vindex_arr a i x : 0 <= i < Z.of_nat (length a) -> nth_error a (Z.to_nat i) = Some x -> vindex (Arr a) (vint i) = Ok x.
Proof.
  intros Hi Hn. unfold vindex, vint, index_opt, as_pos_usize. destruct (Z.leb_spec 0 i); [|lia].
  rewrite Z.abs_eq by lia. unfold abs_index, wrap. destruct (Z.ltb_spec i (Z.of_nat (length a))); [|lia]. rewrite Hn. reflexivity.
Qed.

Lemma get_start a : get (extend [] [(key_start, a)]) key_start = Some a /\ get (extend [] [(key_start, a)]) key_end = None.
Proof. split; reflexivity. Qed.
Lemma get_end b : get (extend [] [(key_end, b)]) key_end = Some b /\ get (extend [] [(key_end, b)]) key_start = None.
Proof. split; reflexivity. Qed.
Lemma get_both a b : get (extend [] [(key_start, a); (key_end, b)]) key_start = Some a
                     /\ get (extend [] [(key_start, a); (key_end, b)]) key_end = Some b.
Proof. split; reflexivity. Qed.

Lemma find_hashed_in eqv o k x : find_hashed eqv o k = Some x -> exists k', In (k', x) o.
Proof.
  induction o as [|[k' x'] r IH]; cbn [find_hashed]; [discriminate|].
  destruct (hws_eqb (hash_writes k) (hash_writes k') && eqv k k').
  - intros H. injection H as <-. exists k'. left. reflexivity.
  - intros H. destruct (IH H) as (k2 & Hin). exists k2. right. exact Hin.
Qed.

Lemma get_in o k x : get o k = Some x -> exists k', In (k', x) o.
Proof.
  unfold get, get_with. destruct o as [|[k1 x1] [|kv r]]; [discriminate| |].
  - destruct (val_eqb k k1); [|discriminate]. intros H. injection H as <-. exists k1. left. reflexivity.
  - apply find_hashed_in.
Qed.

Lemma in_firstn {A} n : forall (l : list A) x, In x (firstn n l) -> In x l.
Proof. induction n as [|n IH]; intros l x H; [destruct H|]. destruct l as [|y l]; [destruct H|]. destruct H as [->|H]; [left; reflexivity|right; apply IH; exact H]. Qed.
Lemma in_skipn {A} n : forall (l : list A) x, In x (skipn n l) -> In x l.
Proof. induction n as [|n IH]; intros l x H; [exact H|]. destruct l as [|y l]; [destruct H|]. right. apply IH. exact H. Qed.

Lemma good_slice a s t : Forall good a -> Forall good (slice a s t).
Proof.
  intros H. unfold slice. rewrite Forall_forall in *. intros x Hx. apply H.
  apply in_firstn in Hx. eapply in_skipn. exact Hx.
Qed.

Lemma vrange_good v r x : good v -> vrange v r = Ok x -> good x.
Proof.
  intros Hg. unfold vrange. destruct v; try discriminate; destruct (range_int r) as [ri|e]; cbn [rmap]; try discriminate.
  - destruct (skip_take ri _). intros H. injection H as <-. constructor.
  - destruct (skip_take_chars ri _). intros H. injection H as <-. constructor.
  - destruct (skip_take ri _) as [s t]. intros H. injection H as <-. inversion Hg; subst. constructor. apply good_slice. assumption.
Qed.

Lemma good_vusize z : good (vusize z). Proof. constructor. Qed.

Lemma index_opt_good v i y : good v -> index_opt v i = Ok (Some y) -> good y.
Proof.
  intros Hg E. unfold index_opt in E.
  destruct v as [|b|n|b|b|a|o]; try discriminate E.
  - (* byte string *) destruct i as [|bi|ni|bb|bt|ba|bo]; try discriminate E.
    + destruct ni; try discriminate E;
        (destruct (as_pos_usize _) as [p|]; [|discriminate E]; destruct (abs_index p _) as [k|]; [|discriminate E];
         destruct (nth_error b (Z.to_nat k)); [|discriminate E]; injection E as <-; apply good_vusize).
    + destruct (vrange (BStr b) _) eqn:Er; cbn [rmap] in E; [|discriminate E]. injection E as <-. eapply vrange_good; [exact Hg|exact Er].
  - (* text string *) destruct i as [|bi|ni|bb|bt|ba|bo]; try discriminate E.
    destruct (vrange (TStr b) _) eqn:Er; cbn [rmap] in E; [|discriminate E]. injection E as <-. eapply vrange_good; [exact Hg|exact Er].
  - (* array *) inversion Hg as [| | | | |a' Ha|]; subst. destruct i as [|bi|ni|bb|bt|ba|bo]; try discriminate E.
    + destruct ni; try discriminate E;
        (destruct (as_pos_usize _) as [p|]; [|discriminate E]; destruct (abs_index p _) as [k|]; [|discriminate E];
         injection E as E; rewrite Forall_forall in Ha; apply Ha; eapply nth_error_In; exact E).
    + destruct ba; injection E as <-; constructor; [constructor|]. apply Forall_forall. intros z Hz.
      apply in_map_iff in Hz as (w & <- & _). apply good_vusize.
    + destruct (vrange (Arr a) _) eqn:Er; cbn [rmap] in E; [|discriminate E]. injection E as <-. eapply vrange_good; [exact Hg|exact Er].
  - (* object *) inversion Hg as [| | | | | |o' Hk Ho]; subst. injection E as E. destruct (get_in _ _ _ E) as (k' & Hin).
    rewrite Forall_forall in Ho. apply (Ho (k', y) Hin).
Qed.

Lemma vindex_good v i x : good v -> vindex v i = Ok x -> good x.
Proof.
  intros Hg. unfold vindex. destruct (index_opt v i) as [o|e] eqn:E; cbn [rmap]; [|discriminate].
  intros H. injection H as <-. destruct o as [y|]; [|constructor]. eapply index_opt_good; eassumption.
Qed.

Lemma vindex_range_key v f u : (f, u) <> (None, None) ->
  match v with BStr _ | TStr _ | Arr _ => True | _ => False end ->
  vindex v (range_val f u) = vrange v (f, u).
Proof.
  intros Hne Hv. unfold vindex, range_val, from_map.
  destruct f as [a|], u as [b|]; try congruence; cbn [app].
  - destruct (get_both a b) as [G1 G2]. destruct v; try contradiction; unfold index_opt; rewrite G1, G2;
      destruct (vrange _ _); reflexivity.
  - destruct (get_start a) as [G1 G2]. destruct v; try contradiction; unfold index_opt; rewrite G1, G2;
      destruct (vrange _ _); reflexivity.
  - destruct (get_end b) as [G1 G2]. destruct v; try contradiction; unfold index_opt; rewrite G1, G2;
      destruct (vrange _ _); reflexivity.
Qed.

(** every pair that one path component yields addresses its value in the input *)
Theorem part_addressed p v pa : good v ->
  sforall (fun xp => addressed v pa xp /\ good (fst xp)) (part_paths p (v, pa)).
Proof.
  intros Hg. unfold part_paths. destruct p as [i|f u].
  - (* .[i] *) apply sforall_of_res. intros [x q] H. destruct (vindex v i) as [y|e] eqn:E; cbn [rmap] in H; [|discriminate].
    injection H as <- <-. split; [split; [reflexivity|exact E]|eapply vindex_good; eassumption].
  - destruct f as [a|], u as [b|].
    1-3: (apply sforall_of_res; intros [x q] H;
          match type of H with rmap _ (vrange ?vv ?r) = _ => destruct (vrange vv r) as [y|e] eqn:E end; cbn [rmap] in H; [|discriminate];
          injection H as <- <-; split; [|eapply vrange_good; eassumption];
          split; [reflexivity|]; cbn [fst]; rewrite vindex_range_key; [exact E|congruence|];
          unfold vrange in E; destruct v; try discriminate E; exact I).
    (* .[] *)
    unfold vkey_values. destruct v as [| | | | |a|o]; try exact I.
    + inversion Hg as [| | | | |a' Ha|]; subst. apply sforall_of_list. rewrite Forall_map, Forall_map.
      pose proof (enum_nth a 0 [] eq_refl) as H. cbn [app] in H. eapply Forall_impl; [|exact H].
      intros [i x] [Hn Hr]. cbn [fst snd] in *. split.
      * split; [reflexivity|]. apply vindex_arr; assumption.
      * rewrite Forall_forall in Ha. apply Ha. eapply nth_error_In. exact Hn.
    + inversion Hg as [| | | | | |o' Hk Ho]; subst. apply sforall_of_list. rewrite Forall_map.
      rewrite Forall_forall in *. intros [k x] Hin. cbn [fst snd]. split.
      * split; [reflexivity|]. unfold vindex, index_opt. rewrite (Hk k x Hin). reflexivity.
      * apply (Ho (k, x) Hin).
Qed.

(** ** whole paths *)
Definition getpath (ks : list val) (v : val) : res val :=
  fold_left (fun r k => rbind r (fun x => vindex x k)) ks (Ok v).

Lemma getpath_cons k ks v x : vindex v k = Ok x -> getpath (k :: ks) v = getpath ks x.
Proof. intros H. unfold getpath. cbn [fold_left rbind]. rewrite H. reflexivity. Qed.

Theorem path_addressed ps : forall v pa, good v ->
  sforall (fun xp => exists ks, snd xp = rev ks ++ pa /\ getpath ks v = Ok (fst xp) /\ good (fst xp)) (path_paths ps (v, pa)).
Proof.
  induction ps as [|[p opt] r IH]; intros v pa Hg; cbn [path_paths].
  - cbn. split; [|exact I]. exists []. auto.
  - eapply sforall_sbind; [apply sforall_sopt; apply part_addressed; exact Hg|].
    intros [x q] [Ha Hx]. unfold addressed in Ha. cbn [fst snd] in *. destruct q as [|k q]; [contradiction|]. destruct Ha as [-> Hk].
    specialize (IH x (k :: pa) Hx). eapply sforall_impl; [|exact IH].
    intros [y q'] (ks & Hq & Hgp & Hy). exists (k :: ks). cbn [fst snd rev] in *.
    split; [rewrite Hq, <- app_assoc; reflexivity|]. split; [|exact Hy].
    rewrite (getpath_cons k ks v x Hk). exact Hgp.
Qed.

(** the statement of the manual: for every (value, path) pair of [path_value(p)], [getpath(path)] of the input is the value *)
Corollary getpath_of_path ps v : good v ->
  sforall (fun xp => getpath (rev (snd xp)) v = Ok (fst xp)) (path_paths ps (v, [])).
Proof.
  intros Hg. eapply sforall_impl; [|apply (path_addressed ps v [] Hg)].
  intros [y q] (ks & Hq & Hgp & _). cbn [fst snd] in *. rewrite Hq, app_nil_r, rev_involutive. exact Hgp.
Qed.

(** non-vacuity: nested arrays and objects with ordinary keys are [good] *)
Example good_ex : good (Arr [vint 1; Obj [(vstr [97], Arr [Null; vint 2]); (vint 5, Bool true)]; TStr []]).
Proof.
  repeat constructor. intros k x [H|[H|[]]]; injection H as <- <-; reflexivity.
Qed.

(** ** objects with pairwise different string keys - every object of a JSON document - are addressed by their keys *)
Lemma bytes_eqb_refl b : bytes_eqb b b = true.
Proof. destruct (bytes_eqb_spec b b); congruence. Qed.

Lemma hw_eqb_refl x : hw_eqb x x = true.
Proof. destruct x; cbn; try apply Z.eqb_refl. apply bytes_eqb_refl. Qed.

Lemma hws_eqb_refl l : hws_eqb l l = true.
Proof. induction l as [|x l IH]; [reflexivity|]. cbn. rewrite hw_eqb_refl, IH. reflexivity. Qed.

Lemma val_eqb_tstr a b : val_eqb (TStr a) (TStr b) = bytes_eqb a b.
Proof. reflexivity. Qed.

Definition string_keys (o : obj) : Prop := forall k x, In (k, x) o -> exists b, k = TStr b.

Lemma find_hashed_string o : forall k x, string_keys o -> NoDup (map fst o) -> In (k, x) o -> find_hashed val_eqb o k = Some x.
Proof.
  induction o as [|[k' x'] r IH]; intros k x Hs Hn Hin; [destruct Hin|]. cbn [find_hashed].
  inversion Hn as [|? ? Hnot Hn']; subst. destruct Hin as [E|Hin].
  - injection E as -> ->. destruct (Hs k x (or_introl eq_refl)) as (b & ->).
    rewrite hws_eqb_refl, val_eqb_tstr, bytes_eqb_refl. reflexivity.
  - destruct (Hs k x (or_intror Hin)) as (b & ->). destruct (Hs k' x' (or_introl eq_refl)) as (b' & ->).
    assert (Hne : b <> b').
    { intros ->. apply Hnot. cbn [fst]. apply in_map_iff. exists (TStr b', x). split; [reflexivity|exact Hin]. }
    rewrite val_eqb_tstr. destruct (bytes_eqb_spec b b') as [E|_]; [contradiction|]. rewrite andb_false_r.
    apply IH; [intros k2 x2 H2; apply (Hs k2 x2); right; exact H2|exact Hn'|exact Hin].
Qed.

Lemma string_keys_ok o : string_keys o -> NoDup (map fst o) -> keys_ok o.
Proof.
  intros Hs Hn k x Hin. unfold get, get_with. destruct o as [|[k1 x1] [|kv r]]; [destruct Hin| |].
  - destruct Hin as [E|[]]. injection E as -> ->. destruct (Hs k x (or_introl eq_refl)) as (b & ->).
    rewrite val_eqb_tstr, bytes_eqb_refl. reflexivity.
  - apply find_hashed_string; assumption.
Qed.

(** JSON-like values: scalars, arrays, and objects with pairwise different text keys *)
Inductive json_like : val -> Prop :=
| j_null : json_like Null
| j_bool b : json_like (Bool b)
| j_num n : json_like (Num n)
| j_str b : json_like (TStr b)
| j_arr a : Forall json_like a -> json_like (Arr a)
| j_obj o : string_keys o -> NoDup (map fst o) -> Forall (fun kv => json_like (snd kv)) o -> json_like (Obj o).

Lemma json_like_good_list : forall l, Forall (fun v => json_like v -> good v) l -> Forall json_like l -> Forall good l.
Proof. induction l as [|v l IH]; intros H1 H2; constructor; inversion H1; inversion H2; subst; auto. Qed.

Fixpoint json_like_good_f (n : nat) : forall v, (depth v < n)%nat -> json_like v -> good v.
Proof.
  destruct n as [|n]; intros v Hd Hj; [lia|]. inversion Hj; subst; try constructor.
  - (* array *) rewrite Forall_forall in *. intros x Hx. apply (json_like_good_f n); [|apply H; exact Hx].
    cbn [depth] in Hd. assert (depth x <= fold_right (fun x m => Nat.max (depth x) m) O a)%nat.
    { clear -Hx. induction a as [|y a IH]; [destruct Hx|]. cbn. destruct Hx as [->|Hx]; [lia|specialize (IH Hx); lia]. }
    lia.
  - (* object *) apply string_keys_ok; assumption.
  - rewrite Forall_forall in *. intros [k x] Hx. cbn [snd]. apply (json_like_good_f n); [|apply (H1 (k, x) Hx)].
    cbn [depth] in Hd.
    assert (depth x <= fold_right (fun kv m => match kv with (k, x) => Nat.max (Nat.max (depth k) (depth x)) m end) O o)%nat.
    { clear -Hx. induction o as [|[k2 y] o IH]; [destruct Hx|]. cbn. destruct Hx as [E|Hx]; [injection E as -> ->; lia|specialize (IH Hx); lia]. }
    lia.
Qed.

Theorem json_like_good v : json_like v -> good v.
Proof. apply (json_like_good_f (S (depth v))). lia. Qed.

(** so for every JSON-like input and every path: getpath (path p) = p *)
Corollary getpath_of_path_json ps v : json_like v ->
  sforall (fun xp => getpath (rev (snd xp)) v = Ok (fst xp)) (path_paths ps (v, [])).
Proof. intros H. apply getpath_of_path. apply json_like_good. exact H. Qed.
