(** A module reached by several routes is loaded once. *)
From Coq Require Import List Bool Arith Lia.
From JaqV Require Import Cli.Modules.
Import ListNotations.

Lemma index_of_none f l i : index_of f l i = None -> ~ In f l.
Proof.
  revert i; induction l as [|g r IH]; intros i H; cbn in *; [tauto|].
  destruct (Nat.eqb f g) eqn:E; [discriminate|]. apply Nat.eqb_neq in E.
  intros [Hg|Hr]; [congruence | exact (IH _ H Hr)].
Qed.

Lemma index_of_some f l i k : index_of f l i = Some k -> In f l.
Proof.
  revert i; induction l as [|g r IH]; intros i H; cbn in *; [discriminate|].
  destruct (Nat.eqb f g) eqn:E; [apply Nat.eqb_eq in E; left; congruence | right; eapply IH; eassumption].
Qed.

Lemma existsb_eqb_false f l : existsb (Nat.eqb f) l = false -> ~ In f l.
Proof.
  intros H Hin. assert (existsb (Nat.eqb f) l = true) as Ht.
  { apply existsb_exists. exists f. split; [exact Hin | apply Nat.eqb_refl]. }
  congruence.
Qed.

(** a successful [find] restores the stack of open files *)
Lemma find_open fuel fs st f id st' : find fuel fs st f = inl (id, st') -> l_open st' = l_open st.
Proof.
  destruct fuel as [|fuel]; [discriminate|]. cbn [find].
  destruct (deps_of fs f); [|discriminate].
  destruct (index_of f (l_mods st) 0); [intros H; injection H as <- <-; reflexivity|].
  destruct (existsb (Nat.eqb f) (l_open st)); [discriminate|].
  destruct (load_all _ _ _); [|discriminate]. intros H. injection H as <- <-. reflexivity.
Qed.

(** the invariant carried through loading: no duplicates among loaded modules, and no open file is among them *)
Definition inv (st : lstate) : Prop := NoDup (l_mods st) /\ (forall h, In h (l_open st) -> ~ In h (l_mods st)).

Lemma nodup_snoc (l : list file) f : NoDup l -> ~ In f l -> NoDup (l ++ [f]).
Proof.
  induction l as [|g r IH]; cbn; intros Hn Hf.
  - constructor; [tauto | constructor].
  - inversion Hn as [|? ? Hg Hr]; subst. constructor.
    + intros Hin. apply in_app_or in Hin. destruct Hin as [Hin|[Hin|[]]]; [tauto|]. subst. apply Hf. left. reflexivity.
    + apply IH; [exact Hr | tauto].
Qed.

Lemma load_all_inv (F : lstate -> file -> (nat * lstate) + lerr) :
  (forall st f id st', inv st -> F st f = inl (id, st') ->
     inv st' /\ l_open st' = l_open st /\ (forall g, In g (l_mods st) -> In g (l_mods st'))) ->
  forall ds st st', inv st -> load_all F st ds = inl st' ->
     inv st' /\ l_open st' = l_open st /\ (forall g, In g (l_mods st) -> In g (l_mods st')).
Proof.
  intros HF. induction ds as [|d r IH]; intros st st' Hi H; cbn in H.
  - injection H as <-. auto.
  - destruct (F st d) as [[i s1]|e] eqn:E; [|discriminate].
    destruct (HF _ _ _ _ Hi E) as [Hi1 [Ho1 Hs1]].
    destruct (IH _ _ Hi1 H) as [Hi2 [Ho2 Hs2]].
    split; [exact Hi2|]. split; [congruence|]. intros g Hg. apply Hs2, Hs1, Hg.
Qed.

Lemma find_inv fuel fs : forall st f id st', inv st -> find fuel fs st f = inl (id, st') ->
  inv st' /\ l_open st' = l_open st /\ (forall g, In g (l_mods st) -> In g (l_mods st')).
Proof.
  induction fuel as [|fuel IH]; intros st f id st' Hi H; [discriminate|].
  pose proof (find_open _ _ _ _ _ _ H) as Hopen.
  cbn [find] in H. destruct (deps_of fs f) as [ds|]; [|discriminate].
  destruct (index_of f (l_mods st) 0) as [i|] eqn:Ei; [injection H as <- <-; auto|].
  destruct (existsb (Nat.eqb f) (l_open st)) eqn:Ex; [discriminate|].
  destruct (load_all (find fuel fs) {| l_mods := l_mods st; l_open := f :: l_open st |} ds) as [st2|e] eqn:Eg; [|discriminate].
  injection H as <- <-.
  assert (Hi1 : inv {| l_mods := l_mods st; l_open := f :: l_open st |}).
  { destruct Hi as [Hn Ho]. split; [exact Hn|]. cbn. intros h [<-|Hh]; [exact (index_of_none _ _ _ Ei) | exact (Ho h Hh)]. }
  destruct (load_all_inv (find fuel fs) IH ds _ _ Hi1 Eg) as [[Hn2 Ho2] [Hop2 Hs2]].
  cbn [l_open] in Hop2.
  assert (Hf2 : ~ In f (l_mods st2)) by (apply Ho2; rewrite Hop2; left; reflexivity).
  repeat split; cbn [l_mods l_open].
  - apply nodup_snoc; assumption.
  - intros h Hh Hin. apply in_app_or in Hin. destruct Hin as [Hin|[Hin|[]]].
    + apply (Ho2 h); [rewrite Hop2; right; exact Hh | exact Hin].
    + subst h. exact (existsb_eqb_false _ _ Ex Hh).
  - intros g Hg. apply in_or_app. left. apply Hs2. exact Hg.
Qed.

(** every file is loaded at most once, by whatever routes it is reached (diamonds, repeated directives) *)
Theorem load_once fs main_deps mods : load fs main_deps = inl mods -> NoDup mods.
Proof.
  unfold load. intros H.
  destruct (load_all (find (S (length fs)) fs) {| l_mods := [prelude_file]; l_open := [] |} main_deps) as [st|e] eqn:E; [|discriminate].
  injection H as <-.
  assert (Hi0 : inv {| l_mods := [prelude_file]; l_open := [] |}).
  { split; cbn; [constructor; [tauto | constructor] | tauto]. }
  destruct (load_all_inv _ (find_inv (S (length fs)) fs) main_deps _ _ Hi0 E) as [[Hn _] _]. exact Hn.
Qed.

Lemma find_S fuel fs st f :
  find (S fuel) fs st f =
  match deps_of fs f with
  | None => inr (NotFound f)
  | Some ds =>
      match index_of f (l_mods st) 0 with
      | Some id => inl (id, st)
      | None =>
          if existsb (Nat.eqb f) (l_open st) then inr (Circular f)
          else match load_all (find fuel fs) {| l_mods := l_mods st; l_open := f :: l_open st |} ds with
               | inr e => inr e
               | inl st2 => inl (length (l_mods st2), {| l_mods := l_mods st2 ++ [f]; l_open := l_open st |})
               end
      end
  end.
Proof. reflexivity. Qed.

(** while a file is being loaded, reaching it again among the dependencies fails (circular import): it never succeeds *)
Lemma open_file_not_loadable fuel fs f : forall l st, In f l -> In f (l_open st) -> ~ In f (l_mods st) -> inv st ->
  deps_of fs f <> None ->
  match load_all (find fuel fs) st l with inl _ => False | inr _ => True end.
Proof.
  induction l as [|d r IH]; intros st Hl Ho Hm Hi Hd; [destruct Hl|]. cbn [load_all].
  destruct (find fuel fs st d) as [[i s1]|e] eqn:Ef; [|exact I].
  destruct Hl as [<-|Hr].
  - exfalso. destruct fuel as [|fuel]; [discriminate|]. rewrite find_S in Ef.
    destruct (deps_of fs d); [|contradiction].
    destruct (index_of d (l_mods st) 0) eqn:Ei; [exact (Hm (index_of_some _ _ _ _ Ei))|].
    assert (existsb (Nat.eqb d) (l_open st) = true) as Ex.
    { apply existsb_exists. exists d. split; [exact Ho | apply Nat.eqb_refl]. }
    rewrite Ex in Ef. discriminate.
  - destruct (find_inv _ _ _ _ _ _ Hi Ef) as [[Hn1 Ho1] [Hop1 Hs1]].
    apply IH; [exact Hr | rewrite Hop1; exact Ho | apply Ho1; rewrite Hop1; exact Ho | split; assumption | exact Hd].
Qed.

(** a file that includes itself is reported as an error instead of being loaded or looping *)
Theorem self_import_is_circular fs f ds fuel : deps_of fs f = Some ds -> In f ds -> f <> prelude_file ->
  match find (S fuel) fs {| l_mods := [prelude_file]; l_open := [] |} f with
  | inl _ => False
  | inr _ => True
  end.
Proof.
  intros Hd Hin Hne. rewrite find_S, Hd. cbn [l_mods l_open index_of existsb].
  destruct (Nat.eqb f prelude_file) eqn:E0; [apply Nat.eqb_eq in E0; contradiction|].
  pose proof (open_file_not_loadable fuel fs f ds {| l_mods := [prelude_file]; l_open := [f] |} Hin) as H.
  destruct (load_all (find fuel fs) {| l_mods := [prelude_file]; l_open := [f] |} ds); [|exact I].
  apply H; cbn.
  - left. reflexivity.
  - intros [Hp|[]]. apply Hne. symmetry. exact Hp.
  - split; cbn; [constructor; [tauto | constructor]|]. intros h [<-|[]] [Hp|[]]. apply Hne. symmetry. exact Hp.
  - rewrite Hd. discriminate.
Qed.

(** ** the files that are read are those that the directives name *)
Inductive reach (fs : fsys) (main_deps : list file) : file -> Prop :=
| reach_main d : In d main_deps -> reach fs main_deps d
| reach_dep f ds d : reach fs main_deps f -> deps_of fs f = Some ds -> In d ds -> reach fs main_deps d.

Section Named.
  Variable fs : fsys.
  Variable P : file -> Prop.
  Hypothesis closed : forall f ds d, P f -> deps_of fs f = Some ds -> In d ds -> P d.

  Definition all_named (st : lstate) : Prop := forall m, In m (l_mods st) -> m = prelude_file \/ P m.

  Lemma load_all_named (F : lstate -> file -> (nat * lstate) + lerr) :
    (forall st f id st', all_named st -> P f -> F st f = inl (id, st') -> all_named st') ->
    forall ds st st', all_named st -> (forall d, In d ds -> P d) -> load_all F st ds = inl st' -> all_named st'.
  Proof.
    intros HF ds. induction ds as [|d ds IH]; intros st st' Hst Hds H; cbn [load_all] in H.
    - injection H as <-. exact Hst.
    - destruct (F st d) as [[id st1]|e] eqn:E; [|discriminate].
      apply (IH st1 st'); [eapply HF; [exact Hst| |exact E]; apply Hds; left; reflexivity | intros x Hx; apply Hds; right; exact Hx | exact H].
  Qed.

  Lemma find_named fuel : forall st f id st', all_named st -> P f -> find fuel fs st f = inl (id, st') -> all_named st'.
  Proof.
    induction fuel as [|fuel IH]; intros st f id st' Hst Hf H; [discriminate|]. cbn [find] in H.
    destruct (deps_of fs f) as [ds|] eqn:Ed; [|discriminate].
    destruct (index_of f (l_mods st) 0) as [k|]; [injection H as <- <-; exact Hst|].
    destruct (existsb (Nat.eqb f) (l_open st)); [discriminate|].
    destruct (load_all (find fuel fs) {| l_mods := l_mods st; l_open := f :: l_open st |} ds) as [st2|e] eqn:El; [|discriminate].
    injection H as <- <-.
    assert (H2 : all_named st2).
    { eapply (load_all_named (find fuel fs) IH ds); [|intros d Hd; eapply closed; [exact Hf|exact Ed|exact Hd]|exact El]. exact Hst. }
    intros m Hm. cbn [l_mods] in Hm. apply in_app_or in Hm as [Hm|[<-|[]]]; [apply H2; exact Hm|right; exact Hf].
  Qed.
End Named.

(** every file that [load] reads is the prelude or is named by a chain of import/include directives starting in the main
    program: the set of files read is determined by the directives alone, not by any value or filter *)
Theorem loaded_files_are_named fs main_deps mods : load fs main_deps = inl mods ->
  forall m, In m mods -> m = prelude_file \/ reach fs main_deps m.
Proof.
  unfold load. destruct (load_all _ _ main_deps) as [st|e] eqn:E; [|discriminate]. intros H. injection H as <-.
  refine (load_all_named (reach fs main_deps) (find (S (length fs)) fs) _ main_deps _ st _ _ E).
  - intros st0 f id st' H0 Hf. apply (find_named fs (reach fs main_deps)); [|exact H0|exact Hf].
    intros f0 ds d Hr Hd Hin. eapply reach_dep; eassumption.
  - intros m [<-|[]]. left. reflexivity.
  - intros d Hd. apply reach_main. exact Hd.
Qed.
