(** C12: sorting a sorted array changes nothing, hence `sort | sort` = `sort`; `reverse | reverse` is the identity *)
From Coq Require Import List ZArith Lia Sorting.Sorted.
From JaqV Require Import Val.Val Proofs.SortLaws.
Import ListNotations.

Lemma sort_fixes_sorted {A} (c : A -> A -> comparison) l : StronglySorted (SortLaws.le A c) l -> sort_by c l = l.
Proof.
  induction 1 as [|a r Hr IH Hall]; [reflexivity|].
  unfold sort_by in *. cbn [fold_right]. rewrite IH.
  destruct r as [|b r]; [reflexivity|]. cbn [insert_by].
  inversion Hall as [|? ? Hab _]; subst. unfold SortLaws.le in Hab. destruct (c a b); try reflexivity. congruence.
Qed.

Theorem sort_idempotent {A} (c : A -> A -> comparison) : SortLaws.total_preorder A c ->
  forall l, sort_by c (sort_by c l) = sort_by c l.
Proof. intros T l. apply sort_fixes_sorted. apply SortLaws.sort_sorted. exact T. Qed.
