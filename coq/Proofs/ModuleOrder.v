(** The loader, beyond "once": dependencies are loaded before their dependents, every file that the directives reach
    is loaded, the fuel of the model is never exhausted, and an acyclic set of existing files always loads. *)
From Coq Require Import List Bool Arith Lia.
From JaqV Require Import Cli.Modules Proofs.ModuleLaws.
Import ListNotations.

Lemma deps_in_dom fs f ds : deps_of fs f = Some ds -> In f (map fst fs).
Proof.
  induction fs as [|[g gs] r IH]; cbn; [discriminate|].
  destruct (Nat.eqb f g) eqn:E; [apply Nat.eqb_eq in E; auto | auto].
Qed.

Lemma index_of_in f l : In f l -> forall i, index_of f l i <> None.
Proof.
  induction l as [|g r IH]; intros Hin i; [destruct Hin|]. cbn.
  destruct (Nat.eqb f g) eqn:E; [discriminate|]. apply Nat.eqb_neq in E.
  destruct Hin as [Hg|Hr]; [congruence | apply IH, Hr].
Qed.

(** ** loading only appends, and what was asked for is there afterwards *)
Definition extends_to (st st' : lstate) : Prop := exists ext, l_mods st' = l_mods st ++ ext.

Lemma extends_refl st : extends_to st st.
Proof. exists []. rewrite app_nil_r. reflexivity. Qed.

Lemma extends_trans a b c : extends_to a b -> extends_to b c -> extends_to a c.
Proof. intros [x Hx] [y Hy]. exists (x ++ y). rewrite Hy, Hx, app_assoc. reflexivity. Qed.

Lemma extends_in a b g : extends_to a b -> In g (l_mods a) -> In g (l_mods b).
Proof. intros [x Hx] Hg. rewrite Hx. apply in_or_app. left. exact Hg. Qed.

Section Order.
  Variable fs : fsys.

  (** every module other than the prelude comes after all the files it names *)
  Definition ordered (l : list file) : Prop :=
    forall j m, nth_error l j = Some m -> m <> prelude_file ->
    forall ds d, deps_of fs m = Some ds -> In d ds -> exists i, i < j /\ nth_error l i = Some d.

  Lemma ordered_snoc l f : ordered l -> (forall ds d, deps_of fs f = Some ds -> In d ds -> In d l) -> ordered (l ++ [f]).
  Proof.
    intros Ho Hf j m Hj Hm ds d Hd Hin.
    destruct (Nat.lt_ge_cases j (length l)) as [Hlt|Hge].
    - rewrite nth_error_app1 in Hj by exact Hlt.
      destruct (Ho j m Hj Hm ds d Hd Hin) as [i [Hi Hn]]. exists i. split; [exact Hi|].
      rewrite nth_error_app1 by lia. exact Hn.
    - rewrite nth_error_app2 in Hj by exact Hge.
      destruct (j - length l) as [|k] eqn:Ek; [|destruct k; discriminate]. cbn in Hj. injection Hj as <-.
      destruct (In_nth_error _ _ (Hf ds d Hd Hin)) as [i Hi]. exists i.
      assert (i < length l) by (apply nth_error_Some; congruence).
      split; [lia|]. rewrite nth_error_app1 by assumption. exact Hi.
  Qed.

  Definition good (st st' : lstate) : Prop := extends_to st st' /\ (ordered (l_mods st) -> ordered (l_mods st')).

  Lemma load_all_good (F : lstate -> file -> (nat * lstate) + lerr) :
    (forall st f id st', F st f = inl (id, st') -> good st st' /\ In f (l_mods st')) ->
    forall ds st st', load_all F st ds = inl st' -> good st st' /\ (forall d, In d ds -> In d (l_mods st')).
  Proof.
    intros HF. induction ds as [|d r IH]; intros st st' H; cbn [load_all] in H.
    - injection H as <-. split; [split; [apply extends_refl | auto] | intros d []].
    - destruct (F st d) as [[i s1]|e] eqn:E; [|discriminate].
      destruct (HF _ _ _ _ E) as [[He1 Ho1] Hin1]. destruct (IH _ _ H) as [[He2 Ho2] Hin2].
      split; [split; [eapply extends_trans; eassumption | auto]|].
      intros x [<-|Hx]; [eapply extends_in; eassumption | apply Hin2, Hx].
  Qed.

  Lemma find_good fuel : forall st f id st', find fuel fs st f = inl (id, st') -> good st st' /\ In f (l_mods st').
  Proof.
    induction fuel as [|fuel IH]; intros st f id st' H; [discriminate|]. rewrite find_S in H.
    destruct (deps_of fs f) as [ds|] eqn:Ed; [|discriminate].
    destruct (index_of f (l_mods st) 0) as [k|] eqn:Ei.
    { injection H as <- <-. split; [split; [apply extends_refl | auto] | eapply index_of_some; eassumption]. }
    destruct (existsb (Nat.eqb f) (l_open st)); [discriminate|].
    destruct (load_all (find fuel fs) {| l_mods := l_mods st; l_open := f :: l_open st |} ds) as [st2|e] eqn:El; [|discriminate].
    injection H as <- <-.
    destruct (load_all_good (find fuel fs) IH ds _ _ El) as [[[ext Hext] Ho2] Hin2]. cbn [l_mods] in Hext, Ho2.
    split; [split|]; cbn [l_mods].
    - exists (ext ++ [f]). rewrite Hext, app_assoc. reflexivity.
    - intros Ho. apply ordered_snoc; [apply Ho2, Ho|]. intros ds' d Hd' Hin. rewrite Ed in Hd'. injection Hd' as <-. apply Hin2, Hin.
    - apply in_or_app. right. left. reflexivity.
  Qed.

  Lemma load_good main_deps mods : load fs main_deps = inl mods ->
    ordered mods /\ (forall d, In d main_deps -> In d mods) /\ In prelude_file mods.
  Proof.
    unfold load. destruct (load_all _ _ main_deps) as [st|e] eqn:E; [|discriminate]. intros H. injection H as <-.
    destruct (load_all_good _ (find_good (S (length fs))) main_deps _ _ E) as [[He Ho] Hin]. cbn [l_mods] in Ho.
    split; [|split; [exact Hin | eapply extends_in; [exact He | left; reflexivity]]].
    apply Ho. intros j m Hj Hm. destruct j as [|[|j]]; cbn in Hj; [injection Hj as <-; contradiction | discriminate | discriminate].
  Qed.
End Order.

(** a module's definitions are compiled only after everything it includes or imports *)
Theorem deps_loaded_first fs main_deps mods : load fs main_deps = inl mods ->
  forall j m, nth_error mods j = Some m -> m <> prelude_file ->
  forall ds d, deps_of fs m = Some ds -> In d ds -> exists i, i < j /\ nth_error mods i = Some d.
Proof. intros H. exact (proj1 (load_good fs main_deps mods H)). Qed.

(** every file reached by a chain of directives from the main program is loaded (the prelude has no directives) *)
Theorem reachable_loaded fs main_deps mods : load fs main_deps = inl mods ->
  (forall ds, deps_of fs prelude_file = Some ds -> ds = []) ->
  forall m, reach fs main_deps m -> In m mods.
Proof.
  intros H Hp m Hr. destruct (load_good fs main_deps mods H) as [Ho [Hmain _]].
  induction Hr as [d Hd | f ds d Hf IH Hds Hin]; [apply Hmain, Hd|].
  destruct (Nat.eq_dec f prelude_file) as [->|Hne].
  - rewrite (Hp _ Hds) in Hin. destruct Hin.
  - destruct (In_nth_error _ _ IH) as [j Hj]. destruct (Ho j f Hj Hne ds d Hds Hin) as [i [_ Hi]].
    eapply nth_error_In. exact Hi.
Qed.

(** ** any cycle among the reached files makes loading fail *)
Definition names (fs : fsys) (f d : file) : Prop := exists ds, deps_of fs f = Some ds /\ In d ds.

Inductive chain (fs : fsys) : file -> file -> Prop :=
| chain_one f d : names fs f d -> chain fs f d
| chain_step f m d : names fs f m -> chain fs m d -> chain fs f d.

Theorem cyclic_fails fs main_deps f :
  (forall ds, deps_of fs prelude_file = Some ds -> ds = []) ->
  reach fs main_deps f -> chain fs f f -> forall mods, load fs main_deps <> inl mods.
Proof.
  intros Hp Hr Hc mods H.
  pose proof (deps_loaded_first _ _ _ H) as Ho. pose proof (load_once _ _ _ H) as Hn.
  assert (Hlt : forall a b, chain fs a b -> reach fs main_deps a -> forall j, nth_error mods j = Some a ->
                 exists i, i < j /\ nth_error mods i = Some b).
  { intros a b Hab. induction Hab as [a b [ds [Hd Hin]] | a m b [ds [Hd Hin]] Hmb IH]; intros Ha j Hj.
    - apply (Ho j a Hj) with (ds := ds); [|exact Hd|exact Hin]. intros ->. rewrite (Hp _ Hd) in Hin. destruct Hin.
    - destruct (Ho j a Hj) with (ds := ds) (d := m) as [i1 [Hi1 Hn1]]; [|exact Hd|exact Hin|].
      { intros ->. rewrite (Hp _ Hd) in Hin. destruct Hin. }
      destruct (IH (reach_dep _ _ _ _ _ Ha Hd Hin) i1 Hn1) as [i [Hi Hni]]. exists i. split; [lia | exact Hni]. }
  destruct (In_nth_error _ _ (reachable_loaded _ _ _ H Hp f Hr)) as [j Hj].
  destruct (Hlt f f Hc Hr j Hj) as [i [Hi Hni]].
  assert (i = j); [|lia].
  apply (proj1 (NoDup_nth_error mods) Hn); [apply nth_error_Some; congruence | congruence].
Qed.

(** ** the fuel of the model never runs out *)
Definition is_fuel {A} (r : A + lerr) : Prop := match r with inr Fuel => True | _ => False end.

Lemma load_all_no_fuel (F : lstate -> file -> (nat * lstate) + lerr) (o : list file) :
  (forall st f, l_open st = o -> ~ is_fuel (F st f)) ->
  (forall st f id st', F st f = inl (id, st') -> l_open st' = l_open st) ->
  forall ds st, l_open st = o -> ~ is_fuel (load_all F st ds).
Proof.
  intros Hn Hop. induction ds as [|d r IH]; intros st Ho; cbn [load_all]; [cbn; tauto|].
  destruct (F st d) as [[i s1]|e] eqn:E.
  - apply IH. rewrite (Hop _ _ _ _ E). exact Ho.
  - intros Hf. apply (Hn st d Ho). rewrite E. exact Hf.
Qed.

Lemma find_no_fuel fs : forall fuel st f, NoDup (l_open st) -> incl (l_open st) (map fst fs) ->
  length fs + 1 <= length (l_open st) + fuel -> ~ is_fuel (find fuel fs st f).
Proof.
  induction fuel as [|fuel IH]; intros st f Hn Hi Hl.
  - exfalso. pose proof (NoDup_incl_length Hn Hi) as Hle. rewrite map_length in Hle. lia.
  - rewrite find_S. destruct (deps_of fs f) as [ds|] eqn:Ed; [|cbn; tauto].
    destruct (index_of f (l_mods st) 0); [cbn; tauto|].
    destruct (existsb (Nat.eqb f) (l_open st)) eqn:Ex; [cbn; tauto|].
    pose proof (load_all_no_fuel (find fuel fs) (f :: l_open st)) as Hla.
    destruct (load_all (find fuel fs) {| l_mods := l_mods st; l_open := f :: l_open st |} ds) as [st2|e] eqn:El; [cbn; tauto|].
    intros Hf. refine (Hla _ _ ds {| l_mods := l_mods st; l_open := f :: l_open st |} eq_refl _).
    + intros s g Hs. apply IH; rewrite Hs.
      * constructor; [exact (existsb_eqb_false _ _ Ex) | exact Hn].
      * intros x [<-|Hx]; [eapply deps_in_dom; eassumption | apply Hi, Hx].
      * cbn [length]. lia.
    + intros s g id s' Hs. eapply find_open. exact Hs.
    + rewrite El. exact Hf.
Qed.

(** [load] never stops for lack of fuel: the bound of the model is not a restriction *)
Theorem load_fuel_suffices fs main_deps : load fs main_deps <> inr Fuel.
Proof.
  unfold load. intros H.
  pose proof (load_all_no_fuel (find (S (length fs)) fs) []) as Hla.
  destruct (load_all (find (S (length fs)) fs) {| l_mods := [prelude_file]; l_open := [] |} main_deps) as [st|e] eqn:E; [discriminate|].
  injection H as ->.
  refine (Hla _ _ main_deps {| l_mods := [prelude_file]; l_open := [] |} eq_refl _).
  - intros s g Hs. apply find_no_fuel; rewrite Hs; [constructor | intros x [] | cbn [length]; lia].
  - intros s g id s' Hs. eapply find_open. exact Hs.
  - rewrite E. exact I.
Qed.

(** ** an acyclic set of existing files always loads *)
Section Acyclic.
  Variable fs : fsys.
  Variable rank : file -> nat.
  Variable P : file -> Prop.
  Hypothesis decreasing : forall f ds d, deps_of fs f = Some ds -> In d ds -> rank d < rank f.
  Hypothesis closed : forall f ds d, P f -> deps_of fs f = Some ds -> In d ds -> P d.
  Hypothesis present : forall f, P f -> deps_of fs f <> None.

  Definition is_err {A} (r : A + lerr) : Prop := match r with inr Fuel => False | inr _ => True | inl _ => False end.

  Lemma load_all_no_err (F : lstate -> file -> (nat * lstate) + lerr) (o : list file) :
    (forall st f, l_open st = o -> In f o \/ P f -> P f -> (forall h, In h o -> rank f < rank h) -> ~ is_err (F st f)) ->
    (forall st f id st', F st f = inl (id, st') -> l_open st' = l_open st) ->
    forall ds st, l_open st = o -> (forall d, In d ds -> P d /\ forall h, In h o -> rank d < rank h) -> ~ is_err (load_all F st ds).
  Proof.
    intros Hn Hop. induction ds as [|d r IH]; intros st Ho Hds; cbn [load_all]; [cbn; tauto|].
    destruct (F st d) as [[i s1]|e] eqn:E.
    - apply IH; [rewrite (Hop _ _ _ _ E); exact Ho | intros x Hx; apply Hds; right; exact Hx].
    - intros Hf. destruct (Hds d (or_introl eq_refl)) as [Hp Hr]. apply (Hn st d Ho (or_intror Hp) Hp Hr). rewrite E. exact Hf.
  Qed.

  Lemma find_no_err : forall fuel st f, P f -> (forall h, In h (l_open st) -> rank f < rank h) -> ~ is_err (find fuel fs st f).
  Proof.
    induction fuel as [|fuel IH]; intros st f Hp Hr; [cbn; tauto|]. rewrite find_S.
    destruct (deps_of fs f) as [ds|] eqn:Ed; [|exfalso; exact (present f Hp Ed)].
    destruct (index_of f (l_mods st) 0); [cbn; tauto|].
    destruct (existsb (Nat.eqb f) (l_open st)) eqn:Ex.
    { exfalso. apply existsb_exists in Ex. destruct Ex as [h [Hh Ehf]]. apply Nat.eqb_eq in Ehf. subst h. specialize (Hr f Hh). lia. }
    pose proof (load_all_no_err (find fuel fs) (f :: l_open st)) as Hla.
    destruct (load_all (find fuel fs) {| l_mods := l_mods st; l_open := f :: l_open st |} ds) as [st2|e] eqn:El; [cbn; tauto|].
    intros Hf. refine (Hla _ _ ds {| l_mods := l_mods st; l_open := f :: l_open st |} eq_refl _ _).
    + intros s g Hs _ Hg Hrg. apply IH; [exact Hg | rewrite Hs; exact Hrg].
    + intros s g id s' Hs. eapply find_open. exact Hs.
    + intros d Hd. split; [eapply closed; eassumption|]. intros h [<-|Hh]; [eapply decreasing; eassumption|].
      specialize (Hr h Hh). pose proof (decreasing f ds d Ed Hd). lia.
    + rewrite El. destruct e; cbn in *; tauto.
  Qed.
End Acyclic.

(** when the directives admit a rank that decreases along every include/import and every file they name exists,
    [load] succeeds: only a cycle or a missing file makes it fail *)
Theorem acyclic_loads fs main_deps (rank : file -> nat) :
  (forall f ds d, deps_of fs f = Some ds -> In d ds -> rank d < rank f) ->
  (forall f, reach fs main_deps f -> deps_of fs f <> None) ->
  exists mods, load fs main_deps = inl mods.
Proof.
  intros Hdec Hpres. pose proof (load_fuel_suffices fs main_deps) as Hfu. unfold load in *.
  pose proof (load_all_no_err rank (reach fs main_deps) (find (S (length fs)) fs) []) as Hla.
  destruct (load_all (find (S (length fs)) fs) {| l_mods := [prelude_file]; l_open := [] |} main_deps) as [st|e] eqn:E; [eexists; reflexivity|].
  exfalso. refine (Hla _ _ main_deps {| l_mods := [prelude_file]; l_open := [] |} eq_refl _ _).
  - intros s g Hs _ Hg Hr. apply (find_no_err fs rank (reach fs main_deps)); [exact Hdec| |exact Hpres|exact Hg|rewrite Hs; exact Hr].
    intros f ds d Hf Hd Hin. eapply reach_dep; eassumption.
  - intros s g id s' Hs. eapply find_open. exact Hs.
  - intros d Hd. split; [apply reach_main, Hd | intros h []].
  - rewrite E. destruct e; cbn; try exact I. exfalso. apply Hfu. reflexivity.
Qed.

Example cycle_of_three_fails : forall mods, load [(0, []); (1, [2]); (2, [3]); (3, [1])] [1] <> inl mods.
Proof.
  apply (cyclic_fails _ _ 1); [intros ds H; cbn in H; injection H as <-; reflexivity | apply reach_main; left; reflexivity|].
  apply chain_step with 2; [exists [2]; split; [reflexivity | left; reflexivity]|].
  apply chain_step with 3; [exists [3]; split; [reflexivity | left; reflexivity]|].
  apply chain_one. exists [1]. split; [reflexivity | left; reflexivity].
Qed.

(** non-vacuity: a diamond (1 -> 2,3; 2 -> 4; 3 -> 4) loads the shared file once and before its users *)
Example diamond_loads : load [(0, []); (1, [2; 3]); (2, [4]); (3, [4]); (4, [])] [1] = inl [0; 4; 2; 3; 1].
Proof. vm_compute. reflexivity. Qed.
