(** Print-then-parse is the identity on values: the compact JSON text that the writer (Json/Write.v) produces for a value
    built from null, booleans, integers of any size, text strings and byte strings of any bytes, arrays, and objects with
    any such values as keys, is read back by the parser (Json/Read.v) as exactly that value, whatever follows it. *)
From Coq Require Import ZArith Bool List Lia.
From Coq Require Import Init.Byte.
From JaqV Require Import Base.Bytes Base.F64 Val.Num Val.Val Json.Write Json.Read Proofs.DigitLaws Proofs.JsonInt Proofs.JsonString.
Import ListNotations.
Local Open Scope Z_scope.

(** what may follow a value inside a text: nothing, or `,` `]` `}` `:` *)
Definition stop_byte (c : byte) : bool := let z := bz c in (z =? 44) || (z =? 93) || (z =? 125) || (z =? 58).
Definition stops (rest : bytes) : Prop := match rest with [] => True | c :: _ => stop_byte c = true end.

Lemma stop_cases c : stop_byte c = true -> bz c = 44 \/ bz c = 93 \/ bz c = 125 \/ bz c = 58.
Proof.
  unfold stop_byte. cbv zeta. intros H. repeat (apply orb_prop in H; destruct H as [H|H]); apply Z.eqb_eq in H; auto.
Qed.

Lemma num_part_stop st c : stop_byte c = true -> num_part st (bz c) = None.
Proof.
  intros H. destruct st as [r z d e]. unfold num_part. cbn [n_read n_zero n_dot n_exp].
  destruct (stop_cases c H) as [E|[E|[E|E]]]; rewrite E; cbn; rewrite ?andb_false_r; cbn; rewrite ?andb_false_r; reflexivity.
Qed.

Lemma ws_stop c r : stop_byte c = true -> ws (c :: r) = c :: r.
Proof.
  intros H. unfold ws. cbn [length ws_tk]. unfold is_ws.
  destruct (stop_cases c H) as [E|[E|[E|E]]]; rewrite E; reflexivity.
Qed.

Lemma no_infinity rest : stops rest -> strip_prefix l_infinity rest = None.
Proof.
  destruct rest as [|c r]; [reflexivity|]. cbn [stops]. intros H. cbn [l_infinity lit of_ascii map strip_prefix].
  assert (byte_eqb (zb 73) c = false) as ->; [|reflexivity].
  destruct (stop_cases c H) as [E|[E|[E|E]]]; destruct c; cbn in E; try discriminate; reflexivity.
Qed.

(** ** integers, followed by anything that ends a number *)
Lemma lex_digits_rest ds : forall st acc rest, all_digits ds = true -> stops rest ->
  is_dig (n_read st) = true -> n_zero st = false -> n_dot st = false -> n_exp st = false ->
  exists st', lex_num st (ds ++ rest) acc = (rev acc ++ ds, st', rest) /\ n_dot st' = false /\ n_exp st' = false.
Proof.
  induction ds as [|d ds IH]; intros st acc rest Hd Hs Hr Hz Hdot Hexp.
  - exists st. rewrite app_nil_r. cbn [app]. split; [|auto]. destruct rest as [|c r]; [reflexivity|].
    cbn [lex_num]. rewrite (num_part_stop st c Hs). reflexivity.
  - cbn [all_digits forallb] in Hd. apply andb_prop in Hd as [Hd1 Hd2]. cbn [app lex_num].
    assert (E : num_part st (bz d) = Some {| n_read := bz d; n_zero := false; n_dot := false; n_exp := false |}).
    { unfold num_part. unfold is_dig in Hr. apply andb_prop in Hr as [R1 R2]. apply Z.leb_le in R1, R2.
      pose proof Hd1 as Hd1'. unfold is_digit in Hd1'. apply andb_prop in Hd1' as [D1 D2]. apply Z.leb_le in D1, D2.
      destruct (Z.eqb_spec (n_read st) 0); [lia|]. destruct (Z.eqb_spec (n_read st) 45); [lia|]. cbn [orb andb].
      change (is_dig (bz d)) with (is_digit d). rewrite Hd1, Hz, Hdot, Hexp. reflexivity. }
    rewrite E. destruct (IH {| n_read := bz d; n_zero := false; n_dot := false; n_exp := false |} (d :: acc) rest Hd2 Hs) as (st' & L & A & B);
      [exact Hd1|reflexivity|reflexivity|reflexivity|].
    exists st'. rewrite L. cbn [rev]. rewrite <- app_assoc. auto.
Qed.

Theorem parse_num_print_rest z rest : stops rest -> parse_num (Z_to_dec z ++ rest) = POk (int_or_big z) rest.
Proof.
  intros Hs. pose proof (parse_int_dec_print z) as HP. pose proof (no_infinity rest Hs) as NI. unfold parse_num, Z_to_dec in *.
  destruct (Z.ltb_spec z 0) as [Hn|Hp].
  - destruct (nat_digits_spec (- z) ltac:(lia)) as (Hne & Hd & Hv & Hh). specialize (Hh ltac:(lia)).
    destruct (nat_digits (- z)) as [|d ds] eqn:E; [congruence|]. cbn [app lex_num].
    change (num_part signed_digits (bz x2d)) with (Some {| n_read := 45; n_zero := false; n_dot := false; n_exp := false |}).
    cbn [lex_num]. cbn [all_digits forallb] in Hd. apply andb_prop in Hd as [Hd1 Hd2].
    rewrite (first_digit _ d Hd1); [|reflexivity|reflexivity|reflexivity|right; split; [reflexivity|lia]].
    destruct (lex_digits_rest ds {| n_read := bz d; n_zero := false; n_dot := false; n_exp := false |} [d; x2d] rest Hd2 Hs) as (st' & L & A & B);
      [exact Hd1|reflexivity|reflexivity|reflexivity|].
    rewrite L. cbn [rev app].
    assert (LD : last_is_digit (x2d :: d :: ds) = true).
    { apply (all_digits_last (d :: ds) ltac:(discriminate)) with (pre := [x2d]). cbn [all_digits forallb]. rewrite Hd1. exact Hd2. }
    rewrite LD, A, B; cbn [negb andb]; rewrite HP; reflexivity.
  - destruct (nat_digits_spec z Hp) as (Hne & Hd & Hv & Hh).
    destruct (nat_digits z) as [|d ds] eqn:E; [congruence|]. cbn [app lex_num].
    cbn [all_digits forallb] in Hd. apply andb_prop in Hd as [Hd1 Hd2].
    rewrite (first_digit _ d Hd1); [|reflexivity|reflexivity|reflexivity|left; reflexivity].
    destruct (lex_digits_rest ds {| n_read := bz d; n_zero := false; n_dot := false; n_exp := false |} [d] rest Hd2 Hs) as (st' & L & A & B);
      [exact Hd1|reflexivity|reflexivity|reflexivity|].
    rewrite L. cbn [rev app].
    assert (LD : last_is_digit (d :: ds) = true).
    { apply (all_digits_last (d :: ds) ltac:(discriminate)) with (pre := []). cbn [all_digits forallb]. rewrite Hd1. exact Hd2. }
    destruct ds as [|d2 ds']; [rewrite NI|]; rewrite LD, A, B; cbn [negb andb]; rewrite HP; reflexivity.
Qed.

(** ** the compact writer *)
Definition W (n : nat) (v : val) : bytes := write_f n false pp_default 0 v.

Fixpoint join (items : list bytes) : bytes :=
  match items with
  | [] => []
  | [x] => x
  | x :: r => x ++ [chr 44] ++ join r
  end.

Lemma write_seq_default level items : write_seq pp_default level items = join items.
Proof.
  unfold write_seq. cbn [pp_indent pp_default]. induction items as [|x r IH]; [reflexivity|]. destruct r as [|y r]; [reflexivity|].
  change (join (x :: y :: r)) with (x ++ [chr 44] ++ join (y :: r)). rewrite <- IH. reflexivity.
Qed.

Lemma write_level n : forall level v, write_f n false pp_default level v = W n v.
Proof.
  induction n as [|n IH]; intros level v; [reflexivity|]. unfold W. destruct v as [| | | | |a|o]; try reflexivity.
  - cbn [write_f]. destruct a as [|x a]; [reflexivity|]. rewrite !write_seq_default. do 3 f_equal.
    apply map_ext. intros y. rewrite IH. symmetry. apply IH.
  - cbn [write_f pp_sort_keys pp_default pp_sep_space]. destruct o as [|kv o]; [reflexivity|]. rewrite !write_seq_default. do 3 f_equal.
    apply map_ext. intros [k y]. cbn [fst snd]. rewrite !(IH (S level)), !(IH 1%nat). reflexivity.
Qed.

Definition WE (n : nat) (kv : val * val) : bytes := W n (fst kv) ++ [chr 58] ++ W n (snd kv).

Lemma W_arr n a : W (S n) (Arr a) = [chr 91] ++ join (map (W n) a) ++ [chr 93].
Proof.
  unfold W at 1. cbn [write_f]. destruct a as [|x a]; [reflexivity|]. rewrite write_seq_default. do 3 f_equal.
  apply map_ext. intros y. apply write_level.
Qed.
Lemma W_obj n o : W (S n) (Obj o) = [chr 123] ++ join (map (WE n) o) ++ [chr 125].
Proof.
  unfold W at 1. cbn [write_f pp_sort_keys pp_default pp_sep_space]. destruct o as [|kv o]; [reflexivity|]. rewrite write_seq_default. do 3 f_equal.
  apply map_ext. intros [k y]. unfold WE. cbn [fst snd app]. rewrite !write_level. reflexivity.
Qed.

(** ** the parser's loops, named *)
Definition arr_items (parse : bytes -> pres val) :=
  fix items (n : nat) (s : bytes) (acc : list val) : pres val :=
    match n with
    | O => PErr PFuel
    | S n =>
        match parse s with
        | PErr e => PErr e
        | POk v rest =>
            match ws rest with
            | [] => PErr PExpectCommaOrEnd
            | c2 :: r2 =>
                if bz c2 =? 93 then POk (Arr (rev (v :: acc))) r2
                else if bz c2 =? 44 then
                  match ws r2 with
                  | [] => PErr PExpectValue
                  | s' => items n s' (v :: acc)
                  end
                else PErr PExpectCommaOrEnd
            end
        end
    end.

Definition obj_entries (parse : bytes -> pres val) :=
  fix entries (n : nat) (s : bytes) (acc : obj) : pres val :=
    match n with
    | O => PErr PFuel
    | S n =>
        match parse s with
        | PErr e => PErr e
        | POk k rest =>
            match ws rest with
            | c2 :: r2 =>
                if bz c2 =? 58 then
                  match ws r2 with
                  | [] => PErr PExpectValue
                  | s2 =>
                      match parse s2 with
                      | PErr e => PErr e
                      | POk v rest2 =>
                          let acc' := insert acc k v in
                          match ws rest2 with
                          | [] => PErr PExpectCommaOrEnd
                          | c3 :: r3 =>
                              if bz c3 =? 125 then POk (Obj acc') r3
                              else if bz c3 =? 44 then
                                match ws r3 with
                                | [] => PErr PExpectValue
                                | s' => entries n s' acc'
                                end
                              else PErr PExpectCommaOrEnd
                          end
                      end
                  end
                else PErr PExpectColon
            | [] => PErr PExpectColon
            end
        end
    end.

Lemma parse_arr fuel r :
  parse (S fuel) (chr 91 :: r)
  = match ws r with
    | [] => PErr PExpectValueOrEnd
    | c1 :: r1 => if bz c1 =? 93 then POk (Arr []) r1 else arr_items (parse fuel) fuel (c1 :: r1) []
    end.
Proof. reflexivity. Qed.

Lemma parse_obj fuel r :
  parse (S fuel) (chr 123 :: r)
  = match ws r with
    | [] => PErr PExpectValueOrEnd
    | c1 :: r1 => if bz c1 =? 125 then POk (Obj []) r1 else obj_entries (parse fuel) fuel (c1 :: r1) []
    end.
Proof. reflexivity. Qed.

(** ** the values *)
(** an object as the parser builds it: inserting its entries one after the other appends each (no key occurs twice) *)
Fixpoint wf_from (acc o : obj) : Prop :=
  match o with
  | [] => True
  | (k, v) :: r => insert acc k v = acc ++ [(k, v)] /\ wf_from (acc ++ [(k, v)]) r
  end.
Definition wf_obj (o : obj) : Prop := wf_from [] o.

Inductive rt : val -> Prop :=
| rt_null : rt Null
| rt_bool b : rt (Bool b)
| rt_int z : rt (Num (int_or_big z))
| rt_tstr s : rt (TStr s)
| rt_bstr s : rt (BStr s)
| rt_arr a : Forall rt a -> rt (Arr a)
| rt_obj o : Forall (fun kv => rt (fst kv) /\ rt (snd kv)) o -> wf_obj o -> rt (Obj o).

(** a rendered value starts with a byte that is neither blank, comment, `]` nor `}` *)
Definition vstart (t : bytes) : Prop :=
  exists c r, t = c :: r /\ is_ws c = false /\ (bz c =? 35) = false /\ (bz c =? 93) = false /\ (bz c =? 125) = false.

Lemma vstart_ws t rest : vstart t -> ws (t ++ rest) = t ++ rest.
Proof. intros (c & r & -> & H1 & H2 & _). unfold ws. cbn [app length ws_tk]. rewrite H1, H2. reflexivity. Qed.

Lemma vstart_digit d r : is_digit d = true -> vstart (d :: r).
Proof.
  intros H. exists d, r. split; [reflexivity|]. unfold is_digit in H. apply andb_prop in H as [H1 H2]. apply Z.leb_le in H1, H2.
  unfold is_ws. cbv zeta. repeat split; repeat (match goal with |- context [?a =? ?b] => destruct (Z.eqb_spec a b); [lia|] end); reflexivity.
Qed.

Lemma vstart_W n v : rt v -> vstart (W (S n) v).
Proof.
  intros H. destruct H as [|b|z|s|s|a _|o _ _].
  - eexists _, _. repeat split; reflexivity.
  - destruct b; eexists _, _; repeat split; reflexivity.
  - unfold W. cbn [write_f]. assert (show_num (int_or_big z) = Z_to_dec z) as -> by (unfold int_or_big; destruct (in_isize z); reflexivity).
    unfold Z_to_dec. destruct (Z.ltb_spec z 0).
    + eexists _, _. repeat split; reflexivity.
    + destruct (nat_digits_spec z ltac:(lia)) as (Hne & Hd & _). destruct (nat_digits z) as [|d ds]; [congruence|].
      cbn [all_digits forallb] in Hd. apply andb_prop in Hd as [Hd _]. apply vstart_digit. exact Hd.
  - eexists _, _. repeat split; reflexivity.
  - eexists _, _. repeat split; reflexivity.
  - rewrite W_arr. eexists _, _. repeat split; reflexivity.
  - rewrite W_obj. eexists _, _. repeat split; reflexivity.
Qed.

Lemma vstart_nonempty t : vstart t -> (1 <= length t)%nat.
Proof. intros (c & r & -> & _). cbn. lia. Qed.

(** ** the loops *)
Section LOOPS.
  Variable fuel : nat.
  Variable n : nat.
  (** what the induction gives for the components *)
  Definition item_ok (x : val) : Prop :=
    vstart (W n x) /\ forall rest, stops rest -> parse fuel (W n x ++ rest) = POk x rest.

  Lemma stops_comma r : stops (chr 44 :: r). Proof. reflexivity. Qed.
  Lemma stops_close r : stops (chr 93 :: r). Proof. reflexivity. Qed.
  Lemma stops_brace r : stops (chr 125 :: r). Proof. reflexivity. Qed.
  Lemma stops_colon r : stops (chr 58 :: r). Proof. reflexivity. Qed.

  Lemma vstart_join_W x l : item_ok x -> vstart (join (map (W n) (x :: l))).
  Proof.
    intros [(c & r & E & H) _]. destruct l as [|y l]; cbn [map join]; rewrite E; [exists c, r; auto|].
    exists c, (r ++ [chr 44] ++ join (W n y :: map (W n) l)). split; [reflexivity|exact H].
  Qed.

  Lemma items_ok : forall l m acc rest, l <> [] -> (length l <= m)%nat -> Forall item_ok l ->
    arr_items (parse fuel) m (join (map (W n) l) ++ chr 93 :: rest) acc = POk (Arr (rev acc ++ l)) rest.
  Proof.
    induction l as [|x l IH]; intros m acc rest Hne Hm Hl; [congruence|]. inversion Hl as [|? ? Hx Hr]; subst.
    destruct m as [|m]; [cbn in Hm; lia|]. destruct l as [|y l].
    - cbn [map join arr_items]. rewrite (proj2 Hx _ (stops_close rest)). rewrite (ws_stop _ _ (stops_close rest)).
      change (bz (chr 93) =? 93) with true. cbn iota. cbn [rev]. reflexivity.
    - change (join (map (W n) (x :: y :: l))) with (W n x ++ [chr 44] ++ join (map (W n) (y :: l))).
      replace ((W n x ++ [chr 44] ++ join (map (W n) (y :: l))) ++ chr 93 :: rest)
        with (W n x ++ chr 44 :: (join (map (W n) (y :: l)) ++ chr 93 :: rest)) by (rewrite <- !app_assoc; reflexivity).
      inversion Hr as [|? ? Hy Hr']; subst.
      set (tail := join (map (W n) (y :: l)) ++ chr 93 :: rest).
      assert (WS : ws tail = tail) by (apply vstart_ws; apply vstart_join_W; exact Hy).
      cbn [arr_items]. rewrite (proj2 Hx (chr 44 :: tail) (stops_comma tail)). rewrite (ws_stop (chr 44) tail (stops_comma tail)).
      change (bz (chr 44) =? 93) with false. change (bz (chr 44) =? 44) with true. cbn iota. rewrite WS.
      assert (NE : exists c r, tail = c :: r).
      { destruct (vstart_join_W y l Hy) as (c & r & E & _). unfold tail. rewrite E. eexists _, _. reflexivity. }
      destruct NE as (c & r & E). rewrite E. cbn iota. rewrite <- E. unfold tail.
      rewrite (IH m (x :: acc) rest ltac:(discriminate) ltac:(cbn [length] in *; lia) Hr). cbn [rev]. rewrite <- app_assoc. reflexivity.
  Qed.
  Definition entry_ok (kv : val * val) : Prop := item_ok (fst kv) /\ item_ok (snd kv).

  Lemma vstart_join_WE kv o : entry_ok kv -> vstart (join (map (WE n) (kv :: o))).
  Proof.
    intros [[(c & r & E & H) _] _]. destruct o as [|kv2 o]; cbn [map join]; unfold WE at 1; rewrite E.
    - eexists c, _. split; [reflexivity|exact H].
    - eexists c, _. split; [reflexivity|exact H].
  Qed.

  Lemma entries_ok : forall o m acc rest, o <> [] -> (length o <= m)%nat -> Forall entry_ok o -> wf_from acc o ->
    obj_entries (parse fuel) m (join (map (WE n) o) ++ chr 125 :: rest) acc = POk (Obj (acc ++ o)) rest.
  Proof.
    induction o as [|[k v] o IH]; intros m acc rest Hne Hm Ho Hwf; [congruence|]. inversion Ho as [|? ? [Hk Hv] Hr]; subst.
    cbn [fst snd] in Hk, Hv. destruct Hwf as [Hins Hwf]. destruct m as [|m]; [cbn in Hm; lia|].
    assert (STEP : forall Y, stops Y -> ws Y = Y ->
              obj_entries (parse fuel) (S m) (WE n (k, v) ++ Y) acc
              = match Y with
                | [] => PErr PExpectCommaOrEnd
                | c3 :: r3 => if bz c3 =? 125 then POk (Obj (acc ++ [(k, v)])) r3
                              else if bz c3 =? 44 then match ws r3 with [] => PErr PExpectValue | s' => obj_entries (parse fuel) m s' (acc ++ [(k, v)]) end
                              else PErr PExpectCommaOrEnd
                end).
    { intros Y HY WY. unfold WE. cbn [fst snd]. rewrite <- !app_assoc. cbn [app].
      set (X := W n v ++ Y). cbn [obj_entries]. rewrite (proj2 Hk (chr 58 :: X) (stops_colon X)). rewrite (ws_stop (chr 58) X (stops_colon X)).
      change (bz (chr 58) =? 58) with true. cbn iota.
      assert (WX : ws X = X) by (apply vstart_ws; exact (proj1 Hv)). rewrite WX.
      destruct (proj1 Hv) as (c & r & E & _). assert (EX : X = c :: (r ++ Y)) by (unfold X; rewrite E; reflexivity).
      rewrite EX. cbn iota. rewrite <- EX. unfold X. rewrite (proj2 Hv Y HY). cbv zeta. rewrite Hins, WY. reflexivity. }
    destruct o as [|kv2 o].
    - cbn [map join]. rewrite (STEP (chr 125 :: rest) (stops_brace rest) (ws_stop _ _ (stops_brace rest))).
      change (bz (chr 125) =? 125) with true. cbn iota. reflexivity.
    - change (join (map (WE n) ((k, v) :: kv2 :: o))) with (WE n (k, v) ++ [chr 44] ++ join (map (WE n) (kv2 :: o))).
      replace ((WE n (k, v) ++ [chr 44] ++ join (map (WE n) (kv2 :: o))) ++ chr 125 :: rest)
        with (WE n (k, v) ++ chr 44 :: (join (map (WE n) (kv2 :: o)) ++ chr 125 :: rest)) by (rewrite <- !app_assoc; reflexivity).
      inversion Hr as [|? ? Hkv2 Hr']; subst.
      set (tail := join (map (WE n) (kv2 :: o)) ++ chr 125 :: rest).
      rewrite (STEP (chr 44 :: tail) (stops_comma tail) (ws_stop _ _ (stops_comma tail))).
      change (bz (chr 44) =? 125) with false. change (bz (chr 44) =? 44) with true. cbn iota.
      assert (WS : ws tail = tail) by (apply vstart_ws; apply vstart_join_WE; exact Hkv2). rewrite WS.
      assert (NE : exists c r, tail = c :: r).
      { destruct (vstart_join_WE kv2 o Hkv2) as (c & r & E & _). unfold tail. rewrite E. eexists _, _. reflexivity. }
      destruct NE as (c & r & E). rewrite E. cbn iota. rewrite <- E. unfold tail.
      rewrite (IH m (acc ++ [(k, v)]) rest ltac:(discriminate) ltac:(cbn [length] in *; lia) Hr Hwf). rewrite <- app_assoc. reflexivity.
  Qed.
End LOOPS.

(** ** lengths and depths *)
Lemma join_length_in ts : forall t, In t ts -> (length t <= length (join ts))%nat.
Proof.
  induction ts as [|x ts IH]; intros t H; [destruct H|]. destruct ts as [|y ts].
  - destruct H as [->|[]]. cbn. lia.
  - change (join (x :: y :: ts)) with (x ++ [chr 44] ++ join (y :: ts)). rewrite !app_length.
    destruct H as [->|H]; [lia|]. specialize (IH t H). lia.
Qed.

Lemma join_length_count ts : (forall t, In t ts -> (1 <= length t)%nat) -> (length ts <= length (join ts))%nat.
Proof.
  induction ts as [|x ts IH]; intros H; [cbn; lia|]. destruct ts as [|y ts].
  - specialize (H x (or_introl eq_refl)). cbn in *. lia.
  - change (join (x :: y :: ts)) with (x ++ [chr 44] ++ join (y :: ts)). rewrite !app_length. cbn [length].
    specialize (IH (fun t Ht => H t (or_intror Ht))). cbn [length] in IH. lia.
Qed.

Lemma depth_in_arr x a : In x a -> (depth x < depth (Arr a))%nat.
Proof.
  intros Hx. cbn [depth]. assert (depth x <= fold_right (fun x m => Nat.max (depth x) m) O a)%nat; [|lia].
  induction a as [|y a IH]; [destruct Hx|]. cbn. destruct Hx as [->|Hx]; [lia|specialize (IH Hx); lia].
Qed.

Lemma depth_in_obj k x o : In (k, x) o -> (depth k < depth (Obj o))%nat /\ (depth x < depth (Obj o))%nat.
Proof.
  intros Hx. cbn [depth].
  assert (Nat.max (depth k) (depth x) <= fold_right (fun kv m => match kv with (k, x) => Nat.max (Nat.max (depth k) (depth x)) m end) O o)%nat; [|lia].
  induction o as [|[k2 y] o IH]; [destruct Hx|]. cbn. destruct Hx as [E|Hx]; [injection E as -> ->; lia|specialize (IH Hx); lia].
Qed.

Lemma write_byte_nonempty c : (1 <= length (write_byte false c))%nat.
Proof. destruct c; cbn; lia. Qed.

Lemma flat_map_write_length s : (length s <= length (flat_map (write_byte false) s))%nat.
Proof. induction s as [|c s IH]; [cbn; lia|]. cbn [flat_map length]. rewrite app_length. pose proof (write_byte_nonempty c). lia. Qed.

(** ** where a number starts *)
Lemma parse_number_start fuel c r : (is_digit c = true \/ bz c = 45) ->
  parse (S fuel) (c :: r) = match parse_num (c :: r) with POk x rest => POk (Num x) rest | PErr e => PErr e end.
Proof.
  intros H. cbn [parse]. cbv zeta.
  assert (R : (48 <= bz c <= 57) \/ bz c = 45).
  { destruct H as [H|H]; [left|right; exact H]. unfold is_digit in H. apply andb_prop in H as [H1 H2]. apply Z.leb_le in H1, H2. lia. }
  destruct (Z.eqb_spec (bz c) 110); [lia|]. destruct (Z.eqb_spec (bz c) 116); [lia|]. destruct (Z.eqb_spec (bz c) 102); [lia|].
  destruct (Z.eqb_spec (bz c) 98); [lia|]. destruct (Z.eqb_spec (bz c) 78); [lia|]. destruct (Z.eqb_spec (bz c) 73); [lia|].
  assert (is_dig (bz c) || (bz c =? 43) || (bz c =? 45) = true) as ->; [|reflexivity].
  destruct R as [R|R]; [|rewrite R; reflexivity]. unfold is_dig. destruct (Z.leb_spec 48 (bz c)); [|lia]. destruct (Z.leb_spec (bz c) 57); [|lia]. reflexivity.
Qed.

(** ** the round trip *)
Lemma roundtrip_f : forall n v, (depth v < n)%nat -> rt v ->
  forall fuel rest, (length (W n v) <= fuel)%nat -> stops rest -> parse fuel (W n v ++ rest) = POk v rest.
Proof.
  induction n as [|n IH]; intros v Hd Hrt fuel rest Hf Hs; [lia|].
  pose proof (vstart_nonempty _ (vstart_W n v Hrt)) as Hne.
  destruct fuel as [|fuel]; [lia|].
  inversion Hrt as [|b|z|s|s|a Ha|o Ho Hwf]; subst.
  - reflexivity.
  - destruct b; reflexivity.
  - unfold W. cbn [write_f]. assert (show_num (int_or_big z) = Z_to_dec z) as E by (unfold int_or_big; destruct (in_isize z); reflexivity).
    rewrite E. assert (ST : exists c r, Z_to_dec z = c :: r /\ (is_digit c = true \/ bz c = 45)).
    { unfold Z_to_dec. destruct (Z.ltb_spec z 0).
      - eexists _, _. split; [reflexivity|right; reflexivity].
      - destruct (nat_digits_spec z ltac:(lia)) as (Hn0 & Hdg & _). destruct (nat_digits z) as [|d ds]; [congruence|].
        cbn [all_digits forallb] in Hdg. apply andb_prop in Hdg as [Hdg _]. eexists _, _. split; [reflexivity|left; exact Hdg]. }
    destruct ST as (c & r & EC & HC). rewrite EC. cbn [app]. rewrite (parse_number_start fuel c (r ++ rest) HC).
    change (c :: r ++ rest) with ((c :: r) ++ rest). rewrite <- EC. rewrite (parse_num_print_rest z rest Hs). reflexivity.
  - pose proof (text_roundtrip s rest) as T. unfold W. cbn [write_f]. unfold write_utf8 in *. cbn [app] in *.
    change (parse (S fuel) (chr 34 :: (flat_map (fun c => if is_special c then write_byte true c else [c]) s ++ [chr 34]) ++ rest))
      with (match parse_string (S (length ((flat_map (fun c => if is_special c then write_byte true c else [c]) s ++ [chr 34]) ++ rest))) false
                    ((flat_map (fun c => if is_special c then write_byte true c else [c]) s ++ [chr 34]) ++ rest) [] with
            | POk b rest' => POk (TStr b) rest' | PErr e => PErr e end).
    rewrite T. reflexivity.
  - unfold W. cbn [write_f]. unfold write_bytes. rewrite <- !app_assoc. cbn [asc of_ascii map app].
    change (chr 34) with (zb 34). set (body := flat_map (write_byte false) s ++ zb 34 :: rest).
    change (parse (S fuel) (zb 98 :: zb 34 :: body))
      with (match parse_string (S (length body)) true body [] with POk b rest' => POk (BStr b) rest' | PErr e => PErr e end).
    unfold body.
    rewrite (bytes_roundtrip_go s (length (flat_map (write_byte false) s ++ zb 34 :: rest)) rest []); [reflexivity|].
    rewrite app_length. pose proof (flat_map_write_length s). lia.
  - (* arrays *)
    rewrite W_arr in *. rewrite <- !app_assoc. cbn [app]. rewrite parse_arr. rewrite app_length in Hf. cbn [length] in Hf. rewrite app_length in Hf. cbn [length] in Hf.
    destruct a as [|x a].
    + cbn [map join app]. rewrite (ws_stop _ _ (stops_close rest)). reflexivity.
    + assert (OK : Forall (item_ok fuel n) (x :: a)).
      { rewrite Forall_forall in *. intros y Hy. pose proof (depth_in_arr y _ Hy) as Dy. specialize (Ha y Hy).
        assert (Hn : exists n', n = S n') by (destruct n; [lia|eexists; reflexivity]). destruct Hn as (n' & ->).
        split; [apply vstart_W; exact Ha|]. intros rest' Hs'. apply IH; [lia|exact Ha| |exact Hs'].
        pose proof (join_length_in (map (W (S n')) (x :: a)) (W (S n') y) (in_map _ _ _ Hy)). lia. }
      assert (CNT : (length (x :: a) <= fuel)%nat).
      { pose proof (join_length_count (map (W n) (x :: a))) as C. rewrite map_length in C.
        assert (forall t, In t (map (W n) (x :: a)) -> (1 <= length t)%nat).
        { intros t Ht. apply in_map_iff in Ht as (y & <- & Hy). rewrite Forall_forall in OK. apply vstart_nonempty. apply (OK y Hy). }
        specialize (C H). lia. }
      inversion OK as [|? ? Hx _]; subst.
      rewrite (vstart_ws _ _ (vstart_join_W fuel n x a Hx)).
      destruct (vstart_join_W fuel n x a Hx) as (c & r & E & _ & _ & N93 & _). rewrite E. cbn [app]. rewrite N93.
      change (c :: r ++ chr 93 :: rest) with ((c :: r) ++ chr 93 :: rest). rewrite <- E.
      rewrite (items_ok fuel n (x :: a) fuel [] rest ltac:(discriminate) CNT OK). reflexivity.
  - (* objects *)
    rewrite W_obj in *. rewrite <- !app_assoc. cbn [app]. rewrite parse_obj. rewrite app_length in Hf. cbn [length] in Hf. rewrite app_length in Hf. cbn [length] in Hf.
    destruct o as [|kv o].
    + cbn [map join app]. rewrite (ws_stop _ _ (stops_brace rest)). reflexivity.
    + assert (OK : Forall (entry_ok fuel n) (kv :: o)).
      { rewrite Forall_forall in *. intros [k y] Hy. destruct (depth_in_obj k y _ Hy) as [Dk Dy]. destruct (Ho _ Hy) as [Rk Ry]. cbn [fst snd] in Rk, Ry.
        assert (Hn : exists n', n = S n') by (destruct n; [lia|eexists; reflexivity]). destruct Hn as (n' & ->).
        pose proof (join_length_in (map (WE (S n')) (kv :: o)) (WE (S n') (k, y)) (in_map _ _ _ Hy)) as L.
        unfold WE at 1 in L. cbn [fst snd] in L. rewrite !app_length in L. cbn [length] in L.
        split; cbn [fst snd]; (split; [apply vstart_W; assumption|]); intros rest' Hs'; apply IH; try assumption; lia. }
      assert (CNT : (length (kv :: o) <= fuel)%nat).
      { pose proof (join_length_count (map (WE n) (kv :: o))) as C. rewrite map_length in C.
        assert (forall t, In t (map (WE n) (kv :: o)) -> (1 <= length t)%nat).
        { intros t Ht. apply in_map_iff in Ht as (y & <- & Hy). rewrite Forall_forall in OK. destruct (OK y Hy) as [[V _] _].
          unfold WE. rewrite app_length. pose proof (vstart_nonempty _ V). lia. }
        specialize (C H). lia. }
      inversion OK as [|? ? Hx _]; subst.
      rewrite (vstart_ws _ _ (vstart_join_WE fuel n kv o Hx)).
      destruct (vstart_join_WE fuel n kv o Hx) as (c & r & E & _ & _ & _ & N125). rewrite E. cbn [app]. rewrite N125.
      change (c :: r ++ chr 125 :: rest) with ((c :: r) ++ chr 125 :: rest). rewrite <- E.
      rewrite (entries_ok fuel n (kv :: o) fuel [] rest ltac:(discriminate) CNT OK Hwf). reflexivity.
Qed.

(** the statement for a whole text *)
Theorem json_value_roundtrip v : rt v -> parse_single (to_json v) = POk v [].
Proof.
  intros H. unfold parse_single, to_json, write_val. rewrite write_level.
  pose proof (vstart_W (depth v) v H) as V. pose proof (vstart_ws _ [] V) as WS. rewrite app_nil_r in WS. rewrite WS.
  destruct V as (c & r & E & _). rewrite E. rewrite <- E.
  pose proof (roundtrip_f (S (depth v)) v ltac:(lia) H (S (length (W (S (depth v)) v))) [] ltac:(lia) I) as R.
  rewrite app_nil_r in R. rewrite R. reflexivity.
Qed.

(** ... and inside any text, in front of what may follow a value *)
Theorem json_value_roundtrip_rest v rest : rt v -> stops rest ->
  parse (S (length (to_json v))) (to_json v ++ rest) = POk v rest.
Proof.
  intros H Hs. unfold to_json, write_val. rewrite write_level. apply roundtrip_f; [lia|exact H|lia|exact Hs].
Qed.

(** objects whose keys are pairwise different (by [==]) are such maps *)
Lemma insert_fresh acc k v : (forall kv, In kv acc -> val_eqb k (fst kv) = false) -> insert acc k v = acc ++ [(k, v)].
Proof.
  induction acc as [|[k' x'] acc IH]; intros H; [reflexivity|]. cbn [insert].
  pose proof (H (k', x') (or_introl eq_refl)) as E. cbn [fst] in E. rewrite E. rewrite andb_false_r. cbn [app]. f_equal. apply IH. intros kv Hkv. apply H. right. exact Hkv.
Qed.

Lemma wf_distinct o : forall acc,
  (forall pre k v post, o = pre ++ (k, v) :: post -> forall kv, In kv (acc ++ pre) -> val_eqb k (fst kv) = false) -> wf_from acc o.
Proof.
  induction o as [|[k v] o IH]; intros acc H; [exact I|]. cbn [wf_from]. split.
  - apply insert_fresh. intros kv Hkv. apply (H [] k v o eq_refl). rewrite app_nil_r. exact Hkv.
  - apply IH. intros pre k2 v2 post E kv Hkv. apply (H ((k, v) :: pre) k2 v2 post); [rewrite E; reflexivity|].
    rewrite <- app_assoc in Hkv. exact Hkv.
Qed.

(** the class is inhabited by nested values with keys that are no strings *)
Example rt_ex :
  let v := Obj [(TStr (of_ascii [97]), Arr [Num (Int 1); Null; BStr (of_ascii [255; 0])]);
                (Num (Int 2), TStr (of_ascii [34; 92; 10]));
                (Arr [], Obj [(Bool true, Num (Big (2 ^ 70)))])] in
  rt v /\ parse_single (to_json v) = POk v [].
Proof.
  cbv zeta. assert (R : rt (Obj [(TStr (of_ascii [97]), Arr [Num (Int 1); Null; BStr (of_ascii [255; 0])]);
                (Num (Int 2), TStr (of_ascii [34; 92; 10]));
                (Arr [], Obj [(Bool true, Num (Big (2 ^ 70)))])])).
  { apply rt_obj.
    - repeat constructor; cbn [fst snd]; try (exact (rt_int 1)); try (exact (rt_int 2)); try (exact (rt_int (2 ^ 70))).
    - vm_compute. auto. }
  split; [exact R|]. apply json_value_roundtrip. exact R.
Qed.
