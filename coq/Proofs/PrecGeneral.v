(** Precedence climbing for chains of any length: the tree that [climb_plain] builds consumes the whole chain and every
    node respects the table - the operator at the root of a left operand binds tighter than its parent (or equally, on a
    left-associative level), the one at the root of a right operand binds tighter (or equally, on a right-associative
    level).  Together with [climb_preserves_sequence] this determines the tree: it is the one obtained by inserting the
    parentheses that the table implies. *)
From Coq Require Import ZArith Bool List Lia Arith.
From JaqV Require Import Val.Err Parse.PrecClimb.
Import ListNotations.

(** associativity is a property of the level *)
Lemma assoc_by_level a b : prec a = prec b -> right_assoc a = right_assoc b.
Proof.
  destruct a as [| |p| | |m| | | | |c|m]; destruct b as [| |p'| | |m'| | | | |c'|m'];
    try destruct c; try destruct c'; try destruct m; try destruct m'; cbn; intros H; try reflexivity; discriminate.
Qed.

Definition tighter_left (o' o : bop) : Prop := prec o < prec o' \/ (prec o' = prec o /\ right_assoc o = false).
Definition tighter_right (o' o : bop) : Prop := prec o < prec o' \/ (prec o' = prec o /\ right_assoc o = true).

Definition takes (o next : bop) : bool := (prec o <? prec next) || (right_assoc o && (prec next =? prec o)).

Lemma takes_true o next : takes o next = true -> tighter_right next o.
Proof.
  unfold takes, tighter_right. intros H. apply orb_true_iff in H as [H|H].
  - left. apply Nat.ltb_lt. exact H.
  - apply andb_true_iff in H as [Ha He]. right. split; [apply Nat.eqb_eq; exact He | exact Ha].
Qed.

Lemma takes_false o next : takes o next = false -> tighter_left o next.
Proof.
  unfold takes, tighter_left. intros H. apply orb_false_iff in H as [H1 H2]. apply Nat.ltb_ge in H1.
  destruct (Nat.eq_dec (prec next) (prec o)) as [E|E]; [|left; lia].
  right. split; [symmetry; exact E|]. rewrite (assoc_by_level next o E).
  apply andb_false_iff in H2 as [H2|H2]; [exact H2|]. apply Nat.eqb_neq in H2. contradiction.
Qed.

Section Leaves.
  Variable P : expr -> Prop.       (* the operands of the chain: the leaves of the tree *)

  Inductive side (R : bop -> bop -> Prop) (o : bop) : expr -> Prop :=
  | side_leaf e : P e -> side R o e
  | side_bin l o' r : R o' o -> side R o (Bin l o' r).

  Inductive okt : expr -> Prop :=
  | okt_leaf e : P e -> okt e
  | okt_bin l o r : okt l -> okt r -> side tighter_left o l -> side tighter_right o r -> okt (Bin l o r).

  Definition leaves (c : chain) : Prop := Forall (fun ot => P (snd ot)) c.

  Definition head_ok (x : expr) (c : chain) (m : nat) : Prop :=
    match c with (o, _) :: _ => m <= prec o -> side tighter_left o x | [] => True end.

  Definition stops_below (c : chain) (m : nat) : Prop :=
    match c with (o, _) :: _ => prec o < m | [] => True end.

  Definition root_at_least (m : nat) (t : expr) : Prop := exists l o r, t = Bin l o r /\ m <= prec o.

  Lemma climb_spec : forall fuel,
    (forall x rest m t rest', climb1 fuel x rest m = (t, rest') -> 2 * length rest < fuel ->
       okt x -> leaves rest -> head_ok x rest m ->
       okt t /\ leaves rest' /\ stops_below rest' m
       /\ ((t = x /\ rest' = rest) \/ (length rest' < length rest /\ root_at_least m t)))
    /\
    (forall o rhs rest r rest', inner fuel o rhs rest = (r, rest') -> 2 * length rest + 1 < fuel ->
       okt rhs -> side tighter_right o rhs -> leaves rest ->
       (match rest with (nx, _) :: _ => side tighter_left nx rhs | [] => True end) ->
       okt r /\ side tighter_right o r /\ leaves rest' /\ length rest' <= length rest
       /\ (match rest' with (nx, _) :: _ => takes o nx = false | [] => True end)).
  Proof.
    induction fuel as [|fuel [IH1 IH2]]; [split; intros; lia|]. split.
    - intros x rest m t rest' H Hf Hx Hl Hh. cbn [climb1] in H.
      destruct rest as [|[o rhs] rest0].
      { injection H as <- <-. repeat split; auto. }
      destruct (m <=? prec o) eqn:Em.
      2:{ injection H as <- <-. apply Nat.leb_gt in Em. repeat split; auto. }
      apply Nat.leb_le in Em. cbn [length] in Hf.
      destruct (inner fuel o rhs rest0) as [rhs' rest1] eqn:Ei.
      inversion Hl as [|? ? Hrhs Hl0]; subst. cbn [snd] in Hrhs.
      destruct (IH2 o rhs rest0 rhs' rest1 Ei) as (Hok' & Hside' & Hl1 & Hlen1 & Hstop1);
        [lia | apply okt_leaf; exact Hrhs | apply side_leaf; exact Hrhs | exact Hl0 | destruct rest0 as [|[nx ?] ?]; [exact I | apply side_leaf; exact Hrhs] |].
      assert (Hbin : okt (Bin x o rhs')) by (apply okt_bin; [exact Hx | exact Hok' | apply Hh, Em | exact Hside']).
      destruct (IH1 (Bin x o rhs') rest1 m t rest' H) as (Hokt & Hlr & Hst & Hcase); [lia | exact Hbin | exact Hl1 | |].
      { destruct rest1 as [|[nx e] rest2]; [exact I|]. intros _. apply side_bin. apply takes_false. exact Hstop1. }
      repeat split; auto. right. cbn [length]. destruct Hcase as [[-> ->]|[Hlt Hroot]].
      + split; [lia|]. exists x, o, rhs'. split; [reflexivity | exact Em].
      + split; [lia | exact Hroot].
    - intros o rhs rest r rest' H Hf Hrhs Hside Hl Hh. cbn [inner] in H.
      destruct rest as [|[next e] rest0].
      { injection H as <- <-. repeat split; auto. }
      fold (takes o next) in H. destruct (takes o next) eqn:Et.
      2:{ injection H as <- <-. repeat split; auto. }
      destruct (climb1 fuel rhs ((next, e) :: rest0) (prec next)) as [rhs' rest1] eqn:Ec.
      destruct (IH1 rhs ((next, e) :: rest0) (prec next) rhs' rest1 Ec) as (Hok' & Hl1 & Hst1 & Hcase);
        [lia | exact Hrhs | exact Hl | intros _; exact Hh |].
      destruct Hcase as [[-> ->]|[Hlt (l2 & o2 & r2 & -> & Hge)]]; [cbn in Hst1; lia|].
      destruct (IH2 o (Bin l2 o2 r2) rest1 r rest' H) as (Hokr & Hsr & Hlr & Hlenr & Hstopr); [lia | exact Hok' | | exact Hl1 | |].
      + apply side_bin. apply takes_true in Et. unfold tighter_right in *. destruct Et as [Et|[Ee Ea]]; [left; lia|].
        destruct (Nat.eq_dec (prec o2) (prec o)) as [E2|E2]; [right; split; assumption | left; lia].
      + destruct rest1 as [|[nx e1] rest2]; [exact I|]. cbn in Hst1. apply side_bin. left. lia.
      + repeat split; auto. lia.
  Qed.
End Leaves.

(** the whole chain is consumed and the tree respects the table at every node, for chains of any length *)
Theorem climb_respects_table x rest :
  let P e := e = x \/ In e (map snd rest) in
  climb1 (S (2 * length rest)) x rest 0 = (climb_plain x rest, []) /\ okt P (climb_plain x rest).
Proof.
  cbn zeta. unfold climb_plain.
  destruct (climb1 (S (2 * length rest)) x rest 0) as [t rest'] eqn:E.
  set (P := fun e => e = x \/ In e (map snd rest)).
  destruct (proj1 (climb_spec P (S (2 * length rest))) x rest 0 t rest' E) as (Hok & _ & Hst & _).
  - lia.
  - apply okt_leaf. left. reflexivity.
  - apply Forall_forall. intros [o e] Hin. right. apply in_map_iff. exists (o, e). split; [reflexivity | exact Hin].
  - destruct rest as [|[o e] r]; [exact I|]. intros _. apply side_leaf. left. reflexivity.
  - cbn [fst]. split; [|exact Hok]. destruct rest' as [|[o e] r]; [reflexivity|]. cbn in Hst. lia.
Qed.

(** non-vacuity: 1 + 2 * 3 - 4 | 5 groups as ((1 + (2 * 3)) - 4) | 5 *)
Example respects_example :
  climb_plain (Atom 1) [(OMath Add, Atom 2); (OMath Mul, Atom 3); (OMath Sub, Atom 4); (OPipe, Atom 5)]
  = Bin (Bin (Bin (Atom 1) (OMath Add) (Bin (Atom 2) (OMath Mul) (Atom 3))) (OMath Sub) (Atom 4)) OPipe (Atom 5).
Proof. reflexivity. Qed.

(** ** the tree is determined by the table *)
Fixpoint seq (e : expr) : list (bop + nat) :=
  match e with
  | Atom n => [inr n]
  | Bin l o r => seq l ++ inl o :: seq r
  end.

Fixpoint chain_seq (c : chain) : list (bop + nat) :=
  match c with
  | [] => []
  | (o, e) :: r => inl o :: seq e ++ chain_seq r
  end.

Lemma climb_seq fuel :
  (forall x rest m, let '(t, rest') := climb1 fuel x rest m in seq t ++ chain_seq rest' = seq x ++ chain_seq rest) /\
  (forall o rhs rest, let '(r, rest') := inner fuel o rhs rest in seq r ++ chain_seq rest' = seq rhs ++ chain_seq rest).
Proof.
  induction fuel as [|fuel [IH1 IH2]]; [split; intros; reflexivity|]. split.
  - intros x rest m. cbn [climb1]. destruct rest as [|[o rhs] rest0]; [reflexivity|].
    destruct (m <=? prec o); [|reflexivity].
    specialize (IH2 o rhs rest0). destruct (inner fuel o rhs rest0) as [rhs' rest1].
    specialize (IH1 (Bin x o rhs') rest1 m). destruct (climb1 fuel (Bin x o rhs') rest1 m) as [t rest'].
    rewrite IH1. cbn [seq chain_seq]. rewrite <- app_assoc. cbn [app]. rewrite IH2. reflexivity.
  - intros o rhs rest. cbn [inner]. destruct rest as [|[next e] rest0]; [reflexivity|].
    destruct ((prec o <? prec next) || (right_assoc o && (prec next =? prec o))); [|reflexivity].
    pose proof (IH1 rhs ((next, e) :: rest0) (prec next)) as H1.
    destruct (climb1 fuel rhs ((next, e) :: rest0) (prec next)) as [rhs' rest1].
    pose proof (IH2 o rhs' rest1) as H2. destruct (inner fuel o rhs' rest1) as [r rest'].
    rewrite H2. exact H1.
Qed.

(** the tree reads back, in order, as exactly the operands and operators of the chain *)
Theorem climb_plain_seq x rest : seq (climb_plain x rest) = seq x ++ chain_seq rest.
Proof.
  destruct (climb_respects_table x rest) as [E _]. cbn zeta in E.
  pose proof (proj1 (climb_seq (S (2 * length rest))) x rest 0) as H. rewrite E in H. cbn [chain_seq] in H.
  rewrite app_nil_r in H. exact H.
Qed.

Definition atom (e : expr) : Prop := exists n, e = Atom n.

Lemma side_mono (P Q : expr -> Prop) R o e : (forall x, P x -> Q x) -> side P R o e -> side Q R o e.
Proof. intros H [x Hx | l o' r Hr]; [apply side_leaf, H, Hx | apply side_bin, Hr]. Qed.

Lemma okt_mono (P Q : expr -> Prop) e : (forall x, P x -> Q x) -> okt P e -> okt Q e.
Proof.
  intros H Hok. induction Hok as [x Hx | l o r _ IHl _ IHr Hsl Hsr]; [apply okt_leaf, H, Hx|].
  apply okt_bin; [exact IHl | exact IHr | eapply side_mono; eassumption | eapply side_mono; eassumption].
Qed.

Definition ops_ge (m : nat) (l : list (bop + nat)) : Prop :=
  forall o, In (inl o) l -> m <= prec o.

Lemma okt_bin_inv l o r : okt atom (Bin l o r) -> okt atom l /\ okt atom r /\ side atom tighter_left o l /\ side atom tighter_right o r.
Proof. intros H. inversion H as [e [n Hn] | ? ? ? Hl Hr Hsl Hsr]; subst; [discriminate | auto]. Qed.

Lemma no_op_in_atom e o : atom e -> ~ In (inl o) (seq e).
Proof. intros [n ->] [H|[]]. discriminate. Qed.

(** every operator inside a tree binds at least as tightly as the one at its root *)
Lemma okt_ops_ge t : okt atom t -> forall l o r, t = Bin l o r -> ops_ge (prec o) (seq t).
Proof.
  intros Hok. induction Hok as [x Hx | l o r Hl IHl Hr IHr Hsl Hsr]; intros l0 o0 r0 E.
  { destruct Hx as [n ->]. discriminate. }
  injection E as -> -> ->. intros o' Hin. cbn [seq] in Hin. apply in_app_or in Hin as [Hin|[Hin|Hin]].
  - destruct Hsl as [x Hx | l1 o1 r1 Ht]; [exfalso; exact (no_op_in_atom _ _ Hx Hin)|].
    specialize (IHl _ _ _ eq_refl o' Hin). unfold tighter_left in Ht. lia.
  - injection Hin as ->. lia.
  - destruct Hsr as [x Hx | l1 o1 r1 Ht]; [exfalso; exact (no_op_in_atom _ _ Hx Hin)|].
    specialize (IHr _ _ _ eq_refl o' Hin). unfold tighter_right in Ht. lia.
Qed.

Lemma right_strict l o r o' : okt atom (Bin l o r) -> right_assoc o = false -> In (inl o') (seq r) -> prec o < prec o'.
Proof.
  intros H Ha Hin. destruct (okt_bin_inv _ _ _ H) as (_ & Hr & _ & Hsr).
  destruct Hsr as [x Hx | l1 o1 r1 Ht]; [exfalso; exact (no_op_in_atom _ _ Hx Hin)|].
  pose proof (okt_ops_ge _ Hr _ _ _ eq_refl o' Hin). unfold tighter_right in Ht. destruct Ht as [Ht|[_ Ht]]; [lia | congruence].
Qed.

Lemma left_strict l o r o' : okt atom (Bin l o r) -> right_assoc o = true -> In (inl o') (seq l) -> prec o < prec o'.
Proof.
  intros H Ha Hin. destruct (okt_bin_inv _ _ _ H) as (Hl & _ & Hsl & _).
  destruct Hsl as [x Hx | l1 o1 r1 Ht]; [exfalso; exact (no_op_in_atom _ _ Hx Hin)|].
  pose proof (okt_ops_ge _ Hl _ _ _ eq_refl o' Hin). unfold tighter_left in Ht. destruct Ht as [Ht|[_ Ht]]; [lia | congruence].
Qed.

Lemma left_ge l o r o' : okt atom (Bin l o r) -> In (inl o') (seq l) -> prec o <= prec o'.
Proof. intros H Hin. apply (okt_ops_ge _ H _ _ _ eq_refl). cbn [seq]. apply in_or_app. left. exact Hin. Qed.

Lemma right_ge l o r o' : okt atom (Bin l o r) -> In (inl o') (seq r) -> prec o <= prec o'.
Proof. intros H Hin. apply (okt_ops_ge _ H _ _ _ eq_refl). cbn [seq]. apply in_or_app. right. right. exact Hin. Qed.

Lemma split_earlier {A} (a : list A) x b : forall c y d, a ++ x :: b = c ++ y :: d -> length a < length c ->
  exists w, c = a ++ x :: w /\ b = w ++ y :: d.
Proof.
  induction a as [|h a IH]; intros c y d E Hlen.
  - destruct c as [|h' c]; [cbn in Hlen; lia|]. cbn in E. injection E as -> ->. exists c. split; reflexivity.
  - destruct c as [|h' c]; [cbn in Hlen; lia|]. cbn in E. injection E as -> E. cbn in Hlen.
    destruct (IH c y d E) as [w [-> ->]]; [lia|]. exists w. split; reflexivity.
Qed.

Lemma seq_nonempty e : seq e <> [].
Proof. destruct e; cbn; [discriminate|]. intros H. apply app_eq_nil in H as [_ H]. discriminate. Qed.

Lemma crossing_impossible l1 o1 r1 l2 o2 r2 w :
  okt atom (Bin l1 o1 r1) -> okt atom (Bin l2 o2 r2) -> seq l2 = seq l1 ++ inl o1 :: w -> seq r1 = w ++ inl o2 :: seq r2 -> False.
Proof.
  intros H1 H2 El Er.
  assert (In1 : In (inl o1) (seq l2)) by (rewrite El; apply in_or_app; right; left; reflexivity).
  assert (In2 : In (inl o2) (seq r1)) by (rewrite Er; apply in_or_app; right; left; reflexivity).
  pose proof (left_ge _ _ _ _ H2 In1) as Ha. pose proof (right_ge _ _ _ _ H1 In2) as Hb.
  assert (Ep : prec o1 = prec o2) by lia. pose proof (assoc_by_level _ _ Ep) as Eas.
  destruct (right_assoc o1) eqn:E1.
  - pose proof (left_strict _ _ _ _ H2 (eq_sym Eas) In1). lia.
  - pose proof (right_strict _ _ _ _ H1 E1 In2). lia.
Qed.

(** two trees over atoms that respect the table and read as the same sequence are the same tree *)
Theorem table_tree_unique : forall t1 t2, okt atom t1 -> okt atom t2 -> seq t1 = seq t2 -> t1 = t2.
Proof.
  induction t1 as [n|l1 IHl o1 r1 IHr]; intros t2 H1 H2 E.
  - destruct t2 as [m|l2 o2 r2]; cbn in E; [congruence|]. exfalso.
    destruct (seq l2) as [|h t] eqn:El; [exact (seq_nonempty _ El)|]. cbn in E. injection E as _ E.
    destruct t; discriminate.
  - destruct t2 as [m|l2 o2 r2].
    { exfalso. cbn in E. destruct (seq l1) as [|h t] eqn:El; [exact (seq_nonempty _ El)|]. cbn in E. injection E as _ E.
      destruct t; discriminate. }
    cbn [seq] in E.
    destruct (okt_bin_inv _ _ _ H1) as (Hl1 & Hr1 & _ & _). destruct (okt_bin_inv _ _ _ H2) as (Hl2 & Hr2 & _ & _).
    destruct (Nat.lt_trichotomy (length (seq l1)) (length (seq l2))) as [Hlt|[Heq|Hgt]].
    + exfalso. destruct (split_earlier _ _ _ _ _ _ E Hlt) as [w [El Er]]. exact (crossing_impossible _ _ _ _ _ _ _ H1 H2 El Er).
    + destruct (app_eq_app _ _ _ _ E) as [w [[Ea Eb]|[Ea Eb]]];
        (assert (w = []) as -> by (apply (f_equal (@length _)) in Ea; rewrite app_length in Ea; destruct w; [reflexivity | cbn in Ea; lia]));
        rewrite app_nil_r in Ea; cbn [app] in Eb; injection Eb as Eo Er.
      * subst o2. rewrite (IHl l2 Hl1 Hl2 ltac:(congruence)), (IHr r2 Hr1 Hr2 ltac:(congruence)). reflexivity.
      * subst o2. rewrite (IHl l2 Hl1 Hl2 ltac:(congruence)), (IHr r2 Hr1 Hr2 ltac:(congruence)). reflexivity.
    + exfalso. symmetry in E. destruct (split_earlier _ _ _ _ _ _ E Hgt) as [w [El Er]].
      exact (crossing_impossible _ _ _ _ _ _ _ H2 H1 El Er).
Qed.

(** consequence: any fully parenthesised reading of a chain of atoms that respects the table is the tree that the parser
    builds - inserting the parentheses that the table implies, or removing them, never changes the program *)
Theorem climb_is_the_table_tree : forall x rest t, atom x -> Forall (fun ot => atom (snd ot)) rest ->
  okt atom t -> seq t = seq x ++ chain_seq rest -> climb_plain x rest = t.
Proof.
  intros x rest t Hx Hrest Ht Hs. apply table_tree_unique; [|exact Ht|rewrite climb_plain_seq; symmetry; exact Hs].
  destruct (climb_respects_table x rest) as [_ Hok]. cbn zeta in Hok. eapply okt_mono; [|exact Hok].
  intros e [->|Hin]; [exact Hx|]. apply in_map_iff in Hin as [[o e'] [<- Hin]].
  exact (proj1 (Forall_forall _ _) Hrest _ Hin).
Qed.
