(** The stable insertion sort of the model ([Val.sort_by], the contract of Rust's stable sorts): for every comparison
    that is a total preorder the result is sorted, and elements that compare equal keep their order. *)
From Coq Require Import List ZArith Bool Lia Sorting.Sorted Sorting.Permutation.
From JaqV Require Import Val.Num Val.Val Proofs.StreamLaws.
Import ListNotations.

Section Sort.
  Variable A : Type.
  Variable c : A -> A -> comparison.

  Definition le (a b : A) : Prop := c a b <> Gt.

  (** what "total preorder" means for a three-way comparison *)
  Record total_preorder : Prop := {
    tp_total : forall a b, c a b = Gt -> le b a;
    tp_trans : forall a b d, le a b -> le b d -> le a d }.

  Hypothesis TP : total_preorder.

  Lemma insert_sorted a l : StronglySorted le l -> StronglySorted le (insert_by c a l).
  Proof.
    induction l as [|b r IH]; intros Hs; cbn [insert_by].
    - constructor; constructor.
    - inversion Hs as [|? ? Hr Hb]; subst. destruct (c a b) eqn:E.
      + constructor; [exact Hs|]. constructor; [unfold le; congruence|].
        eapply Forall_impl; [|exact Hb]. intros x Hx. eapply (tp_trans TP); [|exact Hx]. unfold le. congruence.
      + constructor; [exact Hs|]. constructor; [unfold le; congruence|].
        eapply Forall_impl; [|exact Hb]. intros x Hx. eapply (tp_trans TP); [|exact Hx]. unfold le. congruence.
      + constructor; [apply IH; exact Hr|].
        assert (Hba : le b a) by (apply (tp_total TP); exact E).
        assert (P : Permutation (a :: r) (insert_by c a r)).
        { clear. induction r as [|x r IH]; cbn; [apply Permutation_refl|]. destruct (c a x); try apply Permutation_refl.
          eapply Permutation_trans; [apply perm_swap|]. apply perm_skip. exact IH. }
        eapply Permutation_Forall; [exact P|]. constructor; assumption.
  Qed.

  Theorem sort_sorted l : StronglySorted le (sort_by c l).
  Proof. induction l as [|a l IH]; cbn; [constructor|]. apply insert_sorted. exact IH. Qed.

  (** ** stability: the elements of one equivalence class come out in the order they came in *)
  Hypothesis eq_congr : forall a b, c a b = Eq -> forall z, c z a = c z b.
  Hypothesis eq_sym : forall a b, c a b = Eq -> c b a = Eq.

  Definition same (x y : A) : bool := match c x y with Eq => true | _ => false end.

  Lemma insert_filter x a l : StronglySorted le l ->
    filter (same x) (insert_by c a l) = filter (same x) (a :: l).
  Proof.
    induction l as [|b r IH]; intros Hs; [reflexivity|]. cbn [insert_by]. inversion Hs as [|? ? Hr Hb]; subst.
    destruct (c a b) eqn:E; try reflexivity.
    (* a > b: a moves behind b; if both are in the class of x this would swap them - impossible since then a = b *)
    cbn [filter]. rewrite (IH Hr). cbn [filter].
    destruct (same x a) eqn:Sa, (same x b) eqn:Sb; try reflexivity.
    exfalso. unfold same in Sa, Sb. destruct (c x a) eqn:Ea; try discriminate. destruct (c x b) eqn:Eb; try discriminate.
    (* c x a = Eq and c x b = Eq give c a b = c a x = Eq, but a > b *)
    pose proof (eq_congr x b Eb a) as H1. pose proof (eq_sym x a Ea) as H2. congruence.
  Qed.

  Theorem sort_stable x l : filter (same x) (sort_by c l) = filter (same x) l.
  Proof.
    induction l as [|a l IH]; [reflexivity|]. cbn [sort_by fold_right]. fold (sort_by c l).
    rewrite insert_filter by apply sort_sorted. cbn [filter]. rewrite IH. reflexivity.
  Qed.
End Sort.

(** the order of integers is such a comparison: arrays of integers are sorted numerically and stably *)
Lemma z_total_preorder : total_preorder Z Z.compare.
Proof.
  split.
  - intros a b H. unfold le. rewrite Z.compare_antisym, H. discriminate.
  - unfold le. intros a b d H1 H2. rewrite Z.compare_gt_iff in *. lia.
Qed.

Theorem sort_integers_sorted l : StronglySorted (fun a b => (a <= b)%Z) (sort_by Z.compare l).
Proof.
  pose proof (sort_sorted Z Z.compare z_total_preorder l) as H.
  induction H as [|a r Hr IH Ha]; constructor; [exact IH|].
  eapply Forall_impl; [|exact Ha]. intros x Hx. unfold le in Hx. rewrite Z.compare_gt_iff in Hx. lia.
Qed.

Lemma insert_by_map {A B} (f : A -> B) (c : B -> B -> comparison) (c' : A -> A -> comparison) :
  (forall a b, c (f a) (f b) = c' a b) -> forall a l, insert_by c (f a) (map f l) = map f (insert_by c' a l).
Proof.
  intros H a l. induction l as [|b r IH]; [reflexivity|]. cbn [map insert_by]. rewrite H.
  destruct (c' a b); cbn [map]; try reflexivity. rewrite IH. reflexivity.
Qed.

Lemma sort_by_map {A B} (f : A -> B) (c : B -> B -> comparison) (c' : A -> A -> comparison) :
  (forall a b, c (f a) (f b) = c' a b) -> forall l, sort_by c (map f l) = map f (sort_by c' l).
Proof.
  intros H l. induction l as [|a l IH]; [reflexivity|]. cbn [map sort_by fold_right]. fold (sort_by c (map f l)) (sort_by c' l).
  rewrite IH. apply insert_by_map. exact H.
Qed.

(** [sort] on an array of integers (whatever their size) is the numeric, stable sort *)
Theorem sort_integer_array l :
  sort_by val_cmp (map vint l) = map vint (sort_by Z.compare l)
  /\ StronglySorted (fun a b => (a <= b)%Z) (sort_by Z.compare l).
Proof. split; [apply sort_by_map; apply val_cmp_int | apply sort_integers_sorted]. Qed.
