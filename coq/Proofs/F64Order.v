(** Order facts about [float_cmp] on bit patterns. *)
From Coq Require Import ZArith Bool Lia.
From JaqV Require Import Base.F64.
Local Open Scope Z_scope.

(** key with both zeros identified *)
Definition nkey (b : Z) : Z := if is_zero b then 0 else total_key b.

Definition nonan (b : Z) : Prop := valid_bits b = true /\ is_nan b = false.

Lemma valid_bits_range b : valid_bits b = true -> 0 <= b < two64.
Proof. unfold valid_bits. intros H. apply andb_prop in H. destruct H as [H1 H2]. lia. Qed.

Lemma cmp_eq_of a b c d :
  (a < b <-> c < d) -> (a = b <-> c = d) -> Z.compare a b = Z.compare c d.
Proof.
  intros H1 H2. destruct (Z.compare_spec a b), (Z.compare_spec c d); try reflexivity; lia.
Qed.

Lemma float_cmp_nkey l r : nonan l -> nonan r -> float_cmp l r = Z.compare (nkey l) (nkey r).
Proof.
  intros [Hl Nl] [Hr Nr]. apply valid_bits_range in Hl. apply valid_bits_range in Hr.
  unfold float_cmp, nkey. rewrite Nl, Nr.
  unfold is_zero, pos_zero, neg_zero, total_key.
  assert (T63 : two63 = 9223372036854775808) by reflexivity.
  assert (T64 : two64 = 18446744073709551616) by reflexivity.
  (* keep the large numerals away from unification and lia's preprocessing *)
  generalize dependent two63. generalize dependent two64. intros t64 Hl Hr T64 t63 T63.
  destruct (Z.eqb_spec l 0) as [L0|L0]; destruct (Z.eqb_spec l t63) as [L1|L1];
  destruct (Z.eqb_spec r 0) as [R0|R0]; destruct (Z.eqb_spec r t63) as [R1|R1]; cbn [orb andb];
  destruct (Z.ltb_spec l t63) as [L2|L2]; destruct (Z.ltb_spec r t63) as [R2|R2].
  all: try (exfalso; lia).
  all: try (apply cmp_eq_of; lia).
  all: try (change Eq with (0 ?= 0); apply cmp_eq_of; lia).
Qed.

Lemma float_cmp_refl b : nonan b -> float_cmp b b = Eq.
Proof. intros H. rewrite float_cmp_nkey by assumption. apply Z.compare_refl. Qed.

Lemma float_cmp_antisym l r : nonan l -> nonan r -> float_cmp r l = CompOpp (float_cmp l r).
Proof. intros Hl Hr. rewrite !float_cmp_nkey by assumption. apply Z.compare_antisym. Qed.

Lemma float_cmp_trans_le a b c : nonan a -> nonan b -> nonan c ->
  float_cmp a b <> Gt -> float_cmp b c <> Gt -> float_cmp a c <> Gt.
Proof.
  intros Ha Hb Hc. rewrite !float_cmp_nkey by assumption.
  generalize (nkey a) (nkey b) (nkey c). intros x y z H1 H2.
  destruct (Z.compare_spec x y), (Z.compare_spec y z), (Z.compare_spec x z); try congruence; lia.
Qed.

Lemma float_cmp_trans a b c o : nonan a -> nonan b -> nonan c ->
  float_cmp a b = o -> float_cmp b c = o -> float_cmp a c = o.
Proof.
  intros Ha Hb Hc. rewrite !float_cmp_nkey by assumption.
  generalize (nkey a) (nkey b) (nkey c). intros x y z H1 H2.
  destruct (Z.compare_spec x y), (Z.compare_spec y z), (Z.compare_spec x z); try congruence; lia.
Qed.

Lemma float_eq_cmp l r : float_eq l r = true <-> float_cmp l r = Eq.
Proof. unfold float_eq. destruct (float_cmp l r); split; congruence. Qed.

(** exactly one of <, ==, > *)
Lemma float_trichotomy l r : nonan l -> nonan r ->
  (float_cmp l r = Lt /\ float_eq l r = false /\ float_cmp r l = Gt) \/
  (float_cmp l r = Eq /\ float_eq l r = true /\ float_cmp r l = Eq) \/
  (float_cmp l r = Gt /\ float_eq l r = false /\ float_cmp r l = Lt).
Proof.
  intros Hl Hr. rewrite (float_cmp_antisym l r Hl Hr). unfold float_eq.
  destruct (float_cmp l r); cbn; auto.
Qed.

