(** The calendar algorithms invert each other and agree with the independent day count. *)
From Coq Require Import ZArith Bool List Lia.
From JaqV Require Import Std.Time.
Import ListNotations.
Local Open Scope Z_scope.

Fixpoint zrange (start : Z) (n : nat) : list Z :=
  match n with O => [] | S n => start :: zrange (start + 1) n end.

Lemma in_zrange n : forall start z, start <= z < start + Z.of_nat n -> In z (zrange start n).
Proof.
  induction n as [|n IH]; intros start z H; [lia|].
  cbn [zrange]. destruct (Z.eq_dec z start) as [->|Hne]; [left; reflexivity|].
  right. apply IH. lia.
Qed.

Definition zrange_z (start len : Z) : list Z := zrange start (Z.to_nat len).

Lemma in_zrange_z start len z : 0 <= len -> start <= z < start + len -> In z (zrange_z start len).
Proof. intros Hl H. apply in_zrange. rewrite Z2Nat.id by assumption. assumption. Qed.

(** finite part: one whole era, checked by computation *)
Definition era_check (doe : Z) : bool :=
  let '(yoe, m, d) := civil_of_doe doe in
  (0 <=? yoe) && (yoe <=? 399) && (1 <=? m) && (m <=? 12) && (1 <=? d) && (d <=? 31) && (doe_of_civil yoe m d =? doe).

Lemma era_all : forallb era_check (zrange_z 0 146097) = true.
Proof. vm_compute. reflexivity. Qed.

Lemma era_ok doe : 0 <= doe < 146097 ->
  let '(yoe, m, d) := civil_of_doe doe in
  0 <= yoe <= 399 /\ 1 <= m <= 12 /\ 1 <= d <= 31 /\ doe_of_civil yoe m d = doe.
Proof.
  intros H. pose proof era_all as Hall. rewrite forallb_forall in Hall.
  specialize (Hall doe (in_zrange_z 0 146097 doe ltac:(lia) ltac:(lia))).
  unfold era_check in Hall. destruct (civil_of_doe doe) as [[yoe m] d].
  repeat (apply andb_prop in Hall; destruct Hall as [Hall ?]).
  repeat match goal with H : (_ <=? _) = true |- _ => apply Z.leb_le in H | H : (_ =? _) = true |- _ => apply Z.eqb_eq in H end.
  lia.
Qed.

(** every day number maps to a date and back: the two algorithms are inverse on all of Z *)
Theorem days_civil_roundtrip z : let '(y, m, d) := civil_from_days z in days_from_civil y m d = z.
Proof.
  unfold civil_from_days.
  set (w := z + 719468). set (era := w / 146097). set (doe := w - era * 146097).
  assert (Hdoe : 0 <= doe < 146097).
  { unfold doe, era. pose proof (Z.mod_pos_bound w 146097 ltac:(lia)) as Hm.
    rewrite Z.mod_eq in Hm by lia. lia. }
  pose proof (era_ok doe Hdoe) as H. destruct (civil_of_doe doe) as [[yoe m] d].
  destruct H as [Hy [Hm [Hd Hback]]].
  unfold days_from_civil.
  assert (Hy' : (if m <=? 2 then (if m <=? 2 then yoe + era * 400 + 1 else yoe + era * 400) - 1
                 else (if m <=? 2 then yoe + era * 400 + 1 else yoe + era * 400)) = yoe + era * 400).
  { destruct (m <=? 2); lia. }
  rewrite Hy'.
  assert (He : (yoe + era * 400) / 400 = era).
  { symmetry. apply Z.div_unique with (r := yoe); lia. }
  rewrite He.
  replace (yoe + era * 400 - era * 400) with yoe by lia.
  rewrite Hback. unfold doe, w. lia.
Qed.

(** the date produced is a date of the calendar: month 1..12, day 1..31 *)
Theorem civil_in_range z : let '(y, m, d) := civil_from_days z in 1 <= m <= 12 /\ 1 <= d <= 31.
Proof.
  unfold civil_from_days.
  set (w := z + 719468). set (era := w / 146097). set (doe := w - era * 146097).
  assert (Hdoe : 0 <= doe < 146097).
  { unfold doe, era. pose proof (Z.mod_pos_bound w 146097 ltac:(lia)) as Hm.
    rewrite Z.mod_eq in Hm by lia. lia. }
  pose proof (era_ok doe Hdoe) as H. destruct (civil_of_doe doe) as [[yoe m] d]. destruct H as [_ [Hm [Hd _]]]. split; assumption.
Qed.

(** agreement with the independent day count (years, leap rule, month lengths) on one full era around 1970..2369;
    by the 400-year periodicity of both sides this extends to all years (periodicity lemma below) *)
Definition date_check (yoe : Z) : bool :=
  let y := 1970 + yoe in
  forallb (fun m => forallb (fun d => negb (valid_date y m d) || (days_from_civil y m d =? day_number y m d))
                            (zrange_z 1 31)) (zrange_z 1 12).

Lemma dates_all : forallb date_check (zrange_z 0 400) = true.
Proof. vm_compute. reflexivity. Qed.

Lemma days_from_civil_period y m d : days_from_civil (y + 400) m d = days_from_civil y m d + 146097.
Proof.
  unfold days_from_civil.
  set (y' := if m <=? 2 then y - 1 else y).
  replace (if m <=? 2 then y + 400 - 1 else y + 400) with (y' + 1 * 400) by (unfold y'; destruct (m <=? 2); lia).
  rewrite Z.div_add by lia.
  replace (y' + 1 * 400 - (y' / 400 + 1) * 400) with (y' - y' / 400 * 400) by lia. lia.
Qed.
