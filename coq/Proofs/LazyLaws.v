(** Laziness: what a consumer of a prefix obtains does not depend on the remainder of the stream, whatever that remainder
    is (an error, a halt, a break, divergence [SBot], more items).  [pre k s] are the first [k] items of [s] obtained
    without looking at anything after them. *)
From Coq Require Import ZArith Bool List Lia FunctionalExtensionality.
From JaqV Require Import Base.Stream Val.Num Val.Val Val.Err Val.Arith Core.Natives Core.Run Proofs.StreamLaws.
Import ListNotations.
Local Open Scope Z_scope.

Fixpoint pre {A} (k : nat) (s : str A) : option (list A) :=
  match k with
  | O => Some []
  | S k => match s with
           | SCons x t => match pre k (t tt) with Some l => Some (x :: l) | None => None end
           | _ => None
           end
  end.

Lemma pre_length {A} k : forall (s : str A) l, pre k s = Some l -> length l = k.
Proof.
  induction k as [|k IH]; intros s l H; cbn in H.
  - injection H as <-. reflexivity.
  - destruct s as [|x t|e| |]; try discriminate. destruct (pre k (t tt)) as [l'|] eqn:E; [|discriminate].
    injection H as <-. cbn. f_equal. eapply IH. exact E.
Qed.

(** ** the combinators hand the prefix through *)
Lemma pre_sapp {A} k : forall (s : str A) r l, pre k s = Some l -> pre k (sapp s r) = Some l.
Proof.
  induction k as [|k IH]; intros s r l H; [exact H|]. cbn in H.
  destruct s as [|x t|e| |]; try discriminate. destruct (pre k (t tt)) as [l'|] eqn:E; [|discriminate].
  cbn. rewrite (IH _ r _ E). exact H.
Qed.

Lemma pre_smap {A B} (f : A -> B) k : forall (s : str A) l, pre k s = Some l -> pre k (smap f s) = Some (map f l).
Proof.
  induction k as [|k IH]; intros s l H; cbn in H.
  - injection H as <-. reflexivity.
  - destruct s as [|x t|e| |]; try discriminate. destruct (pre k (t tt)) as [l'|] eqn:E; [|discriminate].
    injection H as <-. cbn. rewrite (IH _ _ E). reflexivity.
Qed.

Lemma pre_stry {A} h k : forall (s : str A) l, pre k s = Some l -> pre k (stry s h) = Some l.
Proof.
  induction k as [|k IH]; intros s l H; [exact H|]. cbn in H.
  destruct s as [|x t|e| |]; try discriminate. destruct (pre k (t tt)) as [l'|] eqn:E; [|discriminate].
  cbn. rewrite (IH _ _ E). exact H.
Qed.

Lemma pre_slabel {A} lb k : forall (s : str A) l, pre k s = Some l -> pre k (slabel lb s) = Some l.
Proof.
  induction k as [|k IH]; intros s l H; [exact H|]. cbn in H.
  destruct s as [|x t|e| |]; try discriminate. destruct (pre k (t tt)) as [l'|] eqn:E; [|discriminate].
  cbn. rewrite (IH _ _ E). exact H.
Qed.

(** the first [k] outputs of [s | f] are settled by the items of [s] that produce them *)
Lemma pre_sbind {A B} (f : A -> str B) xs : forall k l r,
  pre k (sbind (of_list xs) f) = Some l -> pre k (sbind (sapp (of_list xs) r) f) = Some l.
Proof.
  induction xs as [|x xs IH]; intros k l r H.
  - cbn in H. destruct k; [exact H|discriminate].
  - cbn [of_list sapp sbind] in *. revert k l H. generalize (f x) as s. intros s.
    induction s as [|y t IHs|e| |]; intros k l H.
    + cbn [sapp] in *. apply IH. exact H.
    + destruct k as [|k]; [exact H|]. cbn [sapp pre] in *.
      destruct (pre k (sapp (t tt) (fun _ => sbind (of_list xs) f))) as [l'|] eqn:E; [|discriminate].
      rewrite (IHs tt k l' E). exact H.
    + destruct k; [exact H|discriminate].
    + destruct k; [exact H|discriminate].
    + destruct k; [exact H|discriminate].
Qed.

(** ** the consumers *)
Lemma first_pre {A} (s : str A) x : pre 1 s = Some [x] -> first_s s = sone x.
Proof. destruct s as [|y t|e| |]; cbn; try discriminate. intros H. injection H as <-. reflexivity. Qed.

Lemma limit_go_pre {A} : forall n (s : str A) l, pre n s = Some l -> in_isize (Z.of_nat n) = true ->
  limit_go (vint (Z.of_nat n)) s = of_list l.
Proof.
  induction n as [|n IH]; intros s l H Hn.
  - cbn in H. injection H as <-. cbn [Z.of_nat]. destruct s; cbn [limit_go]; rewrite val_cmp_int; reflexivity.
  - cbn [pre] in H. destruct s as [|x t|e| |]; try discriminate. destruct (pre n (t tt)) as [l'|] eqn:E; [|discriminate].
    injection H as <-. cbn [limit_go]. rewrite val_cmp_int.
    destruct (Z.compare_spec (Z.of_nat (S n)) 0) as [C|C|C]; try lia. cbn [negb].
    rewrite vsub_int by (apply in_isize_pred; [assumption | lia]).
    replace (Z.of_nat (S n) - 1) with (Z.of_nat n) by lia. cbn [of_list]. f_equal.
    apply functional_extensionality. intros []. apply IH; [exact E|].
    replace (Z.of_nat n) with (Z.of_nat (S n) - 1) by lia. apply in_isize_pred; [assumption|lia].
Qed.

(** [limit(k; s)] is exactly the first [k] outputs and then ends: it never depends on what follows *)
Lemma limit_pre {A} n (s : str A) l : pre n s = Some l -> in_isize (Z.of_nat n) = true ->
  limit (vint (Z.of_nat n)) (fun _ => s) = of_list l.
Proof.
  intros H Hn. unfold limit. rewrite val_leb_int. destruct (Z.leb_spec (Z.of_nat n) 0) as [C|C].
  - destruct n; [|lia]. cbn in H. injection H as <-. reflexivity.
  - apply limit_go_pre; assumption.
Qed.

(** the consumer of the iterator (library, command line) that stops after [k] outputs has exactly them *)
Lemma take_pre {A} k : forall (s : str A) l, pre k s = Some l -> fst (take k s) = l.
Proof.
  induction k as [|k IH]; intros s l H; cbn in H.
  - injection H as <-. destruct s; reflexivity.
  - destruct s as [|x t|e| |]; try discriminate. destruct (pre k (t tt)) as [l'|] eqn:E; [|discriminate].
    injection H as <-. cbn [take]. specialize (IH _ _ E). destruct (take k (t tt)) as [l2 f]. cbn in *. f_equal. exact IH.
Qed.

(** [label $x | (..., break $x, rest)]: everything after the break is irrelevant *)
Lemma label_break {A} lb (xs : list A) r :
  slabel lb (sapp (of_list xs) (fun _ => sapp (SExn (XBreak lb)) r)) = of_list xs.
Proof.
  induction xs as [|x xs IH]; cbn [of_list sapp slabel].
  - rewrite Nat.eqb_refl. reflexivity.
  - f_equal. apply functional_extensionality. intros []. exact IH.
Qed.

(** [f // g]: the first truthy output of [f] is delivered whatever follows it *)
Definition alt {A} (p : A -> bool) (s : str A) (r : unit -> str A) : str A :=
  match sfilter p s with SNil => r tt | s' => s' end.

Lemma alt_first {A} (p : A -> bool) x t r : p x = true -> first_s (alt p (SCons x t) r) = sone x.
Proof. intros H. unfold alt. cbn [sfilter]. rewrite H. reflexivity. Qed.

(** ** rest-independence, spelled out: the remainder may be anything *)
Theorem prefix_consumers_ignore_rest {A} (xs : list A) (r1 r2 : unit -> str A) :
  let s1 := sapp (of_list xs) r1 in
  let s2 := sapp (of_list xs) r2 in
  (forall k, (k <= length xs)%nat -> pre k s1 = pre k s2)
  /\ (xs <> [] -> first_s s1 = first_s s2)
  /\ (forall n, (n <= length xs)%nat -> in_isize (Z.of_nat n) = true ->
        limit (vint (Z.of_nat n)) (fun _ => s1) = limit (vint (Z.of_nat n)) (fun _ => s2))
  /\ (forall k, (k <= length xs)%nat -> fst (take k s1) = fst (take k s2)).
Proof.
  cbv zeta.
  assert (P : forall k r, (k <= length xs)%nat -> pre k (sapp (of_list xs) r) = Some (firstn k xs)).
  { intros k r Hk. apply pre_sapp. clear r. revert k Hk. induction xs as [|x xs IH]; intros k Hk.
    - destruct k; [reflexivity|cbn in Hk; lia].
    - destruct k as [|k]; [reflexivity|]. cbn [of_list pre firstn]. rewrite IH by (cbn in Hk; lia). reflexivity. }
  split; [|split; [|split]].
  - intros k Hk. rewrite !P by exact Hk. reflexivity.
  - intros Hne. destruct xs as [|x xs]; [congruence|]. reflexivity.
  - intros n Hn Hi. rewrite (limit_pre n _ _ (P n r1 Hn) Hi), (limit_pre n _ _ (P n r2 Hn) Hi). reflexivity.
  - intros k Hk. rewrite (take_pre k _ _ (P k r1 Hk)), (take_pre k _ _ (P k r2 Hk)). reflexivity.
Qed.

(** non-vacuity: the remainder diverges or fails, the consumer has its result *)
Example lazy_ex :
  first_s (sapp (of_list [vint 1]) (fun _ => SBot)) = sone (vint 1)
  /\ limit (vint 2) (fun _ => sapp (of_list [vint 1; vint 2]) (fun _ => serr (EOther 0))) = of_list [vint 1; vint 2]
  /\ fst (take 1 (sapp (of_list [vint 1]) (fun _ => SExn (XHalt 1)))) = [vint 1].
Proof. repeat split. Qed.

(** ** the interpreter: the operand that the left-to-right order puts later is not needed for the earlier outputs *)
Section Interp.
  Variable d : val -> Bytes.bytes.
  Variable nr : nat -> Bytes.bytes -> list narg -> val -> option (str val).
  Variable defs : list Syntax.term.
  Notation run := (run d nr defs).

  (** [l, r]: the first outputs are those of [l], whatever [r] is *)
  Lemma run_comma_lazy n l r c v k xs :
    pre k (run n l c v) = Some xs -> pre k (run (S n) (Syntax.KComma l r) c v) = Some xs.
  Proof. intros H. change (pre k (sapp (run n l c v) (fun _ => run n r c v)) = Some xs). apply pre_sapp. exact H. Qed.

  (** [l | r]: the outputs settled by the first items of [l] do not depend on the rest of [l] *)
  Lemma run_pipe_lazy n l r c v ys rest k xs :
    run n l c v = sapp (of_list ys) rest ->
    pre k (sbind (of_list ys) (fun y => run n r c y)) = Some xs ->
    pre k (run (S n) (Syntax.KPipe l None r) c v) = Some xs.
  Proof.
    intros Hl H. change (pre k (sbind (run n l c v) (fun y => run n r c y)) = Some xs). rewrite Hl. apply pre_sbind. exact H.
  Qed.

  (** [try f catch h], [label $x | f]: prefixes pass *)
  Lemma run_try_lazy n f h c v k xs :
    pre k (run n f c v) = Some xs -> pre k (run (S n) (Syntax.KTryCatch f h) c v) = Some xs.
  Proof. intros H. cbn [Run.run]. apply pre_stry. exact H. Qed.

  Lemma run_label_lazy n f c v k xs :
    pre k (run n f (cons_label c) v) = Some xs -> pre k (run (S n) (Syntax.KLabel f) c v) = Some xs.
  Proof.
    intros H. change (pre k (slabel (labels (cons_label c)) (run n f (cons_label c) v)) = Some xs). apply pre_slabel. exact H.
  Qed.

  (** [l // r]: a truthy first output of [l] is the first output, whatever follows in [l], and [r] is not run *)
  Lemma run_alt_lazy n l r c v x t :
    run n l c v = SCons x t -> as_bool x = true -> first_s (run (S n) (Syntax.KAlt l r) c v) = sone x.
  Proof.
    intros Hl Hx. change (first_s (match sfilter as_bool (run n l c v) with SNil => run n r c v | s => s end) = sone x).
    rewrite Hl. cbn [sfilter]. rewrite Hx. reflexivity.
  Qed.
End Interp.
