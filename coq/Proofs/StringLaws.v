(** Strings: [explode | implode], [split | join] and the ASCII case maps return every byte string unchanged where the
    property says so - for all strings, valid UTF-8 or not. *)
From Coq Require Import ZArith Bool List Lia.
From Coq Require Import Init.Byte.
From JaqV Require Import Base.Bytes Val.Num Val.Val Val.Utf8 Val.Err Val.Arith Std.Natives Proofs.SafeLaws Proofs.DigitLaws.
Import ListNotations.
Local Open Scope Z_scope.

Ltac Zify.zify_post_hook ::= Z.div_mod_to_equations.

(** ** decoding a character and encoding it again gives the bytes that were read *)
Lemma in_rng_spec lo hi b : in_rng lo hi b = true -> lo <= bz b <= hi.
Proof. unfold in_rng. intros H. apply andb_true_iff in H as [H1 H2]. apply Z.leb_le in H1. apply Z.leb_le in H2. lia. Qed.

Lemma zb_eq z b : z = bz b -> zb z = b.
Proof. intros ->. apply zb_bz. Qed.

Lemma decode1_encode1 s c n : decode1 s = (Some c, n) -> is_scalar c = true /\ encode1 c = firstn n s /\ (1 <= n)%nat.
Proof.
  unfold decode1. destruct s as [|b0 r]; [discriminate|]. cbn zeta.
  pose proof (bz_range b0) as R0.
  destruct (bz b0 <? 128) eqn:E0.
  { intros H. injection H as <- <-. apply Z.ltb_lt in E0. unfold is_scalar, encode1. cbn [firstn].
    split; [|split; [|lia]].
    - apply orb_true_iff. left. apply andb_true_iff. split; [apply Z.leb_le | apply Z.ltb_lt]; lia.
    - destruct (bz b0 <? 128) eqn:E; [|apply Z.ltb_ge in E; lia]. rewrite zb_bz. reflexivity. }
  apply Z.ltb_ge in E0.
  destruct (in_rng 194 223 b0) eqn:E2.
  { apply in_rng_spec in E2. destruct r as [|b1 r1]; [discriminate|].
    destruct (is_cont b1) eqn:C1; [|discriminate]. apply in_rng_spec in C1. unfold cbits.
    intros H. injection H as <- <-. unfold is_scalar, encode1. cbn [firstn]. split; [|split; [|lia]].
    - apply orb_true_iff. left. apply andb_true_iff. split; [apply Z.leb_le | apply Z.ltb_lt]; lia.
    - set (c := (bz b0 - 192) * 64 + (bz b1 - 128)).
      assert (Hc : 128 <= c < 2048) by (unfold c; lia).
      destruct (c <? 128) eqn:E; [apply Z.ltb_lt in E; lia|]. destruct (c <? 2048) eqn:E'; [|apply Z.ltb_ge in E'; lia].
      f_equal; [apply zb_eq; unfold c; lia|]. f_equal. apply zb_eq. unfold c. lia. }
  destruct (in_rng 224 239 b0) eqn:E3.
  { apply in_rng_spec in E3. destruct r as [|b1 r1]; [discriminate|].
    destruct (in_rng (if bz b0 =? 224 then 160 else 128) (if bz b0 =? 237 then 159 else 191) b1) eqn:C1; [|discriminate].
    apply in_rng_spec in C1. destruct r1 as [|b2 r2]; [discriminate|].
    destruct (is_cont b2) eqn:C2; [|discriminate]. apply in_rng_spec in C2. unfold cbits.
    intros H. injection H as <- <-.
    set (c := (bz b0 - 224) * 4096 + (bz b1 - 128) * 64 + (bz b2 - 128)).
    assert (H1 : 128 <= bz b1 <= 191) by (destruct (bz b0 =? 224), (bz b0 =? 237); lia).
    assert (Hlo : 2048 <= c).
    { unfold c. destruct (bz b0 =? 224) eqn:Ea; [apply Z.eqb_eq in Ea; destruct (bz b0 =? 237); lia | apply Z.eqb_neq in Ea; lia]. }
    assert (Hhi : c < 65536) by (unfold c; lia).
    assert (Hsur : c < 55296 \/ 57344 <= c).
    { unfold c. destruct (bz b0 =? 237) eqn:Ea; [apply Z.eqb_eq in Ea; destruct (bz b0 =? 224); lia | apply Z.eqb_neq in Ea; lia]. }
    unfold is_scalar, encode1. cbn [firstn]. split; [|split; [|lia]].
    - apply orb_true_iff. destruct Hsur as [Hs|Hs]; [left | right]; apply andb_true_iff; split;
        try (apply Z.leb_le; lia); apply Z.ltb_lt; lia.
    - destruct (c <? 128) eqn:E; [apply Z.ltb_lt in E; lia|]. destruct (c <? 2048) eqn:E'; [apply Z.ltb_lt in E'; lia|].
      destruct (c <? 65536) eqn:E''; [|apply Z.ltb_ge in E''; lia].
      f_equal; [apply zb_eq; unfold c; lia|]. f_equal; [apply zb_eq; unfold c; lia|]. f_equal. apply zb_eq. unfold c. lia. }
  destruct (in_rng 240 244 b0) eqn:E4; [|discriminate].
  apply in_rng_spec in E4. destruct r as [|b1 r1]; [discriminate|].
  destruct (in_rng (if bz b0 =? 240 then 144 else 128) (if bz b0 =? 244 then 143 else 191) b1) eqn:C1; [|discriminate].
  apply in_rng_spec in C1. destruct r1 as [|b2 r2]; [discriminate|].
  destruct (is_cont b2) eqn:C2; [|discriminate]. apply in_rng_spec in C2.
  destruct r2 as [|b3 r3]; [discriminate|].
  destruct (is_cont b3) eqn:C3; [|discriminate]. apply in_rng_spec in C3. unfold cbits.
  intros H. injection H as <- <-.
  set (c := (bz b0 - 240) * 262144 + (bz b1 - 128) * 4096 + (bz b2 - 128) * 64 + (bz b3 - 128)).
  assert (H1 : 128 <= bz b1 <= 191) by (destruct (bz b0 =? 240), (bz b0 =? 244); lia).
  assert (Hlo : 65536 <= c).
  { unfold c. destruct (bz b0 =? 240) eqn:Ea; [apply Z.eqb_eq in Ea; destruct (bz b0 =? 244); lia | apply Z.eqb_neq in Ea; lia]. }
  assert (Hhi : c < 1114112).
  { unfold c. destruct (bz b0 =? 244) eqn:Ea; [apply Z.eqb_eq in Ea; destruct (bz b0 =? 240); lia | apply Z.eqb_neq in Ea; lia]. }
  unfold is_scalar, encode1. cbn [firstn]. split; [|split; [|lia]].
  - apply orb_true_iff. right. apply andb_true_iff. split; [apply Z.leb_le | apply Z.ltb_lt]; lia.
  - destruct (c <? 128) eqn:E; [apply Z.ltb_lt in E; lia|]. destruct (c <? 2048) eqn:E'; [apply Z.ltb_lt in E'; lia|].
    destruct (c <? 65536) eqn:E''; [apply Z.ltb_lt in E''; lia|].
    f_equal; [apply zb_eq; unfold c; lia|]. f_equal; [apply zb_eq; unfold c; lia|].
    f_equal; [apply zb_eq; unfold c; lia|]. f_equal. apply zb_eq. unfold c. lia.
Qed.

(** every chunk that decodes to a character is that character's encoding *)
Lemma chunks_f_chars fuel : forall s, Forall (fun ch => match fst ch with
                                                          | Some c => is_scalar c = true /\ encode1 c = snd ch
                                                          | None => True
                                                          end) (chunks_f fuel s).
Proof.
  induction fuel as [|fuel IH]; intros s; [constructor|]. cbn [chunks_f].
  destruct s as [|b r]; [constructor|].
  destruct (decode1 (b :: r)) as [c n] eqn:E. constructor; [|apply IH].
  cbn [fst snd]. destruct c as [c|]; [|exact I].
  destruct (decode1_encode1 _ _ _ E) as (Hs & He & Hn). split; [exact Hs|]. rewrite Nat.max_l by lia. exact He.
Qed.

(** ** explode | implode *)
Lemma implode_cons_int i r : implode (vint i :: r) =
  let here := if (0 <=? - i) && (- i <=? 255) then Ok [zb (- i)] else if is_scalar i then Ok (encode1 i) else Err (EOther 2) in
  match here with
  | Ok bs => match implode r with Some (Ok rest) => Some (Ok (bs ++ rest)) | o => o end
  | Err e => Some (Err e)
  end.
Proof. reflexivity. Qed.

Lemma implode_app xs : forall a ys, implode xs = Some (Ok a) ->
  implode (xs ++ ys) = match implode ys with Some (Ok rest) => Some (Ok (a ++ rest)) | o => o end.
Proof.
  induction xs as [|x xs IH]; intros a ys H.
  - cbn in H. injection H as <-. cbn [app]. destruct (implode ys) as [[?|?]|]; reflexivity.
  - cbn [app]. cbn [implode] in *. destruct x as [| |n| | | |]; try discriminate.
    destruct (as_isize n) as [i|]; [|discriminate].
    destruct (if (0 <=? - i) && (- i <=? 255) then Ok [zb (- i)] else if is_scalar i then Ok (encode1 i) else Err (EOther 2)) as [bs|e];
      [|discriminate].
    destruct (implode xs) as [[a0|e0]|] eqn:Ex; try discriminate. injection H as <-.
    rewrite (IH a0 ys eq_refl). destruct (implode ys) as [[rest|e1]|]; try reflexivity. rewrite app_assoc. reflexivity.
Qed.

Lemma implode_invalid_bytes bs : implode (map (fun b => vint (- bz b)) bs) = Some (Ok bs).
Proof.
  induction bs as [|b r IH]; [reflexivity|]. cbn [map]. rewrite implode_cons_int. cbn zeta.
  pose proof (bz_range b). replace (- - bz b) with (bz b) by lia.
  destruct ((0 <=? bz b) && (bz b <=? 255)) eqn:E.
  - rewrite IH, zb_bz. reflexivity.
  - exfalso. apply andb_false_iff in E as [E|E]; [apply Z.leb_gt in E | apply Z.leb_gt in E]; lia.
Qed.

Lemma implode_char c bs : is_scalar c = true -> encode1 c = bs -> implode [vint c] = Some (Ok bs).
Proof.
  intros Hs He. rewrite implode_cons_int. cbn zeta. cbn [implode].
  destruct ((0 <=? - c) && (- c <=? 255)) eqn:E.
  - (* only the character 0 *)
    apply andb_true_iff in E as [E1 _]. apply Z.leb_le in E1.
    assert (c = 0).
    { unfold is_scalar in Hs. apply orb_true_iff in Hs as [Hs|Hs]; apply andb_true_iff in Hs as [Hs _]; apply Z.leb_le in Hs; lia. }
    subst c. rewrite <- He. reflexivity.
  - rewrite Hs, He, app_nil_r. reflexivity.
Qed.

(** for every byte string - valid UTF-8 or not - [explode | implode] gives the string back *)
Theorem explode_implode s : implode (explode s) = Some (Ok s).
Proof.
  unfold explode. rewrite <- (chunks_partition s) at 2.
  pose proof (chunks_f_chars (length s) s) as Hc. fold (chunks s) in Hc.
  induction (chunks s) as [|[c bs] r IH]; [reflexivity|].
  inversion Hc as [|? ? Hh Ht]; subst. cbn [flat_map map concat fst snd] in *.
  assert (Hhere : implode (match c with Some c0 => [vint c0] | None => map (fun b => vint (- bz b)) bs end) = Some (Ok bs)).
  { destruct c as [c|]; [destruct Hh as [Hs He]; apply implode_char; assumption | apply implode_invalid_bytes]. }
  rewrite (implode_app _ _ _ Hhere), (IH Ht). reflexivity.
Qed.

(** ** split | join *)
Fixpoint intercalate (sep : bytes) (l : list bytes) : bytes :=
  match l with
  | [] => []
  | [x] => x
  | x :: r => x ++ sep ++ intercalate sep r
  end.

Lemma is_prefix_app p : forall s, is_prefix p s = true -> s = p ++ skipn (length p) s.
Proof.
  induction p as [|a p IH]; intros s H; [reflexivity|]. destruct s as [|b s]; [discriminate|]. cbn in H.
  apply andb_true_iff in H as [Hab Hp]. destruct (byte_eqb_spec a b) as [->|]; [|discriminate].
  cbn [length skipn app]. f_equal. apply IH, Hp.
Qed.

Lemma split_f_nonempty fuel sep : forall s cur, split_f fuel sep s cur <> [].
Proof.
  induction fuel as [|fuel IH]; intros s cur; cbn [split_f]; [discriminate|].
  destruct s as [|c r]; [discriminate|]. destruct (is_prefix sep (c :: r)); [discriminate | apply IH].
Qed.

Lemma intercalate_cons sep x l : l <> [] -> intercalate sep (x :: l) = x ++ sep ++ intercalate sep l.
Proof. destruct l; [contradiction | reflexivity]. Qed.

Lemma split_f_join sep : sep <> [] -> forall fuel s cur, (length s <= fuel)%nat ->
  intercalate sep (split_f fuel sep s cur) = rev cur ++ s.
Proof.
  intros Hsep. induction fuel as [|fuel IH]; intros s cur Hlen.
  - destruct s; [cbn; rewrite app_nil_r; reflexivity | cbn in Hlen; lia].
  - cbn [split_f]. destruct s as [|c r]; [cbn; rewrite app_nil_r; reflexivity|].
    destruct (is_prefix sep (c :: r)) eqn:Ep.
    + rewrite intercalate_cons by apply split_f_nonempty.
      pose proof (is_prefix_app _ _ Ep) as Es.
      rewrite IH.
      * cbn [rev app]. rewrite <- Es. reflexivity.
      * rewrite skipn_length. cbn [length] in *. destruct sep; [contradiction|]. cbn [length]. lia.
    + rewrite IH by (cbn [length] in Hlen; lia). cbn [rev]. rewrite <- app_assoc. reflexivity.
Qed.

(** the pieces of [split], joined by the separator, are the string (for every non-empty string and every separator) *)
Theorem split_join s sep : intercalate sep (split s sep) = s.
Proof.
  unfold split. destruct s as [|b r]; [reflexivity|]. destruct sep as [|a p].
  - (* characters: joined by nothing *)
    rewrite <- (chunks_partition (b :: r)) at 2.
    assert (H : forall l : list bytes, intercalate [] l = concat l).
    { induction l as [|x l IHl]; [reflexivity|]. destruct l as [|y l]; [cbn; rewrite app_nil_r; reflexivity|].
      change (intercalate [] (x :: y :: l)) with (x ++ [] ++ intercalate [] (y :: l)). rewrite IHl. reflexivity. }
    apply H.
  - rewrite split_f_join; [reflexivity | discriminate | lia].
Qed.

(** ** ASCII case maps *)
Lemma ascii_map_non_ascii f s : (forall z, 128 <= z -> f z = z) -> Forall (fun b => 128 <= bz b) s -> ascii_map f s = s.
Proof.
  intros Hf H. unfold ascii_map. induction H as [|b r Hb _ IH]; [reflexivity|]. cbn [map]. rewrite IH, (Hf _ Hb), zb_bz. reflexivity.
Qed.

(** bytes outside ASCII (all bytes of multi-byte characters and of invalid sequences) are never changed *)
Theorem ascii_case_keeps_non_ascii s : Forall (fun b => 128 <= bz b) s ->
  ascii_map lower s = s /\ ascii_map upper s = s.
Proof.
  intros H. split; apply ascii_map_non_ascii; try exact H; intros z Hz; unfold lower, upper.
  - destruct ((65 <=? z) && (z <=? 90)) eqn:E; [|reflexivity]. apply andb_true_iff in E as [_ E]. apply Z.leb_le in E. lia.
  - destruct ((97 <=? z) && (z <=? 122)) eqn:E; [|reflexivity]. apply andb_true_iff in E as [_ E]. apply Z.leb_le in E. lia.
Qed.

(** each byte is mapped on its own: the length and every byte that is not a letter of the other case stay *)
Theorem ascii_case_bytewise s :
  length (ascii_map lower s) = length s /\ length (ascii_map upper s) = length s
  /\ Forall2 (fun a b => b = a \/ (65 <= bz a <= 90 /\ bz b = bz a + 32)) s (ascii_map lower s)
  /\ Forall2 (fun a b => b = a \/ (97 <= bz a <= 122 /\ bz b = bz a - 32)) s (ascii_map upper s).
Proof.
  unfold ascii_map. repeat split; try apply map_length.
  - induction s as [|a r IH]; cbn [map]; constructor; [|exact IH]. unfold lower. pose proof (bz_range a).
    destruct ((65 <=? bz a) && (bz a <=? 90)) eqn:E; [|left; apply zb_bz].
    apply andb_true_iff in E as [E1 E2]. apply Z.leb_le in E1. apply Z.leb_le in E2. right. split; [lia|]. apply bz_zb. lia.
  - induction s as [|a r IH]; cbn [map]; constructor; [|exact IH]. unfold upper. pose proof (bz_range a).
    destruct ((97 <=? bz a) && (bz a <=? 122)) eqn:E; [|left; apply zb_bz].
    apply andb_true_iff in E as [E1 E2]. apply Z.leb_le in E1. apply Z.leb_le in E2. right. split; [lia|]. apply bz_zb. lia.
Qed.

Example explode_implode_example :
  implode (explode [zb 97; zb 195; zb 169; zb 255; zb 240; zb 159; zb 152; zb 128; zb 226; zb 130])
  = Some (Ok [zb 97; zb 195; zb 169; zb 255; zb 240; zb 159; zb 152; zb 128; zb 226; zb 130]).
Proof. vm_compute. reflexivity. Qed.
