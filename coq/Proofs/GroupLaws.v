(** group_by, sort_by, min_by and max_by of the model (Std/Natives.v, mirroring jaq-std/src/lib.rs): the groups are the
    sorted input cut at the changes of key; the extrema are extremal for the order of keys. *)
From Coq Require Import ZArith Bool List Lia Sorting.Permutation.
From JaqV Require Import Base.Bytes Base.Stream Val.Num Val.Val Val.Err Val.Index Std.Natives Proofs.ValOrder.
Import ListNotations.

Definition un_arr (v : val) : list val := match v with Arr l => l | _ => [] end.

(** ** the groups, concatenated, are the sorted elements in their order; no group is empty *)
Lemma group_runs_concat l : forall k cur, concat (map un_arr (group_runs k cur l)) = rev cur ++ map snd l.
Proof.
  induction l as [|[k' x] r IH]; intros k cur; cbn [group_runs].
  - cbn. rewrite app_nil_r. reflexivity.
  - destruct (list_eqb_val k k').
    + rewrite IH. cbn [rev map snd]. rewrite <- app_assoc. reflexivity.
    + cbn [map concat un_arr]. rewrite IH. reflexivity.
Qed.

Lemma group_runs_nonempty l : forall k cur, cur <> [] -> Forall (fun g => exists x r, g = Arr (x :: r)) (group_runs k cur l).
Proof.
  induction l as [|[k' x] r IH]; intros k cur Hne; cbn [group_runs].
  - constructor; [|constructor]. destruct (rev cur) eqn:E; [|eauto].
    apply (f_equal (@rev val)) in E. rewrite rev_involutive in E. cbn in E. congruence.
  - destruct (list_eqb_val k k').
    + apply IH. discriminate.
    + constructor; [|apply IH; discriminate]. destruct (rev cur) eqn:E; [|eauto].
      apply (f_equal (@rev val)) in E. rewrite rev_involutive in E. cbn in E. congruence.
Qed.

(** ** the groups are the maximal runs of equal keys *)
(** the same cut with the keys kept *)
Fixpoint kruns (k : list val) (cur : list (list val * val)) (l : list (list val * val)) : list (list (list val * val)) :=
  match l with
  | [] => [rev cur]
  | (k', x) :: r =>
      if list_eqb_val k k' then kruns k ((k', x) :: cur) r
      else rev cur :: kruns k' [(k', x)] r
  end.

Lemma group_runs_kruns l : forall k cur, group_runs k (map snd cur) l = map (fun g => Arr (map snd g)) (kruns k cur l).
Proof.
  induction l as [|[k' x] r IH]; intros k cur; cbn [group_runs kruns].
  - cbn [map]. rewrite map_rev. reflexivity.
  - destruct (list_eqb_val k k').
    + apply (IH k ((k', x) :: cur)).
    + cbn [map]. rewrite map_rev. f_equal. apply (IH k' [(k', x)]).
Qed.

Lemma kruns_concat l : forall k cur, concat (kruns k cur l) = rev cur ++ l.
Proof.
  induction l as [|[k' x] r IH]; intros k cur; cbn [kruns].
  - cbn. rewrite app_nil_r. reflexivity.
  - destruct (list_eqb_val k k'); [rewrite IH; cbn [rev]; rewrite <- app_assoc; reflexivity|].
    cbn [concat]. rewrite IH. reflexivity.
Qed.

(** every further element of a group has the key of its first element; the next group starts with a different key *)
Definition tail_eq (k : list val) (g : list (list val * val)) : Prop := Forall (fun kv => list_eqb_val k (fst kv) = true) g.

Inductive maximal : list (list (list val * val)) -> Prop :=
| mx_one k x rest : tail_eq k rest -> maximal [(k, x) :: rest]
| mx_cons k x rest k' x' rest' gs :
    tail_eq k rest -> list_eqb_val k k' = false -> maximal (((k', x') :: rest') :: gs) ->
    maximal (((k, x) :: rest) :: ((k', x') :: rest') :: gs).

Lemma tail_eq_rev k g : tail_eq k g -> tail_eq k (rev g).
Proof. unfold tail_eq. rewrite !Forall_forall. intros H x Hx. apply H. apply in_rev. exact Hx. Qed.

Lemma kruns_head l : forall k x cur, exists g gs, kruns k (cur ++ [x]) l = (x :: g) :: gs.
Proof.
  induction l as [|[k' y] r IH]; intros k x cur; cbn [kruns].
  - rewrite rev_app_distr. cbn. eauto.
  - destruct (list_eqb_val k k').
    + apply (IH k x ((k', y) :: cur)).
    + rewrite rev_app_distr. cbn. eauto.
Qed.

Lemma kruns_maximal l : forall k x0 c, tail_eq k c -> maximal (kruns k (c ++ [(k, x0)]) l).
Proof.
  induction l as [|[k' x] r IH]; intros k x0 c Hc; cbn [kruns].
  - rewrite rev_app_distr. cbn [rev app]. constructor. apply tail_eq_rev. exact Hc.
  - destruct (list_eqb_val k k') eqn:E.
    + apply (IH k x0 ((k', x) :: c)). constructor; [exact E|exact Hc].
    + rewrite rev_app_distr. cbn [rev app].
      pose proof (IH k' x [] ltac:(constructor)) as M. cbn [app] in M.
      destruct (kruns_head r k' (k', x) []) as (g & gs & Eg). cbn [app] in Eg. rewrite Eg in *.
      constructor; [apply tail_eq_rev; exact Hc|exact E|exact M].
Qed.

(** ** group_by *)
(** when the key filter yields its keys for every element, group_by returns the groups of the sorted keyed list: their
    concatenation is what sort_by returns, none is empty, and they are the maximal runs of equal keys *)
Theorem group_by_spec f xs kx : keyed f xs = (kx, FEnd) ->
  let sorted := sort_by (fun a b => keys_cmp (fst a) (fst b)) kx in
  exists groups, group_by_f f xs = sone (Arr (map (fun g => Arr (map snd g)) groups))
    /\ concat groups = sorted
    /\ (sorted <> [] -> maximal groups)
    /\ (sorted = [] -> groups = []).
Proof.
  intros K. cbv zeta. unfold group_by_f. rewrite K. destruct (sort_by _ kx) as [|[k x] r] eqn:E.
  - exists []. split; [reflexivity|]. split; [reflexivity|]. split; [intros H; congruence|intros _; reflexivity].
  - exists (kruns k [(k, x)] r). split; [|split; [|split]].
    + change [x] with (map snd [(k, x)]). rewrite group_runs_kruns. reflexivity.
    + apply (kruns_concat r k [(k, x)]).
    + intros _. apply (kruns_maximal r k x []). constructor.
    + discriminate.
Qed.

(** sort_by returns the elements of the sorted keyed list - the concatenation of the groups *)
Theorem sort_by_spec f xs kx : keyed f xs = (kx, FEnd) -> (2 <= length xs)%nat ->
  sort_by_f f xs = sone (Arr (map snd (sort_by (fun a b => keys_cmp (fst a) (fst b)) kx))).
Proof.
  intros K L. unfold sort_by_f. destruct (Nat.ltb_spec (length xs) 2); [lia|]. rewrite K. reflexivity.
Qed.

(** the keyed list pairs every element with its keys, in order *)
Lemma keyed_elements f xs : forall kx, keyed f xs = (kx, FEnd) -> map snd kx = xs.
Proof.
  induction xs as [|x r IH]; intros kx K; cbn [keyed] in K; [injection K as <-; reflexivity|].
  destruct (collect (f x)) as [ks t]. destruct t; try (injection K as <- ?; discriminate).
  destruct (keyed f r) as [rest t'] eqn:R. injection K as <- ->. cbn [map snd]. f_equal. apply IH. reflexivity.
Qed.

(** ** min_by / max_by *)
Section EXTREMA.
  Variable N : num -> Prop.
  Hypothesis HN : tpo num_cmp N.

  Definition keys_ok (kv : list val * val) : Prop := Forall (vok N) (fst kv).

  Lemma keys_tpo : tpo keys_cmp (Forall (vok N)).
  Proof. unfold keys_cmp. apply lex_tpo. apply val_cmp_tpo. exact HN. Qed.

  Definition step (is_max : bool) (best cand : list val * val) : list val * val :=
    let c := keys_cmp (fst cand) (fst best) in
    let replace := if is_max then match c with Lt => false | _ => true end
                   else match c with Lt => true | _ => false end in
    if replace then cand else best.

  (** [le_dir is_max a b]: a is at least as extreme as b *)
  Definition le_dir (is_max : bool) (a b : list val * val) : Prop :=
    if is_max then keys_cmp (fst b) (fst a) <> Gt else keys_cmp (fst a) (fst b) <> Gt.

  Lemma fold_extremal is_max : forall r best seen,
    keys_ok best -> Forall keys_ok r -> Forall keys_ok seen -> In best seen -> Forall (le_dir is_max best) seen ->
    let res := fold_left (step is_max) r best in
    In res (seen ++ r) /\ Forall (le_dir is_max res) (seen ++ r).
  Proof.
    induction r as [|cand r IH]; intros best seen Hb Hr Hs Hin Hle; cbn [fold_left].
    - rewrite app_nil_r. auto.
    - inversion Hr as [|? ? Hc Hr']; subst.
      assert (NEXT : let b' := step is_max best cand in keys_ok b' /\ In b' (seen ++ [cand]) /\ Forall (le_dir is_max b') (seen ++ [cand])).
      { unfold step. cbv zeta. pose proof keys_tpo as K.
        destruct is_max; destruct (keys_cmp (fst cand) (fst best)) eqn:E; cbn iota.
        - (* max, Eq: replace *) split; [exact Hc|]. split; [apply in_or_app; right; left; reflexivity|].
          apply Forall_app. split; [|constructor; [unfold le_dir; rewrite (tp_refl _ _ K); [discriminate|exact Hc]|constructor]].
          rewrite Forall_forall in *. intros kv Hkv. unfold le_dir. specialize (Hle kv Hkv). unfold le_dir in Hle.
          apply (tp_le _ _ K (fst kv) (fst best) (fst cand)); [apply Hs; exact Hkv|exact Hb|exact Hc|exact Hle|].
          rewrite (tp_anti _ _ K (fst cand) (fst best) Hc Hb), E. discriminate.
        - (* max, Lt: keep *) split; [exact Hb|]. split; [apply in_or_app; left; exact Hin|].
          apply Forall_app. split; [exact Hle|]. constructor; [|constructor]. unfold le_dir. rewrite E. discriminate.
        - (* max, Gt: replace *) split; [exact Hc|]. split; [apply in_or_app; right; left; reflexivity|].
          apply Forall_app. split; [|constructor; [unfold le_dir; rewrite (tp_refl _ _ K); [discriminate|exact Hc]|constructor]].
          rewrite Forall_forall in *. intros kv Hkv. unfold le_dir. specialize (Hle kv Hkv). unfold le_dir in Hle.
          apply (tp_le _ _ K (fst kv) (fst best) (fst cand)); [apply Hs; exact Hkv|exact Hb|exact Hc|exact Hle|].
          rewrite (tp_anti _ _ K (fst cand) (fst best) Hc Hb), E. discriminate.
        - (* min, Eq: keep *) split; [exact Hb|]. split; [apply in_or_app; left; exact Hin|].
          apply Forall_app. split; [exact Hle|]. constructor; [|constructor]. unfold le_dir.
          rewrite (tp_anti _ _ K (fst cand) (fst best) Hc Hb), E. discriminate.
        - (* min, Lt: replace *) split; [exact Hc|]. split; [apply in_or_app; right; left; reflexivity|].
          apply Forall_app. split; [|constructor; [unfold le_dir; rewrite (tp_refl _ _ K); [discriminate|exact Hc]|constructor]].
          rewrite Forall_forall in *. intros kv Hkv. unfold le_dir. specialize (Hle kv Hkv). unfold le_dir in Hle.
          apply (tp_le _ _ K (fst cand) (fst best) (fst kv)); [exact Hc|exact Hb|apply Hs; exact Hkv|rewrite E; discriminate|exact Hle].
        - (* min, Gt: keep *) split; [exact Hb|]. split; [apply in_or_app; left; exact Hin|].
          apply Forall_app. split; [exact Hle|]. constructor; [|constructor]. unfold le_dir.
          rewrite (tp_anti _ _ K (fst cand) (fst best) Hc Hb), E. discriminate. }
      cbv zeta in NEXT. destruct NEXT as (Hb' & Hin' & Hle').
      assert (Hs' : Forall keys_ok (seen ++ [cand])) by (apply Forall_app; split; [exact Hs|constructor; [exact Hc|constructor]]).
      pose proof (IH (step is_max best cand) (seen ++ [cand]) Hb' Hr' Hs' Hin' Hle') as R. cbv zeta in R.
      rewrite <- app_assoc in R. exact R.
  Qed.

  (** the result is an element of the input whose keys are extremal: not greater (min_by) / not smaller (max_by) than the keys
      of any element *)
  Theorem extremal_by_spec is_max f xs kx : keyed f xs = (kx, FEnd) -> Forall keys_ok kx ->
    match kx with
    | [] => extremal_by is_max f xs = SNil
    | _ => exists kv, In kv kx /\ extremal_by is_max f xs = sone (snd kv) /\ Forall (le_dir is_max kv) kx
    end.
  Proof.
    intros K Hk. unfold extremal_by. rewrite K. destruct kx as [|[k x] r]; [reflexivity|].
    inversion Hk as [|? ? Hb Hr]; subst.
    pose proof (fold_extremal is_max r (k, x) [(k, x)] Hb Hr ltac:(constructor; [exact Hb|constructor]) ltac:(left; reflexivity)) as R.
    assert (L0 : Forall (le_dir is_max (k, x)) [(k, x)]).
    { constructor; [|constructor]. unfold le_dir. destruct is_max; rewrite (tp_refl _ _ keys_tpo); try discriminate; exact Hb. }
    specialize (R L0). cbv zeta in R. cbn [app] in R. destruct R as [Hin Hle].
    exists (fold_left (step is_max) r (k, x)). split; [exact Hin|]. split; [reflexivity|exact Hle].
  Qed.
End EXTREMA.
