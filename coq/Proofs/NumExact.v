(** Integer arithmetic of [Num] is exact at any size and representation-independent. *)
From Coq Require Import ZArith Bool Lia List.
From JaqV Require Import Base.F64 Base.Bytes Val.Num.
Local Open Scope Z_scope.

Lemma int_val_int_or_big z : int_val (int_or_big z) = Some z.
Proof. unfold int_or_big. destruct (in_isize z); reflexivity. Qed.

Lemma is_int_int_or_big z : is_int (int_or_big z) = true.
Proof. unfold int_or_big. destruct (in_isize z); reflexivity. Qed.

(** sum, difference, product, negation, remainder of integers: exact, whatever the representation *)
Lemma add_exact x y a b : int_val x = Some a -> int_val y = Some b -> int_val (add x y) = Some (a + b).
Proof.
  destruct x, y; cbn; intros; try discriminate;
  repeat match goal with H : Some _ = Some _ |- _ => injection H as <- end;
  rewrite ?int_val_int_or_big; cbn; f_equal; lia.
Qed.

Lemma sub_exact x y a b : int_val x = Some a -> int_val y = Some b -> int_val (sub x y) = Some (a - b).
Proof.
  destruct x, y; cbn; intros; try discriminate;
  repeat match goal with H : Some _ = Some _ |- _ => injection H as <- end;
  rewrite ?int_val_int_or_big; reflexivity.
Qed.

Lemma mul_exact x y a b : int_val x = Some a -> int_val y = Some b -> int_val (mul x y) = Some (a * b).
Proof.
  destruct x, y; cbn; intros; try discriminate;
  repeat match goal with H : Some _ = Some _ |- _ => injection H as <- end;
  rewrite ?int_val_int_or_big; cbn; f_equal; lia.
Qed.

Lemma neg_exact x a : int_val x = Some a -> int_val (neg x) = Some (- a).
Proof.
  destruct x; cbn; intros; try discriminate;
  repeat match goal with H : Some _ = Some _ |- _ => injection H as <- end;
  rewrite ?int_val_int_or_big; reflexivity.
Qed.

(** truncated remainder, sign of the dividend (also [isize::MIN % -1 = 0]) *)
Lemma rem_exact x y a b : int_val x = Some a -> int_val y = Some b -> int_val (rem x y) = Some (Z.rem a b).
Proof.
  destruct x, y; cbn; intros; try discriminate;
  repeat match goal with H : Some _ = Some _ |- _ => injection H as <- end; reflexivity.
Qed.

Lemma rem_min_neg1 : Z.rem isize_min (-1) = 0.
Proof. reflexivity. Qed.

(** the result is an integer exactly when both operands are *)
Lemma add_int_iff x y : is_int (add x y) = is_int x && is_int y.
Proof. destruct x, y; cbn; rewrite ?is_int_int_or_big; reflexivity. Qed.
Lemma sub_int_iff x y : is_int (sub x y) = is_int x && is_int y.
Proof. destruct x, y; cbn; rewrite ?is_int_int_or_big; reflexivity. Qed.
Lemma mul_int_iff x y : is_int (mul x y) = is_int x && is_int y.
Proof. destruct x, y; cbn; rewrite ?is_int_int_or_big; reflexivity. Qed.
Lemma rem_int_iff x y : is_int (rem x y) = is_int x && is_int y.
Proof. destruct x, y; reflexivity. Qed.
Lemma div_never_int x y : is_int (div x y) = false.
Proof. reflexivity. Qed.

(** otherwise: the IEEE result of the converted operands *)
Lemma add_float x y : is_int x && is_int y = false -> add x y = Flt (fadd (to_f64 x) (to_f64 y)).
Proof. destruct x, y; cbn; intros; try discriminate; reflexivity. Qed.
Lemma sub_float x y : is_int x && is_int y = false -> sub x y = Flt (fsub (to_f64 x) (to_f64 y)).
Proof. destruct x, y; cbn; intros; try discriminate; reflexivity. Qed.
Lemma mul_float x y : is_int x && is_int y = false -> mul x y = Flt (fmul (to_f64 x) (to_f64 y)).
Proof. destruct x, y; cbn; intros; try discriminate; reflexivity. Qed.
Lemma rem_float x y : is_int x && is_int y = false -> rem x y = Flt (frem (to_f64 x) (to_f64 y)).
Proof. destruct x, y; cbn; intros; try discriminate; reflexivity. Qed.
Lemma div_float x y : div x y = Flt (fdiv (to_f64 x) (to_f64 y)).
Proof. reflexivity. Qed.

(** integer consumers see only the value: equal integers, however stored, give equal results *)
Lemma as_isize_repr x y a : int_val x = Some a -> int_val y = Some a -> num_is_wf x = true -> num_is_wf y = true ->
  as_isize x = as_isize y.
Proof.
  destruct x, y; cbn; intros H1 H2 W1 W2; try discriminate;
  injection H1 as <-; injection H2 as <-; try reflexivity.
  - rewrite W1. reflexivity.
  - rewrite W2. reflexivity.
Qed.

Lemma abs_isize_le_usize i : in_isize i = true -> Z.min (Z.abs i) usize_max = Z.abs i.
Proof.
  unfold in_isize, isize_min, isize_max, usize_max.
  assert (T63 : two63 = 9223372036854775808) by reflexivity.
  assert (T64 : two64 = 18446744073709551616) by reflexivity.
  generalize dependent two63. generalize dependent two64. intros t64 T64 t63 T63 W.
  apply andb_prop in W. destruct W as [A B]. apply Z.leb_le in A. apply Z.leb_le in B.
  apply Z.min_l. lia.
Qed.

Lemma as_pos_usize_repr x y a : int_val x = Some a -> int_val y = Some a -> num_is_wf x = true -> num_is_wf y = true ->
  as_pos_usize x = as_pos_usize y.
Proof.
  destruct x as [i| |?|?], y as [j|w|?|?]; cbn [as_pos_usize int_val num_is_wf]; intros H1 H2 W1 W2; try discriminate.
  - congruence.
  - injection H1 as ->. injection H2 as ->. rewrite (abs_isize_le_usize _ W1). reflexivity.
  - injection H1 as ->. injection H2 as ->. rewrite (abs_isize_le_usize _ W2). reflexivity.
  - injection H1 as ->. injection H2 as ->. reflexivity.
Qed.

Lemma num_cmp_ints x y a b : int_val x = Some a -> int_val y = Some b -> num_cmp x y = Z.compare a b.
Proof.
  destruct x, y; cbn; intros H1 H2; try discriminate; injection H1 as <-; injection H2 as <-; reflexivity.
Qed.

Lemma num_eqb_ints x y a b : int_val x = Some a -> int_val y = Some b -> num_eqb x y = (a =? b).
Proof.
  destruct x, y; cbn; intros H1 H2; try discriminate; injection H1 as <-; injection H2 as <-;
  try reflexivity; apply Z.eqb_sym.
Qed.
