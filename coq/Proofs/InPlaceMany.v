(** `--in-place` over several files: at every moment every file holds its old bytes or its complete new contents;
    the files before a failing one keep their new contents, the failing one and the later ones their old;
    no temporary file is left behind. *)
From Coq Require Import ZArith Bool List Lia.
From JaqV Require Import Base.Bytes Cli.InPlace Proofs.InPlaceLaws.
Import ListNotations.

Lemma in_firstn {A} (x : A) k l : In x (firstn k l) -> In x l.
Proof. revert k; induction l as [|y r IH]; intros [|k] H; cbn in *; try tauto. destruct H as [H|H]; [auto | right; eapply IH; eassumption]. Qed.

(** the operations on one file name only that file and its temporary file *)
Lemma ops_names (j : job) o : In o (ops_of j) -> forall q, In q (op_names o) -> q = j_tmp j \/ q = j_path j.
Proof.
  unfold ops_of. cbn [In]. intros [<-|Ho] q Hq; [cbn in Hq; intuition congruence|]. apply in_app_or in Ho as [Ho|Ho].
  - apply in_map_iff in Ho as (b & <- & _). cbn in Hq. intuition congruence.
  - destruct (j_ok j); cbn [In] in Ho; destruct Ho as [<-|Ho]; try (cbn in Hq; intuition congruence);
      destruct Ho as [<-|[]]; cbn in Hq; intuition congruence.
Qed.

Lemma all_ops_from (js : list job) o : In o (all_ops js) -> exists j, In j js /\ In o (ops_of j).
Proof.
  induction js as [|j r IH]; cbn [all_ops]; intros H; [destruct H|]. apply in_app_or in H as [H|H].
  - exists j. split; [left; reflexivity | exact H].
  - destruct (j_ok j); [|destruct H]. destruct (IH H) as [j' [Hin Ho]]. exists j'. split; [right; exact Hin | exact Ho].
Qed.

Lemma all_ops_frame (js : list job) k q d : (forall j, In j js -> q <> j_tmp j /\ q <> j_path j) ->
  lookup (run_ops d (firstn k (all_ops js))) q = lookup d q.
Proof.
  intros H. apply run_ops_frame. intros o Ho Hq. apply in_firstn in Ho.
  destruct (all_ops_from _ _ Ho) as [j [Hj Hoj]]. destruct (H j Hj) as [Ht Hp].
  destruct (ops_names j o Hoj q Hq); congruence.
Qed.

Lemma all_ops_frame_all (js : list job) q d : (forall j, In j js -> q <> j_tmp j /\ q <> j_path j) ->
  lookup (run_ops d (all_ops js)) q = lookup d q.
Proof. intros H. rewrite <- (firstn_all (all_ops js)). apply all_ops_frame. exact H. Qed.

Lemma ops_frame_prefix (j : job) k q d : q <> j_tmp j -> q <> j_path j ->
  lookup (run_ops d (firstn k (ops_of j))) q = lookup d q.
Proof.
  intros Ht Hp. apply run_ops_frame. intros o Ho Hq. apply in_firstn in Ho.
  destruct (ops_names j o Ho q Hq); congruence.
Qed.

Lemma tmp_data (j : job) d :
  option_map f_data (lookup (run_ops d (CreateTmp (j_tmp j) :: map (Append (j_tmp j)) (j_chunks j))) (j_tmp j)) = Some (new_data j).
Proof.
  cbn [run_ops fold_left]. fold (run_ops (step d (CreateTmp (j_tmp j))) (map (Append (j_tmp j)) (j_chunks j))).
  rewrite (appends_data (j_tmp j) (j_chunks j) _ {| f_data := []; f_mode := 384%Z |}); [reflexivity|].
  cbn [step]. rewrite lookup_set, Nat.eqb_refl. reflexivity.
Qed.

(** a successful run leaves exactly the output in the file (whatever the permission bits) *)
Lemma success_data (j : job) d : j_tmp j <> j_path j -> j_ok j = true ->
  data_at (run_ops d (ops_of j)) (j_path j) = Some (new_data j).
Proof.
  intros Hne Hok. unfold ops_of. rewrite Hok.
  set (t := j_tmp j) in *. set (p := j_path j) in *.
  change (CreateTmp t :: map (Append t) (j_chunks j) ++ [Rename t p; Chmod p (j_mode j)])
    with ((CreateTmp t :: map (Append t) (j_chunks j)) ++ [Rename t p; Chmod p (j_mode j)]).
  rewrite run_ops_app. pose proof (tmp_data j d) as Htmp. fold t in Htmp.
  set (d1 := run_ops d (CreateTmp t :: map (Append t) (j_chunks j))) in *.
  unfold run_ops, data_at. cbn [fold_left step].
  destruct (lookup d1 t) as [f|] eqn:Ef; [|discriminate].
  rewrite lookup_set, Nat.eqb_refl. rewrite lookup_set, Nat.eqb_refl. cbn in Htmp. cbn. congruence.
Qed.

(** the temporary file is gone after the run, successful or not *)
Lemma tmp_gone (j : job) d : j_tmp j <> j_path j -> lookup (run_ops d (ops_of j)) (j_tmp j) = None.
Proof.
  intros Hne. unfold ops_of.
  set (t := j_tmp j) in *. set (p := j_path j) in *.
  change (CreateTmp t :: map (Append t) (j_chunks j) ++ (if j_ok j then [Rename t p; Chmod p (j_mode j)] else [Unlink t]))
    with ((CreateTmp t :: map (Append t) (j_chunks j)) ++ (if j_ok j then [Rename t p; Chmod p (j_mode j)] else [Unlink t])).
  rewrite run_ops_app. pose proof (tmp_data j d) as Htmp. fold t in Htmp.
  set (d1 := run_ops d (CreateTmp t :: map (Append t) (j_chunks j))) in *.
  destruct (j_ok j); unfold run_ops; cbn [fold_left step].
  - destruct (lookup d1 t) as [f|] eqn:Ef; [|discriminate].
    rewrite lookup_set, Nat.eqb_refl. rewrite lookup_set.
    destruct (Nat.eqb t p) eqn:E; [apply Nat.eqb_eq in E; congruence|].
    rewrite lookup_set, E. rewrite lookup_remove, Nat.eqb_refl. reflexivity.
  - rewrite lookup_remove, Nat.eqb_refl. reflexivity.
Qed.

(** the files are distinct, and no temporary name is the name of a file to process *)
Definition wf (js : list job) : Prop :=
  NoDup (map j_path js) /\ (forall j j', In j js -> In j' js -> j_tmp j <> j_path j').

Lemma wf_tail j r : wf (j :: r) -> wf r.
Proof. intros [Hn Ht]. split; [inversion Hn; assumption | intros a b Ha Hb; apply Ht; right; assumption]. Qed.

Lemma wf_head j r : wf (j :: r) -> j_tmp j <> j_path j /\ forall j', In j' r -> j_path j <> j_tmp j' /\ j_path j <> j_path j' /\ j_path j' <> j_tmp j.
Proof.
  intros [Hn Ht]. split; [apply Ht; left; reflexivity|]. intros j' Hj'. repeat split.
  - intros E. apply (Ht j' j); [right; exact Hj' | left; reflexivity | congruence].
  - intros E. cbn in Hn. inversion Hn as [|? ? Hnot _]; subst. apply Hnot. rewrite E. apply in_map. exact Hj'.
  - intros E. apply (Ht j j'); [left; reflexivity | right; exact Hj' | congruence].
Qed.

(** at every moment - after any prefix of the operations of the whole run, e.g. when the process is killed - every file
    holds its original bytes or, only when its own run succeeded, exactly its complete output *)
Theorem atomic_many : forall (js : list job) (d : dir) k, wf js ->
  (forall j, In j js -> data_at d (j_path j) <> None) ->
  let d' := run_ops d (firstn k (all_ops js)) in
  forall j, In j js ->
    data_at d' (j_path j) = data_at d (j_path j) \/ (j_ok j = true /\ data_at d' (j_path j) = Some (new_data j)).
Proof.
  induction js as [|j r IH]; intros d k Hwf Hex; cbn zeta; intros j0 Hj0; [destruct Hj0|].
  destruct (wf_head _ _ Hwf) as [Hne Hoth]. cbn [all_ops]. rewrite firstn_app, run_ops_app.
  set (d1 := run_ops d (firstn k (ops_of j))).
  set (k2 := (k - length (ops_of j))%nat).
  set (rest := if j_ok j then all_ops r else []).
  (* the operations of the later files do not touch the first one *)
  assert (Hrest_j : lookup (run_ops d1 (firstn k2 rest)) (j_path j) = lookup d1 (j_path j)).
  { unfold rest. destruct (j_ok j); [|rewrite firstn_nil; reflexivity].
    apply all_ops_frame. intros j' Hj'. destruct (Hoth j' Hj') as [A [B _]]. split; assumption. }
  destruct Hj0 as [<-|Hr].
  - (* the first file *)
    unfold data_at. rewrite Hrest_j. fold (data_at d1 (j_path j)). fold (data_at d (j_path j)).
    destruct (data_at d (j_path j)) as [old|] eqn:Eold; [|exfalso; apply (Hex j); [left; reflexivity | exact Eold]].
    exact (atomic_one j d old k Hne Eold).
  - (* a later file: untouched by the first one's operations *)
    assert (Hd1 : forall q, q <> j_tmp j -> q <> j_path j -> lookup d1 q = lookup d q).
    { intros q Hq1 Hq2. apply ops_frame_prefix; assumption. }
    destruct (Hoth j0 Hr) as [_ [Hpp Hpt]].
    assert (Hsame : data_at d1 (j_path j0) = data_at d (j_path j0)).
    { unfold data_at. rewrite Hd1; [reflexivity | exact Hpt | congruence]. }
    unfold rest. destruct (j_ok j).
    + rewrite <- Hsame. apply (IH d1 k2 (wf_tail _ _ Hwf)); [|exact Hr].
      intros j' Hj'. destruct (Hoth j' Hj') as [_ [Hpp' Hpt']].
      unfold data_at. rewrite Hd1; [apply (Hex j'); right; exact Hj' | exact Hpt' | congruence].
    + rewrite firstn_nil. left. exact Hsame.
Qed.

(** the state after the whole run, file by file: the files up to the first failing one hold their outputs,
    the failing one and all later ones their old contents *)
Theorem outcome_many : forall (pre post : list job) (d : dir), wf (pre ++ post) ->
  (forall j, In j pre -> j_ok j = true) ->
  (match post with bad :: _ => j_ok bad = false | [] => True end) ->
  let d' := run_ops d (all_ops (pre ++ post)) in
  (forall j, In j pre -> data_at d' (j_path j) = Some (new_data j))
  /\ (forall j, In j post -> lookup d' (j_path j) = lookup d (j_path j)).
Proof.
  induction pre as [|j r IH]; intros post d Hwf Hok Hbad; cbn zeta.
  - split; [intros j []|]. cbn [app] in *. destruct post as [|bad post]; [intros j []|].
    cbn [all_ops]. rewrite Hbad, app_nil_r. intros j Hj.
    destruct (wf_head _ _ Hwf) as [Hne Hoth].
    destruct Hj as [<-|Hj]; [exact (proj1 (failure_state bad d Hne Hbad))|].
    destruct (Hoth j Hj) as [_ [Hpp Hpt]]. apply in_place_frame; congruence.
  - cbn [app] in Hwf. destruct (wf_head _ _ Hwf) as [Hne Hoth].
    cbn [app all_ops]. rewrite (Hok j (or_introl eq_refl)), run_ops_app.
    set (d1 := run_ops d (ops_of j)).
    destruct (IH post d1 (wf_tail _ _ Hwf) (fun x Hx => Hok x (or_intror Hx)) Hbad) as [Hpre Hpost]. split.
    + intros j0 [<-|Hj0]; [|apply Hpre, Hj0].
      unfold data_at. rewrite all_ops_frame_all.
      * apply success_data; [exact Hne | apply Hok; left; reflexivity].
      * intros j' Hj'. destruct (Hoth j' Hj') as [A [B _]]. split; assumption.
    + intros j0 Hj0. rewrite (Hpost j0 Hj0).
      destruct (Hoth j0 (in_or_app _ _ _ (or_intror Hj0))) as [_ [Hpp Hpt]]. apply in_place_frame; congruence.
Qed.

(** no temporary file of the run is left behind, however far the run got *)
Theorem no_tmp_left : forall (js : list job) (d : dir) t, wf js ->
  (forall j, In j js -> t <> j_path j) -> lookup d t = None -> lookup (run_ops d (all_ops js)) t = None.
Proof.
  induction js as [|j r IH]; intros d t Hwf Hp Hd; [exact Hd|].
  destruct (wf_head _ _ Hwf) as [Hne _]. cbn [all_ops]. rewrite run_ops_app.
  assert (H1 : lookup (run_ops d (ops_of j)) t = None).
  { destruct (Nat.eq_dec t (j_tmp j)) as [->|Hnt]; [apply tmp_gone, Hne|].
    rewrite in_place_frame; [exact Hd | apply Hp; left; reflexivity | exact Hnt]. }
  destruct (j_ok j); [|exact H1].
  apply IH; [exact (wf_tail _ _ Hwf) | intros j' Hj'; apply Hp; right; exact Hj' | exact H1].
Qed.

Theorem every_tmp_removed : forall (js : list job) (d : dir), wf js ->
  (forall j, In j js -> lookup d (j_tmp j) = None) ->
  forall j, In j js -> lookup (run_ops d (all_ops js)) (j_tmp j) = None.
Proof.
  intros js d Hwf Hd j Hj. apply no_tmp_left; [exact Hwf | | apply Hd, Hj].
  intros j' Hj'. destruct Hwf as [_ Ht]. apply Ht; assumption.
Qed.

(** non-vacuity: three files, the second fails *)
Example three_files :
  let j n ok := {| j_path := n; j_tmp := 100 + n; j_chunks := [of_ascii [65%Z]; of_ascii [66%Z]]; j_ok := ok; j_mode := 420%Z |} in
  let f z := {| f_data := of_ascii [z]; f_mode := 420%Z |} in
  let d := [(1, f 1%Z); (2, f 2%Z); (3, f 3%Z)] in
  let d' := run_ops d (all_ops [j 1 true; j 2 false; j 3 true]) in
  (data_at d' 1, data_at d' 2, data_at d' 3, lookup d' 101, lookup d' 102)
  = (Some (of_ascii [65; 66]%Z), Some (of_ascii [2%Z]), Some (of_ascii [3%Z]), None, None).
Proof. vm_compute. reflexivity. Qed.
