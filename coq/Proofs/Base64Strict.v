(** C13: the strict base64 decoder of the model accepts nothing but what the encoder writes: an accepted text is the
    encoding of its result, so malformed, truncated or non-canonical input is rejected and never silently shortened. *)
From Coq Require Import ZArith Bool List Lia.
From Coq Require Import Init.Byte.
From JaqV Require Import Base.Bytes Std.Codec Proofs.DigitLaws Proofs.CodecLaws.
Import ListNotations.
Local Open Scope Z_scope.
Ltac Zify.zify_post_hook ::= Z.div_mod_to_equations.

Lemma b64_char_val_all :
  forallb (fun z => match b64_val (zb z) with
                    | Some k => (0 <=? k) && (k <? 64) && byte_eqb (b64_char k) (zb z)
                    | None => true
                    end) (zrange 0 256) = true.
Proof. vm_compute. reflexivity. Qed.

Lemma b64_char_val c k : b64_val c = Some k -> 0 <= k < 64 /\ b64_char k = c.
Proof.
  intros H. pose proof b64_char_val_all as A. rewrite forallb_forall in A.
  specialize (A (bz c) (in_zrange 256 0 (bz c) ltac:(pose proof (bz_range c); lia))).
  rewrite zb_bz, H in A. apply andb_true_iff in A. destruct A as [A1 A3]. apply andb_true_iff in A1. destruct A1 as [A1 A2].
  apply Z.leb_le in A1. apply Z.ltb_lt in A2. split; [lia|]. destruct (byte_eqb_spec (b64_char k) c); [assumption|discriminate].
Qed.

Lemma quad x y z w : 0 <= x < 64 -> 0 <= y < 64 -> 0 <= z < 64 -> 0 <= w < 64 ->
  let a := x * 4 + y / 16 in let b := (y mod 16) * 16 + z / 4 in let c := (z mod 4) * 64 + w in
  let n := a * 65536 + b * 256 + c in
  0 <= a < 256 /\ 0 <= b < 256 /\ 0 <= c < 256 /\ n / 262144 = x /\ (n / 4096) mod 64 = y /\ (n / 64) mod 64 = z /\ n mod 64 = w.
Proof. intros. cbv zeta. repeat split; lia. Qed.

Lemma encode3 a b c r : b64_encode (a :: b :: c :: r) =
  let n := bz a * 65536 + bz b * 256 + bz c in
  b64_char (n / 262144) :: b64_char ((n / 4096) mod 64) :: b64_char ((n / 64) mod 64) :: b64_char (n mod 64) :: b64_encode r.
Proof. reflexivity. Qed.

(** strict decoding accepts nothing but what the encoder writes: an accepted text is the encoding of its result *)
Theorem base64_decode_is_strict : forall fuel s r, b64_decode fuel s = Some r -> b64_encode r = s.
Proof.
  induction fuel as [|fuel IH]; intros s r H; [discriminate|].
  destruct s as [|a [|b [|c [|d t]]]]; cbn [b64_decode] in H; try discriminate.
  { injection H as <-. reflexivity. }
  destruct (b64_val a) as [x|] eqn:Ea; [|destruct t; discriminate].
  destruct (b64_val b) as [y|] eqn:Eb; [|destruct t; discriminate].
  destruct (b64_char_val a x Ea) as [Hx <-]. destruct (b64_char_val b y Eb) as [Hy <-].
  destruct t as [|t0 t].
  - (* the last quadruple *)
    destruct (byte_eqb_spec c pad) as [->|Nc]; cbn [andb] in H.
    + destruct (byte_eqb_spec d pad) as [->|Nd].
      * destruct (Z.eqb_spec (y mod 16) 0) as [Ey|Ey]; [|discriminate]. injection H as <-.
        cbn [b64_encode]. rewrite bz_zb by lia. cbv zeta. repeat f_equal; lia.
      * change (b64_val pad) with (@None Z) in H. discriminate.
    + destruct (b64_val c) as [z|] eqn:Ec; [|discriminate]. destruct (b64_char_val c z Ec) as [Hz <-].
      destruct (byte_eqb_spec d pad) as [->|Nd].
      * destruct (Z.eqb_spec (z mod 4) 0) as [Ez|Ez]; [|discriminate]. injection H as <-.
        cbn [b64_encode]. rewrite !bz_zb by lia. cbv zeta. repeat f_equal; lia.
      * destruct (b64_val d) as [w|] eqn:Ed; [|discriminate]. destruct (b64_char_val d w Ed) as [Hw <-].
        injection H as <-. destruct (quad x y z w Hx Hy Hz Hw) as (Ba & Bb & Bc & Q1 & Q2 & Q3 & Q4).
        rewrite encode3. rewrite !bz_zb by assumption. cbv zeta. rewrite Q1, Q2, Q3, Q4. reflexivity.
  - destruct (b64_val c) as [z|] eqn:Ec; [|discriminate]. destruct (b64_val d) as [w|] eqn:Ed; [|discriminate].
    destruct (b64_char_val c z Ec) as [Hz <-]. destruct (b64_char_val d w Ed) as [Hw <-].
    destruct (b64_decode fuel (t0 :: t)) as [u|] eqn:Eu; [|discriminate]. injection H as <-.
    destruct (quad x y z w Hx Hy Hz Hw) as (Ba & Bb & Bc & Q1 & Q2 & Q3 & Q4).
    rewrite encode3. rewrite !bz_zb by assumption. cbv zeta. rewrite Q1, Q2, Q3, Q4. rewrite (IH _ _ Eu). reflexivity.
Qed.

(** hence no two accepted texts decode to the same bytes, and a truncated or altered encoding is never accepted as something else's encoding *)
Corollary base64_decode_injective fuel fuel' s s' r : b64_decode fuel s = Some r -> b64_decode fuel' s' = Some r -> s = s'.
Proof. intros H H'. rewrite <- (base64_decode_is_strict _ _ _ H), <- (base64_decode_is_strict _ _ _ H'). reflexivity. Qed.
