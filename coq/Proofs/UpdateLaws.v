(** The position model of element updates (jaq-json/src/lib.rs: map_index, map_range as modelled in Core/Run.v):
    an update applies its filter to exactly the value the corresponding read yields, puts the result at exactly that position
    and leaves every other element - and the order of the keys of an object - unchanged. *)
From Coq Require Import ZArith Bool List Lia.
From JaqV Require Import Base.Bytes Base.Stream Val.Num Val.Val Val.Err Val.Index Core.Run Proofs.SafeLaws.
Import ListNotations.
Local Open Scope Z_scope.

(** ** lists *)
Lemma replace_at_length A k (y : A) l : length (replace_at k y l) = length l.
Proof. revert k; induction l as [|x l IH]; intros [|k]; cbn; auto. Qed.
Lemma replace_at_same A k (y : A) l : (k < length l)%nat -> nth_error (replace_at k y l) k = Some y.
Proof. revert k; induction l as [|x l IH]; intros [|k] H; cbn in *; try lia; [reflexivity|apply IH; lia]. Qed.
Lemma replace_at_other A k j (y : A) l : j <> k -> nth_error (replace_at k y l) j = nth_error l j.
Proof. revert k j; induction l as [|x l IH]; intros [|k] [|j] H; cbn; try reflexivity; try congruence. apply IH. congruence. Qed.

Lemma remove_at_length A k (l : list A) : (k < length l)%nat -> S (length (remove_at k l)) = length l.
Proof. revert k; induction l as [|x l IH]; intros [|k] H; cbn in *; try lia. rewrite IH by lia. reflexivity. Qed.
Lemma remove_at_before A k j (l : list A) : (j < k)%nat -> nth_error (remove_at k l) j = nth_error l j.
Proof. revert k j; induction l as [|x l IH]; intros [|k] [|j] H; cbn; try reflexivity; try lia. apply IH. lia. Qed.
Lemma remove_at_after A k j (l : list A) : (k <= j)%nat -> nth_error (remove_at k l) j = nth_error l (S j).
Proof.
  revert k j; induction l as [|x l IH]; intros k j H.
  - destruct k, j; reflexivity.
  - destruct k as [|k]; [reflexivity|]. destruct j as [|j]; [lia|]. cbn [remove_at nth_error]. apply IH. lia.
Qed.

Lemma skipn_add A (l : list A) : forall n m, skipn n (skipn m l) = skipn (n + m) l.
Proof.
  induction l as [|x l IH]; intros n m; [rewrite !skipn_nil; reflexivity|].
  destruct m as [|m]; [rewrite Nat.add_0_r; reflexivity|]. rewrite Nat.add_succ_r. cbn [skipn]. apply IH.
Qed.

(** [splice l s t y]: the [t] elements from position [s] are replaced by [y] *)
Section SPLICE.
  Context {A : Type}.
  Variables (l y : list A) (s t : Z).
  Hypothesis Hs : 0 <= s.
  Hypothesis Ht : 0 <= t.
  Hypothesis Hst : s + t <= Z.of_nat (length l).

  Lemma splice_before : firstn (Z.to_nat s) (splice l s t y) = firstn (Z.to_nat s) l.
  Proof.
    unfold splice. rewrite firstn_app. rewrite firstn_length, Nat.min_l by lia. rewrite Nat.sub_diag. cbn [firstn].
    rewrite app_nil_r. rewrite firstn_firstn, Nat.min_id. reflexivity.
  Qed.
  Lemma splice_after : skipn (Z.to_nat s + length y) (splice l s t y) = skipn (Z.to_nat (s + t)) l.
  Proof.
    unfold splice. rewrite app_assoc. rewrite skipn_app.
    assert (L : length (firstn (Z.to_nat s) l ++ y) = (Z.to_nat s + length y)%nat) by (rewrite app_length, firstn_length, Nat.min_l by lia; reflexivity).
    rewrite L, Nat.sub_diag. cbn [skipn]. rewrite skipn_all2 by lia. reflexivity.
  Qed.
  Lemma splice_middle : slice (splice l s t y) s (Z.of_nat (length y)) = y.
  Proof.
    unfold slice, splice. rewrite Nat2Z.id. rewrite skipn_app. rewrite firstn_length, Nat.min_l by lia. rewrite Nat.sub_diag. cbn [skipn].
    rewrite skipn_all2 by (rewrite firstn_length; lia). cbn [app]. rewrite firstn_app, Nat.sub_diag. cbn [firstn]. rewrite app_nil_r. apply firstn_all.
  Qed.
  Lemma splice_length : Z.of_nat (length (splice l s t y)) = Z.of_nat (length l) - t + Z.of_nat (length y).
  Proof. unfold splice. rewrite !app_length, firstn_length, skipn_length, Nat.min_l by lia. lia. Qed.
  (** writing back what was read changes nothing *)
  Lemma splice_slice_id : splice l s t (slice l s t) = l.
  Proof.
    unfold splice, slice. replace (Z.to_nat (s + t)) with (Z.to_nat t + Z.to_nat s)%nat by lia.
    rewrite <- skipn_add. rewrite firstn_skipn. apply firstn_skipn.
  Qed.
End SPLICE.

(** ** positions given as values *)
Lemma pos_usize_num i p : val_as_pos_usize i = Ok p ->
  exists n, i = Num n /\ as_pos_usize n = Some p /\ (exists z, n = Int z \/ n = Big z) /\ 0 <= snd p.
Proof.
  unfold val_as_pos_usize. destruct i as [| | n | | | |]; try discriminate.
  destruct (as_pos_usize n) as [q|] eqn:E; [|discriminate]. intros H. injection H as <-.
  exists n. split; [reflexivity|]. split; [exact E|]. unfold as_pos_usize in E.
  destruct n as [z|z|?|?]; try discriminate; injection E as <-; cbn [snd].
  - split; [exists z; left; reflexivity|lia].
  - split; [exists z; right; reflexivity|]. assert (0 <= usize_max) by (vm_compute; discriminate). lia.
Qed.

Lemma abs_index_nat p len k : abs_index p len = Some k -> 0 <= len -> 0 <= snd p -> 0 <= k < len.
Proof. apply abs_index_inside. Qed.

(** ** arrays, `.[i]`: inside, the update applies the filter to the element that is read and replaces (or removes) exactly it *)
Theorem arr_index_inside a i p k opt f :
  val_as_pos_usize i = Ok p -> abs_index p (Z.of_nat (length a)) = Some k ->
  exists x, nth_error a (Z.to_nat k) = Some x
    /\ index_opt (Arr a) i = Ok (Some x)
    /\ map_index (Arr a) i opt f
       = match first (f x) with
         | FSome y => sone (Arr (replace_at (Z.to_nat k) y a))
         | FNone => sone (Arr (remove_at (Z.to_nat k) a))
         | FFail t => fin_str t
         end.
Proof.
  intros Hp Hk. destruct (pos_usize_num i p Hp) as (n & -> & Hn & (z & Hz) & Hm).
  pose proof (abs_index_nat p _ k Hk ltac:(lia) Hm) as Hr.
  destruct (nth_error a (Z.to_nat k)) as [x|] eqn:E; [|apply nth_error_None in E; lia].
  exists x. split; [reflexivity|]. split.
  - destruct Hz as [-> | ->]; cbn [index_opt]; rewrite Hn, Hk, E; reflexivity.
  - unfold map_index. rewrite Hp, Hk, E. reflexivity.
Qed.

(** outside, reading yields null and the update is refused - or skipped under `?` *)
Theorem arr_index_outside a i p f :
  val_as_pos_usize i = Ok p -> abs_index p (Z.of_nat (length a)) = None ->
  vindex (Arr a) i = Ok Null
  /\ map_index (Arr a) i false f = serr (EOob i)
  /\ map_index (Arr a) i true f = sone (Arr a).
Proof.
  intros Hp Hk. destruct (pos_usize_num i p Hp) as (n & -> & Hn & (z & Hz) & Hm). split; [|split].
  - unfold vindex. destruct Hz as [-> | ->]; cbn [index_opt]; rewrite Hn, Hk; reflexivity.
  - unfold map_index. rewrite Hp, Hk. reflexivity.
  - unfold map_index. rewrite Hp, Hk. reflexivity.
Qed.

(** a position that is not an integer is an error for reading and for updating *)
Theorem arr_index_wrong a i e f : val_as_pos_usize i = Err e -> (forall o, i <> Obj o) -> (forall y, i <> Arr y) ->
  map_index (Arr a) i false f = serr e /\ map_index (Arr a) i true f = sone (Arr a) /\ exists e', index_opt (Arr a) i = Err e'.
Proof.
  intros He Ho Ha. unfold map_index. destruct i as [| | n | | | y| o]; try (rewrite He; repeat split; eexists; reflexivity).
  - rewrite He. repeat split. unfold val_as_pos_usize in He. destruct n as [z|z|?|?]; try discriminate; eexists; reflexivity.
  - exfalso. apply (Ha y). reflexivity.
  - exfalso. apply (Ho o). reflexivity.
Qed.

(** ** slices *)
Lemma range_bound_nonneg o p : range_bound o = Ok (Some p) -> 0 <= snd p.
Proof.
  unfold range_bound. destruct o as [v|]; [|discriminate]. destruct v; try discriminate;
    (destruct (val_as_pos_usize _) as [q|] eqn:E; [|discriminate]); cbn [rmap]; intros H; injection H as <-;
    destruct (pos_usize_num _ _ E) as (? & _ & _ & _ & H); exact H.
Qed.

Lemma skip_take_bounds r len : 0 <= len ->
  (forall p, fst r = Some p -> 0 <= snd p) -> (forall p, snd r = Some p -> 0 <= snd p) ->
  forall s t, skip_take r len = (s, t) -> 0 <= s /\ 0 <= t /\ s + t <= len.
Proof.
  intros Hlen Ha Hb s t E. destruct r as [a b]. unfold skip_take, abs_bound in E. cbn [fst snd] in *. injection E as <- <-.
  assert (forall o : option pos_usize, (forall p, o = Some p -> 0 <= snd p) -> forall d, 0 <= d <= len ->
            0 <= match o with None => d | Some p => Z.min (match wrap p len with Some x => x | None => 0 end) len end <= len) as Hb0.
  { intros [[nn m]|] Hp d Hd; [|lia]. specialize (Hp _ eq_refl). cbn in Hp. unfold wrap.
    destruct nn; [lia|]. destruct (Z.leb_spec m len); lia. }
  pose proof (Hb0 a Ha 0 ltac:(lia)) as H1. pose proof (Hb0 b Hb len ltac:(lia)) as H2. lia.
Qed.

Lemma range_int_bounds r ri : range_int r = Ok ri ->
  (forall p, fst ri = Some p -> 0 <= snd p) /\ (forall p, snd ri = Some p -> 0 <= snd p).
Proof.
  unfold range_int. destruct (range_bound (fst r)) as [a|] eqn:Ea; [|discriminate]. cbn [rbind].
  destruct (range_bound (snd r)) as [b|] eqn:Eb; [|discriminate]. cbn [rbind]. intros H. injection H as <-. cbn [fst snd].
  split; intros p ->; eapply range_bound_nonneg; eassumption.
Qed.

(** arrays: reading `.[i:j]` and updating it use the same clipped window; the update replaces the window by the first output
    and keeps everything before and after it *)
Theorem arr_slice_update a r ri opt f s t :
  range_int r = Ok ri -> skip_take ri (Z.of_nat (length a)) = (s, t) ->
  vrange (Arr a) r = Ok (Arr (slice a s t))
  /\ map_range (Arr a) r opt f
     = match first (f (Arr (slice a s t))) with
       | FSome (Arr y) => sone (Arr (splice a s t y))
       | FSome y => serr (ETyp y TArr)
       | FNone => sone (Arr (splice a s t []))
       | FFail u => fin_str u
       end
  /\ (0 <= s /\ 0 <= t /\ s + t <= Z.of_nat (length a))
  /\ forall y, firstn (Z.to_nat s) (splice a s t y) = firstn (Z.to_nat s) a
               /\ skipn (Z.to_nat s + length y) (splice a s t y) = skipn (Z.to_nat (s + t)) a
               /\ slice (splice a s t y) s (Z.of_nat (length y)) = y
               /\ splice a s t (slice a s t) = a.
Proof.
  intros Hr Hst. destruct (range_int_bounds r ri Hr) as [B1 B2].
  pose proof (skip_take_bounds ri _ (Zle_0_nat _) B1 B2 s t Hst) as (Hs & Ht & Hl).
  split; [unfold vrange; rewrite Hr; cbn [rmap]; rewrite Hst; reflexivity|].
  split; [unfold map_range; rewrite Hr, Hst; reflexivity|]. split; [lia|].
  intros y. repeat split; [apply splice_before|apply splice_after|apply splice_middle|apply splice_slice_id]; assumption.
Qed.

(** byte strings: the same with bytes as positions *)
Theorem bytes_slice_update b r ri opt f s t :
  range_int r = Ok ri -> skip_take ri (Z.of_nat (length b)) = (s, t) ->
  vrange (BStr b) r = Ok (BStr (slice b s t))
  /\ map_range (BStr b) r opt f
     = match first (f (BStr (slice b s t))) with
       | FSome (BStr y) => sone (BStr (splice b s t y))
       | FSome y => serr (ETyp y TStrT)
       | FNone => sone (BStr (splice b s t []))
       | FFail u => fin_str u
       end
  /\ forall y, firstn (Z.to_nat s) (splice b s t y) = firstn (Z.to_nat s) b
               /\ skipn (Z.to_nat s + length y) (splice b s t y) = skipn (Z.to_nat (s + t)) b
               /\ slice (splice b s t y) s (Z.of_nat (length y)) = y.
Proof.
  intros Hr Hst. destruct (range_int_bounds r ri Hr) as [B1 B2].
  pose proof (skip_take_bounds ri _ (Zle_0_nat _) B1 B2 s t Hst) as (Hs & Ht & Hl).
  split; [unfold vrange; rewrite Hr; cbn [rmap]; rewrite Hst; reflexivity|].
  split; [unfold map_range; rewrite Hr, Hst; reflexivity|].
  intros y. repeat split; [apply splice_before|apply splice_after|apply splice_middle]; assumption.
Qed.

(** text strings: positions are characters; the window starts and ends on character boundaries (SafeLaws), and the update
    replaces exactly its bytes *)
Theorem text_slice_update b r ri opt f s t :
  range_int r = Ok ri -> skip_take_chars ri b = (s, t) ->
  vrange (TStr b) r = Ok (TStr (slice b s t))
  /\ map_range (TStr b) r opt f
     = match first (f (TStr (slice b s t))) with
       | FSome (TStr y) => sone (TStr (splice b s t y))
       | FSome y => serr (ETyp y TStrT)
       | FNone => sone (TStr (splice b s t []))
       | FFail u => fin_str u
       end
  /\ boundary b s /\ (t = 0 \/ boundary b (s + t))
  /\ (0 < t -> forall y, firstn (Z.to_nat s) (splice b s t y) = firstn (Z.to_nat s) b
               /\ skipn (Z.to_nat s + length y) (splice b s t y) = skipn (Z.to_nat (s + t)) b
               /\ slice (splice b s t y) s (Z.of_nat (length y)) = y).
Proof.
  intros Hr Hst.
  split; [unfold vrange; rewrite Hr; cbn [rmap]; rewrite Hst; reflexivity|].
  split; [unfold map_range; rewrite Hr, Hst; reflexivity|].
  pose proof (skip_take_chars_inside ri b) as Hin. rewrite Hst in Hin. destruct Hin as (Hs & Ht & Hsl & Hl).
  unfold skip_take_chars in Hst. injection Hst as Es Et.
  assert (Bs : boundary b s).
  { rewrite <- Es. destruct (fst ri) as [p|]; [apply byte_index_boundary|apply zero_boundary]. }
  split; [exact Bs|]. split.
  - destruct (Z.max_spec 0 (match snd ri with Some p => byte_index b p | None => Z.of_nat (length b) end - s)) as [[H1 H2]|[H1 H2]].
    + right. rewrite <- Et. rewrite Es, H2. replace (s + (_ - s)) with (match snd ri with Some p => byte_index b p | None => Z.of_nat (length b) end) by lia.
      destruct (snd ri) as [p|]; [apply byte_index_boundary|left; reflexivity].
    + left. rewrite <- Et, Es. exact H2.
  - intros Hpos y. destruct Hl as [->|Hl]; [lia|].
    repeat split; [apply splice_before|apply splice_after|apply splice_middle]; assumption.
Qed.

(** ** objects: any value as key *)
Lemma find_index_spec o k : forall j i, find_index o k j = Some i ->
  (j <= i)%nat /\ exists k' x, nth_error o (i - j) = Some (k', x) /\ hws_eqb (hash_writes k) (hash_writes k') && val_eqb k k' = true.
Proof.
  induction o as [|[k' x] o IH]; intros j i H; [discriminate|]. cbn [find_index] in H.
  destruct (hws_eqb (hash_writes k) (hash_writes k') && val_eqb k k') eqn:E.
  - injection H as <-. split; [lia|]. exists k', x. rewrite Nat.sub_diag. split; [reflexivity|exact E].
  - destruct (IH (S j) i H) as (Hle & k'' & x' & Hn & He). split; [lia|]. exists k'', x'. split; [|exact He].
    replace (i - j)%nat with (S (i - S j)) by lia. exact Hn.
Qed.

(** reading probes the same entry the update finds *)
Lemma find_hashed_index o k : forall j,
  find_hashed val_eqb o k = match find_index o k j with Some i => option_map snd (nth_error o (i - j)) | None => None end.
Proof.
  induction o as [|[k' x] o IH]; intros j; [reflexivity|]. cbn [find_hashed find_index].
  destruct (hws_eqb (hash_writes k) (hash_writes k') && val_eqb k k') eqn:E.
  - rewrite Nat.sub_diag. reflexivity.
  - rewrite (IH (S j)). destruct (find_index o k (S j)) as [i|] eqn:F; [|reflexivity].
    destruct (find_index_spec o k (S j) i F) as (Hle & _). replace (i - j)%nat with (S (i - S j)) by lia. reflexivity.
Qed.

Theorem obj_read o k : (length o <> 1)%nat ->
  index_opt (Obj o) k = Ok (match find_index o k 0 with Some i => option_map snd (nth_error o i) | None => None end).
Proof.
  intros Hl.
  assert (E : find_hashed val_eqb o k = match find_index o k 0 with Some i => option_map snd (nth_error o i) | None => None end).
  { rewrite (find_hashed_index o k 0). destruct (find_index o k 0); [rewrite Nat.sub_0_r|]; reflexivity. }
  rewrite <- E. cbn [index_opt]. f_equal. unfold get, get_with.
  destruct o as [|[k1 x1] [|kx2 o]]; [reflexivity|cbn in Hl; congruence|reflexivity].
Qed.

Lemma map_fst_replace_at (o : obj) i k' y : forall x, nth_error o i = Some (k', x) -> map fst (replace_at i (k', y) o) = map fst o.
Proof.
  revert i; induction o as [|[k1 x1] o IH]; intros [|i] x H; cbn in *; try discriminate.
  - injection H as -> _. reflexivity.
  - f_equal. eapply IH. exact H.
Qed.

(** a present key: the update applies the filter to the stored value and puts the first output in its place; the keys and
    their order stay as they are, every other entry is untouched; without output the entry is removed *)
Theorem obj_update_present o k i opt f :
  find_index o k 0 = Some i ->
  exists k' x, nth_error o i = Some (k', x)
    /\ map_index (Obj o) k opt f
       = match first (f x) with
         | FSome y => sone (Obj (replace_at i (k', y) o))
         | FNone => sone (Obj (swap_remove_at i o))
         | FFail t => fin_str t
         end
    /\ forall y, map fst (replace_at i (k', y) o) = map fst o
                 /\ nth_error (replace_at i (k', y) o) i = Some (k', y)
                 /\ forall j, j <> i -> nth_error (replace_at i (k', y) o) j = nth_error o j.
Proof.
  intros F. destruct (find_index_spec o k 0 i F) as (_ & k' & x & Hn & _). rewrite Nat.sub_0_r in Hn.
  exists k', x. split; [exact Hn|]. split.
  - unfold map_index. rewrite F, Hn. reflexivity.
  - intros y. split; [eapply map_fst_replace_at; exact Hn|]. split.
    + apply replace_at_same. apply nth_error_Some. congruence.
    + intros j Hj. apply replace_at_other. exact Hj.
Qed.

(** an absent key: the filter runs on null and its first output is appended under the key; without output nothing changes *)
Theorem obj_update_absent o k opt f :
  find_index o k 0 = None ->
  map_index (Obj o) k opt f
  = match first (f Null) with
    | FSome y => sone (Obj (o ++ [(k, y)]))
    | FNone => sone (Obj o)
    | FFail t => fin_str t
    end.
Proof. intros F. unfold map_index. rewrite F. reflexivity. Qed.

(** ** what is no container *)
Theorem update_refuses_null i f :
  map_index Null i false f = serr (ETyp Null TIter) /\ map_index Null i true f = sone Null
  /\ forall r, map_range Null r false f = serr (ETyp Null TArr) /\ map_range Null r true f = sone Null.
Proof. repeat split; destruct i; reflexivity. Qed.
