(** C12/C13: `indices` on text strings counts characters: the k-th character position is listed exactly when the needle's
    bytes stand at the byte offset of that character ([char_starts], the offsets `.[k:]` uses), increasing, each once. *)
From Coq Require Import List ZArith Lia Bool Sorting.Sorted.
From Coq Require Import Init.Byte.
From JaqV Require Import Base.Bytes Base.Stream Val.Num Val.Val Val.Err Val.Utf8 Val.Arith Val.Index Std.Natives Proofs.SafeLaws Proofs.SearchLaws.
Import ListNotations.
Local Open Scope Z_scope.

Lemma starts_sorted cs : forall off, Forall (fun ch : option Z * bytes => snd ch <> []) cs -> StronglySorted Z.lt (starts_go cs off).
Proof.
  induction cs as [|[c ch] cs IH]; intros off H; [constructor|]. inversion H as [|? ? Hne Hr]; subst. cbn [snd] in Hne.
  cbn [starts_go]. constructor; [apply IH; exact Hr|].
  assert (0 < Z.of_nat (length ch)) by (destruct ch; [congruence|cbn [length]; lia]).
  pose proof (starts_go_range cs (off + Z.of_nat (length ch)) Hr) as R.
  eapply Forall_impl; [|exact R]. cbn beta. intros z Hz. lia.
Qed.

Lemma char_starts_sorted b : StronglySorted Z.lt (char_starts b).
Proof. rewrite char_starts_eq. apply starts_sorted. apply chunks_f_nonempty. Qed.

(** the needle stands at byte offset [st] *)
Definition hit (x y : bytes) (st : Z) : bool :=
  (st + Z.of_nat (length y) <=? Z.of_nat (length x)) && bytes_eqb (slice x st (Z.of_nat (length y))) y.

Section SGO.
  Variables x y : bytes.
  Fixpoint sgo (starts : list Z) (idx : Z) : list Z :=
    match starts with
    | [] => []
    | st :: r =>
        if st + Z.of_nat (length y) <=? Z.of_nat (length x) then
          (if bytes_eqb (slice x st (Z.of_nat (length y))) y then [idx] else []) ++ sgo r (idx + 1)
        else []
    end.
End SGO.

Lemma str_indices_sgo x y : str_indices x y = sgo x y (char_starts x) 0.
Proof. reflexivity. Qed.

Lemma sgo_spec x y : forall starts idx, StronglySorted Z.lt starts ->
  sgo x y starts idx = map (fun k => idx + Z.of_nat k) (filter (fun k => hit x y (nth k starts 0)) (seq 0 (length starts))).
Proof.
  induction starts as [|st r IH]; intros idx Hs; [reflexivity|].
  inversion Hs as [|? ? Hr Hall]; subst.
  cbn [sgo length]. change (seq 0 (S (length r))) with (0%nat :: seq 1 (length r)). cbn [filter nth].
  rewrite filter_seq_shift. cbn [nth].
  assert (E : forall l, map (fun k => idx + Z.of_nat k) (map S l) = map (fun k => idx + 1 + Z.of_nat k) l)
    by (intros l; rewrite map_map; apply map_ext; intros; lia).
  unfold hit at 1.
  destruct (Z.leb_spec (st + Z.of_nat (length y)) (Z.of_nat (length x))) as [Hin|Hout]; cbn [andb].
  - rewrite IH by exact Hr. destruct (bytes_eqb (slice x st (Z.of_nat (length y))) y); cbn [map app]; rewrite E; [rewrite Z.add_0_r|]; reflexivity.
  - (* every later character starts further right: nothing more can match *)
    match goal with |- context [filter ?p ?l] => assert (F : filter p l = []) end.
    { apply filter_none. intros k Hk. apply in_seq in Hk. unfold hit.
      assert (Hn : In (nth k r 0) r) by (apply nth_In; lia).
      rewrite Forall_forall in Hall. specialize (Hall _ Hn).
      destruct (Z.leb_spec (nth k r 0 + Z.of_nat (length y)) (Z.of_nat (length x))); [lia|reflexivity]. }
    rewrite F. reflexivity.
Qed.

(** `indices` on text: the character positions (counted from 0 in the order of [char_starts]) at whose byte offset the needle stands *)
Theorem indices_text x y : y <> [] ->
  indices (TStr x) (TStr y)
  = Ok (Arr (map vint (map Z.of_nat (filter (fun k => hit x y (nth k (char_starts x) 0)) (seq 0 (length (char_starts x))))))).
Proof.
  intros Hy. destruct y as [|b y]; [congruence|]. cbn [indices]. rewrite str_indices_sgo, sgo_spec by apply char_starts_sorted.
  reflexivity.
Qed.

Example indices_text_chars :   (* "aéa" searched for "a": characters 0 and 2, although the second "a" is byte 3 *)
  indices (TStr (of_ascii [97; 195; 169; 97])) (TStr (of_ascii [97])) = Ok (Arr [vint 0; vint 2]).
Proof. vm_compute. reflexivity. Qed.
