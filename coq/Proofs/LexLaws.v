(** The lexer skips trivia: ASCII white space and comments in front of a token change neither the token nor what
    follows it. *)
From Coq Require Import ZArith Bool List Lia.
From Coq Require Import Init.Byte.
From JaqV Require Import Base.Bytes Parse.Lex.
Import ListNotations.
Local Open Scope Z_scope.

Definition ascii_ws (c : byte) : bool := ((9 <=? bz c) && (bz c <=? 13)) || (bz c =? 32).

(** a character at which a token (or the end of a block) can start: neither white space nor the start of a comment *)
Definition token_start (s : bytes) : Prop :=
  match s with [] => True | c :: _ => ws_len s = 0%nat /\ bz c <> 35 end.

Lemma ws_len_ascii c r : ascii_ws c = true -> ws_len (c :: r) = 1%nat.
Proof. unfold ascii_ws, ws_len. cbn [map]. intros ->. reflexivity. Qed.

Lemma trim_start_ws fuel c r : ascii_ws c = true -> trim_start (S fuel) (c :: r) = trim_start fuel r.
Proof. intros H. cbn [trim_start]. rewrite (ws_len_ascii c r H). reflexivity. Qed.

Lemma trim_start_stop fuel s : ws_len s = 0%nat -> trim_start fuel s = s.
Proof. intros H. destruct fuel; [reflexivity|]. cbn [trim_start]. rewrite H. reflexivity. Qed.

(** enough fuel: white space is removed completely *)
Lemma trim_start_full ws : forall s fuel, forallb ascii_ws ws = true -> ws_len s = 0%nat -> (length ws <= fuel)%nat ->
  trim_start fuel (ws ++ s) = s.
Proof.
  induction ws as [|c ws IH]; intros s fuel Hw Hs Hf.
  - apply trim_start_stop. exact Hs.
  - cbn [forallb] in Hw. apply andb_prop in Hw as [Hc Hw]. destruct fuel as [|fuel]; [cbn in Hf; lia|].
    cbn [app]. rewrite trim_start_ws by exact Hc. apply IH; [exact Hw|exact Hs|cbn in Hf; lia].
Qed.

Lemma space_stop fuel s : token_start s -> space (S fuel) s = s.
Proof.
  intros H. cbn [space]. destruct s as [|c r]; [reflexivity|]. destruct H as [Hw Hc].
  rewrite trim_start_stop by exact Hw. destruct (Z.eqb_spec (bz c) 35); [contradiction|reflexivity].
Qed.

(** a comment line: no line feed in it, and it does not end with an odd number of backslashes (which would continue it) *)
Definition comment_line (l : bytes) : Prop :=
  forallb (fun c => negb (bz c =? 10)) l = true
  /\ Nat.even (count_trailing_bs (match rev l with c :: r => if bz c =? 13 then r else rev l | [] => [] end)) = true.

Lemma split_line_spec l : forall rest acc, forallb (fun c => negb (bz c =? 10)) l = true ->
  split_line (l ++ zb 10 :: rest) acc = (rev acc ++ l, rest).
Proof.
  induction l as [|c l IH]; intros rest acc H.
  - cbn [app split_line]. change (bz (zb 10) =? 10) with true. cbn iota. rewrite app_nil_r. reflexivity.
  - cbn [forallb] in H. apply andb_prop in H as [Hc Hl]. apply negb_true_iff in Hc. cbn [app split_line]. rewrite Hc.
    rewrite IH by exact Hl. cbn [rev]. rewrite <- app_assoc. reflexivity.
Qed.

Lemma comment_one fuel l rest : comment_line l -> comment (S fuel) (l ++ zb 10 :: rest) = rest.
Proof.
  intros [Hl He]. cbn [comment]. rewrite split_line_spec by exact Hl. cbn [rev app].
  destruct (rev l) as [|c r] eqn:E.
  - cbn [count_trailing_bs Nat.even]. reflexivity.
  - destruct (bz c =? 13); rewrite He; reflexivity.
Qed.

(** trivia: white space and whole comment lines *)
Inductive trivia : bytes -> Prop :=
| tr_nil : trivia []
| tr_ws c t : ascii_ws c = true -> trivia t -> trivia (c :: t)
| tr_comment l t : comment_line l -> trivia t -> trivia (zb 35 :: l ++ zb 10 :: t).

Lemma ws_len_hash r : ws_len (zb 35 :: r) = 0%nat.
Proof. reflexivity. Qed.

(** [space] with enough fuel removes any trivia in front of a token start *)
Lemma space_trivia t : trivia t -> forall s fuel, token_start s -> (length t < fuel)%nat -> space fuel (t ++ s) = s.
Proof.
  induction 1 as [|c t Hc Ht IH|l t Hl Ht IH]; intros s fuel Hs Hf.
  - destruct fuel; [lia|]. apply space_stop. exact Hs.
  - (* one white space character: the same call of [space] goes on trimming *)
    destruct fuel as [|fuel]; [lia|]. cbn [app space length].
    rewrite trim_start_ws by exact Hc.
    specialize (IH s (S fuel) Hs ltac:(cbn [length] in Hf; lia)). cbn [space] in IH. exact IH.
  - (* a comment *)
    destruct fuel as [|fuel]; [lia|]. cbn [app space].
    rewrite trim_start_stop by apply ws_len_hash. change (bz (zb 35) =? 35) with true. cbn iota.
    rewrite <- app_assoc. cbn [app]. rewrite comment_one by exact Hl.
    apply IH; [exact Hs|]. cbn [length] in Hf. rewrite app_length in Hf. cbn [length] in Hf. lia.
Qed.

(** the token after trivia is the token without it, with the same rest and the same verdict *)
Theorem token_skips_trivia t s fuel : trivia t -> token_start s -> token fuel (t ++ s) = token fuel s.
Proof.
  intros Ht Hs. destruct fuel as [|fuel]; [reflexivity|]. cbn [token].
  rewrite (space_trivia t Ht s (S (length (t ++ s))) Hs ltac:(rewrite app_length; lia)).
  rewrite (space_stop (length s) s Hs). reflexivity.
Qed.

(** hence the same holds for the sequence of tokens that follows (inside a block as well): the same tokens, the same
    verdict, the same rest - or, when no token follows, the untouched input on both sides *)
Theorem tokens_skip_trivia t s fuel : trivia t -> token_start s ->
  let '(ts, r, ok) := tokens (S fuel) (t ++ s) in
  let '(ts', r', ok') := tokens (S fuel) s in
  ts = ts' /\ ok = ok' /\ (r = r' \/ (r = t ++ s /\ r' = s)).
Proof.
  intros Ht Hs. cbn [tokens]. rewrite (token_skips_trivia t s fuel Ht Hs). destruct (token fuel s) as [tk|].
  - destruct (tokens fuel (lx_rest tk)) as [[ts r] ok]. auto.
  - auto.
Qed.

Example trivia_ex : trivia (map zb [32; 35; 99; 32; 92; 92; 10; 9; 10]) /\ token_start (map zb [46; 97]).
Proof.
  split.
  - apply tr_ws; [reflexivity|]. apply (tr_comment (map zb [99; 32; 92; 92]) (map zb [9; 10])).
    + split; reflexivity.
    + repeat (apply tr_ws; [reflexivity|]). constructor.
  - cbn. split; [reflexivity|discriminate].
Qed.
