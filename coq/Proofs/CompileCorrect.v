(** Compiler correctness for the binding core of the language: for programs built from `.`, numbers, variables, `as $x |`,
    `|`, `,`, `//`, arithmetic, comparison, `and`/`or`, negation, `if`, `try`, array construction, the compiled term run by
    the interpreter (variables as positions in the context) computes exactly the named semantics (variables by name). *)
From Coq Require Import ZArith Bool List Lia FunctionalExtensionality.
From JaqV Require Import Base.Bytes Base.Stream Val.Num Val.Val Val.Err Val.Arith Core.Syntax Core.Compile Core.Natives Core.Run
  Proofs.TailLaws.
Import ListNotations.

Section CC.
  Variable g : genv.
  Variable d : val -> bytes.
  Variable nr : nat -> bytes -> list narg -> val -> option (str val).
  Variable defs : list term.
  Notation run := (run d nr defs).

  (** ** named semantics *)
  (** names (variables and labels) to what they are bound to *)
  Definition nenv := list (cbind * bind).
  Fixpoint lookup (rho : nenv) (x : cbind) : option bind :=
    match rho with [] => None | (y, a) :: r => if cbind_eqb x y then Some a else lookup r x end.

  (** folding over the outputs of a generator: [step y acc] updates, [emit y z] is what one round yields, [fin acc] the end *)
  Fixpoint fold_go (step : val -> val -> str val) (emit : val -> val -> str val) (fin : val -> str val)
      (s : str val) (acc : val) : str val :=
    match s with
    | SNil => fin acc
    | SCons y k => sbind (step y acc) (fun z => sapp (emit y z) (fun _ => fold_go step emit fin (k tt) z))
    | SExn e => SExn e
    | SBot => SBot
    | SUnk => SUnk
    end.

  Fixpoint sem (n : nat) (t : pterm) (rho : nenv) (lab : nat) (v : val) {struct n} : str val :=
    match n with
    | O => SBot
    | S n =>
        let cart := fun l r => sbind (sem n l rho lab v) (fun x => smap (fun y => (x, y)) (sem n r rho lab v)) in
        match t with
        | PId => sone v
        | PNum x => sone (match int_literal x with Some i => vint i | None => Num (from_str x) end)
        | PVar x => match lookup rho (CVar x) with Some (BVar a) => sone a | _ => SUnk end
        | PBreak x => match lookup rho (CLabel x) with Some (BLabel l) => SExn (XBreak l) | _ => SUnk end
        | PLabel x t => slabel (S lab) (sem n t ((CLabel x, BLabel (S lab)) :: rho) (S lab) v)
        | PNeg t => sbind (sem n t rho lab v) (fun x => of_res (vneg x))
        | PArr (Some t) => collect_then (sem n t rho lab v) (fun l => sone (Arr l))
        | PTryCatch t (Some c) => stry (sem n t rho lab v) (fun e => sem n c rho lab (err_val d e))
        | PIte [(i, th)] (Some el) => sbind (sem n i rho lab v) (fun x => sem n (if as_bool x then th else el) rho lab v)
        | PBinOp l op r =>
            match op with
            | BPipe None => sbind (sem n l rho lab v) (fun y => sem n r rho lab y)
            | BPipe (Some (PPVar x)) => sbind (sem n l rho lab v) (fun y => sem n r ((CVar x, BVar y) :: rho) lab v)
            | BComma => sapp (sem n l rho lab v) (fun _ => sem n r rho lab v)
            | BAlt => match sfilter as_bool (sem n l rho lab v) with SNil => sem n r rho lab v | s => s end
            | BMath o => sbind (cart l r) (fun xy => of_res_opt (math_run o (fst xy) (snd xy)))
            | BCmp o => smap (fun xy => Bool (cmp_run o (fst xy) (snd xy))) (cart l r)
            | BOr => sbind (sem n l rho lab v) (fun x => if Bool.eqb (as_bool x) true then sone (Bool true)
                                                     else smap (fun y => Bool (as_bool y)) (sem n r rho lab v))
            | BAnd => sbind (sem n l rho lab v) (fun x => if Bool.eqb (as_bool x) false then sone (Bool false)
                                                      else smap (fun y => Bool (as_bool y)) (sem n r rho lab v))
            | _ => SUnk
            end
        | PPath t path => sbind (sem n t rho lab v) (fun y => sbind (sexplode n path rho lab v) (fun ps => path_run ps y))
        | PFold name xs (PPVar x) (init :: upd :: rest) =>
            let xsv := match n with O => SBot | S n' => sem n' xs rho lab v end in
            let step := fun y acc => sem n upd ((CVar x, BVar y) :: rho) lab acc in
            if bytes_eqb name name_reduce then
              match rest with
              | [] => sbind (sem n init rho lab v) (fold_go step (fun _ _ => SNil) sone xsv)
              | _ => SUnk
              end
            else if bytes_eqb name name_foreach then
              match rest with
              | [] => sbind (sem n init rho lab v) (fold_go step (fun _ z => sone z) (fun _ => SNil) xsv)
              | [proj] => sbind (sem n init rho lab v) (fold_go step (fun y z => sem n proj ((CVar x, BVar y) :: rho) lab z) (fun _ => SNil) xsv)
              | _ => SUnk
              end
            else SUnk
        | _ => SUnk
        end
    end

  (** the index values of a path, all combinations, first component outermost (as [Path::explode]) *)
  with sexplode (n : nat) (path : list (ppart * bool)) (rho : nenv) (lab : nat) (v : val) {struct n} : str (list (vpart * bool)) :=
    match n with
    | O => SBot
    | S n =>
        match path with
        | [] => sone []
        | (p, opt) :: rest =>
            let ps :=
              match p with
              | PIndex i => smap VIndex (sem n i rho lab v)
              | PRange None None => sone (VRange None None)
              | PRange (Some f) None => smap (fun x => VRange (Some x) None) (sem n f rho lab v)
              | PRange None (Some u) => smap (fun x => VRange None (Some x)) (sem n u rho lab v)
              | PRange (Some f) (Some u) =>
                  sbind (sem n f rho lab v) (fun x => smap (fun y => VRange (Some x) (Some y)) (sem n u rho lab v))
              end in
            sbind ps (fun p' => smap (fun r => (p', opt) :: r) (sexplode n rest rho lab v))
        end
    end.

  (** ** the fragment, with the variables in scope and a bound on the nesting *)
  Inductive frag : list cbind -> nat -> pterm -> Prop :=
  | f_id b n : frag b (S n) PId
  | f_num b n x : frag b (S n) (PNum x)
  | f_var b n x : In (CVar x) b -> frag b (S n) (PVar x)
  | f_neg b n t : frag b n t -> frag b (S n) (PNeg t)
  | f_arr b n t : frag b n t -> frag b (S n) (PArr (Some t))
  | f_try b n t c : frag b n t -> frag b n c -> frag b (S n) (PTryCatch t (Some c))
  | f_ite b n i th el : frag b n i -> frag b n th -> frag b n el -> frag b (S n) (PIte [(i, th)] (Some el))
  | f_pipe b n l r : frag b n l -> frag b n r -> frag b (S n) (PBinOp l (BPipe None) r)
  | f_bind b n l x r : frag b n l -> frag (CVar x :: b) n r -> frag b (S (S n)) (PBinOp l (BPipe (Some (PPVar x))) r)
  | f_comma b n l r : frag b n l -> frag b n r -> frag b (S n) (PBinOp l BComma r)
  | f_alt b n l r : frag b n l -> frag b n r -> frag b (S n) (PBinOp l BAlt r)
  | f_math b n l o r : frag b n l -> frag b n r -> frag b (S n) (PBinOp l (BMath o) r)
  | f_cmp b n l o r : frag b n l -> frag b n r -> frag b (S n) (PBinOp l (BCmp o) r)
  | f_or b n l r : frag b n l -> frag b n r -> frag b (S n) (PBinOp l BOr r)
  | f_and b n l r : frag b n l -> frag b n r -> frag b (S n) (PBinOp l BAnd r)
  | f_path b n t ps : frag b n t -> frag_parts b n ps -> frag b (S n) (PPath t ps)
  | f_reduce b n xs x init upd : frag b n xs -> frag b (S n) init -> frag (CVar x :: b) (S n) upd ->
      frag b (S (S n)) (PFold name_reduce xs (PPVar x) [init; upd])
  | f_foreach b n xs x init upd : frag b n xs -> frag b (S n) init -> frag (CVar x :: b) (S n) upd ->
      frag b (S (S n)) (PFold name_foreach xs (PPVar x) [init; upd])
  | f_foreach3 b n xs x init upd proj : frag b n xs -> frag b (S n) init -> frag (CVar x :: b) (S n) upd -> frag (CVar x :: b) (S n) proj ->
      frag b (S (S n)) (PFold name_foreach xs (PPVar x) [init; upd; proj])
  | f_label b n x t : frag (CLabel x :: b) n t -> frag b (S n) (PLabel x t)
  | f_break b n x : In (CLabel x) b -> frag b (S n) (PBreak x)
  with frag_parts : list cbind -> nat -> list (ppart * bool) -> Prop :=
  | fp_nil b n : frag_parts b n []
  | fp_index b n i o ps : frag b n i -> frag_parts b n ps -> frag_parts b n ((PIndex i, o) :: ps)
  | fp_all b n o ps : frag_parts b n ps -> frag_parts b n ((PRange None None, o) :: ps)
  | fp_from b n f o ps : frag b n f -> frag_parts b n ps -> frag_parts b n ((PRange (Some f) None, o) :: ps)
  | fp_upto b n u o ps : frag b n u -> frag_parts b n ps -> frag_parts b n ((PRange None (Some u), o) :: ps)
  | fp_both b n f u o ps : frag b n f -> frag b n u -> frag_parts b n ps -> frag_parts b n ((PRange (Some f) (Some u), o) :: ps).

  Scheme frag_ind2 := Minimality for frag Sort Prop
    with frag_parts_ind2 := Minimality for frag_parts Sort Prop.
  Combined Scheme frag_mutind from frag_ind2, frag_parts_ind2.

  (** the compile-time environment knows the variables in scope; the run-time context holds their values at the
      positions the compiler computes *)
  Definition scoped (b : list cbind) (e : env) : Prop := forall x, In x b -> index_of x (e_vars e) 0 <> None.
  Definition kind_ok (x : cbind) (a : bind) : Prop :=
    match x, a with CVar _, BVar _ | CLabel _, BLabel _ => True | _, _ => False end.
  Definition agrees (e : env) (c : ctx) (rho : nenv) : Prop :=
    forall x i, index_of x (e_vars e) 0 = Some i ->
    exists a, nth_error (vars c) i = Some a /\ lookup rho x = Some a /\ kind_ok x a.

  Lemma cbind_eqb_refl x : cbind_eqb x x = true.
  Proof. destruct x; cbn; destruct (bytes_eqb_spec x x); congruence. Qed.

  Lemma index_of_shift b l : forall i k, index_of b l (S i) = Some (S k) <-> index_of b l i = Some k.
  Proof.
    induction l as [|a l IH]; intros i k; cbn [index_of]; [split; discriminate|].
    destruct (cbind_eqb b a); [split; intros H; injection H as <-; reflexivity|apply IH].
  Qed.

  Lemma index_of_ge b l : forall i k, index_of b l i = Some k -> (i <= k)%nat.
  Proof.
    induction l as [|a l IH]; intros i k; cbn [index_of]; [discriminate|].
    destruct (cbind_eqb b a); [intros H; injection H as <-; lia|intros H; apply IH in H; lia].
  Qed.

  Lemma scoped_push b e x : scoped b e -> scoped (x :: b) (push_var x e).
  Proof.
    intros H y [<-|Hy]; unfold push_var; cbn [e_vars index_of].
    - rewrite cbind_eqb_refl. discriminate.
    - destruct (cbind_eqb y x); [discriminate|].
      specialize (H y Hy). destruct (index_of y (e_vars e) 0) as [k|] eqn:E; [|congruence].
      apply (proj2 (index_of_shift y (e_vars e) 0 k)) in E. rewrite E. discriminate.
  Qed.

  Lemma cbind_eqb_eq x y : cbind_eqb x y = true -> x = y.
  Proof. destruct x, y; cbn; try discriminate; intros H; destruct (bytes_eqb_spec x x0); congruence. Qed.

  Lemma agrees_push_gen e (c c' : ctx) rho x a :
    vars c' = a :: vars c -> kind_ok x a -> agrees e c rho -> agrees (push_var x e) c' ((x, a) :: rho).
  Proof.
    intros Hv Hk H y i. unfold push_var. cbn [e_vars index_of lookup]. rewrite Hv.
    destruct (cbind_eqb y x) eqn:E.
    - intros Hi. injection Hi as <-. exists a. apply cbind_eqb_eq in E. subst y. repeat split; assumption.
    - intros Hi. destruct i as [|i]; [apply index_of_ge in Hi; lia|].
      apply (proj1 (index_of_shift y (e_vars e) 0 i)) in Hi. destruct (H y i Hi) as (a' & Hn & Hl & Hk'). exists a'. repeat split; assumption.
  Qed.

  Lemma agrees_push e c rho x a : agrees e c rho -> agrees (push_var (CVar x) e) (cons_var a c) ((CVar x, BVar a) :: rho).
  Proof. apply agrees_push_gen; [reflexivity|exact I]. Qed.

  Lemma agrees_push_label e c rho x :
    agrees e c rho -> agrees (push_var (CLabel x) e) (cons_label c) ((CLabel x, BLabel (S (labels c))) :: rho).
  Proof. apply agrees_push_gen; [reflexivity|exact I]. Qed.

  Ltac fuel0 := intros fuel c rho v Hag; destruct fuel as [|fuel]; [reflexivity|]; cbn [Run.run sem].

  (** the compiled components of a path: the loop inside [c_term] *)
  Fixpoint c_parts (m : nat) (e : env) (s : cst) (ps : list (ppart * bool)) : list (part * bool) * cst :=
    match ps with
    | [] => ([], s)
    | (p, o) :: r =>
        let '(p', s) :=
          match p with
          | PIndex i => let '((i', _), s) := c_term g m e s i [] in (Index i', s)
          | PRange f u =>
              let '(f', s) := match f with Some f => let '((f', _), s) := c_term g m e s f [] in (Some f', s) | None => (None, s) end in
              let '(u', s) := match u with Some u => let '((u', _), s) := c_term g m e s u [] in (Some u', s) | None => (None, s) end in
              (Range f' u', s)
          end in
        let '(r', s) := c_parts m e s r in
        ((p', o) :: r', s)
    end.

  Lemma c_path m e s t path tr :
    c_term g (S m) e s (PPath t path) tr =
    let '((t', _), s1) := c_term g m e s t [] in
    let '(cps, s2) := c_parts m e s1 path in
    ((KPath t' cps, []), s2).
  Proof.
    cbn [c_term]. destruct (c_term g m e s t []) as [[t' t0] s1].
    match goal with |- (let '(path0, s0) := ?F s1 path in _) = _ =>
      assert (E : forall ps s', F s' ps = c_parts m e s' ps) end.
    { induction ps as [|[p o] r IH]; intros s'; [reflexivity|]. cbn [c_parts]. destruct p as [i|f u].
      - destruct (c_term g m e s' i []) as [[i' ti] si]. rewrite IH. reflexivity.
      - destruct f as [f|], u as [u|];
          repeat match goal with |- context [c_term g m e ?ss ?tt []] => destruct (c_term g m e ss tt []) as [[? ?] ?] end;
          rewrite IH; reflexivity. }
    rewrite E. reflexivity.
  Qed.

  Notation explode := (explode d nr defs).
  Lemma run_path fuel k cps c v :
    run (S fuel) (KPath k cps) c v = sbind (run fuel k c v) (fun y => sbind (explode fuel cps c v) (fun ps => path_run ps y)).
  Proof. reflexivity. Qed.
  Lemma explode_cons fuel p o cps c v :
    explode (S fuel) ((p, o) :: cps) c v =
    sbind (match p with
           | Index i => smap VIndex (run fuel i c v)
           | Range None None => sone (VRange None None)
           | Range (Some f) None => smap (fun x => VRange (Some x) None) (run fuel f c v)
           | Range None (Some u) => smap (fun x => VRange None (Some x)) (run fuel u c v)
           | Range (Some f) (Some u) => sbind (run fuel f c v) (fun x => smap (fun y => VRange (Some x) (Some y)) (run fuel u c v))
           end) (fun p' => smap (fun r => (p', o) :: r) (explode fuel cps c v)).
  Proof. reflexivity. Qed.

  (** folds: compile equations (as [c_foreach] in TailLaws) and the interpreter's loop over the bound contexts *)
  Lemma c_reduce m e s xs p init upd tr :
    c_term g (S m) e s (PFold name_reduce xs p [init; upd]) tr =
    let '((xs', _), s1) := c_term g m e s xs [] in
    let '(pat', s2) := c_pattern g m e s1 p in
    let '((init', _), s3) := c_term g m e s2 init [] in
    let '((upd', _), s4) := c_term g m (Compile.with_vars (pat_vars_f m p) e) s3 upd [] in
    ((KFold xs' pat' init' upd' Reduce, []), s4).
  Proof.
    cbn [c_term]. destruct (c_term g m e s xs []) as [[xs' t0] s1].
    fold (c_pattern g m e s1 p). destruct (c_pattern g m e s1 p) as [pat' s2].
    destruct (c_term g m e s2 init []) as [[init' t1] s3].
    destruct (c_term g m (Compile.with_vars (pat_vars_f m p) e) s3 upd []) as [[upd' t2] s4].
    change (bytes_eqb name_reduce name_reduce) with true. reflexivity.
  Qed.

  Lemma c_foreach2 m e s xs p init upd tr :
    c_term g (S m) e s (PFold name_foreach xs p [init; upd]) tr =
    let '((xs', _), s1) := c_term g m e s xs [] in
    let '(pat', s2) := c_pattern g m e s1 p in
    let '((init', _), s3) := c_term g m e s2 init [] in
    let '((upd', _), s4) := c_term g m (Compile.with_vars (pat_vars_f m p) e) s3 upd [] in
    ((KFold xs' pat' init' upd' (Foreach None), []), s4).
  Proof.
    cbn [c_term]. destruct (c_term g m e s xs []) as [[xs' t0] s1].
    fold (c_pattern g m e s1 p). destruct (c_pattern g m e s1 p) as [pat' s2].
    destruct (c_term g m e s2 init []) as [[init' t1] s3].
    destruct (c_term g m (Compile.with_vars (pat_vars_f m p) e) s3 upd []) as [[upd' t2] s4].
    change (bytes_eqb name_foreach name_reduce) with false. change (bytes_eqb name_foreach name_foreach) with true. reflexivity.
  Qed.

  Definition fold_ctx (fuel : nat) (upd : term) (ft : foldtype) : str ctx -> val -> str val :=
    fix go (xs : str ctx) (acc : val) : str val :=
      match xs with
      | SNil => match ft with Reduce => sone acc | Foreach _ => SNil end
      | SCons cx k =>
          sbind (run fuel upd cx acc) (fun y =>
            sapp (match ft with
                  | Reduce => SNil
                  | Foreach None => sone y
                  | Foreach (Some p) => run fuel p cx y
                  end) (fun _ => go (k tt) y))
      | SExn e => SExn e
      | SBot => SBot
      | SUnk => SUnk
      end.

  Lemma run_fold fuel xs pat init upd ft c v :
    run (S fuel) (KFold xs pat init upd ft) c v =
    sbind (run fuel init c v) (fun i => fold_ctx fuel upd ft (run_and_bind d nr defs fuel xs c v pat) i).
  Proof. reflexivity. Qed.

  Lemma run_and_bind_var fuel xs c v :
    run_and_bind d nr defs fuel xs c v PatVar =
    match fuel with O => SBot | S f => sbind (run f xs c v) (fun y => sone (cons_var y c)) end.
  Proof. destruct fuel; reflexivity. Qed.

  Lemma fold_ctx_vals fuel upd ft c step emit fin :
    (forall y acc, run fuel upd (cons_var y c) acc = step y acc) ->
    (forall y z, match ft with Reduce => SNil | Foreach None => sone z | Foreach (Some p) => run fuel p (cons_var y c) z end = emit y z) ->
    (forall acc, match ft with Reduce => sone acc | Foreach _ => SNil end = fin acc) ->
    forall sv acc, fold_ctx fuel upd ft (sbind sv (fun y => sone (cons_var y c))) acc = fold_go step emit fin sv acc.
  Proof.
    intros Hs He Hf sv. induction sv as [|y k IH|e| |]; intros acc; try reflexivity.
    - cbn [sbind fold_ctx fold_go]. apply Hf.
    - cbn [sbind sone sapp fold_ctx fold_go]. rewrite Hs. f_equal. apply functional_extensionality. intros z.
      rewrite He. f_equal. apply functional_extensionality. intros []. apply IH.
  Qed.

  Definition P_term (b : list cbind) (n : nat) (t : pterm) : Prop :=
    forall m e s tr, (n <= m)%nat -> scoped b e ->
    exists k trr, c_term g m e s t tr = ((k, trr), s)
                  /\ forall fuel c rho v, agrees e c rho -> run fuel k c v = sem fuel t rho (labels c) v.
  Definition P_parts (b : list cbind) (n : nat) (ps : list (ppart * bool)) : Prop :=
    forall m e s, (n <= m)%nat -> scoped b e ->
    exists cps, c_parts m e s ps = (cps, s)
                /\ forall fuel c rho v, agrees e c rho -> explode fuel cps c v = sexplode fuel ps rho (labels c) v.

  Ltac fuelx := intros fuel c rho v Hag; destruct fuel as [|fuel]; [reflexivity|]; rewrite ?explode_cons; cbn [sexplode].

  Lemma compile_correct_mut : (forall b n t, frag b n t -> P_term b n t) /\ (forall b n ps, frag_parts b n ps -> P_parts b n ps).
  Proof.
    apply frag_mutind; unfold P_term, P_parts.
    - intros b n m e s tr Hm Hsc. destruct m as [|m]; [lia|]. (* . *) exists KId, []. split; [reflexivity|]. fuel0. reflexivity.
    - intros b n x m e s tr Hm Hsc. destruct m as [|m]; [lia|]. (* number *) eexists _, []. split; [reflexivity|]. fuel0. destruct (int_literal x); reflexivity.
    - intros b n x Hx m e s tr Hm Hsc. destruct m as [|m]; [lia|]. (* variable *) specialize (Hsc (CVar x) Hx). destruct (index_of (CVar x) (e_vars e) 0) as [i|] eqn:E; [|congruence].
      exists (KVar i), []. split; [cbn [c_term]; unfold var; rewrite E; reflexivity|]. fuel0.
      destruct (Hag (CVar x) i E) as (a & Hn & Hl & Hk). unfold nth_bind. rewrite Hn, Hl. destruct a; try contradiction. reflexivity.
    - intros b n t Ht IHt m e s tr Hm Hsc. destruct m as [|m]; [lia|]. (* negation *) destruct (IHt m e s [] ltac:(lia) Hsc) as (k & trr & Ec & Hrun).
      exists (KNeg k), []. split; [cbn [c_term]; rewrite Ec; reflexivity|]. fuel0. rewrite (Hrun fuel c rho v Hag). reflexivity.
    - intros b n t Ht IHt m e s tr Hm Hsc. destruct m as [|m]; [lia|]. (* array *) destruct (IHt m e s [] ltac:(lia) Hsc) as (k & trr & Ec & Hrun).
      exists (KArr k), []. split; [cbn [c_term]; rewrite Ec; reflexivity|]. fuel0. rewrite (Hrun fuel c rho v Hag). reflexivity.
    - intros b n t ct Ht IHt Hc IHc m e s tr Hm Hsc. destruct m as [|m]; [lia|]. (* try *) destruct (IHt m e s [] ltac:(lia) Hsc) as (k1 & tr1 & E1 & H1). destruct (IHc m e s [] ltac:(lia) Hsc) as (k2 & tr2 & E2 & H2).
      exists (KTryCatch k1 k2), []. split; [cbn [c_term]; rewrite E1, E2; reflexivity|]. fuel0. rewrite (H1 fuel c rho v Hag). f_equal.
      apply functional_extensionality. intros er. apply H2. exact Hag.
    - intros b n i th el Hi IHi Hth IHth Hel IHel m e s tr Hm Hsc. destruct m as [|m]; [lia|]. (* if *) destruct (IHi m e s [] ltac:(lia) Hsc) as (k1 & tr1 & E1 & H1). destruct (IHth m e s tr ltac:(lia) Hsc) as (k2 & tr2 & E2 & H2).
      destruct (IHel m e s tr ltac:(lia) Hsc) as (k3 & tr3 & E3 & H3).
      exists (KIte k1 k2 k3), (union tr2 tr3). split; [rewrite c_ite, E1, E2, E3; reflexivity|]. fuel0. rewrite (H1 fuel c rho v Hag). f_equal.
      apply functional_extensionality. intros y. destruct (as_bool y); [apply H2|apply H3]; exact Hag.
    - intros b n l r Hl IHl Hr IHr m e s tr Hm Hsc. destruct m as [|m]; [lia|]. (* pipe *) destruct (IHl m e s [] ltac:(lia) Hsc) as (k1 & tr1 & E1 & H1). destruct (IHr m e s tr ltac:(lia) Hsc) as (k2 & tr2 & E2 & H2).
      exists (KPipe k1 None k2), tr2. split; [rewrite c_pipe, E1, E2; reflexivity|]. fuel0. rewrite (H1 fuel c rho v Hag). f_equal.
      apply functional_extensionality. intros y. apply H2. exact Hag.
    - intros b n l x r Hl IHl Hr IHr m e s tr Hm Hsc. destruct m as [|m]; [lia|]. (* binding *) destruct m as [|m]; [lia|].
      destruct (IHl (S m) e s [] ltac:(lia) Hsc) as (k1 & tr1 & E1 & H1).
      destruct (IHr (S m) (push_var (CVar x) e) s tr ltac:(lia) (scoped_push b e (CVar x) Hsc)) as (k2 & tr2 & E2 & H2).
      exists (KPipe k1 (Some PatVar) k2), tr2. split.
      + rewrite c_bind, E1. cbn [pat_vars_f]. change (Compile.with_vars [x] e) with (push_var (CVar x) e). rewrite E2. reflexivity.
      + fuel0. rewrite (H1 fuel c rho v Hag). f_equal. apply functional_extensionality. intros y.
        exact (H2 fuel (cons_var y c) ((CVar x, BVar y) :: rho) v (agrees_push e c rho x y Hag)).
    - intros b n l r Hl IHl Hr IHr m e s tr Hm Hsc. destruct m as [|m]; [lia|]. (* comma *) destruct (IHl m e s tr ltac:(lia) Hsc) as (k1 & tr1 & E1 & H1). destruct (IHr m e s tr ltac:(lia) Hsc) as (k2 & tr2 & E2 & H2).
      exists (KComma k1 k2), (union tr1 tr2). split; [rewrite c_comma, E1, E2; reflexivity|]. fuel0. rewrite (H1 fuel c rho v Hag). f_equal.
      apply functional_extensionality. intros u. apply H2. exact Hag.
    - intros b n l r Hl IHl Hr IHr m e s tr Hm Hsc. destruct m as [|m]; [lia|]. (* alternative *) destruct (IHl m e s [] ltac:(lia) Hsc) as (k1 & tr1 & E1 & H1). destruct (IHr m e s tr ltac:(lia) Hsc) as (k2 & tr2 & E2 & H2).
      exists (KAlt k1 k2), tr2. split; [rewrite c_alt, E1, E2; reflexivity|]. fuel0. rewrite (H1 fuel c rho v Hag), (H2 fuel c rho v Hag). reflexivity.
    - intros b n l o r Hl IHl Hr IHr m e s tr Hm Hsc. destruct m as [|m]; [lia|]. (* arithmetic *) destruct (IHl m e s [] ltac:(lia) Hsc) as (k1 & tr1 & E1 & H1). destruct (IHr m e s [] ltac:(lia) Hsc) as (k2 & tr2 & E2 & H2).
      exists (KMath k1 o k2), []. split; [cbn [c_term]; rewrite E1, E2; reflexivity|]. fuel0. rewrite (H1 fuel c rho v Hag), (H2 fuel c rho v Hag). reflexivity.
    - intros b n l o r Hl IHl Hr IHr m e s tr Hm Hsc. destruct m as [|m]; [lia|]. (* comparison *) destruct (IHl m e s [] ltac:(lia) Hsc) as (k1 & tr1 & E1 & H1). destruct (IHr m e s [] ltac:(lia) Hsc) as (k2 & tr2 & E2 & H2).
      exists (KCmp k1 o k2), []. split; [cbn [c_term]; rewrite E1, E2; reflexivity|]. fuel0. rewrite (H1 fuel c rho v Hag), (H2 fuel c rho v Hag). reflexivity.
    - intros b n l r Hl IHl Hr IHr m e s tr Hm Hsc. destruct m as [|m]; [lia|]. (* or *) destruct (IHl m e s [] ltac:(lia) Hsc) as (k1 & tr1 & E1 & H1). destruct (IHr m e s [] ltac:(lia) Hsc) as (k2 & tr2 & E2 & H2).
      exists (KLogic k1 true k2), []. split; [cbn [c_term]; rewrite E1, E2; reflexivity|]. fuel0. rewrite (H1 fuel c rho v Hag), (H2 fuel c rho v Hag). reflexivity.
    - intros b n l r Hl IHl Hr IHr m e s tr Hm Hsc. destruct m as [|m]; [lia|]. (* and *) destruct (IHl m e s [] ltac:(lia) Hsc) as (k1 & tr1 & E1 & H1). destruct (IHr m e s [] ltac:(lia) Hsc) as (k2 & tr2 & E2 & H2).
      exists (KLogic k1 false k2), []. split; [cbn [c_term]; rewrite E1, E2; reflexivity|]. fuel0. rewrite (H1 fuel c rho v Hag), (H2 fuel c rho v Hag). reflexivity.
    - (* path *) intros b n t ps Ht IHt Hps IHps m e s tr Hm Hsc. destruct m as [|m]; [lia|].
      destruct (IHt m e s [] ltac:(lia) Hsc) as (k & trr & Ec & Hrun). destruct (IHps m e s ltac:(lia) Hsc) as (cps & Ep & Hex).
      exists (KPath k cps), []. split; [rewrite c_path, Ec, Ep; reflexivity|]. intros fuel c rho v Hag. destruct fuel as [|fuel]; [reflexivity|]. rewrite run_path. cbn [sem]. rewrite (Hrun fuel c rho v Hag). f_equal.
      apply functional_extensionality. intros y. rewrite (Hex fuel c rho v Hag). reflexivity.
    - (* reduce *) intros b n xs x init upd Hxs IHxs Hi IHi Hu IHu m e s tr Hm Hsc.
      destruct m as [|[|m]]; try lia.
      destruct (IHxs (S m) e s [] ltac:(lia) Hsc) as (k1 & tr1 & E1 & H1). destruct (IHi (S m) e s [] ltac:(lia) Hsc) as (k2 & tr2 & E2 & H2).
      destruct (IHu (S m) (push_var (CVar x) e) s [] ltac:(lia) (scoped_push b e (CVar x) Hsc)) as (k3 & tr3 & E3 & H3).
      exists (KFold k1 PatVar k2 k3 Reduce), []. split.
      + rewrite c_reduce, E1. cbn [c_pattern pat_vars_f]. rewrite E2. change (Compile.with_vars [x] e) with (push_var (CVar x) e). rewrite E3. reflexivity.
      + intros fuel c rho v Hag. destruct fuel as [|fuel]; [reflexivity|]. rewrite run_fold, run_and_bind_var. cbn [sem].
        change (bytes_eqb name_reduce name_reduce) with true. cbn iota. rewrite (H2 fuel c rho v Hag). f_equal.
        apply functional_extensionality. intros i0. destruct fuel as [|f']; [reflexivity|]. rewrite (H1 f' c rho v Hag).
        apply fold_ctx_vals; [intros y acc; exact (H3 (S f') (cons_var y c) ((CVar x, BVar y) :: rho) acc (agrees_push e c rho x y Hag)) | reflexivity | reflexivity].
    - (* foreach, two arguments *) intros b n xs x init upd Hxs IHxs Hi IHi Hu IHu m e s tr Hm Hsc.
      destruct m as [|[|m]]; try lia.
      destruct (IHxs (S m) e s [] ltac:(lia) Hsc) as (k1 & tr1 & E1 & H1). destruct (IHi (S m) e s [] ltac:(lia) Hsc) as (k2 & tr2 & E2 & H2).
      destruct (IHu (S m) (push_var (CVar x) e) s [] ltac:(lia) (scoped_push b e (CVar x) Hsc)) as (k3 & tr3 & E3 & H3).
      exists (KFold k1 PatVar k2 k3 (Foreach None)), []. split.
      + rewrite c_foreach2, E1. cbn [c_pattern pat_vars_f]. rewrite E2. change (Compile.with_vars [x] e) with (push_var (CVar x) e). rewrite E3. reflexivity.
      + intros fuel c rho v Hag. destruct fuel as [|fuel]; [reflexivity|]. rewrite run_fold, run_and_bind_var. cbn [sem].
        change (bytes_eqb name_foreach name_reduce) with false. change (bytes_eqb name_foreach name_foreach) with true. cbn iota.
        rewrite (H2 fuel c rho v Hag). f_equal.
        apply functional_extensionality. intros i0. destruct fuel as [|f']; [reflexivity|]. rewrite (H1 f' c rho v Hag).
        apply fold_ctx_vals; [intros y acc; exact (H3 (S f') (cons_var y c) ((CVar x, BVar y) :: rho) acc (agrees_push e c rho x y Hag)) | reflexivity | reflexivity].
    - (* foreach with projection *) intros b n xs x init upd proj Hxs IHxs Hi IHi Hu IHu Hp IHp m e s tr Hm Hsc.
      destruct m as [|[|m]]; try lia.
      destruct (IHxs (S m) e s [] ltac:(lia) Hsc) as (k1 & tr1 & E1 & H1). destruct (IHi (S m) e s [] ltac:(lia) Hsc) as (k2 & tr2 & E2 & H2).
      destruct (IHu (S m) (push_var (CVar x) e) s [] ltac:(lia) (scoped_push b e (CVar x) Hsc)) as (k3 & tr3 & E3 & H3).
      destruct (IHp (S m) (push_var (CVar x) e) s tr ltac:(lia) (scoped_push b e (CVar x) Hsc)) as (k4 & tr4 & E4 & H4).
      exists (KFold k1 PatVar k2 k3 (Foreach (Some k4))), tr4. split.
      + rewrite c_foreach, E1. cbn [c_pattern pat_vars_f]. rewrite E2. change (Compile.with_vars [x] e) with (push_var (CVar x) e). rewrite E3, E4. reflexivity.
      + intros fuel c rho v Hag. destruct fuel as [|fuel]; [reflexivity|]. rewrite run_fold, run_and_bind_var. cbn [sem].
        change (bytes_eqb name_foreach name_reduce) with false. change (bytes_eqb name_foreach name_foreach) with true. cbn iota.
        rewrite (H2 fuel c rho v Hag). f_equal.
        apply functional_extensionality. intros i0. destruct fuel as [|f']; [reflexivity|]. rewrite (H1 f' c rho v Hag).
        apply fold_ctx_vals; [intros y acc; exact (H3 (S f') (cons_var y c) ((CVar x, BVar y) :: rho) acc (agrees_push e c rho x y Hag)) | intros y z; exact (H4 (S f') (cons_var y c) ((CVar x, BVar y) :: rho) z (agrees_push e c rho x y Hag)) | reflexivity].
    - (* label *) intros b n x t Ht IHt m e s tr Hm Hsc. destruct m as [|m]; [lia|].
      destruct (IHt m (push_var (CLabel x) e) s [] ltac:(lia) (scoped_push b e (CLabel x) Hsc)) as (k & trr & Ec & Hrun).
      exists (KLabel k), []. split; [cbn [c_term]; rewrite Ec; reflexivity|]. fuel0.
      rewrite (Hrun fuel (cons_label c) ((CLabel x, BLabel (S (labels c))) :: rho) v (agrees_push_label e c rho x Hag)). reflexivity.
    - (* break *) intros b n x Hx m e s tr Hm Hsc. destruct m as [|m]; [lia|]. specialize (Hsc (CLabel x) Hx).
      destruct (index_of (CLabel x) (e_vars e) 0) as [i|] eqn:E; [|congruence].
      exists (KVar i), []. split; [cbn [c_term]; unfold break_; rewrite E; reflexivity|]. fuel0.
      destruct (Hag (CLabel x) i E) as (a & Hn & Hl & Hk). unfold nth_bind. rewrite Hn, Hl. destruct a; try contradiction. reflexivity.
    - (* no component *) intros b n m e s Hm Hsc. exists []. split; [reflexivity|]. fuelx. reflexivity.
    - (* .[i] *) intros b n i o ps Hi IHi Hps IHps m e s Hm Hsc.
      destruct (IHi m e s [] Hm Hsc) as (k & trr & Ec & Hrun). destruct (IHps m e s Hm Hsc) as (cps & Ep & Hex).
      exists ((Index k, o) :: cps). split; [cbn [c_parts]; rewrite Ec, Ep; reflexivity|]. fuelx.
      rewrite (Hrun fuel c rho v Hag), (Hex fuel c rho v Hag). reflexivity.
    - (* .[] *) intros b n o ps Hps IHps m e s Hm Hsc. destruct (IHps m e s Hm Hsc) as (cps & Ep & Hex).
      exists ((Range None None, o) :: cps). split; [cbn [c_parts]; rewrite Ep; reflexivity|]. fuelx. rewrite (Hex fuel c rho v Hag). reflexivity.
    - (* .[f:] *) intros b n f o ps Hf IHf Hps IHps m e s Hm Hsc.
      destruct (IHf m e s [] Hm Hsc) as (k & trr & Ec & Hrun). destruct (IHps m e s Hm Hsc) as (cps & Ep & Hex).
      exists ((Range (Some k) None, o) :: cps). split; [cbn [c_parts]; rewrite Ec, Ep; reflexivity|]. fuelx.
      rewrite (Hrun fuel c rho v Hag), (Hex fuel c rho v Hag). reflexivity.
    - (* .[:u] *) intros b n u o ps Hu IHu Hps IHps m e s Hm Hsc.
      destruct (IHu m e s [] Hm Hsc) as (k & trr & Ec & Hrun). destruct (IHps m e s Hm Hsc) as (cps & Ep & Hex).
      exists ((Range None (Some k), o) :: cps). split; [cbn [c_parts]; rewrite Ec, Ep; reflexivity|]. fuelx.
      rewrite (Hrun fuel c rho v Hag), (Hex fuel c rho v Hag). reflexivity.
    - (* .[f:u] *) intros b n f u o ps Hf IHf Hu IHu Hps IHps m e s Hm Hsc.
      destruct (IHf m e s [] Hm Hsc) as (k1 & tr1 & E1 & H1). destruct (IHu m e s [] Hm Hsc) as (k2 & tr2 & E2 & H2).
      destruct (IHps m e s Hm Hsc) as (cps & Ep & Hex).
      exists ((Range (Some k1) (Some k2), o) :: cps). split; [cbn [c_parts]; rewrite E1, E2, Ep; reflexivity|]. fuelx.
      rewrite (H1 fuel c rho v Hag), (H2 fuel c rho v Hag), (Hex fuel c rho v Hag). reflexivity.
  Qed.

  Theorem compile_correct b n t : frag b n t -> forall m e s tr, (n <= m)%nat -> scoped b e ->
    exists k trr, c_term g m e s t tr = ((k, trr), s)
                  /\ forall fuel c rho v, agrees e c rho -> run fuel k c v = sem fuel t rho (labels c) v.
  Proof. intros H. exact (proj1 compile_correct_mut b n t H). Qed.

  (** a whole program without free variables, compiled from scratch *)
  Corollary compile_correct_closed n t : frag [] n t ->
    exists k trr, c_term g n empty_env empty_cst t [] = ((k, trr), empty_cst)
                  /\ forall fuel v, run fuel k {| vars := []; labels := 0 |} v = sem fuel t [] 0 v.
  Proof.
    intros H. destruct (compile_correct [] n t H n empty_env empty_cst [] (le_n n)) as (k & trr & E & Hr).
    - intros x [].
    - exists k, trr. split; [exact E|]. intros fuel v. apply Hr. intros x i Hi. discriminate Hi.
  Qed.
End CC.

(** the fragment is inhabited by programs with nested and shadowing bindings, e.g. 1 as $x | ($x + 2, (3 as $x | $x), .) *)
Example frag_ex :
  let vx := of_ascii [36; 120]%Z in
  frag [] 8 (PBinOp (PNum (of_ascii [49]%Z)) (BPipe (Some (PPVar vx)))
              (PBinOp (PBinOp (PVar vx) (BMath Add) (PNum (of_ascii [50]%Z))) BComma
                 (PBinOp (PBinOp (PNum (of_ascii [51]%Z)) (BPipe (Some (PPVar vx))) (PVar vx)) BComma PId))).
Proof.
  cbv zeta. apply f_bind; [constructor|]. apply f_comma.
  - apply f_math; [apply f_var; left; reflexivity|constructor].
  - apply f_comma; [|constructor]. apply f_bind; [constructor|]. apply f_var. left. reflexivity.
Qed.
