(** reduce and foreach of the interpreter are the manual's nested-pipe expansion; native range is the arithmetic progression. *)
From Coq Require Import ZArith Bool List Lia FunctionalExtensionality.
From JaqV Require Import Base.Bytes Base.Stream Val.Num Val.Val Val.Err Val.Arith Core.Syntax Core.Compile Core.Natives Core.Run
  Proofs.MonadLaws Proofs.NumExact.
From JaqV Require Proofs.CompileCorrect.
Import ListNotations.

Section FOLD.
  Variable g : genv.
  Variable d : val -> bytes.
  Variable nr : nat -> bytes -> list narg -> val -> option (str val).
  Variable defs : list term.
  Notation run := (run d nr defs).
  Notation fold_go := CompileCorrect.fold_go.

  (** what one round yields and what the end yields, by kind of fold *)
  Definition emit_of (fuel : nat) (ft : foldtype) (c : ctx) (y z : val) : str val :=
    match ft with Reduce => SNil | Foreach None => sone z | Foreach (Some p) => run fuel p (cons_var y c) z end.
  Definition fin_of (ft : foldtype) (acc : val) : str val :=
    match ft with Reduce => sone acc | Foreach _ => SNil end.

  (** `reduce/foreach xs as $x (init; upd; proj)`: for every output i of init, fold over the outputs of xs *)
  Theorem fold_expansion fuel xs init upd ft c v :
    run (S (S fuel)) (KFold xs PatVar init upd ft) c v
    = sbind (run (S fuel) init c v)
        (fold_go (fun y acc => run (S fuel) upd (cons_var y c) acc) (emit_of (S fuel) ft c) (fin_of ft) (run fuel xs c v)).
  Proof.
    rewrite (CompileCorrect.run_fold d nr defs), (CompileCorrect.run_and_bind_var d nr defs). f_equal.
    apply functional_extensionality. intros i.
    apply (CompileCorrect.fold_ctx_vals d nr defs); intros; reflexivity.
  Qed.

  (** the fold over the outputs y1, y2, ... is the nested pipe
        upd[y1] | (proj[y1], (upd[y2] | (proj[y2], ...)))      ending in the accumulator (reduce) or in nothing (foreach),
      for every number of outputs of upd and proj, and stops with the error of the generator *)
  Theorem fold_go_unroll step emit fin :
    (forall acc, fold_go step emit fin SNil acc = fin acc)
    /\ (forall y k acc, fold_go step emit fin (SCons y k) acc
                        = sbind (step y acc) (fun z => sapp (emit y z) (fun _ => fold_go step emit fin (k tt) z)))
    /\ (forall e acc, fold_go step emit fin (SExn e) acc = SExn e).
  Proof. repeat split. Qed.

  (** reduce over a generator with the outputs ys: init | (y1 as $x | upd) | (y2 as $x | upd) | ... *)
  Fixpoint reduce_pipes (step : val -> val -> str val) (ys : list val) (acc : val) : str val :=
    match ys with [] => sone acc | y :: r => sbind (step y acc) (reduce_pipes step r) end.

  Theorem reduce_is_nested_pipes fuel xs init upd c v ys : run fuel xs c v = of_list ys ->
    run (S (S fuel)) (KFold xs PatVar init upd Reduce) c v
    = sbind (run (S fuel) init c v) (reduce_pipes (fun y acc => run (S fuel) upd (cons_var y c) acc) ys).
  Proof.
    intros E. rewrite fold_expansion, E. clear E. f_equal. apply functional_extensionality.
    induction ys as [|y r IH]; intros acc; [reflexivity|]. cbn [of_list CompileCorrect.fold_go reduce_pipes]. f_equal.
    apply functional_extensionality. intros z. cbn [emit_of sapp]. apply IH.
  Qed.
End FOLD.

(** ** native range on machine integers: the arithmetic progression below the bound *)
Local Open Scope Z_scope.

Lemma val_cmp_ints a b : val_cmp (vint a) (vint b) = Z.compare a b.
Proof. reflexivity. Qed.

Lemma val_ltb_ints a b : val_ltb (vint a) (vint b) = (a <? b).
Proof. unfold val_ltb. rewrite val_cmp_ints. unfold Z.ltb. destruct (a ?= b); reflexivity. Qed.

Lemma vadd_ints a c : in_isize (a + c) = true -> vadd (vint a) (vint c) = Ok (vint (a + c)).
Proof. intros H. unfold vadd, vint, add, int_or_big. rewrite H. reflexivity. Qed.

Theorem range_up n : forall a b c fuel, 0 < c ->
  (forall i, (i < n)%nat -> a + Z.of_nat i * c < b) -> b <= a + Z.of_nat n * c ->
  (forall i, (i <= n)%nat -> in_isize (a + Z.of_nat i * c) = true) -> (n < fuel)%nat ->
  range fuel (vint a) (vint b) (vint c) = of_list (map (fun i => vint (a + Z.of_nat i * c)) (seq 0 n)).
Proof.
  unfold range. intros a b c fuel Hc. rewrite val_cmp_ints. assert (c ?= 0 = Gt) as -> by (apply Z.compare_gt_iff; lia).
  revert a fuel. induction n as [|n IH]; intros a fuel Hlt Hge Hin Hf; (destruct fuel as [|fuel]; [lia|]); cbn [range_go].
  - rewrite val_ltb_ints. destruct (Z.ltb_spec a b); [lia|]. reflexivity.
  - rewrite val_ltb_ints. pose proof (Hlt O ltac:(lia)) as H0. destruct (Z.ltb_spec a b); [|lia].
    cbn [seq map of_list]. replace (a + Z.of_nat 0 * c) with a by lia. f_equal.
    apply functional_extensionality. intros [].
    rewrite vadd_ints by (specialize (Hin 1%nat ltac:(lia)); replace (a + c) with (a + Z.of_nat 1 * c) by lia; exact Hin).
    rewrite (IH (a + c) fuel).
    + rewrite <- seq_shift, map_map. f_equal. apply map_ext. intros i. f_equal. lia.
    + intros i Hi. specialize (Hlt (S i) ltac:(lia)). lia.
    + lia.
    + intros i Hi. specialize (Hin (S i) ltac:(lia)). replace (a + c + Z.of_nat i * c) with (a + Z.of_nat (S i) * c) by lia. exact Hin.
    + lia.
Qed.

Example range_ex : range 10 (vint 1) (vint 10) (vint 2) = of_list [vint 1; vint 3; vint 5; vint 7; vint 9].
Proof. apply (range_up 5 1 10 2 10); try lia; intros i Hi; do 6 (destruct i as [|i]; [try lia; try reflexivity|]); lia. Qed.
