(** Strings survive print-then-parse: for arbitrary bytes (control characters, quotes, invalid UTF-8). *)
From Coq Require Import ZArith Bool List Lia.
From Coq Require Import Init.Byte.
From JaqV Require Import Base.Bytes Val.Utf8 Json.Write Json.Read.
Import ListNotations.

Definition enc_text (c : byte) : bytes := if is_special c then write_byte true c else [c].

(** one byte of a text string: the reader undoes the writer in one step, for every continuation *)
Lemma text_step c : forall n rest acc,
  parse_string (S n) false (enc_text c ++ rest) acc = parse_string n false rest (c :: acc).
Proof. destruct c; intros n rest acc; reflexivity. Qed.

Lemma text_roundtrip_go s : forall n rest acc, (length s <= n)%nat ->
  parse_string (S n) false (flat_map enc_text s ++ zb 34 :: rest) acc = POk (rev acc ++ s) rest.
Proof.
  induction s as [|c s IH]; intros n rest acc Hn.
  - cbn [flat_map app]. cbn. rewrite app_nil_r. reflexivity.
  - cbn [flat_map]. rewrite <- app_assoc. cbn [length] in Hn.
    destruct n as [|n]; [lia|].
    rewrite text_step. rewrite IH by lia. cbn [rev]. rewrite <- app_assoc. reflexivity.
Qed.

(** [write_utf8] then [parse_string]: identity on every byte string *)
Lemma text_roundtrip s rest :
  match write_utf8 s ++ rest with
  | q :: body => parse_string (S (length body)) false body [] = POk s rest
  | [] => False
  end.
Proof.
  unfold write_utf8. cbn [app].
  change (flat_map (fun c => if is_special c then write_byte true c else [c]) s) with (flat_map enc_text s).
  rewrite <- app_assoc. cbn [app].
  rewrite text_roundtrip_go; [reflexivity|].
  rewrite app_length. cbn [length].
  assert (H : (length s <= length (flat_map enc_text s))%nat).
  { clear. induction s as [|c s IH]; cbn [flat_map length]; [lia|]. rewrite app_length.
    assert (1 <= length (enc_text c))%nat by (destruct c; cbn; lia). lia. }
  lia.
Qed.

(** byte strings *)
Lemma bytes_step c : forall n rest acc,
  parse_string (S n) true (write_byte false c ++ rest) acc = parse_string n true rest (c :: acc).
Proof. destruct c; intros n rest acc; reflexivity. Qed.

Lemma bytes_roundtrip_go s : forall n rest acc, (length s <= n)%nat ->
  parse_string (S n) true (flat_map (write_byte false) s ++ zb 34 :: rest) acc = POk (rev acc ++ s) rest.
Proof.
  induction s as [|c s IH]; intros n rest acc Hn.
  - cbn [flat_map app]. cbn. rewrite app_nil_r. reflexivity.
  - cbn [flat_map]. rewrite <- app_assoc. cbn [length] in Hn.
    destruct n as [|n]; [lia|].
    rewrite bytes_step. rewrite IH by lia. cbn [rev]. rewrite <- app_assoc. reflexivity.
Qed.
