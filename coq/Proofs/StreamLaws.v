(** Laws of the stream combinators behind limit/skip/first/last. *)
From Coq Require Import ZArith Bool List Lia FunctionalExtensionality.
From JaqV Require Import Base.F64 Base.Bytes Base.Stream Val.Num Val.Val Val.Err Val.Arith Core.Natives.
Import ListNotations.
Local Open Scope Z_scope.

Lemma thunk_eta {A} (k : unit -> A) : (fun _ : unit => k tt) = k.
Proof. apply functional_extensionality. intros []. reflexivity. Qed.

Lemma val_cmp_int a b : val_cmp (vint a) (vint b) = Z.compare a b.
Proof. reflexivity. Qed.

Lemma val_leb_int a b : val_leb (vint a) (vint b) = (a <=? b).
Proof.
  unfold val_leb. rewrite val_cmp_int. unfold Z.leb. destruct (a ?= b); reflexivity.
Qed.

Lemma vsub_int a b : in_isize (a - b) = true -> vsub (vint a) (vint b) = Ok (vint (a - b)).
Proof. intros H. cbn. unfold int_or_big. rewrite H. reflexivity. Qed.

Lemma in_isize_pred k : in_isize k = true -> 0 < k -> in_isize (k - 1) = true.
Proof.
  unfold in_isize, isize_min, isize_max.
  assert (T63 : two63 = 9223372036854775808) by reflexivity.
  generalize dependent two63. intros t63 T63 H Hk.
  apply andb_prop in H. destruct H as [A B]. apply Z.leb_le in A. apply Z.leb_le in B.
  apply andb_true_intro. split; apply Z.leb_le; lia.
Qed.

(** [limit] followed by [skip] reproduces the stream, for every machine-integer count and every
    stream (also one that ends in an error, a break, or runs out of fuel) *)
Lemma limit_skip_go {A} (s : str A) : forall k, in_isize k = true ->
  sapp (limit_go (vint k) s) (fun _ => skip_go (vint k) s) = s.
Proof.
  induction s as [|x t IH|e| |]; intros k Hk.
  - (* SNil *)
    cbn [limit_go skip_go]. rewrite val_cmp_int.
    destruct (Z.compare_spec k 0) as [E|E|E]; cbn [negb]; try reflexivity;
    try (rewrite vsub_int by (apply in_isize_pred; [assumption | lia]); reflexivity).
  - cbn [limit_go skip_go]. rewrite val_cmp_int.
    destruct (Z.compare_spec k 0) as [E|E|E]; cbn [negb]; try reflexivity.
    rewrite vsub_int by (apply in_isize_pred; [assumption | lia]).
    cbn [sapp]. f_equal. apply functional_extensionality. intros [].
    apply IH. apply in_isize_pred; [assumption | lia].
  - cbn [limit_go skip_go]. rewrite val_cmp_int.
    destruct (Z.compare_spec k 0) as [E|E|E]; cbn [negb]; try reflexivity;
    try (rewrite vsub_int by (apply in_isize_pred; [assumption | lia]); reflexivity).
  - cbn [limit_go skip_go]. rewrite val_cmp_int.
    destruct (Z.compare_spec k 0) as [E|E|E]; cbn [negb]; try reflexivity;
    try (rewrite vsub_int by (apply in_isize_pred; [assumption | lia]); reflexivity).
  - cbn [limit_go skip_go]. rewrite val_cmp_int.
    destruct (Z.compare_spec k 0) as [E|E|E]; cbn [negb]; try reflexivity;
    try (rewrite vsub_int by (apply in_isize_pred; [assumption | lia]); reflexivity).
Qed.

Lemma limit_skip {A} (s : str A) k : in_isize k = true ->
  sapp (limit (vint k) (fun _ => s)) (fun _ => skip (vint k) s) = s.
Proof.
  intros Hk. unfold limit, skip. rewrite val_leb_int.
  destruct (Z.leb_spec k 0) as [L|L].
  - reflexivity.
  - apply limit_skip_go. assumption.
Qed.

(** non-positive counts: nothing, resp. everything *)
Lemma limit_nonpos {A} (s : unit -> str A) k : k <= 0 -> limit (vint k) s = SNil.
Proof. intros H. unfold limit. rewrite val_leb_int. destruct (Z.leb_spec k 0); [reflexivity | lia]. Qed.

Lemma skip_nonpos {A} (s : str A) k : k <= 0 -> skip (vint k) s = s.
Proof. intros H. unfold skip. rewrite val_leb_int. destruct (Z.leb_spec k 0); [reflexivity | lia]. Qed.

(** [first(f)] is [limit(1; f)] *)
Lemma first_is_limit_1 {A} (s : str A) : first_s s = limit (vint 1) (fun _ => s).
Proof.
  unfold limit. destruct s as [|x t|e| |]; try reflexivity.
  cbn. unfold sone. f_equal. apply functional_extensionality. intros []. destruct (t tt); reflexivity.
Qed.

(** the first error ends the stream once: nothing follows an exception *)
Lemma sapp_exn {A} e (r : unit -> str A) : sapp (SExn e) r = SExn e.
Proof. reflexivity. Qed.

Lemma sbind_exn {A B} e (f : A -> str B) : sbind (SExn e) f = SExn e.
Proof. reflexivity. Qed.

(** [limit] never looks at the stream beyond the n-th item: the tail is irrelevant *)
Lemma limit_go_prefix {A} (pre : list A) : forall k (r1 r2 : str A), in_isize k = true -> k <= Z.of_nat (length pre) ->
  limit_go (vint k) (sapp (of_list pre) (fun _ => r1)) = limit_go (vint k) (sapp (of_list pre) (fun _ => r2)).
Proof.
  induction pre as [|x pre IH]; intros k r1 r2 Hk Hlen.
  - cbn [length Z.of_nat] in Hlen. cbn [of_list sapp].
    destruct r1, r2; cbn [limit_go]; rewrite val_cmp_int;
    destruct (Z.compare_spec k 0); cbn [negb]; try reflexivity; lia.
  - cbn [of_list sapp limit_go]. rewrite val_cmp_int.
    destruct (Z.compare_spec k 0) as [E|E|E]; cbn [negb]; try reflexivity.
    rewrite vsub_int by (apply in_isize_pred; [assumption | lia]).
    f_equal. apply functional_extensionality. intros [].
    apply IH; [apply in_isize_pred; [assumption | lia] |].
    cbn [length] in Hlen. lia.
Qed.
