(** The algebra of the stream semantics: `|` is bind, `,` is append, `empty` and `.` are their units, errors absorb what
    follows, `try` replaces the first error.  These are the equations the manual states for filters, proved for every
    stream (however it ends: end, error, break, halt, divergence, outside the model). *)
From Coq Require Import List FunctionalExtensionality.
From JaqV Require Import Base.Stream Val.Err Proofs.StreamLaws.
Import ListNotations.

Lemma sapp_nil_r {A} (s : str A) : sapp s (fun _ => SNil) = s.
Proof.
  induction s as [|x k IH|e| |]; cbn [sapp]; try reflexivity. f_equal. apply functional_extensionality. intros []. apply IH.
Qed.

Lemma sapp_assoc' {A} (s : str A) r t : sapp (sapp s r) t = sapp s (fun _ => sapp (r tt) t).
Proof.
  induction s as [|x k IH|e| |]; cbn [sapp]; try reflexivity. f_equal. apply functional_extensionality. intros []. apply IH.
Qed.

(** `. | f` = `f` *)
Lemma sbind_sone_l {A B} (x : A) (f : A -> str B) : sbind (sone x) f = f x.
Proof. unfold sone. cbn [sbind]. apply sapp_nil_r. Qed.

(** `f | .` = `f` *)
Lemma sbind_sone_r {A} (s : str A) : sbind s sone = s.
Proof.
  induction s as [|x k IH|e| |]; cbn [sbind]; try reflexivity. unfold sone at 1. cbn [sapp]. f_equal.
  apply functional_extensionality. intros []. apply IH.
Qed.

(** `(f, g) | h` = `(f | h), (g | h)` *)
Lemma sbind_sapp {A B} (s : str A) r (f : A -> str B) : sbind (sapp s r) f = sapp (sbind s f) (fun _ => sbind (r tt) f).
Proof.
  induction s as [|x k IH|e| |]; cbn [sapp sbind]; try reflexivity.
  rewrite sapp_assoc'. f_equal. apply functional_extensionality. intros []. apply IH.
Qed.

(** `(f | g) | h` = `f | (g | h)` *)
Lemma sbind_assoc {A B C} (s : str A) (f : A -> str B) (g : B -> str C) :
  sbind (sbind s f) g = sbind s (fun x => sbind (f x) g).
Proof.
  induction s as [|x k IH|e| |]; cbn [sbind]; try reflexivity.
  rewrite sbind_sapp. f_equal. apply functional_extensionality. intros []. apply IH.
Qed.

(** `empty | f` = `empty`, `empty, f` = `f`, `f, empty` = `f` *)
Lemma sbind_nil {A B} (f : A -> str B) : sbind SNil f = SNil. Proof. reflexivity. Qed.
Lemma sapp_nil_l {A} (r : unit -> str A) : sapp SNil r = r tt. Proof. reflexivity. Qed.

(** `f | empty` yields nothing, but still ends as `f` ends (an error of `f` is not lost) *)
Lemma sbind_empty {A B} (xs : list A) (t : str A) :
  (match t with SCons _ _ => False | _ => True end) ->
  sbind (sapp (of_list xs) (fun _ => t)) (fun _ => @SNil B) = sbind t (fun _ => SNil).
Proof. intros _. induction xs as [|x xs IH]; cbn [of_list sapp sbind]; [reflexivity|]. exact IH. Qed.

(** an error ends the stream: nothing that follows is run *)
Lemma error_absorbs {A B} e (r : unit -> str A) (f : A -> str B) :
  sapp (SExn e) r = SExn e /\ sbind (SExn e) f = SExn e.
Proof. split; reflexivity. Qed.

(** `try`: outputs before the first error stay, the handler runs once on it, nothing after it *)
Lemma stry_prefix {A} (xs : list A) e r (h : err -> str A) :
  stry (sapp (of_list xs) (fun _ => sapp (serr e) r)) h = sapp (of_list xs) (fun _ => h e).
Proof.
  induction xs as [|x xs IH]; cbn [of_list sapp stry]; [reflexivity|]. f_equal. apply functional_extensionality. intros []. exact IH.
Qed.

Lemma stry_no_error {A} (xs : list A) (h : err -> str A) : stry (of_list xs) h = of_list xs.
Proof. induction xs as [|x xs IH]; cbn [of_list stry]; [reflexivity|]. f_equal. apply functional_extensionality. intros []. exact IH. Qed.

(** map is bind with a single output *)
Lemma smap_sbind {A B} (g : A -> B) (s : str A) : smap g s = sbind s (fun x => sone (g x)).
Proof.
  induction s as [|x k IH|e| |]; cbn [smap sbind]; try reflexivity. unfold sone at 1. cbn [sapp]. f_equal.
  apply functional_extensionality. intros []. apply IH.
Qed.
