(** Compiler correctness with definitions that take variable and filter parameters: as Proofs/CompileParams.v, with
    `def f(g; $a): body` and calls `f(t; s)`.  A filter argument is not evaluated at the call: the named semantics binds the
    parameter to the closure (argument term, environment and definitions of the caller), and a call `g` of the parameter runs
    that closure on the current input.  The compiled code binds the parameter to the compiled argument with the caller's
    context and reaches it by position.  Closures are related step-indexed: a named closure and a compiled one are related at
    fuel n when they compute the same stream for every smaller fuel. *)
From Coq Require Import ZArith Bool List Lia FunctionalExtensionality Wf_nat.
From JaqV Require Import Base.Bytes Base.Stream Val.Num Val.Val Val.Err Val.Arith Val.Index Core.Syntax Core.Compile Core.Natives Core.Run
  Proofs.TailLaws Proofs.MonadLaws.
From JaqV Require Proofs.CompileCorrect Proofs.GetpathLaws.
Import ListNotations.

Section CF.
  Variable g : genv.
  Variable d : val -> bytes.
  Variable nr : nat -> bytes -> list narg -> val -> option (str val).
  Notation run := (run d nr).
  Notation explode := (explode d nr).

  (** ** named semantics with closures for definitions and for filter arguments *)
  Inductive nbind :=
  | NV (v : val)
  | NL (l : nat)
  | NF (t : pterm) (rho : list (cbind * nbind)) (phi : list fent)
  with fent :=
  | FDef (f : bytes) (ps : list bytes) (body : pterm) (rd : list (cbind * nbind)) (phio : list fent)
  | FPar (p : bytes).
  Definition nenv := list (cbind * nbind).

  Fixpoint lookup (rho : nenv) (x : cbind) : option nbind :=
    match rho with [] => None | (y, a) :: r => if cbind_eqb x y then Some a else lookup r x end.

  (** what a name and arity denote: a definition, or a filter parameter *)
  Inductive ent := EDef (f : bytes) (ps : list bytes) (body : pterm) (rd : nenv) (phio : list fent) | EPar (p : bytes).
  Fixpoint find_ent (f : bytes) (ar : nat) (phi : list fent) : option ent :=
    match phi with
    | [] => None
    | FDef f' ps body rd phio :: r =>
        if bytes_eqb f f' && Nat.eqb ar (length ps) then Some (EDef f' ps body rd phio) else find_ent f ar r
    | FPar p :: r => if bytes_eqb f p && Nat.eqb ar 0 then Some (EPar p) else find_ent f ar r
    end.

  Definition pname (p : bytes) : cbind := if is_var_name p then CVar p else CFun p.
  Definition fparams (ps : list bytes) : list bytes := filter (fun p => negb (is_var_name p)) ps.

  (** the bindings of the parameters, last parameter first: variable parameters take the next value of [ys], filter
      parameters the closure of their argument *)
  Fixpoint mkenv (ps : list bytes) (args : list pterm) (ys : list val) (rho : nenv) (phi : list fent) (acc : nenv) : nenv :=
    match ps, args with
    | p :: ps, a :: args =>
        if is_var_name p then
          match ys with
          | y :: ys => mkenv ps args ys rho phi ((CVar p, NV y) :: acc)
          | [] => acc
          end
        else mkenv ps args ys rho phi ((CFun p, NF a rho phi) :: acc)
    | _, _ => acc
    end.

  (** the environment of functions inside the body of a definition: itself, its filter parameters, what was there before *)
  Definition phi_body (f : bytes) (ps : list bytes) (body : pterm) (rd : nenv) (phio : list fent) : list fent :=
    FDef f ps body rd phio :: map FPar (rev (fparams ps)) ++ phio.

  (** the definitions in front of a term: `def f: b; def g: c; t` *)
  Fixpoint strip (t : pterm) : list (bytes * list bytes * pterm) * pterm :=
    match t with
    | PDef [PDefn f ps body] t' => let '(ds, t0) := strip t' in ((f, ps, body) :: ds, t0)
    | _ => ([], t)
    end.
  Definition push_defs (ds : list (bytes * list bytes * pterm)) (rho : nenv) (phi : list fent) : list fent :=
    fold_left (fun ph fb => FDef (fst (fst fb)) (snd (fst fb)) (snd fb) rho ph :: ph) ds phi.

  Notation fold_go := CompileCorrect.fold_go.

  (** destructuring with one level of variables: `[$a, $b]` and `{k: $a, ...}`; a key is a position or a filter *)
  Inductive pkey := KI (i : Z) | KT (k : pterm).
  Fixpoint arr_items (i : Z) (ps : list ppat) : option (list (pkey * bytes)) :=
    match ps with
    | [] => Some []
    | PPVar x :: r => option_map (cons (KI i, x)) (arr_items (i + 1)%Z r)
    | _ :: _ => None
    end.
  Fixpoint obj_items (kps : list (pterm * ppat)) : option (list (pkey * bytes)) :=
    match kps with
    | [] => Some []
    | (k, PPVar x) :: r => option_map (cons (KT k, x)) (obj_items r)
    | _ :: _ => None
    end.
  Definition flat_items (p : ppat) : option (list (pkey * bytes)) :=
    match p with PPVar _ => None | PPArr ps => arr_items 0%Z ps | PPObj kps => obj_items kps end.
  (** the variables bound to the values, last variable first *)
  Definition pbindv (xs : list bytes) (ys : list val) : nenv := rev (combine (map CVar xs) (map NV ys)).

  (** sums of constructed pieces - the entries of an object, the parts of a string: nothing, one piece, or the first piece
      added to the sum of the others ([one] is the semantics of a piece, [rest] the sum one level of fuel below) *)
  Definition sum_body {X} (one : X -> str val) (rest : list X -> str val) (dflt : val) (xs : list X) : str val :=
    match xs with
    | [] => sone dflt
    | [x] => one x
    | x :: r => sbind (sbind (rest [x]) (fun a => smap (fun y => (a, y)) (rest r)))
                  (fun xy => of_res_opt (math_run Add (fst xy) (snd xy)))
    end.

  (** an entry of an object construction: `{$x}`, `{k}` (the value is `.[k]`), `{k: v}`; [S] is the semantics of subterms *)
  Definition ent_sem (S : pterm -> str val) (m : nat) (kv : pterm * option pterm) : str val :=
    let single := fun (ks vs : str val) => smap (fun kv => from_map [kv]) (sbind ks (fun a => smap (fun y => (a, y)) vs)) in
    match kv with
    | (PVar x, None) => single (match m with O => SBot | S _ => sone (TStr (tl x)) end) (S (PVar x))
    | (k, None) => single (S k) (S (PPath PId [(PIndex k, false)]))
    | (k, Some v') => single (S k) (S v')
    end.

  (** a part of a string: literal text, or an interpolated filter whose outputs are converted to text *)
  Definition part_sem (S : pterm -> str val) (m : nat) (p : strpart) : str val :=
    match p with
    | SPStr x => sone (TStr x)
    | SPTerm f => sbind (S f) (fun y => match m with O => SBot | S _ => sone (into_string d y) end)
    end.

  Fixpoint sem (n : nat) (t : pterm) (rho : nenv) (phi0 : list fent) (lab : nat) (v : val) {struct n} : str val :=
    match n with
    | O => SBot
    | S n =>
        let '(ds, t0) := strip t in
        let phi := push_defs ds rho phi0 in
        let cart := fun l r => sbind (sem n l rho phi lab v) (fun x => smap (fun y => (x, y)) (sem n r rho phi lab v)) in
        match t0 with
        | PId => sone v
        | PNum x => sone (match int_literal x with Some i => vint i | None => Num (from_str x) end)
        | PVar x => match lookup rho (CVar x) with Some (NV a) => sone a | _ => SUnk end
        | PBreak x => match lookup rho (CLabel x) with Some (NL l) => SExn (XBreak l) | _ => SUnk end
        | PLabel x t => slabel (S lab) (sem n t ((CLabel x, NL (S lab)) :: rho) phi (S lab) v)
        | PCall f args =>
            match find_ent f (length args) phi with
            | Some (EDef f' ps body rd phio) =>
                sbind (svals n args ps rho phi lab v)
                  (fun ys => sem n body (mkenv ps args ys rho phi [] ++ rd) (phi_body f' ps body rd phio) lab v)
            | Some (EPar p) =>
                match lookup rho (CFun p) with
                | Some (NF t rho' phi') => sem n t rho' phi' lab v
                | _ => SUnk
                end
            | None => SUnk
            end
        | PNeg t => sbind (sem n t rho phi lab v) (fun x => of_res (vneg x))
        | PArr (Some t) => collect_then (sem n t rho phi lab v) (fun l => sone (Arr l))
        | PTryCatch t (Some c) => stry (sem n t rho phi lab v) (fun e => sem n c rho phi lab (err_val d e))
        | PIte [(i, th)] (Some el) => sbind (sem n i rho phi lab v) (fun x => sem n (if as_bool x then th else el) rho phi lab v)
        | PBinOp l op r =>
            match op with
            | BPipe None => sbind (sem n l rho phi lab v) (fun y => sem n r rho phi lab y)
            | BPipe (Some (PPVar x)) => sbind (sem n l rho phi lab v) (fun y => sem n r ((CVar x, NV y) :: rho) phi lab v)
            | BPipe (Some p) =>
                match flat_items p with
                | Some its =>
                    sbind (sem n l rho phi lab v) (fun y =>
                      sbind (sflat n its rho phi lab y) (fun ys => sem n r (pbindv (map snd its) ys ++ rho) phi lab v))
                | None => SUnk
                end
            | BComma => sapp (sem n l rho phi lab v) (fun _ => sem n r rho phi lab v)
            | BAlt => match sfilter as_bool (sem n l rho phi lab v) with SNil => sem n r rho phi lab v | s => s end
            | BMath o => sbind (cart l r) (fun xy => of_res_opt (math_run o (fst xy) (snd xy)))
            | BCmp o => smap (fun xy => Bool (cmp_run o (fst xy) (snd xy))) (cart l r)
            | BOr => sbind (sem n l rho phi lab v) (fun x => if Bool.eqb (as_bool x) true then sone (Bool true)
                                                         else smap (fun y => Bool (as_bool y)) (sem n r rho phi lab v))
            | BAnd => sbind (sem n l rho phi lab v) (fun x => if Bool.eqb (as_bool x) false then sone (Bool false)
                                                          else smap (fun y => Bool (as_bool y)) (sem n r rho phi lab v))
            | _ => SUnk
            end
        | PPath t path => sbind (sem n t rho phi lab v) (fun y => sbind (sexplode n path rho phi lab v) (fun ps => path_run ps y))
        | PFold name xs (PPVar x) (init :: upd :: rest) =>
            let xsv := match n with O => SBot | S n' => sem n' xs rho phi lab v end in
            let step := fun y acc => sem n upd ((CVar x, NV y) :: rho) phi lab acc in
            if bytes_eqb name name_reduce then
              match rest with
              | [] => sbind (sem n init rho phi lab v) (fold_go step (fun _ _ => SNil) sone xsv)
              | _ => SUnk
              end
            else if bytes_eqb name name_foreach then
              match rest with
              | [] => sbind (sem n init rho phi lab v) (fold_go step (fun _ z => sone z) (fun _ => SNil) xsv)
              | [proj] => sbind (sem n init rho phi lab v) (fold_go step (fun y z => sem n proj ((CVar x, NV y) :: rho) phi lab z) (fun _ => SNil) xsv)
              | _ => SUnk
              end
            else SUnk
        | PRecurse => recurse_vals n v
        | PIte [(i, th)] None => sbind (sem n i rho phi lab v) (fun x => sem n (if as_bool x then th else PId) rho phi lab v)
        | PObj kvs => sum_body (ent_sem (fun t => sem n t rho phi lab v) n) (fun l => sobj n l rho phi lab v) (Obj []) kvs
        | PStr None parts => sum_body (part_sem (fun t => sem n t rho phi lab v) n) (fun l => sstr n l rho phi lab v) (TStr []) parts
        | _ => SUnk
        end
    end

  (** the values a one-level pattern takes out of [y], all combinations, first component outermost; the keys are evaluated
      on [y] in the environment of the binding *)
  with sflat (n : nat) (its : list (pkey * bytes)) (rho : nenv) (phi : list fent) (lab : nat) (y : val) {struct n} : str (list val) :=
    match n with
    | O => SBot
    | S m =>
        match its with
        | [] => sone []
        | (key, _) :: rest =>
            sbind (match key with
                   | KI i => match m with O => SBot | S _ => sone (vint i) end
                   | KT k => sem m k rho phi lab y
                   end) (fun i =>
              sbind (of_res (vindex y i)) (fun xv =>
                match rest with
                | [] => sone [xv]
                | _ => smap (cons xv) (sflat m rest rho phi lab y)
                end))
        end
    end

  (** the sum of the entries of an object / of the parts of a string at fuel n *)
  with sobj (n : nat) (kvs : list (pterm * option pterm)) (rho : nenv) (phi : list fent) (lab : nat) (v : val) {struct n} : str val :=
    match n with
    | O => SBot
    | S m => sum_body (ent_sem (fun t => sem m t rho phi lab v) m) (fun l => sobj m l rho phi lab v) (Obj []) kvs
    end
  with sstr (n : nat) (parts : list strpart) (rho : nenv) (phi : list fent) (lab : nat) (v : val) {struct n} : str val :=
    match n with
    | O => SBot
    | S m => sum_body (part_sem (fun t => sem m t rho phi lab v) m) (fun l => sstr m l rho phi lab v) (TStr []) parts
    end

  (** the values of the variable arguments of a call, all combinations, first argument outermost; filter arguments are not
      evaluated (every argument takes one unit of fuel, as in the interpreter) *)
  with svals (n : nat) (args : list pterm) (ps : list bytes) (rho : nenv) (phi : list fent) (lab : nat) (v : val) {struct n}
    : str (list val) :=
    match n with
    | O => SBot
    | S n =>
        match args, ps with
        | a :: rest, p :: ps' =>
            if is_var_name p then sbind (sem n a rho phi lab v) (fun y => smap (cons y) (svals n rest ps' rho phi lab v))
            else svals n rest ps' rho phi lab v
        | _, _ => sone []
        end
    end

  with sexplode (n : nat) (path : list (ppart * bool)) (rho : nenv) (phi : list fent) (lab : nat) (v : val) {struct n}
    : str (list (vpart * bool)) :=
    match n with
    | O => SBot
    | S n =>
        match path with
        | [] => sone []
        | (p, opt) :: rest =>
            let ps :=
              match p with
              | PIndex i => smap VIndex (sem n i rho phi lab v)
              | PRange None None => sone (VRange None None)
              | PRange (Some f) None => smap (fun x => VRange (Some x) None) (sem n f rho phi lab v)
              | PRange None (Some u) => smap (fun x => VRange None (Some x)) (sem n u rho phi lab v)
              | PRange (Some f) (Some u) =>
                  sbind (sem n f rho phi lab v) (fun x => smap (fun y => VRange (Some x) (Some y)) (sem n u rho phi lab v))
              end in
            sbind ps (fun p' => smap (fun r => (p', opt) :: r) (sexplode n rest rho phi lab v))
        end
    end.

  (** ** the fragment: variables and labels in scope [b], definitions in scope [fs], nesting at most [n] *)
  Inductive frag : list cbind -> list (bytes * nat) -> nat -> pterm -> Prop :=
  | f_id b fs n : frag b fs (S n) PId
  | f_num b fs n x : frag b fs (S n) (PNum x)
  | f_var b fs n x : In (CVar x) b -> frag b fs (S n) (PVar x)
  | f_neg b fs n t : frag b fs n t -> frag b fs (S n) (PNeg t)
  | f_arr b fs n t : frag b fs n t -> frag b fs (S n) (PArr (Some t))
  | f_try b fs n t c : frag b fs n t -> frag b fs n c -> frag b fs (S n) (PTryCatch t (Some c))
  | f_ite b fs n i th el : frag b fs n i -> frag b fs n th -> frag b fs n el -> frag b fs (S n) (PIte [(i, th)] (Some el))
  | f_pipe b fs n l r : frag b fs n l -> frag b fs n r -> frag b fs (S n) (PBinOp l (BPipe None) r)
  | f_bind b fs n l x r : frag b fs n l -> frag (CVar x :: b) fs n r -> frag b fs (S (S n)) (PBinOp l (BPipe (Some (PPVar x))) r)
  | f_comma b fs n l r : frag b fs n l -> frag b fs n r -> frag b fs (S n) (PBinOp l BComma r)
  | f_alt b fs n l r : frag b fs n l -> frag b fs n r -> frag b fs (S n) (PBinOp l BAlt r)
  | f_math b fs n l o r : frag b fs n l -> frag b fs n r -> frag b fs (S n) (PBinOp l (BMath o) r)
  | f_cmp b fs n l o r : frag b fs n l -> frag b fs n r -> frag b fs (S n) (PBinOp l (BCmp o) r)
  | f_or b fs n l r : frag b fs n l -> frag b fs n r -> frag b fs (S n) (PBinOp l BOr r)
  | f_and b fs n l r : frag b fs n l -> frag b fs n r -> frag b fs (S n) (PBinOp l BAnd r)
  | f_path b fs n t ps : frag b fs n t -> frag_parts b fs n ps -> frag b fs (S n) (PPath t ps)
  | f_reduce b fs n xs x init upd : frag b fs n xs -> frag b fs (S n) init -> frag (CVar x :: b) fs (S n) upd ->
      frag b fs (S (S n)) (PFold name_reduce xs (PPVar x) [init; upd])
  | f_foreach b fs n xs x init upd : frag b fs n xs -> frag b fs (S n) init -> frag (CVar x :: b) fs (S n) upd ->
      frag b fs (S (S n)) (PFold name_foreach xs (PPVar x) [init; upd])
  | f_foreach3 b fs n xs x init upd proj : frag b fs n xs -> frag b fs (S n) init -> frag (CVar x :: b) fs (S n) upd ->
      frag (CVar x :: b) fs (S n) proj -> frag b fs (S (S n)) (PFold name_foreach xs (PPVar x) [init; upd; proj])
  | f_label b fs n x t : frag (CLabel x :: b) fs n t -> frag b fs (S n) (PLabel x t)
  | f_break b fs n x : In (CLabel x) b -> frag b fs (S n) (PBreak x)
  | f_call b fs n f args : In (f, length args) fs -> frag_args b fs n args -> frag b fs (S n) (PCall f args)
  | f_def b fs n f ps body t :
      frag (map pname (rev ps) ++ b) ((f, length ps) :: map (fun p => (p, 0%nat)) (rev (fparams ps)) ++ fs) n body ->
      frag b ((f, length ps) :: fs) (S n) t ->
      frag b fs (S (S n)) (PDef [PDefn f ps body] t)
  | f_recurse b fs n : frag b fs (S n) PRecurse
  | f_ite1 b fs n i th : frag b fs n i -> frag b fs n th -> frag b fs (S n) (PIte [(i, th)] None)
  | f_obj b fs n kvs : frag_kvs b fs n kvs -> frag b fs (S n) (PObj kvs)
  | f_str b fs n parts : frag_strs b fs n parts -> frag b fs (S n) (PStr None parts)
  | f_bind_arr b fs n l xs r : frag b fs (S (S n)) l -> frag (map CVar (rev xs) ++ b) fs (S (S n)) r ->
      frag b fs (S (S (S n))) (PBinOp l (BPipe (Some (PPArr (map PPVar xs)))) r)
  | f_bind_obj b fs n l kxs r : frag b fs (S (S n)) l -> frag_args b fs (S n) (map fst kxs) ->
      frag (map CVar (rev (map snd kxs)) ++ b) fs (S (S n)) r ->
      frag b fs (S (S (S n))) (PBinOp l (BPipe (Some (PPObj (map (fun kx => (fst kx, PPVar (snd kx))) kxs)))) r)
  with frag_args : list cbind -> list (bytes * nat) -> nat -> list pterm -> Prop :=
  | fa_nil b fs n : frag_args b fs n []
  | fa_cons b fs n a r : frag b fs n a -> frag_args b fs n r -> frag_args b fs n (a :: r)
  with frag_parts : list cbind -> list (bytes * nat) -> nat -> list (ppart * bool) -> Prop :=
  | fp_nil b fs n : frag_parts b fs n []
  | fp_index b fs n i o ps : frag b fs n i -> frag_parts b fs n ps -> frag_parts b fs n ((PIndex i, o) :: ps)
  | fp_all b fs n o ps : frag_parts b fs n ps -> frag_parts b fs n ((PRange None None, o) :: ps)
  | fp_from b fs n f o ps : frag b fs n f -> frag_parts b fs n ps -> frag_parts b fs n ((PRange (Some f) None, o) :: ps)
  | fp_upto b fs n u o ps : frag b fs n u -> frag_parts b fs n ps -> frag_parts b fs n ((PRange None (Some u), o) :: ps)
  | fp_both b fs n f u o ps : frag b fs n f -> frag b fs n u -> frag_parts b fs n ps -> frag_parts b fs n ((PRange (Some f) (Some u), o) :: ps)
  with frag_kvs : list cbind -> list (bytes * nat) -> nat -> list (pterm * option pterm) -> Prop :=
  | fk_nil b fs n : frag_kvs b fs n []
  | fk_var b fs n x r : frag b fs n (PVar x) -> frag_kvs b fs n r -> frag_kvs b fs n ((PVar x, None) :: r)
  | fk_key b fs n k r : (forall x, k <> PVar x) -> frag b fs n k -> frag_kvs b fs n r -> frag_kvs b fs n ((k, None) :: r)
  | fk_kv b fs n k v r : frag b fs n k -> frag b fs n v -> frag_kvs b fs n r -> frag_kvs b fs n ((k, Some v) :: r)
  with frag_strs : list cbind -> list (bytes * nat) -> nat -> list strpart -> Prop :=
  | fs_nil b fs n : frag_strs b fs n []
  | fs_lit b fs n x r : frag_strs b fs n r -> frag_strs b fs n (SPStr x :: r)
  | fs_term b fs n f r : frag b fs n f -> frag_strs b fs n r -> frag_strs b fs n (SPTerm f :: r).

  Scheme frag_ind2 := Minimality for frag Sort Prop
    with frag_args_ind2 := Minimality for frag_args Sort Prop
    with frag_parts_ind2 := Minimality for frag_parts Sort Prop
    with frag_kvs_ind2 := Minimality for frag_kvs Sort Prop
    with frag_strs_ind2 := Minimality for frag_strs Sort Prop.
  Combined Scheme frag_mutind from frag_ind2, frag_args_ind2, frag_parts_ind2, frag_kvs_ind2, frag_strs_ind2.

  (** ** compile-time environment, run-time context, named environment *)
  Definition scoped (b : list cbind) (e : env) : Prop := forall x, In x b -> index_of x (e_vars e) 0 <> None.
  Definition fscoped (fs : list (bytes * nat)) (e : env) : Prop :=
    forall f ar, In (f, ar) fs -> exists fe, find_fun f ar (e_funs e) = Some fe.
  Definition kind_ok (x : cbind) (a : nbind) : Prop :=
    match x, a with CVar _, NV _ | CLabel _, NL _ | CFun _, NF _ _ _ => True | _, _ => False end.

  (** a named binding and a binding of the context: equal values and labels; closures that compute the same for every
      smaller fuel, whatever the labels in force where they are called *)
  Definition brel (defs : list term) (fuel : nat) (a : nbind) (b : bind) : Prop :=
    match a, b with
    | NV v, BVar v' => v = v'
    | NL l, BLabel l' => l = l'
    | NF t rho' phi', BFun k vars' =>
        forall fuel', (fuel' < fuel)%nat -> forall lab v,
          run defs fuel' k {| vars := vars'; labels := lab |} v = sem fuel' t rho' phi' lab v
    | _, _ => False
    end.

  Definition agrees (defs : list term) (fuel : nat) (e : env) (c : ctx) (rho : nenv) : Prop :=
    map fst rho = e_vars e
    /\ (exists bs rest, vars c = bs ++ rest /\ Forall2 (brel defs fuel) (map snd rho) bs)
    /\ Forall (fun p => kind_ok (fst p) (snd p)) rho.

  Lemma Forall2_imp {A B} (R R' : A -> B -> Prop) l r : (forall a b, R a b -> R' a b) -> Forall2 R l r -> Forall2 R' l r.
  Proof. intros H. induction 1; constructor; auto. Qed.

  Lemma Forall2_length {A B} (R : A -> B -> Prop) l r : Forall2 R l r -> length l = length r.
  Proof. induction 1; cbn; congruence. Qed.

  Lemma brel_fuel defs fuel fuel' a b : (fuel' <= fuel)%nat -> brel defs fuel a b -> brel defs fuel' a b.
  Proof. intros Hle. destruct a, b; cbn; auto. intros H f Hf. apply H. lia. Qed.

  Lemma agrees_fuel defs fuel fuel' e c rho : (fuel' <= fuel)%nat -> agrees defs fuel e c rho -> agrees defs fuel' e c rho.
  Proof.
    intros Hle (H1 & (bs & rest & Hv & HF) & H3). split; [exact H1|]. split; [|exact H3]. exists bs, rest. split; [exact Hv|].
    eapply Forall2_imp; [|exact HF]. intros a b. apply brel_fuel. exact Hle.
  Qed.
  Lemma agrees_pred defs fuel e c rho : agrees defs (S fuel) e c rho -> agrees defs fuel e c rho.
  Proof. apply agrees_fuel. lia. Qed.

  (** only the variables of the context matter *)
  Lemma agrees_vars defs fuel e c c' rho : vars c' = vars c -> agrees defs fuel e c rho -> agrees defs fuel e c' rho.
  Proof. intros E (H1 & (bs & rest & Hv & HF) & H3). split; [exact H1|]. split; [|exact H3]. exists bs, rest. rewrite E. auto. Qed.

  Lemma cbind_eqb_refl x : cbind_eqb x x = true.
  Proof. destruct x; cbn; destruct (bytes_eqb_spec x x); congruence. Qed.
  Lemma cbind_eqb_eq x y : cbind_eqb x y = true -> x = y.
  Proof. destruct x, y; cbn; try discriminate; intros H; destruct (bytes_eqb_spec x x0); congruence. Qed.

  Lemma index_of_shift b l : forall i k, index_of b l (S i) = Some (S k) <-> index_of b l i = Some k.
  Proof.
    induction l as [|a l IH]; intros i k; cbn [index_of]; [split; discriminate|].
    destruct (cbind_eqb b a); [split; intros H; injection H as <-; reflexivity|apply IH].
  Qed.
  Lemma index_of_ge b l : forall i k, index_of b l i = Some k -> (i <= k)%nat.
  Proof.
    induction l as [|a l IH]; intros i k; cbn [index_of]; [discriminate|].
    destruct (cbind_eqb b a); [intros H; injection H as <-; lia|intros H; apply IH in H; lia].
  Qed.

  Lemma lookup_index rho : forall x i, index_of x (map fst rho) 0 = Some i ->
    exists a, nth_error (map snd rho) i = Some a /\ lookup rho x = Some a /\ In (x, a) rho.
  Proof.
    induction rho as [|[y a] rho IH]; intros x i H; [discriminate|]. cbn [map fst index_of lookup] in *.
    destruct (cbind_eqb x y) eqn:E.
    - injection H as <-. exists a. apply cbind_eqb_eq in E. subst. repeat split; [left; reflexivity].
    - destruct i as [|i]; [apply index_of_ge in H; lia|]. apply (proj1 (index_of_shift x (map fst rho) 0 i)) in H.
      destruct (IH x i H) as (a' & Hn & Hl & Hin). exists a'. repeat split; [exact Hn|exact Hl|right; exact Hin].
  Qed.


  Lemma Forall2_nth_l {A B} (R : A -> B -> Prop) l r : Forall2 R l r -> forall i a, nth_error l i = Some a ->
    exists b, nth_error r i = Some b /\ R a b.
  Proof.
    induction 1 as [|x y l r Hxy _ IH]; intros i a Hn; [destruct i; discriminate|]. destruct i as [|i]; cbn in *.
    - injection Hn as <-. eauto.
    - apply IH. exact Hn.
  Qed.

  Lemma agrees_lookup defs fuel e c rho x i : agrees defs fuel e c rho -> index_of x (e_vars e) 0 = Some i ->
    exists a b, nth_error (vars c) i = Some b /\ lookup rho x = Some a /\ kind_ok x a /\ brel defs fuel a b.
  Proof.
    intros (Hm & (bs & rest & Hv & HF) & Hk) H. rewrite <- Hm in H. destruct (lookup_index rho x i H) as (a & Hn & Hl & Hin).
    destruct (Forall2_nth_l _ _ _ HF i a Hn) as (b & Hb & Rab). exists a, b. split; [|split; [exact Hl|split; [|exact Rab]]].
    - rewrite Hv. rewrite nth_error_app1; [exact Hb|]. apply nth_error_Some. congruence.
    - rewrite Forall_forall in Hk. apply (Hk (x, a) Hin).
  Qed.

  Lemma scoped_push b e x : scoped b e -> scoped (x :: b) (push_var x e).
  Proof.
    intros H y [<-|Hy]; unfold push_var; cbn [e_vars index_of].
    - rewrite cbind_eqb_refl. discriminate.
    - destruct (cbind_eqb y x); [discriminate|].
      specialize (H y Hy). destruct (index_of y (e_vars e) 0) as [k|] eqn:E; [|congruence].
      apply (proj2 (index_of_shift y (e_vars e) 0 k)) in E. rewrite E. discriminate.
  Qed.


  Lemma agrees_push_gen defs fuel e (c c' : ctx) rho x a b :
    vars c' = b :: vars c -> kind_ok x a -> brel defs fuel a b -> agrees defs fuel e c rho ->
    agrees defs fuel (push_var x e) c' ((x, a) :: rho).
  Proof.
    intros Hv Hk Hb (Hm & (bs & rest & Hr & HF) & Hf). split; [|split].
    - cbn [map fst push_var e_vars]. rewrite Hm. reflexivity.
    - exists (b :: bs), rest. rewrite Hv, Hr. split; [reflexivity|]. cbn [map snd]. constructor; assumption.
    - constructor; assumption.
  Qed.
  Lemma agrees_push defs fuel e c rho x a :
    agrees defs fuel e c rho -> agrees defs fuel (push_var (CVar x) e) (cons_var a c) ((CVar x, NV a) :: rho).
  Proof. eapply agrees_push_gen; [reflexivity|exact I|reflexivity]. Qed.
  Lemma agrees_push_label defs fuel e c rho x :
    agrees defs fuel e c rho -> agrees defs fuel (push_var (CLabel x) e) (cons_label c) ((CLabel x, NL (S (labels c))) :: rho).
  Proof. eapply agrees_push_gen; [reflexivity|exact I|reflexivity]. Qed.

  (** ** the table of definitions *)
  Definition extends (s s' : cst) : Prop :=
    c_errs s' = c_errs s /\ (length (c_defs s) <= length (c_defs s'))%nat
    /\ forall i, (i < length (c_defs s))%nat -> nth_error (c_defs s') i = nth_error (c_defs s) i.
  (** [defs] contains what was allocated between [s] and [s'] *)
  Definition covers (s s' : cst) (defs : list term) : Prop :=
    forall i, (length (c_defs s) <= i < length (c_defs s'))%nat -> nth_error defs i = nth_error (c_defs s') i.

  Lemma extends_refl s : extends s s.
  Proof. repeat split; auto. Qed.
  Lemma extends_trans s1 s2 s3 : extends s1 s2 -> extends s2 s3 -> extends s1 s3.
  Proof.
    intros (E1 & L1 & H1) (E2 & L2 & H2). repeat split; [congruence|lia|]. intros i Hi. rewrite H2 by lia. apply H1. exact Hi.
  Qed.
  Lemma covers_refl s defs : covers s s defs.
  Proof. intros i Hi. lia. Qed.
  Lemma covers_left s1 s2 s3 defs : extends s1 s2 -> extends s2 s3 -> covers s1 s3 defs -> covers s1 s2 defs.
  Proof.
    intros (_ & L1 & _) (_ & L2 & H2) H i Hi. rewrite H by lia. apply H2. lia.
  Qed.
  Lemma covers_right s1 s2 s3 defs : extends s1 s2 -> extends s2 s3 -> covers s1 s3 defs -> covers s2 s3 defs.
  Proof. intros (_ & L1 & _) (_ & L2 & _) H i Hi. apply H. lia. Qed.

  (** ** definitions in scope: compile-time entries against closures *)
  Definition entry_info (fe : fentry) : option (nat * list bool) :=
    match f_kind fe with FParent kinds id | FSibling kinds id _ => Some (id, kinds) | FArg => None end.

  (** ** what names denote: compile-time entries against the entries of the named semantics *)
  Definition ent_rel (defs : list term) (fuel : nat) (rho : nenv) (fe : fentry) (en : ent) : Prop :=
    match en with
    | EDef f ps body rd phio =>
        f_arity fe = length ps /\ exists id k,
          entry_info fe = Some (id, map is_var_name ps) /\ f_vars fe = length rd /\ (exists pushed, rho = pushed ++ rd)
          /\ nth_error defs id = Some k
          /\ forall fuel', (fuel' < fuel)%nat -> forall c v bs,
               map fst bs = map pname (rev ps) -> Forall (fun p => kind_ok (fst p) (snd p)) bs ->
               (exists cb rest, vars c = cb ++ rest /\ Forall2 (brel defs fuel') (map snd (bs ++ rd)) cb) ->
               run defs fuel' k c v = sem fuel' body (bs ++ rd) (phi_body f ps body rd phio) (labels c) v
    | EPar p =>
        f_kind fe = FArg /\ (f_vars fe <= length rho)%nat
        /\ index_of (CFun p) (map fst rho) 0 = Some (length rho - f_vars fe)%nat
    end.

  Definition funs_ok (defs : list term) (fuel : nat) (fes : list fentry) (rho : nenv) (phi : list fent) : Prop :=
    forall f ar fe, find_fun f ar fes = Some fe -> exists en, find_ent f ar phi = Some en /\ ent_rel defs fuel rho fe en.

  Lemma ent_rel_fuel defs fuel fuel' rho fe en : (fuel' <= fuel)%nat -> ent_rel defs fuel rho fe en -> ent_rel defs fuel' rho fe en.
  Proof.
    intros Hle. destruct en as [f ps body rd phio|p]; cbn [ent_rel]; [|auto].
    intros (A & id & k & I & V & P & T & C). split; [exact A|]. exists id, k. repeat split; auto. intros f'' Hf''. apply C. lia.
  Qed.
  Lemma funs_ok_fuel defs fuel fuel' fes rho phi : (fuel' <= fuel)%nat -> funs_ok defs fuel fes rho phi -> funs_ok defs fuel' fes rho phi.
  Proof. intros Hle H f ar fe Hf. destruct (H f ar fe Hf) as (en & E & R). exists en. split; [exact E|]. eapply ent_rel_fuel; eassumption. Qed.
  Lemma funs_pred defs fuel fes rho phi : funs_ok defs (S fuel) fes rho phi -> funs_ok defs fuel fes rho phi.
  Proof. apply funs_ok_fuel. lia. Qed.

  (** a new variable or label in front does not disturb what the names denote *)
  Lemma funs_push defs fuel fes rho phi x a : (forall p, x <> CFun p) ->
    funs_ok defs fuel fes rho phi -> funs_ok defs fuel fes ((x, a) :: rho) phi.
  Proof.
    intros Hx H f ar fe Hf. destruct (H f ar fe Hf) as (en & E & R). exists en. split; [exact E|].
    destruct en as [f' ps body rd phio|p]; cbn [ent_rel] in *.
    - destruct R as (A & id & k & I & V & (pushed & P) & T & C). split; [exact A|]. exists id, k. repeat split; auto.
      exists ((x, a) :: pushed). rewrite P. reflexivity.
    - destruct R as (K & V & L). split; [exact K|]. cbn [length map fst index_of]. split; [lia|].
      assert (cbind_eqb (CFun p) x = false) as -> by (destruct x as [y|y|y]; try reflexivity; exfalso; apply (Hx y); reflexivity).
      apply (proj2 (index_of_shift (CFun p) (map fst rho) 0 (length rho - f_vars fe))) in L. rewrite L. f_equal. lia.
  Qed.

  Notation c_parts := (CompileCorrect.c_parts g).

  Definition P_term (b : list cbind) (fs : list (bytes * nat)) (n : nat) (t : pterm) : Prop :=
    forall m e s tr, (n <= m)%nat -> scoped b e -> fscoped fs e ->
    exists k trr s', c_term g m e s t tr = ((k, trr), s') /\ extends s s'
      /\ forall defs, covers s s' defs -> forall fuel c rho phi v, agrees defs fuel e c rho -> funs_ok defs fuel (e_funs e) rho phi ->
          run defs fuel k c v = sem fuel t rho phi (labels c) v.
  Definition P_parts (b : list cbind) (fs : list (bytes * nat)) (n : nat) (ps : list (ppart * bool)) : Prop :=
    forall m e s, (n <= m)%nat -> scoped b e -> fscoped fs e ->
    exists cps s', c_parts m e s ps = (cps, s') /\ extends s s'
      /\ forall defs, covers s s' defs -> forall fuel c rho phi v, agrees defs fuel e c rho -> funs_ok defs fuel (e_funs e) rho phi ->
          explode defs fuel cps c v = sexplode fuel ps rho phi (labels c) v.

  (** the compiled arguments of a call: the loop inside [c_term] *)
  Fixpoint c_args (m : nat) (e : env) (s : cst) (ts : list pterm) : list term * cst :=
    match ts with
    | [] => ([], s)
    | t :: r => let '((t', _), s) := c_term g m e s t [] in let '(r', s) := c_args m e s r in (t' :: r', s)
    end.

  Lemma c_call m e s f args tr :
    c_term g (S m) e s (PCall f args) tr = let '(cargs, s') := c_args m e s args in call g e s' f cargs tr.
  Proof.
    cbn [c_term].
    match goal with |- (let '(args0, s0) := ?F e s args in _) = _ =>
      assert (E : forall ts s', F e s' ts = c_args m e s' ts) end.
    { induction ts as [|t r IH]; intros s'; [reflexivity|]. cbn [c_args]. destruct (c_term g m e s' t []) as [[t' tt] st].
      rewrite IH. reflexivity. }
    rewrite E. reflexivity.
  Qed.

  Notation bind_vars := (bind_vars d nr).
  Lemma run_calldef defs fuel id args skip ct c v :
    run defs (S fuel) (KCallDef id args skip ct) c v
    = match nth_error defs id with
      | Some body => sbind (bind_vars defs fuel args (skip_vars skip c) c v) (fun c' => run defs fuel body c' v)
      | None => SUnk
      end.
  Proof. reflexivity. Qed.
  Lemma bind_vars_cons defs fuel a rest acc c v :
    bind_vars defs (S fuel) ((true, a) :: rest) acc c v
    = sbind (run defs fuel a c v) (fun y => bind_vars defs fuel rest (cons_var y acc) c v).
  Proof. reflexivity. Qed.

  Lemma bind_vars_fun defs fuel a rest acc c v :
    bind_vars defs (S fuel) ((false, a) :: rest) acc c v = bind_vars defs fuel rest (cons_fun a c acc) c v.
  Proof. reflexivity. Qed.
  Lemma bind_vars_nil defs fuel acc c v : bind_vars defs (S fuel) [] acc c v = sone acc.
  Proof. reflexivity. Qed.

  (** the context after binding the arguments: values of variable parameters, closures of filter parameters *)
  Fixpoint mkctx (kinds : list bool) (cargs : list term) (ys : list val) (c : ctx) (acc : ctx) : ctx :=
    match kinds, cargs with
    | true :: ks, a :: r => match ys with y :: ys' => mkctx ks r ys' c (cons_var y acc) | [] => acc end
    | false :: ks, a :: r => mkctx ks r ys c (cons_fun a c acc)
    | _, _ => acc
    end.

  Definition arg_ok (defs : list term) (e : env) (a : pterm) (k : term) : Prop :=
    forall fuel c rho phi v, agrees defs fuel e c rho -> funs_ok defs fuel (e_funs e) rho phi ->
      run defs fuel k c v = sem fuel a rho phi (labels c) v.

  Definition P_args (b : list cbind) (fs : list (bytes * nat)) (n : nat) (args : list pterm) : Prop :=
    forall m e s, (n <= m)%nat -> scoped b e -> fscoped fs e ->
    exists cargs s', c_args m e s args = (cargs, s') /\ extends s s' /\ length cargs = length args
      /\ forall defs, covers s s' defs ->
          Forall2 (arg_ok defs e) args cargs
          /\ forall ps fuel c rho phi v acc, length ps = length args ->
               agrees defs fuel e c rho -> funs_ok defs fuel (e_funs e) rho phi ->
               bind_vars defs fuel (combine (map is_var_name ps) cargs) acc c v
               = smap (fun ys => mkctx (map is_var_name ps) cargs ys c acc) (svals fuel args ps rho phi (labels c) v).



  (** ** one-level destructuring: what the compiler builds for the pattern *)
  Fixpoint arr_its (i : Z) (xs : list bytes) : list (pkey * bytes) :=
    match xs with [] => [] | x :: r => (KI i, x) :: arr_its (i + 1)%Z r end.
  Fixpoint arr_cpats (i : Z) (xs : list bytes) : list (term * pattern) :=
    match xs with [] => [] | x :: r => (KInt i, PatVar) :: arr_cpats (i + 1)%Z r end.

  Lemma arr_items_vars xs : forall i, arr_items i (map PPVar xs) = Some (arr_its i xs).
  Proof. induction xs as [|x r IH]; intros i; [reflexivity|]. cbn [map arr_items arr_its]. rewrite IH. reflexivity. Qed.
  Lemma arr_its_snd xs : forall i, map snd (arr_its i xs) = xs.
  Proof. induction xs as [|x r IH]; intros i; [reflexivity|]. cbn [arr_its map snd]. rewrite IH. reflexivity. Qed.
  Lemma obj_items_vars kxs : obj_items (map (fun kx : pterm * bytes => (fst kx, PPVar (snd kx))) kxs) = Some (map (fun kx => (KT (fst kx), snd kx)) kxs).
  Proof. induction kxs as [|[k x] r IH]; [reflexivity|]. cbn [map obj_items fst snd]. rewrite IH. reflexivity. Qed.

  Lemma pat_vars_arr n xs : pat_vars_f (S (S n)) (PPArr (map PPVar xs)) = xs.
  Proof. cbn [pat_vars_f]. induction xs as [|x r IH]; [reflexivity|]. cbn [map flat_map pat_vars_f app]. rewrite IH. reflexivity. Qed.
  Lemma pat_vars_obj n (kxs : list (pterm * bytes)) :
    pat_vars_f (S (S n)) (PPObj (map (fun kx => (fst kx, PPVar (snd kx))) kxs)) = map snd kxs.
  Proof. cbn [pat_vars_f]. induction kxs as [|[k x] r IH]; [reflexivity|]. cbn [map flat_map pat_vars_f app fst snd]. rewrite IH. reflexivity. Qed.

  Lemma c_pat_arr n e s xs : c_pattern g (S (S n)) e s (PPArr (map PPVar xs)) = (PatIdx (arr_cpats 0 xs), s).
  Proof.
    cbn [c_pattern].
    match goal with |- (let '(ps0, s0) := ?F s 0%Z (map PPVar xs) in _) = _ =>
      assert (E : forall l i s', F s' i (map PPVar l) = (arr_cpats i l, s')) end.
    { induction l as [|x r IH]; intros i s'; [reflexivity|]. cbn [map arr_cpats]. rewrite IH. reflexivity. }
    rewrite E. reflexivity.
  Qed.

  Lemma c_pat_obj n e s (kxs : list (pterm * bytes)) :
    c_pattern g (S (S n)) e s (PPObj (map (fun kx => (fst kx, PPVar (snd kx))) kxs))
    = let '(ks, s') := c_args (S n) e s (map fst kxs) in (PatIdx (map (fun k => (k, PatVar)) ks), s').
  Proof.
    cbn [c_pattern].
    match goal with |- (let '(kps0, s0) := ?F s (map _ kxs) in _) = _ =>
      assert (E : forall l s', F s' (map (fun kx : pterm * bytes => (fst kx, PPVar (snd kx))) l)
                               = let '(ks, s'') := c_args (S n) e s' (map fst l) in (map (fun k => (k, PatVar)) ks, s'')) end.
    { induction l as [|[k x] r IH]; intros s'; [reflexivity|]. cbn [map fst snd c_args].
      fold (c_term g (S n) e s' k []). destruct (c_term g (S n) e s' k []) as [[k' tk] sk]. rewrite IH.
      destruct (c_args (S n) e sk (map fst r)) as [ks s'']. reflexivity. }
    rewrite E. destruct (c_args (S n) e s (map fst kxs)) as [ks s']. reflexivity.
  Qed.

  (** ** objects and strings: the loops inside [c_term] and the sums they build *)
  Definition c_ent (m : nat) (e : env) (s : cst) (kv : pterm * option pterm) : term * cst :=
    match kv with
    | (PVar x, None) => let '((v, _), s) := c_term g m e s (PVar x) [] in (KObjSingle (KStr (tl x)) v, s)
    | (k, None) => let '((k, _), s) := c_term g m e s k [] in (KObjSingle k (KPath KId [(Index k, false)]), s)
    | (k, Some v) => let '((k, _), s) := c_term g m e s k [] in let '((v, _), s) := c_term g m e s v [] in (KObjSingle k v, s)
    end.
  Fixpoint c_kvs (m : nat) (e : env) (s : cst) (kvs : list (pterm * option pterm)) : list term * cst :=
    match kvs with
    | [] => ([], s)
    | kv :: r => let '(t, s) := c_ent m e s kv in let '(r', s) := c_kvs m e s r in (t :: r', s)
    end.
  Lemma c_obj m e s kvs tr :
    c_term g (S m) e s (PObj kvs) tr = let '(ts, s') := c_kvs m e s kvs in ((sum_or KObjEmpty ts, []), s').
  Proof.
    cbn [c_term].
    match goal with |- (let '(kvs0, s0) := ?F s kvs in _) = _ => assert (E : forall l s', F s' l = c_kvs m e s' l) end.
    { induction l as [|[k [v|]] r IH]; intros s'; [reflexivity| |].
      - cbn [c_kvs c_ent]. destruct k; destruct (c_term g m e s' _ []) as [[k' tk] sk]; destruct (c_term g m e sk v []) as [[v' tv] sv]; rewrite IH; reflexivity.
      - cbn [c_kvs c_ent]. destruct k; destruct (c_term g m e s' _ []) as [[k' tk] sk]; rewrite IH; reflexivity. }
    rewrite E. reflexivity.
  Qed.

  Fixpoint c_strs (m : nat) (e : env) (s : cst) (ps : list strpart) : list term * cst :=
    match ps with
    | [] => ([], s)
    | SPStr x :: r => let '(r', s) := c_strs m e s r in (KStr x :: r', s)
    | SPTerm f :: r => let '((f', _), s) := c_term g m e s f [] in let '(r', s) := c_strs m e s r in (KPipe f' None KToString :: r', s)
    end.
  Lemma c_str m e s parts tr :
    c_term g (S m) e s (PStr None parts) tr = let '(ts, s') := c_strs m e s parts in ((sum_or (KStr []) ts, []), s').
  Proof.
    cbn [c_term].
    match goal with |- (let '(ps0, s0) := ?F s parts in _) = _ => assert (E : forall l s', F s' l = c_strs m e s' l) end.
    { induction l as [|[x|f] r IH]; intros s'; [reflexivity| |]; cbn [c_strs].
      - rewrite IH. reflexivity.
      - destruct (c_term g m e s' f []) as [[f' tf] sf]. rewrite IH. reflexivity. }
    rewrite E. reflexivity.
  Qed.

  Lemma c_ite1 n e s i t tr :
    c_term g (S n) e s (PIte [(i, t)] None) tr =
    let '((i', _), s1) := c_term g n e s i [] in
    let '((t', trt), s2) := c_term g n e s1 t tr in
    ((KIte i' t' KId, union trt []), s2).
  Proof. cbn [c_term]. destruct (c_term g n e s i []) as [[i' t0] s1]. destruct (c_term g n e s1 t tr) as [[t' trt] s2]. reflexivity. Qed.

  Lemma run_objsingle defs m k x c v :
    run defs (S m) (KObjSingle k x) c v = smap (fun kv => from_map [kv]) (sbind (run defs m k c v) (fun a => smap (fun y => (a, y)) (run defs m x c v))).
  Proof. reflexivity. Qed.
  Lemma run_math defs m l op r c v :
    run defs (S m) (KMath l op r) c v
    = sbind (sbind (run defs m l c v) (fun a => smap (fun y => (a, y)) (run defs m r c v))) (fun xy => of_res_opt (math_run op (fst xy) (snd xy))).
  Proof. reflexivity. Qed.
  Lemma run_pipe0 defs m l r c v : run defs (S m) (KPipe l None r) c v = sbind (run defs m l c v) (fun y => run defs m r c y).
  Proof. reflexivity. Qed.

  (** the sum of compiled pieces computes the sum of their semantics, for every fuel up to a bound *)
  Lemma sum_correct {X} (one : nat -> X -> str val) (sumf : nat -> list X -> str val) dflt kd defs c v F :
    (forall m xs, sumf (S m) xs = sum_body (one m) (sumf m) dflt xs) -> (forall xs, sumf 0%nat xs = SBot) ->
    (forall fuel, run defs fuel kd c v = match fuel with O => SBot | S _ => sone dflt end) ->
    forall xs ts, Forall2 (fun x t => forall fuel, (fuel <= F)%nat -> run defs fuel t c v = match fuel with O => SBot | S m => one m x end) xs ts ->
    forall fuel, (fuel <= F)%nat -> run defs fuel (sum_or kd ts) c v = sumf fuel xs.
  Proof.
    intros HS H0 Hd xs ts HF. induction HF as [|x t xs ts Hxt HF IH]; intros fuel Hle.
    - cbn [sum_or]. rewrite Hd. destruct fuel; [rewrite H0; reflexivity|rewrite HS; reflexivity].
    - assert (ONE : forall fuel, (fuel <= F)%nat -> run defs fuel t c v = sumf fuel [x]).
      { intros f Hf. rewrite (Hxt f Hf). destruct f; [rewrite H0; reflexivity|rewrite HS; reflexivity]. }
      destruct HF as [|x2 t2 xs ts Hx2 HF].
      + cbn [sum_or]. apply ONE. exact Hle.
      + change (sum_or kd (t :: t2 :: ts)) with (KMath t Add (sum_or kd (t2 :: ts))).
        destruct fuel as [|m]; [rewrite H0; reflexivity|]. rewrite run_math, HS. cbn [sum_body].
        rewrite (ONE m ltac:(lia)). rewrite (IH m ltac:(lia)). reflexivity.
  Qed.

  Definition ent_one (rho : nenv) (phi : list fent) (lab : nat) (v : val) (m : nat) (kv : pterm * option pterm) : str val :=
    ent_sem (fun t => sem m t rho phi lab v) m kv.
  Definition part_one (rho : nenv) (phi : list fent) (lab : nat) (v : val) (m : nat) (p : strpart) : str val :=
    part_sem (fun t => sem m t rho phi lab v) m p.

  Definition P_kvs (b : list cbind) (fs : list (bytes * nat)) (n : nat) (kvs : list (pterm * option pterm)) : Prop :=
    forall m e s, (n <= m)%nat -> scoped b e -> fscoped fs e ->
    exists ts s', c_kvs m e s kvs = (ts, s') /\ extends s s'
      /\ forall defs, covers s s' defs -> forall F c rho phi v, agrees defs F e c rho -> funs_ok defs F (e_funs e) rho phi ->
          Forall2 (fun kv t => forall fuel, (fuel <= F)%nat ->
                     run defs fuel t c v = match fuel with O => SBot | S m' => ent_one rho phi (labels c) v m' kv end) kvs ts.
  Definition P_strs (b : list cbind) (fs : list (bytes * nat)) (n : nat) (ps : list strpart) : Prop :=
    forall m e s, (n <= m)%nat -> scoped b e -> fscoped fs e ->
    exists ts s', c_strs m e s ps = (ts, s') /\ extends s s'
      /\ forall defs, covers s s' defs -> forall F c rho phi v, agrees defs F e c rho -> funs_ok defs F (e_funs e) rho phi ->
          Forall2 (fun p t => forall fuel, (fuel <= F)%nat ->
                     run defs fuel t c v = match fuel with O => SBot | S m' => part_one rho phi (labels c) v m' p end) ps ts.

  Ltac start := intros m e s tr Hm Hsc Hfs; (destruct m as [|m]; [lia|]).
  Ltac sem0 := intros defs Hc fuel c rho phi v Hag0 Hfr; (destruct fuel as [|fuel]; [reflexivity|]);
               cbn [Run.run sem strip push_defs fold_left]; pose proof (funs_pred _ _ _ _ _ Hfr) as Hfr';
               pose proof (agrees_pred _ _ _ _ _ Hag0) as Hag.
  Ltac semx := intros defs Hc fuel c rho phi v Hag0 Hfr; (destruct fuel as [|fuel]; [reflexivity|]);
               rewrite ?CompileCorrect.explode_cons; cbn [sexplode]; pose proof (funs_pred _ _ _ _ _ Hfr) as Hfr';
               pose proof (agrees_pred _ _ _ _ _ Hag0) as Hag.

  Lemma sem_def n f ps body t rho phi lab v :
    sem n (PDef [PDefn f ps body] t) rho phi lab v = sem n t rho (FDef f ps body rho phi :: phi) lab v.
  Proof. destruct n; [reflexivity|]. cbn [sem strip]. destruct (strip t) as [ds t0]. reflexivity. Qed.

  Notation sforall := GetpathLaws.sforall.

  Lemma sforall_smap {A B} (P : B -> Prop) (h : A -> B) (s : str A) : sforall (fun x => P (h x)) s -> sforall P (smap h s).
  Proof. induction s as [|x k IH|e| |]; cbn; auto. intros [H1 H2]. split; [exact H1|apply IH; exact H2]. Qed.

  Lemma sbind_ext_on {A B} (P : A -> Prop) (s : str A) (f1 f2 : A -> str B) :
    sforall P s -> (forall x, P x -> f1 x = f2 x) -> sbind s f1 = sbind s f2.
  Proof.
    induction s as [|x k IH|e| |]; cbn; intros H E; try reflexivity. destruct H as [H1 H2]. rewrite (E x H1). f_equal.
    apply functional_extensionality. intros []. apply IH; assumption.
  Qed.

  Lemma sbind_smap {A B C} (h : A -> B) (s : str A) (f : B -> str C) : sbind (smap h s) f = sbind s (fun x => f (h x)).
  Proof.
    rewrite smap_sbind, sbind_assoc. f_equal. apply functional_extensionality. intros x. apply sbind_sone_l.
  Qed.

  Lemma smap_smap {A B C} (h : A -> B) (k : B -> C) (s : str A) : smap k (smap h s) = smap (fun x => k (h x)) s.
  Proof. induction s as [|x t IH|e| |]; cbn; try reflexivity. f_equal. apply functional_extensionality. intros []. apply IH. Qed.

  Lemma smap_bind {A B C} (h : B -> C) (s : str A) (f : A -> str B) : smap h (sbind s f) = sbind s (fun x => smap h (f x)).
  Proof.
    rewrite smap_sbind, sbind_assoc. f_equal. apply functional_extensionality. intros x. symmetry. apply smap_sbind.
  Qed.

  Lemma set_nth_length A i (a : A) l : length (set_nth i a l) = length l.
  Proof. revert i; induction l as [|x l IH]; intros [|i]; cbn; auto. Qed.
  Lemma set_nth_same A i (a : A) l : (i < length l)%nat -> nth_error (set_nth i a l) i = Some a.
  Proof. revert i; induction l as [|x l IH]; intros [|i] H; cbn in *; try lia; [reflexivity|apply IH; lia]. Qed.
  Lemma set_nth_other A i j (a : A) l : i <> j -> nth_error (set_nth i a l) j = nth_error l j.
  Proof. revert i j; induction l as [|x l IH]; intros [|i] [|j] H; cbn; try reflexivity; try congruence. apply IH. congruence. Qed.

  Lemma map_fst_combine {A B} (l : list A) : forall (r : list B), length l = length r -> map fst (combine l r) = l.
  Proof. induction l as [|a l IH]; intros [|b r] H; cbn in *; try congruence. f_equal. apply IH. congruence. Qed.
  Lemma map_snd_combine {A B} (l : list A) : forall (r : list B), length l = length r -> map snd (combine l r) = r.
  Proof. induction l as [|a l IH]; intros [|b r] H; cbn in *; try congruence. f_equal. apply IH. congruence. Qed.

  Lemma index_behind_prefix x l vs : index_of x vs 0 <> None -> index_of x (l ++ vs) 0 <> None.
  Proof.
    intros H. induction l as [|y l IH]; [exact H|]. cbn [app index_of]. destruct (cbind_eqb x y); [discriminate|].
    destruct (index_of x (l ++ vs) 0) as [k|] eqn:Ei; [|congruence].
    apply (proj2 (index_of_shift x (l ++ vs) 0 k)) in Ei. rewrite Ei. discriminate.
  Qed.
  Lemma index_in_prefix x l vs : In x l -> index_of x (l ++ vs) 0 <> None.
  Proof.
    induction l as [|y l IH]; intros H; [destruct H|]. cbn [app index_of]. destruct (cbind_eqb x y) eqn:E; [discriminate|].
    destruct H as [->|H]; [rewrite cbind_eqb_refl in E; discriminate|]. specialize (IH H).
    destruct (index_of x (l ++ vs) 0) as [k|] eqn:Ei; [|congruence].
    apply (proj2 (index_of_shift x (l ++ vs) 0 k)) in Ei. rewrite Ei. discriminate.
  Qed.

  Lemma c_def1 m e s f ps body t tr :
    c_term g (S (S m)) e s (PDef [PDefn f ps body] t) tr
    = let id := length (c_defs s) in
      let '((kb, trb), s2) := c_term g m (push_parent f ps id e) {| c_defs := c_defs s ++ [KId]; c_errs := c_errs s |} body (id :: tr) in
      c_term g (S m) (push_sibling f (map is_var_name ps) id trb e) (set_def id kb s2) t tr.
  Proof.
    change (c_term g (S (S m)) e s (PDef [PDefn f ps body] t) tr) with
      (let '(e', s') := (let '(e0, s0) := c_open_def g (S m) e s (PDefn f ps body) tr in (e0, s0)) in c_term g (S m) e' s' t tr).
    change (c_open_def g (S m) e s (PDefn f ps body) tr) with
      (let '((b0, tr_), s0) := c_term g m (push_parent f ps (length (c_defs s)) e) {| c_defs := c_defs s ++ [KId]; c_errs := c_errs s |}
                                 body (length (c_defs s) :: tr) in
       (push_sibling f (map is_var_name ps) (length (c_defs s)) tr_ e, set_def (length (c_defs s)) b0 s0)).
    cbv zeta. destruct (c_term g m _ _ body _) as [[kb trb] s2]. reflexivity.
  Qed.

  (** ** the environment inside a definition *)
  Definition params_env (ps : list bytes) (e : env) : env :=
    fold_left (fun e a => if is_var_name a then push_var (CVar a) e else push_arg a e) ps e.

  Lemma push_parent_eq f ps id e :
    push_parent f ps id e
    = push_fun {| f_name := f; f_arity := length ps; f_kind := FParent (map is_var_name ps) id; f_vars := total e |} (params_env ps e).
  Proof. reflexivity. Qed.

  Lemma params_env_snoc ps p e :
    params_env (ps ++ [p]) e = (if is_var_name p then push_var (CVar p) (params_env ps e) else push_arg p (params_env ps e)).
  Proof. unfold params_env. rewrite fold_left_app. reflexivity. Qed.

  Lemma params_env_vars ps : forall e, e_vars (params_env ps e) = map pname (rev ps) ++ e_vars e.
  Proof.
    induction ps as [|x ps IH] using rev_ind; intros e; [reflexivity|]. rewrite params_env_snoc, rev_app_distr. cbn [rev app map].
    unfold pname at 1. destruct (is_var_name x); cbn [push_var push_arg push_fun e_vars]; rewrite IH; reflexivity.
  Qed.

  Lemma fparams_snoc ps p : fparams (ps ++ [p]) = fparams ps ++ (if is_var_name p then [] else [p]).
  Proof. unfold fparams. rewrite filter_app. cbn [filter]. destruct (is_var_name p); reflexivity. Qed.

  (** what a name denotes inside the definition: a filter parameter points at its variable; anything else is what it was *)
  Lemma params_env_find ps : forall e f ar fe, find_fun f ar (e_funs (params_env ps e)) = Some fe ->
    (find_fun f ar (e_funs e) = Some fe /\ ~ (ar = 0%nat /\ In f (fparams ps)))
    \/ (ar = 0%nat /\ In f (fparams ps) /\ f_kind fe = FArg /\ (f_vars fe <= total (params_env ps e))%nat
        /\ index_of (CFun f) (e_vars (params_env ps e)) 0 = Some (total (params_env ps e) - f_vars fe)%nat).
  Proof.
    induction ps as [|p ps IH] using rev_ind; intros e f ar fe H.
    - left. split; [exact H|]. intros [_ []].
    - rewrite params_env_snoc in *. rewrite fparams_snoc. destruct (is_var_name p) eqn:Ev.
      + cbn [push_var e_funs] in H. destruct (IH e f ar fe H) as [[H1 H2]|(A & I & K & V & X)].
        * left. split; [exact H1|]. rewrite app_nil_r. exact H2.
        * right. rewrite app_nil_r. repeat split; auto.
          -- unfold total in *. cbn [push_var e_vars length]. lia.
          -- unfold total in *. cbn [push_var e_vars length index_of cbind_eqb].
             apply (proj2 (index_of_shift (CFun f) (e_vars (params_env ps e)) 0 _)) in X. rewrite X. f_equal. lia.
      + unfold push_arg in H. cbn [push_fun e_funs find_fun f_name f_arity] in H.
        destruct (bytes_eqb f p && Nat.eqb ar 0) eqn:T.
        * injection H as <-. apply andb_prop in T as [T1 T2]. apply Nat.eqb_eq in T2. destruct (bytes_eqb_spec f p) as [->|]; [|discriminate].
          right. split; [exact T2|]. split; [apply in_or_app; right; left; reflexivity|]. split; [reflexivity|].
          unfold push_arg, total. cbn [push_fun push_var e_vars f_vars length index_of]. rewrite cbind_eqb_refl. split; [lia|]. f_equal. lia.
        * cbn [push_var e_funs] in H. destruct (IH e f ar fe H) as [[H1 H2]|(A & I & K & V & X)].
          -- left. split; [exact H1|]. intros [A I]. apply in_app_or in I as [I|[<-|[]]]; [apply H2; auto|].
             rewrite A in T. cbn in T. rewrite andb_true_r in T. destruct (bytes_eqb_spec p p); congruence.
          -- right. split; [exact A|]. split; [apply in_or_app; left; exact I|]. split; [exact K|].
             unfold push_arg, total in *. cbn [push_fun push_var e_vars length]. split; [lia|]. cbn [index_of cbind_eqb].
             assert (bytes_eqb f p = false) as ->.
             { rewrite A in T. cbn in T. rewrite andb_true_r in T. exact T. }
             apply (proj2 (index_of_shift (CFun f) (e_vars (params_env ps e)) 0 _)) in X. rewrite X. f_equal. lia.
  Qed.

  (** conversely every filter parameter is found *)
  Lemma params_env_has ps : forall e f, In f (fparams ps) -> exists fe, find_fun f 0 (e_funs (params_env ps e)) = Some fe.
  Proof.
    induction ps as [|p ps IH] using rev_ind; intros e f H; [destruct H|]. rewrite params_env_snoc. rewrite fparams_snoc in H.
    destruct (is_var_name p) eqn:Ev.
    - rewrite app_nil_r in H. cbn [push_var e_funs]. apply IH. exact H.
    - unfold push_arg. cbn [push_fun e_funs find_fun f_name f_arity]. destruct (bytes_eqb f p && Nat.eqb 0 0) eqn:T; [eauto|].
      cbn [push_var e_funs]. apply in_app_or in H as [H|[<-|[]]]; [apply IH; exact H|].
      cbn in T. rewrite andb_true_r in T. destruct (bytes_eqb_spec p p); congruence.
  Qed.
  Lemma params_env_keeps ps : forall e f ar fe, find_fun f ar (e_funs e) = Some fe -> exists fe', find_fun f ar (e_funs (params_env ps e)) = Some fe'.
  Proof.
    induction ps as [|p ps IH] using rev_ind; intros e f ar fe H; [eauto|]. rewrite params_env_snoc. destruct (is_var_name p).
    - cbn [push_var e_funs]. eapply IH. exact H.
    - unfold push_arg. cbn [push_fun e_funs find_fun]. destruct (_ && _); [eauto|]. cbn [push_var e_funs]. eapply IH. exact H.
  Qed.

  Lemma find_ent_pars qs : forall f ar phio,
    find_ent f ar (map FPar qs ++ phio) = if Nat.eqb ar 0 && existsb (bytes_eqb f) qs then Some (EPar f) else find_ent f ar phio.
  Proof.
    induction qs as [|q qs IH]; intros f ar phio; [rewrite andb_false_r; reflexivity|]. cbn [map app find_ent existsb].
    destruct (bytes_eqb_spec f q) as [->|N].
    - destruct (Nat.eqb ar 0) eqn:E; cbn [andb orb]; [reflexivity|]. rewrite IH, E. reflexivity.
    - cbn [andb orb]. rewrite IH. reflexivity.
  Qed.

  Lemma existsb_in f qs : existsb (bytes_eqb f) qs = true <-> In f qs.
  Proof.
    rewrite existsb_exists. split.
    - intros (x & Hx & E). destruct (bytes_eqb_spec f x); [subst; exact Hx|discriminate].
    - intros H. exists f. split; [exact H|]. destruct (bytes_eqb_spec f f); congruence.
  Qed.

  Lemma index_of_offset x vs : forall i n, index_of x vs (i + n) = option_map (fun k => (k + n)%nat) (index_of x vs i).
  Proof.
    induction vs as [|y vs IH]; intros i n; cbn [index_of]; [reflexivity|]. destruct (cbind_eqb x y); [reflexivity|].
    change (S (i + n)) with (S i + n)%nat. apply IH.
  Qed.
  Lemma index_of_skip x l vs : ~ In x l -> index_of x (l ++ vs) 0 = option_map (fun k => (k + length l)%nat) (index_of x vs 0).
  Proof.
    intros H. assert (G : forall i, index_of x (l ++ vs) i = index_of x vs (i + length l)).
    { induction l as [|y l IH]; intros i; cbn [app length index_of]; [rewrite Nat.add_0_r; reflexivity|].
      destruct (cbind_eqb x y) eqn:E; [apply cbind_eqb_eq in E; exfalso; apply H; left; auto|].
      rewrite IH by (intros K; apply H; right; exact K). f_equal. lia. }
    rewrite G. apply (index_of_offset x vs 0 (length l)).
  Qed.

  (** the bindings of the parameters in the named environment and in the context correspond *)
  Lemma mk_rel defs fuel c rho phi : forall ps args cargs ys accn accc,
    length args = length ps -> length cargs = length ps -> length ys = length (filter is_var_name ps) ->
    Forall2 (fun a k => brel defs fuel (NF a rho phi) (BFun k (vars c))) args cargs ->
    exists bs cb, mkenv ps args ys rho phi accn = bs ++ accn
      /\ vars (mkctx (map is_var_name ps) cargs ys c accc) = cb ++ vars accc
      /\ labels (mkctx (map is_var_name ps) cargs ys c accc) = labels accc
      /\ Forall2 (brel defs fuel) (map snd bs) cb
      /\ map fst bs = map pname (rev ps)
      /\ Forall (fun p => kind_ok (fst p) (snd p)) bs.
  Proof.
    induction ps as [|p ps IH]; intros args cargs ys accn accc La Lc Ly HF.
    - destruct args, cargs; try discriminate. exists [], []. cbn. repeat split; constructor.
    - destruct args as [|a args], cargs as [|k cargs]; try discriminate. inversion HF as [|? ? ? ? Hak HF']; subst.
      cbn [mkenv map mkctx filter] in *. destruct (is_var_name p) eqn:Ev.
      + destruct ys as [|y ys]; [discriminate|]. cbn [length] in Ly.
        destruct (IH args cargs ys ((CVar p, NV y) :: accn) (cons_var y accc) ltac:(cbn in La; lia) ltac:(cbn in Lc; lia) ltac:(lia) HF')
          as (bs & cb & E1 & E2 & E3 & F & M & K).
        exists (bs ++ [(CVar p, NV y)]), (cb ++ [BVar y]). rewrite E1, E2, E3. rewrite <- !app_assoc. repeat split.
        * rewrite map_app. apply Forall2_app; [exact F|]. constructor; [reflexivity|constructor].
        * rewrite map_app, M. cbn [rev]. rewrite map_app. cbn [map]. replace (pname p) with (CVar p) by (unfold pname; rewrite Ev; reflexivity). reflexivity.
        * apply Forall_app. split; [exact K|]. constructor; [exact I|constructor].
      + destruct (IH args cargs ys ((CFun p, NF a rho phi) :: accn) (cons_fun k c accc) ltac:(cbn in La; lia) ltac:(cbn in Lc; lia) Ly HF')
          as (bs & cb & E1 & E2 & E3 & F & M & K).
        exists (bs ++ [(CFun p, NF a rho phi)]), (cb ++ [BFun k (vars c)]). rewrite E1, E2, E3. rewrite <- !app_assoc. repeat split.
        * rewrite map_app. apply Forall2_app; [exact F|]. constructor; [exact Hak|constructor].
        * rewrite map_app, M. cbn [rev]. rewrite map_app. cbn [map]. replace (pname p) with (CFun p) by (unfold pname; rewrite Ev; reflexivity). reflexivity.
        * apply Forall_app. split; [exact K|]. constructor; [exact I|constructor].
  Qed.

  (** as many values as there are variable parameters *)
  Lemma svals_length fuel : forall args ps rho phi lab v, length args = length ps ->
    sforall (fun ys => length ys = length (filter is_var_name ps)) (svals fuel args ps rho phi lab v).
  Proof.
    induction fuel as [|fuel IH]; intros args ps rho phi lab v L; [exact I|]. destruct args as [|a r], ps as [|p ps]; try discriminate; cbn [svals filter].
    - cbn. auto.
    - destruct (is_var_name p).
      + eapply GetpathLaws.sforall_sbind with (P := fun _ => True).
        * clear. generalize (sem fuel a rho phi lab v). intros s. induction s as [|x k IHs|e| |]; cbn; auto.
        * intros y _. apply sforall_smap. eapply GetpathLaws.sforall_impl; [|apply IH; cbn in L; lia]. cbn. intros ys ->. reflexivity.
      + apply IH. cbn in L. lia.
  Qed.

  Definition notfun (x : cbind) : Prop := match x with CFun _ => False | _ => True end.
  Lemma funs_push_xa defs fuel fes rho phi (xa : cbind * nbind) :
    funs_ok defs fuel fes rho phi -> notfun (fst xa) -> funs_ok defs fuel fes (xa :: rho) phi.
  Proof. destruct xa as [x a]. intros H N. apply funs_push; [|exact H]. intros p ->. exact N. Qed.

  Lemma funs_push_var defs fuel fes rho phi x a : funs_ok defs fuel fes rho phi -> funs_ok defs fuel fes ((CVar x, a) :: rho) phi.
  Proof. apply funs_push. discriminate. Qed.
  Lemma funs_push_lab defs fuel fes rho phi x a : funs_ok defs fuel fes rho phi -> funs_ok defs fuel fes ((CLabel x, a) :: rho) phi.
  Proof. apply funs_push. discriminate. Qed.

  Lemma find_ent_spec phi : forall f ar en, find_ent f ar phi = Some en ->
    match en with EDef f' ps _ _ _ => f' = f /\ ar = length ps | EPar p => p = f /\ ar = 0%nat end.
  Proof.
    induction phi as [|[f' ps body rd phio|p] phi IH]; intros f ar en H; [discriminate| |]; cbn [find_ent] in H.
    - destruct (bytes_eqb f f' && Nat.eqb ar (length ps)) eqn:T; [|apply IH; exact H]. injection H as <-.
      apply andb_prop in T as [T1 T2]. apply Nat.eqb_eq in T2. destruct (bytes_eqb_spec f f'); [auto|discriminate].
    - destruct (bytes_eqb f p && Nat.eqb ar 0) eqn:T; [|apply IH; exact H]. injection H as <-.
      apply andb_prop in T as [T1 T2]. apply Nat.eqb_eq in T2. destruct (bytes_eqb_spec f p); [auto|discriminate].
  Qed.

  Lemma in_pname_fparams q ps : In (CFun q) (map pname ps) -> In q (fparams ps).
  Proof.
    intros H. apply in_map_iff in H as (x & E & Hx). unfold pname in E. destruct (is_var_name x) eqn:V; [discriminate|]. injection E as ->.
    unfold fparams. apply filter_In. split; [exact Hx|]. rewrite V. reflexivity.
  Qed.



  (** ** one-level destructuring: binding the values *)
  Definition push_vals (ys : list val) (acc : ctx) : ctx := fold_left (fun a y => cons_var y a) ys acc.
  Lemma push_vals_vars ys : forall a, vars (push_vals ys a) = map BVar (rev ys) ++ vars a.
  Proof. unfold push_vals. induction ys as [|y ys IH]; intros a; [reflexivity|]. cbn [fold_left rev]. rewrite IH. cbn [cons_var vars]. rewrite map_app, <- app_assoc. reflexivity. Qed.
  Lemma push_vals_labels ys : forall a, labels (push_vals ys a) = labels a.
  Proof. unfold push_vals. induction ys as [|y ys IH]; intros a; [reflexivity|]. cbn [fold_left]. rewrite IH. reflexivity. Qed.

  Lemma with_vars_env xs : forall e, e_vars (Compile.with_vars xs e) = map CVar (rev xs) ++ e_vars e /\ e_funs (Compile.with_vars xs e) = e_funs e.
  Proof.
    unfold Compile.with_vars. induction xs as [|x xs IH]; intros e; [split; reflexivity|]. cbn [fold_left rev]. destruct (IH (push_var (CVar x) e)) as [H1 H2].
    rewrite H1, H2. cbn [push_var e_vars e_funs]. rewrite map_app, <- app_assoc. split; reflexivity.
  Qed.

  Lemma agrees_push_vals defs fuel e c rho xs ys : length ys = length xs -> agrees defs fuel e c rho ->
    agrees defs fuel (Compile.with_vars xs e) (push_vals ys c) (pbindv xs ys ++ rho).
  Proof.
    intros L (Hm & (bs & rest & Hv & HF) & Hk). destruct (with_vars_env xs e) as [EV _].
    assert (P1 : map fst (pbindv xs ys) = map CVar (rev xs)).
    { unfold pbindv. rewrite !map_rev. f_equal. apply map_fst_combine. rewrite !map_length. congruence. }
    assert (P2 : map snd (pbindv xs ys) = map NV (rev ys)).
    { unfold pbindv. rewrite !map_rev. f_equal. apply map_snd_combine. rewrite !map_length. congruence. }
    split; [rewrite map_app, P1, Hm, EV; reflexivity|]. split.
    - exists (map BVar (rev ys) ++ bs), rest. rewrite push_vals_vars, Hv, <- app_assoc. split; [reflexivity|].
      rewrite map_app, P2. apply Forall2_app; [|exact HF]. clear. induction (rev ys) as [|y l IH]; constructor; [reflexivity|exact IH].
    - apply Forall_app. split; [|exact Hk]. unfold pbindv. apply Forall_rev. clear. revert ys.
      induction xs as [|x xs IH]; intros [|y ys]; cbn; constructor; [exact I|apply IH].
  Qed.

  Lemma funs_push_vars defs fuel fes rho phi (bs : nenv) : Forall (fun p => forall q, fst p <> CFun q) bs ->
    funs_ok defs fuel fes rho phi -> funs_ok defs fuel fes (bs ++ rho) phi.
  Proof. induction 1 as [|[x a] bs Hx _ IH]; intros H; [exact H|]. cbn [app]. apply funs_push; [exact Hx|apply IH; exact H]. Qed.

  Lemma pbindv_notfun xs ys : Forall (fun p : cbind * nbind => forall q, fst p <> CFun q) (pbindv xs ys).
  Proof.
    unfold pbindv. apply Forall_rev. revert ys. induction xs as [|x xs IH]; intros [|y ys]; cbn; constructor; [discriminate|apply IH].
  Qed.

  Notation bind_pats := (bind_pats d nr).
  Lemma run_bindp defs fuel l cps r c v :
    run defs (S fuel) (KPipe l (Some (PatIdx cps)) r) c v
    = sbind (run defs fuel l c v) (fun y => sbind (bind_pats defs fuel cps c c y) (fun c' => run defs fuel r c' v)).
  Proof. reflexivity. Qed.
  Lemma bp_nil defs m acc c0 y : bind_pats defs (S m) [] acc c0 y = sone acc.
  Proof. reflexivity. Qed.
  Lemma bp_cons defs m idx rest acc c0 y :
    bind_pats defs (S m) ((idx, PatVar) :: rest) acc c0 y
    = let one := sbind (run defs m idx c0 y) (fun i => sbind (of_res (vindex y i)) (fun x => sone (cons_var x acc))) in
      match rest with [] => one | _ => sbind one (fun acc' => bind_pats defs m rest acc' c0 y) end.
  Proof. reflexivity. Qed.

  Definition keysem (rho : nenv) (phi : list fent) (lab : nat) (y : val) (m : nat) (key : pkey) : str val :=
    match key with KI i => match m with O => SBot | S _ => sone (vint i) end | KT k => sem m k rho phi lab y end.

  Lemma sflat_cons m key x rest rho phi lab y :
    sflat (S m) ((key, x) :: rest) rho phi lab y
    = sbind (keysem rho phi lab y m key) (fun i => sbind (of_res (vindex y i)) (fun xv =>
        match rest with [] => sone [xv] | _ => smap (cons xv) (sflat m rest rho phi lab y) end)).
  Proof. destruct key; reflexivity. Qed.

  Lemma bind_flat defs c0 rho phi lab y F : forall its cps,
    Forall2 (fun it cp => snd cp = PatVar /\ forall m, (m <= F)%nat -> run defs m (fst cp) c0 y = keysem rho phi lab y m (fst it)) its cps ->
    forall fuel acc, (fuel <= S F)%nat ->
      bind_pats defs fuel cps acc c0 y = smap (fun ys => push_vals ys acc) (sflat fuel its rho phi lab y).
  Proof.
    induction 1 as [|[key x] [idx pat] its cps [Hp Hk] HF IH]; intros fuel acc Hle; (destruct fuel as [|m]; [reflexivity|]).
    - reflexivity.
    - cbn [fst snd] in Hp, Hk. subst pat. rewrite bp_cons, sflat_cons. cbv zeta. rewrite (Hk m ltac:(lia)).
      destruct HF as [|it2 cp2 its cps H2 HF].
      + rewrite smap_bind. f_equal. apply functional_extensionality. intros i. rewrite smap_bind. f_equal;
          try (apply functional_extensionality; intros xv; reflexivity).
      + rewrite sbind_assoc. rewrite smap_bind. f_equal. apply functional_extensionality. intros i.
        rewrite sbind_assoc. rewrite smap_bind. f_equal. apply functional_extensionality. intros xv.
        rewrite sbind_sone_l. rewrite (IH m (cons_var xv acc) ltac:(lia)). rewrite smap_smap. reflexivity.
  Qed.

  Lemma sflat_length fuel : forall its rho phi lab y, sforall (fun ys => length ys = length its) (sflat fuel its rho phi lab y).
  Proof.
    induction fuel as [|m IH]; intros its rho phi lab y; [exact I|]. destruct its as [|[key x] rest]; [cbn; auto|]. rewrite sflat_cons.
    eapply GetpathLaws.sforall_sbind with (P := fun _ => True).
    - clear. generalize (keysem rho phi lab y m key). intros s. induction s as [|z k IHs|e| |]; cbn; auto.
    - intros i _. eapply GetpathLaws.sforall_sbind with (P := fun _ => True).
      + clear. generalize (of_res (vindex y i)). intros s. induction s as [|z k IHs|e| |]; cbn; auto.
      + intros xv _. destruct rest as [|it2 rest]; [cbn; auto|]. apply sforall_smap. eapply GetpathLaws.sforall_impl; [|apply IH]. cbn. intros ys ->. reflexivity.
  Qed.

  Lemma c_ent_key m e s k : (forall x, k <> PVar x) ->
    c_ent m e s (k, None) = let '((k', _), s') := c_term g m e s k [] in (KObjSingle k' (KPath KId [(Index k', false)]), s').
  Proof. intros H. destruct k; try reflexivity. exfalso. eapply H. reflexivity. Qed.
  Lemma ent_sem_key (S : pterm -> str val) m k : (forall x, k <> PVar x) ->
    ent_sem S m (k, None) = smap (fun kv => from_map [kv]) (sbind (S k) (fun a => smap (fun y => (a, y)) (S (PPath PId [(PIndex k, false)])))).
  Proof. intros H. destruct k; try reflexivity. exfalso. eapply H. reflexivity. Qed.

  (** `{k}` takes its value from the input: `.[k]` *)
  Lemma self_index_ok defs k k' c rho phi v F :
    (forall fuel, (fuel <= F)%nat -> run defs fuel k' c v = sem fuel k rho phi (labels c) v) ->
    forall fuel, (fuel <= F)%nat ->
      run defs fuel (KPath KId [(Index k', false)]) c v = sem fuel (PPath PId [(PIndex k, false)]) rho phi (labels c) v.
  Proof.
    intros R fuel Hle. destruct fuel as [|m1]; [reflexivity|]. rewrite CompileCorrect.run_path. cbn [sem strip push_defs fold_left].
    assert (run defs m1 KId c v = sem m1 PId rho phi (labels c) v) as -> by (destruct m1; reflexivity). f_equal.
    apply functional_extensionality. intros y. f_equal.
    destruct m1 as [|m2]; [reflexivity|]. rewrite CompileCorrect.explode_cons. cbn [sexplode]. rewrite (R m2 ltac:(lia)). f_equal.
    apply functional_extensionality. intros p'. f_equal. destruct m2; reflexivity.
  Qed.

  Lemma compile_closures_mut :
    (forall b fs n t, frag b fs n t -> P_term b fs n t) /\ (forall b fs n args, frag_args b fs n args -> P_args b fs n args)
    /\ (forall b fs n ps, frag_parts b fs n ps -> P_parts b fs n ps)
    /\ (forall b fs n kvs, frag_kvs b fs n kvs -> P_kvs b fs n kvs)
    /\ (forall b fs n ps, frag_strs b fs n ps -> P_strs b fs n ps).
  Proof.
    apply frag_mutind; unfold P_term, P_args, P_parts, P_kvs, P_strs.
    - (* . *) intros b fs n. start. exists KId, [], s. split; [reflexivity|]. split; [apply extends_refl|]. sem0. reflexivity.
    - (* number *) intros b fs n x. start. eexists _, [], s. split; [reflexivity|]. split; [apply extends_refl|]. sem0.
      destruct (int_literal x); reflexivity.
    - (* variable *) intros b fs n x Hx. start. specialize (Hsc (CVar x) Hx).
      destruct (index_of (CVar x) (e_vars e) 0) as [i|] eqn:E; [|congruence].
      exists (KVar i), [], s. split; [cbn [c_term]; unfold var; rewrite E; reflexivity|]. split; [apply extends_refl|]. sem0.
      destruct (agrees_lookup _ _ e c rho (CVar x) i Hag E) as (a & bb & Hn & Hl & Hk & Hb). unfold nth_bind. rewrite Hn, Hl.
      destruct a; try contradiction. destruct bb; try contradiction. cbn in Hb. subst. reflexivity.
    - (* negation *) intros b fs n t Ht IHt. start. destruct (IHt m e s [] ltac:(lia) Hsc Hfs) as (k & trr & s1 & E1 & X1 & R1).
      exists (KNeg k), [], s1. split; [cbn [c_term]; rewrite E1; reflexivity|]. split; [exact X1|]. sem0.
      rewrite (R1 defs Hc fuel c rho phi v Hag Hfr'). reflexivity.
    - (* array *) intros b fs n t Ht IHt. start. destruct (IHt m e s [] ltac:(lia) Hsc Hfs) as (k & trr & s1 & E1 & X1 & R1).
      exists (KArr k), [], s1. split; [cbn [c_term]; rewrite E1; reflexivity|]. split; [exact X1|]. sem0.
      rewrite (R1 defs Hc fuel c rho phi v Hag Hfr'). reflexivity.
    - (* try *) intros b fs n t ct Hl IHl Hr IHr. start.
      destruct (IHl m e s [] ltac:(lia) Hsc Hfs) as (k1 & tr1 & s1 & E1 & X1 & R1).
      destruct (IHr m e s1 [] ltac:(lia) Hsc Hfs) as (k2 & tr2 & s2 & E2 & X2 & R2).
      exists (KTryCatch k1 k2), [], s2. split; [cbn [c_term]; rewrite E1, E2; reflexivity|]. split; [eapply extends_trans; eassumption|]. sem0.
      rewrite (R1 defs (covers_left _ _ _ _ X1 X2 Hc) fuel c rho phi v Hag Hfr').
      f_equal. apply functional_extensionality. intros er. apply (R2 defs (covers_right _ _ _ _ X1 X2 Hc) fuel c rho phi); assumption.
    - (* if *) intros b fs n i th el Hi IHi Hth IHth Hel IHel. start.
      destruct (IHi m e s [] ltac:(lia) Hsc Hfs) as (k1 & tr1 & s1 & E1 & X1 & R1).
      destruct (IHth m e s1 tr ltac:(lia) Hsc Hfs) as (k2 & tr2 & s2 & E2 & X2 & R2).
      destruct (IHel m e s2 tr ltac:(lia) Hsc Hfs) as (k3 & tr3 & s3 & E3 & X3 & R3).
      assert (X12 : extends s s2) by (eapply extends_trans; eassumption).
      exists (KIte k1 k2 k3), (union tr2 tr3), s3. split; [rewrite c_ite, E1, E2, E3; reflexivity|].
      split; [eapply extends_trans; eassumption|]. sem0.
      pose proof (covers_left _ _ _ _ X12 X3 Hc) as Hc12.
      rewrite (R1 defs (covers_left _ _ _ _ X1 X2 Hc12) fuel c rho phi v Hag Hfr'). f_equal.
      apply functional_extensionality. intros y. destruct (as_bool y).
      + apply (R2 defs (covers_right _ _ _ _ X1 X2 Hc12) fuel c rho phi); assumption.
      + apply (R3 defs (covers_right _ _ _ _ X12 X3 Hc) fuel c rho phi); assumption.
    - (* pipe *) intros b fs n l r Hl IHl Hr IHr. start.
      destruct (IHl m e s [] ltac:(lia) Hsc Hfs) as (k1 & tr1 & s1 & E1 & X1 & R1).
      destruct (IHr m e s1 tr ltac:(lia) Hsc Hfs) as (k2 & tr2 & s2 & E2 & X2 & R2).
      exists (KPipe k1 None k2), tr2, s2. split; [rewrite c_pipe, E1, E2; reflexivity|]. split; [eapply extends_trans; eassumption|]. sem0.
      rewrite (R1 defs (covers_left _ _ _ _ X1 X2 Hc) fuel c rho phi v Hag Hfr').
      f_equal. apply functional_extensionality. intros y. apply (R2 defs (covers_right _ _ _ _ X1 X2 Hc) fuel c rho phi); assumption.
    - (* binding *) intros b fs n l x r Hl IHl Hr IHr. start. destruct m as [|m]; [lia|].
      destruct (IHl (S m) e s [] ltac:(lia) Hsc Hfs) as (k1 & tr1 & s1 & E1 & X1 & R1).
      destruct (IHr (S m) (push_var (CVar x) e) s1 tr ltac:(lia) (scoped_push b e (CVar x) Hsc) Hfs) as (k2 & tr2 & s2 & E2 & X2 & R2).
      exists (KPipe k1 (Some PatVar) k2), tr2, s2. split.
      + rewrite c_bind, E1. cbn [pat_vars_f]. change (Compile.with_vars [x] e) with (push_var (CVar x) e). rewrite E2. reflexivity.
      + split; [eapply extends_trans; eassumption|]. sem0.
        rewrite (R1 defs (covers_left _ _ _ _ X1 X2 Hc) fuel c rho phi v Hag Hfr'). f_equal.
        apply functional_extensionality. intros y.
        exact (R2 defs (covers_right _ _ _ _ X1 X2 Hc) fuel (cons_var y c) ((CVar x, NV y) :: rho) phi v
                  (agrees_push _ _ e c rho x y Hag) (funs_push_var _ _ _ _ _ _ _ Hfr')).
    - (* comma *) intros b fs n l r Hl IHl Hr IHr. start.
      destruct (IHl m e s tr ltac:(lia) Hsc Hfs) as (k1 & tr1 & s1 & E1 & X1 & R1).
      destruct (IHr m e s1 tr ltac:(lia) Hsc Hfs) as (k2 & tr2 & s2 & E2 & X2 & R2).
      exists (KComma k1 k2), (union tr1 tr2), s2. split; [rewrite c_comma, E1, E2; reflexivity|]. split; [eapply extends_trans; eassumption|]. sem0.
      rewrite (R1 defs (covers_left _ _ _ _ X1 X2 Hc) fuel c rho phi v Hag Hfr').
      f_equal. apply functional_extensionality. intros u. apply (R2 defs (covers_right _ _ _ _ X1 X2 Hc) fuel c rho phi); assumption.
    - (* alternative *) intros b fs n l r Hl IHl Hr IHr. start.
      destruct (IHl m e s [] ltac:(lia) Hsc Hfs) as (k1 & tr1 & s1 & E1 & X1 & R1).
      destruct (IHr m e s1 tr ltac:(lia) Hsc Hfs) as (k2 & tr2 & s2 & E2 & X2 & R2).
      exists (KAlt k1 k2), tr2, s2. split; [rewrite c_alt, E1, E2; reflexivity|]. split; [eapply extends_trans; eassumption|]. sem0.
      rewrite (R1 defs (covers_left _ _ _ _ X1 X2 Hc) fuel c rho phi v Hag Hfr').
      rewrite (R2 defs (covers_right _ _ _ _ X1 X2 Hc) fuel c rho phi v Hag Hfr'). reflexivity.
    - (* arithmetic *) intros b fs n l o r Hl IHl Hr IHr. start.
      destruct (IHl m e s [] ltac:(lia) Hsc Hfs) as (k1 & tr1 & s1 & E1 & X1 & R1).
      destruct (IHr m e s1 [] ltac:(lia) Hsc Hfs) as (k2 & tr2 & s2 & E2 & X2 & R2).
      exists (KMath k1 o k2), [], s2. split; [cbn [c_term]; rewrite E1, E2; reflexivity|]. split; [eapply extends_trans; eassumption|]. sem0.
      rewrite (R1 defs (covers_left _ _ _ _ X1 X2 Hc) fuel c rho phi v Hag Hfr').
      rewrite (R2 defs (covers_right _ _ _ _ X1 X2 Hc) fuel c rho phi v Hag Hfr'). reflexivity.
    - (* comparison *) intros b fs n l o r Hl IHl Hr IHr. start.
      destruct (IHl m e s [] ltac:(lia) Hsc Hfs) as (k1 & tr1 & s1 & E1 & X1 & R1).
      destruct (IHr m e s1 [] ltac:(lia) Hsc Hfs) as (k2 & tr2 & s2 & E2 & X2 & R2).
      exists (KCmp k1 o k2), [], s2. split; [cbn [c_term]; rewrite E1, E2; reflexivity|]. split; [eapply extends_trans; eassumption|]. sem0.
      rewrite (R1 defs (covers_left _ _ _ _ X1 X2 Hc) fuel c rho phi v Hag Hfr').
      rewrite (R2 defs (covers_right _ _ _ _ X1 X2 Hc) fuel c rho phi v Hag Hfr'). reflexivity.
    - (* or *) intros b fs n l r Hl IHl Hr IHr. start.
      destruct (IHl m e s [] ltac:(lia) Hsc Hfs) as (k1 & tr1 & s1 & E1 & X1 & R1).
      destruct (IHr m e s1 [] ltac:(lia) Hsc Hfs) as (k2 & tr2 & s2 & E2 & X2 & R2).
      exists (KLogic k1 true k2), [], s2. split; [cbn [c_term]; rewrite E1, E2; reflexivity|]. split; [eapply extends_trans; eassumption|]. sem0.
      rewrite (R1 defs (covers_left _ _ _ _ X1 X2 Hc) fuel c rho phi v Hag Hfr').
      rewrite (R2 defs (covers_right _ _ _ _ X1 X2 Hc) fuel c rho phi v Hag Hfr'). reflexivity.
    - (* and *) intros b fs n l r Hl IHl Hr IHr. start.
      destruct (IHl m e s [] ltac:(lia) Hsc Hfs) as (k1 & tr1 & s1 & E1 & X1 & R1).
      destruct (IHr m e s1 [] ltac:(lia) Hsc Hfs) as (k2 & tr2 & s2 & E2 & X2 & R2).
      exists (KLogic k1 false k2), [], s2. split; [cbn [c_term]; rewrite E1, E2; reflexivity|]. split; [eapply extends_trans; eassumption|]. sem0.
      rewrite (R1 defs (covers_left _ _ _ _ X1 X2 Hc) fuel c rho phi v Hag Hfr').
      rewrite (R2 defs (covers_right _ _ _ _ X1 X2 Hc) fuel c rho phi v Hag Hfr'). reflexivity.
    - (* path *) intros b fs n t ps Ht IHt Hps IHps. start.
      destruct (IHt m e s [] ltac:(lia) Hsc Hfs) as (k1 & tr1 & s1 & E1 & X1 & R1).
      destruct (IHps m e s1 ltac:(lia) Hsc Hfs) as (cps & s2 & E2 & X2 & R2).
      exists (KPath k1 cps), [], s2. split; [rewrite CompileCorrect.c_path, E1, E2; reflexivity|].
      split; [eapply extends_trans; eassumption|].
      intros defs Hc fuel c rho phi v Hag Hfr. destruct fuel as [|fuel]; [reflexivity|].
      rewrite CompileCorrect.run_path. cbn [sem strip push_defs fold_left]. pose proof (funs_pred _ _ _ _ _ Hfr) as Hfr'. apply agrees_pred in Hag.
      rewrite (R1 defs (covers_left _ _ _ _ X1 X2 Hc) fuel c rho phi v Hag Hfr'). f_equal.
      apply functional_extensionality. intros y.
      rewrite (R2 defs (covers_right _ _ _ _ X1 X2 Hc) fuel c rho phi v Hag Hfr'). reflexivity.
    - (* reduce *) intros b fs n xs x init upd  Hxs IHxs Hi IHi Hu IHu . start. destruct m as [|m]; [lia|].
      destruct (IHxs (S m) e s [] ltac:(lia) Hsc Hfs) as (k1 & tr1 & s1 & E1 & X1 & R1).
      destruct (IHi (S m) e s1 [] ltac:(lia) Hsc Hfs) as (k2 & tr2 & s2 & E2 & X2 & R2).
      destruct (IHu (S m) (push_var (CVar x) e) s2 [] ltac:(lia) (scoped_push b e (CVar x) Hsc) Hfs) as (k3 & tr3 & s3 & E3 & X3 & R3).
      assert (X12 : extends s s2) by (eapply extends_trans; eassumption).
      assert (X13 : extends s s3) by (eapply extends_trans; eassumption).
      exists (KFold k1 PatVar k2 k3 Reduce), [], s3. split.
      + rewrite CompileCorrect.c_reduce, E1. cbn [c_pattern pat_vars_f]. rewrite E2. change (Compile.with_vars [x] e) with (push_var (CVar x) e). rewrite E3. reflexivity.
      + split; [exact X13|].
        intros defs Hc fuel c rho phi v Hag Hfr. destruct fuel as [|fuel]; [reflexivity|].
        rewrite CompileCorrect.run_fold, CompileCorrect.run_and_bind_var. cbn [sem strip push_defs fold_left].
        pose proof (funs_pred _ _ _ _ _ Hfr) as Hfr'. apply agrees_pred in Hag.
        change (bytes_eqb name_reduce name_reduce) with true. cbn iota.
        pose proof (covers_left _ _ _ _ X12 X3 Hc) as Hc12. pose proof (covers_right _ _ _ _ X12 X3 Hc) as Hc3.
        pose proof (covers_left _ _ _ _ X1 X2 Hc12) as Hc1. pose proof (covers_right _ _ _ _ X1 X2 Hc12) as Hc2.
        rewrite (R2 defs Hc2 fuel c rho phi v Hag Hfr'). f_equal.
        apply functional_extensionality. intros i0. destruct fuel as [|f']; [reflexivity|].
        rewrite (R1 defs Hc1 f' c rho phi v (agrees_pred _ _ _ _ _ Hag) (funs_pred _ _ _ _ _ Hfr')).
        apply CompileCorrect.fold_ctx_vals; [intros y acc; exact (R3 defs Hc3 (S f') (cons_var y c) ((CVar x, NV y) :: rho) phi acc (agrees_push _ _ e c rho x y Hag) (funs_push_var _ _ _ _ _ _ _ Hfr')) | reflexivity | reflexivity].
    - (* foreach *) intros b fs n xs x init upd  Hxs IHxs Hi IHi Hu IHu . start. destruct m as [|m]; [lia|].
      destruct (IHxs (S m) e s [] ltac:(lia) Hsc Hfs) as (k1 & tr1 & s1 & E1 & X1 & R1).
      destruct (IHi (S m) e s1 [] ltac:(lia) Hsc Hfs) as (k2 & tr2 & s2 & E2 & X2 & R2).
      destruct (IHu (S m) (push_var (CVar x) e) s2 [] ltac:(lia) (scoped_push b e (CVar x) Hsc) Hfs) as (k3 & tr3 & s3 & E3 & X3 & R3).
      assert (X12 : extends s s2) by (eapply extends_trans; eassumption).
      assert (X13 : extends s s3) by (eapply extends_trans; eassumption).
      exists (KFold k1 PatVar k2 k3 (Foreach None)), [], s3. split.
      + rewrite CompileCorrect.c_foreach2, E1. cbn [c_pattern pat_vars_f]. rewrite E2. change (Compile.with_vars [x] e) with (push_var (CVar x) e). rewrite E3. reflexivity.
      + split; [exact X13|].
        intros defs Hc fuel c rho phi v Hag Hfr. destruct fuel as [|fuel]; [reflexivity|].
        rewrite CompileCorrect.run_fold, CompileCorrect.run_and_bind_var. cbn [sem strip push_defs fold_left].
        pose proof (funs_pred _ _ _ _ _ Hfr) as Hfr'. apply agrees_pred in Hag.
        change (bytes_eqb name_foreach name_reduce) with false. change (bytes_eqb name_foreach name_foreach) with true. cbn iota.
        pose proof (covers_left _ _ _ _ X12 X3 Hc) as Hc12. pose proof (covers_right _ _ _ _ X12 X3 Hc) as Hc3.
        pose proof (covers_left _ _ _ _ X1 X2 Hc12) as Hc1. pose proof (covers_right _ _ _ _ X1 X2 Hc12) as Hc2.
        rewrite (R2 defs Hc2 fuel c rho phi v Hag Hfr'). f_equal.
        apply functional_extensionality. intros i0. destruct fuel as [|f']; [reflexivity|].
        rewrite (R1 defs Hc1 f' c rho phi v (agrees_pred _ _ _ _ _ Hag) (funs_pred _ _ _ _ _ Hfr')).
        apply CompileCorrect.fold_ctx_vals; [intros y acc; exact (R3 defs Hc3 (S f') (cons_var y c) ((CVar x, NV y) :: rho) phi acc (agrees_push _ _ e c rho x y Hag) (funs_push_var _ _ _ _ _ _ _ Hfr')) | reflexivity | reflexivity].
    - (* foreach with projection *) intros b fs n xs x init upd proj Hxs IHxs Hi IHi Hu IHu Hp IHp. start. destruct m as [|m]; [lia|].
      destruct (IHxs (S m) e s [] ltac:(lia) Hsc Hfs) as (k1 & tr1 & s1 & E1 & X1 & R1).
      destruct (IHi (S m) e s1 [] ltac:(lia) Hsc Hfs) as (k2 & tr2 & s2 & E2 & X2 & R2).
      destruct (IHu (S m) (push_var (CVar x) e) s2 [] ltac:(lia) (scoped_push b e (CVar x) Hsc) Hfs) as (k3 & tr3 & s3 & E3 & X3 & R3).
      destruct (IHp (S m) (push_var (CVar x) e) s3 tr ltac:(lia) (scoped_push b e (CVar x) Hsc) Hfs) as (k4 & tr4 & s4 & E4 & X4 & R4).
      assert (X12 : extends s s2) by (eapply extends_trans; eassumption).
      assert (X13 : extends s s3) by (eapply extends_trans; eassumption).
      exists (KFold k1 PatVar k2 k3 (Foreach (Some k4))), tr4, s4. split.
      + rewrite c_foreach, E1. cbn [c_pattern pat_vars_f]. rewrite E2. change (Compile.with_vars [x] e) with (push_var (CVar x) e). rewrite E3, E4. reflexivity.
      + split; [eapply extends_trans; eassumption|].
        intros defs Hc fuel c rho phi v Hag Hfr. destruct fuel as [|fuel]; [reflexivity|].
        rewrite CompileCorrect.run_fold, CompileCorrect.run_and_bind_var. cbn [sem strip push_defs fold_left].
        pose proof (funs_pred _ _ _ _ _ Hfr) as Hfr'. apply agrees_pred in Hag.
        change (bytes_eqb name_foreach name_reduce) with false. change (bytes_eqb name_foreach name_foreach) with true. cbn iota.
        pose proof (covers_left _ _ _ _ X13 X4 Hc) as Hc13. pose proof (covers_right _ _ _ _ X13 X4 Hc) as Hc4.
        pose proof (covers_left _ _ _ _ X12 X3 Hc13) as Hc12. pose proof (covers_right _ _ _ _ X12 X3 Hc13) as Hc3.
        pose proof (covers_left _ _ _ _ X1 X2 Hc12) as Hc1. pose proof (covers_right _ _ _ _ X1 X2 Hc12) as Hc2.
        rewrite (R2 defs Hc2 fuel c rho phi v Hag Hfr'). f_equal.
        apply functional_extensionality. intros i0. destruct fuel as [|f']; [reflexivity|].
        rewrite (R1 defs Hc1 f' c rho phi v (agrees_pred _ _ _ _ _ Hag) (funs_pred _ _ _ _ _ Hfr')).
        apply CompileCorrect.fold_ctx_vals; [intros y acc; exact (R3 defs Hc3 (S f') (cons_var y c) ((CVar x, NV y) :: rho) phi acc (agrees_push _ _ e c rho x y Hag) (funs_push_var _ _ _ _ _ _ _ Hfr')) | intros y z; exact (R4 defs Hc4 (S f') (cons_var y c) ((CVar x, NV y) :: rho) phi z (agrees_push _ _ e c rho x y Hag) (funs_push_var _ _ _ _ _ _ _ Hfr')) | reflexivity].
    - (* label *) intros b fs n x t Ht IHt. start.
      destruct (IHt m (push_var (CLabel x) e) s [] ltac:(lia) (scoped_push b e (CLabel x) Hsc) Hfs) as (k & trr & s1 & E1 & X1 & R1).
      exists (KLabel k), [], s1. split; [cbn [c_term]; rewrite E1; reflexivity|]. split; [exact X1|]. sem0.
      rewrite (R1 defs Hc fuel (cons_label c) ((CLabel x, NL (S (labels c))) :: rho) phi v (agrees_push_label _ _ e c rho x Hag) (funs_push_lab _ _ _ _ _ _ _ Hfr')).
      reflexivity.
    - (* break *) intros b fs n x Hx. start. specialize (Hsc (CLabel x) Hx).
      destruct (index_of (CLabel x) (e_vars e) 0) as [i|] eqn:E; [|congruence].
      exists (KVar i), [], s. split; [cbn [c_term]; unfold break_; rewrite E; reflexivity|]. split; [apply extends_refl|]. sem0.
      destruct (agrees_lookup _ _ e c rho (CLabel x) i Hag E) as (a & bb & Hn & Hl & Hk & Hb). unfold nth_bind. rewrite Hn, Hl.
      destruct a; try contradiction. destruct bb; try contradiction. cbn in Hb. subst. reflexivity.
    - (* call *) intros b fs n f args Hin Hargs IHargs. start. destruct (Hfs f (length args) Hin) as (fe & Hfe).
      destruct (IHargs m e s ltac:(lia) Hsc Hfs) as (cargs & s1 & EA & XA & LA & RA).
      assert (LC : exists r, local_call e f cargs tr = Some r
                   /\ (forall id kinds, entry_info fe = Some (id, kinds) -> exists typ, fst r = KCallDef id (binds kinds cargs) (total e - f_vars fe) typ)
                   /\ (f_kind fe = FArg -> fst r = KVar (total e - f_vars fe))).
      { unfold local_call. rewrite LA, Hfe. eexists. split; [reflexivity|]. unfold entry_info. destruct (f_kind fe) as [|kinds' id'|kinds' id' trs].
        - split; [discriminate|reflexivity].
        - split; [intros id kinds Hid; injection Hid as -> ->; destruct (mem id tr); eexists; reflexivity|discriminate].
        - split; [intros id kinds Hid; injection Hid as -> ->; destruct (subset _ _); eexists; reflexivity|discriminate]. }
      destruct LC as ([k0 tr0] & LC & LK & LV). cbn [fst] in LK, LV. exists k0, tr0, s1. split.
      + rewrite c_call, EA. unfold call. rewrite LC. reflexivity.
      + split; [exact XA|]. intros defs Hc fuel c rho phi v Hag Hfr. destruct fuel as [|fuel]; [reflexivity|].
        destruct (RA defs Hc) as [RB RV].
        destruct (Hfr f (length args) fe Hfe) as (en & FE & ER). pose proof (find_ent_spec _ _ _ _ FE) as SP.
        cbn [sem strip push_defs fold_left]. rewrite FE. destruct en as [f' ps body rd phio|p]; cbn [ent_rel] in ER.
        * (* a definition *)
          destruct SP as [-> Lps]. destruct ER as (Ar & id & kb & I & V & (pushed & P) & T & C).
          destruct (LK id _ I) as (typ & ->). unfold binds. rewrite run_calldef, T.
          rewrite (RV ps fuel c rho phi v (skip_vars (total e - f_vars fe) c) (eq_sym Lps) (agrees_pred _ _ _ _ _ Hag) (funs_pred _ _ _ _ _ Hfr)).
          rewrite sbind_smap. apply (sbind_ext_on (fun ys => length ys = length (filter is_var_name ps))); [apply svals_length; exact Lps|].
          intros ys Hys.
          assert (HF : Forall2 (fun a k => brel defs fuel (NF a rho phi) (BFun k (vars c))) args cargs).
          { eapply Forall2_imp; [|exact RB]. intros a k Hak. cbn [brel]. intros fuel' Hf' lab v0.
            apply (Hak fuel' {| vars := vars c; labels := lab |} rho phi v0).
            - apply (agrees_vars defs fuel' e c); [reflexivity|]. apply (agrees_fuel defs (S fuel)); [lia|exact Hag].
            - apply (funs_ok_fuel defs (S fuel)); [lia|exact Hfr]. }
          destruct (mk_rel defs fuel c rho phi ps args cargs ys [] (skip_vars (total e - f_vars fe) c) Lps ltac:(congruence) Hys HF)
            as (bs & cb & E1 & E2 & E3 & F2 & M & K).
          rewrite app_nil_r in E1. rewrite E1.
          change (labels c) with (labels (skip_vars (total e - f_vars fe) c)). rewrite <- E3.
          apply (C fuel ltac:(lia)); [exact M|exact K|].
          destruct Hag as (Hmm & (bs0 & rest0 & Hv & HF0) & _).
          rewrite P, map_app in HF0. apply Forall2_app_inv_l in HF0 as (bp & brd & Fp & Frd & ->).
          exists (cb ++ brd), rest0. split.
          -- rewrite E2. unfold skip_vars. cbn [vars]. rewrite Hv.
             assert (total e - f_vars fe = length bp)%nat as ->.
             { unfold total. rewrite <- Hmm, map_length, V, P, app_length. apply Forall2_length in Fp. rewrite map_length in Fp. lia. }
             rewrite <- app_assoc. rewrite skipn_app, skipn_all, Nat.sub_diag. cbn [skipn app]. rewrite <- app_assoc. reflexivity.
          -- rewrite map_app. apply Forall2_app; [exact F2|]. eapply Forall2_imp; [|exact Frd]. intros x y. apply brel_fuel. lia.
        * (* a filter parameter *)
          destruct SP as [-> Lar]. destruct ER as (K & V & X). rewrite (LV K).
          pose proof Hag as (Hmm & _ & _). rewrite Hmm in X.
          assert (TL : total e = length rho) by (unfold total; rewrite <- Hmm, map_length; reflexivity). rewrite <- TL in X.
          destruct (agrees_lookup defs (S fuel) e c rho (CFun f) _ Hag X) as (a & bb & Hn & Hl & Hk & Hb).
          cbn [Run.run]. unfold nth_bind. rewrite Hn, Hl. destruct a; try contradiction. destruct bb; try contradiction.
          cbn [brel] in Hb. apply (Hb fuel ltac:(lia) (labels c) v).
    - (* def *) intros b fs n f ps body t Hb IHb Ht IHt. start. destruct m as [|m]; [lia|].
      set (id := length (c_defs s)).
      set (s1 := {| c_defs := c_defs s ++ [KId]; c_errs := c_errs s |}).
      set (e1 := push_parent f ps id e).
      assert (EV1 : e_vars e1 = map pname (rev ps) ++ e_vars e) by (unfold e1; rewrite push_parent_eq; cbn [push_fun e_vars]; apply params_env_vars).
      assert (Hsc1 : scoped (map pname (rev ps) ++ b) e1).
      { intros x Hx. rewrite EV1. apply in_app_or in Hx as [Hx|Hx]; [apply index_in_prefix; exact Hx|apply index_behind_prefix; apply Hsc; exact Hx]. }
      assert (Hfs1 : fscoped ((f, length ps) :: map (fun p => (p, 0%nat)) (rev (fparams ps)) ++ fs) e1).
      { intros f' ar' Hin. unfold e1. rewrite push_parent_eq. cbn [push_fun e_funs find_fun f_name f_arity].
        destruct (bytes_eqb f' f && Nat.eqb ar' (length ps)) eqn:T; [eauto|]. destruct Hin as [Q|Hin].
        - injection Q as <- <-. rewrite Nat.eqb_refl, andb_true_r in T. destruct (bytes_eqb_spec f f); congruence.
        - apply in_app_or in Hin as [Hin|Hin].
          + apply in_map_iff in Hin as (q & Q & Hq). injection Q as <- <-. apply params_env_has. apply in_rev. exact Hq.
          + destruct (Hfs f' ar' Hin) as (fe0 & H0). eapply params_env_keeps. exact H0. }
      destruct (IHb m e1 s1 (id :: tr) ltac:(lia) Hsc1 Hfs1) as (kb & trb & s2 & E2 & X2 & R2).
      set (s3 := set_def id kb s2).
      set (e3 := push_sibling f (map is_var_name ps) id trb e).
      assert (Hfs3 : fscoped ((f, length ps) :: fs) e3).
      { intros f' ar' Hin. unfold e3, push_sibling. cbn [push_fun e_funs find_fun f_name f_arity]. rewrite map_length.
        destruct (bytes_eqb f' f && Nat.eqb ar' (length ps)) eqn:T; [eauto|]. destruct Hin as [Q|Hin].
        - injection Q as <- <-. rewrite Nat.eqb_refl, andb_true_r in T. destruct (bytes_eqb_spec f f); congruence.
        - apply Hfs. exact Hin. }
      destruct (IHt (S m) e3 s3 tr ltac:(lia) Hsc Hfs3) as (k & trr & s4 & E4 & X4 & R4).
      destruct X2 as (XE2 & XL2 & XN2). cbn [s1 c_defs c_errs] in XE2, XL2, XN2. rewrite app_length in XL2, XN2. cbn [length] in XL2, XN2.
      assert (X3 : extends s s3).
      { unfold s3, set_def. repeat split; cbn [c_defs c_errs]; [exact XE2|rewrite set_nth_length; lia|].
        intros i Hi. rewrite set_nth_other by (unfold id; lia). rewrite XN2 by lia. apply nth_error_app1. exact Hi. }
      assert (Hid3 : nth_error (c_defs s3) id = Some kb).
      { unfold s3, set_def. cbn [c_defs]. apply set_nth_same. unfold id. lia. }
      assert (L3 : length (c_defs s3) = length (c_defs s2)) by (unfold s3, set_def; cbn [c_defs]; apply set_nth_length).
      exists k, trr, s4. split.
      + rewrite c_def1. cbv zeta. fold id s1 e1. rewrite E2. exact E4.
      + split; [eapply extends_trans; eassumption|].
        intros defs Hc fuel c rho phi v Hag Hfr. rewrite sem_def.
        pose proof (covers_right _ _ _ _ X3 X4 Hc) as Hc34.
        destruct X4 as (XE4 & XL4 & XN4).
        assert (Hdid : nth_error defs id = Some kb).
        { rewrite Hc by (unfold id; lia). rewrite XN4 by (rewrite L3; unfold id; lia). exact Hid3. }
        assert (Hc12 : covers s1 s2 defs).
        { intros i Hi. cbn [s1 c_defs] in Hi. rewrite app_length in Hi. cbn [length] in Hi. rewrite Hc by lia. rewrite XN4 by lia.
          unfold s3, set_def. cbn [c_defs]. apply set_nth_other. unfold id. lia. }
        pose proof Hag as (Hmm & Hctx & Hk).
        assert (FV : total e = length rho) by (unfold total; rewrite <- Hmm, map_length; reflexivity).
        assert (CL : forall fuel', (fuel' <= fuel)%nat -> forall c' v' bs,
                       map fst bs = map pname (rev ps) -> Forall (fun p => kind_ok (fst p) (snd p)) bs ->
                       (exists cb rest, vars c' = cb ++ rest /\ Forall2 (brel defs fuel') (map snd (bs ++ rho)) cb) ->
                       run defs fuel' kb c' v' = sem fuel' body (bs ++ rho) (phi_body f ps body rho phi) (labels c') v').
        { intros fuel'. induction fuel' as [fuel' IHf] using lt_wf_ind. intros Hle c' v' bs Mb Kb Hc'.
          apply (R2 defs Hc12 fuel' c' (bs ++ rho) (phi_body f ps body rho phi) v').
          - split; [rewrite map_app, Mb, Hmm, EV1; reflexivity|]. split; [exact Hc'|]. apply Forall_app. split; assumption.
          - (* what the names denote inside the body *)
            intros f' ar' fe' Hf'. unfold e1 in Hf'. rewrite push_parent_eq in Hf'. cbn [push_fun e_funs find_fun f_name f_arity] in Hf'.
            unfold phi_body. cbn [find_ent].
            destruct (bytes_eqb f' f && Nat.eqb ar' (length ps)) eqn:T.
            + injection Hf' as <-. eexists. split; [reflexivity|]. cbn [ent_rel f_arity]. split; [reflexivity|]. exists id, kb.
              split; [reflexivity|]. split; [exact FV|]. split; [exists bs; reflexivity|]. split; [exact Hdid|].
              intros f'' Hf'' c'' v'' bs'' M'' K'' C''. apply IHf; [exact Hf''|lia|exact M''|exact K''|exact C''].
            + destruct (params_env_find ps e f' ar' fe' Hf') as [[H1 H2]|(A0 & I0 & K0 & V0 & X0)].
              * (* from outside *)
                rewrite find_ent_pars.
                assert ((Nat.eqb ar' 0 && existsb (bytes_eqb f') (rev (fparams ps))) = false) as ->.
                { destruct (Nat.eqb_spec ar' 0) as [->|]; [|reflexivity]. cbn [andb]. destruct (existsb _ _) eqn:X; [|reflexivity].
                  exfalso. apply H2. split; [reflexivity|]. apply in_rev. apply existsb_in. exact X. }
                destruct (Hfr f' ar' fe' H1) as (en & FE & ER). exists en. split; [exact FE|].
                pose proof (find_ent_spec _ _ _ _ FE) as SP. destruct en as [f0 ps0 body0 rd0 phio0|p0]; cbn [ent_rel] in *.
                -- destruct ER as (A1 & id1 & k1 & I1 & V1 & (pushed & P1) & T1 & C1). split; [exact A1|]. exists id1, k1. repeat split; auto.
                   ++ exists (bs ++ pushed). rewrite P1, app_assoc. reflexivity.
                   ++ intros f'' Hf''. apply C1. lia.
                -- destruct SP as [-> ->]. destruct ER as (K1 & V1 & X1). split; [exact K1|]. rewrite app_length. split; [lia|].
                   rewrite map_app. rewrite index_of_skip.
                   ++ rewrite X1. cbn [option_map]. f_equal. rewrite map_length. lia.
                   ++ rewrite Mb. intros Hin. apply H2. split; [reflexivity|]. apply in_pname_fparams in Hin.
                      unfold fparams in *. apply filter_In in Hin as [Hin1 Hin2]. apply filter_In. split; [apply in_rev; exact Hin1|exact Hin2].
              * (* a filter parameter *)
                subst ar'. rewrite find_ent_pars. cbn [Nat.eqb andb].
                assert (existsb (bytes_eqb f') (rev (fparams ps)) = true) as -> by (apply existsb_in; apply in_rev; rewrite rev_involutive; exact I0).
                eexists. split; [reflexivity|]. cbn [ent_rel]. split; [exact K0|].
                assert (TE : total (params_env ps e) = length (bs ++ rho)).
                { unfold total. rewrite params_env_vars, !app_length, !map_length. rewrite <- (map_length fst bs), Mb, map_length, rev_length.
                  rewrite <- Hmm, map_length. reflexivity. }
                rewrite <- TE. split; [exact V0|].
                rewrite map_app, Mb, Hmm. rewrite <- params_env_vars. exact X0. }
        apply (R4 defs Hc34 fuel c rho (FDef f ps body rho phi :: phi) v).
        * split; [exact Hmm|]. split; [exact Hctx|exact Hk].
        * intros f' ar' fe' Hf'. unfold e3, push_sibling in Hf'. cbn [push_fun e_funs find_fun f_name f_arity] in Hf'. rewrite map_length in Hf'.
          cbn [find_ent]. destruct (bytes_eqb f' f && Nat.eqb ar' (length ps)) eqn:T.
          -- injection Hf' as <-. eexists. split; [reflexivity|]. cbn [ent_rel f_arity]. split; [first [reflexivity|apply map_length]|]. exists id, kb.
             split; [reflexivity|]. split; [exact FV|]. split; [exists []; reflexivity|]. split; [exact Hdid|].
             intros f'' Hf'' c'' v'' bs'' M'' K'' C''. apply CL; [lia|exact M''|exact K''|exact C''].
          -- apply Hfr. exact Hf'.
    - (* .. *) intros b fs n. start. exists KRecurse, [], s. split; [reflexivity|]. split; [apply extends_refl|]. sem0. reflexivity.
    - (* if without else *) intros b fs n i th Hi IHi Hth IHth. start.
      destruct (IHi m e s [] ltac:(lia) Hsc Hfs) as (k1 & tr1 & s1 & E1 & X1 & R1).
      destruct (IHth m e s1 tr ltac:(lia) Hsc Hfs) as (k2 & tr2 & s2 & E2 & X2 & R2).
      exists (KIte k1 k2 KId), (union tr2 []), s2. split; [rewrite c_ite1, E1, E2; reflexivity|].
      split; [eapply extends_trans; eassumption|]. sem0.
      rewrite (R1 defs (covers_left _ _ _ _ X1 X2 Hc) fuel c rho phi v Hag Hfr'). f_equal.
      apply functional_extensionality. intros y. destruct (as_bool y).
      + apply (R2 defs (covers_right _ _ _ _ X1 X2 Hc) fuel c rho phi); assumption.
      + destruct fuel; reflexivity.
    - (* object *) intros b fs n kvs Hk IHk. start. destruct (IHk m e s ltac:(lia) Hsc Hfs) as (ts & s1 & E1 & X1 & R1).
      exists (sum_or KObjEmpty ts), [], s1. split; [rewrite c_obj, E1; reflexivity|]. split; [exact X1|].
      intros defs Hc fuel c rho phi v Hag Hfr. pose proof (R1 defs Hc fuel c rho phi v Hag Hfr) as HF.
      rewrite (sum_correct (ent_one rho phi (labels c) v) (fun f l => sobj f l rho phi (labels c) v) (Obj []) KObjEmpty defs c v fuel
                 ltac:(reflexivity) ltac:(reflexivity) ltac:(intros f0; destruct f0; reflexivity) kvs ts HF fuel (le_n _)).
      destruct fuel; reflexivity.
    - (* string *) intros b fs n parts Hp IHp. start. destruct (IHp m e s ltac:(lia) Hsc Hfs) as (ts & s1 & E1 & X1 & R1).
      exists (sum_or (KStr []) ts), [], s1. split; [rewrite c_str, E1; reflexivity|]. split; [exact X1|].
      intros defs Hc fuel c rho phi v Hag Hfr. pose proof (R1 defs Hc fuel c rho phi v Hag Hfr) as HF.
      rewrite (sum_correct (part_one rho phi (labels c) v) (fun f l => sstr f l rho phi (labels c) v) (TStr []) (KStr []) defs c v fuel
                 ltac:(reflexivity) ltac:(reflexivity) ltac:(intros f0; destruct f0; reflexivity) parts ts HF fuel (le_n _)).
      destruct fuel; reflexivity.
    - (* . as [$a, $b, ...] | r *) intros b fs n l xs r Hl IHl Hr IHr. start. destruct m as [|m]; [lia|]. destruct m as [|m]; [lia|].
      destruct (IHl (S (S m)) e s [] ltac:(lia) Hsc Hfs) as (k1 & tr1 & s1 & E1 & X1 & R1).
      destruct (with_vars_env xs e) as [EV EF].
      assert (Hsc2 : scoped (map CVar (rev xs) ++ b) (Compile.with_vars xs e)).
      { intros x Hx. rewrite EV. apply in_app_or in Hx as [Hx|Hx]; [apply index_in_prefix; exact Hx|apply index_behind_prefix; apply Hsc; exact Hx]. }
      assert (Hfs2 : fscoped fs (Compile.with_vars xs e)) by (intros f' ar' Hin; rewrite EF; apply Hfs; exact Hin).
      destruct (IHr (S (S m)) (Compile.with_vars xs e) s1 tr ltac:(lia) Hsc2 Hfs2) as (k2 & tr2 & s2 & E2 & X2 & R2).
      exists (KPipe k1 (Some (PatIdx (arr_cpats 0 xs))) k2), tr2, s2. split.
      + rewrite c_bind, E1, pat_vars_arr, E2, c_pat_arr. reflexivity.
      + split; [eapply extends_trans; eassumption|].
        intros defs Hc fuel c rho phi v Hag0 Hfr. destruct fuel as [|fuel]; [reflexivity|].
        pose proof (funs_pred _ _ _ _ _ Hfr) as Hfr'. pose proof (agrees_pred _ _ _ _ _ Hag0) as Hag.
        rewrite run_bindp. cbn [sem strip push_defs fold_left]. unfold flat_items. rewrite arr_items_vars, arr_its_snd.
        rewrite (R1 defs (covers_left _ _ _ _ X1 X2 Hc) fuel c rho phi v Hag Hfr'). f_equal.
        apply functional_extensionality. intros y.
        rewrite (bind_flat defs c rho phi (labels c) y fuel (arr_its 0 xs) (arr_cpats 0 xs)).
        * rewrite sbind_smap. apply (sbind_ext_on (fun ys => length ys = length (arr_its 0 xs))); [apply sflat_length|].
          intros ys Hys. rewrite <- (push_vals_labels ys c).
          assert (Ly : length ys = length xs) by (rewrite Hys, <- (map_length snd), arr_its_snd; reflexivity).
          apply (R2 defs (covers_right _ _ _ _ X1 X2 Hc) fuel (push_vals ys c) (pbindv xs ys ++ rho) phi v).
          -- apply agrees_push_vals; assumption.
          -- rewrite EF. apply funs_push_vars; [apply pbindv_notfun|exact Hfr'].
        * clear. generalize 0%Z. induction xs as [|x xs IH]; intros i; cbn [arr_its arr_cpats]; constructor; [|apply IH].
          cbn [fst snd]. split; [reflexivity|]. intros m0 _. destruct m0; reflexivity.
        * lia.
    - (* . as {k: $a, ...} | r *) intros b fs n l kxs r Hl IHl Hk IHk Hr IHr. start. destruct m as [|m]; [lia|]. destruct m as [|m]; [lia|].
      destruct (IHl (S (S m)) e s [] ltac:(lia) Hsc Hfs) as (k1 & tr1 & s1 & E1 & X1 & R1).
      set (xs := map snd kxs).
      destruct (with_vars_env xs e) as [EV EF].
      assert (Hsc2 : scoped (map CVar (rev xs) ++ b) (Compile.with_vars xs e)).
      { intros x Hx. rewrite EV. apply in_app_or in Hx as [Hx|Hx]; [apply index_in_prefix; exact Hx|apply index_behind_prefix; apply Hsc; exact Hx]. }
      assert (Hfs2 : fscoped fs (Compile.with_vars xs e)) by (intros f' ar' Hin; rewrite EF; apply Hfs; exact Hin).
      destruct (IHr (S (S m)) (Compile.with_vars xs e) s1 tr ltac:(lia) Hsc2 Hfs2) as (k2 & tr2 & s2 & E2 & X2 & R2).
      destruct (IHk (S m) e s2 ltac:(lia) Hsc Hfs) as (cks & s3 & E3 & X3 & L3 & R3).
      assert (X12 : extends s s2) by (eapply extends_trans; eassumption).
      exists (KPipe k1 (Some (PatIdx (map (fun k => (k, PatVar)) cks))) k2), tr2, s3. split.
      + rewrite c_bind, E1, pat_vars_obj. fold xs. rewrite E2, c_pat_obj, E3. reflexivity.
      + split; [eapply extends_trans; eassumption|].
        intros defs Hc fuel c rho phi v Hag0 Hfr. destruct fuel as [|fuel]; [reflexivity|].
        pose proof (funs_pred _ _ _ _ _ Hfr) as Hfr'. pose proof (agrees_pred _ _ _ _ _ Hag0) as Hag.
        pose proof (covers_left _ _ _ _ X12 X3 Hc) as Hc12.
        destruct (R3 defs (covers_right _ _ _ _ X12 X3 Hc)) as [RB _].
        rewrite run_bindp. cbn [sem strip push_defs fold_left]. unfold flat_items. rewrite obj_items_vars.
        assert (SN : map snd (map (fun kx : pterm * bytes => (KT (fst kx), snd kx)) kxs) = xs) by (unfold xs; rewrite map_map; reflexivity).
        rewrite SN.
        rewrite (R1 defs (covers_left _ _ _ _ X1 X2 Hc12) fuel c rho phi v Hag Hfr'). f_equal.
        apply functional_extensionality. intros y.
        rewrite (bind_flat defs c rho phi (labels c) y fuel (map (fun kx : pterm * bytes => (KT (fst kx), snd kx)) kxs) (map (fun k => (k, PatVar)) cks)).
        * rewrite sbind_smap. apply (sbind_ext_on (fun ys => length ys = length (map (fun kx : pterm * bytes => (KT (fst kx), snd kx)) kxs))); [apply sflat_length|].
          intros ys Hys. rewrite <- (push_vals_labels ys c).
          assert (Ly : length ys = length xs) by (rewrite Hys; unfold xs; rewrite !map_length; reflexivity).
          apply (R2 defs (covers_right _ _ _ _ X1 X2 Hc12) fuel (push_vals ys c) (pbindv xs ys ++ rho) phi v).
          -- apply agrees_push_vals; assumption.
          -- rewrite EF. apply funs_push_vars; [apply pbindv_notfun|exact Hfr'].
        * (* the keys are evaluated on the matched value, in the context of the binding *)
          clear - RB Hag Hfr'. revert cks RB. induction kxs as [|[k x] kxs IH]; intros cks RB; cbn [map] in *; inversion RB as [|? ck ? cks' Hk1 Hks]; subst; constructor.
          -- cbn [fst snd]. split; [reflexivity|]. intros m0 Hm0. cbn [keysem]. apply (Hk1 m0 c rho phi y).
             ++ eapply agrees_fuel; [|exact Hag]. exact Hm0.
             ++ eapply funs_ok_fuel; [|exact Hfr']. exact Hm0.
          -- apply IH. exact Hks.
        * lia.
    - (* no arguments *) intros b fs n m e s Hm Hsc Hfs. exists [], s. split; [reflexivity|]. split; [apply extends_refl|]. split; [reflexivity|].
      intros defs Hc. split; [constructor|]. intros ps fuel c rho phi v acc L Hag Hfr. destruct ps; [|discriminate]. destruct fuel; reflexivity.
    - (* an argument *) intros b fs n a r Ha IHa Hr IHr m e s Hm Hsc Hfs.
      destruct (IHa m e s [] Hm Hsc Hfs) as (k1 & tr1 & s1 & E1 & X1 & R1).
      destruct (IHr m e s1 Hm Hsc Hfs) as (cr & s2 & E2 & X2 & L2 & R2).
      exists (k1 :: cr), s2. split; [cbn [c_args]; rewrite E1, E2; reflexivity|]. split; [eapply extends_trans; eassumption|].
      split; [cbn [length]; congruence|].
      intros defs Hc. destruct (R2 defs (covers_right _ _ _ _ X1 X2 Hc)) as [RB RV]. split.
      + constructor; [|exact RB]. intros fuel c rho phi v Hag Hfr. apply (R1 defs (covers_left _ _ _ _ X1 X2 Hc)); assumption.
      + intros ps fuel c rho phi v acc L Hag Hfr. destruct ps as [|p ps]; [discriminate|]. destruct fuel as [|fuel]; [reflexivity|].
        cbn [map combine mkctx svals]. pose proof (funs_pred _ _ _ _ _ Hfr) as Hfr'. pose proof (agrees_pred _ _ _ _ _ Hag) as Hag'.
        destruct (is_var_name p).
        * rewrite bind_vars_cons. rewrite (R1 defs (covers_left _ _ _ _ X1 X2 Hc) fuel c rho phi v Hag' Hfr').
          rewrite smap_bind. f_equal. apply functional_extensionality. intros y.
          rewrite (RV ps fuel c rho phi v (cons_var y acc) ltac:(cbn in L; lia) Hag' Hfr'). rewrite smap_smap. reflexivity.
        * rewrite bind_vars_fun. apply (RV ps fuel c rho phi v (cons_fun k1 c acc) ltac:(cbn in L; lia) Hag' Hfr').
    - (* no component *) intros b fs n m e s Hm Hsc Hfs. exists [], s. split; [reflexivity|]. split; [apply extends_refl|]. semx. reflexivity.
    - (* .[i] *) intros b fs n i o ps H1 IH1 Hps IHps m e s Hm Hsc Hfs.
      destruct (IH1 m e s [] Hm Hsc Hfs) as (k1 & tr1 & s1 & E1 & X1 & R1).
      destruct (IHps m e s1 Hm Hsc Hfs) as (cps & s2 & E2 & X2 & R2).
      exists ((Index k1, o) :: cps), s2. split; [cbn [CompileCorrect.c_parts]; rewrite E1, E2; reflexivity|].
      split; [eapply extends_trans; eassumption|]. semx.
      rewrite (R1 defs (covers_left _ _ _ _ X1 X2 Hc) fuel c rho phi v Hag Hfr'), (R2 defs (covers_right _ _ _ _ X1 X2 Hc) fuel c rho phi v Hag Hfr').
      reflexivity.
    - (* .[] *) intros b fs n o ps Hps IHps m e s Hm Hsc Hfs.
      destruct (IHps m e s Hm Hsc Hfs) as (cps & s2 & E2 & X2 & R2).
      exists ((Range None None, o) :: cps), s2. split; [cbn [CompileCorrect.c_parts]; rewrite E2; reflexivity|].
      split; [exact X2|]. semx. rewrite (R2 defs Hc fuel c rho phi v Hag Hfr'). reflexivity.
    - (* .[f:] *) intros b fs n f o ps H1 IH1 Hps IHps m e s Hm Hsc Hfs.
      destruct (IH1 m e s [] Hm Hsc Hfs) as (k1 & tr1 & s1 & E1 & X1 & R1).
      destruct (IHps m e s1 Hm Hsc Hfs) as (cps & s2 & E2 & X2 & R2).
      exists ((Range (Some k1) None, o) :: cps), s2. split; [cbn [CompileCorrect.c_parts]; rewrite E1, E2; reflexivity|].
      split; [eapply extends_trans; eassumption|]. semx.
      rewrite (R1 defs (covers_left _ _ _ _ X1 X2 Hc) fuel c rho phi v Hag Hfr'), (R2 defs (covers_right _ _ _ _ X1 X2 Hc) fuel c rho phi v Hag Hfr').
      reflexivity.
    - (* .[:u] *) intros b fs n u o ps H1 IH1 Hps IHps m e s Hm Hsc Hfs.
      destruct (IH1 m e s [] Hm Hsc Hfs) as (k1 & tr1 & s1 & E1 & X1 & R1).
      destruct (IHps m e s1 Hm Hsc Hfs) as (cps & s2 & E2 & X2 & R2).
      exists ((Range None (Some k1), o) :: cps), s2. split; [cbn [CompileCorrect.c_parts]; rewrite E1, E2; reflexivity|].
      split; [eapply extends_trans; eassumption|]. semx.
      rewrite (R1 defs (covers_left _ _ _ _ X1 X2 Hc) fuel c rho phi v Hag Hfr'), (R2 defs (covers_right _ _ _ _ X1 X2 Hc) fuel c rho phi v Hag Hfr').
      reflexivity.
    - (* .[f:u] *) intros b fs n f u o ps H1 IH1 H2 IH2 Hps IHps m e s Hm Hsc Hfs.
      destruct (IH1 m e s [] Hm Hsc Hfs) as (k1 & tr1 & s1 & E1 & X1 & R1).
      destruct (IH2 m e s1 [] Hm Hsc Hfs) as (k2 & tr2 & s2 & E2 & X2 & R2).
      destruct (IHps m e s2 Hm Hsc Hfs) as (cps & s3 & E3 & X3 & R3).
      assert (X12 : extends s s2) by (eapply extends_trans; eassumption).
      exists ((Range (Some k1) (Some k2), o) :: cps), s3. split; [cbn [CompileCorrect.c_parts]; rewrite E1, E2, E3; reflexivity|].
      split; [eapply extends_trans; eassumption|]. semx.
      pose proof (covers_left _ _ _ _ X12 X3 Hc) as Hc12.
      rewrite (R1 defs (covers_left _ _ _ _ X1 X2 Hc12) fuel c rho phi v Hag Hfr'), (R2 defs (covers_right _ _ _ _ X1 X2 Hc12) fuel c rho phi v Hag Hfr'),
        (R3 defs (covers_right _ _ _ _ X12 X3 Hc) fuel c rho phi v Hag Hfr').
      reflexivity.
    - (* no entry *) intros b fs n m e s Hm Hsc Hfs. exists [], s. split; [reflexivity|]. split; [apply extends_refl|]. intros. constructor.
    - (* {$x} *) intros b fs n x r Hx IHx Hr IHr m e s Hm Hsc Hfs.
      destruct (IHx m e s [] Hm Hsc Hfs) as (kx & trx & s1 & E1 & X1 & R1).
      destruct (IHr m e s1 Hm Hsc Hfs) as (tr_ & s2 & E2 & X2 & R2).
      exists (KObjSingle (KStr (tl x)) kx :: tr_), s2. split; [cbn [c_kvs c_ent]; rewrite E1, E2; reflexivity|].
      split; [eapply extends_trans; eassumption|].
      intros defs Hc F c rho phi v Hag Hfr. constructor; [|apply (R2 defs (covers_right _ _ _ _ X1 X2 Hc) F c rho phi v Hag Hfr)].
      intros fuel Hle. destruct fuel as [|mm]; [reflexivity|]. rewrite run_objsingle. unfold ent_one, ent_sem.
      rewrite (R1 defs (covers_left _ _ _ _ X1 X2 Hc) mm c rho phi v (agrees_fuel _ F mm _ _ _ ltac:(lia) Hag) (funs_ok_fuel _ F mm _ _ _ ltac:(lia) Hfr)).
      assert (run defs mm (KStr (tl x)) c v = match mm with O => SBot | S _ => sone (TStr (tl x)) end) as -> by (destruct mm; reflexivity).
      reflexivity.
    - (* {k} *) intros b fs n k r Hnv Hk IHk Hr IHr m e s Hm Hsc Hfs.
      destruct (IHk m e s [] Hm Hsc Hfs) as (kk & trk & s1 & E1 & X1 & R1).
      destruct (IHr m e s1 Hm Hsc Hfs) as (tr_ & s2 & E2 & X2 & R2).
      exists (KObjSingle kk (KPath KId [(Index kk, false)]) :: tr_), s2. split; [cbn [c_kvs]; rewrite (c_ent_key _ _ _ _ Hnv), E1, E2; reflexivity|].
      split; [eapply extends_trans; eassumption|].
      intros defs Hc F c rho phi v Hag Hfr. constructor; [|apply (R2 defs (covers_right _ _ _ _ X1 X2 Hc) F c rho phi v Hag Hfr)].
      assert (RK : forall fuel, (fuel <= F)%nat -> run defs fuel kk c v = sem fuel k rho phi (labels c) v).
      { intros f0 Hf0. apply (R1 defs (covers_left _ _ _ _ X1 X2 Hc) f0 c rho phi v); [eapply agrees_fuel; eassumption|eapply funs_ok_fuel; eassumption]. }
      intros fuel Hle. destruct fuel as [|mm]; [reflexivity|]. rewrite run_objsingle. unfold ent_one. rewrite (ent_sem_key _ _ _ Hnv).
      rewrite (RK mm ltac:(lia)). rewrite (self_index_ok defs k kk c rho phi v F RK mm ltac:(lia)). reflexivity.
    - (* {k: v} *) intros b fs n k v0 r Hk IHk Hv IHv Hr IHr m e s Hm Hsc Hfs.
      destruct (IHk m e s [] Hm Hsc Hfs) as (kk & trk & s1 & E1 & X1 & R1).
      destruct (IHv m e s1 [] Hm Hsc Hfs) as (kv & trv & s2 & E2 & X2 & R2).
      destruct (IHr m e s2 Hm Hsc Hfs) as (tr_ & s3 & E3 & X3 & R3).
      assert (X12 : extends s s2) by (eapply extends_trans; eassumption).
      exists (KObjSingle kk kv :: tr_), s3. split.
      + cbn [c_kvs]. assert (c_ent m e s (k, Some v0) = (KObjSingle kk kv, s2)) as ->; [|rewrite E3; reflexivity].
        unfold c_ent. destruct k; rewrite E1, E2; reflexivity.
      + split; [eapply extends_trans; eassumption|].
        intros defs Hc F c rho phi v Hag Hfr. constructor; [|apply (R3 defs (covers_right _ _ _ _ X12 X3 Hc) F c rho phi v Hag Hfr)].
        pose proof (covers_left _ _ _ _ X12 X3 Hc) as Hc12.
        intros fuel Hle. destruct fuel as [|mm]; [reflexivity|]. rewrite run_objsingle. unfold ent_one.
        assert (ent_sem (fun t => sem mm t rho phi (labels c) v) mm (k, Some v0)
                = smap (fun kv => from_map [kv]) (sbind (sem mm k rho phi (labels c) v) (fun a => smap (fun y => (a, y)) (sem mm v0 rho phi (labels c) v)))) as ->
          by (destruct k; reflexivity).
        rewrite (R1 defs (covers_left _ _ _ _ X1 X2 Hc12) mm c rho phi v (agrees_fuel _ F mm _ _ _ ltac:(lia) Hag) (funs_ok_fuel _ F mm _ _ _ ltac:(lia) Hfr)).
        rewrite (R2 defs (covers_right _ _ _ _ X1 X2 Hc12) mm c rho phi v (agrees_fuel _ F mm _ _ _ ltac:(lia) Hag) (funs_ok_fuel _ F mm _ _ _ ltac:(lia) Hfr)).
        reflexivity.
    - (* no part *) intros b fs n m e s Hm Hsc Hfs. exists [], s. split; [reflexivity|]. split; [apply extends_refl|]. intros. constructor.
    - (* literal text *) intros b fs n x r Hr IHr m e s Hm Hsc Hfs.
      destruct (IHr m e s Hm Hsc Hfs) as (tr_ & s2 & E2 & X2 & R2).
      exists (KStr x :: tr_), s2. split; [cbn [c_strs]; rewrite E2; reflexivity|]. split; [exact X2|].
      intros defs Hc F c rho phi v Hag Hfr. constructor; [|apply (R2 defs Hc F c rho phi v Hag Hfr)].
      intros fuel Hle. destruct fuel; reflexivity.
    - (* interpolation *) intros b fs n f r Hf IHf Hr IHr m e s Hm Hsc Hfs.
      destruct (IHf m e s [] Hm Hsc Hfs) as (kf & trf & s1 & E1 & X1 & R1).
      destruct (IHr m e s1 Hm Hsc Hfs) as (tr_ & s2 & E2 & X2 & R2).
      exists (KPipe kf None KToString :: tr_), s2. split; [cbn [c_strs]; rewrite E1, E2; reflexivity|].
      split; [eapply extends_trans; eassumption|].
      intros defs Hc F c rho phi v Hag Hfr. constructor; [|apply (R2 defs (covers_right _ _ _ _ X1 X2 Hc) F c rho phi v Hag Hfr)].
      intros fuel Hle. destruct fuel as [|mm]; [reflexivity|]. rewrite run_pipe0. unfold part_one, part_sem.
      rewrite (R1 defs (covers_left _ _ _ _ X1 X2 Hc) mm c rho phi v (agrees_fuel _ F mm _ _ _ ltac:(lia) Hag) (funs_ok_fuel _ F mm _ _ _ ltac:(lia) Hfr)).
      f_equal. apply functional_extensionality. intros y. destruct mm; reflexivity.
  Qed.


  Theorem compile_closures b fs n t : frag b fs n t -> forall m e s tr, (n <= m)%nat -> scoped b e -> fscoped fs e ->
    exists k trr s', c_term g m e s t tr = ((k, trr), s') /\ extends s s'
      /\ forall defs, covers s s' defs -> forall fuel c rho phi v, agrees defs fuel e c rho -> funs_ok defs fuel (e_funs e) rho phi ->
          run defs fuel k c v = sem fuel t rho phi (labels c) v.
  Proof. intros H. exact (proj1 compile_closures_mut b fs n t H). Qed.

  (** a whole program without free variables or definitions from outside, compiled from scratch: run against the table of
      definitions the compiler produced, the compiled term computes the named semantics *)
  Corollary compile_closures_closed n t : frag [] [] n t ->
    exists k trr s', c_term g n empty_env empty_cst t [] = ((k, trr), s') /\ c_errs s' = 0%nat
      /\ forall fuel v, run (c_defs s') fuel k {| vars := []; labels := 0 |} v = sem fuel t [] [] 0 v.
  Proof.
    intros H. destruct (compile_closures [] [] n t H n empty_env empty_cst [] (le_n _)) as (k & trr & s' & E & X & R).
    - intros x [].
    - intros f ar [].
    - exists k, trr, s'. split; [exact E|]. split; [exact (proj1 X)|]. intros fuel v.
      apply (R (c_defs s') ltac:(intros i Hi; reflexivity) fuel {| vars := []; labels := 0 |} [] [] v).
      + split; [reflexivity|]. split; [exists [], []; split; [reflexivity|constructor]|constructor].
      + intros f ar fe Hf. discriminate.
  Qed.
End CF.

(** the fragment is inhabited by recursive definitions that take filter and variable parameters and capture variables, e.g.
      1 as $x | def f(g; $a): if . then [g, $a] else (2 | f(g; 5)) end; f(. + $x; 3)
    whose semantics on null is the single output [3, 5]: the closure `. + $x` is handed on through the recursion and runs
    on the input of the place where `g` is called, with the `$x` of the place where it was written *)
Definition closures_ex : pterm :=
  let vx := of_ascii [36; 120]%Z in let va := of_ascii [36; 97]%Z in let gg := of_ascii [103]%Z in let f := of_ascii [102]%Z in
  let num c := PNum (of_ascii [c]%Z) in
  PBinOp (num 49%Z) (BPipe (Some (PPVar vx)))
    (PDef [PDefn f [gg; va]
             (PIte [(PId, PArr (Some (PBinOp (PCall gg []) BComma (PVar va))))]
                   (Some (PBinOp (num 50%Z) (BPipe None) (PCall f [PCall gg []; num 53%Z]))))]
       (PCall f [PBinOp PId (BMath Add) (PVar vx); num 51%Z])).
Example frag_closures_ex : frag [] [] 12 closures_ex.
Proof.
  unfold closures_ex. cbv zeta. apply f_bind; [constructor|]. apply f_def.
  - apply f_ite; [constructor| |].
    + apply f_arr. apply f_comma; [apply f_call; [cbn; auto|apply fa_nil]|apply f_var; cbn; auto].
    + apply f_pipe; [constructor|]. apply f_call; [left; reflexivity|].
      apply fa_cons; [apply f_call; [cbn; auto|apply fa_nil]|apply fa_cons; [constructor|apply fa_nil]].
  - apply f_call; [left; reflexivity|]. apply fa_cons; [apply f_math; [constructor|apply f_var; cbn; auto]|apply fa_cons; [constructor|apply fa_nil]].
Qed.
Example sem_closures_ex d : sem d 14 closures_ex [] [] 0 Null = sone (Arr [vint 3; vint 5]).
Proof. vm_compute. reflexivity. Qed.

(** ... and by object and string construction, `..` and `if` without `else`, e.g.
      1 as $x | {"a": ., $x, "b\($x)": [..], "c": (if $x then 2 end)}
    whose semantics on null is {"a": null, "x": 1, "b1": [null], "c": 2} *)
Definition objects_ex : pterm :=
  let vx := of_ascii [36; 120]%Z in
  let str c := PStr None [SPStr (of_ascii [c]%Z)] in
  PBinOp (PNum (of_ascii [49]%Z)) (BPipe (Some (PPVar vx)))
    (PObj [(str 97%Z, Some PId); (PVar vx, None);
           (PStr None [SPStr (of_ascii [98]%Z); SPTerm (PVar vx)], Some (PArr (Some PRecurse)));
           (str 99%Z, Some (PIte [(PVar vx, PNum (of_ascii [50]%Z))] None))]).
Example frag_objects_ex : frag [] [] 12 objects_ex.
Proof.
  unfold objects_ex. cbv zeta. apply f_bind; [constructor|]. apply f_obj.
  apply fk_kv; [apply f_str; repeat constructor|constructor|].
  apply fk_var; [apply f_var; cbn; auto|].
  apply fk_kv; [apply f_str; apply fs_lit; apply fs_term; [apply f_var; cbn; auto|apply fs_nil]|apply f_arr; constructor|].
  apply fk_kv; [apply f_str; repeat constructor|apply f_ite1; [apply f_var; cbn; auto|constructor]|apply fk_nil].
Qed.
Example sem_objects_ex d : (forall v, d v = of_ascii [49]%Z) ->
  sem d 14 objects_ex [] [] 0 Null
  = sone (Obj [(TStr (of_ascii [97]%Z), Null); (TStr (of_ascii [120]%Z), vint 1);
               (TStr (of_ascii [98; 49]%Z), Arr [Null]); (TStr (of_ascii [99]%Z), vint 2)]).
Proof. intros Hd. vm_compute. rewrite ?Hd. reflexivity. Qed.

(** ... and by destructuring with one level of variables, e.g.
      [1, 2] as [$a, $b] | {"k": $b} as {"k": $c} | [$a, $c]       whose semantics is [1, 2] *)
Definition patterns_ex : pterm :=
  let va := of_ascii [36; 97]%Z in let vb := of_ascii [36; 98]%Z in let vc := of_ascii [36; 99]%Z in
  let num c := PNum (of_ascii [c]%Z) in let k := PStr None [SPStr (of_ascii [107]%Z)] in
  PBinOp (PArr (Some (PBinOp (num 49%Z) BComma (num 50%Z)))) (BPipe (Some (PPArr (map PPVar [va; vb]))))
    (PBinOp (PObj [(k, Some (PVar vb))]) (BPipe (Some (PPObj (map (fun kx => (fst kx, PPVar (snd kx))) [(k, vc)]))))
       (PArr (Some (PBinOp (PVar va) BComma (PVar vc))))).
Example frag_patterns_ex : frag [] [] 14 patterns_ex.
Proof.
  unfold patterns_ex. cbv zeta. apply f_bind_arr.
  - apply f_arr. apply f_comma; constructor.
  - apply f_bind_obj.
    + apply f_obj. apply fk_kv; [apply f_str; repeat constructor|apply f_var; cbn; auto|apply fk_nil].
    + apply fa_cons; [apply f_str; repeat constructor|apply fa_nil].
    + apply f_arr. apply f_comma; apply f_var; cbn; auto.
Qed.
Example sem_patterns_ex d : sem d 16 patterns_ex [] [] 0 Null = sone (Arr [vint 1; vint 2]).
Proof. vm_compute. reflexivity. Qed.
