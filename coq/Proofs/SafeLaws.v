(** The guards that stand between boundary values and a crash: machine integers never leave their range (the checked
    operations fall back to big integers), indices and slices stay inside the sequence, and string positions fall on
    character boundaries inside the string. *)
From Coq Require Import ZArith Bool List Lia.
From Coq Require Import Init.Byte.
From JaqV Require Import Base.Bytes Base.F64 Val.Num Val.Val Val.Utf8 Val.Err Val.Index.
Import ListNotations.
Local Open Scope Z_scope.

(** ** machine integers *)
Definition int_ok (x : num) : Prop := match x with Int i => in_isize i = true | _ => True end.

Lemma int_or_big_ok z : int_ok (int_or_big z).
Proof. unfold int_or_big. destruct (in_isize z) eqn:E; cbn; auto. Qed.

Lemma add_ok x y : int_ok (add x y).
Proof. destruct x, y; cbn; auto using int_or_big_ok. Qed.
Lemma sub_ok x y : int_ok (sub x y).
Proof. destruct x, y; cbn; auto using int_or_big_ok. Qed.
Lemma mul_ok x y : int_ok (mul x y).
Proof. destruct x, y; cbn; auto using int_or_big_ok. Qed.
Lemma neg_ok x : int_ok (neg x).
Proof. destruct x as [a|a|b|s]; cbn; auto using int_or_big_ok. destruct s as [|c r]; [exact I|]. destruct (bz c =? 45); exact I. Qed.

Lemma rem_ok x y : int_ok x -> int_ok y -> int_ok (rem x y).
Proof.
  destruct x as [a|a|b|s], y as [c|c|d|t]; cbn; auto. intros Ha _.
  unfold in_isize, isize_min, isize_max in *. assert (HT : 0 < two63) by reflexivity.
  generalize dependent two63. intros T Ha HT.
  apply andb_prop in Ha as [A1 A2]. apply Z.leb_le in A1, A2.
  destruct (Z.eq_dec c 0) as [->|Nz].
  - rewrite Z.rem_0_r_ext by reflexivity. apply andb_true_intro; split; apply Z.leb_le; lia.
  - assert (Habs : Z.abs (Z.rem a c) <= Z.abs a) by (rewrite <- Z.rem_abs by exact Nz; apply Z.rem_le; lia).
    destruct (Z.eq_dec (Z.rem a c) 0) as [E|E]; [rewrite E; apply andb_true_intro; split; apply Z.leb_le; lia|].
    pose proof (Z.rem_sign_nz a c Nz E) as Hs.
    apply andb_true_intro; split; apply Z.leb_le; lia.
Qed.

Lemma length_num_ok x n : length_num x = Some n -> int_ok n.
Proof. destruct x; cbn; intros H; try discriminate; injection H as <-; cbn; auto using int_or_big_ok. Qed.

(** ** character boundaries *)
Lemma chunks_f_partition fuel : forall s, (length s <= fuel)%nat -> concat (map snd (chunks_f fuel s)) = s.
Proof.
  induction fuel as [|fuel IH]; intros s H.
  - destruct s; [reflexivity|cbn in H; lia].
  - cbn [chunks_f]. destruct s as [|b r]; [reflexivity|]. destruct (decode1 (b :: r)) as [c n].
    cbn [map snd concat]. rewrite IH.
    + apply firstn_skipn.
    + rewrite skipn_length. cbn [length] in *. lia.
Qed.

Lemma chunks_partition s : concat (map snd (chunks s)) = s.
Proof. apply chunks_f_partition. lia. Qed.

Lemma chunks_f_nonempty fuel : forall s, Forall (fun ch => snd ch <> []) (chunks_f fuel s).
Proof.
  induction fuel as [|fuel IH]; intros s; [constructor|]. cbn [chunks_f]. destruct s as [|b r]; [constructor|].
  destruct (decode1 (b :: r)) as [c n]. constructor; [|apply IH].
  cbn [snd]. destruct (Nat.max n 1) eqn:E; [lia|]. cbn. discriminate.
Qed.

Definition total (cs : list (option Z * bytes)) : Z := Z.of_nat (length (concat (map snd cs))).

Fixpoint starts_go (cs : list (option Z * bytes)) (off : Z) : list Z :=
  match cs with
  | [] => []
  | (_, ch) :: r => off :: starts_go r (off + Z.of_nat (length ch))
  end.

Lemma char_starts_eq b : char_starts b = starts_go (chunks b) 0.
Proof. reflexivity. Qed.

Lemma starts_go_range cs : forall off, Forall (fun ch => snd ch <> []) cs ->
  Forall (fun z => off <= z < off + total cs) (starts_go cs off).
Proof.
  induction cs as [|[c ch] cs IH]; intros off H; [constructor|]. inversion H as [|? ? Hne Hr]; subst. cbn [snd] in Hne.
  cbn [starts_go]. unfold total. cbn [map snd concat]. rewrite app_length, Nat2Z.inj_add.
  assert (0 < Z.of_nat (length ch)) by (destruct ch; [congruence|cbn [length]; lia]).
  constructor; [fold (total cs); unfold total; lia|].
  specialize (IH (off + Z.of_nat (length ch)) Hr). eapply Forall_impl; [|exact IH]. unfold total. cbn beta. intros z Hz. lia.
Qed.

(** every character position is a byte offset inside the string *)
Lemma char_starts_range b : Forall (fun z => 0 <= z < Z.of_nat (length b)) (char_starts b).
Proof.
  rewrite char_starts_eq. pose proof (starts_go_range (chunks b) 0 (chunks_f_nonempty _ _)) as H.
  unfold total in H. rewrite chunks_partition in H. exact H.
Qed.

(** a position is a boundary: the start of a chunk (character or invalid sequence) or the end of the string *)
Definition boundary (b : bytes) (z : Z) : Prop := z = Z.of_nat (length b) \/ In z (char_starts b).

Lemma zero_boundary b : boundary b 0.
Proof.
  unfold boundary. destruct b as [|x r]; [left; reflexivity|]. right.
  unfold char_starts, chunks. cbn [length chunks_f]. destruct (decode1 (x :: r)) as [c n]. left. reflexivity.
Qed.

Lemma nth_or_boundary b n d : boundary b d -> boundary b (nth_or (char_starts b) n d).
Proof.
  intros Hd. unfold nth_or. destruct (n <? 0); [exact Hd|].
  destruct (nth_in_or_default (Z.to_nat n) (char_starts b) d) as [H|H]; [right; exact H|rewrite H; exact Hd].
Qed.

(** the byte offset computed for a character position is a boundary inside the string *)
Theorem byte_index_boundary b p : boundary b (byte_index b p) /\ 0 <= byte_index b p <= Z.of_nat (length b).
Proof.
  assert (B : boundary b (byte_index b p)).
  { unfold byte_index. destruct p as [pos c]. destruct pos.
    - apply nth_or_boundary. left. reflexivity.
    - destruct ((1 <=? c) && (c <=? Z.of_nat (length (char_starts b)))); [apply nth_or_boundary|]; apply zero_boundary. }
  split; [exact B|]. destruct B as [->|H]; [lia|].
  pose proof (char_starts_range b) as R. rewrite Forall_forall in R. specialize (R _ H). lia.
Qed.

(** a string slice lies inside the string *)
Theorem skip_take_chars_inside r b :
  let '(s, t) := skip_take_chars r b in 0 <= s /\ 0 <= t /\ s <= Z.of_nat (length b) /\ (t = 0 \/ s + t <= Z.of_nat (length b)).
Proof.
  unfold skip_take_chars. destruct r as [f u]. cbn [fst snd].
  assert (F : 0 <= match f with None => 0 | Some p => byte_index b p end <= Z.of_nat (length b))
    by (destruct f; [apply byte_index_boundary|lia]).
  assert (U : 0 <= match u with None => Z.of_nat (length b) | Some p => byte_index b p end <= Z.of_nat (length b))
    by (destruct u; [apply byte_index_boundary|lia]).
  lia.
Qed.

(** indexing a sequence *)
Theorem abs_index_inside p len i : abs_index p len = Some i -> 0 <= len -> 0 <= snd p -> 0 <= i < len.
Proof.
  unfold abs_index, wrap. destruct p as [pos c]. cbn [snd]. intros H Hl Hc.
  destruct pos.
  - destruct (c <? len) eqn:E; [|discriminate]. injection H as <-. apply Z.ltb_lt in E. lia.
  - destruct (c <=? len) eqn:E1; [|discriminate]. destruct (len - c <? len) eqn:E; [|discriminate]. injection H as <-.
    apply Z.leb_le in E1. apply Z.ltb_lt in E. lia.
Qed.
