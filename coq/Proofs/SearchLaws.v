(** C12: `indices($x)` lists exactly the positions i with `.[i:][:$x|length] == $x` - for arrays searched for a
    sub-array ([window_indices], Val/Index.v), for byte strings searched for a byte string ([byte_windows], Std/Natives.v)
    and for arrays searched for an element: in increasing order, each position once, overlapping occurrences included,
    nothing else; an empty needle yields nothing.  [firstn n (skipn k x)] is what `.[k:][:n]` reads for 0 <= k
    (Props/C10.v, clipped slices). *)
From Coq Require Import List ZArith Lia Bool Sorting.Sorted.
From Coq Require Import Init.Byte.
From JaqV Require Import Base.Bytes Base.Stream Val.Num Val.Val Val.Err Val.Arith Val.Index Std.Natives.
Import ListNotations.

(** the window of [x] at position [k] exists and equals [y] *)
Definition window_at {A} (eqb : list A -> list A -> bool) (x y : list A) (k : nat) : bool :=
  (k + length y <=? length x)%nat && eqb (firstn (length y) (skipn k x)) y.

Lemma window_at_cons {A} (eqb : list A -> list A -> bool) a r y k :
  window_at eqb (a :: r) y (S k) = window_at eqb r y k.
Proof. unfold window_at. cbn [length skipn]. reflexivity. Qed.

Lemma filter_seq_shift (p : nat -> bool) : forall n s,
  filter p (seq (S s) n) = map S (filter (fun k => p (S k)) (seq s n)).
Proof.
  induction n as [|n IH]; intros s; cbn [seq filter map]; [reflexivity|].
  rewrite IH. destruct (p (S s)); reflexivity.
Qed.

Lemma filter_ext_in' {A} (p q : A -> bool) l : (forall a, In a l -> p a = q a) -> filter p l = filter q l.
Proof.
  induction l as [|a l IH]; intros H; cbn; [reflexivity|].
  rewrite (H a (or_introl eq_refl)), IH; [reflexivity|]. intros b Hb. apply H. right. exact Hb.
Qed.

Lemma filter_none {A} (p : A -> bool) l : (forall a, In a l -> p a = false) -> filter p l = [].
Proof.
  induction l as [|a l IH]; intros H; cbn; [reflexivity|].
  rewrite (H a (or_introl eq_refl)). apply IH. intros b Hb. apply H. right. exact Hb.
Qed.

(** the positions of all windows, as offsets from [i] *)
Definition positions {A} (eqb : list A -> list A -> bool) (x y : list A) (i : Z) : list Z :=
  map (fun k => (i + Z.of_nat k)%Z) (filter (window_at eqb x y) (seq 0 (S (length x)))).

Lemma positions_short {A} (eqb : list A -> list A -> bool) (x y : list A) i :
  (length x < length y)%nat -> positions eqb x y i = [].
Proof.
  intros H. unfold positions. rewrite filter_none; [reflexivity|].
  intros k _. unfold window_at. destruct (Nat.leb_spec (k + length y) (length x)); [lia|reflexivity].
Qed.

Lemma positions_cons {A} (eqb : list A -> list A -> bool) a r (y : list A) i :
  positions eqb (a :: r) y i
  = (if window_at eqb (a :: r) y 0 then [i] else []) ++ positions eqb r y (i + 1).
Proof.
  unfold positions. cbn [length]. change (seq 0 (S (S (length r)))) with (0%nat :: seq 1 (S (length r))).
  cbn [filter]. rewrite filter_seq_shift.
  rewrite (filter_ext_in' (fun k => window_at eqb (a :: r) y (S k)) (window_at eqb r y))
    by (intros; apply window_at_cons).
  assert (E : map (fun k => (i + Z.of_nat k)%Z) (map S (filter (window_at eqb r y) (seq 0 (S (length r)))))
              = map (fun k => (i + 1 + Z.of_nat k)%Z) (filter (window_at eqb r y) (seq 0 (S (length r))))).
  { rewrite map_map. apply map_ext. intros k. lia. }
  destruct (window_at eqb (a :: r) y 0); cbn [map app]; rewrite E; [rewrite Z.add_0_r|]; reflexivity.
Qed.

(** *** arrays searched for a sub-array *)
Lemma window_indices_S x y i fuel : window_indices x y i (S fuel) =
  if (length x <? length y)%nat then []
  else (if list_eqb_val (firstn (length y) x) y then [i] else [])
       ++ match x with [] => [] | _ :: r => window_indices r y (i + 1) fuel end.
Proof. destruct x; reflexivity. Qed.
Lemma byte_windows_S (x y : bytes) i fuel : byte_windows x y i (S fuel) =
  if (length x <? length y)%nat then []
  else (if is_prefix y x then [i] else []) ++ match x with [] => [] | _ :: r => byte_windows r y (i + 1) fuel end.
Proof. destruct x; reflexivity. Qed.
Lemma window_indices_positions : forall fuel x y i, (length x < fuel)%nat ->
  window_indices x y i fuel = positions list_eqb_val x y i.
Proof.
  induction fuel as [|fuel IH]; intros x y i Hf; [lia|].
  rewrite window_indices_S.
  destruct (Nat.ltb_spec (length x) (length y)) as [Hs|Hs]; [rewrite positions_short by exact Hs; reflexivity|].
  destruct x as [|a r].
  - destruct y as [|b y]; [|cbn [length] in Hs; lia]. cbn. rewrite Z.add_0_r. reflexivity.
  - rewrite positions_cons. rewrite IH by (cbn [length] in Hf; lia).
    unfold window_at at 1. cbn [Nat.add skipn].
    destruct (Nat.leb_spec (length y) (length (a :: r))) as [_|Hc]; [|lia]. reflexivity.
Qed.

(** *** byte strings searched for a byte string *)
Definition prefix_eqb (w y : bytes) : bool := bytes_eqb w y.

Lemma is_prefix_firstn : forall (y x : bytes), (length y <= length x)%nat ->
  is_prefix y x = bytes_eqb (firstn (length y) x) y.
Proof.
  induction y as [|b y IH]; intros x H; [destruct x; reflexivity|].
  destruct x as [|a x]; [cbn [length] in H; lia|].
  cbn [is_prefix length firstn bytes_eqb]. rewrite IH by (cbn [length] in H; lia).
  f_equal. unfold byte_eqb. rewrite Z.eqb_sym. reflexivity.
Qed.

Lemma byte_windows_positions : forall fuel (x y : bytes) i, (length x < fuel)%nat ->
  byte_windows x y i fuel = positions bytes_eqb x y i.
Proof.
  induction fuel as [|fuel IH]; intros x y i Hf; [lia|].
  rewrite byte_windows_S.
  destruct (Nat.ltb_spec (length x) (length y)) as [Hs|Hs]; [rewrite positions_short by exact Hs; reflexivity|].
  rewrite (is_prefix_firstn y x Hs).
  destruct x as [|a r].
  - destruct y as [|b y]; [|cbn [length] in Hs; lia]. cbn. rewrite Z.add_0_r. reflexivity.
  - rewrite positions_cons. rewrite IH by (cbn [length] in Hf; lia).
    unfold window_at at 1. cbn [Nat.add skipn].
    destruct (Nat.leb_spec (length y) (length (a :: r))) as [_|Hc]; [|lia]. reflexivity.
Qed.

(** *** what the list of positions is: exactly the matching positions, increasing *)
Lemma in_positions {A} (eqb : list A -> list A -> bool) (x y : list A) k :
  In (Z.of_nat k) (positions eqb x y 0) <->
  (k + length y <= length x)%nat /\ eqb (firstn (length y) (skipn k x)) y = true.
Proof.
  unfold positions. rewrite in_map_iff. split.
  - intros [k' [E Hin]]. assert (k' = k) by lia. subst k'.
    apply filter_In in Hin. destruct Hin as [_ Hw]. unfold window_at in Hw.
    apply andb_true_iff in Hw. destruct Hw as [Hb He]. apply Nat.leb_le in Hb. auto.
  - intros [Hb He]. exists k. split; [lia|]. apply filter_In. split.
    + apply in_seq. lia.
    + unfold window_at. apply andb_true_iff. split; [apply Nat.leb_le; exact Hb|exact He].
Qed.

Lemma positions_nonneg {A} (eqb : list A -> list A -> bool) (x y : list A) z :
  In z (positions eqb x y 0) -> exists k, z = Z.of_nat k.
Proof. unfold positions. rewrite in_map_iff. intros [k [E _]]. exists k. lia. Qed.

Lemma sorted_filter_seq (p : nat -> bool) : forall n s, StronglySorted lt (filter p (seq s n)).
Proof.
  induction n as [|n IH]; intros s; cbn [seq filter]; [constructor|].
  destruct (p s); [|apply IH]. constructor; [apply IH|].
  apply Forall_forall. intros k Hk. apply filter_In in Hk. destruct Hk as [Hk _]. apply in_seq in Hk. lia.
Qed.

Lemma sorted_map_pos (l : list nat) i : StronglySorted lt l -> StronglySorted Z.lt (map (fun k => (i + Z.of_nat k)%Z) l).
Proof.
  induction 1 as [|a l Hs IH Hall]; cbn [map]; constructor; [exact IH|].
  apply Forall_forall. intros z Hz. apply in_map_iff in Hz. destruct Hz as [k [E Hk]]. subst z.
  rewrite Forall_forall in Hall. specialize (Hall k Hk). lia.
Qed.

Lemma positions_increasing {A} (eqb : list A -> list A -> bool) (x y : list A) i :
  StronglySorted Z.lt (positions eqb x y i).
Proof. apply sorted_map_pos. apply sorted_filter_seq. Qed.

(** *** the native [indices] of the model *)
Theorem indices_arrays x y : y <> [] ->
  indices (Arr x) (Arr y) = Ok (Arr (map vint (positions list_eqb_val x y 0))).
Proof.
  intros Hy. destruct y as [|b y]; [congruence|]. cbn [indices].
  rewrite window_indices_positions by lia. reflexivity.
Qed.

Theorem indices_bytes x y : y <> [] ->
  indices (BStr x) (BStr y) = Ok (Arr (map vint (positions bytes_eqb x y 0))).
Proof.
  intros Hy. destruct y as [|b y]; [congruence|]. cbn [indices].
  rewrite byte_windows_positions by lia. reflexivity.
Qed.

Theorem indices_empty_needle x b :
  indices (Arr x) (Arr []) = Ok (Arr []) /\ indices (BStr b) (BStr []) = Ok (Arr []) /\ indices (TStr b) (TStr []) = Ok (Arr []).
Proof. repeat split. Qed.

(** an array searched for something that is not an array: the positions of the elements equal to it *)
Lemma enumerate_filter (y : val) : forall a i,
  map fst (filter (fun p => val_eqb (snd p) y) (enumerate_from i a))
  = map (fun k => (i + Z.of_nat k)%Z) (filter (fun k => match nth_error a k with Some e => val_eqb e y | None => false end) (seq 0 (length a))).
Proof.
  induction a as [|e a IH]; intros i; [reflexivity|].
  cbn [enumerate_from length]. change (seq 0 (S (length a))) with (0%nat :: seq 1 (length a)).
  cbn [filter snd nth_error]. rewrite filter_seq_shift. cbn [nth_error].
  assert (E : forall l, map (fun k => (i + Z.of_nat k)%Z) (map S l) = map (fun k => (i + 1 + Z.of_nat k)%Z) l)
    by (intros l; rewrite map_map; apply map_ext; intros; lia).
  destruct (val_eqb e y); cbn [map fst]; rewrite IH, E; [rewrite Z.add_0_r|]; reflexivity.
Qed.

Theorem indices_element a y : (forall l, y <> Arr l) ->
  indices (Arr a) y = Ok (Arr (map vint (map (fun k => Z.of_nat k)
     (filter (fun k => match nth_error a k with Some e => val_eqb e y | None => false end) (seq 0 (length a)))))).
Proof.
  intros Hy. destruct y; try (exfalso; eapply Hy; reflexivity); cbn [indices];
    rewrite <- (map_map fst vint), enumerate_filter; do 3 f_equal; apply map_ext; intros; lia.
Qed.

(** *** the statements used in Props/C12.v *)
Definition lists_exactly {A} (eqb : list A -> list A -> bool) (x y : list A) (ps : list Z) : Prop :=
  StronglySorted Z.lt ps
  /\ (forall z, In z ps -> exists k, z = Z.of_nat k)
  /\ forall k, In (Z.of_nat k) ps <->
       (k + length y <= length x)%nat /\ eqb (firstn (length y) (skipn k x)) y = true.

Lemma positions_exact {A} (eqb : list A -> list A -> bool) (x y : list A) : lists_exactly eqb x y (positions eqb x y 0).
Proof.
  split; [apply positions_increasing|]. split; [apply positions_nonneg|]. intros k. apply in_positions.
Qed.

Theorem indices_arrays_spec x y : y <> [] ->
  exists ps, indices (Arr x) (Arr y) = Ok (Arr (map vint ps)) /\ lists_exactly list_eqb_val x y ps.
Proof. intros Hy. eexists. split; [apply indices_arrays; exact Hy|apply positions_exact]. Qed.

Theorem indices_bytes_spec (x y : bytes) : y <> [] ->
  exists ps, indices (BStr x) (BStr y) = Ok (Arr (map vint ps)) /\ lists_exactly bytes_eqb x y ps.
Proof. intros Hy. eexists. split; [apply indices_bytes; exact Hy|apply positions_exact]. Qed.

(** non-vacuity: overlapping occurrences are all listed *)
Example indices_overlap :
  indices (Arr [vint 1; vint 1; vint 1; vint 2]) (Arr [vint 1; vint 1]) = Ok (Arr [vint 0; vint 1]).
Proof. vm_compute. reflexivity. Qed.
