(** Codecs invert exactly: percent-encoding, HTML escaping, shell quoting; for arbitrary bytes. *)
From Coq Require Import ZArith Bool List Lia.
From Coq Require Import Init.Byte.
From JaqV Require Import Base.Bytes Std.Codec.
Import ListNotations.

(** one byte of percent-encoded text is decoded in one step, whatever follows *)
Lemma uri_step c : forall n rest, uri_decode (S n) (uri_enc1 c ++ rest) = c :: uri_decode n rest.
Proof. destruct c; intros n rest; reflexivity. Qed.

Theorem uri_roundtrip_go s : forall n rest, (length s <= n)%nat ->
  uri_decode n (uri_encode s ++ rest) = s ++ uri_decode (n - length s) rest.
Proof.
  induction s as [|c s IH]; intros n rest Hn.
  - cbn. rewrite Nat.sub_0_r. reflexivity.
  - cbn [uri_encode flat_map]. rewrite <- app_assoc. cbn [length] in *.
    destruct n as [|n]; [lia|]. rewrite uri_step. fold (uri_encode s). rewrite IH by lia. reflexivity.
Qed.

Theorem uri_roundtrip s : uri_decode (length (uri_encode s)) (uri_encode s) = s.
Proof.
  pose proof (uri_roundtrip_go s (length (uri_encode s)) []) as H. rewrite app_nil_r in H.
  rewrite H.
  - destruct (length (uri_encode s) - length s)%nat; cbn; apply app_nil_r.
  - clear. induction s as [|c s IH]; cbn [uri_encode flat_map length]; [lia|]. rewrite app_length.
    assert (1 <= length (uri_enc1 c))%nat by (destruct c; cbn; lia). fold (uri_encode s). lia.
Qed.

(** HTML: one escaped byte is unescaped in one step, whatever follows *)
Lemma html_step c : forall n rest, html_unescape (S n) (html_esc1 c ++ rest) = c :: html_unescape n rest.
Proof. destruct c; intros n rest; reflexivity. Qed.

Theorem html_roundtrip_go s : forall n rest, (length s <= n)%nat ->
  html_unescape n (html_escape s ++ rest) = s ++ html_unescape (n - length s) rest.
Proof.
  induction s as [|c s IH]; intros n rest Hn.
  - cbn. rewrite Nat.sub_0_r. reflexivity.
  - cbn [html_escape flat_map]. rewrite <- app_assoc. cbn [length] in *.
    destruct n as [|n]; [lia|]. rewrite html_step. fold (html_escape s). rewrite IH by lia. reflexivity.
Qed.

Theorem html_roundtrip s : html_unescape (length (html_escape s)) (html_escape s) = s.
Proof.
  pose proof (html_roundtrip_go s (length (html_escape s)) []) as H. rewrite app_nil_r in H.
  rewrite H.
  - destruct (length (html_escape s) - length s)%nat; cbn; apply app_nil_r.
  - clear. induction s as [|c s IH]; cbn [html_escape flat_map length]; [lia|]. rewrite app_length.
    assert (1 <= length (html_esc1 c))%nat by (destruct c; cbn; lia). fold (html_escape s). lia.
Qed.

(** shell: inside the quotes opened by @sh, one escaped byte is read back as that byte, staying inside quotes *)
Lemma sh_step c : forall n rest acc, sh_word (S (S (S (S n)))) true (sh_esc1 c ++ rest) acc = sh_word (if Z.eqb (bz c) 39 then S n else S (S (S n))) true rest (c :: acc).
Proof. destruct c; intros n rest acc; reflexivity. Qed.

Lemma sh_go s : forall n rest acc, (4 * length s <= n)%nat ->
  exists m, (n - 4 * length s <= m)%nat /\ sh_word n true (flat_map sh_esc1 s ++ rest) acc = sh_word m true rest (rev s ++ acc).
Proof.
  induction s as [|c s IH]; intros n rest acc Hn.
  - exists n. cbn. split; [lia | reflexivity].
  - cbn [flat_map length] in *. rewrite <- app_assoc.
    destruct n as [|[|[|[|n]]]]; try lia. rewrite sh_step.
    destruct (Z.eqb (bz c) 39).
    + destruct (IH (S n) rest (c :: acc)) as [m [Hm He]]; [lia|]. exists m. split; [lia|].
      rewrite He. cbn [rev]. rewrite <- app_assoc. reflexivity.
    + destruct (IH (S (S (S n))) rest (c :: acc)) as [m [Hm He]]; [lia|]. exists m. split; [lia|].
      rewrite He. cbn [rev]. rewrite <- app_assoc. reflexivity.
Qed.

(** a POSIX shell evaluating the word @sh produces recovers exactly the original bytes, and nothing else *)
Theorem sh_safe s : sh_word (4 * length s + 4) false (sh_quote s) [] = Some (s, []).
Proof.
  unfold sh_quote. replace (4 * length s + 4)%nat with (S (4 * length s + 3)) by lia.
  cbn [sh_word]. change (bz (zb 39) =? 39)%Z with true. cbn iota.
  destruct (sh_go s (4 * length s + 3) [zb 39] []) as [m [Hm He]]; [lia|].
  rewrite He. destruct m as [|[|m]]; try lia.
  cbn [sh_word]. change (bz (zb 39) =? 39)%Z with true. cbn iota. rewrite app_nil_r, rev_involutive. reflexivity.
Qed.

(** ** base64 *)
Local Open Scope Z_scope.

Fixpoint zrange (start : Z) (n : nat) : list Z :=
  match n with O => [] | S n => start :: zrange (start + 1) n end.

Lemma in_zrange n : forall start z, start <= z < start + Z.of_nat n -> In z (zrange start n).
Proof.
  induction n as [|n IH]; intros start z H; [lia|].
  cbn [zrange]. destruct (Z.eq_dec z start) as [->|Hne]; [left; reflexivity|]. right. apply IH. lia.
Qed.

Lemma b64_val_char_all : forallb (fun k => match b64_val (b64_char k) with Some k' => k' =? k | None => false end) (zrange 0 64) = true.
Proof. vm_compute. reflexivity. Qed.

Lemma b64_val_char k : 0 <= k < 64 -> b64_val (b64_char k) = Some k.
Proof.
  intros H. pose proof b64_val_char_all as A. rewrite forallb_forall in A.
  specialize (A k (in_zrange 64 0 k ltac:(lia))). destruct (b64_val (b64_char k)) as [k'|]; [|discriminate].
  apply Z.eqb_eq in A. congruence.
Qed.

Lemma b64_char_not_pad_all : forallb (fun k => negb (byte_eqb (b64_char k) pad)) (zrange 0 64) = true.
Proof. vm_compute. reflexivity. Qed.

Lemma b64_char_not_pad k : 0 <= k < 64 -> byte_eqb (b64_char k) pad = false.
Proof.
  intros H. pose proof b64_char_not_pad_all as A. rewrite forallb_forall in A.
  specialize (A k (in_zrange 64 0 k ltac:(lia))). apply negb_true_iff in A. exact A.
Qed.

Lemma pad_eq : byte_eqb pad pad = true.
Proof. reflexivity. Qed.

Ltac bounds a := pose proof (bz_range a).

(** every byte string survives encoding and strict decoding *)
Theorem base64_roundtrip : forall n s, (length s <= n)%nat -> b64_decode (S n) (b64_encode s) = Some s.
Proof.
  induction n as [n IH] using lt_wf_ind. intros s Hn.
  destruct s as [|a [|b [|c r]]].
  - reflexivity.
  - (* one byte *)
    cbn [b64_encode]. bounds a. set (N := bz a * 65536).
    cbn [b64_decode].
    rewrite (b64_val_char (N / 262144)) by (unfold N; split; [apply Z.div_pos; lia | apply Z.div_lt_upper_bound; lia]).
    rewrite (b64_val_char ((N / 4096) mod 64)) by (apply Z.mod_pos_bound; lia).
    rewrite pad_eq. cbn [andb].
    assert (E1 : ((N / 4096) mod 64) mod 16 = 0) by (unfold N; Z.div_mod_to_equations; lia).
    rewrite E1. cbn.
    assert (E2 : N / 262144 * 4 + (N / 4096) mod 64 / 16 = bz a) by (unfold N; Z.div_mod_to_equations; lia).
    rewrite E2, zb_bz. reflexivity.
  - (* two bytes *)
    cbn [b64_encode]. bounds a. bounds b. set (N := bz a * 65536 + bz b * 256).
    cbn [b64_decode].
    rewrite (b64_val_char (N / 262144)) by (unfold N; split; [apply Z.div_pos; lia | apply Z.div_lt_upper_bound; lia]).
    rewrite (b64_val_char ((N / 4096) mod 64)) by (apply Z.mod_pos_bound; lia).
    rewrite (b64_char_not_pad ((N / 64) mod 64)) by (apply Z.mod_pos_bound; lia). cbn [andb].
    rewrite (b64_val_char ((N / 64) mod 64)) by (apply Z.mod_pos_bound; lia).
    rewrite pad_eq.
    assert (E1 : ((N / 64) mod 64) mod 4 = 0) by (unfold N; Z.div_mod_to_equations; lia).
    rewrite E1. cbn.
    assert (E2 : N / 262144 * 4 + (N / 4096) mod 64 / 16 = bz a) by (unfold N; Z.div_mod_to_equations; lia).
    assert (E3 : (N / 4096) mod 64 mod 16 * 16 + (N / 64) mod 64 / 4 = bz b) by (unfold N; Z.div_mod_to_equations; lia).
    rewrite E2, E3, !zb_bz. reflexivity.
  - (* a full group of three bytes *)
    cbn [b64_encode]. bounds a. bounds b. bounds c. set (N := bz a * 65536 + bz b * 256 + bz c).
    assert (B0 : 0 <= N / 262144 < 64) by (unfold N; split; [apply Z.div_pos; lia | apply Z.div_lt_upper_bound; lia]).
    assert (E2 : N / 262144 * 4 + (N / 4096) mod 64 / 16 = bz a) by (unfold N; Z.div_mod_to_equations; lia).
    assert (E3 : (N / 4096) mod 64 mod 16 * 16 + (N / 64) mod 64 / 4 = bz b) by (unfold N; Z.div_mod_to_equations; lia).
    assert (E4 : (N / 64) mod 64 mod 4 * 64 + N mod 64 = bz c) by (unfold N; Z.div_mod_to_equations; lia).
    destruct r as [|d r'].
    + (* exactly three bytes: the last quadruple *)
      cbn [b64_encode b64_decode].
      rewrite (b64_val_char _ B0).
      rewrite (b64_val_char ((N / 4096) mod 64)) by (apply Z.mod_pos_bound; lia).
      rewrite (b64_char_not_pad ((N / 64) mod 64)) by (apply Z.mod_pos_bound; lia). cbn [andb].
      rewrite (b64_val_char ((N / 64) mod 64)) by (apply Z.mod_pos_bound; lia).
      rewrite (b64_char_not_pad (N mod 64)) by (apply Z.mod_pos_bound; lia).
      rewrite (b64_val_char (N mod 64)) by (apply Z.mod_pos_bound; lia).
      rewrite E2, E3, E4, !zb_bz. reflexivity.
    + (* more follows *)
      remember (d :: r') as r eqn:Er.
      assert (Hne : b64_encode r <> []) by (subst r; destruct r' as [|? [|? ?]]; cbn; discriminate).
      cbn [b64_decode]. destruct (b64_encode r) as [|e0 er] eqn:Ee; [contradiction|].
      rewrite (b64_val_char _ B0).
      rewrite (b64_val_char ((N / 4096) mod 64)) by (apply Z.mod_pos_bound; lia).
      rewrite (b64_val_char ((N / 64) mod 64)) by (apply Z.mod_pos_bound; lia).
      rewrite (b64_val_char (N mod 64)) by (apply Z.mod_pos_bound; lia).
      cbn [length] in Hn. destruct n as [|n]; [lia|].
      rewrite <- Ee. rewrite (IH n) by lia. rewrite E2, E3, E4, !zb_bz. reflexivity.
Qed.
