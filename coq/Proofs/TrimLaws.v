(** C12: startswith / endswith / ltrimstr / rtrimstr on every byte string: the tests are "is a prefix / suffix", the trims
    remove exactly that prefix / suffix (and nothing when the test fails), so that `ltrimstr($p) | $p + .` and
    `rtrimstr($p) | . + $p` give the string back whenever the test holds. *)
From Coq Require Import ZArith Bool List Lia.
From Coq Require Import Init.Byte.
From JaqV Require Import Base.Bytes Val.Arith Std.Natives.
Import ListNotations.

Lemma is_prefix_spec (p x : bytes) : is_prefix p x = true <-> exists t, x = p ++ t.
Proof.
  revert x. induction p as [|a p IH]; intros x; cbn [is_prefix].
  - split; [intros _; exists x; reflexivity|reflexivity].
  - destruct x as [|b x].
    + split; [discriminate|]. intros [t E]. discriminate.
    + split.
      * intros H. apply andb_true_iff in H. destruct H as [Hab Hr]. destruct (byte_eqb_spec a b) as [->|]; [|discriminate].
        apply IH in Hr. destruct Hr as [t ->]. exists t. reflexivity.
      * intros [t E]. cbn [app] in E. injection E as -> ->. apply andb_true_iff. split.
        -- destruct (byte_eqb_spec a a); [reflexivity|congruence].
        -- apply IH. exists t. reflexivity.
Qed.

Lemma is_suffix_spec (p x : bytes) : is_suffix p x = true <-> exists t, x = t ++ p.
Proof.
  unfold is_suffix. rewrite is_prefix_spec. split.
  - intros [t E]. exists (rev t). apply (f_equal (@rev byte)) in E. rewrite rev_involutive, rev_app_distr, rev_involutive in E. exact E.
  - intros [t ->]. exists (rev t). rewrite rev_app_distr. reflexivity.
Qed.

(** what ltrimstr removes is the prefix: putting it back gives the string *)
Lemma ltrim_restores (p x : bytes) : is_prefix p x = true -> p ++ skipn (length p) x = x.
Proof.
  intros H. apply is_prefix_spec in H. destruct H as [t ->]. rewrite skipn_app, Nat.sub_diag, skipn_all. reflexivity.
Qed.

Lemma rtrim_restores (p x : bytes) : is_suffix p x = true -> firstn (length x - length p) x ++ p = x.
Proof.
  intros H. apply is_suffix_spec in H. destruct H as [t ->]. rewrite app_length.
  replace (length t + length p - length p)%nat with (length t) by lia.
  rewrite firstn_app, Nat.sub_diag, firstn_all. cbn [firstn]. rewrite app_nil_r. reflexivity.
Qed.

(** and what remains is exactly the rest *)
Lemma ltrim_is_the_rest (p t : bytes) : skipn (length p) (p ++ t) = t.
Proof. rewrite skipn_app, Nat.sub_diag, skipn_all. reflexivity. Qed.

Lemma rtrim_is_the_rest (p t : bytes) : firstn (length (t ++ p) - length p) (t ++ p) = t.
Proof.
  rewrite app_length. replace (length t + length p - length p)%nat with (length t) by lia.
  rewrite firstn_app, Nat.sub_diag, firstn_all. cbn [firstn]. apply app_nil_r.
Qed.
