(** C02: updates through definitions, filter arguments and folds.  The clauses of the update evaluator for these forms, as
    reduction rules in the style of the manual's table:
      f(args) |= u            =  body[args] |= u                      (a definition is updated through its body)
      g |= u  (g a filter argument)  =  the argument's term, in the context it was written in, |= u
      reduce  xs as $x (init; upd) |= u  =  init |= (upd[x1] |= (upd[x2] |= ... u))
      foreach xs as $x (init; upd) |= u  =  init |= (upd[x1] |= (u | (upd[x2] |= (u | ...))))
    i.e. an update through reduce is the update through its nested-pipe expansion `init | upd[x1] | ... | upd[xn]`. *)
From Coq Require Import List ZArith FunctionalExtensionality.
From JaqV Require Import Base.Bytes Base.Stream Val.Val Val.Err Val.Index Core.Syntax Core.Natives Core.Run.
Import ListNotations.

Section UF.
  Variable d : val -> bytes.
  Variable nr : nat -> bytes -> list narg -> val -> option (str val).
  Variable defs : list term.
  Notation update := (update d nr defs).
  Notation fold_update := (fold_update d nr defs).

  Lemma update_call n id args skip ct c v f body : nth_error defs id = Some body ->
    update (S n) (KCallDef id args skip ct) c v f
    = sreduce (bind_vars d nr defs n args (skip_vars skip c) c v) v (fun c' x => update n body c' x f).
  Proof. intros H. cbn [Run.update]. rewrite H. reflexivity. Qed.

  Lemma update_filter_argument n i c v f g fvars : nth_bind c i = Some (BFun g fvars) ->
    update (S n) (KVar i) c v f = update n g (with_vars fvars c) v f.
  Proof. intros H. cbn [Run.update]. rewrite H. reflexivity. Qed.

  Lemma update_fold n xs pat init upd ft c v f :
    update (S n) (KFold xs pat init upd ft) c v f
    = update n init c v (fun x => fold_update n ft upd x (run_and_bind d nr defs n xs c v pat) f).
  Proof. reflexivity. Qed.

  (** over the bound contexts [cs] of the source, with the fuel the evaluator spends per item *)
  Fixpoint nested (n : nat) (ft : foldtype) (upd : term) (cs : list ctx) (f : val -> str val) (v : val) : str val :=
    match n with
    | O => SBot
    | S n =>
        match cs with
        | [] => match ft with Reduce => f v | Foreach _ => sone v end
        | cx :: r =>
            update n upd cx v
              (match ft with
               | Reduce => nested n ft upd r f
               | Foreach None => fun x => sbind (f x) (nested n ft upd r f)
               | Foreach (Some proj) => fun x => sbind (update n proj cx x f) (nested n ft upd r f)
               end)
        end
    end.

  Lemma fold_update_cons n ft path v cx (k : unit -> str ctx) f :
    fold_update (S n) ft path v (SCons cx k) f
    = update n path cx v
        (match ft with
         | Reduce => fun x => fold_update n ft path x (k tt) f
         | Foreach None => fun x => sbind (f x) (fun x => fold_update n ft path x (k tt) f)
         | Foreach (Some proj) => fun x => sbind (update n proj cx x f) (fun x => fold_update n ft path x (k tt) f)
         end).
  Proof. destruct ft as [|[proj|]]; reflexivity. Qed.

  Theorem fold_update_is_nested ft upd f : forall cs n v,
    fold_update n ft upd v (of_list cs) f = nested n ft upd cs f v.
  Proof.
    induction cs as [|cx r IH]; intros n v; destruct n as [|n]; try reflexivity.
    cbn [of_list]. rewrite fold_update_cons. cbn [nested]. f_equal.
    destruct ft as [|[proj|]]; apply functional_extensionality; intros x; try (f_equal; apply functional_extensionality; intros y); apply IH.
  Qed.

  (** reduce: the update is handed inwards item by item - `init |= (upd[x1] |= (upd[x2] |= u))` for two items *)
  Corollary update_reduce_two n upd f c1 c2 v :
    fold_update (S (S (S n))) Reduce upd v (of_list [c1; c2]) f
    = update (S (S n)) upd c1 v (fun x => update (S n) upd c2 x f).
  Proof. rewrite fold_update_is_nested. reflexivity. Qed.

  (** an empty source: `reduce empty as $x (init; upd) |= u` = `init |= u`; `foreach empty ... |= u` leaves init's value alone *)
  Corollary update_fold_empty n upd f v :
    fold_update (S n) Reduce upd v SNil f = f v /\ fold_update (S n) (Foreach None) upd v SNil f = sone v.
  Proof. split; reflexivity. Qed.
End UF.
