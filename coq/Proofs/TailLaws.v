(** Tail calls in the compiler model (Core/Compile.v, mirror of jaq-core/src/compile.rs): a call to an enclosing definition
    that stands in a tail context is compiled as a thrown tail call, and the positions outside the tail contexts never let
    a tail call through. *)
From Coq Require Import ZArith Bool List Lia.
From JaqV Require Import Base.Bytes Val.Err Core.Syntax Core.Compile.
Import ListNotations.

Section Tail.
  Variable g : genv.

  Lemma with_vars_funs xs : forall e, e_funs (with_vars xs e) = e_funs e.
  Proof.
    unfold with_vars. induction xs as [|x xs IH]; intros e; [reflexivity|]. cbn [fold_left]. rewrite IH. reflexivity.
  Qed.

  (** ** one step of the compiler on the constructs that hand the tail-callable set [tr] on *)
  Lemma c_comma n e s l r tr :
    c_term g (S n) e s (PBinOp l BComma r) tr =
    let '((l', trl), s1) := c_term g n e s l tr in
    let '((r', trr), s2) := c_term g n e s1 r tr in
    ((KComma l' r', union trl trr), s2).
  Proof. reflexivity. Qed.

  Lemma c_alt n e s l r tr :
    c_term g (S n) e s (PBinOp l BAlt r) tr =
    let '((l', _), s1) := c_term g n e s l [] in
    let '((r', tr_), s2) := c_term g n e s1 r tr in
    ((KAlt l' r', tr_), s2).
  Proof. cbn [c_term]. destruct (c_term g n e s l []) as [[l' t0] s1]. reflexivity. Qed.

  Lemma c_pipe n e s l r tr :
    c_term g (S n) e s (PBinOp l (BPipe None) r) tr =
    let '((l', _), s1) := c_term g n e s l [] in
    let '((r', tr_), s2) := c_term g n e s1 r tr in
    ((KPipe l' None r', tr_), s2).
  Proof.
    cbn [c_term]. destruct (c_term g n e s l []) as [[l' t0] s1]. cbn [with_vars fold_left].
    destruct (c_term g n e s1 r tr) as [[r' tr_] s2]. reflexivity.
  Qed.

  Lemma c_bind n e s l p r tr :
    c_term g (S n) e s (PBinOp l (BPipe (Some p)) r) tr =
    let '((l', _), s1) := c_term g n e s l [] in
    let '((r', tr_), s2) := c_term g n (with_vars (pat_vars_f n p) e) s1 r tr in
    let '(p', s3) := c_pattern g n e s2 p in
    ((KPipe l' (Some p') r', tr_), s3).
  Proof.
    cbn [c_term]. destruct (c_term g n e s l []) as [[l' t0] s1].
    destruct (c_term g n (with_vars (pat_vars_f n p) e) s1 r tr) as [[r' tr_] s2].
    fold (c_pattern g n e s2 p). destruct (c_pattern g n e s2 p) as [p' s3]. reflexivity.
  Qed.

  Lemma c_ite n e s i t el tr :
    c_term g (S n) e s (PIte [(i, t)] (Some el)) tr =
    let '((i', _), s1) := c_term g n e s i [] in
    let '((t', trt), s2) := c_term g n e s1 t tr in
    let '((e', tre), s3) := c_term g n e s2 el tr in
    ((KIte i' t' e', union trt tre), s3).
  Proof.
    cbn [c_term]. destruct (c_term g n e s i []) as [[i' t0] s1].
    destruct (c_term g n e s1 t tr) as [[t' trt] s2]. destruct (c_term g n e s2 el tr) as [[e' tre] s3]. reflexivity.
  Qed.

  Lemma c_foreach n e s xs p init update proj tr :
    c_term g (S n) e s (PFold name_foreach xs p [init; update; proj]) tr =
    let '((xs', _), s1) := c_term g n e s xs [] in
    let '(pat', s2) := c_pattern g n e s1 p in
    let '((init', _), s3) := c_term g n e s2 init [] in
    let '((update', _), s4) := c_term g n (with_vars (pat_vars_f n p) e) s3 update [] in
    let '((proj', tr_), s5) := c_term g n (with_vars (pat_vars_f n p) e) s4 proj tr in
    ((KFold xs' pat' init' update' (Foreach (Some proj')), tr_), s5).
  Proof.
    cbn [c_term]. destruct (c_term g n e s xs []) as [[xs' t0] s1].
    fold (c_pattern g n e s1 p). destruct (c_pattern g n e s1 p) as [pat' s2].
    destruct (c_term g n e s2 init []) as [[init' t1] s3].
    destruct (c_term g n (with_vars (pat_vars_f n p) e) s3 update []) as [[update' t2] s4].
    change (bytes_eqb name_foreach name_reduce) with false. change (bytes_eqb name_foreach name_foreach) with true. cbn iota.
    destruct (c_term g n (with_vars (pat_vars_f n p) e) s4 proj tr) as [[proj' tr_] s5]. reflexivity.
  Qed.

  (** ** outside the tail contexts the set [tr] is dropped: whatever it is, the result is the same, and nothing is
      reported as a tail call to the caller *)
  Lemma c_arr_no_tail n e s t tr : c_term g (S n) e s (PArr t) tr = c_term g (S n) e s (PArr t) [].
  Proof. reflexivity. Qed.
  Lemma c_neg_no_tail n e s t tr : c_term g (S n) e s (PNeg t) tr = c_term g (S n) e s (PNeg t) [].
  Proof. reflexivity. Qed.
  Lemma c_label_no_tail n e s x t tr : c_term g (S n) e s (PLabel x t) tr = c_term g (S n) e s (PLabel x t) [].
  Proof. reflexivity. Qed.
  Lemma c_try_no_tail n e s t c tr : c_term g (S n) e s (PTryCatch t c) tr = c_term g (S n) e s (PTryCatch t c) [].
  Proof. reflexivity. Qed.
  Lemma c_reduce_no_tail n e s xs p args tr :
    c_term g (S n) e s (PFold name_reduce xs p args) tr = c_term g (S n) e s (PFold name_reduce xs p args) [].
  Proof.
    cbn [c_term]. destruct args as [|i [|u rest]]; reflexivity.
  Qed.
  Lemma c_math_no_tail n e s l o r tr :
    c_term g (S n) e s (PBinOp l (BMath o) r) tr = c_term g (S n) e s (PBinOp l (BMath o) r) [].
  Proof. reflexivity. Qed.
  Lemma c_cmp_no_tail n e s l o r tr :
    c_term g (S n) e s (PBinOp l (BCmp o) r) tr = c_term g (S n) e s (PBinOp l (BCmp o) r) [].
  Proof. reflexivity. Qed.
  Lemma c_update_no_tail n e s l r tr :
    c_term g (S n) e s (PBinOp l BUpdate r) tr = c_term g (S n) e s (PBinOp l BUpdate r) [].
  Proof. reflexivity. Qed.
  Lemma c_path_no_tail n e s t p tr : c_term g (S n) e s (PPath t p) tr = c_term g (S n) e s (PPath t p) [].
  Proof. reflexivity. Qed.
  Lemma c_str_no_tail n e s f ps tr : c_term g (S n) e s (PStr f ps) tr = c_term g (S n) e s (PStr f ps) [].
  Proof. reflexivity. Qed.
  Lemma c_obj_no_tail n e s kvs tr : c_term g (S n) e s (PObj kvs) tr = c_term g (S n) e s (PObj kvs) [].
  Proof. reflexivity. Qed.
  (** the left of a pipe and of `//`, and conditions, are compiled without [tr] (see [c_pipe], [c_alt], [c_ite]) *)

  (** ** tail contexts *)
  Inductive tctx :=
  | THole
  | TPipe (l : pterm) (c : tctx)                        (* l | [] *)
  | TBind (l : pterm) (p : ppat) (c : tctx)             (* l as p | [] *)
  | TCommaR (l : pterm) (c : tctx)                      (* l, [] *)
  | TCommaL (c : tctx) (r : pterm)                      (* [], r *)
  | TAlt (l : pterm) (c : tctx)                         (* l // [] *)
  | TThen (i : pterm) (c : tctx) (el : pterm)           (* if i then [] else el end *)
  | TElse (i t : pterm) (c : tctx)                      (* if i then t else [] end *)
  | TForeach (xs : pterm) (p : ppat) (init update : pterm) (c : tctx).   (* foreach xs as p (init; update; []) *)

  Fixpoint plug (c : tctx) (t : pterm) : pterm :=
    match c with
    | THole => t
    | TPipe l c => PBinOp l (BPipe None) (plug c t)
    | TBind l p c => PBinOp l (BPipe (Some p)) (plug c t)
    | TCommaR l c => PBinOp l BComma (plug c t)
    | TCommaL c r => PBinOp (plug c t) BComma r
    | TAlt l c => PBinOp l BAlt (plug c t)
    | TThen i c el => PIte [(i, plug c t)] (Some el)
    | TElse i th c => PIte [(i, th)] (Some (plug c t))
    | TForeach xs p init update c => PFold name_foreach xs p [init; update; plug c t]
    end.

  Fixpoint cdepth (c : tctx) : nat :=
    match c with
    | THole => O
    | TPipe _ c | TBind _ _ c | TCommaR _ c | TCommaL c _ | TAlt _ c | TThen _ c _ | TElse _ _ c | TForeach _ _ _ _ c => S (cdepth c)
    end.

  (** a thrown tail call to definition [id] in a position whose outputs are the outputs of the whole term *)
  Fixpoint has_throw (id : nat) (t : term) : bool :=
    match t with
    | KCallDef d _ _ Throw => Nat.eqb d id
    | KPipe _ _ r => has_throw id r
    | KComma l r => has_throw id l || has_throw id r
    | KAlt _ r => has_throw id r
    | KIte _ t e => has_throw id t || has_throw id e
    | KFold _ _ _ _ (Foreach (Some p)) => has_throw id p
    | _ => false
    end.

  Lemma mem_union_l x a b : mem x a = true -> mem x (union a b) = true.
  Proof. intros H. unfold union. unfold mem at 1. rewrite existsb_app. apply orb_true_iff. left. exact H. Qed.
  Lemma mem_union_r x a b : mem x b = true -> mem x (union a b) = true.
  Proof.
    intros H. unfold union. unfold mem at 1. rewrite existsb_app. apply orb_true_iff.
    destruct (mem x a) eqn:E; [left; exact E|right].
    apply existsb_exists in H as (y & Hy & Hxy). apply existsb_exists. exists y. split; [|exact Hxy].
    apply filter_In. split; [exact Hy|]. apply Nat.eqb_eq in Hxy. subst y. rewrite E. reflexivity.
  Qed.

  (** a zero-arity call [f] of an enclosing definition [id] that may be tail-called ([id] in [tr]), under any stack of
      tail contexts, is compiled to a thrown tail call to [id], which is also reported to the caller *)
  Theorem tail_call_is_thrown c : forall n e s f fe kinds id tr,
    (cdepth c < n)%nat ->
    find_fun f 0 (e_funs e) = Some fe -> f_kind fe = FParent kinds id -> mem id tr = true ->
    let '((t, tr_), _) := c_term g n e s (plug c (PCall f [])) tr in
    has_throw id t = true /\ mem id tr_ = true.
  Proof.
    induction c as [|l c IH|l p c IH|l c IH|c IH r|l c IH|i c IH el|i th c IH|xs p init update c IH];
      intros n e s f fe kinds id tr Hn Hf Hk Hm; (destruct n as [|n]; [cbn [cdepth] in Hn; lia|]); cbn [plug].
    - (* the call itself *)
      cbn [c_term]. unfold call, local_call. cbn [length]. rewrite Hf, Hk, Hm. cbn [has_throw]. rewrite Nat.eqb_refl.
      split; [reflexivity|]. unfold mem. cbn [existsb]. rewrite Nat.eqb_refl. reflexivity.
    - rewrite c_pipe. destruct (c_term g n e s l []) as [[l' t0] s1].
      specialize (IH n e s1 f fe kinds id tr ltac:(cbn [cdepth] in Hn; lia) Hf Hk Hm).
      destruct (c_term g n e s1 (plug c (PCall f [])) tr) as [[r' tr_] s2]. exact IH.
    - rewrite c_bind. destruct (c_term g n e s l []) as [[l' t0] s1].
      specialize (IH n (with_vars (pat_vars_f n p) e) s1 f fe kinds id tr ltac:(cbn [cdepth] in Hn; lia)
                     ltac:(rewrite with_vars_funs; exact Hf) Hk Hm).
      destruct (c_term g n (with_vars (pat_vars_f n p) e) s1 (plug c (PCall f [])) tr) as [[r' tr_] s2].
      destruct (c_pattern g n e s2 p) as [p' s3]. exact IH.
    - rewrite c_comma. destruct (c_term g n e s l tr) as [[l' trl] s1].
      specialize (IH n e s1 f fe kinds id tr ltac:(cbn [cdepth] in Hn; lia) Hf Hk Hm).
      destruct (c_term g n e s1 (plug c (PCall f [])) tr) as [[r' trr] s2]. destruct IH as [A B]. cbn [has_throw].
      rewrite A, orb_true_r. split; [reflexivity|apply mem_union_r; exact B].
    - rewrite c_comma. specialize (IH n e s f fe kinds id tr ltac:(cbn [cdepth] in Hn; lia) Hf Hk Hm).
      destruct (c_term g n e s (plug c (PCall f [])) tr) as [[l' trl] s1]. destruct (c_term g n e s1 r tr) as [[r' trr] s2].
      destruct IH as [A B]. cbn [has_throw]. rewrite A. split; [reflexivity|apply mem_union_l; exact B].
    - rewrite c_alt. destruct (c_term g n e s l []) as [[l' t0] s1].
      specialize (IH n e s1 f fe kinds id tr ltac:(cbn [cdepth] in Hn; lia) Hf Hk Hm).
      destruct (c_term g n e s1 (plug c (PCall f [])) tr) as [[r' tr_] s2]. exact IH.
    - rewrite c_ite. destruct (c_term g n e s i []) as [[i' t0] s1].
      specialize (IH n e s1 f fe kinds id tr ltac:(cbn [cdepth] in Hn; lia) Hf Hk Hm).
      destruct (c_term g n e s1 (plug c (PCall f [])) tr) as [[t' trt] s2]. destruct (c_term g n e s2 el tr) as [[e' tre] s3].
      destruct IH as [A B]. cbn [has_throw]. rewrite A. split; [reflexivity|apply mem_union_l; exact B].
    - rewrite c_ite. destruct (c_term g n e s i []) as [[i' t0] s1]. destruct (c_term g n e s1 th tr) as [[t' trt] s2].
      specialize (IH n e s2 f fe kinds id tr ltac:(cbn [cdepth] in Hn; lia) Hf Hk Hm).
      destruct (c_term g n e s2 (plug c (PCall f [])) tr) as [[e' tre] s3].
      destruct IH as [A B]. cbn [has_throw]. rewrite A, orb_true_r. split; [reflexivity|apply mem_union_r; exact B].
    - rewrite c_foreach. destruct (c_term g n e s xs []) as [[xs' t0] s1]. destruct (c_pattern g n e s1 p) as [pat' s2].
      destruct (c_term g n e s2 init []) as [[init' t1] s3].
      destruct (c_term g n (with_vars (pat_vars_f n p) e) s3 update []) as [[update' t2] s4].
      specialize (IH n (with_vars (pat_vars_f n p) e) s4 f fe kinds id tr ltac:(cbn [cdepth] in Hn; lia)
                     ltac:(rewrite with_vars_funs; exact Hf) Hk Hm).
      destruct (c_term g n (with_vars (pat_vars_f n p) e) s4 (plug c (PCall f [])) tr) as [[proj' tr_] s5]. exact IH.
  Qed.

  (** a call outside the tail contexts is never thrown: when [id] may not be tail-called ([tr] empty there), the call
      expands the thrown calls of the callee instead *)
  Lemma non_tail_call_is_caught e s f fe kinds id n :
    find_fun f 0 (e_funs e) = Some fe -> f_kind fe = FParent kinds id ->
    fst (c_term g (S n) e s (PCall f []) []) = (KCallDef id (binds kinds []) (total e - f_vars fe) CatchAll, []).
  Proof. intros Hf Hk. cbn [c_term]. unfold call, local_call. cbn [length]. rewrite Hf, Hk. reflexivity. Qed.
End Tail.
