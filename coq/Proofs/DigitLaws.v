(** Decimal digits: printing an integer of any size and reading the digits back gives the integer. *)
From Coq Require Import ZArith Bool List Lia.
From Coq Require Import Init.Byte.
From JaqV Require Import Base.Bytes Base.F64 Val.Num.
Import ListNotations.
Local Open Scope Z_scope.

Lemma bz_zb z : 0 <= z < 256 -> bz (zb z) = z.
Proof.
  intros H. unfold bz, zb. destruct (Byte.of_N (Z.to_N z)) as [b|] eqn:E.
  - apply Byte.to_of_N in E. rewrite E. lia.
  - apply Byte.of_N_None_iff in E. lia.
Qed.

Lemma digit_char m : 0 <= m < 10 -> is_digit (zb (48 + m)) = true /\ digit_val (zb (48 + m)) = m.
Proof.
  intros H. unfold is_digit, digit_val. rewrite bz_zb by lia. split; [|lia].
  apply andb_true_intro; split; apply Z.leb_le; lia.
Qed.

Lemma dv_app ds : forall a y, digits_val_acc a (ds ++ y) = digits_val_acc (digits_val_acc a ds) y.
Proof. induction ds as [|d ds IH]; intros a y; [reflexivity|]. cbn [app digits_val_acc]. apply IH. Qed.

Lemma all_digits_app x y : all_digits (x ++ y) = all_digits x && all_digits y.
Proof. unfold all_digits. apply forallb_app. Qed.

(** the digits produced for [z >= 0]: non-empty, all digits, value [z], no leading zero unless [z = 0] *)
Lemma pdf_spec fuel : forall z acc, 0 <= z < 10 ^ Z.of_nat fuel -> (0 < fuel)%nat ->
  exists ds, pos_digits_fuel fuel z acc = ds ++ acc /\ ds <> [] /\ all_digits ds = true /\ digits_val ds = z
             /\ (0 < z -> match ds with d :: _ => 49 <= bz d <= 57 | [] => False end).
Proof.
  induction fuel as [|fuel IH]; intros z acc Hz Hf; [lia|]. cbn [pos_digits_fuel].
  destruct (Z.ltb_spec z 10) as [Hlt|Hge].
  - exists [zb (48 + z)]. destruct (digit_char z ltac:(lia)) as [D V].
    split; [reflexivity|]. split; [discriminate|]. split; [unfold all_digits; cbn [forallb]; rewrite D; reflexivity|].
    split; [unfold digits_val; cbn [digits_val_acc]; lia|]. intros Hp. rewrite bz_zb by lia. lia.
  - assert (Hf' : (0 < fuel)%nat).
    { destruct fuel; [|lia]. cbn in Hz. lia. }
    assert (Hq : 0 <= z / 10 < 10 ^ Z.of_nat fuel).
    { split; [apply Z.div_pos; lia|]. apply Z.div_lt_upper_bound; [lia|].
      rewrite Nat2Z.inj_succ, Z.pow_succ_r in Hz by lia. lia. }
    destruct (IH (z / 10) (zb (48 + z mod 10) :: acc) Hq Hf') as (ds & E & Hne & Hd & Hv & Hh).
    exists (ds ++ [zb (48 + z mod 10)]). rewrite E, <- app_assoc. cbn [app].
    pose proof (Z.mod_pos_bound z 10 ltac:(lia)) as Hm. destruct (digit_char (z mod 10) Hm) as [D V].
    split; [reflexivity|]. repeat split.
    + destruct ds; discriminate.
    + rewrite all_digits_app, Hd. unfold all_digits. cbn [forallb]. rewrite D. reflexivity.
    + unfold digits_val in *. rewrite dv_app, Hv. cbn [digits_val_acc]. rewrite V. pose proof (Z.div_mod z 10 ltac:(lia)). lia.
    + intros _. assert (0 < z / 10) by (apply Z.div_str_pos; lia). specialize (Hh H).
      destruct ds as [|d ds]; [contradiction|]. exact Hh.
Qed.

Lemma nat_digits_spec z : 0 <= z ->
  nat_digits z <> [] /\ all_digits (nat_digits z) = true /\ digits_val (nat_digits z) = z
  /\ (0 < z -> match nat_digits z with d :: _ => 49 <= bz d <= 57 | [] => False end).
Proof.
  intros Hz. unfold nat_digits.
  assert (B : 0 <= z < 10 ^ Z.of_nat (S (Z.to_nat (Z.log2 z)))).
  { split; [lia|]. destruct (Z.eq_dec z 0) as [->|N]; [cbn; lia|].
    pose proof (Z.log2_spec z ltac:(lia)) as [_ H]. pose proof (Z.log2_nonneg z).
    rewrite Nat2Z.inj_succ, Z2Nat.id by lia.
    eapply Z.lt_le_trans; [exact H|]. apply Z.pow_le_mono_l. lia. }
  destruct (pdf_spec _ z [] B ltac:(lia)) as (ds & E & Hne & Hd & Hv & Hh). rewrite E, app_nil_r. auto.
Qed.

Lemma strip_sign_digits ds : all_digits ds = true -> ds <> [] -> strip_sign ds = (false, ds).
Proof.
  destruct ds as [|d r]; [congruence|]. intros H _. cbn in H. apply andb_prop in H as [H _].
  unfold is_digit in H. apply andb_prop in H as [A B]. apply Z.leb_le in A, B. cbn [strip_sign].
  destruct (Z.eqb_spec (bz d) 45); [lia|]. destruct (Z.eqb_spec (bz d) 43); [lia|]. reflexivity.
Qed.

(** printing an integer and reading the literal back *)
Theorem parse_int_dec_print z : parse_int_dec (Z_to_dec z) = Some z.
Proof.
  unfold Z_to_dec, parse_int_dec. destruct (Z.ltb_spec z 0) as [Hn|Hp].
  - destruct (nat_digits_spec (- z) ltac:(lia)) as (Hne & Hd & Hv & _).
    cbn [strip_sign]. change (bz x2d =? 45) with true. cbn iota.
    destruct (nat_digits (- z)) as [|d r] eqn:E; [congruence|]. rewrite Hd, Hv. f_equal. lia.
  - destruct (nat_digits_spec z Hp) as (Hne & Hd & Hv & _).
    rewrite (strip_sign_digits _ Hd Hne). destruct (nat_digits z) as [|d r] eqn:E; [congruence|]. rewrite Hd, Hv. reflexivity.
Qed.

(** an integer of any size, in either representation, survives [Display] then [Num::from_str] *)
Theorem from_str_print z : from_str (Z_to_dec z) = int_or_big z.
Proof. unfold from_str. rewrite parse_int_dec_print. reflexivity. Qed.
