(** Threads that share only an immutable value (the compiled filter, here: the function that gives every thread its
    stream) cannot influence each other: under every interleaving each thread obtains what it obtains alone. *)
From Coq Require Import List Arith Lia.
From JaqV Require Import Base.Stream.
Import ListNotations.

Section Threads.
  Variable A : Type.

  (** one execution in progress: what remains to be produced, what has been produced, how it ended *)
  Record thr := { t_rest : str A; t_out : list A; t_fin : option fin }.

  (** one step of a thread: pull the next item of its own stream *)
  Definition pull (t : thr) : thr :=
    match t_fin t with
    | Some _ => t
    | None =>
        match t_rest t with
        | SCons x k => {| t_rest := k tt; t_out := t_out t ++ [x]; t_fin := None |}
        | SNil => {| t_rest := SNil; t_out := t_out t; t_fin := Some FEnd |}
        | SExn e => {| t_rest := SNil; t_out := t_out t; t_fin := Some (FExn e) |}
        | SBot => {| t_rest := SNil; t_out := t_out t; t_fin := Some FBot |}
        | SUnk => {| t_rest := SNil; t_out := t_out t; t_fin := Some FUnk |}
        end
    end.

  (** the scheduler lets thread [i] make one step *)
  Fixpoint step (ts : list thr) (i : nat) : list thr :=
    match ts, i with
    | [], _ => []
    | t :: r, O => pull t :: r
    | t :: r, S i => t :: step r i
    end.

  (** what a thread will have yielded in the end *)
  Definition result (t : thr) : list A * fin :=
    match t_fin t with
    | Some f => (t_out t, f)
    | None => let '(l, f) := collect (t_rest t) in (t_out t ++ l, f)
    end.

  Lemma pull_result t : result (pull t) = result t.
  Proof.
    unfold pull, result. destruct (t_fin t) as [f|] eqn:E; [rewrite E; reflexivity|].
    destruct (t_rest t) as [|x k|e| |]; cbn [t_fin t_out t_rest collect]; try (rewrite app_nil_r; reflexivity).
    destruct (collect (k tt)) as [l f]. rewrite <- app_assoc. reflexivity.
  Qed.

  Lemma step_result ts : forall i, map result (step ts i) = map result ts.
  Proof.
    induction ts as [|t r IH]; intros i; [reflexivity|]. destruct i as [|i]; cbn [step map].
    - rewrite pull_result. reflexivity.
    - rewrite IH. reflexivity.
  Qed.

  (** whatever the schedule, the final results are those of the isolated runs *)
  Theorem schedule_independent (sched : list nat) : forall ts, map result (fold_left step sched ts) = map result ts.
  Proof.
    induction sched as [|i sched IH]; intros ts; [reflexivity|]. cbn [fold_left]. rewrite IH. apply step_result.
  Qed.

  (** started on the streams [f x] of a shared function [f] (the compiled filter run on the thread's own input), every
      thread's final result is [collect (f x)] - the isolated run *)
  Definition start (f : nat -> str A) (n : nat) : list thr :=
    map (fun i => {| t_rest := f i; t_out := []; t_fin := None |}) (seq 0 n).

  Theorem concurrent_is_isolated (f : nat -> str A) n sched :
    map result (fold_left step sched (start f n)) = map (fun i => collect (f i)) (seq 0 n).
  Proof.
    rewrite schedule_independent. unfold start. rewrite map_map. apply map_ext. intros i.
    unfold result. cbn [t_fin t_rest t_out]. destruct (collect (f i)) as [l fi]. reflexivity.
  Qed.

  (** and a thread that has been scheduled often enough has finished: nothing is lost *)
  Lemma pull_progress t : t_fin t = None -> t_fin (pull t) <> None \/ length (t_out (pull t)) = S (length (t_out t)).
  Proof.
    intros E. unfold pull. rewrite E. destruct (t_rest t); cbn; try (left; discriminate). right. rewrite app_length. cbn. lia.
  Qed.
End Threads.
