(** C08/C12: `bsearch($x)` (jaq-json/src/funs.rs: `a.binary_search(&x)`, the branch-free binary search of the standard
    library, modelled in Std/Natives.v as [bs_loop]/[bsearch]).  On an array that is sorted by the order of values a
    non-negative result is the position of an element equal to $x, there is one whenever $x occurs, and a negative result
    -1 - r names the insertion point. *)
From Coq Require Import ZArith Bool List Lia ZifyBool ZifyNat Sorting.Sorted.
From JaqV Require Import Base.Bytes Base.Stream Val.Num Val.Val Val.Err Std.Natives Proofs.ValOrder.
Import ListNotations.
Ltac Zify.zify_post_hook ::= Z.div_mod_to_equations.

Lemma bsearch_unfold a x : a <> [] ->
  bsearch a x = let base := bs_loop (length a) a x 0 (length a) in
                match val_cmp (nth base a Null) x with
                | Eq => Z.of_nat base
                | Lt => (-1 - Z.of_nat (base + 1))%Z
                | Gt => (-1 - Z.of_nat base)%Z
                end.
Proof. intros H. destruct a; [congruence|reflexivity]. Qed.

Section BS.
  Variable a : list val.
  Variable x : val.
  Let cmp (i : nat) : comparison := val_cmp (nth i a Null) x.
  (** the array is sorted as far as [x] can tell: smaller elements, then equal ones, then greater ones *)
  Hypothesis below : forall i j, (i <= j < length a)%nat -> cmp j = Lt -> cmp i = Lt.
  Hypothesis above : forall i j, (i <= j < length a)%nat -> cmp i = Gt -> cmp j = Gt.

  Definition inv (base size : nat) : Prop :=
    (1 <= size)%nat /\ (base + size <= length a)%nat
    /\ (forall i, (i < base)%nat -> cmp i <> Gt)
    /\ (forall i, (base + size <= i < length a)%nat -> cmp i = Gt)
    /\ (base = 0%nat \/ cmp base <> Gt).

  Lemma loop_inv : forall fuel base size, (size <= fuel)%nat -> inv base size -> inv (bs_loop fuel a x base size) 1.
  Proof.
    induction fuel as [|fuel IH]; intros base size Hf (H1 & H2 & H3 & H4 & H5); [lia|].
    cbn [bs_loop]. destruct (Nat.leb_spec size 1) as [L|L].
    { assert (size = 1%nat) by lia. subst size. repeat split; assumption. }
    set (half := (size / 2)%nat). set (mid := (base + half)%nat).
    assert (Hh : (1 <= half /\ half < size /\ size - half <= fuel)%nat) by (unfold half; lia).
    fold (cmp mid). destruct (cmp mid) eqn:Cm; apply IH; try lia.
    - (* Eq: move to mid *) repeat split; try lia.
      + intros i Hi E. assert (cmp mid = Gt) by (apply (above i mid); [unfold mid in *; lia|exact E]). congruence.
      + intros i Hi. apply H4. unfold mid in *. lia.
      + right. congruence.
    - (* Lt *) repeat split; try lia.
      + intros i Hi E. assert (cmp mid = Gt) by (apply (above i mid); [unfold mid in *; lia|exact E]). congruence.
      + intros i Hi. apply H4. unfold mid in *. lia.
      + right. congruence.
    - (* Gt: stay *) repeat split; try lia; try assumption.
      intros i Hi. apply (above mid i); [unfold mid in *; lia|exact Cm].
  Qed.

  Hypothesis nonempty : a <> [].

  Lemma final_inv : inv (bs_loop (length a) a x 0 (length a)) 1.
  Proof.
    apply loop_inv; [lia|]. assert (1 <= length a)%nat by (destruct a; [congruence|cbn; lia]).
    repeat split; try lia.
  Qed.

  (** found: the element at the returned position equals [x] (no assumption on the order is needed for this) *)
  Theorem bsearch_found z : (0 <= z)%Z -> bsearch a x = z -> cmp (Z.to_nat z) = Eq /\ (Z.to_nat z < length a)%nat.
  Proof.
    rewrite (bsearch_unfold a x nonempty). cbv zeta.
    destruct final_inv as (_ & B & _). fold (cmp (bs_loop (length a) a x 0 (length a))).
    destruct (cmp (bs_loop (length a) a x 0 (length a))) eqn:C; intros Hz E; try lia.
    subst z. rewrite Nat2Z.id. split; [exact C|lia].
  Qed.

  (** not found: the result encodes the insertion point - everything before it is smaller, everything from it on greater,
      so [x] does not occur *)
  Theorem bsearch_absent r : bsearch a x = (-1 - Z.of_nat r)%Z ->
    (r <= length a)%nat /\ (forall i, (i < r)%nat -> cmp i = Lt) /\ (forall i, (r <= i < length a)%nat -> cmp i = Gt).
  Proof.
    rewrite (bsearch_unfold a x nonempty). cbv zeta.
    destruct final_inv as (_ & B & I3 & I4 & I5). set (b := bs_loop (length a) a x 0 (length a)) in *. fold (cmp b).
    destruct (cmp b) eqn:C; intros E; try lia.
    - (* Lt: insertion after b *)
      assert (r = (b + 1)%nat) by lia. subst r. split; [lia|]. split.
      + intros i Hi. apply (below i b); [lia|exact C].
      + intros i Hi. apply I4. lia.
    - (* Gt: b never moved *)
      assert (r = b) by lia. subst r. destruct I5 as [Z0|N]; [|congruence]. split; [lia|]. split; [intros i Hi; lia|].
      intros i Hi. apply (above b i); [lia|exact C].
  Qed.

  (** hence an element equal to [x] is found whenever there is one *)
  Corollary bsearch_complete i : (i < length a)%nat -> cmp i = Eq -> (0 <= bsearch a x)%Z.
  Proof.
    intros Hi E. destruct (Z_lt_le_dec (bsearch a x) 0) as [Neg|]; [|assumption]. exfalso.
    destruct (bsearch_absent (Z.to_nat (-1 - bsearch a x))) as (R & L & G); [rewrite Z2Nat.id by lia; lia|].
    destruct (Nat.lt_ge_cases i (Z.to_nat (-1 - bsearch a x))) as [Hl|Hg].
    - specialize (L i Hl). congruence.
    - specialize (G i ltac:(lia)). congruence.
  Qed.
End BS.

(** ** on a sorted array *)

Lemma sorted_nth {A} (R : A -> A -> Prop) (d : A) l : StronglySorted R l -> forall i j, (i < j < length l)%nat -> R (nth i l d) (nth j l d).
Proof.
  induction 1 as [|a l Hs IH Hall]; intros i j Hij; [cbn in Hij; lia|].
  destruct j as [|j]; [lia|]. destruct i as [|i].
  - cbn [nth]. rewrite Forall_forall in Hall. apply Hall. apply nth_In. cbn [length] in Hij. lia.
  - cbn [nth]. apply IH. cbn [length] in Hij. lia.
Qed.

Section SORTED.
  Variable P : val -> Prop.
  Hypothesis T : tpo val_cmp P.
  Variable a : list val.
  Variable x : val.
  Hypothesis Pa : Forall P a.
  Hypothesis Px : P x.
  Hypothesis sorted : StronglySorted (fun u v => val_cmp u v <> Gt) a.

  Lemma Pnth i : (i < length a)%nat -> P (nth i a Null).
  Proof. intros H. rewrite Forall_forall in Pa. apply Pa. apply nth_In. exact H. Qed.

  Lemma le_nth i j : (i <= j < length a)%nat -> val_cmp (nth i a Null) (nth j a Null) <> Gt.
  Proof.
    intros H. destruct (Nat.eq_dec i j) as [->|N].
    - rewrite (tp_refl _ _ T) by (apply Pnth; lia). discriminate.
    - apply (sorted_nth _ Null a sorted). lia.
  Qed.

  Lemma sorted_below i j : (i <= j < length a)%nat -> val_cmp (nth j a Null) x = Lt -> val_cmp (nth i a Null) x = Lt.
  Proof.
    intros H Ej. pose proof (Pnth i ltac:(lia)) as Pi. pose proof (Pnth j ltac:(lia)) as Pj.
    destruct (val_cmp (nth i a Null) x) eqn:Ei; [exfalso| reflexivity |exfalso].
    - (* x <= a_i <= a_j, so x <= a_j, but a_j < x *)
      assert (X : val_cmp x (nth j a Null) <> Gt).
      { apply (tp_le _ _ T x (nth i a Null) (nth j a Null) Px Pi Pj); [|apply le_nth; exact H].
        rewrite (tp_anti _ _ T (nth i a Null) x Pi Px), Ei. discriminate. }
      rewrite (tp_anti _ _ T (nth j a Null) x Pj Px), Ej in X. cbn in X. congruence.
    - assert (X : val_cmp x (nth j a Null) <> Gt).
      { apply (tp_le _ _ T x (nth i a Null) (nth j a Null) Px Pi Pj); [|apply le_nth; exact H].
        rewrite (tp_anti _ _ T (nth i a Null) x Pi Px), Ei. discriminate. }
      rewrite (tp_anti _ _ T (nth j a Null) x Pj Px), Ej in X. cbn in X. congruence.
  Qed.

  Lemma sorted_above i j : (i <= j < length a)%nat -> val_cmp (nth i a Null) x = Gt -> val_cmp (nth j a Null) x = Gt.
  Proof.
    intros H Ei. pose proof (Pnth i ltac:(lia)) as Pi. pose proof (Pnth j ltac:(lia)) as Pj.
    destruct (val_cmp (nth j a Null) x) eqn:Ej; [exfalso|exfalso|reflexivity].
    - assert (X : val_cmp (nth i a Null) x <> Gt).
      { apply (tp_le _ _ T (nth i a Null) (nth j a Null) x Pi Pj Px); [apply le_nth; exact H|rewrite Ej; discriminate]. }
      congruence.
    - assert (X : val_cmp (nth i a Null) x <> Gt).
      { apply (tp_le _ _ T (nth i a Null) (nth j a Null) x Pi Pj Px); [apply le_nth; exact H|rewrite Ej; discriminate]. }
      congruence.
  Qed.

  (** `bsearch($x)` on a sorted array: a non-negative result is the position of an element equal to $x, and there is one
      whenever $x occurs; a negative result -1 - r names the insertion point r: everything before it is smaller, everything
      from it on greater *)
  Theorem bsearch_sorted : a <> [] ->
    (forall z, (0 <= z)%Z -> bsearch a x = z -> val_cmp (nth (Z.to_nat z) a Null) x = Eq /\ (Z.to_nat z < length a)%nat)
    /\ (forall i, (i < length a)%nat -> val_cmp (nth i a Null) x = Eq -> (0 <= bsearch a x)%Z)
    /\ (forall r, bsearch a x = (-1 - Z.of_nat r)%Z ->
          (r <= length a)%nat /\ (forall i, (i < r)%nat -> val_cmp (nth i a Null) x = Lt)
          /\ (forall i, (r <= i < length a)%nat -> val_cmp (nth i a Null) x = Gt)).
  Proof.
    intros Hne. split; [|split].
    - intros z Hz E. exact (bsearch_found a x sorted_below sorted_above Hne z Hz E).
    - intros i Hi E. exact (bsearch_complete a x sorted_below sorted_above Hne i Hi E).
    - intros r E. exact (bsearch_absent a x sorted_below sorted_above Hne r E).
  Qed.
End SORTED.

Example bsearch_examples :
  bsearch [vint 1; vint 3; vint 5] (vint 3) = 1%Z /\ bsearch [vint 1; vint 3; vint 5] (vint 4) = (-3)%Z
  /\ bsearch [vint 1; vint 3; vint 5] (vint 0) = (-1)%Z /\ bsearch [vint 1; vint 3; vint 5] (vint 9) = (-4)%Z /\ bsearch [] (vint 1) = (-1)%Z.
Proof. repeat split. Qed.
