(** C14, CBOR floats: a number written in the shortest of binary16 / binary32 that holds it exactly is read back as the
    very same binary64 pattern ([short_float] / [long_float] of Fmts/Cbor.v = `f16::from_f64`, `as f32`, `f64::from` of
    ciborium-ll's header layer) - zeros, sub-normal and normal numbers, infinities and quiet NaNs with their payload. *)
From Coq Require Import ZArith Bool List Lia.
From JaqV Require Import Base.F64 Base.Bytes Fmts.Cbor.
Local Open Scope Z_scope.
Ltac Zify.zify_post_hook ::= Z.div_mod_to_equations.

(** decomposition of a binary64 pattern *)
Lemma f64_fields b : 0 <= b < two64 ->
  let s := if f_sign b then 1 else 0 in
  b = s * two63 + f_exp b * two52 + f_man b /\ 0 <= f_exp b < 2048 /\ 0 <= f_man b < two52 /\ (s = 0 \/ s = 1).
Proof.
  intros Hb. unfold f_sign, f_exp, f_man, two64, two63, two52 in *.
  destruct (Z.leb_spec 9223372036854775808 b); cbv zeta; lia.
Qed.

(** the sub-normal numbers of a short format: [P = 2^sh], [Q = 2^(52-sh)] *)
Lemma subnormal_back m P Q x : 0 < P -> 0 < Q -> P * Q = two52 -> 0 <= m < two52 -> (two52 + m) mod P = 0 -> x = (two52 + m) / P ->
  Q <= x < 2 * Q /\ (x - Q) * P = m.
Proof.
  intros HP HQ E Hm Hd Hx.
  assert (D : two52 + m = P * x) by (subst x; pose proof (Z.div_mod (two52 + m) P ltac:(lia)); lia).
  split; [|nia]. split; nia.
Qed.

Lemma some_inj (a b : Z) : Some a = Some b -> a = b.
Proof. intros [= E]. exact E. Qed.

Lemma half_back b h : 0 <= b < two64 -> short_float 15 10 b = Some h -> 0 <= h < 65536 /\ long_float 15 10 h = Some b.
Proof.
  intros Hb. destruct (f64_fields b Hb) as (Eb & He & Hm & Hs). cbv zeta in Eb.
  unfold short_float, long_float.
  set (s := if f_sign b then 1 else 0) in *. set (e := f_exp b) in *. set (m := f_man b) in *. clearbody s e m.
  change (2 * 15 + 1) with 31. change (Z.log2 (31 + 1)) with 5. change (10 + 5) with 15. change (52 - 10) with 42. change (10 - 1) with 9.
  change (31 + 1) with 32. change (2 ^ 15) with 32768. change (2 ^ 10) with 1024. change (2 ^ 42) with 4398046511104. change (2 ^ 51) with 2251799813685248. change (2 ^ 9) with 512.
  unfold two52, two63, two64 in *.
  destruct (Z.eqb_spec e 2047) as [E1|E1].
  { destruct (Z.eqb_spec m 0) as [M0|M0].
    - intros [= Eh]. split; [lia|].
      assert (A1 : (h / 1024) mod 32 = 31) by lia. assert (A2 : h mod 1024 = 0) by lia. assert (A3 : h / 32768 = s) by lia.
      rewrite A1, A2, A3. cbn [Z.eqb Pos.eqb]. f_equal. lia.
    - destruct (Z.eqb_spec (m mod 4398046511104) 0) as [M1|M1]; [|discriminate].
      destruct (Z.eqb_spec (m / 2251799813685248) 1) as [M2|M2]; [|discriminate].
      cbn [andb]. intros [= Eh]. split; [lia|].
      assert (A1 : (h / 1024) mod 32 = 31) by lia. assert (A2 : h mod 1024 = m / 4398046511104) by lia. assert (A3 : h / 32768 = s) by lia.
      rewrite A1, A2, A3. cbn [Z.eqb Pos.eqb].
      destruct (Z.eqb_spec (m / 4398046511104) 0) as [M3|M3]; [lia|].
      assert (A4 : m / 4398046511104 / 512 = 1) by lia. rewrite A4. cbn [Z.eqb Pos.eqb]. f_equal. lia. }
  destruct (Z.eqb_spec e 0) as [E0|E0].
  { destruct (Z.eqb_spec m 0) as [M0|M0]; [|discriminate]. intros [= Eh]. split; [lia|].
    assert (A1 : (h / 1024) mod 32 = 0) by lia. assert (A2 : h mod 1024 = 0) by lia. assert (A3 : h / 32768 = s) by lia.
    rewrite A1, A2, A3. cbn [Z.eqb Pos.eqb]. f_equal. lia. }
  destruct (Z.leb_spec (1 - 15) (e - 1023)) as [L1|L1]; destruct (Z.leb_spec (e - 1023) 15) as [L2|L2]; cbn [andb].
  - (* normal *)
    destruct (Z.eqb_spec (m mod 4398046511104) 0) as [M1|M1]; [|discriminate]. intros [= Eh]. split; [lia|].
    assert (A1 : (h / 1024) mod 32 = e - 1023 + 15) by lia. assert (A2 : h mod 1024 = m / 4398046511104) by lia. assert (A3 : h / 32768 = s) by lia.
    rewrite A1, A2, A3.
    destruct (Z.eqb_spec (e - 1023 + 15) 31); [lia|]. destruct (Z.eqb_spec (e - 1023 + 15) 0); [lia|].
    f_equal. lia.
  - destruct (Z.ltb_spec (e - 1023) (1 - 15)); [lia|discriminate].
  - (* sub-normal *)
    destruct (Z.ltb_spec (e - 1023) (1 - 15)) as [_|]; [|lia].
    set (sh := 42 + (1 - 15) - (e - 1023)).
    destruct (Z.eqb_spec ((4503599627370496 + m) mod 2 ^ sh) 0) as [M1|M1]; [|discriminate]. intros Eh. apply some_inj in Eh.
    assert (Hsh : 0 < sh) by (unfold sh; lia).
    assert (Hsh2 : sh <= 52).
    { destruct (Z.le_gt_cases sh 52) as [|G]; [assumption|exfalso].
      assert (2 ^ 53 <= 2 ^ sh) by (apply Z.pow_le_mono_r; lia). change (2 ^ 53) with 9007199254740992 in *.
      rewrite Z.mod_small in M1 by lia. lia. }
    set (P := 2 ^ sh) in *. set (Q := 2 ^ (52 - sh)).
    assert (PQ : P * Q = two52). { unfold P, Q. rewrite <- Z.pow_add_r by lia. replace (sh + (52 - sh)) with 52 by lia. reflexivity. }
    assert (HP : 0 < P) by (apply Z.pow_pos_nonneg; lia). assert (HQ : 0 < Q) by (apply Z.pow_pos_nonneg; lia).
    set (x := (4503599627370496 + m) / P) in *.
    destruct (subnormal_back m P Q x HP HQ PQ ltac:(unfold two52; lia) M1 eq_refl) as ((X1 & X2) & X3).
    assert (QB : Q <= 512).
    { unfold Q. change 512 with (2 ^ 9). apply Z.pow_le_mono_r; [lia|]. unfold sh. lia. }
    clearbody x. split; [lia|].
    assert (A1 : (h / 1024) mod 32 = 0) by lia. assert (A2 : h mod 1024 = x) by lia. assert (A3 : h / 32768 = s) by lia.
    rewrite A1, A2, A3. cbn [Z.eqb].
    destruct (Z.eqb_spec x 0); [lia|].
    assert (LG : Z.log2 x = 52 - sh).
    { apply Z.log2_unique; [lia|]. fold Q. replace (52 - sh + 1) with (Z.succ (52 - sh)) by lia. rewrite Z.pow_succ_r by lia. fold Q. lia. }
    rewrite LG. fold Q. replace (52 - (52 - sh)) with sh by lia. fold P.
    f_equal. rewrite X3. unfold sh. lia.
  - lia.
Qed.

Lemma single_back b h : 0 <= b < two64 -> short_float 127 23 b = Some h -> 0 <= h < 4294967296 /\ long_float 127 23 h = Some b.
Proof.
  intros Hb. destruct (f64_fields b Hb) as (Eb & He & Hm & Hs). cbv zeta in Eb.
  unfold short_float, long_float.
  set (s := if f_sign b then 1 else 0) in *. set (e := f_exp b) in *. set (m := f_man b) in *. clearbody s e m.
  change (2 * 127 + 1) with 255. change (Z.log2 (255 + 1)) with 8. change (23 + 8) with 31. change (52 - 23) with 29. change (23 - 1) with 22.
  change (255 + 1) with 256. change (2 ^ 31) with 2147483648. change (2 ^ 23) with 8388608. change (2 ^ 29) with 536870912. change (2 ^ 51) with 2251799813685248. change (2 ^ 22) with 4194304.
  unfold two52, two63, two64 in *.
  destruct (Z.eqb_spec e 2047) as [E1|E1].
  { destruct (Z.eqb_spec m 0) as [M0|M0].
    - intros [= Eh]. split; [lia|].
      assert (A1 : (h / 8388608) mod 256 = 255) by lia. assert (A2 : h mod 8388608 = 0) by lia. assert (A3 : h / 2147483648 = s) by lia.
      rewrite A1, A2, A3. cbn [Z.eqb Pos.eqb]. f_equal. lia.
    - destruct (Z.eqb_spec (m mod 536870912) 0) as [M1|M1]; [|discriminate].
      destruct (Z.eqb_spec (m / 2251799813685248) 1) as [M2|M2]; [|discriminate].
      cbn [andb]. intros [= Eh]. split; [lia|].
      assert (A1 : (h / 8388608) mod 256 = 255) by lia. assert (A2 : h mod 8388608 = m / 536870912) by lia. assert (A3 : h / 2147483648 = s) by lia.
      rewrite A1, A2, A3. cbn [Z.eqb Pos.eqb].
      destruct (Z.eqb_spec (m / 536870912) 0) as [M3|M3]; [lia|].
      assert (A4 : m / 536870912 / 4194304 = 1) by lia. rewrite A4. cbn [Z.eqb Pos.eqb]. f_equal. lia. }
  destruct (Z.eqb_spec e 0) as [E0|E0].
  { destruct (Z.eqb_spec m 0) as [M0|M0]; [|discriminate]. intros [= Eh]. split; [lia|].
    assert (A1 : (h / 8388608) mod 256 = 0) by lia. assert (A2 : h mod 8388608 = 0) by lia. assert (A3 : h / 2147483648 = s) by lia.
    rewrite A1, A2, A3. cbn [Z.eqb Pos.eqb]. f_equal. lia. }
  destruct (Z.leb_spec (1 - 127) (e - 1023)) as [L1|L1]; destruct (Z.leb_spec (e - 1023) 127) as [L2|L2]; cbn [andb].
  - (* normal *)
    destruct (Z.eqb_spec (m mod 536870912) 0) as [M1|M1]; [|discriminate]. intros [= Eh]. split; [lia|].
    assert (A1 : (h / 8388608) mod 256 = e - 1023 + 127) by lia. assert (A2 : h mod 8388608 = m / 536870912) by lia. assert (A3 : h / 2147483648 = s) by lia.
    rewrite A1, A2, A3.
    destruct (Z.eqb_spec (e - 1023 + 127) 255); [lia|]. destruct (Z.eqb_spec (e - 1023 + 127) 0); [lia|].
    f_equal. lia.
  - destruct (Z.ltb_spec (e - 1023) (1 - 127)); [lia|discriminate].
  - (* sub-normal *)
    destruct (Z.ltb_spec (e - 1023) (1 - 127)) as [_|]; [|lia].
    set (sh := 29 + (1 - 127) - (e - 1023)).
    destruct (Z.eqb_spec ((4503599627370496 + m) mod 2 ^ sh) 0) as [M1|M1]; [|discriminate]. intros Eh. apply some_inj in Eh.
    assert (Hsh : 0 < sh) by (unfold sh; lia).
    assert (Hsh2 : sh <= 52).
    { destruct (Z.le_gt_cases sh 52) as [|G]; [assumption|exfalso].
      assert (2 ^ 53 <= 2 ^ sh) by (apply Z.pow_le_mono_r; lia). change (2 ^ 53) with 9007199254740992 in *.
      rewrite Z.mod_small in M1 by lia. lia. }
    set (P := 2 ^ sh) in *. set (Q := 2 ^ (52 - sh)).
    assert (PQ : P * Q = two52). { unfold P, Q. rewrite <- Z.pow_add_r by lia. replace (sh + (52 - sh)) with 52 by lia. reflexivity. }
    assert (HP : 0 < P) by (apply Z.pow_pos_nonneg; lia). assert (HQ : 0 < Q) by (apply Z.pow_pos_nonneg; lia).
    set (x := (4503599627370496 + m) / P) in *.
    destruct (subnormal_back m P Q x HP HQ PQ ltac:(unfold two52; lia) M1 eq_refl) as ((X1 & X2) & X3).
    assert (QB : Q <= 4194304).
    { unfold Q. change 4194304 with (2 ^ 22). apply Z.pow_le_mono_r; [lia|]. unfold sh. lia. }
    clearbody x. split; [lia|].
    assert (A1 : (h / 8388608) mod 256 = 0) by lia. assert (A2 : h mod 8388608 = x) by lia. assert (A3 : h / 2147483648 = s) by lia.
    rewrite A1, A2, A3. cbn [Z.eqb].
    destruct (Z.eqb_spec x 0); [lia|].
    assert (LG : Z.log2 x = 52 - sh).
    { apply Z.log2_unique; [lia|]. fold Q. replace (52 - sh + 1) with (Z.succ (52 - sh)) by lia. rewrite Z.pow_succ_r by lia. fold Q. lia. }
    rewrite LG. fold Q. replace (52 - (52 - sh)) with sh by lia. fold P.
    f_equal. rewrite X3. unfold sh. lia.
  - lia.
Qed.

Lemma short_floats_exact b h : 0 <= b < two64 ->
  (short_float 15 10 b = Some h -> 0 <= h < 65536 /\ long_float 15 10 h = Some b) /\
  (short_float 127 23 b = Some h -> 0 <= h < 4294967296 /\ long_float 127 23 h = Some b).
Proof. intros Hb. split; [apply half_back|apply single_back]; exact Hb. Qed.

(** non-vacuity: 1.5 fits binary16, 100000.0 binary32 only, 0.1 neither; the smallest sub-normal of binary16 *)
Example short_float_examples :
  short_float 15 10 4609434218613702656 = Some 15872 /\ short_float 15 10 4681608360884174848 = None
  /\ short_float 127 23 4681608360884174848 = Some 1203982336 /\ short_float 127 23 4591870180066957722 = None
  /\ short_float 15 10 4499096027743125504 = Some 1.
Proof. vm_compute. repeat split. Qed.
