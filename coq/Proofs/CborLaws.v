(** C14, CBOR: reading what the writer wrote yields the value, for every value of the class [cb] (null, booleans, machine
    integers, big integers of any size, floats - every binary64 pattern, written in the shortest of the three widths that
    holds it exactly (Proofs/CborFloat.v) -, byte strings, valid UTF-8 text, arrays and objects of such values with any such
    values as keys), whatever follows in the input; a decimal literal comes back as the float it denotes. *)
From Coq Require Import ZArith Bool List Lia.
From Coq Require Import Init.Byte.
From JaqV Require Import Base.F64 Base.Bytes Val.Num Val.Val Val.Utf8 Val.Err Fmts.Cbor Proofs.DigitLaws Proofs.SafeLaws Proofs.JsonValue Proofs.CborFloat.
Import ListNotations.
Local Open Scope Z_scope.

(** ** big-endian numbers *)
Lemma be_length n z : length (be n z) = n.
Proof. induction n as [|n IH]; cbn [be length]; [reflexivity|]. rewrite IH. reflexivity. Qed.

Lemma be_val_acc_be n : forall z acc, 0 <= z -> be_val_acc acc (be n z) = acc * 256 ^ Z.of_nat n + z mod 256 ^ Z.of_nat n.
Proof.
  induction n as [|n IH]; intros z acc Hz.
  - cbn [be be_val_acc]. change (256 ^ Z.of_nat 0) with 1. rewrite Z.mod_1_r. lia.
  - cbn [be be_val_acc]. rewrite IH by exact Hz.
    assert (P : 0 < 256 ^ Z.of_nat n) by (apply Z.pow_pos_nonneg; lia).
    rewrite bz_zb by (apply Z.mod_pos_bound; lia).
    replace (Z.of_nat (S n)) with (Z.of_nat n + 1) by lia. rewrite Z.pow_add_r by lia. change (256 ^ 1) with 256.
    rewrite (Z.rem_mul_r z (256 ^ Z.of_nat n) 256) by lia. lia.
Qed.

Lemma be_val_be n z : 0 <= z < 256 ^ Z.of_nat n -> be_val (be n z) = z.
Proof. intros H. unfold be_val. rewrite be_val_acc_be by lia. rewrite Z.mod_small by lia. lia. Qed.

Lemma byte_len_bound z : 0 < z -> z < 256 ^ Z.of_nat (byte_len z).
Proof.
  intros Hz. unfold byte_len. pose proof (Z.log2_nonneg z) as L0.
  rewrite Z2Nat.id by (pose proof (Z.div_pos (Z.log2 z) 8); lia).
  change 256 with (2 ^ 8). rewrite <- Z.pow_mul_r by (pose proof (Z.div_pos (Z.log2 z) 8); lia).
  pose proof (Z.log2_spec z Hz) as [_ Hs].
  eapply Z.lt_le_trans; [exact Hs|]. apply Z.pow_le_mono_r; [lia|].
  pose proof (Z.mul_succ_div_gt (Z.log2 z) 8). lia.
Qed.

Lemma to_bytes_be_val z : 0 <= z -> be_val (to_bytes_be z) = z.
Proof.
  intros Hz. unfold to_bytes_be. destruct (Z.leb_spec z 0) as [H0|H0].
  - assert (z = 0) by lia. subst z. reflexivity.
  - apply be_val_be. split; [lia|apply byte_len_bound; exact H0].
Qed.

(** ** taking bytes *)
Lemma take_app (a rest : bytes) : take (Z.of_nat (length a)) (a ++ rest) = Some (a, rest).
Proof.
  unfold take. rewrite app_length. destruct (Z.ltb_spec (Z.of_nat (length a + length rest)) (Z.of_nat (length a))) as [H|H]; [lia|].
  rewrite Nat2Z.id. rewrite firstn_app, Nat.sub_diag, firstn_all, skipn_app, Nat.sub_diag, skipn_all. cbn [firstn skipn]. rewrite !app_nil_r. reflexivity.
Qed.

(** ** headers *)
Definition two64z : Z := 18446744073709551616.

Lemma first_byte major x : 0 <= major < 8 -> 0 <= x < 32 ->
  bz (zb (major * 32 + x)) / 32 = major /\ bz (zb (major * 32 + x)) mod 32 = x.
Proof.
  intros Hm Hx. rewrite bz_zb by lia. split.
  - rewrite Z.div_add_l by lia. rewrite Z.div_small by lia. lia.
  - rewrite Z.add_comm, Z.mod_add by lia. apply Z.mod_small. lia.
Qed.

Lemma title_head major arg rest : 0 <= major < 8 -> 0 <= arg < two64z ->
  exists w, title (head major arg ++ rest) = DOk (major, Some arg, w) rest.
Proof.
  intros Hm Ha. unfold head.
  destruct (Z.leb_spec arg 23) as [H1|H1].
  { exists 0%nat. cbn [app title]. destruct (first_byte major arg Hm) as [-> ->]; [lia|].
    destruct (Z.ltb_spec arg 24); [reflexivity|lia]. }
  assert (W : forall (w : nat) (code : Z), 24 <= code <= 27 ->
            w = (if code =? 24 then 1%nat else if code =? 25 then 2%nat else if code =? 26 then 4%nat else 8%nat) ->
            arg < 256 ^ Z.of_nat w ->
            title ((zb (major * 32 + code) :: be w arg) ++ rest) = DOk (major, Some arg, w) rest).
  { intros w code Hc Hw Hlt. cbn [app title]. destruct (first_byte major code Hm) as [-> ->]; [lia|].
    destruct (Z.ltb_spec code 24); [lia|]. destruct (Z.eqb_spec code 31); [lia|]. destruct (Z.leb_spec 28 code); [lia|].
    rewrite <- Hw. rewrite <- (be_length w arg) at 1. rewrite take_app. rewrite be_val_be by lia. reflexivity. }
  destruct (Z.leb_spec arg 255) as [H2|H2]; [exists 1%nat; apply (W 1%nat 24); [lia|reflexivity|cbn; lia]|].
  destruct (Z.leb_spec arg 65535) as [H3|H3]; [exists 2%nat; apply (W 2%nat 25); [lia|reflexivity|cbn; lia]|].
  destruct (Z.leb_spec arg 4294967295) as [H4|H4]; [exists 4%nat; apply (W 4%nat 26); [lia|reflexivity|cbn; lia]|].
  exists 8%nat. apply (W 8%nat 27); [lia|reflexivity|]. unfold two64z in Ha. cbn. lia.
Qed.

Lemma title_wide major code (w : nat) arg rest : 0 <= major < 8 -> 24 <= code <= 27 ->
  w = (if code =? 24 then 1%nat else if code =? 25 then 2%nat else if code =? 26 then 4%nat else 8%nat) ->
  0 <= arg < 256 ^ Z.of_nat w ->
  title ((zb (major * 32 + code) :: be w arg) ++ rest) = DOk (major, Some arg, w) rest.
Proof.
  intros Hm Hc Hw Hlt. cbn [app title]. destruct (first_byte major code Hm) as [-> ->]; [lia|].
  destruct (Z.ltb_spec code 24); [lia|]. destruct (Z.eqb_spec code 31); [lia|]. destruct (Z.leb_spec 28 code); [lia|].
  rewrite <- Hw. rewrite <- (be_length w arg) at 1. rewrite take_app. rewrite be_val_be by lia. reflexivity.
Qed.

(** a float item: the shortest width that holds the number is read back as the number *)
Lemma float_item b fuel rest : 0 <= b < two64 -> parse (S fuel) (enc_float b ++ rest) = DOk (Num (Flt b)) rest.
Proof.
  intros Hb. unfold enc_float.
  destruct (short_float 15 10 b) as [h|] eqn:E16.
  { destruct (half_back b h Hb E16) as [Hh L]. cbn [parse]. change (zb 249) with (zb (7 * 32 + 25)).
    rewrite (title_wide 7 25 2 h rest); [|lia|lia|reflexivity|cbn; lia]. cbn [Z.eqb Pos.eqb]. rewrite L. reflexivity. }
  destruct (short_float 127 23 b) as [h|] eqn:E32.
  { destruct (single_back b h Hb E32) as [Hh L]. cbn [parse]. change (zb 250) with (zb (7 * 32 + 26)).
    rewrite (title_wide 7 26 4 h rest); [|lia|lia|reflexivity|cbn; lia]. cbn [Z.eqb Pos.eqb]. rewrite L. reflexivity. }
  cbn [parse]. change (zb 251) with (zb (7 * 32 + 27)). rewrite (title_wide 7 27 8 b rest); [|lia|lia|reflexivity|unfold two64 in Hb; cbn; lia]. reflexivity.
Qed.

Lemma head_nonempty major arg : (1 <= length (head major arg))%nat.
Proof. unfold head. repeat match goal with |- context [if ?c then _ else _] => destruct c end; cbn [length]; lia. Qed.

(** ** the class of values *)
Definition small (n : nat) : Prop := Z.of_nat n < two64z.

Inductive cb : val -> Prop :=
| cb_null : cb Null
| cb_bool b : cb (Bool b)
| cb_int i : in_isize i = true -> cb (Num (Int i))
| cb_flt b : 0 <= b < two64 -> cb (Num (Flt b))
| cb_big z : small (length (to_bytes_be (if 0 <=? z then z else - z - 1))) -> cb (Num (Big z))
| cb_tstr s : valid_utf8 s = true -> small (length s) -> cb (TStr s)
| cb_bstr s : small (length s) -> cb (BStr s)
| cb_arr a : Forall cb a -> small (length a) -> cb (Arr a)
| cb_obj o : Forall (fun kv => cb (fst kv) /\ cb (snd kv)) o -> wf_obj o -> small (length o) -> cb (Obj o).

(** valid text is written as it is *)
Lemma lossy_valid s : valid_utf8 s = true -> to_lossy s = s.
Proof.
  unfold valid_utf8, to_lossy. intros H. rewrite <- (chunks_partition s) at 2.
  induction (chunks s) as [|[c bs] r IH]; [reflexivity|].
  cbn [forallb fst] in H. apply andb_true_iff in H. destruct H as [Hc Hr].
  cbn [flat_map map concat fst snd]. destruct c; [|discriminate]. rewrite IH by exact Hr. reflexivity.
Qed.

(** ** sequences of items *)
Lemma items_ok (p : bytes -> dres val) (enc : val -> bytes) : forall l k acc rest,
  (forall x, In x l -> forall r, p (enc x ++ r) = DOk x r) -> (length l < k)%nat ->
  items p k (Z.of_nat (length l)) (flat_map enc l ++ rest) acc = DOk (rev acc ++ l) rest.
Proof.
  induction l as [|x l IH]; intros k acc rest Hp Hk.
  - destruct k; [cbn [length] in Hk; lia|]. cbn. rewrite app_nil_r. reflexivity.
  - destruct k; [lia|]. cbn [items]. destruct (Z.leb_spec (Z.of_nat (length (x :: l))) 0) as [H|H]; [cbn [length] in H; lia|].
    cbn [flat_map]. rewrite <- app_assoc. rewrite (Hp x (or_introl eq_refl)).
    replace (Z.of_nat (length (x :: l)) - 1) with (Z.of_nat (length l)) by (cbn [length]; lia).
    rewrite IH; [|intros y Hy; apply Hp; right; exact Hy|cbn [length] in Hk; lia].
    cbn [rev]. rewrite <- app_assoc. reflexivity.
Qed.

Definition flatten_pairs (o : list (val * val)) : list val := flat_map (fun kv => [fst kv; snd kv]) o.

Lemma pair_up_flatten o : pair_up (flatten_pairs o) = o.
Proof. induction o as [|[k v] o IH]; [reflexivity|]. cbn. f_equal. exact IH. Qed.

Lemma flatten_length o : length (flatten_pairs o) = (2 * length o)%nat.
Proof. induction o as [|[k v] o IH]; [reflexivity|]. cbn [flatten_pairs flat_map app length] in *. fold (flatten_pairs o). rewrite IH. lia. Qed.

Lemma flat_map_flatten (enc : val -> bytes) o :
  flat_map (fun kv => enc (fst kv) ++ enc (snd kv)) o = flat_map enc (flatten_pairs o).
Proof.
  induction o as [|[k v] o IH]; [reflexivity|]. cbn [flat_map flatten_pairs fst snd app]. fold (flatten_pairs o).
  rewrite IH, <- app_assoc. reflexivity.
Qed.

Lemma in_flatten x o : In x (flatten_pairs o) -> exists kv, In kv o /\ (x = fst kv \/ x = snd kv).
Proof.
  induction o as [|kv o IH]; [intros []|]. cbn [flatten_pairs flat_map app]. fold (flatten_pairs o).
  intros [H|[H|H]]; [exists kv; split; [left; reflexivity|left; auto]|exists kv; split; [left; reflexivity|right; auto]|].
  destruct (IH H) as (kv' & Hin & E). exists kv'. split; [right; exact Hin|exact E].
Qed.

Lemma wf_from_fold o : forall acc, wf_from acc o -> fold_left (fun m kv => insert m (fst kv) (snd kv)) o acc = acc ++ o.
Proof.
  induction o as [|[k v] o IH]; intros acc H; [rewrite app_nil_r; reflexivity|].
  cbn [wf_from] in H. destruct H as [Hi Hr]. cbn [fold_left fst snd]. rewrite Hi, IH by exact Hr. rewrite <- app_assoc. reflexivity.
Qed.

Lemma collect_wf o : wf_obj o -> collect_obj o = Obj o.
Proof. intros H. unfold collect_obj. rewrite wf_from_fold by exact H. reflexivity. Qed.

(** every encoding has at least one byte *)
Lemma encode_nonempty n v : (1 <= length (encode_f (S n) v))%nat.
Proof.
  destruct v as [| [] | x | s | s | a | o]; cbn [encode_f length]; try lia;
    try (rewrite app_length; pose proof (head_nonempty 2 (Z.of_nat (length s))); pose proof (head_nonempty 3 (Z.of_nat (length (to_lossy s)))); lia).
  - destruct x as [i|i|b|s]; cbn [enc_num].
    + destruct (0 <=? i); apply head_nonempty.
    + destruct (0 <=? i); rewrite app_length; pose proof (head_nonempty 6 2); pose proof (head_nonempty 6 3); lia.
    + unfold enc_float. destruct (short_float 15 10 b); [cbn [length]; lia|]. destruct (short_float 127 23 b); cbn [length]; lia.
    + unfold enc_float. destruct (short_float 15 10 _); [cbn [length]; lia|]. destruct (short_float 127 23 _); cbn [length]; lia.
  - rewrite app_length. pose proof (head_nonempty 4 (Z.of_nat (length a))). lia.
  - rewrite app_length. pose proof (head_nonempty 5 (Z.of_nat (length o))). lia.
Qed.

Lemma flat_map_count (enc : val -> bytes) l : (forall x, In x l -> (1 <= length (enc x))%nat) -> (length l <= length (flat_map enc l))%nat.
Proof.
  induction l as [|x l IH]; intros H; [cbn; lia|]. cbn [flat_map length]. rewrite app_length.
  pose proof (H x (or_introl eq_refl)). specialize (IH (fun y Hy => H y (or_intror Hy))). lia.
Qed.

(** ** the round trip *)
Lemma roundtrip_f : forall n v, (depth v < n)%nat -> cb v ->
  forall fuel rest, (depth v < fuel)%nat -> parse fuel (encode_f n v ++ rest) = DOk v rest.
Proof.
  induction n as [|n IH]; intros v Hd Hv fuel rest Hf; [lia|].
  destruct fuel as [|fuel]; [lia|].
  destruct Hv as [|b|i Hi|b Hb|z Hz|s Hs Hl|s Hl|a Ha Hl|o Ho Hw Hl].
  - reflexivity.
  - destruct b; reflexivity.
  - (* machine integers *)
    cbn [encode_f enc_num].
    assert (B : - 9223372036854775808 <= i <= 9223372036854775807).
    { pose proof Hi as Hi'. unfold in_isize, isize_min, isize_max, two63 in Hi'. apply andb_true_iff in Hi'. destruct Hi' as [H1 H2].
      apply Z.leb_le in H1. apply Z.leb_le in H2. lia. }
    destruct (Z.leb_spec 0 i) as [Hp|Hp].
    + destruct (title_head 0 i rest) as (w & E); [lia|unfold two64z; lia|]. cbn [parse]. rewrite E. cbn [Z.eqb Pos.eqb].
      unfold from_integral, int_or_big. rewrite Hi. reflexivity.
    + destruct (title_head 1 (- (i + 1)) rest) as (w & E); [lia|unfold two64z; lia|]. cbn [parse]. rewrite E. cbn [Z.eqb Pos.eqb].
      replace (- 1 - - (i + 1)) with i by lia.
      unfold from_integral, int_or_big. rewrite Hi. reflexivity.
  - (* floats *)
    cbn [encode_f enc_num]. apply float_item. exact Hb.
  - (* big integers *)
    cbn [encode_f enc_num]. unfold small in Hz.
    destruct (Z.leb_spec 0 z) as [Hp|Hp]; rewrite <- !app_assoc.
    + destruct (title_head 6 2 ((head 2 (Z.of_nat (length (to_bytes_be z))) ++ to_bytes_be z) ++ rest)) as (w & E); [lia|unfold two64z; lia|].
      cbn [parse]. rewrite <- app_assoc in E. rewrite E. cbn [Z.eqb Pos.eqb]. unfold biguint.
      destruct (title_head 2 (Z.of_nat (length (to_bytes_be z))) (to_bytes_be z ++ rest)) as (w2 & E2); [lia|lia|].
      rewrite E2. cbn [Z.eqb Pos.eqb]. rewrite take_app. rewrite to_bytes_be_val by lia. reflexivity.
    + destruct (title_head 6 3 ((head 2 (Z.of_nat (length (to_bytes_be (- z - 1)))) ++ to_bytes_be (- z - 1)) ++ rest)) as (w & E); [lia|unfold two64z; lia|].
      cbn [parse]. rewrite <- app_assoc in E. rewrite E. cbn [Z.eqb Pos.eqb]. unfold biguint.
      destruct (title_head 2 (Z.of_nat (length (to_bytes_be (- z - 1)))) (to_bytes_be (- z - 1) ++ rest)) as (w2 & E2); [lia|lia|].
      rewrite E2. cbn [Z.eqb Pos.eqb]. rewrite take_app. rewrite to_bytes_be_val by lia. replace (- (- z - 1) - 1) with z by lia. reflexivity.
  - (* text *)
    cbn [encode_f]. rewrite lossy_valid by exact Hs. rewrite <- app_assoc.
    destruct (title_head 3 (Z.of_nat (length s)) (s ++ rest)) as (w & E); [lia|unfold small in Hl; lia|].
    cbn [parse]. rewrite E. cbn [Z.eqb Pos.eqb]. rewrite take_app, Hs. reflexivity.
  - (* byte strings *)
    cbn [encode_f]. rewrite <- app_assoc.
    destruct (title_head 2 (Z.of_nat (length s)) (s ++ rest)) as (w & E); [lia|unfold small in Hl; lia|].
    cbn [parse]. rewrite E. cbn [Z.eqb Pos.eqb]. rewrite take_app. reflexivity.
  - (* arrays *)
    cbn [encode_f]. rewrite <- app_assoc.
    destruct (title_head 4 (Z.of_nat (length a)) (flat_map (encode_f n) a ++ rest)) as (w & E); [lia|unfold small in Hl; lia|].
    cbn [parse]. rewrite E. cbn [Z.eqb Pos.eqb].
    assert (Hn : exists n', n = S n').
    { destruct n; [|eexists; reflexivity]. cbn [depth] in Hd. lia. }
    destruct Hn as (n' & ->).
    rewrite (items_ok (parse fuel) (encode_f (S n')) a); [reflexivity| |].
    + rewrite Forall_forall in Ha. intros x Hx r. pose proof (depth_in_arr x a Hx) as Dx. apply IH; [lia|apply Ha; exact Hx|lia].
    + rewrite app_length. pose proof (flat_map_count (encode_f (S n')) a (fun x _ => encode_nonempty n' x)). lia.
  - (* objects *)
    cbn [encode_f]. rewrite <- app_assoc.
    destruct (title_head 5 (Z.of_nat (length o)) (flat_map (fun kv => encode_f n (fst kv) ++ encode_f n (snd kv)) o ++ rest)) as (w & E);
      [lia|unfold small in Hl; lia|].
    cbn [parse]. rewrite E. cbn [Z.eqb Pos.eqb].
    assert (Hn : exists n', n = S n').
    { destruct n; [|eexists; reflexivity]. cbn [depth] in Hd. lia. }
    destruct Hn as (n' & ->).
    rewrite flat_map_flatten.
    replace (2 * Z.of_nat (length o)) with (Z.of_nat (length (flatten_pairs o))) by (rewrite flatten_length; lia).
    rewrite (items_ok (parse fuel) (encode_f (S n')) (flatten_pairs o)).
    + cbn [rev app]. rewrite pair_up_flatten, collect_wf by exact Hw. reflexivity.
    + rewrite Forall_forall in Ho. intros x Hx r. destruct (in_flatten x o Hx) as ([k y] & Hin & Ex).
      destruct (depth_in_obj k y o Hin) as [Dk Dy]. destruct (Ho _ Hin) as [Ck Cy]. cbn [fst snd] in *.
      destruct Ex as [-> | ->]; apply IH; try assumption; lia.
    + rewrite app_length. pose proof (flat_map_count (encode_f (S n')) (flatten_pairs o) (fun x _ => encode_nonempty n' x)). lia.
Qed.

Lemma depth_lt_encode : forall n v, (depth v < n)%nat -> (depth v <= length (encode_f n v))%nat.
Proof.
  induction n as [|n IH]; intros v Hd; [lia|].
  destruct v as [| b | x | s | s | a | o].
  - pose proof (encode_nonempty n Null). cbn [depth]. lia.
  - pose proof (encode_nonempty n (Bool b)). cbn [depth]. lia.
  - pose proof (encode_nonempty n (Num x)). cbn [depth]. lia.
  - pose proof (encode_nonempty n (BStr s)). cbn [depth]. lia.
  - pose proof (encode_nonempty n (TStr s)). cbn [depth]. lia.
  - cbn [encode_f]. rewrite app_length. pose proof (head_nonempty 4 (Z.of_nat (length a))).
    assert (fold_right (fun x m => Nat.max (depth x) m) O a <= length (flat_map (encode_f n) a))%nat; [|cbn [depth]; lia].
    cbn [depth] in Hd. clear H. induction a as [|y a IHa]; [cbn; lia|]. cbn [fold_right flat_map] in *. rewrite app_length.
    pose proof (IH y ltac:(lia)). specialize (IHa ltac:(lia)). lia.
  - cbn [encode_f]. rewrite app_length. pose proof (head_nonempty 5 (Z.of_nat (length o))).
    assert (fold_right (fun kv m => match kv with (k, x) => Nat.max (Nat.max (depth k) (depth x)) m end) O o
            <= length (flat_map (fun kv => encode_f n (fst kv) ++ encode_f n (snd kv)) o))%nat; [|cbn [depth]; lia].
    cbn [depth] in Hd. clear H. induction o as [|[k y] o IHo]; [cbn; lia|]. cbn [fold_right flat_map fst snd] in *. rewrite !app_length.
    pose proof (IH k ltac:(lia)). pose proof (IH y ltac:(lia)). specialize (IHo ltac:(lia)). lia.
Qed.

Theorem cbor_roundtrip v rest : cb v -> parse_one (encode v ++ rest) = DOk v rest.
Proof.
  intros Hv. unfold parse_one, encode. apply roundtrip_f; [lia|exact Hv|].
  rewrite app_length. pose proof (depth_lt_encode (S (depth v)) v ltac:(lia)). lia.
Qed.

(** a decimal literal is written as the float it denotes (its spelling is the documented exception) *)
Theorem cbor_decimal s rest : 0 <= dec_to_f64 s < two64 ->
  parse_one (encode (Num (Dec s)) ++ rest) = DOk (Num (Flt (dec_to_f64 s))) rest.
Proof. intros H. unfold parse_one, encode. cbn [depth encode_f enc_num]. apply float_item. exact H. Qed.

(** a sequence of written values is read back as that sequence *)
Theorem cbor_many_roundtrip vs : Forall cb vs -> decode_many (flat_map encode vs) = (vs, MEnd).
Proof.
  unfold decode_many. intros H.
  assert (G : forall k, (length (flat_map encode vs) < k)%nat -> decode_many_f k (flat_map encode vs) = (vs, MEnd)).
  { induction H as [|v vs Hv Hvs IH]; intros k Hk.
    - destruct k; [cbn in Hk; lia|]. reflexivity.
    - destruct k; [lia|]. cbn [flat_map decode_many_f].
      pose proof (encode_nonempty (depth v) v) as Hne. fold (encode v) in Hne.
      destruct (encode v ++ flat_map encode vs) eqn:Es.
      { apply (f_equal (@length byte)) in Es. rewrite app_length in Es. cbn [length] in Es. lia. }
      rewrite <- Es. rewrite cbor_roundtrip by exact Hv. rewrite IH; [reflexivity|].
      cbn [flat_map] in Hk. rewrite app_length in Hk. lia. }
  apply G. lia.
Qed.

(** the class is inhabited: nested values with keys that are no strings, integers on both sides of every width *)
Example cb_ex :
  let v := Obj [(TStr (of_ascii [97]), Arr [Num (Int 1); Null; BStr (of_ascii [255; 0]); Num (Int (-25)); Num (Int 65536); Num (Flt 4609434218613702656); Num (Flt 4591870180066957722); Num (Flt nan_bits)]);
                (Num (Int 2), TStr (of_ascii [195; 169]));
                (Arr [], Obj [(Bool true, Num (Big (2 ^ 70))); (Null, Num (Big (- 2 ^ 64 - 1)))])] in
  cb v /\ parse_one (encode v) = DOk v [].
Proof.
  cbv zeta.
  match goal with |- cb ?v /\ _ => assert (R : cb v) end.
  { repeat first [ apply cb_null | apply cb_bool | apply cb_int; reflexivity | apply cb_flt; vm_compute; split; [discriminate|reflexivity] | apply cb_big; vm_compute; reflexivity
                 | apply cb_tstr; vm_compute; reflexivity | apply cb_bstr; vm_compute; reflexivity
                 | apply cb_arr; [|vm_compute; reflexivity] | apply cb_obj; [|vm_compute; auto|vm_compute; reflexivity]
                 | apply Forall_nil | apply Forall_cons; cbn [fst snd] | split ]. }
  split; [exact R|]. rewrite <- (app_nil_r (encode _)). apply cbor_roundtrip. exact R.
Qed.

(** ** indefinite lengths *)
(** the first byte of a header of major type 0..6 is not the break byte *)
Lemma head_first major arg : 0 <= major <= 6 -> 0 <= arg -> exists b r, head major arg = b :: r /\ bz b <> 255.
Proof.
  intros Hm Ha. unfold head.
  destruct (Z.leb_spec arg 23); [eexists; eexists; split; [reflexivity|rewrite bz_zb by lia; lia]|].
  destruct (Z.leb_spec arg 255); [eexists; eexists; split; [reflexivity|rewrite bz_zb by lia; lia]|].
  destruct (Z.leb_spec arg 65535); [eexists; eexists; split; [reflexivity|rewrite bz_zb by lia; lia]|].
  destruct (Z.leb_spec arg 4294967295); eexists; eexists; (split; [reflexivity|rewrite bz_zb by lia; lia]).
Qed.

Lemma app_first (a : bytes) b r t : a = b :: r -> a ++ t = b :: (r ++ t).
Proof. intros ->. reflexivity. Qed.

Lemma encode_first n v : exists b r, encode_f (S n) v = b :: r /\ bz b <> 255.
Proof.
  destruct v as [| [] | x | s | s | a | o]; cbn [encode_f].
  - eexists; eexists; split; [reflexivity|vm_compute; discriminate].
  - eexists; eexists; split; [reflexivity|vm_compute; discriminate].
  - eexists; eexists; split; [reflexivity|vm_compute; discriminate].
  - destruct x as [i|i|f|s]; cbn [enc_num].
    + destruct (Z.leb_spec 0 i); [apply head_first; lia|apply head_first; lia].
    + destruct (0 <=? i); eexists; eexists; (split; [reflexivity|vm_compute; discriminate]).
    + unfold enc_float. destruct (short_float 15 10 f); [|destruct (short_float 127 23 f)]; eexists; eexists; (split; [reflexivity|vm_compute; discriminate]).
    + unfold enc_float. destruct (short_float 15 10 _); [|destruct (short_float 127 23 _)]; eexists; eexists; (split; [reflexivity|vm_compute; discriminate]).
  - destruct (head_first 2 (Z.of_nat (length s)) ltac:(lia) ltac:(lia)) as (b & r & E & Hb). exists b. eexists. split; [apply app_first; exact E|exact Hb].
  - destruct (head_first 3 (Z.of_nat (length (to_lossy s))) ltac:(lia) ltac:(lia)) as (b & r & E & Hb). exists b. eexists. split; [apply app_first; exact E|exact Hb].
  - destruct (head_first 4 (Z.of_nat (length a)) ltac:(lia) ltac:(lia)) as (b & r & E & Hb). exists b. eexists. split; [apply app_first; exact E|exact Hb].
  - destruct (head_first 5 (Z.of_nat (length o)) ltac:(lia) ltac:(lia)) as (b & r & E & Hb). exists b. eexists. split; [apply app_first; exact E|exact Hb].
Qed.

(** items up to a break *)
Lemma items_break_ok (p : bytes -> dres val) n : forall l k acc rest,
  (forall x, In x l -> forall r, p (encode_f (S n) x ++ r) = DOk x r) -> (length l < k)%nat ->
  items_break p k (flat_map (encode_f (S n)) l ++ zb 255 :: rest) acc = DOk (rev acc ++ l) rest.
Proof.
  induction l as [|x l IH]; intros k acc rest Hp Hk.
  - destruct k; [cbn [length] in Hk; lia|]. cbn [flat_map app items_break]. change (bz (zb 255)) with 255. cbn [Z.eqb Pos.eqb]. rewrite app_nil_r. reflexivity.
  - destruct k; [lia|]. cbn [flat_map]. rewrite <- app_assoc.
    destruct (encode_first n x) as (b & r & E & Hb).
    cbn [items_break]. rewrite (app_first _ b r _ E). destruct (Z.eqb_spec (bz b) 255); [contradiction|].
    rewrite <- (app_first _ b r _ E). rewrite (Hp x (or_introl eq_refl)).
    rewrite IH; [|intros y Hy; apply Hp; right; exact Hy|cbn [length] in Hk; lia].
    cbn [rev]. rewrite <- app_assoc. reflexivity.
Qed.

(** the fuel of the writer is irrelevant once it exceeds the nesting depth *)
Lemma flat_map_ext_in {A B} (f g : A -> list B) l : (forall x, In x l -> f x = g x) -> flat_map f l = flat_map g l.
Proof. induction l as [|x l IH]; intros H; [reflexivity|]. cbn [flat_map]. rewrite (H x (or_introl eq_refl)), IH; [reflexivity|]. intros y Hy. apply H. right. exact Hy. Qed.

Lemma encode_fuel : forall n m v, (depth v < n)%nat -> (depth v < m)%nat -> encode_f n v = encode_f m v.
Proof.
  induction n as [|n IH]; intros m v Hn Hm; [lia|]. destruct m as [|m]; [lia|].
  destruct v as [| b | x | s | s | a | o]; try reflexivity; cbn [encode_f]; f_equal.
  - apply flat_map_ext_in. intros x Hx. pose proof (depth_in_arr x a Hx). apply IH; lia.
  - apply flat_map_ext_in. intros [k y] Hx. destruct (depth_in_obj k y o Hx). cbn [fst snd]. rewrite (IH m k), (IH m y) by lia. reflexivity.
Qed.

Lemma in_flat_map_len {A B} (f : A -> list B) l x : In x l -> (length (f x) <= length (flat_map f l))%nat.
Proof. induction l as [|y l IH]; [intros []|]. cbn [flat_map]. rewrite app_length. intros [->|H]; [lia|specialize (IH H); lia]. Qed.

(** an array written with indefinite length (0x9f items 0xff), as other encoders may write it, is read as the same array *)
Theorem indefinite_array a rest : Forall cb a ->
  parse_one (zb 159 :: flat_map encode a ++ zb 255 :: rest) = DOk (Arr a) rest.
Proof.
  intros Ha. unfold parse_one.
  set (N := depth (Arr a)).
  assert (E : flat_map encode a = flat_map (encode_f (S N)) a).
  { apply flat_map_ext_in. intros x Hx. unfold encode. pose proof (depth_in_arr x a Hx). apply encode_fuel; unfold N; lia. }
  rewrite E. change (length (zb 159 :: flat_map (encode_f (S N)) a ++ zb 255 :: rest)) with (S (length (flat_map (encode_f (S N)) a ++ zb 255 :: rest))).
  set (fuel := S (length (flat_map (encode_f (S N)) a ++ zb 255 :: rest))). cbn [parse].
  change (title (zb 159 :: flat_map (encode_f (S N)) a ++ zb 255 :: rest))
    with (DOk (4, @None Z, 0%nat) (flat_map (encode_f (S N)) a ++ zb 255 :: rest)).
  cbn [Z.eqb Pos.eqb].
  rewrite (items_break_ok _ N a); [reflexivity| |].
  - rewrite Forall_forall in Ha. intros x Hx r. pose proof (depth_in_arr x a Hx) as Dx.
    apply roundtrip_f; [unfold N; lia|apply Ha; exact Hx|].
    assert (L : (depth x <= length (flat_map (encode_f (S N)) a))%nat).
    { pose proof (depth_lt_encode (S N) x ltac:(unfold N; lia)) as D1.
      pose proof (in_flat_map_len (encode_f (S N)) a x Hx). lia. }
    unfold fuel. rewrite app_length. lia.
  - rewrite app_length. pose proof (flat_map_count (encode_f (S N)) a (fun x _ => encode_nonempty N x)). cbn [length]. lia.
Qed.
