(** YAML scalars: a string that the writer leaves unquoted is read back as that string, and it is a plain scalar that cannot
    be taken for structure. *)
From Coq Require Import ZArith Bool List Lia.
From Coq Require Import Init.Byte.
From JaqV Require Import Base.Bytes Base.F64 Val.Num Val.Val Json.Write Std.Codec Fmts.Yaml.
Import ListNotations.
Local Open Scope Z_scope.

Lemma in_lits_app s a b : in_lits s (a ++ b) = in_lits s a || in_lits s b.
Proof. unfold in_lits. apply existsb_app. Qed.

Record unquoted (s : bytes) : Prop := {
  u_tilde : bytes_eqb s (lit [126]) = false;
  u_marker : is_doc_marker s = false;
  u_num : is_num_like (y_strip_sign s) = false;
  u_kw : in_lits s kws = false;
  u_kw_unsigned : in_lits (y_strip_sign s) kws = false;
  u_trailing : trailing_space s = false;
  u_plain : ns_plain_one_line s = true }.

Lemma must_quote_false s : must_quote s = false -> unquoted s.
Proof.
  unfold must_quote. cbv zeta. rewrite !orb_false_iff, negb_false_iff.
  intros [[[[[[H1 H2] H3] H4] H5] H6] H7]. constructor; assumption.
Qed.

Lemma kws_split s : in_lits s kws = false ->
  in_lits s kw_null = false /\ in_lits s kw_true = false /\ in_lits s kw_false = false /\ in_lits s kw_inf = false
  /\ in_lits s kw_nan = false.
Proof. unfold kws. rewrite !in_lits_app, !orb_false_iff. tauto. Qed.

Lemma parse_sign_strip s : snd (parse_sign s) = y_strip_sign s.
Proof.
  destruct s as [|c r]; [reflexivity|]. unfold parse_sign, y_strip_sign, mem_z. cbn [existsb].
  destruct (bz c =? 43), (bz c =? 45); reflexivity.
Qed.

Lemma not_num_first u : is_num_like u = false ->
  match u with c :: r => is_digit c = false /\ ((bz c =? 46) && opt_is is_digit (hd_error r)) = false | [] => True end.
Proof. destruct u as [|c r]; [trivial|]. cbn [is_num_like]. rewrite orb_false_iff. tauto. Qed.

Lemma not_num_radix u : is_num_like u = false -> parse_radix u = None.
Proof.
  intros H. apply not_num_first in H. destruct u as [|c r]; [reflexivity|]. destruct H as [Hd _].
  unfold is_digit in Hd. cbn [parse_radix].
  destruct (Z.eqb_spec (bz c) 48) as [E|N]; [rewrite E in Hd; discriminate|].
  destruct ((49 <=? bz c) && (bz c <=? 57)) eqn:E2; [|reflexivity].
  apply andb_prop in E2 as [A B]. apply Z.leb_le in A, B.
  assert (48 <=? bz c = true) as X by (apply Z.leb_le; lia). rewrite X, (proj2 (Z.leb_le _ _) B) in Hd. discriminate.
Qed.

Lemma span_not_digit u : opt_is is_digit (hd_error u) = false -> y_span_digits u = ([], u).
Proof. destruct u as [|c r]; [reflexivity|]. cbn. intros ->. reflexivity. Qed.

Lemma not_num_float sg u : is_num_like u = false -> normalise_float sg u = None.
Proof.
  intros H. apply not_num_first in H. unfold normalise_float.
  destruct u as [|c r].
  - reflexivity.
  - destruct H as [Hd Hdot]. rewrite (span_not_digit (c :: r)) by exact Hd. cbn [hd_error opt_is negb orb bytes_eqb].
    destruct (bz c =? 46) eqn:E.
    + cbn [andb] in Hdot. rewrite (span_not_digit r Hdot). reflexivity.
    + reflexivity.
Qed.

(** the string that is written without quotes is read as itself *)
Theorem plain_is_string s : must_quote s = false -> resolve s = TStr s.
Proof.
  intros H. apply must_quote_false in H. destruct H as [Ht Hm Hn Hk Hku _ _].
  apply kws_split in Hk as (Knull & Ktrue & Kfalse & _ & Knan).
  apply kws_split in Hku as (_ & _ & _ & Kinf & _).
  unfold resolve. rewrite Knull, Ht, Ktrue, Kfalse, Knan. cbn [orb].
  assert (parse_int s = None) as ->.
  { unfold parse_int. destruct (parse_sign s) as [sg u] eqn:E.
    assert (u = y_strip_sign s) as -> by (rewrite <- parse_sign_strip, E; reflexivity).
    rewrite (not_num_radix _ Hn). reflexivity. }
  assert (parse_float s = None) as ->; [|reflexivity].
  unfold parse_float. destruct (parse_sign s) as [sg u] eqn:E.
  assert (u = y_strip_sign s) as -> by (rewrite <- parse_sign_strip, E; reflexivity).
  rewrite Kinf, (not_num_float sg _ Hn). reflexivity.
Qed.

(** and it is a document that consists of one plain scalar *)
Theorem plain_is_document s : must_quote s = false -> plain_document s = true.
Proof.
  intros H. apply must_quote_false in H. destruct H as [_ Hm _ _ _ Htr Hp].
  unfold plain_document. rewrite Hp, Hm, Htr. reflexivity.
Qed.

(** ** an unquoted string cannot be taken for structure *)
Lemma plain_char_safe prev c next :
  (s_white c || ns_plain_char prev c next) = true -> b_char c = false /\ c_flow_indicator c = false.
Proof.
  unfold ns_plain_char. generalize (ns_char prev) as b1. generalize (opt_is ns_plain_safe next) as b2. intros b2 b1.
  destruct c; destruct b1, b2; vm_compute; intros H; (split; reflexivity) || discriminate H.
Qed.

Lemma plain_first_safe c next :
  ns_plain_first c next = true -> b_char c = false /\ c_flow_indicator c = false /\ s_white c = false.
Proof.
  unfold ns_plain_first. generalize (opt_is ns_plain_safe next) as b2. intros b2.
  destruct c; destruct b2; vm_compute; intros H; (repeat split; reflexivity) || discriminate H.
Qed.

Lemma plain_rest_safe l : forall prev, plain_rest prev l = true ->
  Forall (fun c => b_char c = false /\ c_flow_indicator c = false) l.
Proof.
  induction l as [|c l IH]; intros prev H; [constructor|]. cbn [plain_rest] in H. apply andb_prop in H as [Hc Hl].
  constructor; [eapply plain_char_safe; exact Hc | eapply IH; exact Hl].
Qed.

(** no line break, no flow indicator, no blank at either end *)
Theorem plain_no_structure s : must_quote s = false ->
  Forall (fun c => b_char c = false /\ c_flow_indicator c = false) s
  /\ match s with c :: _ => s_white c = false | [] => False end
  /\ trailing_space s = false.
Proof.
  intros H. apply must_quote_false in H. destruct H as [_ _ _ _ _ Htr Hp].
  destruct s as [|c r]; [discriminate|]. cbn [ns_plain_one_line] in Hp. apply andb_prop in Hp as [Hf Hr].
  apply plain_first_safe in Hf as (A & B & C). split; [|split; assumption].
  constructor; [split; assumption | eapply plain_rest_safe; exact Hr].
Qed.

Definition colon : byte := zb 58.
Definition hash : byte := zb 35.

Lemma plain_rest_colon pre : forall prev post,
  plain_rest prev (pre ++ colon :: post) = true -> opt_is ns_plain_safe (hd_error post) = true.
Proof.
  induction pre as [|c pre IH]; intros prev post H.
  - cbn [app plain_rest] in H. apply andb_prop in H as [H _]. unfold ns_plain_char in H.
    destruct (ns_char prev), (opt_is ns_plain_safe (hd_error post)); vm_compute in H; congruence.
  - cbn [app plain_rest] in H. apply andb_prop in H as [_ H]. eapply IH. exact H.
Qed.

(** a colon is never followed by a blank or the end: no key separator *)
Theorem plain_no_key_separator s pre post : must_quote s = false -> s = pre ++ colon :: post ->
  opt_is ns_plain_safe (hd_error post) = true.
Proof.
  intros H ->. apply must_quote_false in H. destruct H as [_ _ _ _ _ _ Hp].
  destruct pre as [|c pre].
  - cbn [app ns_plain_one_line] in Hp. apply andb_prop in Hp as [Hf _]. unfold ns_plain_first in Hf.
    destruct (opt_is ns_plain_safe (hd_error post)); vm_compute in Hf; congruence.
  - cbn [app ns_plain_one_line] in Hp. apply andb_prop in Hp as [_ Hr]. eapply plain_rest_colon. exact Hr.
Qed.

Lemma last_default (b : byte) pre d1 d2 : last (b :: pre) d1 = last (b :: pre) d2.
Proof. revert b. induction pre as [|x pre IH]; intros b; [reflexivity|]. cbn [last] in *. apply IH. Qed.

Lemma plain_rest_hash pre : forall prev post,
  plain_rest prev (pre ++ hash :: post) = true -> ns_char (last pre prev) = true.
Proof.
  induction pre as [|c pre IH]; intros prev post H.
  - cbn [app plain_rest] in H. apply andb_prop in H as [H _]. unfold ns_plain_char in H. cbn [last].
    destruct (ns_char prev), (opt_is ns_plain_safe (hd_error post)); vm_compute in H; congruence.
  - cbn [app plain_rest] in H. apply andb_prop in H as [_ H]. apply IH in H.
    destruct pre as [|b pre]; [exact H|]. change (last (c :: b :: pre) prev) with (last (b :: pre) prev). rewrite (last_default b pre prev c). exact H.
Qed.

(** a hash is never at the start or after a blank: no comment *)
Theorem plain_no_comment s pre post : must_quote s = false -> s = pre ++ hash :: post ->
  exists c pre', pre = c :: pre' /\ ns_char (last pre' c) = true.
Proof.
  intros H ->. apply must_quote_false in H. destruct H as [_ _ _ _ _ _ Hp].
  destruct pre as [|c pre].
  - cbn [app ns_plain_one_line] in Hp. apply andb_prop in Hp as [Hf _]. unfold ns_plain_first in Hf.
    destruct (opt_is ns_plain_safe (hd_error post)); vm_compute in Hf; congruence.
  - cbn [app ns_plain_one_line] in Hp. apply andb_prop in Hp as [_ Hr]. exists c, pre. split; [reflexivity|].
    eapply plain_rest_hash. exact Hr.
Qed.

(** the scalars that are not strings are written as what is read back as them *)
Theorem scalars_resolve :
  resolve (to_yaml Null) = Null /\ resolve (to_yaml (Bool true)) = Bool true /\ resolve (to_yaml (Bool false)) = Bool false
  /\ resolve (to_yaml (Num (Flt pos_inf))) = Num (Flt pos_inf) /\ resolve (to_yaml (Num (Flt neg_inf))) = Num (Flt neg_inf)
  /\ resolve (to_yaml (Num (Flt nan_bits))) = Num (Flt nan_bits).
Proof. vm_compute. repeat split. Qed.

(** non-vacuity, and the strings of the findings are quoted *)
Example unquoted_ex : must_quote (lit [97; 32; 98; 58; 99; 35]) = false /\ must_quote (lit [45; 97]) = false.
Proof. vm_compute. split; reflexivity. Qed.
Example quoted_ex :
  Forall (fun s => must_quote s = true)
    [lit [43; 49]; lit [46; 53]; lit [45; 46; 105; 110; 102]; lit [97; 32]; lit [110; 117; 108; 108]; lit [45; 45; 45; 32; 97];
     lit [126]; lit [97; 58; 32; 98]; lit [97; 32; 35; 98]; lit [48; 120; 49]; lit []; lit [45; 32; 97]; lit [91; 97]].
Proof. vm_compute. repeat constructor. Qed.

(** ** integers of any size: written in decimal, read back as the same integer *)
From JaqV Require Import Proofs.DigitLaws.

Lemma radix10_digits ds : forall a, all_digits ds = true -> radix_val 10 a ds = Some (digits_val_acc a ds).
Proof.
  induction ds as [|d ds IH]; intros a H; [reflexivity|]. cbn [all_digits forallb] in H. apply andb_prop in H as [Hd Hr].
  cbn [radix_val digits_val_acc]. unfold digit_of. unfold is_digit in Hd. rewrite Hd.
  apply andb_prop in Hd as [A B]. apply Z.leb_le in A, B.
  destruct (Z.ltb_spec (bz d - 48) 10); [|lia]. unfold digit_val. apply IH. exact Hr.
Qed.

(** a string that starts with a digit or a minus sign is none of the keywords *)
Lemma not_keyword c r : (is_digit c = true \/ bz c = 45) ->
  in_lits (c :: r) kws = false /\ bytes_eqb (c :: r) (lit [126]) = false.
Proof.
  intros H. assert (K : mem_z (bz c) [110; 78; 111; 79; 121; 89; 116; 84; 102; 70; 46; 126] = false).
  { unfold mem_z. cbn [existsb]. unfold is_digit in H.
    repeat match goal with |- context [bz c =? ?k] => destruct (Z.eqb_spec (bz c) k) end; try reflexivity;
      exfalso; destruct H as [H|H]; try lia; apply andb_prop in H as [A B]; apply Z.leb_le in A, B; lia. }
  revert K. clear H. destruct c; vm_compute; intros K; try discriminate K; split; reflexivity.
Qed.

Lemma to_yaml_int z : to_yaml (Num (int_or_big z)) = Z_to_dec z.
Proof. unfold int_or_big. destruct (in_isize z); reflexivity. Qed.

Lemma resolve_digits_nonneg z : 0 <= z -> resolve (nat_digits z) = Num (int_or_big z).
Proof.
  intros Hz. destruct (nat_digits_spec z Hz) as (Hne & Hd & Hv & Hh).
  destruct (nat_digits z) as [|d ds] eqn:E; [congruence|].
  pose proof Hd as Hd'. cbn [all_digits forallb] in Hd'. apply andb_prop in Hd' as [Hd1 Hd2].
  destruct (not_keyword d ds (or_introl Hd1)) as [K T]. apply kws_split in K as (Knull & Ktrue & Kfalse & Kinf & Knan).
  unfold resolve. rewrite Knull, T, Ktrue, Kfalse, Knan. cbn [orb].
  assert (PS : parse_sign (d :: ds) = (None, d :: ds)).
  { unfold parse_sign, mem_z. cbn [existsb]. unfold is_digit in Hd1. apply andb_prop in Hd1 as [A B]. apply Z.leb_le in A, B.
    destruct (Z.eqb_spec (bz d) 43); [lia|]. destruct (Z.eqb_spec (bz d) 45); [lia|]. reflexivity. }
  unfold parse_int. rewrite PS.
  assert (RV : forall radix s', s' = d :: ds -> radix = 10 -> from_str_radix s' radix = Some (int_or_big z)).
  { intros radix s' -> ->. unfold from_str_radix. unfold is_digit in Hd1. apply andb_prop in Hd1 as [A B]. apply Z.leb_le in A, B.
    destruct (Z.eqb_spec (bz d) 45); [lia|]. destruct (Z.eqb_spec (bz d) 43); [lia|].
    rewrite (radix10_digits (d :: ds) 0 Hd). unfold digits_val in Hv. rewrite Hv. reflexivity. }
  destruct (Z.eq_dec z 0) as [->|Nz].
  - (* "0" *) assert (d :: ds = [zb 48]) as Ez by (rewrite <- E; reflexivity). injection Ez as -> ->. reflexivity.
  - specialize (Hh ltac:(lia)). cbn [parse_radix].
    destruct (Z.eqb_spec (bz d) 48); [lia|].
    assert (((49 <=? bz d) && (bz d <=? 57)) = true) as -> by (apply andb_true_intro; split; apply Z.leb_le; lia).
    rewrite (RV 10 (d :: ds) eq_refl eq_refl). reflexivity.
Qed.

(** non-negative integers of any size, and negative ones: the same integer is read back
    (the most negative machine integer comes back as the equal big integer) *)
Theorem yaml_integer_roundtrip z :
  resolve (to_yaml (Num (int_or_big z))) = Num (if 0 <=? z then int_or_big z else Num.neg (int_or_big (- z))).
Proof.
  rewrite to_yaml_int. unfold Z_to_dec. destruct (Z.ltb_spec z 0) as [Hn|Hp].
  - destruct (Z.leb_spec 0 z); [lia|].
    pose proof (resolve_digits_nonneg (- z) ltac:(lia)) as R.
    destruct (nat_digits_spec (- z) ltac:(lia)) as (Hne & Hd & Hv & Hh). specialize (Hh ltac:(lia)).
    destruct (nat_digits (- z)) as [|d ds] eqn:E; [congruence|].
    destruct (not_keyword x2d (d :: ds) (or_intror eq_refl)) as [K T]. apply kws_split in K as (Knull & Ktrue & Kfalse & Kinf & Knan).
    unfold resolve. rewrite Knull, T, Ktrue, Kfalse, Knan. cbn [orb].
    (* the digits alone resolve to the integer: reuse their parse *)
    unfold resolve in R.
    pose proof Hd as Hd'. cbn [all_digits forallb] in Hd'. apply andb_prop in Hd' as [Hd1 Hd2].
    destruct (not_keyword d ds (or_introl Hd1)) as [K2 T2]. apply kws_split in K2 as (K2null & K2true & K2false & K2inf & K2nan).
    rewrite K2null, T2, K2true, K2false, K2nan in R. cbn [orb] in R.
    unfold parse_int in *. change (parse_sign (x2d :: d :: ds)) with (Some x2d, d :: ds). cbv beta iota.
    assert (PS : parse_sign (d :: ds) = (None, d :: ds)).
    { unfold parse_sign, mem_z. cbn [existsb]. unfold is_digit in Hd1. apply andb_prop in Hd1 as [A B]. apply Z.leb_le in A, B.
      destruct (Z.eqb_spec (bz d) 43); [lia|]. destruct (Z.eqb_spec (bz d) 45); [lia|]. reflexivity. }
    rewrite PS in R. cbv beta iota in R. destruct (parse_radix (d :: ds)) as [[radix s']|].
    + destruct (from_str_radix s' radix) as [n|].
      * cbn [is_minus] in *. change (bz x2d =? 45) with true. injection R as R. rewrite R. reflexivity.
      * exfalso. revert R. unfold parse_float. rewrite PS. cbv beta iota. rewrite K2inf.
        destruct (normalise_float None (d :: ds)); unfold int_or_big; destruct (in_isize (- z)); discriminate.
    + exfalso. revert R. unfold parse_float. rewrite PS. cbv beta iota. rewrite K2inf.
      destruct (normalise_float None (d :: ds)); unfold int_or_big; destruct (in_isize (- z)); discriminate.
  - destruct (Z.leb_spec 0 z); [|lia]. apply resolve_digits_nonneg. exact Hp.
Qed.
