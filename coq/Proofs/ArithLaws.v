(** The non-numeric cases of [+ - * / %]: the manual's equations, and "everything else is an error". *)
From Coq Require Import ZArith Bool List Lia.
From Coq Require Import Init.Byte.
From JaqV Require Import Base.F64 Base.Bytes Val.Num Val.Val Val.Utf8 Val.Err Val.Arith Proofs.StringLaws.
Import ListNotations.

(** null is neutral for [+], on both sides and for every value *)
Theorem add_null_neutral v : vadd Null v = Ok v /\ vadd v Null = Ok v.
Proof. destruct v; split; reflexivity. Qed.

(** strings and arrays concatenate *)
Theorem add_concatenates :
  (forall a b, vadd (TStr a) (TStr b) = Ok (TStr (a ++ b))) /\ (forall a b, vadd (BStr a) (BStr b) = Ok (BStr (a ++ b)))
  /\ (forall a b, vadd (Arr a) (Arr b) = Ok (Arr (a ++ b))).
Proof. repeat split. Qed.

Definition equal (v w : val) : bool := match val_cmp v w with Eq => true | _ => false end.

(** array [-] removes exactly the elements equal to some element of the right operand, keeping the others in order *)
Theorem array_minus a b : exists c, vsub (Arr a) (Arr b) = Ok (Arr c)
  /\ c = filter (fun v => negb (existsb (equal v) b)) a
  /\ (forall v, In v c <-> In v a /\ forall w, In w b -> equal v w = false).
Proof.
  eexists. split; [reflexivity|]. split; [reflexivity|]. intros v. rewrite filter_In. split; intros [Hin H]; split; try exact Hin.
  - intros w Hw. apply negb_true_iff in H. destruct (equal v w) eqn:E; [|reflexivity]. exfalso.
    apply Bool.not_true_iff_false in H. apply H. apply existsb_exists. exists w. split; assumption.
  - apply negb_true_iff. change (existsb (equal v) b = false). destruct (existsb (equal v) b) eqn:E; [|reflexivity].
    apply existsb_exists in E as [w [Hw Ew]]. rewrite (H w Hw) in Ew. discriminate.
Qed.

(** string [/] splits, and joining the pieces with the divisor gives the dividend back *)
Theorem div_splits s sep : exists ps, vdiv (TStr s) (TStr sep) = Ok (Arr (map TStr ps)) /\ intercalate sep ps = s.
Proof. exists (split s sep). split; [reflexivity | apply split_join]. Qed.

Theorem div_splits_bytes s sep : exists ps, vdiv (BStr s) (BStr sep) = Ok (Arr (map BStr ps)) /\ intercalate sep ps = s.
Proof. exists (split s sep). split; [reflexivity | apply split_join]. Qed.

(** ** everything else is an error: the shapes each operator accepts *)
Definition add_shape (x y : val) : bool :=
  match x, y with
  | Null, _ | _, Null => true
  | Num _, Num _ | BStr _, BStr _ | TStr _, TStr _ | Arr _, Arr _ | Obj _, Obj _ => true
  | _, _ => false
  end.
Definition sub_shape (x y : val) : bool := match x, y with Num _, Num _ | Arr _, Arr _ => true | _, _ => false end.
Definition is_str (v : val) : bool := match v with TStr _ | BStr _ => true | _ => false end.
Definition is_intnum (v : val) : bool := match v with Num (Int _) | Num (Big _) => true | _ => false end.
Definition mul_shape (x y : val) : bool :=
  match x, y with
  | Num _, Num _ | Obj _, Obj _ => true
  | _, _ => (is_str x && is_intnum y) || (is_intnum x && is_str y)
  end.
Definition div_shape (x y : val) : bool := match x, y with Num _, Num _ | TStr _, TStr _ | BStr _, BStr _ => true | _, _ => false end.

Theorem operator_shapes x y :
  (if add_shape x y then exists v, vadd x y = Ok v else vadd x y = Err (EMath x Add y))
  /\ (if sub_shape x y then exists v, vsub x y = Ok v else vsub x y = Err (EMath x Sub y))
  /\ (if mul_shape x y then vmul x y <> Some (Err (EMath x Mul y)) else vmul x y = Some (Err (EMath x Mul y)))
  /\ (if div_shape x y then exists v, vdiv x y = Ok v else vdiv x y = Err (EMath x Div y))
  /\ (match x, y with
      | Num a, Num b => if is_int a && is_int b && num_eqb b (Int 0) then vrem x y = Err (EMath x Rem y)
                        else vrem x y = Ok (Num (Num.rem a b))
      | _, _ => vrem x y = Err (EMath x Rem y)
      end).
Proof.
  repeat split.
  - destruct x, y; cbn; try (eexists; reflexivity); reflexivity.
  - destruct x, y; cbn; try (eexists; reflexivity); reflexivity.
  - destruct x as [| |[]| | | |], y as [| |[]| | | |]; cbn; try reflexivity; try discriminate;
      unfold str_repeat; repeat (match goal with |- context [if ?c then _ else _] => destruct c end); cbn; discriminate.
  - destruct x, y; cbn; try (eexists; reflexivity); reflexivity.
  - destruct x, y; cbn; try reflexivity. destruct (is_int n && is_int n0 && num_eqb n0 (Int 0)); reflexivity.
Qed.

(** the remainder by the integer zero is an error; by a float zero it is the IEEE result *)
Example rem_by_zero : vrem (Num (Int 5)) (Num (Int 0)) = Err (EMath (Num (Int 5)) Rem (Num (Int 0))).
Proof. reflexivity. Qed.
