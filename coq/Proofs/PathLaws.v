(** Paths agree with values: the path evaluators project onto the value evaluators. *)
From Coq Require Import ZArith Bool List Lia FunctionalExtensionality.
From JaqV Require Import Base.Bytes Base.Stream Val.Num Val.Val Val.Err Val.Index Core.Syntax Core.Natives Core.Run.
Import ListNotations.

Ltac fe := apply functional_extensionality; intros [].

Lemma smap_sapp {A B} (f : A -> B) (s : str A) r :
  smap f (sapp s r) = sapp (smap f s) (fun _ => smap f (r tt)).
Proof. induction s as [|x k IH|e| |]; cbn; try reflexivity. f_equal. fe. apply IH. Qed.

Lemma smap_sbind {A B C} (f : B -> C) (s : str A) (g : A -> str B) :
  smap f (sbind s g) = sbind s (fun x => smap f (g x)).
Proof.
  induction s as [|x k IH|e| |]; cbn; try reflexivity.
  rewrite smap_sapp. f_equal. fe. apply IH.
Qed.

Lemma sbind_smap {A B C} (f : A -> B) (s : str A) (g : B -> str C) :
  sbind (smap f s) g = sbind s (fun x => g (f x)).
Proof.
  induction s as [|x k IH|e| |]; cbn; try reflexivity.
  f_equal. fe. apply IH.
Qed.

Lemma smap_stry_nil {A B} (f : A -> B) (s : str A) :
  smap f (stry s (fun _ => SNil)) = stry (smap f s) (fun _ => SNil).
Proof.
  induction s as [|x k IH|e| |]; cbn; try reflexivity.
  - f_equal. fe. apply IH.
  - destruct e; reflexivity.
Qed.

Lemma smap_sopt {A B} (f : A -> B) opt (s : str A) : smap f (sopt opt s) = sopt opt (smap f s).
Proof. destruct opt; cbn; [apply smap_stry_nil | reflexivity]. Qed.

Lemma smap_of_list {A B} (f : A -> B) l : smap f (of_list l) = of_list (map f l).
Proof. induction l as [|x l IH]; cbn; [reflexivity|]. f_equal. fe. apply IH. Qed.

Lemma smap_of_res {A B} (f : A -> B) (r : res A) : smap f (of_res r) = of_res (rmap f r).
Proof. destruct r; reflexivity. Qed.

Lemma map_snd_enumerate {A} (l : list A) i : map snd (enumerate_from i l) = l.
Proof. revert i; induction l as [|x l IH]; intros i; cbn; [reflexivity|]. f_equal. apply IH. Qed.

(** iterating with positions yields the same values as iterating without *)
Lemma key_values_values v :
  match vkey_values v, vvalues v with
  | Ok kvs, Ok vs => map snd kvs = vs
  | Err e1, Err e2 => e1 = e2
  | _, _ => False
  end.
Proof.
  destruct v; cbn; try reflexivity.
  rewrite map_map. cbn. apply map_snd_enumerate.
Qed.

Lemma part_paths_project p v pa : smap fst (part_paths p (v, pa)) = part_run p v.
Proof.
  destruct p as [i|[f|] [u|]]; cbn.
  - rewrite smap_of_res. destruct (vindex v i); reflexivity.
  - rewrite smap_of_res. destruct (vrange v (Some f, Some u)); reflexivity.
  - rewrite smap_of_res. destruct (vrange v (Some f, None)); reflexivity.
  - rewrite smap_of_res. destruct (vrange v (None, Some u)); reflexivity.
  - pose proof (key_values_values v) as H.
    destruct (vkey_values v) as [kvs|e1], (vvalues v) as [vs|e2]; try contradiction.
    + rewrite smap_of_list, map_map. cbn. rewrite <- H. reflexivity.
    + subst. reflexivity.
Qed.

(** [path(p)]-style evaluation of an exploded path yields, in order, exactly the values that running it yields *)
Lemma path_paths_project ps : forall v pa, smap fst (path_paths ps (v, pa)) = path_run ps v.
Proof.
  induction ps as [|[p opt] r IH]; intros v pa; cbn [path_paths path_run].
  - reflexivity.
  - rewrite smap_sbind.
    rewrite <- (part_paths_project p v pa).
    rewrite <- smap_sopt. rewrite sbind_smap.
    f_equal. apply functional_extensionality. intros [x px]. apply IH.
Qed.
