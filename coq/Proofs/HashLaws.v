(** Equal numbers are interchangeable as keys: whatever their representation (machine integer, big integer, float,
    decimal literal), numbers that are [==] feed the hasher the same writes. *)
From Coq Require Import ZArith Bool List Lia.
From JaqV Require Import Base.F64 Base.Bytes Val.Num Proofs.F64Order.
Import ListNotations.
Local Open Scope Z_scope.

Lemma total_key_inj l r : valid_bits l = true -> valid_bits r = true -> total_key l = total_key r -> l = r.
Proof.
  intros Hl Hr. apply valid_bits_range in Hl, Hr. unfold total_key, two64 in *.
  assert (H63 : 0 < two63) by reflexivity. assert (H64 : 18446744073709551616 = 2 * two63) by reflexivity.
  rewrite H64 in *. generalize dependent two63. intros T Hl Hr HT.
  destruct (Z.ltb_spec l T), (Z.ltb_spec r T); lia.
Qed.

Lemma zero_finite b : is_zero b = true -> is_finite b = true.
Proof.
  unfold is_zero. intros H. apply orb_prop in H as [H|H]; apply Z.eqb_eq in H; subst; reflexivity.
Qed.

(** floats that compare equal are both zeros or the same bit pattern *)
Lemma float_eq_cases l r : valid_bits l = true -> valid_bits r = true -> float_eq l r = true ->
  (is_zero l = true /\ is_zero r = true) \/ l = r.
Proof.
  intros Hl Hr H. apply float_eq_cmp in H. unfold float_cmp in H.
  destruct (is_zero l && is_zero r) eqn:Z; [left; apply andb_prop in Z; exact Z|].
  destruct (is_nan l); [discriminate|]. destruct (is_nan r); [discriminate|].
  right. apply Z.compare_eq in H. apply total_key_inj; assumption.
Qed.

Lemma float_eq_hash l r : valid_bits l = true -> valid_bits r = true -> float_eq l r = true -> hash_float l = hash_float r.
Proof.
  intros Hl Hr H. destruct (float_eq_cases l r Hl Hr H) as [[Zl Zr]| ->]; [|reflexivity].
  unfold hash_float. rewrite (zero_finite l Zl), (zero_finite r Zr), Zl, Zr. reflexivity.
Qed.

Lemma float_eq_finite l r : valid_bits l = true -> valid_bits r = true -> float_eq l r = true -> is_finite r = true -> is_finite l = true.
Proof.
  intros Hl Hr H Hf. destruct (float_eq_cases l r Hl Hr H) as [[Zl Zr]| ->]; [apply zero_finite; exact Zl|exact Hf].
Qed.

(** the float image of a number (what comparisons with floats and the hasher look at) is a 64-bit pattern; for machine
    integers it is finite.  These are facts about [SpecFloat]'s rounding, assumed here explicitly (see the examples). *)
Definition fimage (x : num) : Z :=
  match x with Int a | Big a => of_Z a | Flt f => f | Dec s => dec_to_f64 s end.
Definition image_ok (x : num) : Prop :=
  valid_bits (fimage x) = true /\ match x with Int a => is_finite (of_Z a) = true | _ => True end.

Lemma hash_big_finite a : is_finite (of_Z a) = true -> hash_num (Big a) = hash_float (of_Z a).
Proof. intros H. cbn [hash_num]. rewrite H. reflexivity. Qed.

Ltac by_float H := cbn [hash_num]; first [apply float_eq_hash; assumption | symmetry; apply float_eq_hash; assumption].

Theorem hash_coherent x y : image_ok x -> image_ok y -> num_eqb x y = true -> hash_num x = hash_num y.
Proof.
  intros [Vx Fx] [Vy Fy] H.
  destruct x as [a|a|f|s], y as [b|b|g|t]; cbn [fimage] in *; cbn [num_eqb] in H.
  - (* Int, Int *) apply Z.eqb_eq in H. subst. reflexivity.
  - (* Int, Big *) apply Z.eqb_eq in H. subst. symmetry. apply hash_big_finite. exact Fx.
  - (* Int, Flt *) apply andb_prop in H as [_ H]. by_float H.
  - (* Int, Dec *) apply andb_prop in H as [_ H]. by_float H.
  - (* Big, Int *) apply Z.eqb_eq in H. subst. apply hash_big_finite. exact Fy.
  - (* Big, Big *) apply Z.eqb_eq in H. subst. reflexivity.
  - (* Big, Flt *) apply andb_prop in H as [Hf H]. rewrite hash_big_finite by (apply (float_eq_finite (of_Z a) g); assumption). by_float H.
  - (* Big, Dec *) apply andb_prop in H as [Hf H]. rewrite hash_big_finite by (apply (float_eq_finite (of_Z a) (dec_to_f64 t)); assumption). by_float H.
  - (* Flt, Int *) apply andb_prop in H as [_ H]. by_float H.
  - (* Flt, Big *) apply andb_prop in H as [Hf H]. rewrite (hash_big_finite b) by (apply (float_eq_finite (of_Z b) f); assumption). by_float H.
  - (* Flt, Flt *) by_float H.
  - (* Flt, Dec *) by_float H.
  - (* Dec, Int *) apply andb_prop in H as [_ H]. by_float H.
  - (* Dec, Big *) apply andb_prop in H as [Hf H]. rewrite (hash_big_finite b) by (apply (float_eq_finite (of_Z b) (dec_to_f64 s)); assumption). by_float H.
  - (* Dec, Flt *) by_float H.
  - (* Dec, Dec *) by_float H.
Qed.

(** the images are as assumed, e.g.: 0, -0.0, 1, 2^53, 2^63 in every representation *)
Example images_ok :
  image_ok (Int 0) /\ image_ok (Flt neg_zero) /\ image_ok (Int 1) /\ image_ok (Big 9007199254740992) /\ image_ok (Flt 4845873199050653696)
  /\ image_ok (Int 9223372036854775807) /\ image_ok (Big 9223372036854775808) /\ image_ok (Dec (of_ascii [49; 46; 48])).
Proof. unfold image_ok. vm_compute. repeat split. Qed.

Example zero_keys_interchangeable : hash_num (Int 0) = hash_num (Flt neg_zero) /\ num_eqb (Int 0) (Flt neg_zero) = true.
Proof. vm_compute. split; reflexivity. Qed.
