(** Compiler correctness with definitions that take variable parameters: as Proofs/CompileDefs.v, with `def f($a; $b): body`
    and calls `f(s; t)` whose arguments are evaluated in order (first outermost) and bound on top of the environment of the
    definition.  Definitions are (possibly recursive, nested) and capture the variables and labels in scope.  The named semantics keeps closures (body, the
    environment at the definition, the older definitions); the compiled code reaches a definition through the table of
    definitions and drops the bindings made since the definition ([skip]).  The theorem relates the two for every table
    that contains what the compiler allocated. *)
From Coq Require Import ZArith Bool List Lia FunctionalExtensionality Wf_nat.
From JaqV Require Import Base.Bytes Base.Stream Val.Num Val.Val Val.Err Val.Arith Core.Syntax Core.Compile Core.Natives Core.Run
  Proofs.TailLaws Proofs.MonadLaws.
From JaqV Require Proofs.CompileCorrect Proofs.GetpathLaws.
Import ListNotations.

Section CP.
  Variable g : genv.
  Variable d : val -> bytes.
  Variable nr : nat -> bytes -> list narg -> val -> option (str val).
  Notation run := (run d nr).
  Notation explode := (explode d nr).

  (** ** named semantics with closures *)
  Definition nenv := list (cbind * bind).
  Fixpoint lookup (rho : nenv) (x : cbind) : option bind :=
    match rho with [] => None | (y, a) :: r => if cbind_eqb x y then Some a else lookup r x end.

  Definition clo := (bytes * list bytes * pterm * nenv)%type.   (* name, parameters, body, environment at the definition *)
  Fixpoint find_def (f : bytes) (ar : nat) (phi : list clo) : option (list bytes * pterm * nenv * list clo) :=
    match phi with
    | [] => None
    | (f', ps, body, rd) :: r => if bytes_eqb f f' && Nat.eqb ar (length ps) then Some (ps, body, rd, phi) else find_def f ar r
    end.

  (** the parameters bound to the argument values, last parameter first (as the context holds them) *)
  Definition pbind (ps : list bytes) (ys : list val) : nenv := rev (combine (map CVar ps) (map BVar ys)).

  (** the definitions in front of a term: `def f: b; def g: c; t` *)
  Fixpoint strip (t : pterm) : list (bytes * list bytes * pterm) * pterm :=
    match t with
    | PDef [PDefn f ps body] t' => let '(ds, t0) := strip t' in ((f, ps, body) :: ds, t0)
    | _ => ([], t)
    end.
  Definition push_defs (ds : list (bytes * list bytes * pterm)) (rho : nenv) (phi : list clo) : list clo :=
    fold_left (fun ph fb => (fst (fst fb), snd (fst fb), snd fb, rho) :: ph) ds phi.

  Notation fold_go := CompileCorrect.fold_go.

  Fixpoint sem (n : nat) (t : pterm) (rho : nenv) (phi0 : list clo) (lab : nat) (v : val) {struct n} : str val :=
    match n with
    | O => SBot
    | S n =>
        let '(ds, t0) := strip t in
        let phi := push_defs ds rho phi0 in
        let cart := fun l r => sbind (sem n l rho phi lab v) (fun x => smap (fun y => (x, y)) (sem n r rho phi lab v)) in
        match t0 with
        | PId => sone v
        | PNum x => sone (match int_literal x with Some i => vint i | None => Num (from_str x) end)
        | PVar x => match lookup rho (CVar x) with Some (BVar a) => sone a | _ => SUnk end
        | PBreak x => match lookup rho (CLabel x) with Some (BLabel l) => SExn (XBreak l) | _ => SUnk end
        | PLabel x t => slabel (S lab) (sem n t ((CLabel x, BLabel (S lab)) :: rho) phi (S lab) v)
        | PCall f args =>
            match find_def f (length args) phi with
            | Some (ps, body, rd, phis) =>
                sbind (sargs n args rho phi lab v) (fun ys => sem n body (pbind ps ys ++ rd) phis lab v)
            | None => SUnk
            end
        | PNeg t => sbind (sem n t rho phi lab v) (fun x => of_res (vneg x))
        | PArr (Some t) => collect_then (sem n t rho phi lab v) (fun l => sone (Arr l))
        | PTryCatch t (Some c) => stry (sem n t rho phi lab v) (fun e => sem n c rho phi lab (err_val d e))
        | PIte [(i, th)] (Some el) => sbind (sem n i rho phi lab v) (fun x => sem n (if as_bool x then th else el) rho phi lab v)
        | PBinOp l op r =>
            match op with
            | BPipe None => sbind (sem n l rho phi lab v) (fun y => sem n r rho phi lab y)
            | BPipe (Some (PPVar x)) => sbind (sem n l rho phi lab v) (fun y => sem n r ((CVar x, BVar y) :: rho) phi lab v)
            | BComma => sapp (sem n l rho phi lab v) (fun _ => sem n r rho phi lab v)
            | BAlt => match sfilter as_bool (sem n l rho phi lab v) with SNil => sem n r rho phi lab v | s => s end
            | BMath o => sbind (cart l r) (fun xy => of_res_opt (math_run o (fst xy) (snd xy)))
            | BCmp o => smap (fun xy => Bool (cmp_run o (fst xy) (snd xy))) (cart l r)
            | BOr => sbind (sem n l rho phi lab v) (fun x => if Bool.eqb (as_bool x) true then sone (Bool true)
                                                         else smap (fun y => Bool (as_bool y)) (sem n r rho phi lab v))
            | BAnd => sbind (sem n l rho phi lab v) (fun x => if Bool.eqb (as_bool x) false then sone (Bool false)
                                                          else smap (fun y => Bool (as_bool y)) (sem n r rho phi lab v))
            | _ => SUnk
            end
        | PPath t path => sbind (sem n t rho phi lab v) (fun y => sbind (sexplode n path rho phi lab v) (fun ps => path_run ps y))
        | PFold name xs (PPVar x) (init :: upd :: rest) =>
            let xsv := match n with O => SBot | S n' => sem n' xs rho phi lab v end in
            let step := fun y acc => sem n upd ((CVar x, BVar y) :: rho) phi lab acc in
            if bytes_eqb name name_reduce then
              match rest with
              | [] => sbind (sem n init rho phi lab v) (fold_go step (fun _ _ => SNil) sone xsv)
              | _ => SUnk
              end
            else if bytes_eqb name name_foreach then
              match rest with
              | [] => sbind (sem n init rho phi lab v) (fold_go step (fun _ z => sone z) (fun _ => SNil) xsv)
              | [proj] => sbind (sem n init rho phi lab v) (fold_go step (fun y z => sem n proj ((CVar x, BVar y) :: rho) phi lab z) (fun _ => SNil) xsv)
              | _ => SUnk
              end
            else SUnk
        | _ => SUnk
        end
    end

  (** the argument values of a call, all combinations, first argument outermost *)
  with sargs (n : nat) (args : list pterm) (rho : nenv) (phi : list clo) (lab : nat) (v : val) {struct n} : str (list val) :=
    match n with
    | O => SBot
    | S n =>
        match args with
        | [] => sone []
        | a :: rest => sbind (sem n a rho phi lab v) (fun y => smap (cons y) (sargs n rest rho phi lab v))
        end
    end

  with sexplode (n : nat) (path : list (ppart * bool)) (rho : nenv) (phi : list clo) (lab : nat) (v : val) {struct n}
    : str (list (vpart * bool)) :=
    match n with
    | O => SBot
    | S n =>
        match path with
        | [] => sone []
        | (p, opt) :: rest =>
            let ps :=
              match p with
              | PIndex i => smap VIndex (sem n i rho phi lab v)
              | PRange None None => sone (VRange None None)
              | PRange (Some f) None => smap (fun x => VRange (Some x) None) (sem n f rho phi lab v)
              | PRange None (Some u) => smap (fun x => VRange None (Some x)) (sem n u rho phi lab v)
              | PRange (Some f) (Some u) =>
                  sbind (sem n f rho phi lab v) (fun x => smap (fun y => VRange (Some x) (Some y)) (sem n u rho phi lab v))
              end in
            sbind ps (fun p' => smap (fun r => (p', opt) :: r) (sexplode n rest rho phi lab v))
        end
    end.

  (** ** the fragment: variables and labels in scope [b], definitions in scope [fs], nesting at most [n] *)
  Inductive frag : list cbind -> list (bytes * nat) -> nat -> pterm -> Prop :=
  | f_id b fs n : frag b fs (S n) PId
  | f_num b fs n x : frag b fs (S n) (PNum x)
  | f_var b fs n x : In (CVar x) b -> frag b fs (S n) (PVar x)
  | f_neg b fs n t : frag b fs n t -> frag b fs (S n) (PNeg t)
  | f_arr b fs n t : frag b fs n t -> frag b fs (S n) (PArr (Some t))
  | f_try b fs n t c : frag b fs n t -> frag b fs n c -> frag b fs (S n) (PTryCatch t (Some c))
  | f_ite b fs n i th el : frag b fs n i -> frag b fs n th -> frag b fs n el -> frag b fs (S n) (PIte [(i, th)] (Some el))
  | f_pipe b fs n l r : frag b fs n l -> frag b fs n r -> frag b fs (S n) (PBinOp l (BPipe None) r)
  | f_bind b fs n l x r : frag b fs n l -> frag (CVar x :: b) fs n r -> frag b fs (S (S n)) (PBinOp l (BPipe (Some (PPVar x))) r)
  | f_comma b fs n l r : frag b fs n l -> frag b fs n r -> frag b fs (S n) (PBinOp l BComma r)
  | f_alt b fs n l r : frag b fs n l -> frag b fs n r -> frag b fs (S n) (PBinOp l BAlt r)
  | f_math b fs n l o r : frag b fs n l -> frag b fs n r -> frag b fs (S n) (PBinOp l (BMath o) r)
  | f_cmp b fs n l o r : frag b fs n l -> frag b fs n r -> frag b fs (S n) (PBinOp l (BCmp o) r)
  | f_or b fs n l r : frag b fs n l -> frag b fs n r -> frag b fs (S n) (PBinOp l BOr r)
  | f_and b fs n l r : frag b fs n l -> frag b fs n r -> frag b fs (S n) (PBinOp l BAnd r)
  | f_path b fs n t ps : frag b fs n t -> frag_parts b fs n ps -> frag b fs (S n) (PPath t ps)
  | f_reduce b fs n xs x init upd : frag b fs n xs -> frag b fs (S n) init -> frag (CVar x :: b) fs (S n) upd ->
      frag b fs (S (S n)) (PFold name_reduce xs (PPVar x) [init; upd])
  | f_foreach b fs n xs x init upd : frag b fs n xs -> frag b fs (S n) init -> frag (CVar x :: b) fs (S n) upd ->
      frag b fs (S (S n)) (PFold name_foreach xs (PPVar x) [init; upd])
  | f_foreach3 b fs n xs x init upd proj : frag b fs n xs -> frag b fs (S n) init -> frag (CVar x :: b) fs (S n) upd ->
      frag (CVar x :: b) fs (S n) proj -> frag b fs (S (S n)) (PFold name_foreach xs (PPVar x) [init; upd; proj])
  | f_label b fs n x t : frag (CLabel x :: b) fs n t -> frag b fs (S n) (PLabel x t)
  | f_break b fs n x : In (CLabel x) b -> frag b fs (S n) (PBreak x)
  | f_call b fs n f args : In (f, length args) fs -> frag_args b fs n args -> frag b fs (S n) (PCall f args)
  | f_def b fs n f ps body t : forallb is_var_name ps = true ->
      frag (map CVar (rev ps) ++ b) ((f, length ps) :: fs) n body -> frag b ((f, length ps) :: fs) (S n) t ->
      frag b fs (S (S n)) (PDef [PDefn f ps body] t)
  with frag_args : list cbind -> list (bytes * nat) -> nat -> list pterm -> Prop :=
  | fa_nil b fs n : frag_args b fs n []
  | fa_cons b fs n a r : frag b fs n a -> frag_args b fs n r -> frag_args b fs n (a :: r)
  with frag_parts : list cbind -> list (bytes * nat) -> nat -> list (ppart * bool) -> Prop :=
  | fp_nil b fs n : frag_parts b fs n []
  | fp_index b fs n i o ps : frag b fs n i -> frag_parts b fs n ps -> frag_parts b fs n ((PIndex i, o) :: ps)
  | fp_all b fs n o ps : frag_parts b fs n ps -> frag_parts b fs n ((PRange None None, o) :: ps)
  | fp_from b fs n f o ps : frag b fs n f -> frag_parts b fs n ps -> frag_parts b fs n ((PRange (Some f) None, o) :: ps)
  | fp_upto b fs n u o ps : frag b fs n u -> frag_parts b fs n ps -> frag_parts b fs n ((PRange None (Some u), o) :: ps)
  | fp_both b fs n f u o ps : frag b fs n f -> frag b fs n u -> frag_parts b fs n ps -> frag_parts b fs n ((PRange (Some f) (Some u), o) :: ps).

  Scheme frag_ind2 := Minimality for frag Sort Prop
    with frag_args_ind2 := Minimality for frag_args Sort Prop
    with frag_parts_ind2 := Minimality for frag_parts Sort Prop.
  Combined Scheme frag_mutind from frag_ind2, frag_args_ind2, frag_parts_ind2.

  (** ** compile-time environment, run-time context, named environment *)
  Definition scoped (b : list cbind) (e : env) : Prop := forall x, In x b -> index_of x (e_vars e) 0 <> None.
  Definition fscoped (fs : list (bytes * nat)) (e : env) : Prop :=
    forall f ar, In (f, ar) fs -> exists fe, find_fun f ar (e_funs e) = Some fe.
  Definition kind_ok (x : cbind) (a : bind) : Prop :=
    match x, a with CVar _, BVar _ | CLabel _, BLabel _ => True | _, _ => False end.
  (** the named environment lists the bindings in the order of the compile-time environment; the context holds their values
      at the same positions (and possibly older bindings behind them) *)
  Definition agrees (e : env) (c : ctx) (rho : nenv) : Prop :=
    map fst rho = e_vars e /\ (exists rest, vars c = map snd rho ++ rest) /\ Forall (fun p => kind_ok (fst p) (snd p)) rho.

  Lemma cbind_eqb_refl x : cbind_eqb x x = true.
  Proof. destruct x; cbn; destruct (bytes_eqb_spec x x); congruence. Qed.
  Lemma cbind_eqb_eq x y : cbind_eqb x y = true -> x = y.
  Proof. destruct x, y; cbn; try discriminate; intros H; destruct (bytes_eqb_spec x x0); congruence. Qed.

  Lemma index_of_shift b l : forall i k, index_of b l (S i) = Some (S k) <-> index_of b l i = Some k.
  Proof.
    induction l as [|a l IH]; intros i k; cbn [index_of]; [split; discriminate|].
    destruct (cbind_eqb b a); [split; intros H; injection H as <-; reflexivity|apply IH].
  Qed.
  Lemma index_of_ge b l : forall i k, index_of b l i = Some k -> (i <= k)%nat.
  Proof.
    induction l as [|a l IH]; intros i k; cbn [index_of]; [discriminate|].
    destruct (cbind_eqb b a); [intros H; injection H as <-; lia|intros H; apply IH in H; lia].
  Qed.

  Lemma lookup_index rho : forall x i, index_of x (map fst rho) 0 = Some i ->
    exists a, nth_error (map snd rho) i = Some a /\ lookup rho x = Some a /\ In (x, a) rho.
  Proof.
    induction rho as [|[y a] rho IH]; intros x i H; [discriminate|]. cbn [map fst index_of lookup] in *.
    destruct (cbind_eqb x y) eqn:E.
    - injection H as <-. exists a. apply cbind_eqb_eq in E. subst. repeat split; [left; reflexivity].
    - destruct i as [|i]; [apply index_of_ge in H; lia|]. apply (proj1 (index_of_shift x (map fst rho) 0 i)) in H.
      destruct (IH x i H) as (a' & Hn & Hl & Hin). exists a'. repeat split; [exact Hn|exact Hl|right; exact Hin].
  Qed.

  Lemma agrees_lookup e c rho x i : agrees e c rho -> index_of x (e_vars e) 0 = Some i ->
    exists a, nth_error (vars c) i = Some a /\ lookup rho x = Some a /\ kind_ok x a.
  Proof.
    intros (Hm & (rest & Hv) & Hk) H. rewrite <- Hm in H. destruct (lookup_index rho x i H) as (a & Hn & Hl & Hin).
    exists a. split; [|split; [exact Hl|]].
    - rewrite Hv. rewrite nth_error_app1; [exact Hn|]. apply nth_error_Some. congruence.
    - rewrite Forall_forall in Hk. apply (Hk (x, a) Hin).
  Qed.

  Lemma scoped_push b e x : scoped b e -> scoped (x :: b) (push_var x e).
  Proof.
    intros H y [<-|Hy]; unfold push_var; cbn [e_vars index_of].
    - rewrite cbind_eqb_refl. discriminate.
    - destruct (cbind_eqb y x); [discriminate|].
      specialize (H y Hy). destruct (index_of y (e_vars e) 0) as [k|] eqn:E; [|congruence].
      apply (proj2 (index_of_shift y (e_vars e) 0 k)) in E. rewrite E. discriminate.
  Qed.

  Lemma agrees_push_gen e (c c' : ctx) rho x a :
    vars c' = a :: vars c -> kind_ok x a -> agrees e c rho -> agrees (push_var x e) c' ((x, a) :: rho).
  Proof.
    intros Hv Hk (Hm & (rest & Hr) & Hf). split; [|split].
    - cbn [map fst push_var e_vars]. rewrite Hm. reflexivity.
    - exists rest. rewrite Hv, Hr. reflexivity.
    - constructor; assumption.
  Qed.
  Lemma agrees_push e c rho x a : agrees e c rho -> agrees (push_var (CVar x) e) (cons_var a c) ((CVar x, BVar a) :: rho).
  Proof. apply agrees_push_gen; [reflexivity|exact I]. Qed.
  Lemma agrees_push_label e c rho x :
    agrees e c rho -> agrees (push_var (CLabel x) e) (cons_label c) ((CLabel x, BLabel (S (labels c))) :: rho).
  Proof. apply agrees_push_gen; [reflexivity|exact I]. Qed.

  (** ** the table of definitions *)
  Definition extends (s s' : cst) : Prop :=
    c_errs s' = c_errs s /\ (length (c_defs s) <= length (c_defs s'))%nat
    /\ forall i, (i < length (c_defs s))%nat -> nth_error (c_defs s') i = nth_error (c_defs s) i.
  (** [defs] contains what was allocated between [s] and [s'] *)
  Definition covers (s s' : cst) (defs : list term) : Prop :=
    forall i, (length (c_defs s) <= i < length (c_defs s'))%nat -> nth_error defs i = nth_error (c_defs s') i.

  Lemma extends_refl s : extends s s.
  Proof. repeat split; auto. Qed.
  Lemma extends_trans s1 s2 s3 : extends s1 s2 -> extends s2 s3 -> extends s1 s3.
  Proof.
    intros (E1 & L1 & H1) (E2 & L2 & H2). repeat split; [congruence|lia|]. intros i Hi. rewrite H2 by lia. apply H1. exact Hi.
  Qed.
  Lemma covers_refl s defs : covers s s defs.
  Proof. intros i Hi. lia. Qed.
  Lemma covers_left s1 s2 s3 defs : extends s1 s2 -> extends s2 s3 -> covers s1 s3 defs -> covers s1 s2 defs.
  Proof.
    intros (_ & L1 & _) (_ & L2 & H2) H i Hi. rewrite H by lia. apply H2. lia.
  Qed.
  Lemma covers_right s1 s2 s3 defs : extends s1 s2 -> extends s2 s3 -> covers s1 s3 defs -> covers s2 s3 defs.
  Proof. intros (_ & L1 & _) (_ & L2 & _) H i Hi. apply H. lia. Qed.

  (** ** definitions in scope: compile-time entries against closures *)
  Definition entry_info (fe : fentry) : option (nat * list bool) :=
    match f_kind fe with FParent kinds id | FSibling kinds id _ => Some (id, kinds) | FArg => None end.

  (** [funs_rel defs fuel fes rho phi]: the entries [fes] are the closures [phi], in order; each closure's environment is
      what remains of [rho] after dropping the bindings made since its definition; its compiled body is in the table and,
      run in a context that holds the values of the parameters on top of that environment, computes the semantics of its
      body for every smaller fuel *)
  Inductive funs_rel (defs : list term) (fuel : nat) : list fentry -> nenv -> list clo -> Prop :=
  | fr_nil rho : funs_rel defs fuel [] rho []
  | fr_cons fe fes rho f ps body rd phi id k :
      f_name fe = f -> f_arity fe = length ps -> entry_info fe = Some (id, repeat true (length ps)) -> f_vars fe = length rd ->
      (exists pushed, rho = pushed ++ rd) ->
      nth_error defs id = Some k ->
      (forall fuel', (fuel' < fuel)%nat -> forall c v ys, length ys = length ps ->
         (exists rest, vars c = map BVar (rev ys) ++ map snd rd ++ rest) ->
         run defs fuel' k c v = sem fuel' body (pbind ps ys ++ rd) ((f, ps, body, rd) :: phi) (labels c) v) ->
      funs_rel defs fuel fes rd phi ->
      funs_rel defs fuel (fe :: fes) rho ((f, ps, body, rd) :: phi).

  Lemma funs_rel_suffix defs fuel fes rho rho' phi :
    funs_rel defs fuel fes rho phi -> (exists p, rho' = p ++ rho) -> funs_rel defs fuel fes rho' phi.
  Proof.
    intros H (p & ->). destruct H as [rho|fe fes rho f ps body rd phi id k H1 H2 H3 H4 (q & ->) H6 H7 H8]; [constructor|].
    econstructor; eauto. exists (p ++ q). rewrite app_assoc. reflexivity.
  Qed.

  Lemma funs_rel_fuel defs fuel fuel' fes : forall rho phi, (fuel' <= fuel)%nat ->
    funs_rel defs fuel fes rho phi -> funs_rel defs fuel' fes rho phi.
  Proof.
    induction fes as [|fe fes IH]; intros rho phi Hle H; inversion H; subst; [constructor|].
    econstructor; eauto. intros f'' Hf''. match goal with C : forall fuel', (fuel' < fuel)%nat -> _ |- _ => apply C end. lia.
  Qed.

  Lemma funs_rel_find defs fuel fes : forall rho phi f ar fe,
    funs_rel defs fuel fes rho phi -> find_fun f ar fes = Some fe ->
    exists ps body rd phis id k pushed,
      find_def f ar phi = Some (ps, body, rd, (f, ps, body, rd) :: phis) /\ ar = length ps
      /\ entry_info fe = Some (id, repeat true (length ps)) /\ f_vars fe = length rd
      /\ rho = pushed ++ rd /\ nth_error defs id = Some k
      /\ (forall fuel', (fuel' < fuel)%nat -> forall c v ys, length ys = length ps ->
            (exists rest, vars c = map BVar (rev ys) ++ map snd rd ++ rest) ->
            run defs fuel' k c v = sem fuel' body (pbind ps ys ++ rd) ((f, ps, body, rd) :: phis) (labels c) v).
  Proof.
    induction fes as [|fe0 fes IH]; intros rho phi f ar fe H Hf; [discriminate|].
    inversion H as [|? ? ? f0 ps body rd phi0 id k Nm A I V (pushed & P) T C R]; subst. cbn [find_fun] in Hf. cbn [find_def].
    rewrite A in Hf.
    destruct (bytes_eqb f (f_name fe0) && Nat.eqb ar (length ps)) eqn:E.
    - injection Hf as <-. apply andb_prop in E as [E1 E2]. apply Nat.eqb_eq in E2.
      destruct (bytes_eqb_spec f (f_name fe0)) as [->|]; [|discriminate].
      exists ps, body, rd, phi0, id, k, pushed. repeat split; auto.
    - destruct (IH rd phi0 f ar fe R Hf) as (ps' & body' & rd' & phis & id' & k' & pushed' & F & Ar & I' & V' & P' & T' & C').
      exists ps', body', rd', phis, id', k', (pushed ++ pushed'). rewrite F. repeat split; auto. rewrite P'. rewrite app_assoc. reflexivity.
  Qed.

  Notation c_parts := (CompileCorrect.c_parts g).

  Definition P_term (b : list cbind) (fs : list (bytes * nat)) (n : nat) (t : pterm) : Prop :=
    forall m e s tr, (n <= m)%nat -> scoped b e -> fscoped fs e ->
    exists k trr s', c_term g m e s t tr = ((k, trr), s') /\ extends s s'
      /\ forall defs, covers s s' defs -> forall fuel c rho phi v, agrees e c rho -> funs_rel defs fuel (e_funs e) rho phi ->
          run defs fuel k c v = sem fuel t rho phi (labels c) v.
  Definition P_parts (b : list cbind) (fs : list (bytes * nat)) (n : nat) (ps : list (ppart * bool)) : Prop :=
    forall m e s, (n <= m)%nat -> scoped b e -> fscoped fs e ->
    exists cps s', c_parts m e s ps = (cps, s') /\ extends s s'
      /\ forall defs, covers s s' defs -> forall fuel c rho phi v, agrees e c rho -> funs_rel defs fuel (e_funs e) rho phi ->
          explode defs fuel cps c v = sexplode fuel ps rho phi (labels c) v.

  (** the compiled arguments of a call: the loop inside [c_term] *)
  Fixpoint c_args (m : nat) (e : env) (s : cst) (ts : list pterm) : list term * cst :=
    match ts with
    | [] => ([], s)
    | t :: r => let '((t', _), s) := c_term g m e s t [] in let '(r', s) := c_args m e s r in (t' :: r', s)
    end.

  Lemma c_call m e s f args tr :
    c_term g (S m) e s (PCall f args) tr = let '(cargs, s') := c_args m e s args in call g e s' f cargs tr.
  Proof.
    cbn [c_term].
    match goal with |- (let '(args0, s0) := ?F e s args in _) = _ =>
      assert (E : forall ts s', F e s' ts = c_args m e s' ts) end.
    { induction ts as [|t r IH]; intros s'; [reflexivity|]. cbn [c_args]. destruct (c_term g m e s' t []) as [[t' tt] st].
      rewrite IH. reflexivity. }
    rewrite E. reflexivity.
  Qed.

  Notation bind_vars := (bind_vars d nr).
  Lemma run_calldef defs fuel id args skip ct c v :
    run defs (S fuel) (KCallDef id args skip ct) c v
    = match nth_error defs id with
      | Some body => sbind (bind_vars defs fuel args (skip_vars skip c) c v) (fun c' => run defs fuel body c' v)
      | None => SUnk
      end.
  Proof. reflexivity. Qed.
  Lemma bind_vars_cons defs fuel a rest acc c v :
    bind_vars defs (S fuel) ((true, a) :: rest) acc c v
    = sbind (run defs fuel a c v) (fun y => bind_vars defs fuel rest (cons_var y acc) c v).
  Proof. reflexivity. Qed.

  Definition push_vals (ys : list val) (acc : ctx) : ctx := fold_left (fun a y => cons_var y a) ys acc.

  Definition P_args (b : list cbind) (fs : list (bytes * nat)) (n : nat) (args : list pterm) : Prop :=
    forall m e s, (n <= m)%nat -> scoped b e -> fscoped fs e ->
    exists cargs s', c_args m e s args = (cargs, s') /\ extends s s' /\ length cargs = length args
      /\ forall defs, covers s s' defs -> forall fuel c rho phi v acc, agrees e c rho -> funs_rel defs fuel (e_funs e) rho phi ->
          bind_vars defs fuel (combine (repeat true (length cargs)) cargs) acc c v
          = smap (fun ys => push_vals ys acc) (sargs fuel args rho phi (labels c) v).

  Lemma funs_pred defs fuel fes rho phi : funs_rel defs (S fuel) fes rho phi -> funs_rel defs fuel fes rho phi.
  Proof. apply funs_rel_fuel. lia. Qed.

  Lemma funs_push defs fuel fes rho phi xa : funs_rel defs fuel fes rho phi -> funs_rel defs fuel fes (xa :: rho) phi.
  Proof. intros H. eapply funs_rel_suffix; [exact H|]. exists [xa]. reflexivity. Qed.

  Ltac start := intros m e s tr Hm Hsc Hfs; (destruct m as [|m]; [lia|]).
  Ltac sem0 := intros defs Hc fuel c rho phi v Hag Hfr; (destruct fuel as [|fuel]; [reflexivity|]);
               cbn [Run.run sem strip push_defs fold_left]; pose proof (funs_pred _ _ _ _ _ Hfr) as Hfr'.

  Ltac semx := intros defs Hc fuel c rho phi v Hag Hfr; (destruct fuel as [|fuel]; [reflexivity|]);
               rewrite ?CompileCorrect.explode_cons; cbn [sexplode]; pose proof (funs_pred _ _ _ _ _ Hfr) as Hfr'.

  Lemma sem_def n f ps body t rho phi lab v :
    sem n (PDef [PDefn f ps body] t) rho phi lab v = sem n t rho ((f, ps, body, rho) :: phi) lab v.
  Proof. destruct n; [reflexivity|]. cbn [sem strip]. destruct (strip t) as [ds t0]. reflexivity. Qed.

  Notation sforall := GetpathLaws.sforall.

  Lemma sforall_smap {A B} (P : B -> Prop) (h : A -> B) (s : str A) : sforall (fun x => P (h x)) s -> sforall P (smap h s).
  Proof. induction s as [|x k IH|e| |]; cbn; auto. intros [H1 H2]. split; [exact H1|apply IH; exact H2]. Qed.

  Lemma sbind_ext_on {A B} (P : A -> Prop) (s : str A) (f1 f2 : A -> str B) :
    sforall P s -> (forall x, P x -> f1 x = f2 x) -> sbind s f1 = sbind s f2.
  Proof.
    induction s as [|x k IH|e| |]; cbn; intros H E; try reflexivity. destruct H as [H1 H2]. rewrite (E x H1). f_equal.
    apply functional_extensionality. intros []. apply IH; assumption.
  Qed.

  Lemma sbind_smap {A B C} (h : A -> B) (s : str A) (f : B -> str C) : sbind (smap h s) f = sbind s (fun x => f (h x)).
  Proof.
    rewrite smap_sbind, sbind_assoc. f_equal. apply functional_extensionality. intros x. apply sbind_sone_l.
  Qed.

  Lemma smap_smap {A B C} (h : A -> B) (k : B -> C) (s : str A) : smap k (smap h s) = smap (fun x => k (h x)) s.
  Proof. induction s as [|x t IH|e| |]; cbn; try reflexivity. f_equal. apply functional_extensionality. intros []. apply IH. Qed.

  Lemma smap_bind {A B C} (h : B -> C) (s : str A) (f : A -> str B) : smap h (sbind s f) = sbind s (fun x => smap h (f x)).
  Proof.
    rewrite smap_sbind, sbind_assoc. f_equal. apply functional_extensionality. intros x. symmetry. apply smap_sbind.
  Qed.

  (** every list of argument values has as many values as there are arguments *)
  Lemma sargs_length fuel : forall args rho phi lab v, sforall (fun ys => length ys = length args) (sargs fuel args rho phi lab v).
  Proof.
    induction fuel as [|fuel IH]; intros args rho phi lab v; [exact I|]. destruct args as [|a r]; cbn [sargs]; [cbn; auto|].
    eapply GetpathLaws.sforall_sbind with (P := fun _ => True).
    - clear. generalize (sem fuel a rho phi lab v). intros s. induction s as [|x k IHs|e| |]; cbn; auto.
    - intros y _. apply sforall_smap. eapply GetpathLaws.sforall_impl; [|apply IH]. cbn. intros ys ->. reflexivity.
  Qed.

  Lemma push_parent_vars f ps id e : forallb is_var_name ps = true ->
    push_parent f ps id e
    = push_fun {| f_name := f; f_arity := length ps; f_kind := FParent (repeat true (length ps)) id; f_vars := total e |}
        {| e_vars := map CVar (rev ps) ++ e_vars e; e_funs := e_funs e |}
    /\ map is_var_name ps = repeat true (length ps).
  Proof.
    intros H. assert (K : map is_var_name ps = repeat true (length ps)).
    { induction ps as [|a ps IH]; [reflexivity|]. cbn [forallb] in H. apply andb_prop in H as [H1 H2]. cbn [map length repeat]. rewrite H1, (IH H2). reflexivity. }
    split; [|exact K]. unfold push_parent. rewrite K. f_equal.
    assert (F : forall e0, fold_left (fun e1 a => if is_var_name a then push_var (CVar a) e1 else push_arg a e1) ps e0
                          = {| e_vars := map CVar (rev ps) ++ e_vars e0; e_funs := e_funs e0 |}).
    { clear K. induction ps as [|a ps IH]; intros e0; [destruct e0; reflexivity|]. cbn [forallb] in H. apply andb_prop in H as [H1 H2].
      cbn [fold_left]. rewrite H1. rewrite (IH H2). unfold push_var. cbn [e_vars e_funs rev]. rewrite map_app, <- app_assoc. reflexivity. }
    apply F.
  Qed.

  Lemma skipn_pushed (pushed rd : nenv) (rest : list bind) :
    skipn (length pushed) (map snd (pushed ++ rd) ++ rest) = map snd rd ++ rest.
  Proof.
    rewrite map_app, <- app_assoc. rewrite <- (map_length snd pushed). rewrite skipn_app, skipn_all, Nat.sub_diag. reflexivity.
  Qed.

  Lemma set_nth_length A i (a : A) l : length (set_nth i a l) = length l.
  Proof. revert i; induction l as [|x l IH]; intros [|i]; cbn; auto. Qed.
  Lemma set_nth_same A i (a : A) l : (i < length l)%nat -> nth_error (set_nth i a l) i = Some a.
  Proof. revert i; induction l as [|x l IH]; intros [|i] H; cbn in *; try lia; [reflexivity|apply IH; lia]. Qed.
  Lemma set_nth_other A i j (a : A) l : i <> j -> nth_error (set_nth i a l) j = nth_error l j.
  Proof. revert i j; induction l as [|x l IH]; intros [|i] [|j] H; cbn; try reflexivity; try congruence. apply IH. congruence. Qed.

  Lemma map_fst_combine {A B} (l : list A) : forall (r : list B), length l = length r -> map fst (combine l r) = l.
  Proof. induction l as [|a l IH]; intros [|b r] H; cbn in *; try congruence. f_equal. apply IH. congruence. Qed.
  Lemma map_snd_combine {A B} (l : list A) : forall (r : list B), length l = length r -> map snd (combine l r) = r.
  Proof. induction l as [|a l IH]; intros [|b r] H; cbn in *; try congruence. f_equal. apply IH. congruence. Qed.

  Lemma index_behind_prefix x l vs : index_of x vs 0 <> None -> index_of x (l ++ vs) 0 <> None.
  Proof.
    intros H. induction l as [|y l IH]; [exact H|]. cbn [app index_of]. destruct (cbind_eqb x y); [discriminate|].
    destruct (index_of x (l ++ vs) 0) as [k|] eqn:Ei; [|congruence].
    apply (proj2 (index_of_shift x (l ++ vs) 0 k)) in Ei. rewrite Ei. discriminate.
  Qed.
  Lemma index_in_prefix x l vs : In x l -> index_of x (l ++ vs) 0 <> None.
  Proof.
    induction l as [|y l IH]; intros H; [destruct H|]. cbn [app index_of]. destruct (cbind_eqb x y) eqn:E; [discriminate|].
    destruct H as [->|H]; [rewrite cbind_eqb_refl in E; discriminate|]. specialize (IH H).
    destruct (index_of x (l ++ vs) 0) as [k|] eqn:Ei; [|congruence].
    apply (proj2 (index_of_shift x (l ++ vs) 0 k)) in Ei. rewrite Ei. discriminate.
  Qed.

  Lemma c_def1 m e s f ps body t tr :
    c_term g (S (S m)) e s (PDef [PDefn f ps body] t) tr
    = let id := length (c_defs s) in
      let '((kb, trb), s2) := c_term g m (push_parent f ps id e) {| c_defs := c_defs s ++ [KId]; c_errs := c_errs s |} body (id :: tr) in
      c_term g (S m) (push_sibling f (map is_var_name ps) id trb e) (set_def id kb s2) t tr.
  Proof.
    change (c_term g (S (S m)) e s (PDef [PDefn f ps body] t) tr) with
      (let '(e', s') := (let '(e0, s0) := c_open_def g (S m) e s (PDefn f ps body) tr in (e0, s0)) in c_term g (S m) e' s' t tr).
    change (c_open_def g (S m) e s (PDefn f ps body) tr) with
      (let '((b0, tr_), s0) := c_term g m (push_parent f ps (length (c_defs s)) e) {| c_defs := c_defs s ++ [KId]; c_errs := c_errs s |}
                                 body (length (c_defs s) :: tr) in
       (push_sibling f (map is_var_name ps) (length (c_defs s)) tr_ e, set_def (length (c_defs s)) b0 s0)).
    cbv zeta. destruct (c_term g m _ _ body _) as [[kb trb] s2]. reflexivity.
  Qed.

  Lemma compile_params_mut :
    (forall b fs n t, frag b fs n t -> P_term b fs n t) /\ (forall b fs n args, frag_args b fs n args -> P_args b fs n args)
    /\ (forall b fs n ps, frag_parts b fs n ps -> P_parts b fs n ps).
  Proof.
    apply frag_mutind; unfold P_term, P_args, P_parts.
    - (* . *) intros b fs n. start. exists KId, [], s. split; [reflexivity|]. split; [apply extends_refl|]. sem0. reflexivity.
    - (* number *) intros b fs n x. start. eexists _, [], s. split; [reflexivity|]. split; [apply extends_refl|]. sem0.
      destruct (int_literal x); reflexivity.
    - (* variable *) intros b fs n x Hx. start. specialize (Hsc (CVar x) Hx).
      destruct (index_of (CVar x) (e_vars e) 0) as [i|] eqn:E; [|congruence].
      exists (KVar i), [], s. split; [cbn [c_term]; unfold var; rewrite E; reflexivity|]. split; [apply extends_refl|]. sem0.
      destruct (agrees_lookup e c rho (CVar x) i Hag E) as (a & Hn & Hl & Hk). unfold nth_bind. rewrite Hn, Hl.
      destruct a; try contradiction. reflexivity.
    - (* negation *) intros b fs n t Ht IHt. start. destruct (IHt m e s [] ltac:(lia) Hsc Hfs) as (k & trr & s1 & E1 & X1 & R1).
      exists (KNeg k), [], s1. split; [cbn [c_term]; rewrite E1; reflexivity|]. split; [exact X1|]. sem0.
      rewrite (R1 defs Hc fuel c rho phi v Hag Hfr'). reflexivity.
    - (* array *) intros b fs n t Ht IHt. start. destruct (IHt m e s [] ltac:(lia) Hsc Hfs) as (k & trr & s1 & E1 & X1 & R1).
      exists (KArr k), [], s1. split; [cbn [c_term]; rewrite E1; reflexivity|]. split; [exact X1|]. sem0.
      rewrite (R1 defs Hc fuel c rho phi v Hag Hfr'). reflexivity.
    - (* try *) intros b fs n t ct Hl IHl Hr IHr. start.
      destruct (IHl m e s [] ltac:(lia) Hsc Hfs) as (k1 & tr1 & s1 & E1 & X1 & R1).
      destruct (IHr m e s1 [] ltac:(lia) Hsc Hfs) as (k2 & tr2 & s2 & E2 & X2 & R2).
      exists (KTryCatch k1 k2), [], s2. split; [cbn [c_term]; rewrite E1, E2; reflexivity|]. split; [eapply extends_trans; eassumption|]. sem0.
      rewrite (R1 defs (covers_left _ _ _ _ X1 X2 Hc) fuel c rho phi v Hag Hfr').
      f_equal. apply functional_extensionality. intros er. apply (R2 defs (covers_right _ _ _ _ X1 X2 Hc) fuel c rho phi); assumption.
    - (* if *) intros b fs n i th el Hi IHi Hth IHth Hel IHel. start.
      destruct (IHi m e s [] ltac:(lia) Hsc Hfs) as (k1 & tr1 & s1 & E1 & X1 & R1).
      destruct (IHth m e s1 tr ltac:(lia) Hsc Hfs) as (k2 & tr2 & s2 & E2 & X2 & R2).
      destruct (IHel m e s2 tr ltac:(lia) Hsc Hfs) as (k3 & tr3 & s3 & E3 & X3 & R3).
      assert (X12 : extends s s2) by (eapply extends_trans; eassumption).
      exists (KIte k1 k2 k3), (union tr2 tr3), s3. split; [rewrite c_ite, E1, E2, E3; reflexivity|].
      split; [eapply extends_trans; eassumption|]. sem0.
      pose proof (covers_left _ _ _ _ X12 X3 Hc) as Hc12.
      rewrite (R1 defs (covers_left _ _ _ _ X1 X2 Hc12) fuel c rho phi v Hag Hfr'). f_equal.
      apply functional_extensionality. intros y. destruct (as_bool y).
      + apply (R2 defs (covers_right _ _ _ _ X1 X2 Hc12) fuel c rho phi); assumption.
      + apply (R3 defs (covers_right _ _ _ _ X12 X3 Hc) fuel c rho phi); assumption.
    - (* pipe *) intros b fs n l r Hl IHl Hr IHr. start.
      destruct (IHl m e s [] ltac:(lia) Hsc Hfs) as (k1 & tr1 & s1 & E1 & X1 & R1).
      destruct (IHr m e s1 tr ltac:(lia) Hsc Hfs) as (k2 & tr2 & s2 & E2 & X2 & R2).
      exists (KPipe k1 None k2), tr2, s2. split; [rewrite c_pipe, E1, E2; reflexivity|]. split; [eapply extends_trans; eassumption|]. sem0.
      rewrite (R1 defs (covers_left _ _ _ _ X1 X2 Hc) fuel c rho phi v Hag Hfr').
      f_equal. apply functional_extensionality. intros y. apply (R2 defs (covers_right _ _ _ _ X1 X2 Hc) fuel c rho phi); assumption.
    - (* binding *) intros b fs n l x r Hl IHl Hr IHr. start. destruct m as [|m]; [lia|].
      destruct (IHl (S m) e s [] ltac:(lia) Hsc Hfs) as (k1 & tr1 & s1 & E1 & X1 & R1).
      destruct (IHr (S m) (push_var (CVar x) e) s1 tr ltac:(lia) (scoped_push b e (CVar x) Hsc) Hfs) as (k2 & tr2 & s2 & E2 & X2 & R2).
      exists (KPipe k1 (Some PatVar) k2), tr2, s2. split.
      + rewrite c_bind, E1. cbn [pat_vars_f]. change (Compile.with_vars [x] e) with (push_var (CVar x) e). rewrite E2. reflexivity.
      + split; [eapply extends_trans; eassumption|]. sem0.
        rewrite (R1 defs (covers_left _ _ _ _ X1 X2 Hc) fuel c rho phi v Hag Hfr'). f_equal.
        apply functional_extensionality. intros y.
        exact (R2 defs (covers_right _ _ _ _ X1 X2 Hc) fuel (cons_var y c) ((CVar x, BVar y) :: rho) phi v
                  (agrees_push e c rho x y Hag) (funs_push _ _ _ _ _ _ Hfr')).
    - (* comma *) intros b fs n l r Hl IHl Hr IHr. start.
      destruct (IHl m e s tr ltac:(lia) Hsc Hfs) as (k1 & tr1 & s1 & E1 & X1 & R1).
      destruct (IHr m e s1 tr ltac:(lia) Hsc Hfs) as (k2 & tr2 & s2 & E2 & X2 & R2).
      exists (KComma k1 k2), (union tr1 tr2), s2. split; [rewrite c_comma, E1, E2; reflexivity|]. split; [eapply extends_trans; eassumption|]. sem0.
      rewrite (R1 defs (covers_left _ _ _ _ X1 X2 Hc) fuel c rho phi v Hag Hfr').
      f_equal. apply functional_extensionality. intros u. apply (R2 defs (covers_right _ _ _ _ X1 X2 Hc) fuel c rho phi); assumption.
    - (* alternative *) intros b fs n l r Hl IHl Hr IHr. start.
      destruct (IHl m e s [] ltac:(lia) Hsc Hfs) as (k1 & tr1 & s1 & E1 & X1 & R1).
      destruct (IHr m e s1 tr ltac:(lia) Hsc Hfs) as (k2 & tr2 & s2 & E2 & X2 & R2).
      exists (KAlt k1 k2), tr2, s2. split; [rewrite c_alt, E1, E2; reflexivity|]. split; [eapply extends_trans; eassumption|]. sem0.
      rewrite (R1 defs (covers_left _ _ _ _ X1 X2 Hc) fuel c rho phi v Hag Hfr').
      rewrite (R2 defs (covers_right _ _ _ _ X1 X2 Hc) fuel c rho phi v Hag Hfr'). reflexivity.
    - (* arithmetic *) intros b fs n l o r Hl IHl Hr IHr. start.
      destruct (IHl m e s [] ltac:(lia) Hsc Hfs) as (k1 & tr1 & s1 & E1 & X1 & R1).
      destruct (IHr m e s1 [] ltac:(lia) Hsc Hfs) as (k2 & tr2 & s2 & E2 & X2 & R2).
      exists (KMath k1 o k2), [], s2. split; [cbn [c_term]; rewrite E1, E2; reflexivity|]. split; [eapply extends_trans; eassumption|]. sem0.
      rewrite (R1 defs (covers_left _ _ _ _ X1 X2 Hc) fuel c rho phi v Hag Hfr').
      rewrite (R2 defs (covers_right _ _ _ _ X1 X2 Hc) fuel c rho phi v Hag Hfr'). reflexivity.
    - (* comparison *) intros b fs n l o r Hl IHl Hr IHr. start.
      destruct (IHl m e s [] ltac:(lia) Hsc Hfs) as (k1 & tr1 & s1 & E1 & X1 & R1).
      destruct (IHr m e s1 [] ltac:(lia) Hsc Hfs) as (k2 & tr2 & s2 & E2 & X2 & R2).
      exists (KCmp k1 o k2), [], s2. split; [cbn [c_term]; rewrite E1, E2; reflexivity|]. split; [eapply extends_trans; eassumption|]. sem0.
      rewrite (R1 defs (covers_left _ _ _ _ X1 X2 Hc) fuel c rho phi v Hag Hfr').
      rewrite (R2 defs (covers_right _ _ _ _ X1 X2 Hc) fuel c rho phi v Hag Hfr'). reflexivity.
    - (* or *) intros b fs n l r Hl IHl Hr IHr. start.
      destruct (IHl m e s [] ltac:(lia) Hsc Hfs) as (k1 & tr1 & s1 & E1 & X1 & R1).
      destruct (IHr m e s1 [] ltac:(lia) Hsc Hfs) as (k2 & tr2 & s2 & E2 & X2 & R2).
      exists (KLogic k1 true k2), [], s2. split; [cbn [c_term]; rewrite E1, E2; reflexivity|]. split; [eapply extends_trans; eassumption|]. sem0.
      rewrite (R1 defs (covers_left _ _ _ _ X1 X2 Hc) fuel c rho phi v Hag Hfr').
      rewrite (R2 defs (covers_right _ _ _ _ X1 X2 Hc) fuel c rho phi v Hag Hfr'). reflexivity.
    - (* and *) intros b fs n l r Hl IHl Hr IHr. start.
      destruct (IHl m e s [] ltac:(lia) Hsc Hfs) as (k1 & tr1 & s1 & E1 & X1 & R1).
      destruct (IHr m e s1 [] ltac:(lia) Hsc Hfs) as (k2 & tr2 & s2 & E2 & X2 & R2).
      exists (KLogic k1 false k2), [], s2. split; [cbn [c_term]; rewrite E1, E2; reflexivity|]. split; [eapply extends_trans; eassumption|]. sem0.
      rewrite (R1 defs (covers_left _ _ _ _ X1 X2 Hc) fuel c rho phi v Hag Hfr').
      rewrite (R2 defs (covers_right _ _ _ _ X1 X2 Hc) fuel c rho phi v Hag Hfr'). reflexivity.
    - (* path *) intros b fs n t ps Ht IHt Hps IHps. start.
      destruct (IHt m e s [] ltac:(lia) Hsc Hfs) as (k1 & tr1 & s1 & E1 & X1 & R1).
      destruct (IHps m e s1 ltac:(lia) Hsc Hfs) as (cps & s2 & E2 & X2 & R2).
      exists (KPath k1 cps), [], s2. split; [rewrite CompileCorrect.c_path, E1, E2; reflexivity|].
      split; [eapply extends_trans; eassumption|].
      intros defs Hc fuel c rho phi v Hag Hfr. destruct fuel as [|fuel]; [reflexivity|].
      rewrite CompileCorrect.run_path. cbn [sem strip push_defs fold_left]. pose proof (funs_pred _ _ _ _ _ Hfr) as Hfr'.
      rewrite (R1 defs (covers_left _ _ _ _ X1 X2 Hc) fuel c rho phi v Hag Hfr'). f_equal.
      apply functional_extensionality. intros y.
      rewrite (R2 defs (covers_right _ _ _ _ X1 X2 Hc) fuel c rho phi v Hag Hfr'). reflexivity.
    - (* reduce *) intros b fs n xs x init upd  Hxs IHxs Hi IHi Hu IHu . start. destruct m as [|m]; [lia|].
      destruct (IHxs (S m) e s [] ltac:(lia) Hsc Hfs) as (k1 & tr1 & s1 & E1 & X1 & R1).
      destruct (IHi (S m) e s1 [] ltac:(lia) Hsc Hfs) as (k2 & tr2 & s2 & E2 & X2 & R2).
      destruct (IHu (S m) (push_var (CVar x) e) s2 [] ltac:(lia) (scoped_push b e (CVar x) Hsc) Hfs) as (k3 & tr3 & s3 & E3 & X3 & R3).
      assert (X12 : extends s s2) by (eapply extends_trans; eassumption).
      assert (X13 : extends s s3) by (eapply extends_trans; eassumption).
      exists (KFold k1 PatVar k2 k3 Reduce), [], s3. split.
      + rewrite CompileCorrect.c_reduce, E1. cbn [c_pattern pat_vars_f]. rewrite E2. change (Compile.with_vars [x] e) with (push_var (CVar x) e). rewrite E3. reflexivity.
      + split; [exact X13|].
        intros defs Hc fuel c rho phi v Hag Hfr. destruct fuel as [|fuel]; [reflexivity|].
        rewrite CompileCorrect.run_fold, CompileCorrect.run_and_bind_var. cbn [sem strip push_defs fold_left].
        pose proof (funs_pred _ _ _ _ _ Hfr) as Hfr'.
        change (bytes_eqb name_reduce name_reduce) with true. cbn iota.
        pose proof (covers_left _ _ _ _ X12 X3 Hc) as Hc12. pose proof (covers_right _ _ _ _ X12 X3 Hc) as Hc3.
        pose proof (covers_left _ _ _ _ X1 X2 Hc12) as Hc1. pose proof (covers_right _ _ _ _ X1 X2 Hc12) as Hc2.
        rewrite (R2 defs Hc2 fuel c rho phi v Hag Hfr'). f_equal.
        apply functional_extensionality. intros i0. destruct fuel as [|f']; [reflexivity|].
        rewrite (R1 defs Hc1 f' c rho phi v Hag (funs_pred _ _ _ _ _ Hfr')).
        apply CompileCorrect.fold_ctx_vals; [intros y acc; exact (R3 defs Hc3 (S f') (cons_var y c) ((CVar x, BVar y) :: rho) phi acc (agrees_push e c rho x y Hag) (funs_push _ _ _ _ _ _ Hfr')) | reflexivity | reflexivity].
    - (* foreach *) intros b fs n xs x init upd  Hxs IHxs Hi IHi Hu IHu . start. destruct m as [|m]; [lia|].
      destruct (IHxs (S m) e s [] ltac:(lia) Hsc Hfs) as (k1 & tr1 & s1 & E1 & X1 & R1).
      destruct (IHi (S m) e s1 [] ltac:(lia) Hsc Hfs) as (k2 & tr2 & s2 & E2 & X2 & R2).
      destruct (IHu (S m) (push_var (CVar x) e) s2 [] ltac:(lia) (scoped_push b e (CVar x) Hsc) Hfs) as (k3 & tr3 & s3 & E3 & X3 & R3).
      assert (X12 : extends s s2) by (eapply extends_trans; eassumption).
      assert (X13 : extends s s3) by (eapply extends_trans; eassumption).
      exists (KFold k1 PatVar k2 k3 (Foreach None)), [], s3. split.
      + rewrite CompileCorrect.c_foreach2, E1. cbn [c_pattern pat_vars_f]. rewrite E2. change (Compile.with_vars [x] e) with (push_var (CVar x) e). rewrite E3. reflexivity.
      + split; [exact X13|].
        intros defs Hc fuel c rho phi v Hag Hfr. destruct fuel as [|fuel]; [reflexivity|].
        rewrite CompileCorrect.run_fold, CompileCorrect.run_and_bind_var. cbn [sem strip push_defs fold_left].
        pose proof (funs_pred _ _ _ _ _ Hfr) as Hfr'.
        change (bytes_eqb name_foreach name_reduce) with false. change (bytes_eqb name_foreach name_foreach) with true. cbn iota.
        pose proof (covers_left _ _ _ _ X12 X3 Hc) as Hc12. pose proof (covers_right _ _ _ _ X12 X3 Hc) as Hc3.
        pose proof (covers_left _ _ _ _ X1 X2 Hc12) as Hc1. pose proof (covers_right _ _ _ _ X1 X2 Hc12) as Hc2.
        rewrite (R2 defs Hc2 fuel c rho phi v Hag Hfr'). f_equal.
        apply functional_extensionality. intros i0. destruct fuel as [|f']; [reflexivity|].
        rewrite (R1 defs Hc1 f' c rho phi v Hag (funs_pred _ _ _ _ _ Hfr')).
        apply CompileCorrect.fold_ctx_vals; [intros y acc; exact (R3 defs Hc3 (S f') (cons_var y c) ((CVar x, BVar y) :: rho) phi acc (agrees_push e c rho x y Hag) (funs_push _ _ _ _ _ _ Hfr')) | reflexivity | reflexivity].
    - (* foreach with projection *) intros b fs n xs x init upd proj Hxs IHxs Hi IHi Hu IHu Hp IHp. start. destruct m as [|m]; [lia|].
      destruct (IHxs (S m) e s [] ltac:(lia) Hsc Hfs) as (k1 & tr1 & s1 & E1 & X1 & R1).
      destruct (IHi (S m) e s1 [] ltac:(lia) Hsc Hfs) as (k2 & tr2 & s2 & E2 & X2 & R2).
      destruct (IHu (S m) (push_var (CVar x) e) s2 [] ltac:(lia) (scoped_push b e (CVar x) Hsc) Hfs) as (k3 & tr3 & s3 & E3 & X3 & R3).
      destruct (IHp (S m) (push_var (CVar x) e) s3 tr ltac:(lia) (scoped_push b e (CVar x) Hsc) Hfs) as (k4 & tr4 & s4 & E4 & X4 & R4).
      assert (X12 : extends s s2) by (eapply extends_trans; eassumption).
      assert (X13 : extends s s3) by (eapply extends_trans; eassumption).
      exists (KFold k1 PatVar k2 k3 (Foreach (Some k4))), tr4, s4. split.
      + rewrite c_foreach, E1. cbn [c_pattern pat_vars_f]. rewrite E2. change (Compile.with_vars [x] e) with (push_var (CVar x) e). rewrite E3, E4. reflexivity.
      + split; [eapply extends_trans; eassumption|].
        intros defs Hc fuel c rho phi v Hag Hfr. destruct fuel as [|fuel]; [reflexivity|].
        rewrite CompileCorrect.run_fold, CompileCorrect.run_and_bind_var. cbn [sem strip push_defs fold_left].
        pose proof (funs_pred _ _ _ _ _ Hfr) as Hfr'.
        change (bytes_eqb name_foreach name_reduce) with false. change (bytes_eqb name_foreach name_foreach) with true. cbn iota.
        pose proof (covers_left _ _ _ _ X13 X4 Hc) as Hc13. pose proof (covers_right _ _ _ _ X13 X4 Hc) as Hc4.
        pose proof (covers_left _ _ _ _ X12 X3 Hc13) as Hc12. pose proof (covers_right _ _ _ _ X12 X3 Hc13) as Hc3.
        pose proof (covers_left _ _ _ _ X1 X2 Hc12) as Hc1. pose proof (covers_right _ _ _ _ X1 X2 Hc12) as Hc2.
        rewrite (R2 defs Hc2 fuel c rho phi v Hag Hfr'). f_equal.
        apply functional_extensionality. intros i0. destruct fuel as [|f']; [reflexivity|].
        rewrite (R1 defs Hc1 f' c rho phi v Hag (funs_pred _ _ _ _ _ Hfr')).
        apply CompileCorrect.fold_ctx_vals; [intros y acc; exact (R3 defs Hc3 (S f') (cons_var y c) ((CVar x, BVar y) :: rho) phi acc (agrees_push e c rho x y Hag) (funs_push _ _ _ _ _ _ Hfr')) | intros y z; exact (R4 defs Hc4 (S f') (cons_var y c) ((CVar x, BVar y) :: rho) phi z (agrees_push e c rho x y Hag) (funs_push _ _ _ _ _ _ Hfr')) | reflexivity].
    - (* label *) intros b fs n x t Ht IHt. start.
      destruct (IHt m (push_var (CLabel x) e) s [] ltac:(lia) (scoped_push b e (CLabel x) Hsc) Hfs) as (k & trr & s1 & E1 & X1 & R1).
      exists (KLabel k), [], s1. split; [cbn [c_term]; rewrite E1; reflexivity|]. split; [exact X1|]. sem0.
      rewrite (R1 defs Hc fuel (cons_label c) ((CLabel x, BLabel (S (labels c))) :: rho) phi v (agrees_push_label e c rho x Hag) (funs_push _ _ _ _ _ _ Hfr')).
      reflexivity.
    - (* break *) intros b fs n x Hx. start. specialize (Hsc (CLabel x) Hx).
      destruct (index_of (CLabel x) (e_vars e) 0) as [i|] eqn:E; [|congruence].
      exists (KVar i), [], s. split; [cbn [c_term]; unfold break_; rewrite E; reflexivity|]. split; [apply extends_refl|]. sem0.
      destruct (agrees_lookup e c rho (CLabel x) i Hag E) as (a & Hn & Hl & Hk). unfold nth_bind. rewrite Hn, Hl.
      destruct a; try contradiction. reflexivity.
    - (* call *) intros b fs n f args Hin Hargs IHargs. start. destruct (Hfs f (length args) Hin) as (fe & Hfe).
      destruct (IHargs m e s ltac:(lia) Hsc Hfs) as (cargs & s1 & EA & XA & LA & RA).
      assert (LC : exists r, local_call e f cargs tr = Some r
                   /\ forall id kinds, entry_info fe = Some (id, kinds) -> exists typ, fst r = KCallDef id (binds kinds cargs) (total e - f_vars fe) typ).
      { unfold local_call. rewrite LA, Hfe. eexists. split; [reflexivity|]. intros id kinds Hid. unfold entry_info in Hid.
        destruct (f_kind fe) as [|kinds' id'|kinds' id' trs]; [discriminate| |]; injection Hid as -> ->.
        - destruct (mem id tr); eexists; reflexivity.
        - destruct (subset _ _); eexists; reflexivity. }
      destruct LC as ([k0 tr0] & LC & LK). cbn [fst] in LK. exists k0, tr0, s1. split.
      + rewrite c_call, EA. unfold call. rewrite LC. reflexivity.
      + split; [exact XA|]. intros defs Hc fuel c rho phi v Hag Hfr. destruct fuel as [|fuel]; [reflexivity|].
        destruct (funs_rel_find defs (S fuel) _ rho phi f (length args) fe Hfr Hfe)
          as (ps & body & rd & phis & id & kb & pushed & F & Ar & I & V & P & T & C).
        destruct (LK id _ I) as (typ & ->). unfold binds. rewrite run_calldef. cbn [sem strip push_defs fold_left]. rewrite T, F.
        rewrite <- Ar, <- LA. rewrite (RA defs Hc fuel c rho phi v (skip_vars (total e - f_vars fe) c) Hag (funs_pred _ _ _ _ _ Hfr)).
        rewrite sbind_smap. apply (sbind_ext_on (fun ys => length ys = length args)); [apply sargs_length|].
        intros ys Hys.
        assert (LB : forall ys0 a, labels (push_vals ys0 a) = labels a).
        { unfold push_vals. induction ys0 as [|y ys0 IHy]; intros a; [reflexivity|]. cbn [fold_left]. rewrite IHy. reflexivity. }
        change (labels c) with (labels (skip_vars (total e - f_vars fe) c)). rewrite <- (LB ys (skip_vars (total e - f_vars fe) c)).
        apply (C fuel ltac:(lia)); [congruence|].
        destruct Hag as (Hmm & (rest & Hv) & _). exists rest. unfold push_vals.
        assert (PV : forall ys0 a, vars (fold_left (fun a0 y => cons_var y a0) ys0 a) = map BVar (rev ys0) ++ vars a).
        { induction ys0 as [|y ys0 IHy]; intros a; [reflexivity|]. cbn [fold_left rev]. rewrite IHy. cbn [cons_var vars]. rewrite map_app, <- app_assoc. reflexivity. }
        rewrite PV. f_equal. unfold skip_vars. cbn [vars].
        assert (total e - f_vars fe = length pushed)%nat as ->.
        { unfold total. rewrite <- Hmm, map_length, V, P, app_length. lia. }
        rewrite Hv, P. apply skipn_pushed.
    - (* def *) intros b fs n f ps body t Hps Hb IHb Ht IHt. start. destruct m as [|m]; [lia|].
      set (id := length (c_defs s)).
      set (s1 := {| c_defs := c_defs s ++ [KId]; c_errs := c_errs s |}).
      destruct (push_parent_vars f ps id e Hps) as [PP KK].
      set (e1 := push_parent f ps id e).
      assert (Hfs1 : forall fe0 e0, f_name fe0 = f -> f_arity fe0 = length ps -> e_funs e0 = e_funs e -> fscoped ((f, length ps) :: fs) (push_fun fe0 e0)).
      { intros fe0 e0 Nm A EF f' ar' Hin. cbn [push_fun e_funs find_fun]. rewrite Nm, A, EF.
        destruct (bytes_eqb f' f && Nat.eqb ar' (length ps)) eqn:E; [eexists; reflexivity|].
        destruct Hin as [Q|Hin]; [injection Q as <- <-; rewrite Nat.eqb_refl, andb_true_r in E; destruct (bytes_eqb_spec f f); congruence|].
        apply Hfs. exact Hin. }
      assert (Hsc1 : scoped (map CVar (rev ps) ++ b) e1).
      { unfold e1. rewrite PP. intros x Hx. cbn [push_fun e_vars]. apply in_app_or in Hx as [Hx|Hx];
          [apply index_in_prefix; exact Hx|apply index_behind_prefix; apply Hsc; exact Hx]. }
      assert (Hfs1' : fscoped ((f, length ps) :: fs) e1).
      { unfold e1. rewrite PP. apply Hfs1; reflexivity. }
      destruct (IHb m e1 s1 (id :: tr) ltac:(lia) Hsc1 Hfs1') as (kb & trb & s2 & E2 & X2 & R2).
      set (s3 := set_def id kb s2).
      set (e3 := push_sibling f (map is_var_name ps) id trb e).
      assert (Hfs3 : fscoped ((f, length ps) :: fs) e3).
      { unfold e3, push_sibling. apply Hfs1; [reflexivity|cbn [f_arity]; apply map_length|reflexivity]. }
      destruct (IHt (S m) e3 s3 tr ltac:(lia) Hsc Hfs3) as (k & trr & s4 & E4 & X4 & R4).
      destruct X2 as (XE2 & XL2 & XN2). cbn [s1 c_defs c_errs] in XE2, XL2, XN2. rewrite app_length in XL2, XN2. cbn [length] in XL2, XN2.
      assert (X3 : extends s s3).
      { unfold s3, set_def. repeat split; cbn [c_defs c_errs]; [exact XE2|rewrite set_nth_length; lia|].
        intros i Hi. rewrite set_nth_other by (unfold id; lia). rewrite XN2 by lia. apply nth_error_app1. exact Hi. }
      assert (Hid3 : nth_error (c_defs s3) id = Some kb).
      { unfold s3, set_def. cbn [c_defs]. apply set_nth_same. unfold id. lia. }
      assert (L3 : length (c_defs s3) = length (c_defs s2)) by (unfold s3, set_def; cbn [c_defs]; apply set_nth_length).
      exists k, trr, s4. split.
      + rewrite c_def1. cbv zeta. fold id s1 e1. rewrite E2. exact E4.
      + split; [eapply extends_trans; eassumption|].
        intros defs Hc fuel c rho phi v Hag Hfr. rewrite sem_def.
        pose proof (covers_right _ _ _ _ X3 X4 Hc) as Hc34.
        destruct X4 as (XE4 & XL4 & XN4).
        assert (Hdid : nth_error defs id = Some kb).
        { rewrite Hc by (unfold id; lia). rewrite XN4 by (rewrite L3; unfold id; lia). exact Hid3. }
        assert (Hc12 : covers s1 s2 defs).
        { intros i Hi. cbn [s1 c_defs] in Hi. rewrite app_length in Hi. cbn [length] in Hi. rewrite Hc by lia. rewrite XN4 by lia.
          unfold s3, set_def. cbn [c_defs]. apply set_nth_other. unfold id. lia. }
        destruct Hag as (Hmm & Hctx & Hk).
        assert (FV : total e = length rho) by (unfold total; rewrite <- Hmm, map_length; reflexivity).
        assert (CL : forall fuel', (fuel' <= fuel)%nat -> forall c' v' ys, length ys = length ps ->
                       (exists rest, vars c' = map BVar (rev ys) ++ map snd rho ++ rest) ->
                       run defs fuel' kb c' v' = sem fuel' body (pbind ps ys ++ rho) ((f, ps, body, rho) :: phi) (labels c') v').
        { intros fuel'. induction fuel' as [fuel' IHf] using lt_wf_ind. intros Hle c' v' ys Hys (rest & Hc').
          assert (PB1 : map fst (pbind ps ys) = map CVar (rev ps)).
          { unfold pbind. rewrite !map_rev. f_equal. apply map_fst_combine. rewrite !map_length. congruence. }
          assert (PB2 : map snd (pbind ps ys) = map BVar (rev ys)).
          { unfold pbind. rewrite !map_rev. f_equal. apply map_snd_combine. rewrite !map_length. congruence. }
          apply (R2 defs Hc12 fuel' c' (pbind ps ys ++ rho) ((f, ps, body, rho) :: phi) v').
          - unfold e1. rewrite PP. repeat split.
            + cbn [push_fun e_vars]. rewrite map_app, PB1, Hmm. reflexivity.
            + exists rest. rewrite map_app, PB2, <- app_assoc. exact Hc'.
            + apply Forall_app. split; [|exact Hk]. unfold pbind. apply Forall_rev. clear. revert ys.
              induction ps as [|p ps IH]; intros [|y ys]; cbn; constructor; [exact I|apply IH].
          - unfold e1. rewrite PP. cbn [push_fun e_funs].
            apply fr_cons with (id := id) (k := kb);
              [reflexivity|reflexivity|reflexivity|exact FV|exists (pbind ps ys); reflexivity|exact Hdid| |].
            + intros f'' Hf'' c'' v'' ys'' Hys'' Hc''. apply IHf; [exact Hf''|lia|exact Hys''|exact Hc''].
            + apply (funs_rel_fuel defs fuel fuel'); [exact Hle|exact Hfr]. }
        apply (R4 defs Hc34 fuel c rho ((f, ps, body, rho) :: phi) v); [repeat split; assumption|].
        cbn [e3 push_sibling push_fun e_funs].
        apply fr_cons with (id := id) (k := kb);
          [reflexivity|cbn [f_arity]; apply map_length|unfold entry_info; cbn [f_kind]; rewrite KK; reflexivity|exact FV|exists []; reflexivity|exact Hdid| |exact Hfr].
        intros f'' Hf'' c'' v'' ys'' Hys'' Hc''. apply CL; [lia|exact Hys''|exact Hc''].
    - (* no arguments *) intros b fs n m e s Hm Hsc Hfs. exists [], s. split; [reflexivity|]. split; [apply extends_refl|]. split; [reflexivity|].
      intros defs Hc fuel c rho phi v acc Hag Hfr. destruct fuel; reflexivity.
    - (* an argument *) intros b fs n a r Ha IHa Hr IHr m e s Hm Hsc Hfs.
      destruct (IHa m e s [] Hm Hsc Hfs) as (k1 & tr1 & s1 & E1 & X1 & R1).
      destruct (IHr m e s1 Hm Hsc Hfs) as (cr & s2 & E2 & X2 & L2 & R2).
      exists (k1 :: cr), s2. split; [cbn [c_args]; rewrite E1, E2; reflexivity|]. split; [eapply extends_trans; eassumption|].
      split; [cbn [length]; congruence|].
      intros defs Hc fuel c rho phi v acc Hag Hfr. destruct fuel as [|fuel]; [reflexivity|].
      cbn [length repeat combine]. rewrite bind_vars_cons. cbn [sargs]. pose proof (funs_pred _ _ _ _ _ Hfr) as Hfr'.
      rewrite (R1 defs (covers_left _ _ _ _ X1 X2 Hc) fuel c rho phi v Hag Hfr').
      rewrite smap_bind. f_equal. apply functional_extensionality. intros y.
      rewrite (R2 defs (covers_right _ _ _ _ X1 X2 Hc) fuel c rho phi v (cons_var y acc) Hag Hfr').
      rewrite smap_smap. reflexivity.
    - (* no component *) intros b fs n m e s Hm Hsc Hfs. exists [], s. split; [reflexivity|]. split; [apply extends_refl|]. semx. reflexivity.
    - (* .[i] *) intros b fs n i o ps H1 IH1 Hps IHps m e s Hm Hsc Hfs.
      destruct (IH1 m e s [] Hm Hsc Hfs) as (k1 & tr1 & s1 & E1 & X1 & R1).
      destruct (IHps m e s1 Hm Hsc Hfs) as (cps & s2 & E2 & X2 & R2).
      exists ((Index k1, o) :: cps), s2. split; [cbn [CompileCorrect.c_parts]; rewrite E1, E2; reflexivity|].
      split; [eapply extends_trans; eassumption|]. semx.
      rewrite (R1 defs (covers_left _ _ _ _ X1 X2 Hc) fuel c rho phi v Hag Hfr'), (R2 defs (covers_right _ _ _ _ X1 X2 Hc) fuel c rho phi v Hag Hfr').
      reflexivity.
    - (* .[] *) intros b fs n o ps Hps IHps m e s Hm Hsc Hfs.
      destruct (IHps m e s Hm Hsc Hfs) as (cps & s2 & E2 & X2 & R2).
      exists ((Range None None, o) :: cps), s2. split; [cbn [CompileCorrect.c_parts]; rewrite E2; reflexivity|].
      split; [exact X2|]. semx. rewrite (R2 defs Hc fuel c rho phi v Hag Hfr'). reflexivity.
    - (* .[f:] *) intros b fs n f o ps H1 IH1 Hps IHps m e s Hm Hsc Hfs.
      destruct (IH1 m e s [] Hm Hsc Hfs) as (k1 & tr1 & s1 & E1 & X1 & R1).
      destruct (IHps m e s1 Hm Hsc Hfs) as (cps & s2 & E2 & X2 & R2).
      exists ((Range (Some k1) None, o) :: cps), s2. split; [cbn [CompileCorrect.c_parts]; rewrite E1, E2; reflexivity|].
      split; [eapply extends_trans; eassumption|]. semx.
      rewrite (R1 defs (covers_left _ _ _ _ X1 X2 Hc) fuel c rho phi v Hag Hfr'), (R2 defs (covers_right _ _ _ _ X1 X2 Hc) fuel c rho phi v Hag Hfr').
      reflexivity.
    - (* .[:u] *) intros b fs n u o ps H1 IH1 Hps IHps m e s Hm Hsc Hfs.
      destruct (IH1 m e s [] Hm Hsc Hfs) as (k1 & tr1 & s1 & E1 & X1 & R1).
      destruct (IHps m e s1 Hm Hsc Hfs) as (cps & s2 & E2 & X2 & R2).
      exists ((Range None (Some k1), o) :: cps), s2. split; [cbn [CompileCorrect.c_parts]; rewrite E1, E2; reflexivity|].
      split; [eapply extends_trans; eassumption|]. semx.
      rewrite (R1 defs (covers_left _ _ _ _ X1 X2 Hc) fuel c rho phi v Hag Hfr'), (R2 defs (covers_right _ _ _ _ X1 X2 Hc) fuel c rho phi v Hag Hfr').
      reflexivity.
    - (* .[f:u] *) intros b fs n f u o ps H1 IH1 H2 IH2 Hps IHps m e s Hm Hsc Hfs.
      destruct (IH1 m e s [] Hm Hsc Hfs) as (k1 & tr1 & s1 & E1 & X1 & R1).
      destruct (IH2 m e s1 [] Hm Hsc Hfs) as (k2 & tr2 & s2 & E2 & X2 & R2).
      destruct (IHps m e s2 Hm Hsc Hfs) as (cps & s3 & E3 & X3 & R3).
      assert (X12 : extends s s2) by (eapply extends_trans; eassumption).
      exists ((Range (Some k1) (Some k2), o) :: cps), s3. split; [cbn [CompileCorrect.c_parts]; rewrite E1, E2, E3; reflexivity|].
      split; [eapply extends_trans; eassumption|]. semx.
      pose proof (covers_left _ _ _ _ X12 X3 Hc) as Hc12.
      rewrite (R1 defs (covers_left _ _ _ _ X1 X2 Hc12) fuel c rho phi v Hag Hfr'), (R2 defs (covers_right _ _ _ _ X1 X2 Hc12) fuel c rho phi v Hag Hfr'),
        (R3 defs (covers_right _ _ _ _ X12 X3 Hc) fuel c rho phi v Hag Hfr').
      reflexivity.
  Qed.

  Theorem compile_params b fs n t : frag b fs n t -> forall m e s tr, (n <= m)%nat -> scoped b e -> fscoped fs e ->
    exists k trr s', c_term g m e s t tr = ((k, trr), s') /\ extends s s'
      /\ forall defs, covers s s' defs -> forall fuel c rho phi v, agrees e c rho -> funs_rel defs fuel (e_funs e) rho phi ->
          run defs fuel k c v = sem fuel t rho phi (labels c) v.
  Proof. intros H. exact (proj1 compile_params_mut b fs n t H). Qed.

  (** a whole program without free variables or definitions from outside, compiled from scratch: run against the table of
      definitions the compiler produced, the compiled term computes the named semantics *)
  Corollary compile_params_closed n t : frag [] [] n t ->
    exists k trr s', c_term g n empty_env empty_cst t [] = ((k, trr), s') /\ c_errs s' = 0%nat
      /\ forall fuel v, run (c_defs s') fuel k {| vars := []; labels := 0 |} v = sem fuel t [] [] 0 v.
  Proof.
    intros H. destruct (compile_params [] [] n t H n empty_env empty_cst [] (le_n _)) as (k & trr & s' & E & X & R).
    - intros x [].
    - intros f ar [].
    - exists k, trr, s'. split; [exact E|]. split; [exact (proj1 X)|]. intros fuel v.
      apply (R (c_defs s') ltac:(intros i Hi; reflexivity) fuel {| vars := []; labels := 0 |} [] [] v).
      + repeat split; [exists []; reflexivity|constructor].
      + constructor.
  Qed.
End CP.

(** the fragment is inhabited by recursive definitions with parameters that capture variables, e.g.
      1 as $x | def f($a; $b): if . then [($a, $b, $x)] else (1 | f($b; $a)) end; f(2; 3)
    whose semantics on null is the single output [3, 2, 1] *)
Definition params_ex : pterm :=
  let vx := of_ascii [36; 120]%Z in let va := of_ascii [36; 97]%Z in let vb := of_ascii [36; 98]%Z in let f := of_ascii [102]%Z in
  let num c := PNum (of_ascii [c]%Z) in
  PBinOp (num 49%Z) (BPipe (Some (PPVar vx)))
    (PDef [PDefn f [va; vb]
             (PIte [(PId, PArr (Some (PBinOp (PVar va) BComma (PBinOp (PVar vb) BComma (PVar vx)))))]
                   (Some (PBinOp (num 49%Z) (BPipe None) (PCall f [PVar vb; PVar va]))))]
       (PCall f [num 50%Z; num 51%Z])).
Example frag_params_ex : frag [] [] 12 params_ex.
Proof.
  unfold params_ex. cbv zeta. apply f_bind; [constructor|]. apply f_def; [reflexivity| |].
  - apply f_ite; [constructor| |].
    + apply f_arr. apply f_comma; [apply f_var; cbn; auto|]. apply f_comma; apply f_var; cbn; auto.
    + apply f_pipe; [constructor|]. apply f_call; [left; reflexivity|].
      apply fa_cons; [apply f_var; cbn; auto|apply fa_cons; [apply f_var; cbn; auto|apply fa_nil]].
  - apply f_call; [left; reflexivity|]. apply fa_cons; [constructor|apply fa_cons; [constructor|apply fa_nil]].
Qed.
Example sem_params_ex d : sem d 12 params_ex [] [] 0 Null = sone (Arr [vint 3; vint 2; vint 1]).
Proof. vm_compute. reflexivity. Qed.
