(** Reduction rules of updates that need an argument: folding over bindings, composition of exploded paths, failure on
    value-constructing terms. *)
From Coq Require Import List ZArith FunctionalExtensionality.
From JaqV Require Import Base.Stream Val.Val Val.Err Val.Index Core.Syntax Core.Natives Core.Run Proofs.MonadLaws.
Import ListNotations.

Lemma reduce_over_bindings : forall A (xs : list A) acc (g : A -> val -> str val),
  sreduce (of_list xs) acc g = fold_left (fun s x => sbind s (g x)) xs (sone acc).
Proof.
  intros A xs. assert (H : forall (s : str val) g, fold_left (fun s x => sbind s (g x)) xs s = sbind s (fun a => sreduce (of_list xs) a g)).
  { induction xs as [|x xs IH]; intros s g; cbn [fold_left of_list sreduce].
    - symmetry. apply MonadLaws.sbind_sone_r.
    - rewrite IH. rewrite MonadLaws.sbind_assoc. reflexivity. }
  intros acc g. rewrite H. rewrite MonadLaws.sbind_sone_l. reflexivity.
Qed.

Lemma path_update_composes : forall p1 p2 v f, p1 <> [] -> p2 <> [] ->
  path_update (p1 ++ p2) v f = path_update p1 v (fun x => path_update p2 x f).
Proof.
  induction p1 as [|[p o] p1 IH]; intros p2 v f H1 H2; [congruence|]. destruct p1 as [|q p1].
  - cbn [app path_update]. destruct p2 as [|q2 p2]; [congruence|]. reflexivity.
  - change (((p, o) :: q :: p1) ++ p2) with ((p, o) :: (q :: p1) ++ p2). cbn [path_update].
    destruct ((q :: p1) ++ p2) as [|x y] eqn:E; [discriminate|]. rewrite <- E. f_equal.
    apply FunctionalExtensionality.functional_extensionality. intros x0. apply IH; [discriminate|exact H2].
Qed.

Lemma update_of_constructed_value_fails : forall d nr defs n c v f t,
  (exists x, t = KInt x) \/ (exists x, t = KNum x) \/ (exists x, t = KStr x) \/ (exists x, t = KArr x) \/ t = KObjEmpty
  \/ (exists k x, t = KObjSingle k x) \/ (exists x, t = KNeg x) \/ (exists l o r, t = KMath l o r) \/ (exists l o r, t = KCmp l o r)
  \/ (exists l r, t = KLogic l true r) \/ (exists l r, t = KLogic l false r) \/ t = KToString ->
  update d nr defs (S n) t c v f = serr (EPathExpr v).
Proof.
  intros d nr defs n c v f t H. repeat (destruct H as [H|H]); try (destruct H as (? & H)); try (destruct H as (? & H)); try (destruct H as (? & H)); subst; reflexivity.
Qed.

