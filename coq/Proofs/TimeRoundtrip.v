(** gmtime | mktime = . for every whole number of seconds that gmtime accepts. *)
From Coq Require Import ZArith Bool List Lia.
From JaqV Require Import Std.Time Proofs.TimeLaws.
Import ListNotations.
Local Open Scope Z_scope.
Ltac Zify.zify_post_hook ::= Z.div_mod_to_equations.

(** one more sweep over the era: the day is a day of its month (leap years included), and the year reached inside the
    era is monotone at the two places where the representable range ends *)
Definition era_check2 (doe : Z) : bool :=
  let '(yoe, m, d) := civil_of_doe doe in
  let y := if m <=? 2 then yoe + 1 else yoe in
  (d <=? days_in_month y m)
  && (negb (doe <=? 146036) || (y <=? 399))
  && (negb (306 <=? doe) || (1 <=? y)).

Lemma era2_all : forallb era_check2 (zrange_z 0 146097) = true.
Proof. vm_compute. reflexivity. Qed.

Lemma era2_ok doe : 0 <= doe < 146097 ->
  let '(yoe, m, d) := civil_of_doe doe in
  let y := if m <=? 2 then yoe + 1 else yoe in
  d <= days_in_month y m /\ (doe <= 146036 -> y <= 399) /\ (306 <= doe -> 1 <= y).
Proof.
  intros H. pose proof era2_all as Hall. rewrite forallb_forall in Hall.
  specialize (Hall doe (in_zrange_z 0 146097 doe ltac:(lia) ltac:(lia))).
  unfold era_check2 in Hall. destruct (civil_of_doe doe) as [[yoe m] d]. cbv zeta in *.
  apply andb_prop in Hall as [Hall H3]. apply andb_prop in Hall as [H1 H2]. apply Z.leb_le in H1.
  split; [exact H1|]. split.
  - intros Hd. apply orb_prop in H2 as [H2|H2]; [apply negb_true_iff, Z.leb_gt in H2; lia|apply Z.leb_le in H2; exact H2].
  - intros Hd. apply orb_prop in H3 as [H3|H3]; [apply negb_true_iff, Z.leb_gt in H3; lia|apply Z.leb_le in H3; exact H3].
Qed.

Lemma is_leap_period y k : is_leap (y + k * 400) = is_leap y.
Proof.
  unfold is_leap. replace (y + k * 400) with (y + (k * 100) * 4) at 1 by lia. rewrite Z_mod_plus_full.
  replace (y + k * 400) with (y + (k * 4) * 100) at 1 by lia. rewrite Z_mod_plus_full.
  rewrite Z_mod_plus_full. reflexivity.
Qed.

Lemma days_in_month_period y m k : days_in_month (y + k * 400) m = days_in_month y m.
Proof. unfold days_in_month. rewrite is_leap_period. reflexivity. Qed.

(** the date of every day number is a valid date of the calendar *)
Theorem civil_valid z : let '(y, m, d) := civil_from_days z in valid_date y m d = true.
Proof.
  pose proof (civil_in_range z) as R. unfold civil_from_days in *.
  set (w := z + 719468) in *. set (era := w / 146097) in *. set (doe := w - era * 146097) in *.
  assert (Hdoe : 0 <= doe < 146097) by (unfold doe, era; lia).
  pose proof (era2_ok doe Hdoe) as H2. destruct (civil_of_doe doe) as [[yoe m] d]. cbv zeta in H2.
  destruct R as [Rm Rd]. destruct H2 as [Hd _]. unfold valid_date.
  replace (if m <=? 2 then yoe + era * 400 + 1 else yoe + era * 400) with ((if m <=? 2 then yoe + 1 else yoe) + era * 400)
    by (destruct (m <=? 2); lia).
  rewrite days_in_month_period.
  apply andb_true_intro; split; [apply andb_true_intro; split; [apply andb_true_intro; split|]|]; apply Z.leb_le; lia.
Qed.

(** the years of the representable range *)
Lemma year_bounds z : -4371587 <= z <= 2932896 -> let '(y, m, d) := civil_from_days z in -9999 <= y <= 9999.
Proof.
  intros Hz. unfold civil_from_days.
  set (w := z + 719468). set (era := w / 146097). set (doe := w - era * 146097).
  assert (Hdoe : 0 <= doe < 146097) by (unfold doe, era; lia).
  assert (Hera : -25 <= era <= 24) by (unfold era, w; lia).
  pose proof (era_ok doe Hdoe) as H1. pose proof (era2_ok doe Hdoe) as H2.
  destruct (civil_of_doe doe) as [[yoe m] d]. cbv zeta in H2. destruct H1 as (Hy & _). destruct H2 as (_ & Hhi & Hlo).
  assert (Hw : w = era * 146097 + doe) by (unfold doe; lia).
  assert (Hwr : -3652119 <= w <= 3652364) by (unfold w; lia).
  destruct (Z.eq_dec era 24) as [E|N24].
  - assert (doe <= 146036) by lia. specialize (Hhi H). destruct (m <=? 2); lia.
  - destruct (Z.eq_dec era (-25)) as [E|N25].
    + assert (306 <= doe) by lia. specialize (Hlo H). destruct (m <=? 2); lia.
    + destruct (m <=? 2); lia.
Qed.

Lemma epoch_ok_range t us : epoch_us t = TOk us -> -377705023201 <= t <= 253402207200.
Proof.
  unfold epoch_us, i64_min, i64_max, ts_min_us, ts_max_us.
  destruct ((t * 1000000 <? -9223372036854775808) || (9223372036854775807 <? t * 1000000)); [discriminate|].
  destruct ((t * 1000000 <? -377705023201000000) || (253402207200000000 <? t * 1000000)) eqn:E; [discriminate|].
  intros _. apply orb_false_iff in E as [A B]. apply Z.ltb_ge in A, B. lia.
Qed.

(** [gmtime | mktime] is the identity on every whole number of seconds that [gmtime] accepts *)
Theorem mktime_of_gmtime t y m0 d h mi s rest :
  gmtime_int t = TOk (y :: m0 :: d :: h :: mi :: s :: rest) -> mktime_int y m0 d h mi s = TOk t.
Proof.
  unfold gmtime_int. destruct (epoch_us t) as [us| |] eqn:Eu; try discriminate.
  pose proof (epoch_ok_range t us Eu) as Ht. unfold broken_down.
  set (days := t / 86400). set (secs := t mod 86400).
  assert (Hs : 0 <= secs < 86400) by (unfold secs; lia).
  assert (Hd : -4371587 <= days <= 2932896) by (unfold days; lia).
  pose proof (year_bounds days Hd) as Hy. pose proof (civil_valid days) as Hv. pose proof (days_civil_roundtrip days) as Hr.
  pose proof (civil_in_range days) as Hmd.
  destruct (civil_from_days days) as [[yy mm] dd]. intros H. injection H as <- <- <- <- <- <- _.
  unfold mktime_int.
  assert (Y16 : (-32768 <=? yy) && (yy <=? 32767) = true) by (apply andb_true_intro; split; apply Z.leb_le; lia).
  rewrite Y16. cbn [negb].
  assert (F8 : (-128 <=? mm - 1) && (mm - 1 <=? 126) && (-128 <=? dd) && (dd <=? 127) && (-128 <=? secs / 3600) && (secs / 3600 <=? 127)
               && (-128 <=? secs mod 3600 / 60) && (secs mod 3600 / 60 <=? 127) = true).
  { repeat (apply andb_true_intro; split); apply Z.leb_le; lia. }
  rewrite F8. cbn [negb].
  assert (S8 : Z.max (-128) (Z.min 127 (secs mod 60)) = secs mod 60) by lia. rewrite S8.
  replace (mm - 1 + 1) with mm by lia. rewrite Hv.
  assert (R : (-9999 <=? yy) && (yy <=? 9999) && true && (0 <=? secs / 3600) && (secs / 3600 <=? 23) && (0 <=? secs mod 3600 / 60)
              && (secs mod 3600 / 60 <=? 59) && (0 <=? secs mod 60) && (secs mod 60 <=? 59) = true).
  { repeat (apply andb_true_intro; split); try reflexivity; apply Z.leb_le; lia. }
  rewrite R. cbn [negb]. rewrite Hr.
  assert (T : days * 86400 + secs / 3600 * 3600 + secs mod 3600 / 60 * 60 + secs mod 60 = t) by (unfold days, secs; lia).
  rewrite T.
  unfold epoch_us in Eu.
  destruct ((t * 1000000 <? i64_min) || (i64_max <? t * 1000000)); [discriminate|].
  destruct ((t * 1000000 <? ts_min_us) || (ts_max_us <? t * 1000000)); [discriminate|]. reflexivity.
Qed.
