(** C12: `unique_by(f)` is defined as `[group_by(f)[] | .[0]]` (defs.jq): the first element of every group.  The groups are
    the maximal runs of equal keys of the stably sorted keyed list (GroupLaws), so their first elements are exactly the
    elements of that list whose key differs from the key of the run before - the first of each run, in sorted order. *)
From Coq Require Import ZArith Bool List Lia.
From JaqV Require Import Base.Bytes Base.Stream Val.Num Val.Val Val.Err Val.Index Std.Natives Proofs.GroupLaws.
Import ListNotations.

(** the elements that start a run: [prev] is the key of the run we are in *)
Fixpoint firsts (prev : option (list val)) (l : list (list val * val)) : list (list val * val) :=
  match l with
  | [] => []
  | (k, x) :: r =>
      match prev with
      | Some p => if list_eqb_val p k then firsts (Some p) r else (k, x) :: firsts (Some k) r
      | None => (k, x) :: firsts (Some k) r
      end
  end.

Definition head_of (g : list (list val * val)) : list (list val * val) := match g with [] => [] | kv :: _ => [kv] end.

Lemma firsts_skips_run k rest : forall m, tail_eq k rest -> firsts (Some k) (rest ++ m) = firsts (Some k) m.
Proof.
  induction rest as [|[k' x'] rest IH]; intros m H; [reflexivity|].
  inversion H as [|? ? Hk Hr]; subst. cbn [fst] in Hk. cbn [app firsts]. rewrite Hk. apply IH. exact Hr.
Qed.

Theorem heads_are_the_firsts gs : maximal gs -> flat_map head_of gs = firsts None (concat gs).
Proof.
  induction 1 as [k x rest Ht|k x rest k' x' rest' gs Ht Hne Hm IH].
  - cbn [flat_map head_of concat app firsts]. rewrite app_nil_r. rewrite <- (app_nil_r rest), firsts_skips_run by exact Ht. reflexivity.
  - cbn [flat_map head_of concat app firsts] in *. rewrite firsts_skips_run by exact Ht.
    cbn [app firsts]. rewrite Hne. f_equal. exact IH.
Qed.

(** with the result of group_by: the first elements of the groups are the first elements of the runs of the sorted list *)
Corollary unique_by_keeps_the_first_of_each_run f xs kx : keyed f xs = (kx, FEnd) ->
  let sorted := sort_by (fun a b => keys_cmp (fst a) (fst b)) kx in
  exists groups, group_by_f f xs = sone (Arr (map (fun g => Arr (map snd g)) groups))
    /\ map snd (flat_map head_of groups) = map snd (firsts None sorted).
Proof.
  intros K. destruct (group_by_spec f xs kx K) as (groups & E & C & M & Z). cbv zeta in *.
  exists groups. split; [exact E|]. destruct (sort_by _ kx) as [|kv r] eqn:S.
  - rewrite (Z eq_refl). reflexivity.
  - rewrite <- C. f_equal. apply heads_are_the_firsts. apply M. discriminate.
Qed.
